/-!
# Association-list maps

Go `map[K]V` values are modelled as association lists.  All statements are in terms of
`find`; key-uniqueness (`NoDupKeys`) is a separate invariant, not a subtype.
Core Lean only (this file is imported by the compiled driver).
-/
namespace Piko

abbrev AMap (κ ν : Type) := List (κ × ν)

namespace AMap
variable {κ ν : Type} [DecidableEq κ]

def find (m : AMap κ ν) (k : κ) : Option ν :=
  match m with
  | [] => none
  | (k', v) :: rest => if k' = k then some v else find rest k

def erase (m : AMap κ ν) (k : κ) : AMap κ ν := List.filter (fun p => !decide (p.1 = k)) m

def insert (m : AMap κ ν) (k : κ) (v : ν) : AMap κ ν := (k, v) :: erase m k

def contains (m : AMap κ ν) (k : κ) : Bool := (find m k).isSome

def filterV (m : AMap κ ν) (p : ν → Bool) : AMap κ ν := List.filter (fun q => p q.2) m

def vals (m : AMap κ ν) : List ν := List.map (·.2) m

def keys (m : AMap κ ν) : List κ := List.map (·.1) m

def NoDupKeys (m : AMap κ ν) : Prop := (keys m).Nodup

@[simp] theorem find_nil (k : κ) : find ([] : AMap κ ν) k = none := rfl

@[simp] theorem find_cons (k' : κ) (v : ν) (m : AMap κ ν) (k : κ) :
    find ((k', v) :: m) k = if k' = k then some v else find m k := rfl

theorem erase_cons (p : κ × ν) (m : AMap κ ν) (k : κ) :
    erase (p :: m) k = if p.1 = k then erase m k else p :: erase m k := by
  by_cases h : p.1 = k <;> simp [erase, h]

@[simp] theorem find_erase_self (m : AMap κ ν) (k : κ) : find (erase m k) k = none := by
  induction m with
  | nil => rfl
  | cons p m ih =>
    obtain ⟨k', v⟩ := p
    rw [erase_cons]
    by_cases h : k' = k
    · simp [h, ih]
    · simp [h, ih]

theorem find_erase_ne (m : AMap κ ν) {k k' : κ} (h : k' ≠ k) :
    find (erase m k) k' = find m k' := by
  induction m with
  | nil => rfl
  | cons p m ih =>
    obtain ⟨k'', v⟩ := p
    rw [erase_cons]
    by_cases h1 : k'' = k
    · subst h1
      have : ¬ k'' = k' := fun e => h e.symm
      simp [this, ih]
    · by_cases h2 : k'' = k'
      · subst h2; simp [h1]
      · simp [h1, h2, ih]

@[simp] theorem find_insert_self (m : AMap κ ν) (k : κ) (v : ν) :
    find (insert m k v) k = some v := by simp [insert]

theorem find_insert_ne (m : AMap κ ν) {k k' : κ} (v : ν) (h : k' ≠ k) :
    find (insert m k v) k' = find m k' := by
  have : ¬ k = k' := fun e => h e.symm
  simp [insert, this, find_erase_ne m h]

theorem find_insert (m : AMap κ ν) (k k' : κ) (v : ν) :
    find (insert m k v) k' = if k = k' then some v else find m k' := by
  by_cases h : k = k'
  · subst h; simp
  · simp [h, find_insert_ne m v (fun e => h e.symm)]

theorem find_erase (m : AMap κ ν) (k k' : κ) :
    find (erase m k) k' = if k = k' then none else find m k' := by
  by_cases h : k = k'
  · subst h; simp
  · simp [h, find_erase_ne m (fun e => h e.symm)]

theorem mem_of_find {m : AMap κ ν} {k : κ} {v : ν} (h : find m k = some v) : (k, v) ∈ m := by
  induction m with
  | nil => simp at h
  | cons p m ih =>
    obtain ⟨k', v'⟩ := p
    by_cases hk : k' = k
    · subst hk; simp at h; subst h; simp
    · simp [hk] at h; exact List.mem_cons_of_mem _ (ih h)

theorem find_isSome_of_mem {m : AMap κ ν} {k : κ} {v : ν} (h : (k, v) ∈ m) : (find m k).isSome := by
  induction m with
  | nil => simp at h
  | cons p m ih =>
    obtain ⟨k', v'⟩ := p
    by_cases hk : k' = k
    · simp [hk]
    · simp only [find_cons, hk, if_false]
      rcases List.mem_cons.mp h with h | h
      · cases h; exact absurd rfl hk
      · exact ih h

theorem keys_erase_subset (m : AMap κ ν) (k : κ) : ∀ x ∈ keys (erase m k), x ∈ keys m := by
  intro x hx
  simp only [keys, erase, List.mem_map, List.mem_filter] at *
  obtain ⟨p, ⟨hp, _⟩, rfl⟩ := hx
  exact ⟨p, hp, rfl⟩

theorem not_mem_keys_erase (m : AMap κ ν) (k : κ) : k ∉ keys (erase m k) := by
  simp only [keys, erase, List.mem_map, List.mem_filter]
  rintro ⟨p, ⟨_, hp⟩, rfl⟩
  simp at hp

theorem NoDupKeys.erase {m : AMap κ ν} (h : NoDupKeys m) (k : κ) : NoDupKeys (erase m k) := by
  unfold NoDupKeys keys AMap.erase at *
  induction m with
  | nil => simp
  | cons p m ih =>
    simp only [List.map_cons, List.nodup_cons] at h
    by_cases hk : p.1 = k
    · simp [List.filter, hk]; simpa using ih h.2
    · simp only [List.filter, hk, decide_false, Bool.not_false, List.map_cons, List.nodup_cons]
      refine ⟨?_, by simpa using ih h.2⟩
      intro hmem
      apply h.1
      simp only [List.mem_map, List.mem_filter] at hmem ⊢
      obtain ⟨q, ⟨hq, _⟩, e⟩ := hmem
      exact ⟨q, hq, e⟩

theorem NoDupKeys.insert {m : AMap κ ν} (h : NoDupKeys m) (k : κ) (v : ν) :
    NoDupKeys (insert m k v) := by
  have h1 := h.erase k
  have h2 := not_mem_keys_erase m k
  unfold NoDupKeys keys AMap.insert at *
  simp only [List.map_cons, List.nodup_cons]
  exact ⟨h2, h1⟩

omit [DecidableEq κ] in
theorem noDupKeys_nil : NoDupKeys ([] : AMap κ ν) := by simp [NoDupKeys, keys]

end AMap
end Piko
