/-!
# Model of `pkg/auth/jwtverifier.go`, `pkg/auth/multi_tenant_verifier.go`, `pkg/auth/verifier.go`

Cryptography is **not** modelled.  A token string is described by its ground truth
`TokenFacts`: whether it parses, its header `alg`/`kid`, *which key actually produced a
signature that verifies over the exact bytes* (or none), and its claims.  `verify` is the
decision procedure of `JWTVerifier.Verify` on top of golang-jwt v5.3.1
`Parser.ParseWithClaims` (order: parse, valid-methods, keyfunc, signature, claims) and
MicahParks/keyfunc v3.8.0 `Keyfunc` for the JWKS case.  Core Lean only.
-/
namespace Piko
namespace Auth

/-- family of a JWT `alg` header value as registered in golang-jwt (`GetSigningMethod`) -/
inductive AlgFam
  | hs | rs | ps | es | ed | none | unknown
deriving DecidableEq, Repr, Inhabited

/-- `jwt.GetSigningMethod`: the registered method names; anything else is unavailable -/
def algFam (alg : String) : AlgFam :=
  if alg = "HS256" ∨ alg = "HS384" ∨ alg = "HS512" then .hs
  else if alg = "RS256" ∨ alg = "RS384" ∨ alg = "RS512" then .rs
  else if alg = "PS256" ∨ alg = "PS384" ∨ alg = "PS512" then .ps
  else if alg = "ES256" ∨ alg = "ES384" ∨ alg = "ES512" then .es
  else if alg = "EdDSA" then .ed
  else if alg = "none" then .none
  else .unknown

/-- Go type of a verification key: `[]byte`, `*rsa.PublicKey`, `*ecdsa.PublicKey`, `ed25519.PublicKey` -/
inductive KeyType
  | oct | rsa | ec | okp
deriving DecidableEq, Repr, Inhabited

/-- the type assertion at the top of every `SigningMethod*.Verify`: HMAC wants `[]byte`,
RSA and RSA-PSS want `*rsa.PublicKey`, ECDSA wants `*ecdsa.PublicKey`, Ed25519 wants
`ed25519.PublicKey`; `none` wants the magic constant no key ever is. -/
def AlgFam.accepts : AlgFam → KeyType → Bool
  | .hs, .oct => true
  | .rs, .rsa => true
  | .ps, .rsa => true
  | .es, .ec => true
  | .ed, .okp => true
  | _, _ => false

/-- a verification key of one verifier: the three static keys of `LoadedConfig` or a JWK of
its key set -/
inductive KeyRef
  | hmac | rsa | ecdsa
  | jwk (kid : String)
deriving DecidableEq, Repr, Inhabited

/-- who produced the signature segment: `key owner k` = the holder of the secret/private
counterpart of key `k` of the verifier named `owner` ("" = the default verifier, else the
tenant id) signed exactly these header.payload bytes with the header's `alg`;
`emptyHmac` = an HMAC with the empty secret (what an unconfigured `hmacSecretKey` is);
`other` = anything else (foreign key, public-key bytes used as an HMAC secret, tampered
segment, empty or garbage signature). -/
inductive Signer
  | key (owner : String) (k : KeyRef)
  | emptyHmac
  | other
deriving DecidableEq, Repr, Inhabited

/-- the `kid` header field -/
inductive Kid
  | absent
  | str (s : String)
  | nonString
deriving DecidableEq, Repr, Inhabited

/-- ground truth about one token string -/
structure TokenFacts where
  /-- three segments, base64url, JSON header and claims decode into `JWTClaims`, `alg` is a string -/
  wellFormed : Bool := false
  alg : String := ""
  kid : Kid := .absent
  signer : Signer := .other
  /-- the signature segment has the byte length the `alg`'s method insists on before it
  touches the key (`SigningMethodECDSA.Verify`: `len(sig) == 2*KeySize`); only consulted on
  the nil-key path of a keyless verifier -/
  sigLenOk : Bool := true
  /-- `exp`, `nbf` (same unit as `now`) -/
  exp : Option Int := none
  nbf : Option Int := none
  aud : List String := []
  iss : String := ""
  /-- the `piko.endpoints` claim -/
  endpoints : List String := []
deriving DecidableEq, Repr, Inhabited

structure Jwk where
  kid : String
  kty : KeyType
  /-- the JWK's own `alg` parameter, "" when absent -/
  alg : String := ""
deriving DecidableEq, Repr, Inhabited

/-- `LoadedConfig` as far as `NewJWTVerifier` reads it -/
structure Cfg where
  hmac : Bool := false
  rsa : Bool := false
  ecdsa : Bool := false
  jwks : Option (List Jwk) := none
  audience : String := ""
  issuer : String := ""
  disableDisconnectOnExpiry : Bool := false
deriving DecidableEq, Repr, Inhabited

/-- `Config.Enabled` -/
def Cfg.enabled (c : Cfg) : Bool := c.hmac || c.rsa || c.ecdsa || c.jwks.isSome

/-- `auth.Config` (the flag/YAML form) as far as `Enabled` and `Load` read it: whether each
key string is non-empty, and the key set the JWKS endpoint serves (`none`: no endpoint). -/
structure RawCfg where
  hmacSecret : Bool := false
  rsaPEM : Bool := false
  ecdsaPEM : Bool := false
  jwksEndpoint : Option (List Jwk) := none
  audience : String := ""
  issuer : String := ""
  disableDisconnectOnExpiry : Bool := false
deriving DecidableEq, Repr, Inhabited

/-- `Config.Enabled` on the raw configuration -/
def RawCfg.enabled (c : RawCfg) : Bool :=
  c.hmacSecret || c.rsaPEM || c.ecdsaPEM || c.jwksEndpoint.isSome

/-- `Config.Load` followed by `NewJWTVerifier`'s reading of the result.  `Load` always sets
`HMACSecretKey = []byte(c.HMACSecretKey)` — an **empty but non-nil** slice when no secret
is configured — and `NewJWTVerifier` enables the HS* methods only for `len(...) > 0`, so the
HMAC key is configured exactly when the secret string is non-empty.  `none`: `Load` fails
(a JWKS endpoint together with any other key; PEM parse errors are not modelled). -/
def RawCfg.load (c : RawCfg) : Option Cfg :=
  if c.jwksEndpoint.isSome && (c.hmacSecret || c.rsaPEM || c.ecdsaPEM) then none
  else some { hmac := c.hmacSecret, rsa := c.rsaPEM, ecdsa := c.ecdsaPEM, jwks := c.jwksEndpoint,
              audience := c.audience, issuer := c.issuer,
              disableDisconnectOnExpiry := c.disableDisconnectOnExpiry }

/-- `auth.Token` -/
structure Token where
  expiry : Option Int := none
  endpoints : List String := []
  tenant : String := ""
deriving DecidableEq, Repr, Inhabited

inductive VerifyErr
  | invalid        -- ErrInvalidToken
  | expired        -- ErrExpiredToken
  | unknownTenant  -- ErrUnknownTenant
  | other          -- any other error value (no piko verifier returns one)
deriving DecidableEq, Repr, Inhabited

inductive VResult
  | ok (t : Token)
  | err (e : VerifyErr)
  /-- nil public key dereferenced inside crypto/rsa or crypto/ecdsa (only a verifier built
  from a configuration with no key at all can get there) -/
  | panic
deriving DecidableEq, Repr, Inhabited

/-- `NewJWTVerifier`: `v.methods`; `none` is the nil slice, which makes
`jwt.WithValidMethods(nil)` a no-op (parser.go: `if p.validMethods != nil`). -/
def Cfg.methods (c : Cfg) : Option (List String) :=
  let m := (if c.hmac then ["HS256", "HS384", "HS512"] else []) ++
           (if c.rsa then ["RS256", "RS384", "RS512"] else []) ++
           (if c.ecdsa then ["ES256", "ES384", "ES512"] else [])
  if m = [] then none else some m

def Cfg.methodAllowed (c : Cfg) (alg : String) : Bool :=
  match c.methods with
  | none => true
  | some ms => ms.contains alg

def KeyRef.type (jwks : List Jwk) : KeyRef → Option KeyType
  | .hmac => some .oct
  | .rsa => some .rsa
  | .ecdsa => some .ec
  | .jwk kid => (jwks.find? (fun j => j.kid = kid)).map (·.kty)

/-- result of the key function handed to `jwt.ParseWithClaims` -/
inductive KeyLookup
  | one (k : KeyRef) (t : KeyType)
  | emptySecret                       -- `[]byte(nil)`: HMAC not configured
  | nilKey                            -- `(*rsa.PublicKey)(nil)` / `(*ecdsa.PublicKey)(nil)`
  | set (ks : List (KeyRef × KeyType)) -- `jwt.VerificationKeySet` (JWKS, no `kid`)
  | error
deriving Repr

/-- keyfunc v3 `Keyfunc`: no `kid` ⇒ the whole set; `kid` not a string ⇒ error; unknown
`kid` ⇒ error; the JWK's `alg`, when present, must equal the token's. -/
def jwksLookup (jwks : List Jwk) (tok : TokenFacts) : KeyLookup :=
  match tok.kid with
  | .absent => .set (jwks.map fun j => (.jwk j.kid, j.kty))
  | .nonString => .error
  | .str kid =>
    match jwks.find? (fun j => j.kid = kid) with
    | none => .error
    | some j => if j.alg ≠ "" ∧ j.alg ≠ tok.alg then .error else .one (.jwk j.kid) j.kty

/-- the key function of `JWTVerifier.Verify`: JWKS first, else the switch on `alg` -/
def keyLookup (c : Cfg) (tok : TokenFacts) : KeyLookup :=
  match c.jwks with
  | some jwks => jwksLookup jwks tok
  | none =>
    if tok.alg = "HS256" ∨ tok.alg = "HS384" ∨ tok.alg = "HS512" then
      (if c.hmac then .one .hmac .oct else .emptySecret)
    else if tok.alg = "RS256" ∨ tok.alg = "RS384" ∨ tok.alg = "RS512" then
      (if c.rsa then .one .rsa .rsa else .nilKey)
    else if tok.alg = "ES256" ∨ tok.alg = "ES384" ∨ tok.alg = "ES512" then
      (if c.ecdsa then .one .ecdsa .ec else .nilKey)
    else .error

/-- `token.Method.Verify(text, sig, key)` for a key of verifier `owner`: the type assertion,
then the signature itself (ground truth). -/
def sigOkKey (owner : String) (tok : TokenFacts) (k : KeyRef) (t : KeyType) : Bool :=
  (algFam tok.alg).accepts t && decide (tok.signer = .key owner k)

inductive SigResult | good | bad | panic
deriving DecidableEq, Repr

def checkSignature (owner : String) (c : Cfg) (tok : TokenFacts) : SigResult :=
  match keyLookup c tok with
  | .error => .bad
  | .one k t => if sigOkKey owner tok k t then .good else .bad
  | .emptySecret =>
    -- HMAC over the empty secret: only reachable for `alg` ∈ HS*
    if decide (tok.signer = .emptyHmac) then .good else .bad
  | .nilKey =>
    -- ECDSA rejects a signature of the wrong length before it dereferences the (nil) key
    if algFam tok.alg = .es ∧ tok.sigLenOk = false then .bad else .panic
  | .set ks =>
    if ks = [] then .bad
    else if ks.any (fun p => sigOkKey owner tok p.1 p.2) then .good else .bad

/-- `Validator.verifyAudience` with `WithAudience(a)` (`expectAllAud = false`) -/
def audOk (cfgAud : String) (aud : List String) : Bool :=
  cfgAud = "" || (!(aud = [] || aud = [""]) && aud.contains cfgAud)

/-- `Validator.verifyIssuer` with `WithIssuer(i)` -/
def issOk (cfgIss : String) (iss : String) : Bool :=
  cfgIss = "" || (iss ≠ "" && iss = cfgIss)

/-- `now.Before(exp)` -/
def notExpired (now : Int) (tok : TokenFacts) : Bool :=
  match tok.exp with
  | none => true
  | some e => now < e

/-- `!now.Before(nbf)` -/
def nbfOk (now : Int) (tok : TokenFacts) : Bool :=
  match tok.nbf with
  | none => true
  | some n => n ≤ now

/-- `Validator.Validate`: all failures are joined; `JWTVerifier.Verify` then asks
`errors.Is(err, jwt.ErrTokenExpired)` first, so an expired token is `expired` whatever
else is wrong with its claims. -/
def checkClaims (c : Cfg) (now : Int) (tok : TokenFacts) : Option VerifyErr :=
  if !notExpired now tok then some .expired
  else if !nbfOk now tok then some .invalid
  else if !audOk c.audience tok.aud then some .invalid
  else if !issOk c.issuer tok.iss then some .invalid
  else none

/-- `JWTVerifier.Verify` for the verifier named `owner`.  Order as in
`Parser.ParseWithClaims`: (1) `ParseUnverified` — malformed, or `alg` not registered;
(2) `validMethods`; (3) key function; (4) signature; (5) claims. -/
def verify (owner : String) (c : Cfg) (now : Int) (tok : TokenFacts) : VResult :=
  if !tok.wellFormed then .err .invalid
  else if algFam tok.alg = .unknown then .err .invalid
  else if !c.methodAllowed tok.alg then .err .invalid
  else
    match checkSignature owner c tok with
    | .panic => .panic
    | .bad => .err .invalid
    | .good =>
      match checkClaims c now tok with
      | some e => .err e
      | none =>
        .ok { expiry := if c.disableDisconnectOnExpiry then none else tok.exp,
              endpoints := tok.endpoints, tenant := "" }

/-- a `MultiTenantVerifier`: the default verifier and the tenant table (a Go map: keys unique) -/
structure MTCfg where
  dflt : Cfg := {}
  tenants : List (String × Cfg) := []
deriving Repr, Inhabited

def MTCfg.find (m : MTCfg) (tenant : String) : Option Cfg :=
  (m.tenants.find? (fun p => p.1 = tenant)).map (·.2)

/-- `MultiTenantVerifier.Verify`.  The default verifier is consulted only when the tenant
header is empty **and** no tenant is configured; a non-empty header never reaches it. -/
def verifyMT (m : MTCfg) (now : Int) (tok : TokenFacts) (tenant : String) : VResult :=
  if tenant = "" then
    if m.tenants ≠ [] then .err .unknownTenant
    else verify "" m.dflt now tok
  else
    match m.find tenant with
    | none => .err .unknownTenant
    | some c =>
      match verify tenant c now tok with
      | .ok t => .ok { t with tenant := tenant }
      | r => r

/-- the verifier wiring of `server/server.go` for one port: no verifier at all
(`some none`) unless the port's auth is enabled or it has tenants; otherwise the default
verifier from `Load` and one verifier per tenant.  `none`: a `Load` failed (the node does
not start). -/
def wire (dflt : RawCfg) (tenants : List (String × RawCfg)) : Option (Option MTCfg) :=
  if !dflt.enabled && tenants.isEmpty then some none
  else
    match dflt.load, tenants.mapM (fun p => p.2.load.map (fun c => (p.1, c))) with
    | some d, some ts => some (some { dflt := d, tenants := ts })
    | _, _ => none

/-- `Token.EndpointPermitted` -/
def endpointPermitted (t : Token) (endpointID : String) : Bool :=
  t.endpoints.length = 0 || t.endpoints.contains endpointID

end Auth
end Piko
