import PikoModel.Generated.Facts
/-!
# Model of gin v1.11.0 handler-chain construction and request dispatch

`RouterGroup.Use` appends to the group's `Handlers`; `RouterGroup.Group` **copies** the
parent's handlers at creation (`combineHandlers`); `RouterGroup.handle` registers
`group.Handlers ++ handlers` as the route's chain (captured at registration);
`Engine.Use` and `Engine.NoRoute` rebuild `allNoRoute = engine.Handlers ++ noRoute`
(`rebuild404Handlers`).  `dispatch` is `Engine.handleHTTPRequest`: route of the method's
tree, else trailing-slash redirect (**before** any middleware runs), else the no-route
chain.  gin's radix tree is modelled by segment matching (static segments win over
`:param`).  Core Lean only.
-/
namespace Piko
namespace Gin

/-- a handler, by the source text of the expression that was registered -/
abbrev H := String

inductive Ev
  | use (recv : String) (h : H)
  | group (parent new path : String)
  | route (recv method path : String) (mws : List H) (h : H)
  | noRoute (hs : List H)
deriving DecidableEq, Repr

structure Route where
  method : String
  path : String
  chain : List H
deriving DecidableEq, Repr

structure Engine where
  /-- `engine.RouterGroup.Handlers` -/
  handlers : List H := []
  /-- group id ↦ (basePath, Handlers) -/
  groups : List (String × (String × List H)) := []
  routes : List Route := []
  noRoute : List H := []
  allNoRoute : List H := []
  /-- an event named a group that does not exist (never for a table extracted from code that compiles) -/
  bad : Bool := false
deriving Repr

/-! String helpers by structural recursion on characters, so that `decide` can evaluate the
chain model and the dispatch on the regenerated tables. -/

/-- split at every occurrence of the character `sep` -/
def splitChar (sep : Char) : List Char → List Char → List (List Char)
  | [], cur => [cur.reverse]
  | c :: rest, cur => if c = sep then cur.reverse :: splitChar sep rest [] else splitChar sep rest (c :: cur)

def endsWithSlash (p : String) : Bool := p.toList.getLast? = some '/'

def startsWithChar (c : Char) (p : String) : Bool := p.toList.head? = some c

def dropTrailingSlash (p : String) : String :=
  if endsWithSlash p then String.ofList p.toList.dropLast else p

/-- gin `joinPaths` for clean arguments -/
def joinPaths (abs rel : String) : String :=
  if rel = "" then abs
  else dropTrailingSlash abs ++ (if startsWithChar '/' rel then rel else "/" ++ rel)

def Engine.lookup (s : Engine) (recv : String) : Option (String × List H) :=
  if recv = "engine" then some ("/", s.handlers)
  else (s.groups.find? (fun p => p.1 = recv)).map (·.2)

def Engine.step (s : Engine) : Ev → Engine
  | .use recv h =>
    if recv = "engine" then
      { s with handlers := s.handlers ++ [h], allNoRoute := (s.handlers ++ [h]) ++ s.noRoute }
    else
      match s.groups.find? (fun p => p.1 = recv) with
      | none => { s with bad := true }
      | some _ =>
        { s with groups := s.groups.map fun p => if p.1 = recv then (p.1, (p.2.1, p.2.2 ++ [h])) else p }
  | .group parent new path =>
    match s.lookup parent with
    | none => { s with bad := true }
    | some (base, hs) =>
      { s with groups := (new, (joinPaths base path, hs)) :: s.groups.filter (fun p => p.1 ≠ new) }
  | .route recv method path mws h =>
    match s.lookup recv with
    | none => { s with bad := true }
    | some (base, hs) =>
      { s with routes := s.routes ++ [{ method := method, path := joinPaths base path, chain := hs ++ mws ++ [h] }] }
  | .noRoute hs => { s with noRoute := hs, allNoRoute := s.handlers ++ hs }

def build (evs : List Ev) : Engine := evs.foldl Engine.step {}

/-- an event under the `if` conditions it is nested in -/
structure GEv where
  ev : Ev
  guards : List String := []
deriving DecidableEq, Repr

/-- the events that execute when exactly the guards satisfying `on` hold -/
def enabled (on : String → Bool) (gevs : List GEv) : List Ev :=
  (gevs.filter (fun g => g.guards.all on)).map (·.ev)

/-- static shape check: only engine-level `Use` calls come before `Use(auth)` on the engine -/
def authFirst (auth : H) : List Ev → Bool
  | .use recv h :: rest => recv = "engine" && (h = auth || authFirst auth rest)
  | _ => false

/-- the handlers `Use`d ahead of the auth middleware -/
def preAuth (auth : H) : List Ev → List H
  | .use _ h :: rest => if h = auth then [] else h :: preAuth auth rest
  | _ => []

/-- Middleware that may be `Use`d ahead of the auth middleware: handlers that only observe —
they call `c.Next()` unconditionally, never write a response before it and never hand the
request to anything else.  `gin.CustomRecoveryWithWriter` only installs a deferred `recover`.
(That these expressions behave so is part of the trusted base; the `auth` engine checks it on
the real servers: a rejected request gets 401 and reaches no handler, upstream or peer.)
Anything else ahead of `Use(auth)` — in particular a middleware that can answer or forward a
request, like admin's `forwardInterceptor` — breaks `C09_chain_*`. -/
def passiveHandlers : List H := ["gin.CustomRecoveryWithWriter()"]

/-- the same on a guarded table: the auth `Use` is under exactly the guard `ga`, everything
before it is an engine-level `Use` (under any guard) of a handler of `passiveHandlers` -/
def authFirstG (auth : H) (ga : String) : List GEv → Bool
  | ⟨.use recv h, gs⟩ :: rest =>
    recv = "engine" && ((h = auth && gs = [ga]) ||
      (h ≠ auth && passiveHandlers.contains h && authFirstG auth ga rest))
  | _ => false

/-! ## Extracted tables -/

/-- one row of `Generated/Facts.lean` (`RouteEvent`) -/
structure Raw where
  kind : String
  recv : String
  a : String
  b : String
  guard : String
deriving DecidableEq, Repr

/-- split at every `" && "` (structural, so that `decide` can evaluate it on the tables) -/
def splitAmp : List Char → List Char → List (List Char)
  | [], cur => [cur.reverse]
  | ' ' :: '&' :: '&' :: ' ' :: rest, cur => cur.reverse :: splitAmp rest []
  | c :: rest, cur => splitAmp rest (c :: cur)

def splitGuards (g : String) : List String :=
  if g = "" then [] else (splitAmp g.toList []).map String.ofList

def ofRawAux : List Raw → List H → Option (List GEv)
  | [], _ => some []
  | r :: rest, pending =>
    if r.kind = "routeuse" then ofRawAux rest (pending ++ [r.a])
    else
      let ev : Option Ev :=
        if r.kind = "use" then some (.use r.recv r.a)
        else if r.kind = "group" then some (.group r.recv r.a r.b)
        else if r.kind = "route" then some (.route r.recv r.a r.b pending ("handler " ++ r.a ++ " " ++ r.recv ++ r.b))
        else if r.kind = "noroute" ∧ r.recv = "engine" then some (.noRoute ((splitChar ';' r.a.toList []).map String.ofList))
        else none
      match ev, ofRawAux rest [] with
      | some e, some tl => some (⟨e, splitGuards r.guard⟩ :: tl)
      | _, _ => none

/-- a table of the fact extractor as guarded events; `none` when it contains a row the
model does not understand (`dyncall`, unknown kinds) -/
def ofRaw (rs : List Raw) : Option (List GEv) := ofRawAux rs []

/-- `admin.Server.AddStatus(key, handler)`: the events of `AddStatus` with the group ids made
unique for this call, `$route` replaced by `key`, and the dynamic `handler.Register(group)`
replaced by the events of that handler's `Register` (whose receiver is its parameter `group`). -/
def inlineStatus (addStatus : List Raw) (key : String) (reg : List Raw) : List Raw :=
  let ren (g : String) : String := if g = "engine" then g else g ++ "@" ++ key
  addStatus.flatMap fun r =>
    if r.kind = "dyncall" then
      reg.map fun q => { q with recv := if q.recv = "group" then ren r.recv else q.recv }
    else if r.kind = "group" then
      [{ r with recv := ren r.recv, a := ren r.a, b := if r.b = "$route" then key else r.b }]
    else [{ r with recv := ren r.recv }]

/-- the admin engine after `NewServer` and the `AddStatus` calls for `keys` (in that order) -/
def adminTable (newServer addStatus : List Raw) (status : List (String × List Raw)) (keys : List String) : List Raw :=
  newServer ++ keys.flatMap fun k =>
    match status.find? (fun p => p.1 = k) with
    | some p => inlineStatus addStatus k p.2
    | none => [{ kind := "unknown-status", recv := "", a := k, b := "", guard := "" }]

/-! ## Dispatch -/

def segs (p : String) : List String := (splitChar '/' p.toList []).map String.ofList

/-- number of `:param` segments bound, or `none` when the pattern does not match -/
def matchSegs : List String → List String → Option (List String)
  | [], [] => some []
  | p :: ps, s :: ss =>
    if startsWithChar ':' p then
      (if s = "" then none else (matchSegs ps ss).map (s :: ·))
    else if p = s then matchSegs ps ss else none
  | _, _ => none

/-- the route of `method`'s tree matching `path` (static segments before parameters) and the
parameter values in order -/
def findRoute (routes : List Route) (method path : String) : Option (Route × List String) :=
  let ms := routes.filterMap fun r =>
    if r.method = method then (matchSegs (segs r.path) (segs path)).map (fun ps => (r, ps)) else none
  match ms.filter (fun m => m.2.length = 0) with
  | m :: _ => some m
  | [] => ms.head?

inductive Dispatch
  | route (r : Route) (params : List String)
  /-- `redirectTrailingSlash`: 301 for GET, 307 otherwise; no handler of any chain runs -/
  | redirect (code : Nat)
  | noRoute (chain : List H)
deriving Repr

/-- the trailing-slash sibling of a path -/
def altPath (path : String) : String :=
  if endsWithSlash path then dropTrailingSlash path else path ++ "/"

/-- gin's `value.tsr && RedirectTrailingSlash` for a path that matched no route: the method
has a tree, the method is not CONNECT, the path is not "/", and the sibling path is a route -/
def tsrApplies (s : Engine) (method path : String) : Bool :=
  s.routes.any (fun r => r.method = method) && method != "CONNECT" && path != "/" &&
    (findRoute s.routes method (altPath path)).isSome

/-- `Engine.handleHTTPRequest` with gin's defaults (`RedirectTrailingSlash`, no fixed-path
redirect, no 405 handling) -/
def dispatch (s : Engine) (method path : String) : Dispatch :=
  match findRoute s.routes method path with
  | some (r, ps) => .route r ps
  | none =>
    if tsrApplies s method path then .redirect (if method = "GET" then 301 else 307)
    else .noRoute s.allNoRoute

/-- what the engine did with a request, given the decision of the auth middleware `auth`
for it (`none` = it called `Next`, `some (status, reason)` = it aborted with that answer);
every other handler of a chain calls `Next` -/
inductive Response
  /-- trailing-slash redirect: no handler of any chain ran, the middleware was not asked -/
  | redirect (code : Nat)
  /-- the auth middleware aborted: nothing after it ran -/
  | aborted (status : Nat) (reason : String)
  /-- the whole chain ran (route handler, no-route handler, or the default 404) -/
  | ran (chain : List H)
deriving DecidableEq, Repr

def runChain (auth : H) (deny : Option (Nat × String)) (chain : List H) : Response :=
  if chain.contains auth then
    match deny with
    | some (s, why) => .aborted s why
    | none => .ran chain
  else .ran chain

/-- `Engine.ServeHTTP` -/
def respond (s : Engine) (auth : H) (deny : Option (Nat × String)) (method path : String) : Response :=
  match dispatch s method path with
  | .redirect c => .redirect c
  | .route r _ => runChain auth deny r.chain
  | .noRoute chain => runChain auth deny chain

/-! ## The regenerated tables (`Generated/Facts.lean`, G4) -/

def rawOf (e : Facts.RouteEvent) : Raw := ⟨e.kind, e.recv, e.a, e.b, e.guard⟩

/-- the handler text of `router.Use(authMiddleware.Verify)` with `authMiddleware := middleware.NewAuth(…)` -/
def authHandler : H := "middleware.NewAuth().Verify"

/-- the guard the three constructors put around it -/
def authGuard : String := "verifier != nil"

def proxyTable : Option (List GEv) :=
  Facts.routes_proxy.bind fun l => ofRaw (l.map rawOf)

def upstreamTable : Option (List GEv) :=
  Facts.routes_upstream.bind fun l => ofRaw (l.map rawOf)

/-- `admin.NewServer` followed by `AddStatus` for each of `keys` -/
def adminTableFor (keys : List String) : Option (List GEv) :=
  match Facts.routes_admin, Facts.routes_admin_AddStatus, Facts.routes_admin_status with
  | some ns, some as, some st =>
    ofRaw (adminTable (ns.map rawOf) (as.map rawOf) (st.map fun p => (p.1, p.2.map rawOf)) keys)
  | _, _, _ => none

/-- every `AddStatus` call of `server/server.go`, in source order -/
def adminStatusKeys : Option (List String) := Facts.routes_admin_status.map (·.map (·.1))

def adminFullTable : Option (List GEv) := adminStatusKeys.bind adminTableFor

end Gin
end Piko
