import PikoModel.Auth.Verifier
/-!
# Model of `pkg/middleware/auth.go` and of the token checks in the three route functions

`Req` carries the three header values the middleware reads (`Header.Get`: "" when the
header is absent **or** empty).  The world is a function `facts : String → TokenFacts`
giving the ground truth of every token string.  `authorize` is `Auth.Verify`: its result
says which status was written and whether `c.Next()` ran (and with which `*auth.Token` in
the context).  Core Lean only.
-/
namespace Piko
namespace Auth

structure Req where
  /-- `x-piko-authorization` -/
  xPikoAuth : String := ""
  /-- `Authorization` -/
  authorization : String := ""
  /-- `x-piko-tenant-id` -/
  tenant : String := ""
deriving DecidableEq, Repr, Inhabited

inductive ParseErr
  | missing          -- "missing authorization"
  | invalidHeader    -- "invalid authorization" (no space)
  | unsupportedType  -- "unsupported auth type"
deriving DecidableEq, Repr, Inhabited

/-- `strings.Cut` at the first space, on characters -/
def cutChars : List Char → Option (List Char × List Char)
  | [] => none
  | c :: cs =>
    if c = ' ' then some ([], cs)
    else match cutChars cs with
      | none => none
      | some (a, b) => some (c :: a, b)

/-- `strings.Cut(s, " ")` -/
def cutSpace (s : String) : Option (String × String) :=
  match cutChars s.toList with
  | none => none
  | some (a, b) => some (String.ofList a, String.ofList b)

/-- the header the middleware reads: `x-piko-authorization` unless it is empty -/
def chosenHeader (r : Req) : String :=
  if r.xPikoAuth = "" then r.authorization else r.xPikoAuth

/-- `Auth.parseToken` -/
def parseToken (r : Req) : Except ParseErr String :=
  let authorization := chosenHeader r
  if authorization = "" then .error .missing
  else
    match cutSpace authorization with
    | none => .error .invalidHeader
    | some (authType, tokenString) =>
      if authType ≠ "Bearer" then .error .unsupportedType else .ok tokenString

/-- what `Auth.Verify` did with the request -/
inductive Outcome
  /-- `c.Set(TokenContextKey, token); c.Next()` -/
  | accept (t : Token)
  /-- `c.AbortWithStatusJSON(status, {"error": reason})` / `AbortWithStatus(500)`; `Next` not called -/
  | reject (status : Nat) (reason : String)
  /-- the verifier panicked (keyless verifier only); `Next` not called by the middleware -/
  | panic
deriving DecidableEq, Repr, Inhabited

def Outcome.nextCalled : Outcome → Bool
  | .accept _ => true
  | _ => false

/-- the `errors.Is` ladder of `Auth.Verify` -/
def statusOfErr : VerifyErr → Nat × String
  | .invalid => (401, "invalid token")
  | .expired => (401, "expired token")
  | .unknownTenant => (401, "unknown tenant")
  | .other => (500, "")

def parseErrReason : ParseErr → String
  | .missing => "missing authorization"
  | .invalidHeader => "invalid authorization"
  | .unsupportedType => "unsupported auth type"

/-- the middleware on top of an arbitrary verifier result (any `auth.Verifier`s inside the
`MultiTenantVerifier`) -/
def outcomeOf : VResult → Outcome
  | .ok t => .accept t
  | .err e => .reject (statusOfErr e).1 (statusOfErr e).2
  | .panic => .panic

/-- `Auth.Verify` with the real `MultiTenantVerifier` over `JWTVerifier`s -/
def authorize (facts : String → TokenFacts) (m : MTCfg) (now : Int) (r : Req) : Outcome :=
  match parseToken r with
  | .error e => .reject 401 (parseErrReason e)
  | .ok tokenString => outcomeOf (verifyMT m now (facts tokenString) r.tenant)

/-- what the rest of the gin chain sees of the middleware's decision: `none` = `c.Next()`,
`some (status, reason)` = aborted with that answer (a panic is turned into 500 by the
recovery middleware `Use`d first) -/
def denyOf : Outcome → Option (Nat × String)
  | .accept _ => none
  | .reject s why => some (s, why)
  | .panic => some (500, "panic")

/-! ## The route functions' use of the token -/

/-- `proxy.EndpointIDFromRequest`; `host` is `r.Host` with the port stripped as
`net.SplitHostPort` did it and `isIP` is `net.ParseIP(host) != nil` (library parameters). -/
def endpointIdFromRequest (xPikoEndpoint : String) (host : String) (isIP : Bool) : String :=
  if xPikoEndpoint ≠ "" then xPikoEndpoint
  else if host = "" then ""
  else if isIP then ""
  else if host.toList.contains '.' then
    -- `strings.Split(host, ".")[0]`: everything before the first dot
    String.ofList (host.toList.takeWhile (fun c => c ≠ '.'))
  else ""

/-- what a route function did -/
inductive RouteResult
  | badRequest                      -- 400 "missing endpoint id"
  | notPermitted (checked : String) -- 401 "endpoint not permitted"
  /-- the request went on: `routed` is the endpoint id handed to `Select` (proxy) or to
  `NewConnUpstream` (upstream registration); `checked` is the one `EndpointPermitted` saw
  (`none`: no token in the context, i.e. authentication disabled) -/
  | proceed (checked : Option String) (routed : String) (tenant : String)
deriving DecidableEq, Repr, Inhabited

/-- the shared body: permission check on `endpointID`, then go on with the same `endpointID` -/
def checkAndRoute (tok : Option Token) (endpointID : String) : RouteResult :=
  match tok with
  | none => .proceed none endpointID ""
  | some t =>
    if !endpointPermitted t endpointID then .notPermitted endpointID
    else .proceed (some endpointID) endpointID t.tenant

/-- `proxy.Server.proxyHTTPRoute` (the engine's `NoRoute` handler) -/
def proxyHTTPRoute (tok : Option Token) (xPikoEndpoint host : String) (isIP : Bool) : RouteResult :=
  let endpointID := endpointIdFromRequest xPikoEndpoint host isIP
  if endpointID = "" then .badRequest else checkAndRoute tok endpointID

/-- `proxy.Server.proxyTCPRoute`: `c.Param("endpointID")` of `/_piko/v1/tcp/:endpointID` -/
def proxyTCPRoute (tok : Option Token) (param : String) : RouteResult :=
  checkAndRoute tok param

/-- `upstream.Server.upstreamRoute`: `c.Param("endpointID")` of `/piko/v1/upstream/:endpointID`;
the result's `routed` is the id the upstream is registered under (`AddConn`). -/
def upstreamRoute (tok : Option Token) (param : String) : RouteResult :=
  checkAndRoute tok param

end Auth
end Piko
