import PikoModel.Cluster.State
import PikoModel.Gossip.State
/-!
# Model of `server/gossip/syncer.go` (the seven `gossip.Watcher` callbacks)

`Sync` is the syncer's mutable state: its `pendingNodes` map and the `cluster.State` it
writes to.  `syncStep` dispatches one watcher event to the callback that handles it.  Every
callback is transcribed branch by branch; the comments name the Go lines.  Places where the
callback consults the routing **table first and falls back to pending** are marked `[T→P]`:

* `OnJoin`        : `clusterState.Node(id)` (in table → return), then `pendingNodes[id]`;
* `OnLeave`       : `UpdateRemoteStatus(id, left)` succeeded → return, else pending is *deleted*;
* `OnReachable`   : `UpdateRemoteStatus(id, active)` succeeded → return, else `pending.Status = active`;
* `OnUnreachable` : `UpdateRemoteStatus(id, unreachable)` …, else `pending.Status = unreachable`;
* `OnExpired`     : `RemoveNode(id)` succeeded → return, else pending is deleted;
* `OnUpsertKey`   : address keys: `clusterState.Node(id)` found → return (sticky addresses);
                    endpoint keys: `UpdateRemoteEndpoint` succeeded → return; else pending;
* `OnDeleteKey`   : `RemoveRemoteEndpoint` succeeded → return; else pending.

Logging and the syncer mutex are omitted (the gossip state mutex already serialises the
callbacks).  Go strings are byte strings; the model uses `String` (the correspondence
generator only sends valid UTF-8, for which `HasPrefix`/`CutPrefix` on bytes and on
characters agree).  Core Lean only.
-/
namespace Piko
namespace Cluster

/-- `strings.CutPrefix` on character lists -/
def cutPrefixL : List Char → List Char → Option (List Char)
  | [], s => some s
  | _ :: _, [] => none
  | a :: p, b :: s => if a = b then cutPrefixL p s else none

/-- `strings.CutPrefix(s, p)`; `none` = `strings.HasPrefix(s, p)` is false -/
def cutPrefix (p s : String) : Option String :=
  (cutPrefixL p.toList s.toList).map String.ofList

def endpointPrefix : String := "endpoint:"
def proxyAddrKey : String := "proxy_addr"
def adminAddrKey : String := "admin_addr"

/-- value of a list of decimal digits (most significant first) -/
def digitsVal (ds : List Char) : Nat := ds.foldl (fun a c => a * 10 + (c.toNat - 48)) 0

/-- the unsigned part of `strconv.Atoi` after the sign has been stripped: at least one ASCII
decimal digit, nothing else, magnitude within the `int64` range for the sign. -/
def atoiU (neg : Bool) (ds : List Char) : Option Int :=
  if ds.isEmpty || !ds.all Char.isDigit then none else
  if neg then (if digitsVal ds ≤ 2 ^ 63 then some (-(digitsVal ds : Int)) else none)
  else (if digitsVal ds < 2 ^ 63 then some (digitsVal ds : Int) else none)

/-- `strconv.Atoi` on a 64-bit platform: optional `+`/`-`, at least one ASCII decimal digit,
nothing else (no spaces, no underscores — base 10 is explicit), value within
`[-2^63, 2^63-1]`.  `none` = Atoi returned an error (`ErrSyntax` or `ErrRange`). -/
def atoiL : List Char → Option Int
  | [] => none
  | c :: r => if c = '+' then atoiU false r else if c = '-' then atoiU true r else atoiU false (c :: r)

def atoi (s : String) : Option Int := atoiL s.toList

/-- the syncer: `pendingNodes` and the `cluster.State` it feeds -/
structure Sync where
  pending : AMap String Node
  table : State
deriving Repr, Inhabited

/-- `newSyncer(clusterState, logger)` on `NewState(localNode)` -/
def Sync.new (localNode : Node) : Sync := { pending := [], table := State.new localNode }

/-- `syncer.OnJoin` -/
def Sync.onJoin (s : Sync) (id : String) : Sync :=
  if id = s.table.localId then s                          -- l.66 local-id guard
  else if (s.table.nodes.find id).isSome then s           -- l.74 [T→P] already in cluster
  else if (s.pending.find id).isSome then s               -- l.85 already pending
  else { s with pending := s.pending.insert id { id := id } }   -- l.95

/-- the common shape of `OnLeave`/`OnReachable`/`OnUnreachable`/`OnExpired`: try the table
operation `tbl`; if it reported `false` apply `pend` to the pending entry (if any). -/
def Sync.tableElsePending (s : Sync) (id : String) (tbl : State → State × Bool)
    (pend : AMap String Node → Node → AMap String Node) : Sync :=
  if id = s.table.localId then s else                     -- local-id guard
  match tbl s.table with
  | (t, true) => { s with table := t }                    -- [T→P] "updated cluster"; return
  | (_, false) =>
    match s.pending.find id with
    | some n => { s with pending := pend s.pending n }
    | none => s                                           -- "unknown node"

/-- `syncer.OnLeave`: a node in the table gets status `left`; a **pending node is deleted**
("If a pending node has left it can be discarded"). -/
def Sync.onLeave (s : Sync) (id : String) : Sync :=
  s.tableElsePending id (·.updateRemoteStatus id .left) (fun p _ => p.erase id)

/-- `syncer.OnReachable`: status `active`, in the table or on the pending entry. -/
def Sync.onReachable (s : Sync) (id : String) : Sync :=
  s.tableElsePending id (·.updateRemoteStatus id .active)
    (fun p n => p.insert id { n with status := .active })

/-- `syncer.OnUnreachable`: status `unreachable`, in the table or on the pending entry. -/
def Sync.onUnreachable (s : Sync) (id : String) : Sync :=
  s.tableElsePending id (·.updateRemoteStatus id .unreachable)
    (fun p n => p.insert id { n with status := .unreachable })

/-- `syncer.OnExpired`: `RemoveNode`, else delete the pending entry. -/
def Sync.onExpired (s : Sync) (id : String) : Sync :=
  s.tableElsePending id (·.removeNode id) (fun p _ => p.erase id)

/-- the update of the pending node in `OnUpsertKey` (l.300–327); `none` = the callback
returns without touching anything (Atoi error or unsupported key). -/
def pendingUpsert (n : Node) (key value : String) : Option Node :=
  if key = proxyAddrKey then some { n with proxyAddr := value }
  else if key = adminAddrKey then some { n with adminAddr := value }
  else match cutPrefix endpointPrefix key with
    | some eid =>
      match atoi value with
      | none => none                                      -- l.307 invalid endpoint listeners
      | some l => some { n with endpoints := n.endpoints.insert eid l }
    | none => none                                        -- l.321 unsupported key

/-- l.288–353 of `OnUpsertKey`: the pending path, including the promotion -/
def Sync.upsertPending (s : Sync) (id key value : String) : Sync :=
  match s.pending.find id with
  | none => s                                             -- l.292 unknown node
  | some n =>
    match pendingUpsert n key value with
    | none => s
    | some n' =>
      if n'.proxyAddr ≠ "" ∧ n'.adminAddr ≠ "" then       -- l.330 both immutable fields known
        let n'' : Node := if n'.status = .unset then { n' with status := .active } else n'
        { pending := s.pending.erase n''.id, table := s.table.addNode n'' }   -- l.337-338
      else { s with pending := s.pending.insert id n' }   -- pointer mutation of the pending node

/-- `syncer.OnUpsertKey` -/
def Sync.onUpsertKey (s : Sync) (id key value : String) : Sync :=
  if id = s.table.localId then s else                     -- l.252 local-id guard
  if (key = proxyAddrKey ∨ key = adminAddrKey) ∧ (s.table.nodes.find id).isSome then s  -- l.261 [T→P]
  else
    match cutPrefix endpointPrefix key with
    | some eid =>                                         -- l.271
      match atoi value with
      | none => s                                         -- l.274 Atoi error: return
      | some l =>
        match s.table.updateRemoteEndpoint id eid l with
        | (t, true) => { s with table := t }              -- l.283 [T→P]
        | (_, false) => s.upsertPending id key value
    | none => s.upsertPending id key value

/-- `syncer.OnDeleteKey` -/
def Sync.onDeleteKey (s : Sync) (id key : String) : Sync :=
  if id = s.table.localId then s else                     -- l.357 local-id guard
  match cutPrefix endpointPrefix key with
  | none => s                                             -- l.367 unsupported key
  | some eid =>
    match s.table.removeRemoteEndpoint id eid with
    | (t, true) => { s with table := t }                  -- l.377 [T→P]
    | (_, false) =>
      match s.pending.find id with
      | none => s                                         -- l.390 unknown node
      | some n => { s with pending := s.pending.insert id { n with endpoints := n.endpoints.erase eid } }

/-- one watcher notification -/
def syncStep (s : Sync) : Gossip.Event → Sync
  | .join id => s.onJoin id
  | .leave id => s.onLeave id
  | .reachable id => s.onReachable id
  | .unreachable id => s.onUnreachable id
  | .expired id => s.onExpired id
  | .upsert id k v => s.onUpsertKey id k v
  | .delete id k => s.onDeleteKey id k

def Sync.run (s : Sync) (evs : List Gossip.Event) : Sync := evs.foldl syncStep s

end Cluster
end Piko
