import PikoModel.Data.AMap
/-!
# Model of `server/cluster/state.go` and `server/cluster/node.go`

The routing table: the local node plus remote rows.  Endpoint counts are `Int` because a
remote count comes from `strconv.Atoi` of a gossiped value and may be negative or zero.
Go map iteration order is list order here; `lookupCandidates` is the set any iteration
order of `LookupEndpoint` can return.  Core Lean only.
-/
namespace Piko
namespace Cluster

inductive Status
  | unset        -- "" (a pending node whose status has not been decided)
  | active | unreachable | left
deriving DecidableEq, Repr, Inhabited

def Status.toString : Status → String
  | .unset => "" | .active => "active" | .unreachable => "unreachable" | .left => "left"

structure Node where
  id : String
  status : Status := .unset
  proxyAddr : String := ""
  adminAddr : String := ""
  endpoints : AMap String Int := []
deriving Repr, Inhabited, DecidableEq

structure State where
  localId : String
  nodes : AMap String Node
deriving Repr, Inhabited

/-- `NewState(localNode)` -/
def State.new (n : Node) : State :=
  { localId := n.id, nodes := [(n.id, { n with status := .active })] }

def State.localNode (s : State) : Node := (s.nodes.find s.localId).getD default

def State.setLocal (s : State) (n : Node) : State := { s with nodes := s.nodes.insert s.localId n }

/-- `LocalEndpointListeners` -/
def State.localEndpointListeners (s : State) (e : String) : Int :=
  (s.localNode.endpoints.find e).getD 0

/-- `AddLocalEndpoint` (the subscriber call is composed by the caller model) -/
def State.addLocalEndpoint (s : State) (e : String) : State :=
  let n := s.localNode
  s.setLocal { n with endpoints := n.endpoints.insert e (s.localEndpointListeners e + 1) }

/-- `RemoveLocalEndpoint`; the `Bool` says whether subscribers are notified -/
def State.removeLocalEndpoint (s : State) (e : String) : State × Bool :=
  let n := s.localNode
  match n.endpoints.find e with
  | none => (s, false)
  | some l =>
    if l = 0 then (s, false)
    else if l > 1 then (s.setLocal { n with endpoints := n.endpoints.insert e (l - 1) }, true)
    else (s.setLocal { n with endpoints := n.endpoints.erase e }, true)

/-- `AddNode` (overwrites an existing remote row; refuses the local id) -/
def State.addNode (s : State) (n : Node) : State :=
  if n.id = s.localId then s else { s with nodes := s.nodes.insert n.id n }

/-- `RemoveNode` -/
def State.removeNode (s : State) (id : String) : State × Bool :=
  if id = s.localId then (s, false) else
  match s.nodes.find id with
  | none => (s, false)
  | some _ => ({ s with nodes := s.nodes.erase id }, true)

def State.updateRemote (s : State) (id : String) (f : Node → Node) : State × Bool :=
  if id = s.localId then (s, false) else
  match s.nodes.find id with
  | none => (s, false)
  | some n => ({ s with nodes := s.nodes.insert id (f n) }, true)

/-- `UpdateRemoteStatus` -/
def State.updateRemoteStatus (s : State) (id : String) (st : Status) : State × Bool :=
  s.updateRemote id (fun n => { n with status := st })

/-- `UpdateRemoteEndpoint` -/
def State.updateRemoteEndpoint (s : State) (id e : String) (l : Int) : State × Bool :=
  s.updateRemote id (fun n => { n with endpoints := n.endpoints.insert e l })

/-- `RemoveRemoteEndpoint` -/
def State.removeRemoteEndpoint (s : State) (id e : String) : State × Bool :=
  s.updateRemote id (fun n => { n with endpoints := n.endpoints.erase e })

def Node.serves (n : Node) (e : String) : Bool :=
  match n.endpoints.find e with
  | some l => decide (l > 0)
  | none => false

/-- the nodes any map-iteration order of `LookupEndpoint` may return -/
def State.lookupCandidates (s : State) (e : String) : List Node :=
  s.nodes.vals.filter (fun n => !(n.id = s.localId) && n.status = .active && n.serves e)

def Node.conns (n : Node) : Int := (n.endpoints.vals).foldl (· + ·) 0

/-- `AvgConns`: Go integer division (truncated) of total connections of active nodes by
the number of active nodes; `none` = division by zero panic. -/
def State.avgConns (s : State) : Option Int :=
  let act := s.nodes.vals.filter (fun n => n.status = .active)
  if act.length = 0 then none
  else some (Int.tdiv ((act.map Node.conns).foldl (· + ·) 0) act.length)

end Cluster
end Piko
