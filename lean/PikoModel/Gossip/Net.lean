import PikoModel.Gossip.State
/-!
# N gossip nodes and a packet pool (`pkg/gossip/listener.go`, `gossip.go`)

Packets are modelled at the level of decoded values; the byte level (which whole-item
prefix a given `maxPacketSize` yields) is `Gossip/Codec.lean` (C13).  A step either is a
local operation of one node, the emission of a digest, or the delivery of **any** pooled
packet (the pool is never consumed, so loss, duplication, delay and reordering are all
schedules), with **any** truncation point (`cut` counts whole items) and **any**
order/sub-list of digest entries (`perm`).  Core Lean only.
-/
namespace Piko
namespace Gossip

inductive Packet
  /-- `digestHeader{NodeID, Addr, Request}` + entries; `dst` is the receiving node's address -/
  | digest (src srcAddr dst : String) (request : Bool) (d : Digest)
  /-- `deltaHeader{NodeID, Addr}` + delta -/
  | delta (src srcAddr dst : String) (d : Delta)
deriving Repr, DecidableEq

/-- keep the first `n` whole items of the flattening `[node₁, e₁₁, e₁₂, …, node₂, …]` -/
def cutDelta : Nat → Delta → Delta
  | 0, _ => []
  | _, [] => []
  | n + 1, de :: rest =>
    if n < de.entries.length then [{ de with entries := de.entries.take n }]
    else de :: cutDelta (n - de.entries.length) rest

/-- the digest entries selected by index list `p` (a permutation/sub-list chosen by
`rand.Shuffle` and the packet limit in the real code) -/
def selectIdx {α : Type} (p : List Nat) (xs : List α) : List α := p.filterMap (xs[·]?)

structure Net where
  nodes : AMap String CState := []
  pool : List Packet := []
deriving Repr, Inhabited

inductive Op
  | node (id addr : String)
  | upsert (n k v : String) | delete (n k : String) | leave (n : String) | compact (n : String) (thr : Nat)
  /-- `gossip(node)`: emit a digest request to address `dst` -/
  | sendDigest (n dst : String) (request : Bool) (perm : List Nat) (cut : Nat)
  /-- handle pooled packet `i` at the node owning its destination address -/
  | deliver (i : Nat) (cut : Nat) (perm : List Nat) (dcut : Nat) (now : Nat)
  /-- `join`: stream exchange `n → m` (request half), `replyDelivered` = reply half reaches `n` -/
  | join (n m : String) (replyDelivered : Bool) (now : Nat)
  /-- `leave` stream: `n` pushes its `LocalDelta` to `m` -/
  | leaveStream (n m : String) (now : Nat)
  | liveness (n : String) (suspected : List String) (now : Nat)
  | expire (n : String) (t : Nat)
deriving Repr

def Net.nodeByAddr (net : Net) (addr : String) : Option (String × CState) :=
  net.nodes.find? (fun p => (own p.2).addr = addr)

def Net.setNode (net : Net) (id : String) (s : CState) : Net :=
  { net with nodes := net.nodes.insert id s }

def sortDigest (d : Digest) : Digest := d.mergeSort (fun a b => decide (a.id ≤ b.id))
def sortDelta (d : Delta) : Delta := d.mergeSort (fun a b => decide (a.id ≤ b.id))

/-- result of one step: new network, watcher events (of the acting node), packets emitted -/
structure StepOut where
  net : Net
  who : String := ""
  events : List Event := []
  sent : List Packet := []
  /-- `compact` panicked (threshold ≤ 0 on an empty map) / op not applicable -/
  err : Option String := none

def localOp (net : Net) (n : String) (f : CState → CState) : StepOut :=
  match net.nodes.find n with
  | none => { net := net, err := some "no-node" }
  | some s => { net := net.setNode n (f s), who := n }

/-- `packetListener.digest` -/
def handleDigest (s : CState) (srcAddr : String) (request : Bool) (d : Digest)
    (cut : Nat) (perm : List Nat) (dcut : Nat) : CState × List Event × List Packet :=
  let (s1, ev) := applyDigest s d
  let me := own s1
  let reply := Packet.delta me.id me.addr srcAddr (cutDelta cut (delta s1 d false))
  let dig := if request then
      [Packet.digest me.id me.addr srcAddr false ((selectIdx perm (sortDigest (digest s1))).take dcut)]
    else []
  (s1, ev, reply :: dig)

def Net.step (net : Net) : Op → StepOut
  | .node id addr =>
    match net.nodes.find id with
    | some _ => { net := net, err := some "exists" }
    | none =>
      -- gossip addresses are unique (IP:port); a second node with a used address is refused
      match net.nodeByAddr addr with
      | some _ => { net := net, err := some "exists" }
      | none => { net := net.setNode id (init id addr), who := id }
  | .upsert n k v => localOp net n (fun s => upsertLocal s k v)
  | .delete n k => localOp net n (fun s => deleteLocal s k)
  | .leave n => localOp net n leaveLocal
  | .compact n thr =>
    match net.nodes.find n with
    | none => { net := net, err := some "no-node" }
    | some s =>
      match compactLocal s thr with
      | none => { net := net, who := n, err := some "panic" }
      | some s' => { net := net.setNode n s', who := n }
  | .sendDigest n dst request perm cut =>
    match net.nodes.find n with
    | none => { net := net, err := some "no-node" }
    | some s =>
      let me := own s
      let p := Packet.digest me.id me.addr dst request ((selectIdx perm (sortDigest (digest s))).take cut)
      { net := { net with pool := net.pool ++ [p] }, who := n, sent := [p] }
  | .deliver i cut perm dcut now =>
    match net.pool[i]? with
    | none => { net := net, err := some "no-packet" }
    | some (.digest _ srcAddr dst request d) =>
      match net.nodeByAddr dst with
      | none => { net := net, err := some "no-dst" }
      | some (id, s) =>
        let (s', ev, out) := handleDigest s srcAddr request d cut perm dcut
        { net := { (net.setNode id s') with pool := net.pool ++ out }, who := id, events := ev, sent := out }
    | some (.delta _ _ dst d) =>
      match net.nodeByAddr dst with
      | none => { net := net, err := some "no-dst" }
      | some (id, s) =>
        let (s', ev) := applyDelta now s d
        { net := net.setNode id s', who := id, events := ev }
  | .join n m replyDelivered now =>
    match net.nodes.find n, net.nodes.find m with
    | some sn, some sm =>
      if n = m then { net := net, err := some "self" } else
      -- request half at m: ApplyDelta(LocalDelta of n); ApplyDigest(Digest of n); reply Delta(digest, true)
      let dg := sortDigest (digest sn)
      let (sm1, ev1) := applyDelta now sm (localDelta sn)
      let (sm2, ev2) := applyDigest sm1 dg
      let reply := sortDelta (delta sm2 dg true)
      let net1 := net.setNode m sm2
      if replyDelivered then
        let (sn1, _) := applyDelta now sn reply
        { net := net1.setNode n sn1, who := m, events := ev1 ++ ev2 }
      else { net := net1, who := m, events := ev1 ++ ev2 }
    | _, _ => { net := net, err := some "no-node" }
  | .leaveStream n m now =>
    match net.nodes.find n, net.nodes.find m with
    | some sn, some sm =>
      if n = m then { net := net, err := some "self" } else
      let (sm1, ev) := applyDelta now sm (localDelta sn)
      { net := net.setNode m sm1, who := m, events := ev }
    | _, _ => { net := net, err := some "no-node" }
  | .liveness n suspected now =>
    match net.nodes.find n with
    | none => { net := net, err := some "no-node" }
    | some s =>
      let (s', ev) := updateLiveness s (fun id => suspected.contains id) now
      { net := net.setNode n s', who := n, events := ev }
  | .expire n t =>
    match net.nodes.find n with
    | none => { net := net, err := some "no-node" }
    | some s =>
      let (s', ev) := removeExpiredAt s t
      { net := net.setNode n s', who := n, events := ev }

def Net.run (net : Net) (ops : List Op) : Net := ops.foldl (fun n op => (n.step op).net) net

end Gossip
end Piko
