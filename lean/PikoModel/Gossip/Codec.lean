import PikoModel.Gossip.State
/-!
# Model of `pkg/gossip/protocol.go` — the packet codec, byte exact

msgpack exactly as `ugorji/go/codec` v1.3.1 (default `MsgpackHandle`) emits it for the four
wire structs (measured on the real encoder, re-checked on every run by engine `codec`):

* struct            ↦ fixmap `0x80+n`, keys = `codec` tag (else `json` tag) as strings, in
                      declaration order;
* string of n bytes ↦ `0xa0+n` (n ≤ 31) | `da nn nn` (n ≤ 65535) | `db nn nn nn nn`
                      (str8 `d9` is never produced); bytes passed through unvalidated;
* `uint64`          ↦ positive fixint (≤ 127) | `cc` | `cd` | `ce` | `cf`;
* non-negative `int`↦ positive fixint (≤ 127) | `d1` (int16) | `d2` (int32) | `d3` (int64);
* `bool`            ↦ `c2` / `c3`.

Strings of the model are Lean `String`s (valid UTF-8); the Go code passes arbitrary bytes.
The decoders are decoders *for the canonical encoding*: they reject the non-canonical
msgpack forms that ugorji additionally accepts (str8, bin, float-as-int, unknown map keys,
keys in another order, a body truncated in the middle of an item).
Core Lean only.
-/
namespace Piko
namespace Gossip
namespace Codec

abbrev Bytes := List UInt8

/-- the byte `n mod 256` -/
def byte (n : Nat) : UInt8 := UInt8.ofNat n

/-- the UTF-8 bytes of a string -/
def strBytes (s : String) : Bytes := s.toUTF8.data.toList

/-- big-endian, exactly `w` bytes -/
def be : Nat → Nat → Bytes
  | 0, _ => []
  | w + 1, n => be w (n / 256) ++ [byte (n % 256)]

/-- value of a big-endian byte string -/
def ofBE (bs : Bytes) : Nat := bs.foldl (fun a b => a * 256 + b.toNat) 0

/-! ## wire constants (tied to the Go source by `Props/C13.lean` over `Generated/Facts.lean`) -/

/-- `messageTypeDigest` -/
def messageTypeDigest : Nat := 1
/-- `messageTypeDelta` -/
def messageTypeDelta : Nat := 2
/-- `supportedVersion` -/
def supportedVersion : Nat := 0

def kNodeId : String := "node_id"
def kAddr : String := "addr"
def kRequest : String := "request"
def kEntries : String := "entries"
def kId : String := "id"
def kVersion : String := "version"
def kLeft : String := "left"
def kKey : String := "key"
def kValue : String := "value"
def kInternal : String := "internal"
def kDeleted : String := "deleted"

/-- msgpack keys of `digestHeader` -/
def tagsDigestHeader : List String := [kNodeId, kAddr, kRequest]
/-- msgpack keys of `deltaHeader` -/
def tagsDeltaHeader : List String := [kNodeId, kAddr, kEntries]
/-- msgpack keys of `digestEntry` (`Left` has only a `json` tag) -/
def tagsDigestEntry : List String := [kId, kAddr, kVersion, kLeft]
/-- msgpack keys of `Entry` -/
def tagsEntry : List String := [kKey, kValue, kVersion, kInternal, kDeleted]

/-- `digestHeader` -/
structure DigestHeader where
  nodeId : String
  addr : String
  request : Bool
deriving DecidableEq, Repr, Inhabited

/-- `deltaHeader` (`entries` is a Go `int`; only non-negative values are modelled) -/
structure DeltaHeader where
  nodeId : String
  addr : String
  entries : Nat
deriving DecidableEq, Repr, Inhabited

/-! ## primitive encoders -/

/-- string header for a string of `n` bytes -/
def encStrHdr (n : Nat) : Bytes :=
  if n ≤ 31 then [byte (0xa0 + n)]
  else if n ≤ 65535 then byte 0xda :: be 2 n
  else byte 0xdb :: be 4 n

/-- `EncodeString` -/
def encStr (s : String) : Bytes := encStrHdr (strBytes s).length ++ strBytes s

/-- `EncodeUint` -/
def encUint (n : Nat) : Bytes :=
  if n ≤ 127 then [byte n]
  else if n ≤ 255 then [byte 0xcc, byte n]
  else if n ≤ 65535 then byte 0xcd :: be 2 n
  else if n < 4294967296 then byte 0xce :: be 4 n
  else byte 0xcf :: be 8 n

/-- `EncodeInt` of a non-negative value -/
def encInt (n : Nat) : Bytes :=
  if n ≤ 127 then [byte n]
  else if n ≤ 32767 then byte 0xd1 :: be 2 n
  else if n < 2147483648 then byte 0xd2 :: be 4 n
  else byte 0xd3 :: be 8 n

/-- `EncodeBool` -/
def encBool (b : Bool) : Bytes := [byte (if b then 0xc3 else 0xc2)]

/-! ## item encoders (`encoder.Encode(&x)`) -/

/-- `Encode(&digestHeader{…})` -/
def encDigestHeader (h : DigestHeader) : Bytes :=
  [byte 0x83] ++ (encStr kNodeId ++ (encStr h.nodeId ++ (encStr kAddr ++ (encStr h.addr ++
    (encStr kRequest ++ encBool h.request)))))

/-- `Encode(&deltaHeader{…})` -/
def encDeltaHeader (h : DeltaHeader) : Bytes :=
  [byte 0x83] ++ (encStr kNodeId ++ (encStr h.nodeId ++ (encStr kAddr ++ (encStr h.addr ++
    (encStr kEntries ++ encInt h.entries)))))

/-- `Encode(&digestEntry{…})` -/
def encDigestEntry (e : DigestEntry) : Bytes :=
  [byte 0x84] ++ (encStr kId ++ (encStr e.id ++ (encStr kAddr ++ (encStr e.addr ++
    (encStr kVersion ++ (encUint e.version ++ (encStr kLeft ++ encBool e.left)))))))

/-- `Encode(Entry{…})` -/
def encEntry (e : Entry) : Bytes :=
  [byte 0x85] ++ (encStr kKey ++ (encStr e.key ++ (encStr kValue ++ (encStr e.value ++
    (encStr kVersion ++ (encUint e.version ++ (encStr kInternal ++ (encBool e.internal ++
      (encStr kDeleted ++ encBool e.deleted)))))))))

/-! ## `encodeDigest` / `encodeDelta`: the truncation loops -/

/-- the `bytes.Buffer` and the `bufLen` variable of the encode loops: `buf` holds everything
that was encoded (including an item that did not fit), `bufLen` is the length of the part
that is sent -/
structure EncSt where
  buf : Bytes
  bufLen : Nat
deriving Repr

/-- `buf.Bytes()[:bufLen]` -/
def EncSt.out (st : EncSt) : Bytes := st.buf.take st.bufLen

/-- the loop `for _, entry := range digest` of `encodeDigest` -/
def encDigestLoop (max : Nat) : EncSt → Digest → EncSt
  | st, [] => st
  | st, e :: es =>
    let buf := st.buf ++ encDigestEntry e
    if buf.length > max then { st with buf := buf }          -- break
    else encDigestLoop max { buf := buf, bufLen := buf.length } es

/-- the two leading bytes (message type, version) and the header -/
def digestPrefix (h : DigestHeader) : Bytes :=
  [byte messageTypeDigest, byte supportedVersion] ++ encDigestHeader h

/-- `encodeDigest(header, digest, maxPacketSize)`; `none` = the error "max packet size too
small for header" -/
def encodeDigest (h : DigestHeader) (d : Digest) (max : Nat) : Option Bytes :=
  let buf := digestPrefix h
  if buf.length > max then none
  else some (encDigestLoop max { buf := buf, bufLen := buf.length } d).out

/-- the inner loop `for _, entry := range deltaEntry.Entries` of `encodeDelta` -/
def encEntriesLoop (max : Nat) : EncSt → List Entry → EncSt
  | st, [] => st
  | st, e :: es =>
    let buf := st.buf ++ encEntry e
    if buf.length > max then { st with buf := buf }          -- break (inner loop only)
    else encEntriesLoop max { buf := buf, bufLen := buf.length } es

/-- the outer loop `for _, deltaEntry := range delta` of `encodeDelta`.  The per-node header
carries the full entry count `len(deltaEntry.Entries)`; when the inner loop `break`s the
outer loop keeps running: the next node header is appended to the (already oversize) buffer
and only then does the outer size test `break`. -/
def encDeltaLoop (max : Nat) : EncSt → Delta → EncSt
  | st, [] => st
  | st, de :: ds =>
    let buf := st.buf ++
      encDeltaHeader { nodeId := de.id, addr := de.addr, entries := de.entries.length }
    if buf.length > max then { st with buf := buf }          -- break
    else encDeltaLoop max (encEntriesLoop max { buf := buf, bufLen := buf.length } de.entries) ds

def deltaPrefix (h : DeltaHeader) : Bytes :=
  [byte messageTypeDelta, byte supportedVersion] ++ encDeltaHeader h

/-- `encodeDelta(header, delta, maxPacketSize)`; `none` = the error "max packet size too small
for header" -/
def encodeDelta (h : DeltaHeader) (d : Delta) (max : Nat) : Option Bytes :=
  let buf := deltaPrefix h
  if buf.length > max then none
  else some (encDeltaLoop max { buf := buf, bufLen := buf.length } d).out

/-! ## primitive parsers: `Bytes → Option (value × rest)` -/

/-- consume exactly the bytes `pre` -/
def expect : Bytes → Bytes → Option Bytes
  | [], bs => some bs
  | _ :: _, [] => none
  | p :: ps, b :: bs => if p = b then expect ps bs else none

/-- `w` bytes big-endian -/
def takeBE (w : Nat) (bs : Bytes) : Option (Nat × Bytes) :=
  if bs.length < w then none else some (ofBE (bs.take w), bs.drop w)

/-- `n` bytes of string data -/
def takeStr (n : Nat) (bs : Bytes) : Option (String × Bytes) :=
  if bs.length < n then none else
  match String.fromUTF8? (ByteArray.mk (bs.take n).toArray) with
  | some s => some (s, bs.drop n)
  | none => none

/-- `DecodeString` (fixstr, str16, str32) -/
def parseStr : Bytes → Option (String × Bytes)
  | [] => none
  | b :: rest =>
    let t := b.toNat
    if 0xa0 ≤ t ∧ t ≤ 0xbf then takeStr (t - 0xa0) rest
    else if t = 0xda then
      match takeBE 2 rest with
      | some (n, r) => takeStr n r
      | none => none
    else if t = 0xdb then
      match takeBE 4 rest with
      | some (n, r) => takeStr n r
      | none => none
    else none

/-- `DecodeUint64` (positive fixint, uint8/16/32/64) -/
def parseUint : Bytes → Option (Nat × Bytes)
  | [] => none
  | b :: rest =>
    let t := b.toNat
    if t ≤ 0x7f then some (t, rest)
    else if t = 0xcc then takeBE 1 rest
    else if t = 0xcd then takeBE 2 rest
    else if t = 0xce then takeBE 4 rest
    else if t = 0xcf then takeBE 8 rest
    else none

/-- a big-endian two's-complement field of `w` bytes holding a non-negative value -/
def takeNonNeg (w : Nat) (bs : Bytes) : Option (Nat × Bytes) :=
  match takeBE w bs with
  | some (n, r) => if n < 2 ^ (8 * w - 1) then some (n, r) else none
  | none => none

/-- `DecodeInt64` restricted to non-negative values (positive fixint, int16/32/64) -/
def parseInt : Bytes → Option (Nat × Bytes)
  | [] => none
  | b :: rest =>
    let t := b.toNat
    if t ≤ 0x7f then some (t, rest)
    else if t = 0xd1 then takeNonNeg 2 rest
    else if t = 0xd2 then takeNonNeg 4 rest
    else if t = 0xd3 then takeNonNeg 8 rest
    else none

/-- `DecodeBool` -/
def parseBool : Bytes → Option (Bool × Bytes)
  | [] => none
  | b :: rest =>
    if b.toNat = 0xc2 then some (false, rest)
    else if b.toNat = 0xc3 then some (true, rest)
    else none

/-! ## item parsers (`decoder.Decode(&x)` on the canonical encoding) -/

/-- `Decode(&digestHeader)` -/
def parseDigestHeader (bs : Bytes) : Option (DigestHeader × Bytes) := do
  let bs ← expect ([byte 0x83] ++ encStr kNodeId) bs
  let (nodeId, bs) ← parseStr bs
  let bs ← expect (encStr kAddr) bs
  let (addr, bs) ← parseStr bs
  let bs ← expect (encStr kRequest) bs
  let (request, bs) ← parseBool bs
  pure ({ nodeId := nodeId, addr := addr, request := request }, bs)

/-- `Decode(&deltaHeader)` -/
def parseDeltaHeader (bs : Bytes) : Option (DeltaHeader × Bytes) := do
  let bs ← expect ([byte 0x83] ++ encStr kNodeId) bs
  let (nodeId, bs) ← parseStr bs
  let bs ← expect (encStr kAddr) bs
  let (addr, bs) ← parseStr bs
  let bs ← expect (encStr kEntries) bs
  let (entries, bs) ← parseInt bs
  pure ({ nodeId := nodeId, addr := addr, entries := entries }, bs)

/-- `Decode(&digestEntry)` -/
def parseDigestEntry (bs : Bytes) : Option (DigestEntry × Bytes) := do
  let bs ← expect ([byte 0x84] ++ encStr kId) bs
  let (id, bs) ← parseStr bs
  let bs ← expect (encStr kAddr) bs
  let (addr, bs) ← parseStr bs
  let bs ← expect (encStr kVersion) bs
  let (version, bs) ← parseUint bs
  let bs ← expect (encStr kLeft) bs
  let (left, bs) ← parseBool bs
  pure ({ id := id, addr := addr, version := version, left := left }, bs)

/-- `Decode(&entry)` for `Entry` -/
def parseEntry (bs : Bytes) : Option (Entry × Bytes) := do
  let bs ← expect ([byte 0x85] ++ encStr kKey) bs
  let (key, bs) ← parseStr bs
  let bs ← expect (encStr kValue) bs
  let (value, bs) ← parseStr bs
  let bs ← expect (encStr kVersion) bs
  let (version, bs) ← parseUint bs
  let bs ← expect (encStr kInternal) bs
  let (internal, bs) ← parseBool bs
  let bs ← expect (encStr kDeleted) bs
  let (deleted, bs) ← parseBool bs
  pure ({ key := key, value := value, version := version, internal := internal,
          deleted := deleted }, bs)

/-! ## `decodeDigest` / `decodeDelta` -/

/-- the error returns of `decodeDigest` / `decodeDelta` -/
inductive DecErr
  | read          -- fewer than two bytes
  | badType       -- "incorrect message type"
  | badVersion    -- "unsupported version"
  | decode        -- "decode: …" (not the canonical encoding of the expected item)
deriving DecidableEq, Repr

/-- the loop `for { Decode(&entry) … }` of `decodeDigest`: stops at EOF (no bytes left).
`fuel` bounds the number of iterations (every item has at least one byte). -/
def decDigestEntries : Nat → Bytes → Option Digest
  | _, [] => some []                                   -- io.EOF: break
  | 0, _ :: _ => none
  | fuel + 1, b :: bs =>
    match parseDigestEntry (b :: bs) with
    | none => none
    | some (e, rest) =>
      match decDigestEntries fuel rest with
      | none => none
      | some es => some (e :: es)

/-- `decodeDigest(b)` -/
def decodeDigest (bs : Bytes) : Except DecErr (DigestHeader × Digest) :=
  match bs with
  | [] => .error .read
  | t :: bs1 =>
    if t.toNat ≠ messageTypeDigest then .error .badType else
    match bs1 with
    | [] => .error .read
    | v :: bs2 =>
      if v.toNat ≠ supportedVersion then .error .badVersion else
      match parseDigestHeader bs2 with
      | none => .error .decode
      | some (h, rest) =>
        match decDigestEntries rest.length rest with
        | none => .error .decode
        | some d => .ok (h, d)

/-- the loop `for i := 0; i != entryHeader.Entries; i++` of `decodeDelta`: reads up to `k`
entries, stops early at EOF (a node header announcing `k` entries followed by fewer is
accepted as a short node) -/
def decEntries : Nat → Bytes → Option (List Entry × Bytes)
  | 0, bs => some ([], bs)
  | _ + 1, [] => some ([], [])                          -- io.EOF: break
  | k + 1, b :: bs =>
    match parseEntry (b :: bs) with
    | none => none
    | some (e, rest) =>
      match decEntries k rest with
      | none => none
      | some (es, rest') => some (e :: es, rest')

/-- the outer loop `for { Decode(&entryHeader) … }` of `decodeDelta` -/
def decNodes : Nat → Bytes → Option Delta
  | _, [] => some []                                   -- io.EOF: break
  | 0, _ :: _ => none
  | fuel + 1, b :: bs =>
    match parseDeltaHeader (b :: bs) with
    | none => none
    | some (h, rest) =>
      match decEntries h.entries rest with
      | none => none
      | some (es, rest') =>
        match decNodes fuel rest' with
        | none => none
        | some ds => some ({ id := h.nodeId, addr := h.addr, entries := es } :: ds)

/-- `decodeDelta(b)` -/
def decodeDelta (bs : Bytes) : Except DecErr (DeltaHeader × Delta) :=
  match bs with
  | [] => .error .read
  | t :: bs1 =>
    if t.toNat ≠ messageTypeDelta then .error .badType else
    match bs1 with
    | [] => .error .read
    | v :: bs2 =>
      if v.toNat ≠ supportedVersion then .error .badVersion else
      match parseDeltaHeader bs2 with
      | none => .error .decode
      | some (h, rest) =>
        match decNodes rest.length rest with
        | none => .error .decode
        | some d => .ok (h, d)

/-! ## what a truncated packet is a prefix *of*: the flattening into items -/

/-- one encoded item of a delta packet body -/
inductive Item
  | node (id addr : String) (count : Nat)
  | entry (e : Entry)
deriving DecidableEq, Repr

/-- `[node₁, e₁₁, e₁₂, …, node₂, …]` -/
def items : Delta → List Item
  | [] => []
  | de :: ds => .node de.id de.addr de.entries.length :: (de.entries.map .entry ++ items ds)

def encItem : Item → Bytes
  | .node id addr n => encDeltaHeader { nodeId := id, addr := addr, entries := n }
  | .entry e => encEntry e

/-- the first `n` items of the flattening, as a delta: whole entries only, per node in the
sender's order; a node whose header is among the `n` items appears (possibly with fewer
entries than it has) -/
def takeItems : Nat → Delta → Delta
  | 0, _ => []
  | _ + 1, [] => []
  | n + 1, de :: ds =>
    { de with entries := de.entries.take n } :: takeItems (n - de.entries.length) ds

/-- how many of the encoded items `its` are sent when `len` bytes are already in the buffer:
the longest prefix whose cumulative size stays `≤ max` -/
def fitCount (max : Nat) : Nat → List Bytes → Nat
  | _, [] => 0
  | len, b :: bs => if len + b.length > max then 0 else 1 + fitCount max (len + b.length) bs

/-- number of digest entries `encodeDigest h d max` sends -/
def sentDigest (h : DigestHeader) (d : Digest) (max : Nat) : Nat :=
  fitCount max (digestPrefix h).length (d.map encDigestEntry)

/-- number of items (node headers and entries) `encodeDelta h d max` sends -/
def sentDelta (h : DeltaHeader) (d : Delta) (max : Nat) : Nat :=
  fitCount max (deltaPrefix h).length ((items d).map encItem)

/-! ## well-formedness: what the Go types guarantee (`uint64`, `int`, string lengths) -/

/-- byte length representable in a msgpack str32 header -/
def StrOk (s : String) : Prop := (strBytes s).length < 4294967296

instance (s : String) : Decidable (StrOk s) := by unfold StrOk; exact inferInstance

def EntryOk (e : Entry) : Prop := StrOk e.key ∧ StrOk e.value ∧ e.version < 18446744073709551616

def DigestEntryOk (e : DigestEntry) : Prop :=
  StrOk e.id ∧ StrOk e.addr ∧ e.version < 18446744073709551616

def DigestHeaderOk (h : DigestHeader) : Prop := StrOk h.nodeId ∧ StrOk h.addr

/-- `entries` is a non-negative Go `int` -/
def DeltaHeaderOk (h : DeltaHeader) : Prop :=
  StrOk h.nodeId ∧ StrOk h.addr ∧ h.entries < 9223372036854775808

def DeltaEntryOk (de : DeltaEntry) : Prop :=
  StrOk de.id ∧ StrOk de.addr ∧ de.entries.length < 9223372036854775808 ∧
    ∀ e ∈ de.entries, EntryOk e

def DigestOk (d : Digest) : Prop := ∀ e ∈ d, DigestEntryOk e
def DeltaOk (d : Delta) : Prop := ∀ de ∈ d, DeltaEntryOk de

instance (e : Entry) : Decidable (EntryOk e) := by unfold EntryOk; exact inferInstance
instance (e : DigestEntry) : Decidable (DigestEntryOk e) := by unfold DigestEntryOk; exact inferInstance
instance (h : DigestHeader) : Decidable (DigestHeaderOk h) := by unfold DigestHeaderOk; exact inferInstance
instance (h : DeltaHeader) : Decidable (DeltaHeaderOk h) := by unfold DeltaHeaderOk; exact inferInstance
instance (de : DeltaEntry) : Decidable (DeltaEntryOk de) := by unfold DeltaEntryOk; exact inferInstance
instance (d : Digest) : Decidable (DigestOk d) := by unfold DigestOk; exact inferInstance
instance (d : Delta) : Decidable (DeltaOk d) := by unfold DeltaOk; exact inferInstance

end Codec
end Gossip
end Piko
