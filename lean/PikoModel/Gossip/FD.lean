import PikoModel.Data.AMap
import PikoModel.Generated.Facts
/-!
# Model of `pkg/gossip/failuredetector.go`

`ArrivalIntervals` is `arrivalIntervals` (circular buffer of inter-arrival times with a
running sum), `ArrivalWindow` is `arrivalWindow`, `Detector` is `accrualFailureDetector`.
Timestamps are nanoseconds (`Nat`); `lastTimestamp : Option Nat` is `none` exactly when the
Go `lastTimestamp` is the zero `time.Time` (`!lastTimestamp.After(time.Time{})`).  Intervals
are `Int` (`timestamp.Sub(last).Nanoseconds()` is negative for a timestamp in the past).

Floats: the Go field `mean = float64(sum)/float64(size())` is the pair `(sum, size)`; `Phi`
is the exact fraction `num/den = ((t - last) * size) / sum`.  Every comparison is
cross-multiplied in `Int`.  The Go test `mean > 0.0` is `0 < sum` (after every successful
`Add` the size is positive).

Where the Go code panics the model returns an `Err` constructor: `indexOutOfRange` for the
slice access in `arrivalIntervals.Add` (only reachable with `sampleSize = 0`), and
`phiBeforeSample` for `panic("cannot sample phi before any samples arrived")`.
Core Lean only.
-/
namespace Piko
namespace FD

inductive Err
  /-- runtime panic `index out of range` at `i.intervals[i.index]` in `arrivalIntervals.Add` -/
  | indexOutOfRange
  /-- `panic("cannot sample phi before any samples arrived")` in `arrivalWindow.Phi` -/
  | phiBeforeSample
deriving Repr, DecidableEq, Inhabited

/-- `arrivalIntervals` (the float field `mean` is the pair `(sum, size)`) -/
structure ArrivalIntervals where
  intervals : List Int
  index : Nat
  isFull : Bool
  sum : Int
deriving Repr, DecidableEq, Inhabited

/-- `newArrivalIntervals(sampleSize)` -/
def newArrivalIntervals (sampleSize : Nat) : ArrivalIntervals :=
  { intervals := List.replicate sampleSize 0, index := 0, isFull := false, sum := 0 }

/-- `arrivalIntervals.size` -/
def ArrivalIntervals.size (a : ArrivalIntervals) : Nat :=
  if a.isFull then a.intervals.length else a.index

/-- the first statement of `arrivalIntervals.Add`: wrap the cursor at the end of the buffer -/
def ArrivalIntervals.wrap (a : ArrivalIntervals) : ArrivalIntervals :=
  if a.index = a.intervals.length then { a with index := 0, isFull := true } else a

/-- the slice index used by `arrivalIntervals.Add` for its read (eviction) and its write -/
def ArrivalIntervals.accessIndex (a : ArrivalIntervals) : Nat := a.wrap.index

/-- `arrivalIntervals.Add`.  The eviction read and the write use the same index, so one range
test covers both; on failure the Go state is `a.wrap` (mutated before the panic). -/
def ArrivalIntervals.add (a : ArrivalIntervals) (x : Int) : Except Err ArrivalIntervals :=
  match a.wrap.intervals[a.wrap.index]? with
  | none => .error .indexOutOfRange
  | some old =>
    .ok { intervals := a.wrap.intervals.set a.wrap.index x,
          index := a.wrap.index + 1,
          isFull := a.wrap.isFull,
          sum := (if a.wrap.isFull then a.wrap.sum - old else a.wrap.sum) + x }

/-- `arrivalWindow` -/
structure ArrivalWindow where
  lastTimestamp : Option Nat
  intervals : ArrivalIntervals
  bootstrapInterval : Int
deriving Repr, DecidableEq, Inhabited

/-- `newArrivalWindow(bootstrapInterval, sampleSize)` -/
def newArrivalWindow (bootstrapInterval : Int) (sampleSize : Nat) : ArrivalWindow :=
  { lastTimestamp := none, intervals := newArrivalIntervals sampleSize,
    bootstrapInterval := bootstrapInterval }

/-- the exact value `num / den` of a suspicion level (`den > 0` whenever `Phi` returns) -/
structure Phi where
  num : Int
  den : Int
deriving Repr, DecidableEq, Inhabited

/-- `phi > θ`, cross-multiplied (`den > 0`) -/
def Phi.gt (p : Phi) (θ : Nat) : Prop := (θ : Int) * p.den < p.num
instance (p : Phi) (θ : Nat) : Decidable (p.gt θ) := by unfold Phi.gt; infer_instance

/-- `phi ≤ θ`, cross-multiplied -/
def Phi.le (p : Phi) (θ : Nat) : Prop := p.num ≤ (θ : Int) * p.den
instance (p : Phi) (θ : Nat) : Decidable (p.le θ) := by unfold Phi.le; infer_instance

/-- `|phi - θ| ≥ 1/scale`, cross-multiplied: the band outside which the float decision of the
implementation must agree with the exact one -/
def Phi.awayFrom (p : Phi) (θ scale : Nat) : Bool :=
  decide (p.den ≤ (p.num - (θ : Int) * p.den).natAbs * scale)

/-- `arrivalWindow.Phi` -/
def ArrivalWindow.phi (w : ArrivalWindow) (t : Nat) : Except Err Phi :=
  match w.lastTimestamp with
  | none => .error .phiBeforeSample
  | some last =>
    if 0 < w.intervals.sum then
      .ok { num := ((t : Int) - (last : Int)) * (w.intervals.size : Int), den := w.intervals.sum }
    else .error .phiBeforeSample

/-- the sample `arrivalWindow.Add` records: the bootstrap interval first, then the difference -/
def ArrivalWindow.sample (w : ArrivalWindow) (t : Nat) : Int :=
  match w.lastTimestamp with
  | some last => (t : Int) - (last : Int)
  | none => w.bootstrapInterval

/-- `arrivalWindow.Add`; on a panic `lastTimestamp` is not updated and the intervals keep the
wrapped cursor -/
def ArrivalWindow.add (w : ArrivalWindow) (t : Nat) : ArrivalWindow × Option Err :=
  match w.intervals.add (w.sample t) with
  | .ok a => ({ w with lastTimestamp := some t, intervals := a }, none)
  | .error e => ({ w with intervals := w.intervals.wrap }, some e)

/-- `accrualFailureDetector` -/
structure Detector where
  windows : AMap String ArrivalWindow := []
  bootstrapInterval : Int
  sampleSize : Nat
deriving Repr, Inhabited

/-- `newAccrualFailureDetector(bootstrapInterval, sampleSize)` -/
def newDetector (bootstrapInterval : Int) (sampleSize : Nat) : Detector :=
  { windows := [], bootstrapInterval := bootstrapInterval, sampleSize := sampleSize }

/-- `ReportWithTimestamp`: the (possibly new) window is stored in the map before `Add` runs, so
it stays there when `Add` panics -/
def Detector.reportWithTimestamp (d : Detector) (id : String) (t : Nat) : Detector × Option Err :=
  let w := (d.windows.find id).getD (newArrivalWindow d.bootstrapInterval d.sampleSize)
  let r := w.add t
  ({ d with windows := d.windows.insert id r.1 }, r.2)

/-- `SuspicionLevelAt`: a node never heard from gets a window whose only sample is the
bootstrap interval and whose last arrival is the query time; that window is stored only
after its `Add` returned. -/
def Detector.suspicionLevelAt (d : Detector) (id : String) (t : Nat) : Detector × Except Err Phi :=
  match d.windows.find id with
  | some w => (d, w.phi t)
  | none =>
    match (newArrivalWindow d.bootstrapInterval d.sampleSize).add t with
    | (w, none) => ({ d with windows := d.windows.insert id w }, w.phi t)
    | (_, some e) => (d, .error e)

/-- `Remove` -/
def Detector.remove (d : Detector) (id : String) : Detector :=
  { d with windows := d.windows.erase id }

/-- `suspicionThreshold` of `pkg/gossip/gossip.go`: the constant of the **current** source as the fact
extractor reads it (20 on the pinned tree; `C12_facts_threshold` fails when it could not be read) -/
def suspicionThreshold : Nat := Facts.suspicionThreshold.getD 20

/-! ## Histories -/

inductive Op
  | report (id : String) (t : Nat)
  | query (id : String) (t : Nat)
  | remove (id : String)
deriving Repr, DecidableEq

def Detector.step (d : Detector) : Op → Detector
  | .report id t => (d.reportWithTimestamp id t).1
  | .query id t => (d.suspicionLevelAt id t).1
  | .remove id => d.remove id

def Detector.run (d : Detector) (ops : List Op) : Detector := ops.foldl Detector.step d

/-- the arrival sequence a history gives one node: its reports since the last `Remove`; a
query of a node without a window counts as its first arrival -/
def arrivalsStep (id : String) (ts : List Nat) : Op → List Nat
  | .report i t => if i = id then ts ++ [t] else ts
  | .query i t => if i = id ∧ ts = [] then [t] else ts
  | .remove i => if i = id then [] else ts

def arrivalsOf (id : String) (ops : List Op) : List Nat := ops.foldl (arrivalsStep id) []

/-- successive differences of an arrival sequence -/
def diffs : List Nat → List Int
  | a :: b :: rest => ((b : Int) - (a : Int)) :: diffs (b :: rest)
  | _ => []

/-- the samples of an arrival sequence: `[b, t₂ - t₁, t₃ - t₂, …]` -/
def intervalsOf (b : Int) : List Nat → List Int
  | [] => []
  | t :: ts => b :: diffs (t :: ts)

/-- the last `n` elements of a list (the whole list when it is shorter) -/
def lastN {α : Type} (n : Nat) (xs : List α) : List α := xs.drop (xs.length - n)

def ArrivalWindow.addAll (w : ArrivalWindow) (ts : List Nat) : ArrivalWindow :=
  ts.foldl (fun w t => (w.add t).1) w

/-- the window of a node whose arrivals were `ts` (bootstrap `b`, sample size `N`) -/
def windowOf (b : Int) (N : Nat) (ts : List Nat) : ArrivalWindow :=
  (newArrivalWindow b N).addAll ts

end FD
end Piko
