import PikoModel.Gossip.State
/-!
# Whom a node gossips with (`pkg/gossip/gossip.go`: `gossipRound`, `Leave`)

`gossipRound` draws one random live peer and one random unreachable peer
(`nodes[rand.Int() % len(nodes)]`); the two draws are parameters `r₁ r₂` here and universally
quantified in the theorems.  `Leave` walks a shuffled copy of `Nodes()` (the parameter `order`),
skips itself and every left/unreachable node, and stops after the fourth successful
notification (`notified > 3`; the comment in the source says "upto 3" - observation O3);
`ok id` says whether the leave stream to `id` succeeded.  Core Lean only.
-/
namespace Piko
namespace Gossip

/-- `nodes[rand.Int() % len(nodes)]`, guarded by `len(nodes) > 0` -/
def pickNode (xs : List NodeSt) (r : Nat) : Option NodeSt :=
  if xs.isEmpty then none else xs[r % xs.length]?

/-- the peers one `gossipRound` sends a digest request to -/
def roundTargets (s : CState) (r₁ r₂ : Nat) : List NodeSt :=
  (pickNode (liveNodes s) r₁).toList ++ (pickNode (unreachableNodes s) r₂).toList

/-- the loop of `Leave`: `(notified so far, some leave failed)` folded over the shuffled nodes -/
def leaveLoop (localId : String) (ok : String → Bool) : List NodeSt → List String → List String
  | [], acc => acc
  | n :: rest, acc =>
    if n.id = localId then leaveLoop localId ok rest acc
    else if n.left || n.unreachable then leaveLoop localId ok rest acc
    else if ok n.id then
      -- `notified++ ; if notified > 3 { return nil }`
      if acc.length + 1 > 3 then acc ++ [n.id] else leaveLoop localId ok rest (acc ++ [n.id])
    else leaveLoop localId ok rest acc

/-- `Leave()`: the state after `LeaveLocal` and the ids notified, in order -/
def leaveNotified (s : CState) (order : List NodeSt) (ok : String → Bool) : List String :=
  leaveLoop s.localId ok order []

end Gossip
end Piko
