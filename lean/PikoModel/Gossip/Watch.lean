import PikoModel.Gossip.State
/-!
# What a gossip `Watcher` can reconstruct (`pkg/gossip/watcher.go`)

A consumer of the `Watcher` interface (`OnJoin`, `OnLeave`, `OnReachable`, `OnUnreachable`,
`OnUpsertKey`, `OnDeleteKey`, `OnExpired`) sees nothing but the notifications.  `foldEvent`
is the obvious replay of one notification into a per-node key/value view, `visible` is
what `Gossip.Node(id)` / `Gossip.Nodes()` show for the remote nodes (the non-internal,
non-deleted entries and the `Left` / `Unreachable` flags).  C14 relates the two.
Core Lean only.
-/
namespace Piko
namespace Gossip

/-- one remote node as reconstructed from notifications -/
structure WNode where
  kv : AMap String String := []
  left : Bool := false
  unreachable : Bool := false
deriving DecidableEq, Repr, Inhabited

/-- the folded watcher view: node id ↦ reconstructed node -/
abbrev WView := AMap String WNode

/-- the node a notification is about -/
def Event.node : Event → String
  | .join id => id
  | .leave id => id
  | .reachable id => id
  | .unreachable id => id
  | .upsert id _ _ => id
  | .delete id _ => id
  | .expired id => id

/-- update the node `id` of the view if it is present; a notification about a node that
is not present is ignored -/
def wmodify (w : WView) (id : String) (f : WNode → WNode) : WView :=
  match w.find id with
  | some n => w.insert id (f n)
  | none => w

/-- replay one notification -/
def foldEvent (w : WView) : Event → WView
  | .join id => w.insert id {}
  | .upsert id k v => wmodify w id fun n => { n with kv := n.kv.insert k v }
  | .delete id k => wmodify w id fun n => { n with kv := n.kv.erase k }
  | .leave id => wmodify w id fun n => { n with left := true }
  | .unreachable id => wmodify w id fun n => { n with unreachable := true }
  | .reachable id => wmodify w id fun n => { n with unreachable := false }
  | .expired id => w.erase id

/-- replay a list of notifications in order -/
def foldEvents (w : WView) (evs : List Event) : WView := evs.foldl foldEvent w

/-- an entry that `Node(id)` consumers treat as application state -/
def visibleEntry (e : Entry) : Bool := !e.internal && !e.deleted

/-- the visible part of one node's state -/
def visNode (n : NodeSt) : WNode :=
  { kv := (n.entries.filterV visibleEntry).map fun p => (p.1, p.2.value)
    left := n.left
    unreachable := n.unreachable }

/-- the visible cluster state: every remote node (`id ≠ localId`) with its visible entries
and membership flags -/
def visible (s : CState) : WView := (s.nodes.erase s.localId).map fun p => (p.1, visNode p.2)

/-- `true` when the notification is not about an unknown node: `join` announces a node
that is not in the running fold, every other notification is about a node that is -/
def eventOK (w : WView) : Event → Bool
  | .join id => !w.contains id
  | e => w.contains e.node

/-- every notification of the list is `eventOK` for the fold of the ones before it -/
def eventsOK (w : WView) : List Event → Bool
  | [] => true
  | e :: es => eventOK w e && eventsOK (foldEvent w e) es

/-- reserved keys of the package (`leftKey`, `compactKey`) -/
def isReserved (k : String) : Bool := k = leftKey || k = compactKey

/-- a delta entry as the package itself produces them for a caller that does not write the
reserved keys: `Internal` is set exactly on the reserved keys -/
def entryOK (e : Entry) : Bool := e.internal == isReserved e.key

def deltaOK (d : Delta) : Bool := d.all fun de => de.entries.all entryOK

end Gossip
end Piko
