import PikoModel.Data.AMap
import PikoModel.Generated.Facts
/-!
# Model of `pkg/gossip/state.go`

One function per Go method of `clusterState`; each returns the new state and the watcher
events it emitted.  Deliberate differences from the Go text are listed in DESIGN.md
(Appendix A): D2 repair in `upsertLocal`, map order = list order, `time.Now()` is the
parameter `now`, the failure detector is the parameter `suspected`, metrics omitted,
`compactLocal` returns `none` exactly where Go indexes an empty slice.
Core Lean only.
-/
namespace Piko
namespace Gossip

def leftKey : String := "_internal:left"
def compactKey : String := "_internal:compact"
/-- `nodeExpiry` in nanoseconds: the constant of `pkg/gossip/state.go` as the fact extractor reads
it from the current source (`time.Minute` on the pinned tree).  No theorem depends on its value;
`C11_facts_nodeExpiry` fails when the extractor could not read it (the `getD` default is then
what the model would silently use) and `C11_silent_peer_lifecycle` needs it positive. -/
def nodeExpiry : Nat := Facts.nodeExpiryNs.getD (60 * 1000000000)

structure Entry where
  key : String
  value : String
  version : Nat
  internal : Bool := false
  deleted : Bool := false
deriving DecidableEq, Repr, Inhabited

structure NodeSt where
  id : String
  addr : String
  version : Nat := 0
  left : Bool := false
  unreachable : Bool := false
  expiry : Option Nat := none
  entries : AMap String Entry := []
deriving Repr, Inhabited, DecidableEq

structure CState where
  localId : String
  nodes : AMap String NodeSt
deriving Repr, Inhabited

inductive Event
  | join (id : String) | leave (id : String) | reachable (id : String) | unreachable (id : String)
  | upsert (id k v : String) | delete (id k : String) | expired (id : String)
deriving DecidableEq, Repr

structure DigestEntry where
  id : String
  addr : String
  version : Nat
  left : Bool
deriving DecidableEq, Repr

structure DeltaEntry where
  id : String
  addr : String
  entries : List Entry
deriving DecidableEq, Repr

abbrev Digest := List DigestEntry
abbrev Delta := List DeltaEntry

/-- `sort.Slice(entries, func(i, j) { return entries[i].Version < entries[j].Version })`.
Deterministic on reachable maps because versions inside one node map are pairwise distinct
(`Props/C02 versions_injective`). -/
def sortByVersion (es : List Entry) : List Entry := es.mergeSort (fun a b => decide (a.version ≤ b.version))

def init (id addr : String) : CState := { localId := id, nodes := [(id, { id := id, addr := addr })] }

def own (s : CState) : NodeSt := (s.nodes.find s.localId).getD default
def setOwn (s : CState) (n : NodeSt) : CState := { s with nodes := s.nodes.insert s.localId n }

def writeOwn (s : CState) (k : String) (mk : Nat → Entry) : CState :=
  let st := own s
  let ver := st.version + 1
  setOwn s { st with version := ver, entries := st.entries.insert k (mk ver) }

/-- `UpsertLocal`, with the D2 repair (`&& !existing.Deleted`). -/
def upsertLocal (s : CState) (k v : String) : CState :=
  match (own s).entries.find k with
  | some e =>
    if e.value = v && !e.deleted then s
    else writeOwn s k (fun ver => { key := k, value := v, version := ver })
  | none => writeOwn s k (fun ver => { key := k, value := v, version := ver })

/-- `DeleteLocal` -/
def deleteLocal (s : CState) (k : String) : CState :=
  match (own s).entries.find k with
  | none => s
  | some e =>
    if e.deleted then s
    else writeOwn s k (fun ver =>
      { key := e.key, value := "", version := ver, internal := e.internal, deleted := true })

/-- `LeaveLocal` -/
def leaveLocal (s : CState) : CState :=
  let st := own s
  if st.left then s else
    let ver := st.version + 1
    setOwn s { st with left := true, version := ver,
                       entries := st.entries.insert leftKey
                         { key := leftKey, value := "", version := ver, internal := true } }

/-- entries that survive a compaction: not deleted, and not the previous compaction marker -/
def compactKeeps (e : Entry) : Bool := !e.deleted && !(e.internal && e.key = compactKey)

/-- re-version `live` (already in version order) with `v0+1, v0+2, …` -/
def reversion (v0 : Nat) : List Entry → List Entry
  | [] => []
  | e :: es => { e with version := v0 + 1 } :: reversion (v0 + 1) es

/-- `CompactLocal`. `none` = the real code panics (index out of range on an empty map,
reachable only with `threshold ≤ 0`). -/
def compactLocal (s : CState) (threshold : Nat) : Option CState :=
  let st := own s
  let all := sortByVersion st.entries.vals
  let deleted := (all.filter (·.deleted)).length
  if deleted < threshold then some s else
  match all.getLast? with
  | none => none
  | some lastE =>
    let live := reversion st.version (all.filter compactKeeps)
    let ver := st.version + live.length + 1
    let marker : Entry :=
      { key := compactKey, value := toString lastE.version, version := ver, internal := true }
    let ents : AMap String Entry := live.map (fun e => (e.key, e))
    some (setOwn s { st with version := ver, entries := ents.insert compactKey marker })

/-- `Digest` (Go map order = list order here; quantified over in theorems) -/
def digest (s : CState) : Digest :=
  s.nodes.vals.map fun n => { id := n.id, addr := n.addr, version := n.version, left := n.left }

/-- `deltaEntry(nodeID, fromVersion)` -/
def deltaEntry (n : NodeSt) (from_ : Nat) : DeltaEntry :=
  { id := n.id, addr := n.addr,
    entries := sortByVersion (n.entries.vals.filter (fun e => decide (from_ < e.version))) }

/-- `Delta(digest, fullDigest)` -/
def delta (s : CState) (d : Digest) (full : Bool) : Delta :=
  let fromDigest := d.filterMap fun de =>
    match s.nodes.find de.id with
    | none => none
    | some n => let x := deltaEntry n de.version; if x.entries.isEmpty then none else some x
  let rest := if full then
      (s.nodes.vals.filter (fun n => !(d.any (fun x => x.id = n.id)))).map (fun n => deltaEntry n 0)
    else []
  fromDigest ++ rest

/-- `LocalDelta` -/
def localDelta (s : CState) : Delta := [deltaEntry (own s) 0]

def applyDigestEntry (acc : CState × List Event) (de : DigestEntry) : CState × List Event :=
  match acc.1.nodes.find de.id with
  | some _ => acc
  | none =>
    if de.left then acc
    else ({ acc.1 with nodes := acc.1.nodes.insert de.id { id := de.id, addr := de.addr } },
          acc.2 ++ [.join de.id])

/-- `ApplyDigest` -/
def applyDigest (s : CState) (d : Digest) : CState × List Event :=
  d.foldl applyDigestEntry (s, [])

/-- `strconv.ParseUint(s, 10, 64)`: decimal digits only, non-empty, value `< 2^64`. -/
def parseUint64 (s : String) : Option Nat :=
  let cs := s.toList
  if cs.isEmpty || !cs.all Char.isDigit then none else
    let n := Nat.ofDigitChars 10 cs 0
    if n < 2^64 then some n else none

/-- one iteration of the loop body of `applyDeltaEntry`; the `Bool` is `return`
(ParseUint error aborts the whole entry list). -/
def applyEntry (now : Nat) (st : NodeSt) (e : Entry) : NodeSt × List Event × Bool :=
  if e.version ≤ st.version then (st, [], false) else
  let st1 := { st with entries := st.entries.insert e.key e, version := e.version }
  if e.internal then
    if e.key = leftKey then
      ({ st1 with left := true, expiry := some (now + nodeExpiry) }, [.leave st.id], false)
    else if e.key = compactKey then
      match parseUint64 e.value with
      | none => (st1, [], true)
      | some cv =>
        let dropped := st1.entries.vals.filter (fun x => decide (x.version ≤ cv))
        ({ st1 with entries := st1.entries.filterV (fun x => !decide (x.version ≤ cv)) },
         (dropped.filter (fun x => !x.deleted)).map (fun x => .delete st.id x.key), false)
    else (st1, [], false)
  else if e.deleted then (st1, [.delete st.id e.key], false)
  else (st1, [.upsert st.id e.key e.value], false)

def applyEntries (now : Nat) (st : NodeSt) : List Entry → NodeSt × List Event
  | [] => (st, [])
  | e :: es =>
    let (st', ev, stop) := applyEntry now st e
    if stop then (st', ev) else
      let (st'', ev') := applyEntries now st' es
      (st'', ev ++ ev')

/-- `applyDeltaEntry` -/
def applyDeltaEntry (now : Nat) (s : CState) (de : DeltaEntry) : CState × List Event :=
  if de.id = s.localId then (s, []) else
  let (st, ev0) := match s.nodes.find de.id with
    | some st => (st, [])
    | none => (({ id := de.id, addr := de.addr } : NodeSt), [Event.join de.id])
  let (st', ev) := applyEntries now st de.entries
  ({ s with nodes := s.nodes.insert de.id st' }, ev0 ++ ev)

/-- `ApplyDelta` -/
def applyDelta (now : Nat) (s : CState) (d : Delta) : CState × List Event :=
  d.foldl (fun acc de => let (s', ev) := applyDeltaEntry now acc.1 de; (s', acc.2 ++ ev)) (s, [])

def isExpiredAt (t : Nat) (n : NodeSt) : Bool :=
  match n.expiry with
  | some x => decide (x < t)
  | none => false

/-- `RemoveExpiredAt(t)`: `!Expiry.IsZero() && t.After(Expiry)` -/
def removeExpiredAt (s : CState) (t : Nat) : CState × List Event :=
  let gone := s.nodes.vals.filter (isExpiredAt t)
  ({ s with nodes := s.nodes.filterV (fun n => !isExpiredAt t n) },
   gone.map (fun n => Event.expired n.id))

def setNode (s : CState) (n : NodeSt) : CState := { s with nodes := s.nodes.insert n.id n }

def livenessStep (localId : String) (suspected : String → Bool) (now : Nat)
    (acc : CState × List Event) (p : String × NodeSt) : CState × List Event :=
  let n := p.2
  if n.id = localId || n.left then acc else
  if suspected n.id then
    if n.unreachable then acc else
      let n' : NodeSt := { n with unreachable := true, expiry := some (now + nodeExpiry) }
      (setNode acc.1 n', acc.2 ++ [.unreachable n.id])
  else if n.unreachable then
    let n' : NodeSt := { n with unreachable := false, expiry := none }
    (setNode acc.1 n', acc.2 ++ [.reachable n.id])
  else acc

/-- `UpdateLiveness(threshold)`; `suspected id` = `SuspicionLevel(id) > threshold` -/
def updateLiveness (s : CState) (suspected : String → Bool) (now : Nat) : CState × List Event :=
  s.nodes.foldl (livenessStep s.localId suspected now) (s, [])

/-- `LiveNodes` -/
def liveNodes (s : CState) : List NodeSt :=
  s.nodes.vals.filter (fun n => !(n.id = s.localId) && !(n.unreachable || n.left))

/-- `UnreachableNodes` -/
def unreachableNodes (s : CState) : List NodeSt :=
  s.nodes.vals.filter (fun n => !(n.id = s.localId) && n.unreachable)

end Gossip
end Piko
