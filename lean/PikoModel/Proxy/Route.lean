import PikoModel.Upstream.LB
/-!
# Model of `server/proxy/{server,httpproxy,tcpproxy}.go`: endpoint addressing and routing

* `endpointIDFromRequest` is `EndpointIDFromRequest` (`server.go`): `x-piko-endpoint` first,
  else the `Host` header with the port stripped, IPs ignored, a `.` required, first label.
  `net.SplitHostPort` and `net.ParseIP` are parameters (`Lib`): the harness supplies on the op
  line what the real library returned; theorems hold for every value of the parameter.
* `handle` is one invocation of `proxyHTTPRoute` + `HTTPProxy.ServeHTTP` resp.
  `proxyTCPRoute` + `TCPProxy.ServeHTTP` on one node: 400 | `Select(endpoint, !forwarded)` ↦
  local upstream | remote node (forward) | 502.
* `forwardReq` is what `ServeHTTPWithUpstream` + `httputil.ReverseProxy` send to the chosen
  node: same `Host`, same path, `x-piko-forward: true` set on the inbound header map, then the
  hop-by-hop removal of `net/http/httputil` (`removeHopByHopHeaders`, which runs *after* the
  header was set) deletes every header named in the client's `Connection` header - which is
  why `removeConnectionOptions` (repair 1c64d44) first takes the piko names out of it.
* `routeAt` follows the request from the entry node: `NodeUpstream.Dial` connects to the
  `ProxyAddr` **of the row in the forwarding node's view**; `World.listen` says which node
  (if any) really listens there.  It is fuel-bounded recursion; the theorems show that the
  recursion ends by itself after at most two handler invocations.

Choices of Go's map iteration in `LookupEndpoint` are the `choices : List Nat` parameter
(index into `lookupCandidates`), universally quantified in the theorems.  Core Lean only.
-/
namespace Piko
namespace Proxy
open Piko.Upstream

/-- results of the two library calls made by `EndpointIDFromRequest` -/
structure Lib where
  /-- `net.SplitHostPort(hostport)`: `some host` or `none` for an error -/
  splitHostPort : String → Option String
  /-- `net.ParseIP(s) != nil` -/
  parseIP : String → Bool

inductive Kind
  | http                       -- `router.NoRoute(s.proxyHTTPRoute)`
  | tcp (pathEp : String)      -- `GET /_piko/v1/tcp/:endpointID` (websocket), `c.Param("endpointID")`
deriving Repr, DecidableEq, Inhabited

/-- the part of a request the proxy's routing reads -/
structure Req where
  host : String                        -- `r.Host`
  epHeader : Option String := none     -- first `x-piko-endpoint` value; `none` = absent
  fwdHeader : Option String := none    -- first `x-piko-forward` value; `none` = absent
  /-- canonical (`textproto.CanonicalMIMEHeaderKey`) header names listed in `Connection` -/
  conn : List String := []
  kind : Kind := .http
deriving Repr, DecidableEq, Inhabited

/-- canonical names of the two piko headers -/
def fwdName : String := "X-Piko-Forward"
def epName : String := "X-Piko-Endpoint"

/-- `r.Header.Get(k)`: the empty string when absent -/
def hdrGet (h : Option String) : String := h.getD ""

/-- `strings.Contains(host, ".")` -/
def hasDot (s : String) : Bool := s.toList.contains '.'

/-- `strings.Split(host, ".")[0]` -/
def firstLabel (s : String) : String := String.ofList (s.toList.takeWhile (fun c => c != '.'))

/-- `EndpointIDFromRequest(r)`; the Go function returns `""` for "no endpoint id". -/
def endpointIDFromRequest (lib : Lib) (host : String) (epHeader : Option String) : String :=
  if hdrGet epHeader ≠ "" then hdrGet epHeader else
  let h := (lib.splitHostPort host).getD host
  if h = "" then ""
  else if lib.parseIP h then ""
  else if hasDot h then firstLabel h
  else ""

/-- the endpoint a node derives for a request: `proxyHTTPRoute` uses `EndpointIDFromRequest`
and answers 400 for `""`; `proxyTCPRoute` uses the path parameter and has no such check. -/
def endpointOf (lib : Lib) (r : Req) : Option String :=
  match r.kind with
  | .http =>
    if endpointIDFromRequest lib r.host r.epHeader = "" then none
    else some (endpointIDFromRequest lib r.host r.epHeader)
  | .tcp p => some p

/-- `forwarded := r.Header.Get("x-piko-forward") == "true"` (both proxies) -/
def Req.forwarded (r : Req) : Bool := r.fwdHeader == some "true"

/-- `removeConnectionOptions(r.Header, "x-piko-forward", "x-piko-endpoint")` (repair 1c64d44):
the two piko header names are deleted from the options listed in `Connection`. -/
def removeConnectionOptions (conn : List String) : List String :=
  conn.filter (fun t => !(t == fwdName) && !(t == epName))

/-- `r.Header.Set("x-piko-forward", "true")` followed by `ReverseProxy.ServeHTTP`: the request
is cloned, `Host` and the path are left alone (the `Director` only sets `URL.Scheme/Host`),
and `removeHopByHopHeaders` deletes every header named by the `Connection` options `conn`,
and `Connection` itself (re-added as `Upgrade` for websockets, which names neither piko
header).  Note the order: the removal runs *after* the marker was set. -/
def proxySend (conn : List String) (r : Req) : Req :=
  { r with
    fwdHeader := if conn.contains fwdName then none else some "true",
    epHeader := if conn.contains epName then none else r.epHeader,
    conn := [] }

/-- the request `ServeHTTPWithUpstream` sends on -/
def forwardReq (r : Req) : Req := proxySend (removeConnectionOptions r.conn) r

/-- `ServeHTTPWithUpstream` before the repair 1c64d44 (kept for the regression lemma
`forwardReqUnrepaired_loses_marker`; not used by `handle`) -/
def forwardReqUnrepaired (r : Req) : Req := proxySend r.conn r

/-- what one handler invocation does -/
inductive Step
  | reply400                                   -- "missing endpoint id"
  | serve (e : String) (u : Nat)               -- proxied to local upstream `u` of endpoint `e`
  | dialGone (e : String) (u : Nat)            -- local upstream `u` answered `ErrGone`: removed, 502
  | forward (e : String) (cands : List Cluster.Node) (req' : Req)
                                               -- proxied to one of `cands` (rows of this node's view)
  | reply502                                   -- "no available upstreams"
  | fault                                      -- `(nil, true)` / index panic (unreachable states)
deriving Repr

/-- `proxyHTTPRoute`/`proxyTCPRoute` followed by `HTTPProxy.ServeHTTP`/`TCPProxy.ServeHTTP`
on the node whose manager (registry + routing view) is `m`.  `gone e u` says whether the local
upstream `u` of endpoint `e` answers `Dial()` with `upstream.ErrGone` (its listener sent a yamux
GoAway but the session is still registered): `HTTPProxy.dialUpstream` / `TCPProxy.ServeHTTP`
then call `RemoveConn(u)` and the request is answered 502 "upstream unreachable" (the reverse
proxy's `errorHandler` resp. `errorResponse`) - it is **not** re-selected and not forwarded. -/
def handle (lib : Lib) (gone : String → Nat → Bool) (m : Mgr) (r : Req) : Step × Mgr :=
  match endpointOf lib r with
  | none => (.reply400, m)
  | some e =>
    match m.select e (!r.forwarded) with
    | (.localUp u, m') =>
      if gone e u then (.dialGone e u, m'.removeConn { id := u, ep := e }) else (.serve e u, m')
    | (.remote _, m') => (.forward e (m.cluster.lookupCandidates e) (forwardReq r), m')
    | (.notFound, m') => (.reply502, m')
    | (.nilTrue, m') => (.fault, m')
    | (.panic, m') => (.fault, m')

/-- a cluster: every node's manager (own registry, own arbitrary view of the others) and the
listening sockets (`proxy address ↦ id of the node that really listens there`) -/
structure World where
  nodes : AMap String Mgr
  listen : AMap String String
  /-- local upstreams `(node, endpoint, upstream)` whose `Dial()` answers `ErrGone` -/
  gone : List (String × String × Nat) := []
deriving Repr, Inhabited

/-- does upstream `u` of endpoint `e` connected to node `n` answer `ErrGone`? -/
def World.isGone (w : World) (n e : String) (u : Nat) : Bool := w.gone.contains (n, e, u)

inductive Outcome
  | badRequest (node : String)                   -- 400 produced by `node`
  | served (node : String) (e : String) (u : Nat)  -- delivered to upstream `u` of `e` connected to `node`
  | noUpstream (node : String)                   -- 502 "no available upstreams" produced by `node`
  | gone (node : String) (e : String) (u : Nat)  -- 502 "upstream unreachable": `u` answered `ErrGone` and was removed
  | unreachable                                  -- 502 "upstream unreachable": the dial failed
  | fault (node : String)
  | outOfFuel
deriving Repr, DecidableEq

structure Result where
  /-- the nodes whose proxy handler ran, in order (entry node first) -/
  visited : List String := []
  /-- the forwarding decisions `(forwarding node, id of the row it chose)` in order -/
  via : List (String × String) := []
  outcome : Outcome
deriving Repr, DecidableEq

/-- `LookupEndpoint` returns the row Go's map iteration meets first: any candidate -/
def pickCand (cands : List Cluster.Node) (i : Nat) : Option Cluster.Node := cands[i % cands.length]?

/-- the request arrives at the proxy port of node `n` -/
def routeAt (lib : Lib) : Nat → World → String → Req → List Nat → Result × World
  | 0, w, _, _, _ => ({ outcome := .outOfFuel }, w)
  | fuel + 1, w, n, r, choices =>
    match w.nodes.find n with
    | none => ({ outcome := .unreachable }, w)
    | some m =>
      match handle lib (w.isGone n) m r with
      | (.reply400, m') => ({ visited := [n], outcome := .badRequest n }, { w with nodes := w.nodes.insert n m' })
      | (.serve e u, m') => ({ visited := [n], outcome := .served n e u }, { w with nodes := w.nodes.insert n m' })
      | (.dialGone e u, m') => ({ visited := [n], outcome := .gone n e u }, { w with nodes := w.nodes.insert n m' })
      | (.reply502, m') => ({ visited := [n], outcome := .noUpstream n }, { w with nodes := w.nodes.insert n m' })
      | (.fault, m') => ({ visited := [n], outcome := .fault n }, { w with nodes := w.nodes.insert n m' })
      | (.forward _ cands r', m') =>
        let w' : World := { w with nodes := w.nodes.insert n m' }
        match pickCand cands (choices.headD 0) with
        | none => ({ visited := [n], outcome := .fault n }, w')
        | some c =>
          match w'.listen.find c.proxyAddr with
          | none => ({ visited := [n], via := [(n, c.id)], outcome := .unreachable }, w')
          | some k =>
            let (res, w'') := routeAt lib fuel w' k r' choices.tail
            ({ visited := n :: res.visited, via := (n, c.id) :: res.via, outcome := res.outcome }, w'')

/-- enough fuel for every request (`C06_one_hop`: two handler invocations suffice) -/
def routeFuel : Nat := 3

/-- a client request `r` entering the cluster at node `entry` -/
def route (lib : Lib) (w : World) (entry : String) (r : Req) (choices : List Nat) : Result × World :=
  routeAt lib routeFuel w entry r choices

/-- inter-node hops of a routed request -/
def Result.hops (r : Result) : Nat := r.visited.length - 1

end Proxy
end Piko
