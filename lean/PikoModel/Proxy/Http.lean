/-!
# Model of piko's own part of HTTP proxying
(`server/proxy/server.go proxyHTTPRoute`, `server/proxy/httpproxy.go`)

Two things are piko's own and are modelled here:

* the **answers piko generates itself** (`respond`): 400 when no endpoint can be determined,
  401 when the token does not permit the endpoint, 502 when no upstream is available
  (`Select` fails), and the `ErrorHandler` of the reverse proxy: 504 iff the transport error
  is `context.DeadlineExceeded`, otherwise 502; the deadline exists only when
  `timeout != 0 && r.Header.Get("upgrade") != "websocket"`;
* the **transform piko applies on top of `httputil.ReverseProxy`** (`pikoTransform`):
  `removeConnectionOptions(r.Header, "x-piko-forward", "x-piko-endpoint")`,
  `r.Header.Set("x-piko-forward", "true")`, and the `Director` which only sets
  `req.URL.Scheme = "http"` and `req.URL.Host = endpointID` (never `req.Host`).

`libTransform` is the part done by the library (`httputil.ReverseProxy` hop-by-hop removal,
`X-Forwarded-For`, `net/http.Transport` adding `Accept-Encoding: gzip`): it is **assumed**,
modelled only so that the correspondence engine `http` can predict what the upstream sees.
Core Lean only.
-/
namespace Piko
namespace Http

/-! ## Header names -/

def upperAscii (c : Char) : Char := if 'a' ≤ c ∧ c ≤ 'z' then Char.ofNat (c.toNat - 32) else c
def lowerAscii (c : Char) : Char := if 'A' ≤ c ∧ c ≤ 'Z' then Char.ofNat (c.toNat + 32) else c

def canonAux : Bool → List Char → List Char
  | _, [] => []
  | up, c :: cs => (if up then upperAscii c else lowerAscii c) :: canonAux (c == '-') cs

/-- `textproto.CanonicalMIMEHeaderKey` on a valid header token -/
def canon (name : String) : String := String.ofList (canonAux true name.toList)

def lower (s : String) : String := String.ofList (s.toList.map lowerAscii)

def trimSpace (s : String) : String :=
  let isSp (c : Char) : Bool := c == ' ' || c == '\t'
  String.ofList (((s.toList.dropWhile isSp).reverse.dropWhile isSp).reverse)

def splitCommaAux : List Char → List Char → List (List Char)
  | [], cur => [cur.reverse]
  | c :: cs, cur => if c == ',' then cur.reverse :: splitCommaAux cs [] else splitCommaAux cs (c :: cur)

/-- `strings.Split(s, ",")` -/
def splitComma (s : String) : List String := (splitCommaAux s.toList []).map String.ofList

/-- an `http.Header`: canonical name ↦ values in arrival order, as an ordered list of fields -/
abbrev Headers := List (String × String)

def Headers.values (h : Headers) (name : String) : List String :=
  (h.filter fun p => p.1 == canon name).map (·.2)

/-- `Header.Get` -/
def Headers.get (h : Headers) (name : String) : String := ((h.values name).head?).getD ""

/-- `Header.Del` -/
def Headers.del (h : Headers) (name : String) : Headers := h.filter fun p => !(p.1 == canon name)

/-- `Header.Set` -/
def Headers.set (h : Headers) (name value : String) : Headers := h.del name ++ [(canon name, value)]

/-! ## piko's own answers -/

/-- what happens on the way to the upstream, as far as piko's decisions depend on it -/
inductive Upstream
  | dialError                      -- `upstream.Dial()` fails (refused, gone, dead node)
  | closedBeforeResponse           -- accepted, then closed before a response header
  | otherError                     -- any other transport error
  | responds (latencyMs : Nat) (status : Nat)   -- response header after `latencyMs`
deriving Repr, DecidableEq

structure Situation where
  endpointID : String          -- result of `EndpointIDFromRequest`
  permitted : Bool := true     -- token absent, or `EndpointPermitted(endpointID)`
  selected : Bool              -- `upstreams.Select(endpointID, !forwarded)` found an upstream
  timeoutMs : Nat              -- `proxyConfig.Timeout` (0 = none)
  upgrade : String := ""       -- `r.Header.Get("upgrade")`
  up : Upstream
deriving Repr, DecidableEq

/-- `p.timeout != 0 && r.Header.Get("upgrade") != "websocket"` -/
def timeoutApplied (s : Situation) : Bool := s.timeoutMs != 0 && s.upgrade != "websocket"

/-- what `http.Transport.RoundTrip` reports to the reverse proxy -/
inductive RoundTrip
  | response (status : Nat)
  | error (deadline : Bool)        -- `errors.Is(err, context.DeadlineExceeded)`
deriving Repr, DecidableEq

def roundTrip (s : Situation) : RoundTrip :=
  match s.up with
  | .dialError => .error false
  | .closedBeforeResponse => .error false
  | .otherError => .error false
  | .responds l st => if timeoutApplied s && s.timeoutMs < l then .error true else .response st

/-- `HTTPProxy.errorHandler` -/
def errorHandler (deadline : Bool) : Nat := if deadline then 504 else 502

/-- the status of the response and whether piko generated it itself -/
structure Answer where
  status : Nat
  own : Bool
deriving Repr, DecidableEq

/-- `Server.proxyHTTPRoute` → `HTTPProxy.ServeHTTP` → `ServeHTTPWithUpstream` -/
def respond (s : Situation) : Answer :=
  if s.endpointID = "" then ⟨400, true⟩
  else if !s.permitted then ⟨401, true⟩
  else if !s.selected then ⟨502, true⟩
  else match roundTrip s with
    | .error d => ⟨errorHandler d, true⟩
    | .response st => ⟨st, false⟩

/-- the `{"error": ...}` text of piko's own answers -/
def ownMessage (s : Situation) : String :=
  if s.endpointID = "" then "missing endpoint id"
  else if !s.permitted then "endpoint not permitted"
  else if !s.selected then "no available upstreams"
  else match roundTrip s with
    | .error true => "upstream timeout"
    | .error false => "upstream unreachable"
    | .response _ => ""

/-- the situations in which piko has to answer itself because no upstream response exists -/
def Situation.gatewayFailure (s : Situation) : Bool :=
  s.endpointID = "" || !s.selected ||
  (match roundTrip s with | .error _ => true | .response _ => false)

/-! ## piko's transform of the request -/

structure Request where
  method : String
  rawPath : String         -- escaped path exactly as received
  rawQuery : String        -- including whether a bare `?` was present (`ForceQuery`)
  host : String            -- `req.Host`
  urlScheme : String := ""
  urlHost : String := ""
  headers : Headers
  body : List UInt8
deriving Repr, DecidableEq

def pikoNames : List String := ["x-piko-forward", "x-piko-endpoint"]

/-- one `Connection` value with the piko names removed from its options
(`strings.EqualFold(strings.TrimSpace(option), name)`); `none` when nothing is left -/
def stripOptions (value : String) : Option String :=
  let opts := (splitComma value).filter fun o => !(pikoNames.contains (lower (trimSpace o)))
  if opts.isEmpty then none else some (",".intercalate opts)

/-- `removeConnectionOptions(h, "x-piko-forward", "x-piko-endpoint")` -/
def removeConnectionOptions (h : Headers) : Headers :=
  let vals := (h.values "Connection").filterMap stripOptions
  h.del "Connection" ++ vals.map fun v => ("Connection", v)

/-- `ServeHTTPWithUpstream` + `Director`: everything piko itself does to the request -/
def pikoTransform (endpointID : String) (r : Request) : Request :=
  { r with
    headers := (removeConnectionOptions r.headers).set "x-piko-forward" "true"
    urlScheme := "http"
    urlHost := endpointID }

/-! ## the library part (assumed) -/

def hopHeaders : List String :=
  ["Connection", "Proxy-Connection", "Keep-Alive", "Proxy-Authenticate", "Proxy-Authorization",
   "Te", "Trailer", "Transfer-Encoding", "Upgrade"]

/-- the names listed in `Connection` values -/
def connectionTokens (h : Headers) : List String :=
  ((h.values "Connection").flatMap fun v => (splitComma v).map trimSpace).filter (· ≠ "") |>.map canon

/-- `httputil.ReverseProxy`'s `removeHopByHopHeaders` -/
def removeHopByHop (h : Headers) : Headers :=
  h.filter fun p => !(connectionTokens h).contains p.1 && !hopHeaders.contains p.1

/-- names that the library adds or rewrites on the way (excluded from the end-to-end
comparison): forwarding chain, framing -/
def libOwned : List String := ["X-Forwarded-For", "Content-Length"]

/-- the end-to-end part of a header list: everything except piko's marker and the names the
proxy chain owns (those are reported separately) -/
def visible (h : Headers) : Headers :=
  h.filter fun p => !libOwned.contains p.1 && p.1 ≠ "X-Piko-Forward"

/-- one hop as the upstream of that hop sees it: piko's transform, then the library's
hop-by-hop removal -/
def hop (endpointID : String) (r : Request) : Request :=
  { pikoTransform endpointID r with
    headers := removeHopByHop (pikoTransform endpointID r).headers }

/-- `n` hops (1 = served by the node the client connected to, 2 = forwarded once) -/
def hops : Nat → String → Request → Request
  | 0, _, r => r
  | n + 1, ep, r => hops n ep (hop ep r)

/-! ## the response path -/

/-- how the upstream frames its response body -/
inductive Framing | contentLength | chunked | closeDelimited
deriving Repr, DecidableEq

/-- what the client observes of a response -/
inductive ClientView | complete | aborted
deriving Repr, DecidableEq

/-- The upstream dies after the response header, in the middle of the body.  The reverse proxy
panics with `http.ErrAbortHandler`; `panicRoute` (the handler of
`gin.CustomRecoveryWithWriter`) re-panics exactly that value (fix 6abbcc4), so net/http aborts
the client connection: whatever the framing, the client sees an unterminated response (or no
response at all when nothing had been flushed yet), never a well-terminated shorter body. -/
def onUpstreamDeathMidBody (_ : Framing) : ClientView := .aborted

/-- what the client can be expected to see of the upstream's response headers.  The proxy
handler is gin's `NoRoute` handler; it calls `c.Writer.WriteHeaderNow()` after the reverse proxy
returns (fix 694d302), so gin's `serveError` never replaces an upstream 404 that has no body:
the rule is the same for every status. -/
def visibleResp (h : Headers) : Headers :=
  (removeHopByHop h).filter fun p => p.1 ≠ "Content-Length"

end Http
end Piko
