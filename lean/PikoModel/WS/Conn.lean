/-!
# Model of `pkg/websocket/conn.go` (`Conn.Read`, `Conn.Write`, `Conn.Close`) and of the
# `io.Copy` pairs that relay bytes between two connections

`Conn` is the read side of one `pkg/websocket.Conn`: the reader of the partially consumed
current WebSocket message (`c.reader`), the messages/terminal events that
`wsConn.NextReader()` will deliver next, and gorilla's sticky read error.

What is modelled is piko's adapter logic, not the WebSocket wire format: gorilla's
`NextReader` is "pop the next data message or fail with a sticky error" (control frames are
consumed inside gorilla and never surface), and the reader it returns (`c.reader.Read(b)`)
may hand over **any** `1 ≤ n ≤ min(len b, rest)` bytes per call - the `Choice` argument - and
may or may not report `io.EOF` together with the last bytes.  Framing (fragmentation into
continuation frames, masking, the 4096-byte bufio), yamux windows, TCP and goroutine timing
are not in the model.  Core Lean only.
-/
namespace Piko
namespace WS

abbrev Bytes := List UInt8

/-- gorilla `websocket.TextMessage` -/
def textMessage : Nat := 1
/-- gorilla `websocket.BinaryMessage` -/
def binaryMessage : Nat := 2

/-- What `wsConn.NextReader()` delivers next.  `msg ty p fin`: a data message of gorilla type
`ty` with payload `p`; `fin = false` means the connection dies before the final frame of the
message arrives (the message reader then fails with `*websocket.CloseError` 1006 instead of
`io.EOF`).  `close`: a close frame, or the peer closing the TCP connection (abnormal closure):
`NextReader` fails with `*websocket.CloseError`.  `fail`: any other read error (for example the
connection was closed locally: `*net.OpError` "use of closed network connection"). -/
inductive Frame
  | msg (ty : Nat) (payload : Bytes) (fin : Bool)
  | close
  | fail
deriving Repr, DecidableEq, Inhabited

/-- error classes of `Conn.Read` / `Conn.Write` -/
inductive Err
  | closed              -- `net.ErrClosed`, mapped from `*websocket.CloseError`
  | badType (ty : Nat)  -- `fmt.Errorf("unexpected message type: %d", mt)`
  | other               -- every other error is passed through unchanged
deriving Repr, DecidableEq, Inhabited

/-- result of one `Conn.Read(b)` -/
inductive Res
  | data (bs : Bytes)   -- `(len bs, nil)`
  | zero                -- `(0, nil)`
  | err (e : Err)       -- `(0, e)`
  | block               -- `NextReader` blocks: nothing has arrived yet
deriving Repr, DecidableEq, Inhabited

def Res.bytes : Res → Bytes
  | .data bs => bs
  | _ => []

structure Conn where
  /-- `c.reader`: rest of the current message and whether it ends with `io.EOF` (`true`) or
  with a connection error (`false`); `none` is Go `nil` -/
  reader : Option (Bytes × Bool) := none
  /-- what `NextReader` will deliver, in order -/
  inq : List Frame := []
  /-- gorilla's sticky `c.readErr`, as the class `Conn.Read` maps it to -/
  readErr : Option Err := none
deriving Repr, DecidableEq, Inhabited

/-- the answer of the inner reader to one `c.reader.Read(b)`: it hands over
`min(max 1 (min n (len b)), rest)` bytes, so every `Choice` is legal and every legal answer
`1 ≤ n ≤ min(len b, rest)` is some `Choice` -/
structure Choice where
  n : Nat
  eof : Bool := false
deriving Repr, DecidableEq, Inhabited

/-- how many bytes the inner reader is willing to hand over: any number in `1 … len b` -/
def want (buf k : Nat) : Nat := max 1 (min k buf)

/-- the full read: the inner reader returns `min(len b, rest)` and no early `io.EOF` (what
gorilla does when the whole frame is buffered) -/
def Choice.full : Choice := { n := 1 <<< 62, eof := false }

/-- `n, err := c.reader.Read(b)` on a message with `rest ≠ []`, followed by the `n > 0` branch
of `Conn.Read`: with `len b = 0` the inner reader returns `(0, nil)` and so does `Conn.Read`;
otherwise `n = min(want, rest)` bytes are returned (so `1 ≤ n ≤ min(len b, rest)`), and the
reader is dropped (`c.reader = nil`) when the inner reader reported `io.EOF` together with the
last bytes. -/
def inner (rest : Bytes) (fin : Bool) (buf : Nat) (ch : Choice) : Res × Option (Bytes × Bool) :=
  if buf = 0 then (.zero, some (rest, fin))
  else
    let w := want buf ch.n
    if (rest.drop w).isEmpty && ch.eof && fin then (.data (rest.take w), none)
    else (.data (rest.take w), some (rest.drop w, fin))

/-- the loop of `Conn.Read` from the point where `c.reader == nil` and gorilla has no sticky
error: `NextReader`, type check, first inner read; an empty binary message gives `(0, io.EOF)`,
the reader is dropped and the loop continues with the next message. -/
def next (buf : Nat) (ch : Choice) : List Frame → Res × Conn
  | [] => (.block, {})
  | .close :: q => (.err .closed, { inq := q, readErr := some .closed })
  | .fail :: q => (.err .other, { inq := q, readErr := some .other })
  | .msg ty p fin :: q =>
    if ty ≠ binaryMessage then
      -- `return 0, fmt.Errorf("unexpected message type")`; c.reader stays nil, the next
      -- NextReader discards the rest of the message (and fails if its end never arrives)
      (.err (.badType ty), { inq := if fin then q else .close :: q })
    else match p with
      | [] =>
        if fin then next buf ch q
        else (.err .closed, { reader := some ([], false), inq := q })
      | b :: bs =>
        let r := inner (b :: bs) fin buf ch
        (r.1, { reader := r.2, inq := q })

/-- `func (c *Conn) Read(b []byte) (int, error)` with `len b = buf` -/
def read (c : Conn) (buf : Nat) (ch : Choice) : Res × Conn :=
  match c.reader with
  | some (b :: bs, fin) =>
    let r := inner (b :: bs) fin buf ch
    (r.1, { c with reader := r.2 })
  | some ([], false) =>
    -- `(0, *CloseError)` from the message reader: mapped to net.ErrClosed, c.reader is kept
    (.err .closed, c)
  | _ =>
    -- c.reader == nil, or the message is exhausted: `(0, io.EOF)`, `c.reader = nil`, loop
    match c.readErr with
    | some e => (.err e, { c with reader := none })
    | none => next buf ch c.inq

/-- a frame from the peer reaches gorilla's read side -/
def Conn.arrive (c : Conn) (f : Frame) : Conn := { c with inq := c.inq ++ [f] }

/-- `func (c *Conn) Write(b []byte) (int, error)` on an open connection, seen from the peer's
read side: exactly one binary message carrying exactly `p`; returns `len p`. -/
def write (peer : Conn) (p : Bytes) : Nat × Conn :=
  (p.length, peer.arrive (.msg binaryMessage p true))

/-- `Conn.Close()` on this side (`wsConn.Close()` closes the TCP connection without a close
frame): later reads fail - with gorilla's sticky read error if one was already recorded, else
with a non-close error ("use of closed network connection"); the peer observes `Frame.close`. -/
def Conn.closeLocal (c : Conn) : Conn :=
  { reader := none, inq := c.inq, readErr := some (c.readErr.getD .other) }

def Conn.isClosed (c : Conn) : Bool := c.reader.isNone && c.readErr.isSome

/-- bytes that reads will still deliver from a frame queue: binary payloads up to the first
terminal event (text messages are rejected by `Conn.Read`, they carry no stream bytes) -/
def payloadOf : List Frame → Bytes
  | [] => []
  | .close :: _ => []
  | .fail :: _ => []
  | .msg ty p fin :: q =>
    (if ty = binaryMessage then p else []) ++ (if fin then payloadOf q else [])

/-- bytes that reads on `c` will still deliver -/
def Conn.pending (c : Conn) : Bytes :=
  match c.reader with
  | some (r, false) => r
  | some (r, true) => r ++ (if c.readErr.isNone then payloadOf c.inq else [])
  | none => if c.readErr.isNone then payloadOf c.inq else []

/-- a connection on which exactly the binary messages `msgs` have arrived -/
def Conn.ofMsgs (msgs : List Bytes) : Conn := { inq := msgs.map fun p => .msg binaryMessage p true }

/-- the far end of a leg on which the frames `fs` have been written -/
def Conn.ofFrames (fs : List Frame) : Conn := { inq := fs }

/-- a sequence of `Read` calls (buffer size, inner-reader choice), continuing after errors -/
def run (c : Conn) : List (Nat × Choice) → List Res × Conn
  | [] => ([], c)
  | (b, ch) :: rs =>
    let r := read c b ch
    let t := run r.2 rs
    (r.1 :: t.1, t.2)

def delivered (rs : List Res) : Bytes := (rs.map Res.bytes).flatten

/-- a sequence of `Write` calls -/
def writes (peer : Conn) (ps : List Bytes) : Conn := ps.foldl (fun c p => (write c p).2) peer

/-! ## The relay: `io.Copy(dst, src)` with close-on-exit
(`server/proxy/tcpproxy.go forward`, `client/forwarder.go`, `agent/tcpproxy/server.go`,
`forward/forwarder.go` all have the same shape) -/

/-- `io.Copy(dst, src)` followed by the deferred `dst.Close()`: every `Read` result with
`n > 0` becomes one `Write` on `dst` (one message); `(0, nil)` loops; the first error ends the
loop and `dst` is closed, which the far end of `dst` observes as `Frame.close`.  Returns the
frames written to `dst`, the source afterwards, and whether the goroutine has returned. -/
def copy (src : Conn) : List (Nat × Choice) → List Frame × Conn × Bool
  | [] => ([], src, false)
  | (b, ch) :: rs =>
    let r := read src b ch
    match r.1 with
    | .data bs =>
      let t := copy r.2 rs
      (.msg binaryMessage bs true :: t.1, t.2.1, t.2.2)
    | .err _ => ([.close], r.2, true)
    | _ => copy r.2 rs

/-- The two goroutines of a proxy leg between a downstream connection `d` and an upstream
connection `u`, under an arbitrary scheduler. -/
structure Relay where
  d : Conn := {}
  u : Conn := {}
  /-- frames the proxy has written on the upstream leg (they arrive at the upstream peer) -/
  toU : List Frame := []
  /-- frames the proxy has written on the downstream leg -/
  toD : List Frame := []
  /-- `io.Copy(upstream, downstream)` has returned and `upstream.Close()` has run -/
  duDone : Bool := false
  /-- `io.Copy(downstream, upstream)` has returned and `downstream.Close()` has run -/
  udDone : Bool := false
deriving Repr, Inhabited

inductive RStep
  | arriveD (f : Frame)                -- a frame from the downstream peer arrives
  | arriveU (f : Frame)                -- a frame from the upstream peer arrives
  | copyDU (buf : Nat) (ch : Choice)   -- one iteration of `io.Copy(upstream, downstream)`
  | copyUD (buf : Nat) (ch : Choice)   -- one iteration of `io.Copy(downstream, upstream)`
deriving Repr, Inhabited

def Relay.step (s : Relay) : RStep → Relay
  | .arriveD f => { s with d := s.d.arrive f }
  | .arriveU f => { s with u := s.u.arrive f }
  | .copyDU buf ch =>
    if s.duDone then s else
    let r := read s.d buf ch
    match r.1 with
    | .data bs => { s with d := r.2, toU := s.toU ++ [.msg binaryMessage bs true] }
    | .err _ => { s with d := r.2, duDone := true, u := s.u.closeLocal, toU := s.toU ++ [.close] }
    | _ => { s with d := r.2 }
  | .copyUD buf ch =>
    if s.udDone then s else
    let r := read s.u buf ch
    match r.1 with
    | .data bs => { s with u := r.2, toD := s.toD ++ [.msg binaryMessage bs true] }
    | .err _ => { s with u := r.2, udDone := true, d := s.d.closeLocal, toD := s.toD ++ [.close] }
    | _ => { s with u := r.2 }

def Relay.run (s : Relay) (steps : List RStep) : Relay := steps.foldl Relay.step s

end WS
end Piko
