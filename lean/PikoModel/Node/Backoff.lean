import PikoModel.Generated.Facts
/-!
# Model of `pkg/backoff/backoff.go`, of `client/upstream.go` `Upstream.connect`, of the dial
# classification of `pkg/websocket/conn.go` `Dial`, and of `server/gossip/gossip.go`
# `JoinOnStartup` (C18: a listener that lost its node keeps reconnecting, with backoff)

Durations are `Nat` nanoseconds (`time.Duration`).  Core Lean only.

## `backoff.Backoff`

```
func (b *Backoff) Backoff() (time.Duration, bool) {
    if b.retries != 0 && b.attempts > b.retries { return 0, false }
    b.attempts++
    backoff := b.nextWait();  b.lastBackoff = backoff          // the JITTERED wait is stored
    return backoff, true
}
func (b *Backoff) nextWait() time.Duration {
    if b.lastBackoff == 0 { backoff = b.minBackoff } else { backoff = b.lastBackoff * 2 }
    if backoff > b.maxBackoff { backoff = b.maxBackoff }       // the cap applies to BOTH branches
    jitterMultipler := 1.0 + (rand.Float64() * 0.1)
    return time.Duration(float64(backoff) * jitterMultipler)
}
```

The jitter is a random float, so `Backoff()` is modelled as a **nondeterministic
specification**: `step s w` takes the wait `w` the call produced and says whether the call may
produce it in state `s`.  `base s` is the un-jittered value; the accepted interval is

    base s ≤ w ≤ base s + base s / 10 + 1                      (`okWait`)

### Why this interval (domain `maxBackoff ≤ 2^52` ns ≈ 52 days, `0 ≤ min`)

* `base ≤ maxBackoff ≤ 2^52 < 2^53`, so `float64(base)` is exact.
* `m = 1.0 + fl(f·0.1)` with `f ∈ [0,1)`: `1.0 ≤ m ≤ fl(1.1) = 1.1 + 8.9e-17` (the sum can round
  up to the double nearest `1.1`, which is slightly above `1.1`).
* the product `p = base·m` is rounded to the nearest double and then truncated:
  lower: `p ≥ base`, `base` is a double and rounding is monotone, so `w ≥ base`;
  upper: `p ≤ 1.1·base + 8.9e-17·base ≤ 1.1·base + 0.41`; `p < 1.1·2^52 + 1 < 2^53`, where
  doubles are at most `1` apart, so rounding adds at most `0.5`: `w ≤ ⌊1.1·base + 0.91⌋`.
  `1.1·base = base + base/10` has fractional part `(base mod 10)/10 ≤ 0.9`, hence
  `w ≤ base + ⌊base/10⌋ + 1`.  (For `base ≤ 2^48` the two error terms are below `0.06` and the
  `+1` is never used; the real code was observed to stay within `base + base/10` there.)
* `lastBackoff * 2 ≤ 2·(1.1·2^52 + 1) < 2^54`: no `int64` overflow.

Outside the domain (`maxBackoff ≥ 2^63/2.2 ≈ 4.19e18` ns ≈ 133 years) `lastBackoff * 2`
overflows `int64`, becomes negative, passes the cap test and the code returns a negative wait;
between `2^52` and that value only a relative bound holds.  The correspondence engine keeps
the compared stream inside the domain and looks at the outside through its oracle only.

The retries guard is `attempts > retries` evaluated **before** the increment: with
`retries = n > 0` exactly `n + 1` calls are granted a wait (attempts 0..n), the `(n+2)`th and
all later ones abort; `retries = 0` never aborts.

## `websocket.Dial` error classification and `Upstream.connect`

```
conn, err := websocket.Dial(ctx, url, …)
    // Dial:  err == nil → conn;  resp == nil → RetryableError(err)    (refused, reset, TLS, timeout,
    //        malformed URL, cancelled context: ANY error without an HTTP response)
    //        status ∈ {408,429,500,502,503,504} → RetryableError("<status>: …");  else "<status>: …"
if err == nil          → return yamux.Client(conn), nil                (even if ctx is cancelled by now)
if ctx.Err() != nil    → return nil, ctx.Err()                         (before looking at the error)
if !errors.As(err, &retryableError) → return nil, err                  (permanent)
backoff, _ := backoff.Backoff()                                        (the abort flag is IGNORED)
select { case <-time.After(backoff): continue;  case <-ctx.Done(): return nil, ctx.Err() }
```
with `backoff.New(0, min, max)`, `min = MinReconnectBackoff` or 100 ms when zero,
`max = MaxReconnectBackoff` or 15 s when zero.
-/
namespace Piko
namespace Backoff

/-- `backoff.Backoff` -/
structure St where
  retries : Nat
  min : Nat
  max : Nat
  /-- number of waits granted so far -/
  attempts : Nat := 0
  /-- `lastBackoff`: the last wait returned (jitter included), `0` before the first -/
  last : Nat := 0
deriving DecidableEq, Repr, Inhabited

/-- `backoff.New` -/
def new (retries min max : Nat) : St :=
  { retries := retries, min := min, max := max, attempts := 0, last := 0 }

/-- the un-jittered wait of `nextWait`: `min` the first time (`lastBackoff == 0`), then twice
the last returned wait; capped at `max` in both cases -/
def base (s : St) : Nat :=
  Min.min (if s.last = 0 then s.min else 2 * s.last) s.max

/-- largest wait `nextWait` may return for the un-jittered value `b` (see the header) -/
def hi (b : Nat) : Nat := b + b / 10 + 1

/-- may `nextWait` return `w` in state `s`? -/
def okWait (s : St) (w : Nat) : Bool :=
  decide (base s ≤ w) && decide (w ≤ hi (base s))

/-- the guard of `Backoff()`: `b.retries != 0 && b.attempts > b.retries` -/
def exhausted (s : St) : Bool :=
  s.retries != 0 && decide (s.attempts > s.retries)

/-- result of one `Backoff()` call for a proposed jitter outcome -/
inductive Outcome
  /-- `(w, true)`; the new state -/
  | retry (w : Nat) (s' : St)
  /-- `(0, false)`; the state is unchanged -/
  | abort
  /-- `w` is not a value `nextWait` can return in this state (`lo ≤ w ≤ hi` was required) -/
  | outOfRange (lo hi : Nat)
deriving DecidableEq, Repr

/-- `Backoff.Backoff()` with the jitter outcome `w` -/
def step (s : St) (w : Nat) : Outcome :=
  if exhausted s then .abort
  else if okWait s w then .retry w { s with attempts := s.attempts + 1, last := w }
  else .outOfRange (base s) (hi (base s))

/-- the state after a call (`abort` and a rejected `w` leave it unchanged) -/
def stepSt (s : St) (w : Nat) : St :=
  match step s w with
  | .retry _ s' => s'
  | _ => s

/-- a run of calls that were all granted, with the waits `ws`; `none` when one of them aborts
or proposes a wait outside the accepted interval -/
def runWaits : St → List Nat → Option St
  | s, [] => some s
  | s, w :: ws =>
    match step s w with
    | .retry _ s' => runWaits s' ws
    | _ => none

/-- a jitter outcome as an offset: every natural number `j` selects one value of the accepted
interval and every value of the interval is selected by some `j` -/
def jitterWait (s : St) (j : Nat) : Nat := base s + j % (base s / 10 + 2)

/-! ## `websocket.Dial` -/

/-- what one `websocket.Dial` call met -/
inductive Dial
  /-- handshake completed (`err == nil`) -/
  | ok
  /-- an error without an HTTP response (`resp == nil`): connection refused or reset, TLS
  failure, handshake timeout, malformed URL, cancelled context -/
  | noResponse
  /-- an HTTP response that is not the upgrade -/
  | status (code : Nat)
deriving DecidableEq, Repr

/-- `retryableStatusCodes` of `pkg/websocket/conn.go` -/
def retryableStatusCodes : List Nat := [408, 429, 500, 502, 503, 504]

inductive DialClass
  | connected
  /-- wrapped in `*websocket.RetryableError` -/
  | retryable
  /-- plain error `"<code>: …"` -/
  | permanent (code : Nat)
deriving DecidableEq, Repr

/-- the error class `websocket.Dial` returns -/
def classify : Dial → DialClass
  | .ok => .connected
  | .noResponse => .retryable
  | .status c => if retryableStatusCodes.contains c then .retryable else .permanent c

/-! ## `Upstream.connect` -/

/-- everything that happens during one iteration of the loop in `Upstream.connect` -/
structure Attempt where
  dial : Dial
  /-- `ctx.Err() != nil` when the failed dial returns -/
  ctxErr : Bool := false
  /-- the jitter of the `Backoff()` call after a retryable failure (`jitterWait`) -/
  jitter : Nat := 0
  /-- `ctx.Done()` wins the `select` against the timer -/
  cancelInWait : Bool := false
deriving DecidableEq, Repr

inductive Result
  /-- `return sess, nil` -/
  | connected
  /-- `return nil, err` for a non-retryable dial error with this status -/
  | errPermanent (code : Nat)
  /-- `return nil, ctx.Err()` -/
  | errCtx
  /-- the attempts given ran out while the loop was still retrying (it has not returned) -/
  | stillRetrying
  /-- unreachable: `jitterWait` proposed a value outside the accepted interval -/
  | badJitter
deriving DecidableEq, Repr

structure Trace where
  result : Result
  /-- number of `websocket.Dial` calls -/
  attempts : Nat
  /-- the waits started (`time.After`), in order -/
  waits : List Nat
  /-- number of `Backoff()` calls that answered "abort" (ignored by `connect`: it would wait 0) -/
  aborts : Nat
deriving DecidableEq, Repr

/-- the loop of `Upstream.connect` from backoff state `b` -/
def connectFrom (b : St) : List Attempt → Nat → List Nat → Nat → Trace
  | [], n, ws, ab => ⟨.stillRetrying, n, ws, ab⟩
  | a :: rest, n, ws, ab =>
    match classify a.dial with
    | .connected => ⟨.connected, n + 1, ws, ab⟩
    | cls =>
      if a.ctxErr then ⟨.errCtx, n + 1, ws, ab⟩
      else match cls with
        | .permanent c => ⟨.errPermanent c, n + 1, ws, ab⟩
        | _ =>
          match step b (jitterWait b a.jitter) with
          | .retry w b' =>
            if a.cancelInWait then ⟨.errCtx, n + 1, ws ++ [w], ab⟩
            else connectFrom b' rest (n + 1) (ws ++ [w]) ab
          | .abort =>
            -- `backoff, _ := backoff.Backoff()`: the flag is dropped, the wait is 0
            if a.cancelInWait then ⟨.errCtx, n + 1, ws ++ [0], ab + 1⟩
            else connectFrom b rest (n + 1) (ws ++ [0]) (ab + 1)
          | .outOfRange _ _ => ⟨.badJitter, n + 1, ws, ab⟩

/-- `MinReconnectBackoff` / `MaxReconnectBackoff` of `client.Upstream` (0 = default) -/
structure Conf where
  minReconnectBackoff : Nat := 0
  maxReconnectBackoff : Nat := 0
deriving DecidableEq, Repr

/-- the `i`-th number of a regenerated list of literals (`d` only when the extractor failed; the
`C18_facts_backoff` obligation fails in that case) -/
def factNat (l : Option (List Nat)) (i : Nat) (d : Nat) : Nat := (l.bind (·[i]?)).getD d

/-- the defaults `Upstream.connect` assigns: **the literals of the current source**
(`Facts.connectDefaultBackoffs`; 100 ms and 15 s on the pinned tree) -/
def defaultMinReconnectBackoff : Nat := factNat Facts.connectDefaultBackoffs 0 100000000
def defaultMaxReconnectBackoff : Nat := factNat Facts.connectDefaultBackoffs 1 15000000000

def Conf.min (c : Conf) : Nat :=
  if c.minReconnectBackoff = 0 then defaultMinReconnectBackoff else c.minReconnectBackoff
def Conf.max (c : Conf) : Nat :=
  if c.maxReconnectBackoff = 0 then defaultMaxReconnectBackoff else c.maxReconnectBackoff

/-- `Upstream.connect`: `backoff.New(0, min, max)` and the loop -/
def connect (c : Conf) (as : List Attempt) : Trace :=
  connectFrom (new 0 c.min c.max) as 0 [] 0

/-! ## `Gossip.JoinOnStartup` (`server/gossip/gossip.go`)

```
backoff := backoff.New(5, time.Second, time.Minute);  var lastErr error
for {
    nodeIDs, err := g.gossiper.Join(addrs);   if err == nil { return nodeIDs, nil }
    backoff, retry := backoff.Backoff();      if !retry { return nil, lastErr }
    lastErr = err
    select { case <-time.After(backoff): continue;  case <-ctx.Done(): return nil, lastErr }
}
```
Errors are numbered by the join attempt that produced them (0-based). -/

/-- the arguments of `backoff.New` in `JoinOnStartup`: **the literals of the current source**
(`Facts.joinBackoffArgs`; 5, 1 s, 60 s on the pinned tree) -/
def joinRetries : Nat := factNat Facts.joinBackoffArgs 0 5
def joinMinBackoff : Nat := factNat Facts.joinBackoffArgs 1 1000000000
def joinMaxBackoff : Nat := factNat Facts.joinBackoffArgs 2 60000000000

structure JoinAttempt where
  /-- `gossiper.Join` succeeded -/
  ok : Bool
  jitter : Nat := 0
  cancelInWait : Bool := false
deriving DecidableEq, Repr

inductive JoinResult
  | joined
  /-- `return nil, lastErr`: the error of join attempt `i`; `none` = `lastErr` still nil -/
  | err (attempt : Option Nat)
  | stillRetrying
  | badJitter
deriving DecidableEq, Repr

structure JoinTrace where
  result : JoinResult
  /-- number of `gossiper.Join` calls -/
  attempts : Nat
  waits : List Nat
deriving DecidableEq, Repr

def joinFrom (b : St) : List JoinAttempt → Nat → List Nat → Option Nat → JoinTrace
  | [], n, ws, _ => ⟨.stillRetrying, n, ws⟩
  | a :: rest, n, ws, lastErr =>
    if a.ok then ⟨.joined, n + 1, ws⟩
    else match step b (jitterWait b a.jitter) with
      | .abort => ⟨.err lastErr, n + 1, ws⟩
      | .retry w b' =>
        if a.cancelInWait then ⟨.err (some n), n + 1, ws ++ [w]⟩
        else joinFrom b' rest (n + 1) (ws ++ [w]) (some n)
      | .outOfRange _ _ => ⟨.badJitter, n + 1, ws⟩

/-- `Gossip.JoinOnStartup` -/
def joinOnStartup (as : List JoinAttempt) : JoinTrace :=
  joinFrom (new joinRetries joinMinBackoff joinMaxBackoff) as 0 [] none

end Backoff
end Piko
