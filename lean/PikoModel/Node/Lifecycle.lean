import PikoModel.Upstream.Session
/-!
# Model of `server/server.go` `Server.Shutdown` and of `client/listener.go` `AcceptWithContext`

## Shutdown phases (code order of `Server.Shutdown`)

```
s.stopJWKSRefresher()
s.adminServer.SetReady(false)
s.shutdownUpstreamServer(ctx)     rebalanceCancel(); upstreamServer.Shutdown(ctx):
                                    httpServer.Shutdown(ctx)  (listener closed; hijacked
                                    websocket connections are NOT waited for) ; s.cancel()
s.shutdownProxyServer(ctx)
s.gossiper.Leave(ctx)             state.LeaveLocal(); for up to 4 reachable peers:
                                    leave(addr) = push state.LocalDelta(), wait for the ack
s.gossiper.Close()
s.shutdownAdminServer(ctx)
s.wg.Wait()
```

`upstreamShutdown` only *cancels* the handlers' context: each upstream handler goroutine then
leaves its accept loop and runs its deferred `RemoveConn`/`removeSession`/`Close` on its own
(`Session.Ev`s `fail c .shutdown`, `defer c`).  **Nothing in `Shutdown` waits for them**, so in
the model they are separate steps that may interleave with the later phases; the theorems
state explicitly where "the handlers have drained" is needed.  `LocalDelta` is re-read for
every peer, so each push is its own step.  Which peers are reached (and in which shuffled
order) is a parameter.  The grace-period context only bounds the phases in time: not modelled.

## Accept classification (`listener.AcceptWithContext`, with the D4 repair)

```
conn, err := l.sess.AcceptStreamWithContext(ctx);  err == nil → return conn
if ctx.Err() != nil                                         → return ctx.Err()
if l.closeCtx.Err() != nil && (Is(err, ErrSessionShutdown) || Is(err, net.ErrClosed)) → return ErrClosed
l.connect(l.closeCtx)   (reconnect with backoff, forever)  ; on error → return "connect: …"
```
Core Lean only.
-/
namespace Piko
namespace Node
open Piko.Upstream Piko.Upstream.Session

/-- the phases of `Server.Shutdown` -/
inductive Action
  | stopJWKS
  | notReady
  | upstreamShutdown
  | proxyShutdown
  /-- `Gossip.Leave`: `state.LeaveLocal()` -/
  | leaveLocal
  /-- `Gossip.leave(addr)`: push `state.LocalDelta()` to one reachable peer, wait for its ack -/
  | pushLeave (peer : String)
  | gossipClose
  | adminShutdown
  | waitGoroutines
deriving DecidableEq, Repr

/-- `notified > 3` ends the loop: at most four peers are pushed to -/
def maxLeaveNotified : Nat := 4

/-- `Server.Shutdown` in code order; `reached` = the peers (shuffled order) for which
`leave(addr)` succeeds -/
def shutdownActions (reached : List String) : List Action :=
  [.stopJWKS, .notReady, .upstreamShutdown, .proxyShutdown, .leaveLocal] ++
  (reached.take maxLeaveNotified).map .pushLeave ++
  [.gossipClose, .adminShutdown, .waitGoroutines]

/-- the call of `Server.Shutdown` each phase stands for, as the fact extractor renders it
(`harness/cmd/facts/facts_shutdown.go`); the pushes happen inside `gossiper.Leave` -/
def Action.callName : Action → Option String
  | .stopJWKS => some "stopJWKSRefresher"
  | .notReady => some "adminServer.SetReady"
  | .upstreamShutdown => some "shutdownUpstreamServer"
  | .proxyShutdown => some "shutdownProxyServer"
  | .leaveLocal => some "gossiper.Leave"
  | .pushLeave _ => none
  | .gossipClose => some "gossiper.Close"
  | .adminShutdown => some "shutdownAdminServer"
  | .waitGoroutines => some "wg.Wait"

/-- the calls of `Server.Shutdown` whose order the lifecycle model depends on: the calls the
model knows, except `stopJWKSRefresher` (the JWKS refresher shares no state with readiness, the
servers or gossip, so where it is stopped is immaterial); calls the model does not know (a new
metric flush, say) are ignored -/
def orderRelevant (c : String) : Bool :=
  c ∈ ["adminServer.SetReady", "shutdownUpstreamServer", "shutdownProxyServer", "gossiper.Leave",
    "gossiper.Close", "shutdownAdminServer", "wg.Wait"]

/-- position of the first occurrence of `a` (`none` if absent) -/
def callIndex (a : String) (l : List String) : Option Nat :=
  let i := l.findIdx (· = a)
  if i < l.length then some i else none

/-- `a` and `b` both occur in `l` and `a` comes first -/
def callPrecedes (a b : String) (l : List String) : Bool :=
  match callIndex a l, callIndex b l with
  | some i, some j => decide (i < j)
  | _, _ => false

structure St where
  /-- upstream server, manager, cluster-local endpoints, own gossip state -/
  srv : Srv
  jwksRunning : Bool := true
  ready : Bool := true
  rebalancing : Bool := true
  proxyUp : Bool := true
  gossipOpen : Bool := true
  adminUp : Bool := true
  waited : Bool := false
  /-- leave deltas pushed so far, in order -/
  pushed : List (String × Gossip.Delta) := []
deriving Repr

def St.gossip (n : St) : Gossip.CState := n.srv.mgr.gossip

def St.setGossip (n : St) (g : Gossip.CState) : St :=
  { n with srv := { n.srv with mgr := { n.srv.mgr with gossip := g } } }

def St.act (n : St) : Action → St
  | .stopJWKS => { n with jwksRunning := false }
  | .notReady => { n with ready := false }
  | .upstreamShutdown => { n with rebalancing := false, srv := n.srv.step .serverShutdown }
  | .proxyShutdown => { n with proxyUp := false }
  | .leaveLocal => n.setGossip (Gossip.leaveLocal n.gossip)
  | .pushLeave peer => { n with pushed := n.pushed ++ [(peer, Gossip.localDelta n.gossip)] }
  | .gossipClose => { n with gossipOpen := false }
  | .adminShutdown => { n with adminUp := false }
  | .waitGoroutines => { n with waited := true }

/-- a step of the node: a shutdown phase of the main goroutine, or an event of the upstream
server's handler goroutines / clients / proxy -/
inductive Step
  | act (a : Action)
  | ev (e : Ev)
deriving DecidableEq, Repr

def St.step (n : St) : Step → St
  | .act a => n.act a
  | .ev e => { n with srv := n.srv.step e }

def St.run (n : St) (steps : List Step) : St := steps.foldl St.step n

def Step.action? : Step → Option Action
  | .act a => some a
  | .ev _ => none

/-- the handlers drain: every registered connection leaves through the `Canceled` branch and
runs its deferred calls (what the handler goroutines do once `s.cancel()` ran) -/
def St.drain (n : St) : St := { n with srv := n.srv.exitAll .shutdown }

/-- `Server.Shutdown` run to completion with the handlers draining right after the cancel
(the schedule the code comments assume) -/
def St.shutdown (n : St) (reached : List String) : St :=
  let pre := ((n.act .stopJWKS).act .notReady).act .upstreamShutdown
  let drained := pre.drain
  ((reached.take maxLeaveNotified).foldl (fun n p => n.act (.pushLeave p))
      ((drained.act .proxyShutdown).act .leaveLocal)
    |>.act .gossipClose).act .adminShutdown |>.act .waitGoroutines

/-- the mutant order: `Leave` before the upstream server is shut down -/
def St.shutdownLeaveFirst (n : St) (reached : List String) : St :=
  let pre := (n.act .stopJWKS).act .notReady
  let left := (reached.take maxLeaveNotified).foldl (fun n p => n.act (.pushLeave p)) (pre.act .leaveLocal)
  (((left.act .upstreamShutdown).drain.act .proxyShutdown).act .gossipClose).act .adminShutdown
    |>.act .waitGoroutines

/-! ### the listener's accept classification -/

/-- what `errors.Is` can tell about the accept error -/
inductive ErrKind
  | sessionShutdown   -- yamux.ErrSessionShutdown (the session was closed on this side)
  | netClosed         -- net.ErrClosed (local go-away; or a remote close mapped by pkg/websocket)
  | other             -- EOF, reset, keep-alive timeout, …
deriving DecidableEq, Repr

inductive Decision
  | ctxErr            -- return ctx.Err()
  | errClosed         -- return ErrClosed
  | reconnect         -- l.connect(l.closeCtx): reconnect with backoff
deriving DecidableEq, Repr

/-- `AcceptWithContext`'s classification of an accept error (repaired code, D4):
`ErrClosed` only when the listener's own close context is cancelled -/
def acceptDecision (ctxCancelled closedLocally : Bool) (k : ErrKind) : Decision :=
  if ctxCancelled then .ctxErr
  else if closedLocally && (k = .sessionShutdown || k = .netClosed) then .errClosed
  else .reconnect

/-- the classification of the pinned tree (before the D4 repair), for reference:
the error kind alone decided -/
def acceptDecisionPinned (ctxCancelled : Bool) (_closedLocally : Bool) (k : ErrKind) : Decision :=
  if ctxCancelled then .ctxErr
  else if k = .sessionShutdown || k = .netClosed then .errClosed
  else .reconnect

/-- what the caller of `AcceptWithContext` observes -/
inductive Outcome
  | ctxErr | errClosed
  | reconnected      -- connected again; back in the accept loop on the new session
  | connectErr       -- `connect: context canceled` (reconnect attempted with a cancelled closeCtx)
deriving DecidableEq, Repr

/-- the re-check after a successful `l.connect(l.closeCtx)` (repair F11): if the listener was
closed while reconnecting, nobody told the NEW session - close it and return `ErrClosed`;
`true` = the new session is closed -/
def afterReconnect (closedDuringReconnect : Bool) : Outcome × Bool :=
  if closedDuringReconnect then (.errClosed, true) else (.reconnected, false)

/-- classification, then `l.connect(l.closeCtx)` (retries forever unless `closeCtx` is already
cancelled), then the re-check of `closeCtx`.  `closedLocally` = closed before the accept error
was classified, `closedDuringReconnect` = closed while `connect` was running. -/
def acceptOutcome (ctxCancelled closedLocally closedDuringReconnect : Bool) (k : ErrKind) : Outcome :=
  match acceptDecision ctxCancelled closedLocally k with
  | .ctxErr => .ctxErr
  | .errClosed => .errClosed
  | .reconnect =>
    if closedLocally then .connectErr else (afterReconnect closedDuringReconnect).1

/-- the outcome before the F11 repair, for reference: the new session was installed and
accepted on whatever happened to `closeCtx` meanwhile (`Accept` blocked for ever) -/
def acceptOutcomeBeforeF11 (ctxCancelled closedLocally _closedDuringReconnect : Bool) (k : ErrKind) : Outcome :=
  match acceptDecision ctxCancelled closedLocally k with
  | .ctxErr => .ctxErr
  | .errClosed => .errClosed
  | .reconnect => if closedLocally then .connectErr else .reconnected

/-- is the reconnected upstream still registered at the server once `Accept` has returned?
`Close` (go-away) after the reconnect keeps the connection (lazy removal, C16); a `Close` or
`Shutdown` during the reconnect closes the new session; `Shutdown` always closes it. -/
def registeredAfterLocalClose (shutdown during : Bool) : Bool := !shutdown && !during

end Node
end Piko
