import PikoModel.Gossip.Net
import PikoModel.Cluster.Syncer
import PikoModel.Upstream.LB
/-!
# The whole system: gossip + syncer + upstream manager of every node, wired as in
`server/gossip/gossip.go` (`NewGossip`: `newSyncer(clusterState)`, `gossip.New(…, syncer)`,
`syncer.Sync(gossiper)`), `server/gossip/syncer.go` and `server/upstream/manager.go`

One `Sys` state is

* `net`  : the gossip network of `PikoModel/Gossip/Net.lean` **itself** (every node's
  `clusterState` + the never-consumed packet pool).  `Sys.net` is therefore a field, not a
  reconstruction: every gossip-level step of the system *is* `Net.step` on it, and every network
  theorem (NetInv / C02 / C03) applies to it as it stands;
* `side` : per node, everything else the three Go objects hold: the load balancers of
  `LoadBalancedManager`, the **one** routing table `cluster.State`, the syncer's `pendingNodes`,
  and (ghost) the list of watcher notifications the node's syncer has been given so far.

**One table per node.**  In Go the `*cluster.State` is one heap object shared by the manager
(`AddLocalEndpoint`/`RemoveLocalEndpoint`/`LookupEndpoint`) and the syncer (`AddNode`,
`UpdateRemote…`).  Here it is stored once (`Side.table`); the records of the layer models
(`Upstream.Mgr` with its `.cluster` and `.gossip`, `Cluster.Sync` with its `.table`) are
*assembled* around each step (`Sys.mgr`, `Side.sync`, `Sys.node`) and their results written back
(`Sys.putMgr`, `Side.observe`).  No equality-of-two-copies invariant is needed.

**Who writes gossip state.**  A piko node writes its own gossip entries only through
`syncer.Sync` (boot: `proxy_addr`, `admin_addr`) and the `OnLocalEndpointUpdate` subscriber
(`AddConn`/`RemoveConn`: `endpoint:<id>`), plus `Leave` and the periodic `CompactLocal`.  So
`SysOp` has no `upsert`/`delete` of arbitrary keys.

**Watcher wiring.**  The acting node's notifications (`StepOut.events`) are fed, in order, through
`syncStep` into that node's syncer/table (`Sys.feed`).  For `join n m` with the reply delivered
both halves notify: `m` (reported by `Net.step`) and `n` (`replyEvents`: `ApplyDelta` of the reply,
recomputed exactly as `Net.step` computes the reply; same as `Driver/Gossiph.lean hstream`).

Core Lean only.
-/
namespace Piko
open Piko.Gossip

/-- the non-gossip part of one node -/
structure Side where
  /-- `LoadBalancedManager.localEndpoints` -/
  lbs : AMap String Upstream.LB := []
  /-- the node's `cluster.State`: shared by the manager and the syncer -/
  table : Cluster.State
  /-- `syncer.pendingNodes` -/
  pending : AMap String Cluster.Node := []
  /-- ghost: every watcher notification handed to this node's syncer, oldest first -/
  evs : List Event := []
deriving Repr, Inhabited

/-- the syncer of `PikoModel/Cluster/Syncer.lean`, assembled around the shared table -/
def Side.sync (sd : Side) : Cluster.Sync := { pending := sd.pending, table := sd.table }

/-- the node's watcher is told `ev` (in order): every notification goes through `syncStep` -/
def Side.observe (sd : Side) (ev : List Event) : Side :=
  let y := sd.sync.run ev
  { sd with pending := y.pending, table := y.table, evs := sd.evs ++ ev }

/-- one node as the layer models see it -/
structure SysNode where
  /-- `.cluster` is the node's routing table, `.gossip` its gossip `clusterState` -/
  mgr : Upstream.Mgr
  /-- `.table` is the same routing table -/
  sync : Cluster.Sync
  /-- ghost: all watcher notifications so far -/
  evs : List Event
deriving Repr

structure Sys where
  net : Net := {}
  side : AMap String Side := []
deriving Repr, Inhabited

namespace Sys

/-- the manager of node `n`, assembled from the three stores its calls reach -/
def mgr (s : Sys) (n : String) : Option Upstream.Mgr :=
  match s.side.find n, s.net.nodes.find n with
  | some sd, some g => some { lbs := sd.lbs, cluster := sd.table, gossip := g }
  | _, _ => none

def node (s : Sys) (n : String) : Option SysNode :=
  match s.side.find n, s.net.nodes.find n with
  | some sd, some g =>
    some { mgr := { lbs := sd.lbs, cluster := sd.table, gossip := g }, sync := sd.sync, evs := sd.evs }
  | _, _ => none

/-- write a manager result back: balancers and table to `side`; the gossip state only when the
call reached the gossiper (`touch`): the subscriber is not called otherwise -/
def putMgr (s : Sys) (n : String) (m : Upstream.Mgr) (touch : Bool) : Sys :=
  match s.side.find n with
  | none => s
  | some sd =>
    { net := if touch then s.net.setNode n m.gossip else s.net,
      side := s.side.insert n { sd with lbs := m.lbs, table := m.cluster } }

/-- node `n`'s watcher is told `ev` (nothing to tell: nothing happens) -/
def feed (side : AMap String Side) (n : String) (ev : List Event) : AMap String Side :=
  match ev, side.find n with
  | _ :: _, some sd => side.insert n (sd.observe ev)
  | _, _ => side

/-- the notifications at `n` of the reply half of `join n m` (reply delivered): `ApplyDelta` of
`Delta(digest of n, full)` computed by `m` after it applied `n`'s `LocalDelta` and digest -/
def replyEvents (net : Net) (n m : String) (now : Nat) : List Event :=
  match net.nodes.find n, net.nodes.find m with
  | some sn, some sm =>
    if n = m then [] else
    let dg := sortDigest (digest sn)
    let sm2 := (applyDigest (applyDelta now sm (localDelta sn)).1 dg).1
    (applyDelta now sn (sortDelta (delta sm2 dg true))).2
  | _, _ => []

end Sys

inductive SysOp
  /-- a node starts: `cluster.NewState(localNode)`, `gossip.New` (`newClusterState`), `newSyncer`,
  `syncer.Sync` -/
  | boot (id gossipAddr proxyAddr adminAddr : String)
  /-- `LoadBalancedManager.AddConn` / `RemoveConn` of upstream object `uid` for endpoint `ep` on `n` -/
  | addConn (n : String) (uid : Nat) (ep : String)
  | removeConn (n : String) (uid : Nat) (ep : String)
  /-- `LeaveLocal` (first half of `Gossip.Leave`; the notifications are `leaveStream`s) -/
  | leave (n : String)
  /-- the periodic `CompactLocal` -/
  | compact (n : String) (thr : Nat)
  | sendDigest (n dst : String) (request : Bool) (perm : List Nat) (cut : Nat)
  | deliver (i : Nat) (cut : Nat) (perm : List Nat) (dcut : Nat) (now : Nat)
  | join (n m : String) (replyDelivered : Bool) (now : Nat)
  | leaveStream (n m : String) (now : Nat)
  | liveness (n : String) (suspected : List String) (now : Nat)
  | expire (n : String) (t : Nat)
deriving Repr

/-- the gossip-level operation a `SysOp` is (the three manager-level ones are several, see
`Sys.netOps`) -/
def SysOp.toGossip : SysOp → Option Gossip.Op
  | .leave n => some (.leave n)
  | .compact n thr => some (.compact n thr)
  | .sendDigest n dst rq perm cut => some (.sendDigest n dst rq perm cut)
  | .deliver i cut perm dcut now => some (.deliver i cut perm dcut now)
  | .join n m rd now => some (.join n m rd now)
  | .leaveStream n m now => some (.leaveStream n m now)
  | .liveness n sus now => some (.liveness n sus now)
  | .expire n t => some (.expire n t)
  | _ => none

namespace Sys

/-- a gossip-level step: `Net.step` on the network, the acting node's notifications into its
syncer; for a completed `join` also the joiner's -/
def gossip (s : Sys) (op : Gossip.Op) : Sys :=
  let out := s.net.step op
  let side1 := feed s.side out.who out.events
  let side2 := match op with
    | .join n m true now => feed side1 n (replyEvents s.net n m now)
    | _ => side1
  { net := out.net, side := side2 }

/-- the routing table of a fresh node: `cluster.NewState(&Node{ID, ProxyAddr, AdminAddr})` -/
def bootTable (id proxyAddr adminAddr : String) : Cluster.State :=
  Cluster.State.new { id := id, proxyAddr := proxyAddr, adminAddr := adminAddr }

def step (s : Sys) : SysOp → Sys
  | .boot id ga pa aa =>
    -- node ids and gossip addresses are unique (`Net.step (.node …)` refuses otherwise)
    match s.net.nodes.find id, s.net.nodeByAddr ga, s.side.find id with
    | none, none, none =>
      let c := bootTable id pa aa
      { net := s.net.setNode id (Upstream.syncInit c (Gossip.init id ga)),
        side := s.side.insert id { table := c } }
    | _, _, _ => s
  | .addConn n uid ep =>
    match s.mgr n with
    | none => s
    | some m => s.putMgr n (m.addConn { id := uid, ep := ep }) true
  | .removeConn n uid ep =>
    match s.mgr n with
    | none => s
    | some m =>
      -- an upstream that is not registered: nothing happens (D1 repair, `C05_absent_removal_noop`)
      if (m.registry ep).contains uid then
        -- the subscriber (and through it the gossiper) is called iff `RemoveLocalEndpoint` notifies
        s.putMgr n (m.removeConn { id := uid, ep := ep }) (m.cluster.removeLocalEndpoint ep).2
      else s
  | .leave n => s.gossip (.leave n)
  | .compact n thr => s.gossip (.compact n thr)
  | .sendDigest n dst rq perm cut => s.gossip (.sendDigest n dst rq perm cut)
  | .deliver i cut perm dcut now => s.gossip (.deliver i cut perm dcut now)
  | .join n m rd now => s.gossip (.join n m rd now)
  | .leaveStream n m now => s.gossip (.leaveStream n m now)
  | .liveness n sus now => s.gossip (.liveness n sus now)
  | .expire n t => s.gossip (.expire n t)

def run (s : Sys) (ops : List SysOp) : Sys := ops.foldl step s

/-- the system after the history `ops`, **latest operation first** (as `Gossip.runRev`) -/
def runRev : List SysOp → Sys
  | [] => {}
  | op :: earlier => (runRev earlier).step op

/-- the gossip write `OnLocalEndpointUpdate` makes for endpoint `ep` when the table is `c` -/
def endpointWrite (c : Cluster.State) (n ep : String) : Gossip.Op :=
  if c.localEndpointListeners ep > 0 then .upsert n ("endpoint:" ++ ep) (toString (c.localEndpointListeners ep))
  else .delete n ("endpoint:" ++ ep)

/-- the `Gossip.Op`s (oldest first) the step `op` is on the gossip network: `Proofs/SysNet.lean`
proves `(s.step op).net = s.net.run (s.netOps op)` -/
def netOps (s : Sys) : SysOp → List Gossip.Op
  | .boot id ga pa aa =>
    match s.net.nodes.find id, s.net.nodeByAddr ga, s.side.find id with
    | none, none, none => [.node id ga, .upsert id "proxy_addr" pa, .upsert id "admin_addr" aa]
    | _, _, _ => []
  | .addConn n _ ep =>
    match s.mgr n with
    | none => []
    | some m => [endpointWrite (m.cluster.addLocalEndpoint ep) n ep]
  | .removeConn n uid ep =>
    match s.mgr n with
    | none => []
    | some m =>
      if (m.registry ep).contains uid then
        if (m.cluster.removeLocalEndpoint ep).2 then [endpointWrite (m.cluster.removeLocalEndpoint ep).1 n ep]
        else []
      else []
  | .leave n => [.leave n]
  | .compact n thr => [.compact n thr]
  | .sendDigest n dst rq perm cut => [.sendDigest n dst rq perm cut]
  | .deliver i cut perm dcut now => [.deliver i cut perm dcut now]
  | .join n m rd now => [.join n m rd now]
  | .leaveStream n m now => [.leaveStream n m now]
  | .liveness n sus now => [.liveness n sus now]
  | .expire n t => [.expire n t]

end Sys
end Piko
