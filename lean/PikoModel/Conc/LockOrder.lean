/-!
# Ranked-lock model (C20)

Threads acquire and release locks.  A thread that asks for a lock held by another thread
blocks (`waiting = some l`) until the lock is granted; `sync.Mutex` is not re-entrant, so a
thread asking for a lock it holds itself blocks forever (a one-element cycle).  `RWMutex.RLock`
is modelled as an exclusive acquisition: Go's RWMutex blocks new readers behind a waiting
writer, so a read lock in a wait-for cycle deadlocks like a write lock does.

`edges` is the lock-order graph of the program: a thread may ask for `l` while holding `h`
only if `(h, l) ∈ edges` (this is what `harness/cmd/facts/facts_locks.go` extracts from the
Go source: lock held → lock acquired, closed over calls and callbacks).  `Ranked rank edges`
says a rank function strictly increases along every edge.  The theorems (in
`Proofs/LockOrder.lean`): under `Ranked`, no reachable state of *any* number of threads has a
circular wait, and whenever some thread waits some thread can move.

Core Lean only.
-/
namespace Piko
namespace Conc

/-- one thread: the locks it holds and the lock it is blocked on, if any -/
structure Thread (L : Type) where
  held : List L := []
  waiting : Option L := none

/-- the system: thread id ↦ thread (all but finitely many are idle in a reachable state) -/
abbrev Sys (L : Type) := Nat → Thread L

def Sys.idle (L : Type) : Sys L := fun _ => {}

def Sys.set {L : Type} (s : Sys L) (i : Nat) (t : Thread L) : Sys L :=
  fun j => if j = i then t else s j

/-- a rank function strictly increases along every edge of the lock-order graph -/
def Ranked {L : Type} (rank : L → Nat) (edges : List (L × L)) : Prop :=
  ∀ e ∈ edges, rank e.1 < rank e.2

instance {L : Type} (rank : L → Nat) (edges : List (L × L)) : Decidable (Ranked rank edges) := by
  unfold Ranked; exact inferInstance

section
variable {L : Type} [DecidableEq L]

/-- the steps of the system over a lock-order graph -/
inductive Step (edges : List (L × L)) : Sys L → Sys L → Prop
  /-- `l.Lock()` is called: allowed by the program only along edges of the graph -/
  | request (s : Sys L) (i : Nat) (l : L) :
      (s i).waiting = none → (∀ h ∈ (s i).held, (h, l) ∈ edges) →
      Step edges s (s.set i { held := (s i).held, waiting := some l })
  /-- the lock is free: the blocked thread gets it -/
  | grant (s : Sys L) (i : Nat) (l : L) :
      (s i).waiting = some l → (∀ j, l ∉ (s j).held) →
      Step edges s (s.set i { held := l :: (s i).held, waiting := none })
  /-- `l.Unlock()` by a running thread -/
  | release (s : Sys L) (i : Nat) (l : L) :
      (s i).waiting = none →
      Step edges s (s.set i { held := (s i).held.erase l, waiting := none })

/-- states reachable from "every thread idle" -/
inductive Reach (edges : List (L × L)) : Sys L → Prop
  | init : Reach edges (Sys.idle L)
  | step {s s' : Sys L} : Reach edges s → Step edges s s' → Reach edges s'

/-- thread `a` is blocked on a lock that thread `b` holds -/
def WaitsFor (s : Sys L) (a b : Nat) : Prop :=
  ∃ l, (s a).waiting = some l ∧ l ∈ (s b).held

/-- `a` waits for `x₁` waits for … waits for `b` (through the finite list of threads `xs`) -/
def WaitPath (s : Sys L) : Nat → List Nat → Nat → Prop
  | a, [], b => WaitsFor s a b
  | a, x :: xs, b => WaitsFor s a x ∧ WaitPath s x xs b

/-- a wait-for cycle over a finite list of threads (length 1 = self-deadlock) -/
def CircularWait (s : Sys L) : Prop := ∃ t xs, WaitPath s t xs t

/-- thread `j` can take a step: it is blocked on a free lock, or it is running and holds a
lock (so it can proceed to its `Unlock`) -/
def CanMove (s : Sys L) (j : Nat) : Prop :=
  (∃ l, (s j).waiting = some l ∧ ∀ k, l ∉ (s k).held) ∨
  ((s j).waiting = none ∧ (s j).held ≠ [])

end
end Conc
end Piko
