import PikoModel.Data.AMap
import PikoModel.Cluster.State
import PikoModel.Gossip.State
/-!
# Model of `server/upstream/manager.go`

`LB` is `loadBalancer`; `Mgr` is `LoadBalancedManager` together with the stores its calls
reach synchronously: `cluster.State` (local endpoint counts) and, through the
`OnLocalEndpointUpdate` subscriber (`server/gossip/syncer.go onLocalEndpointUpdate`), the
node's own gossip state.  Upstream identity (Go interface/pointer equality) is a `Nat` id.
`RemoveConn` is the **repaired** code (D1): nothing happens when the upstream is not in
the balancer.  Core Lean only.
-/
namespace Piko
namespace Upstream

structure LB where
  ups : List Nat := []
  next : Nat := 0
deriving Repr, Inhabited, DecidableEq

/-- `loadBalancer.Add` -/
def LB.add (lb : LB) (u : Nat) : LB := { lb with ups := lb.ups ++ [u] }

/-- `loadBalancer.Remove`: removes the first occurrence; `true` iff the balancer is empty
afterwards.  `nextIndex %= len` only in the "removed and still non-empty" branch. -/
def LB.remove (lb : LB) (u : Nat) : LB × Bool :=
  if u ∈ lb.ups then
    let ups' := lb.ups.erase u
    if ups'.length = 0 then ({ lb with ups := ups' }, true)
    else ({ ups := ups', next := lb.next % ups'.length }, false)
  else (lb, lb.ups.length = 0)

/-- `loadBalancer.Contains` (added by the D1 repair) -/
def LB.contains (lb : LB) (u : Nat) : Bool := lb.ups.contains u

inductive Pick
  | none            -- `nil` (empty balancer)
  | up (u : Nat)
  | panic           -- index out of range
deriving Repr, DecidableEq

/-- `loadBalancer.Next` -/
def LB.pick (lb : LB) : Pick × LB :=
  if lb.ups.length = 0 then (.none, lb) else
  match lb.ups[lb.next]? with
  | none => (.panic, lb)
  | some u => (.up u, { lb with next := (lb.next + 1) % lb.ups.length })

structure Up where
  id : Nat
  ep : String
deriving Repr, DecidableEq, Inhabited

structure Mgr where
  lbs : AMap String LB := []
  cluster : Cluster.State
  gossip : Gossip.CState
deriving Repr, Inhabited

/-- `syncer.onLocalEndpointUpdate` -/
def onLocalEndpointUpdate (c : Cluster.State) (g : Gossip.CState) (e : String) : Gossip.CState :=
  let key := "endpoint:" ++ e
  let l := c.localEndpointListeners e
  if l > 0 then Gossip.upsertLocal g key (toString l) else Gossip.deleteLocal g key

/-- `syncer.Sync` (the local node has no endpoints when production calls it) -/
def syncInit (c : Cluster.State) (g : Gossip.CState) : Gossip.CState :=
  let n := c.localNode
  let g := Gossip.upsertLocal g "proxy_addr" n.proxyAddr
  let g := Gossip.upsertLocal g "admin_addr" n.adminAddr
  n.endpoints.foldl (fun g p => Gossip.upsertLocal g ("endpoint:" ++ p.1) (toString p.2)) g

/-- `AddConn` -/
def Mgr.addConn (m : Mgr) (u : Up) : Mgr :=
  let lb := (m.lbs.find u.ep).getD {}
  let c := m.cluster.addLocalEndpoint u.ep
  { lbs := m.lbs.insert u.ep (lb.add u.id), cluster := c,
    gossip := onLocalEndpointUpdate c m.gossip u.ep }

/-- `RemoveConn` (repaired, D1) -/
def Mgr.removeConn (m : Mgr) (u : Up) : Mgr :=
  match m.lbs.find u.ep with
  | none => m
  | some lb =>
    if !lb.contains u.id then m else
    let (lb', empty) := lb.remove u.id
    let lbs := if empty then m.lbs.erase u.ep else m.lbs.insert u.ep lb'
    let (c, notify) := m.cluster.removeLocalEndpoint u.ep
    { lbs := lbs, cluster := c,
      gossip := if notify then onLocalEndpointUpdate c m.gossip u.ep else m.gossip }

inductive Sel
  | localUp (u : Nat)          -- `(upstream, true)`
  | nilTrue                    -- `(nil, true)`: empty balancer left in the map
  | remote (cands : List String)   -- `(NodeUpstream, true)`: any of the candidates
  | notFound                   -- `(nil, false)`
  | panic
deriving Repr, DecidableEq

/-- `Select(endpointID, allowRemote)` -/
def Mgr.select (m : Mgr) (e : String) (allowRemote : Bool) : Sel × Mgr :=
  match m.lbs.find e with
  | some lb =>
    match lb.pick with
    | (.up u, lb') => (.localUp u, { m with lbs := m.lbs.insert e lb' })
    | (.none, _) => (.nilTrue, m)
    | (.panic, _) => (.panic, m)
  | none =>
    if !allowRemote then (.notFound, m) else
    match m.cluster.lookupCandidates e with
    | [] => (.notFound, m)
    | cs => (.remote (cs.map (·.id)), m)

/-- `Endpoints()` -/
def Mgr.endpoints (m : Mgr) : AMap String Nat := m.lbs.map (fun p => (p.1, p.2.ups.length))

/-- the upstream ids registered for an endpoint (`[]` when the endpoint has no balancer) -/
def Mgr.registry (m : Mgr) (e : String) : List Nat := ((m.lbs.find e).map (·.ups)).getD []

/-- the manager's operations, as the property quantifies over them -/
inductive Op
  | add (u : Up) | rm (u : Up) | sel (e : String) (allowRemote : Bool)
deriving Repr, DecidableEq

def Mgr.step (m : Mgr) : Op → Mgr
  | .add u => m.addConn u
  | .rm u => m.removeConn u
  | .sel e a => (m.select e a).2

def Mgr.run (m : Mgr) (ops : List Op) : Mgr := ops.foldl Mgr.step m

/-- a freshly started node: `NewState`, `newClusterState`, `Sync`, `NewLoadBalancedManager` -/
def Mgr.init (id proxy admin : String) : Mgr :=
  let c := Cluster.State.new { id := id, proxyAddr := proxy, adminAddr := admin }
  { cluster := c, gossip := syncInit c (Gossip.init id "") }

end Upstream
end Piko
