import PikoModel.Cluster.State
/-!
# Model of `upstream.Server.Rebalance` / `shedSessions` (`server/upstream/server.go`),
of the loop that calls it (`server/server.go` `startUpstreamServer` / `upstreamRebalance`)
and of `config.RebalanceConfig` (`server/config/config.go`).

`Threshold` and `ShedRate` are `float64` in Go.  Here they are exact fractions
`thrNum/thrDen` and `rateNum/rateDen` of naturals (`Validate` rejects negative values), and
every float expression of `Rebalance` is the corresponding exact rational expression with
each comparison cross-multiplied into `Int` (a division by a negative `avgConns` flips the
comparison; a division by `avgConns = 0` is IEEE `+Inf`, handled explicitly).
Counts are Go `int`: `localConns` is a `len(...)` (a `Nat`), `avgConns` is an `Int`
because a remote endpoint count is whatever `strconv.Atoi` produced (it may be negative),
`int(shedding)` is an `Int` (truncation towards zero).

Where Go would panic (`AvgConns` divides by the number of active nodes) the model returns
`Decision.panicDivZero`.  Core Lean only.
-/
namespace Piko
namespace Rebalance

/-- `config.RebalanceConfig`: `Threshold = thrNum/thrDen`, `ShedRate = rateNum/rateDen`,
`MinConns` (a Go `uint`). -/
structure Config where
  thrNum : Nat
  thrDen : Nat
  rateNum : Nat
  rateDen : Nat
  minConns : Nat
deriving Repr, DecidableEq, Inhabited

/-- the fractions are fractions (non-zero denominators) -/
def Config.WF (c : Config) : Prop := 0 < c.thrDen ∧ 0 < c.rateDen

instance (c : Config) : Decidable c.WF := by unfold Config.WF; exact inferInstance

/-- `Threshold != 0` — the guard of `server.go:425` under which the rebalance loop runs -/
def Config.enabled (c : Config) : Bool := c.thrNum != 0

/-- which way one call of `Rebalance()` went -/
inductive Decision
  | skipNoOtherNodes        -- `len(s.cluster.Nodes()) <= 1`
  | skipTooFewConns         -- `localConns == 0 || localConns < int(MinConns)`
  | skipBelowThreshold      -- `balance < Threshold`
  | shed (n : Int)          -- `s.shedSessions(int(shedding))` is called with `n`
  | panicDivZero            -- `AvgConns()`: integer divide by zero (no active node)
deriving Repr, DecidableEq, Inhabited

/-- `balance < Threshold` with `balance := float64(localConns-avgConns) / float64(avgConns)`.
* `avg > 0`: `(l-avg)/avg < tn/td  ⇔  (l-avg)·td < tn·avg`;
* `avg = 0`: the quotient is `+Inf` (`l > 0` at this point; for `l = 0` it would be NaN) and
  no comparison `+Inf < x` / `NaN < x` is true;
* `avg < 0`: multiplying by `avg` flips the comparison. -/
def belowThreshold (c : Config) (l : Nat) (avg : Int) : Bool :=
  if 0 < avg then decide (((l : Int) - avg) * (c.thrDen : Int) < (c.thrNum : Int) * avg)
  else if avg = 0 then false
  else decide (((l : Int) - avg) * (c.thrDen : Int) > (c.thrNum : Int) * avg)

/-- `shedding > float64(avgConns)*ShedRate` with `shedding := float64(localConns) * balance`
`= l·(l-avg)/avg` (for `avg = 0`: `+Inf > 0`). -/
def overCap (c : Config) (l : Nat) (avg : Int) : Bool :=
  if 0 < avg then decide ((l : Int) * ((l : Int) - avg) * (c.rateDen : Int) > avg * (c.rateNum : Int) * avg)
  else if avg = 0 then true
  else decide ((l : Int) * ((l : Int) - avg) * (c.rateDen : Int) < avg * (c.rateNum : Int) * avg)

/-- `math.Ceil(float64(avgConns) * ShedRate)` as an integer: `⌈avg·rateNum/rateDen⌉`
(`Int.fdiv` is floor division; `⌈x/d⌉ = -⌊-x/d⌋`). -/
def ceilRate (c : Config) (avg : Int) : Int :=
  - Int.fdiv (- (avg * (c.rateNum : Int))) (c.rateDen : Int)

/-- `int(shedding)`: the argument `Rebalance` passes to `shedSessions`.  Go's conversion
truncates towards zero (`Int.tdiv`). -/
def shedding (c : Config) (l : Nat) (avg : Int) : Int :=
  if overCap c l avg then ceilRate c avg
  else Int.tdiv ((l : Int) * ((l : Int) - avg)) avg

/-- `Server.Rebalance()`, line by line.  `nodesKnown = len(s.cluster.Nodes())`,
`localConns = s.openSessions()`, `avg = s.cluster.AvgConns()` (`none` = it panicked).
There is **no** `Threshold != 0` test inside `Rebalance`; see `rebalanceTick`. -/
def rebalance (c : Config) (nodesKnown localConns : Nat) (avg : Option Int) : Decision :=
  if nodesKnown ≤ 1 then .skipNoOtherNodes
  else if localConns = 0 ∨ localConns < c.minConns then .skipTooFewConns
  else match avg with
    | none => .panicDivZero
    | some a =>
      if belowThreshold c localConns a then .skipBelowThreshold
      else .shed (shedding c localConns a)

/-- `Server.shedSessions(n)` with `open` sessions registered: the number of sessions it
closes.  The loop appends a session and *then* tests `len(shedding) >= n`, so it collects
`max n 1` sessions (also for `n ≤ 0`), and never more than there are. -/
def shedSessions (n : Int) (open_ : Nat) : Nat :=
  min open_ (max n 1).toNat

/-- number of sessions closed by one decision (the second read of the session map sees the
same `open_` sessions; `Rebalance` holds no lock across the two reads — sequential model) -/
def Decision.closed (d : Decision) (open_ : Nat) : Nat :=
  match d with
  | .shed n => shedSessions n open_
  | _ => 0

/-- one iteration of the loop started by `Server.startUpstreamServer`
(`if s.conf.Upstream.Rebalance.Threshold != 0 { … upstreamRebalance() }`, which calls
`Rebalance()` every second): `none` = the loop does not exist (rebalancing disabled). -/
def rebalanceTick (c : Config) (nodesKnown localConns : Nat) (avg : Option Int) : Option Decision :=
  if c.enabled then some (rebalance c nodesKnown localConns avg) else none

def closedOfTick (d : Option Decision) (open_ : Nat) : Nat :=
  match d with
  | some d => d.closed open_
  | none => 0

/-! ## The server with its routing table -/

/-- the operations of `cluster.State`'s exported API that change the table -/
inductive COp
  | addNode (n : Cluster.Node)
  | removeNode (id : String)
  | updateRemoteStatus (id : String) (st : Cluster.Status)
  | updateRemoteEndpoint (id e : String) (l : Int)
  | removeRemoteEndpoint (id e : String)
  | addLocalEndpoint (e : String)
  | removeLocalEndpoint (e : String)
deriving Repr

/-- one API call; the `Bool` is the call's result (`true` for the calls without one) -/
def applyCOp (s : Cluster.State) : COp → Cluster.State × Bool
  | .addNode n => (s.addNode n, true)
  | .removeNode id => s.removeNode id
  | .updateRemoteStatus id st => s.updateRemoteStatus id st
  | .updateRemoteEndpoint id e l => s.updateRemoteEndpoint id e l
  | .removeRemoteEndpoint id e => s.removeRemoteEndpoint id e
  | .addLocalEndpoint e => (s.addLocalEndpoint e, true)
  | .removeLocalEndpoint e => ((s.removeLocalEndpoint e).1, true)

def runCOps (s : Cluster.State) (ops : List COp) : Cluster.State :=
  ops.foldl (fun s op => (applyCOp s op).1) s

/-- `len(s.cluster.Nodes())` -/
def nodesKnown (s : Cluster.State) : Nat := s.nodes.length

/-- `Server.Rebalance()` on a server holding `open_` sessions and the routing table `s` -/
def serverRebalance (c : Config) (s : Cluster.State) (open_ : Nat) : Decision :=
  rebalance c (nodesKnown s) open_ s.avgConns

/-- one loop iteration on a server holding `open_` sessions and the routing table `s` -/
def serverTick (c : Config) (s : Cluster.State) (open_ : Nat) : Option Decision :=
  rebalanceTick c (nodesKnown s) open_ s.avgConns

end Rebalance
end Piko
