import PikoModel.Upstream.LB
/-!
# Model of `server/upstream/server.go` `upstreamRoute` — the life of one upstream connection

One handler goroutine per upstream connection.  After the websocket upgrade the handler is
straight-line code up to the accept loop, every statement pushing a deferred call:

```
conn := websocket.New(wsConn)            defer conn.Close()
ctx := s.ctx | WithDeadline(s.ctx, token.Expiry)   (defer cancel())
sess := yamux.Server(conn)               defer sess.Close()
s.addSession(sess)                       defer s.removeSession(sess)
s.upstreams.AddConn(upstream)            defer s.upstreams.RemoveConn(upstream)
for { if _, err := sess.AcceptStreamWithContext(ctx); err != nil { … return } }
```

The per-connection machine is `accepted → registered → exiting(reason) → released`:

* `accepted`   : upgraded, session created and in `s.sessions`, `AddConn` not yet called;
* `registered` : `AddConn` done, blocked in `AcceptStreamWithContext`;
* `exiting r ds`: the loop returned because of `r`; `ds` are the deferred calls still to run
  (Go runs them last-in first-out: `RemoveConn`, `removeSession`, `sess.Close`, `conn.Close`;
  `cancel()` and the log line have no effect on the modelled state);
* `released`   : the handler goroutine has finished.

`Srv` composes any number of such connections with the `Mgr` model (`AddConn` at
registration, `RemoveConn` at release **and** from the proxy on `ErrGone`).  One `Ev` is one
mutex-protected call (or one goroutine-local statement) of the real code, so a concurrent
execution is an interleaving of `Ev`s.  Events that are not enabled leave the state unchanged.
What yamux/gorilla/`context` return for each cause (`Reason.acceptErr`) is **assumed**
library behaviour, exercised by the correspondence engine `session`.  Core Lean only.
-/
namespace Piko
namespace Upstream
namespace Session

/-- the error classes the accept loop distinguishes with `errors.Is` -/
inductive AcceptErr
  | netClosed          -- net.ErrClosed
  | canceled           -- context.Canceled
  | deadlineExceeded   -- context.DeadlineExceeded
  | sessionShutdown    -- yamux.ErrSessionShutdown
  | other              -- anything else
deriving DecidableEq, Repr, Inhabited

/-- a result of `sess.AcceptStreamWithContext(ctx)` -/
inductive AcceptRes
  | stream                  -- `err == nil` (the client never opens streams; harmless)
  | err (e : AcceptErr)
deriving DecidableEq, Repr

/-- the branches of the loop body, in source order -/
inductive Branch
  | continue_        -- err == nil: next iteration
  | retNetClosed     -- errors.Is(err, net.ErrClosed): return
  | retCanceled      -- errors.Is(err, context.Canceled): "Server shutdown." return
  | retExpired       -- errors.Is(err, context.DeadlineExceeded): log "upstream token expired"; return
  | retSessShutdown  -- errors.Is(err, yamux.ErrSessionShutdown): return
  | retUnexpected    -- log "session closed unexpectedly"; return
deriving DecidableEq, Repr

/-- the loop body of `upstreamRoute`: the `errors.Is` chain in source order -/
def loopBranch : AcceptRes → Branch
  | .stream => .continue_
  | .err e =>
    if e = .netClosed then .retNetClosed
    else if e = .canceled then .retCanceled
    else if e = .deadlineExceeded then .retExpired
    else if e = .sessionShutdown then .retSessShutdown
    else .retUnexpected

/-- does the branch leave the handler (running its deferred calls)? -/
def Branch.returns : Branch → Bool
  | .continue_ => false
  | _ => true

/-- the log line a branch writes (`Info "upstream token expired"`, `Warn "session closed unexpectedly"`) -/
def Branch.log : Branch → Option String
  | .retExpired => some "expired"
  | .retUnexpected => some "unexpected"
  | _ => none

/-- why a connection ends -/
inductive Reason
  | clientClose    -- the client closed the session (`Listener.Shutdown`)
  | goAwayClose    -- the client sent go-away (`Listener.Close`) earlier, then closed
  | drop           -- the network dropped the connection (EOF without a close frame)
  | shed           -- `shedSessions` closed the server side of the session
  | shutdown       -- `Server.Shutdown` cancelled the shared context
  | expiry         -- the token's expiry deadline passed
  | otherErr       -- any other accept error (e.g. connection reset)
deriving DecidableEq, Repr, Inhabited

/-- **Assumed library behaviour**: the error `AcceptStreamWithContext` returns for each cause.
A closed/dropped TCP connection surfaces from gorilla as `CloseError{1006}`, which
`pkg/websocket` maps to `net.ErrClosed`; a local `sess.Close()` gives `ErrSessionShutdown`;
the context gives `Canceled`/`DeadlineExceeded`; a reset is a plain `*net.OpError`. -/
def Reason.acceptErr : Reason → AcceptErr
  | .clientClose => .netClosed
  | .goAwayClose => .netClosed
  | .drop => .netClosed
  | .shed => .sessionShutdown
  | .shutdown => .canceled
  | .expiry => .deadlineExceeded
  | .otherErr => .other

/-- the deferred calls of the handler that touch shared or connection state -/
inductive Deferred
  | removeConn       -- defer s.upstreams.RemoveConn(upstream)
  | removeSession    -- defer s.removeSession(sess)
  | sessClose        -- defer sess.Close()
  | connClose        -- defer conn.Close()
deriving DecidableEq, Repr

/-- the deferred calls pending once the handler is in the accept loop, in execution order -/
def exitDefers : List Deferred := [.removeConn, .removeSession, .sessClose, .connClose]

inductive Phase
  | accepted
  | registered
  | exiting (r : Reason) (pending : List Deferred)
  | released
deriving DecidableEq, Repr

/-- `JWTVerifier.Verify`: `Token.Expiry` is the `exp` claim unless it is absent or
`disableDisconnectOnExpiry` is set (`none` = the zero `time.Time`) -/
def tokenExpiry (exp : Option Nat) (disableDisconnectOnExpiry : Bool) : Option Nat :=
  match exp with
  | some t => if !disableDisconnectOnExpiry then some t else none
  | none => none

/-- the deadline of the handler's context as `upstreamRoute` computes it from the verified
token: `context.WithDeadline(s.ctx, token.Expiry)` iff `!token.Expiry.IsZero()` -/
def deadline (exp : Option Nat) (disableDisconnectOnExpiry : Bool) : Option Nat :=
  tokenExpiry exp disableDisconnectOnExpiry

/-- the deadline of a handler: no token in the gin context (authentication off) ⇒ none -/
def handlerDeadline (token : Option (Option Nat)) (disableDisconnectOnExpiry : Bool) : Option Nat :=
  match token with
  | none => none
  | some exp => deadline exp disableDisconnectOnExpiry

structure Conn where
  ep : String
  phase : Phase := .accepted
  /-- context deadline (`none` = only `s.ctx`) -/
  deadline : Option Nat := none
  /-- the client's go-away has been received (`Dial` now returns `ErrGone`) -/
  goneAway : Bool := false
  /-- ghost: the proxy removed this upstream (`RemoveConn` on `ErrGone`) after it registered -/
  lazy : Bool := false
  /-- ghost: the deferred calls executed so far -/
  did : List Deferred := []
deriving DecidableEq, Repr

structure Srv where
  mgr : Mgr
  /-- `Server.sessions` (connection ids) -/
  sessions : List Nat := []
  conns : AMap Nat Conn := []
  /-- `Server.Shutdown` has run: the listener is closed and `s.ctx` cancelled -/
  cancelled : Bool := false
deriving Repr

inductive Ev
  /-- a new upstream connection was upgraded; the handler created the session and called
  `addSession`.  `dl` is its context deadline. -/
  | accept (c : Nat) (ep : String) (dl : Option Nat)
  /-- the handler calls `AddConn` and enters the accept loop -/
  | register (c : Nat)
  /-- `AcceptStreamWithContext` returned a stream (loop continues) -/
  | stream (c : Nat)
  /-- `AcceptStreamWithContext` returned the error caused by `r`; the loop returns -/
  | fail (c : Nat) (r : Reason)
  /-- the exiting handler runs its next deferred call -/
  | defer (c : Nat)
  /-- the client's go-away frame arrives -/
  | goAway (c : Nat)
  /-- the proxy calls `RemoveConn` for an upstream it selected earlier (`Dial` gave `ErrGone`) -/
  | proxyRemove (c : Nat)
  /-- `Server.Shutdown`: `httpServer.Shutdown` then `s.cancel()` -/
  | serverShutdown
deriving DecidableEq, Repr

def Srv.setConn (s : Srv) (c : Nat) (conn : Conn) : Srv := { s with conns := s.conns.insert c conn }

/-- `addSession` (a Go map used as a set) -/
def addSession (ss : List Nat) (c : Nat) : List Nat := if c ∈ ss then ss else ss ++ [c]

/-- `removeSession` (`delete` on the map) -/
def removeSession (ss : List Nat) (c : Nat) : List Nat := ss.filter (fun x => !(x = c))

/-- is the cause `r` possible for this connection now?  `shutdown` needs the cancelled shared
context, `expiry` needs a deadline; the others are external and always possible. -/
def reasonEnabled (s : Srv) (conn : Conn) : Reason → Bool
  | .shutdown => s.cancelled
  | .expiry => conn.deadline.isSome
  | _ => true

/-- run one deferred call of connection `c` -/
def runDeferred (s : Srv) (c : Nat) (conn : Conn) : Deferred → Srv
  | .removeConn => { s with mgr := s.mgr.removeConn { id := c, ep := conn.ep } }
  | .removeSession => { s with sessions := removeSession s.sessions c }
  | .sessClose => s
  | .connClose => s

def Srv.step (s : Srv) : Ev → Srv
  | .accept c ep dl =>
    if s.cancelled then s else          -- listener closed by Shutdown: nothing is accepted
    match s.conns.find c with
    | some _ => s                       -- ids are fresh
    | none => { s with sessions := addSession s.sessions c,
                       conns := s.conns.insert c { ep := ep, deadline := dl } }
  | .register c =>
    match s.conns.find c with
    | some conn =>
      if conn.phase = .accepted then
        { s with mgr := s.mgr.addConn { id := c, ep := conn.ep },
                 conns := s.conns.insert c { conn with phase := .registered } }
      else s
    | none => s
  | .stream _ => s                      -- `loopBranch .stream = .continue_`
  | .fail c r =>
    match s.conns.find c with
    | some conn =>
      if conn.phase = .registered && reasonEnabled s conn r
          && (loopBranch (.err r.acceptErr)).returns then
        s.setConn c { conn with phase := .exiting r exitDefers }
      else s
    | none => s
  | .defer c =>
    match s.conns.find c with
    | some conn =>
      match conn.phase with
      | .exiting r (d :: ds) =>
        (runDeferred s c conn d).setConn c
          { conn with phase := (if ds.isEmpty then .released else .exiting r ds),
                      did := conn.did ++ [d] }
      | .exiting _ [] => s.setConn c { conn with phase := .released }
      | _ => s
    | none => s
  | .goAway c =>
    match s.conns.find c with
    | some conn => s.setConn c { conn with goneAway := true }
    | none => s
  | .proxyRemove c =>
    match s.conns.find c with
    | some conn =>
      if conn.phase = .accepted then s   -- never returned by `Select`: the proxy cannot hold it
      else ({ s with mgr := s.mgr.removeConn { id := c, ep := conn.ep } }).setConn c
             { conn with lazy := true }
    | none => s
  | .serverShutdown => { s with cancelled := true }

def Srv.run (s : Srv) (evs : List Ev) : Srv := evs.foldl Srv.step s

/-- a freshly started upstream server on a freshly started node -/
def Srv.init (id proxy admin : String) : Srv := { mgr := Mgr.init id proxy admin }

/-- everything reachable from a fresh server by any interleaving of events -/
def reachS (id proxy admin : String) (evs : List Ev) : Srv := (Srv.init id proxy admin).run evs

/-- the connection holds a registry slot: it registered and its `RemoveConn` has not run -/
def Phase.holdsReg : Phase → Bool
  | .registered => true
  | .exiting _ ds => ds.contains .removeConn
  | _ => false

/-- the connection's session is in `Server.sessions` -/
def Phase.holdsSession : Phase → Bool
  | .accepted => true
  | .registered => true
  | .exiting _ ds => ds.contains .removeSession
  | .released => false

/-- the connection is open from the server's point of view -/
def Phase.isOpen : Phase → Bool
  | .accepted => true
  | .registered => true
  | _ => false

def Conn.inReg (conn : Conn) : Bool := conn.phase.holdsReg && !conn.lazy

def Srv.allReleased (s : Srv) : Prop := ∀ c conn, s.conns.find c = some conn → conn.phase = .released

/-- ids of the connections currently in phase `registered` -/
def Srv.registeredIds (s : Srv) : List Nat :=
  (s.conns.filter (fun p => p.2.phase = .registered)).map (·.1)

/-! ### macro steps used by the driver and by `Node/Lifecycle` -/

/-- a whole connect: accept then register -/
def Srv.connect (s : Srv) (c : Nat) (ep : String) (dl : Option Nat) : Srv :=
  (s.step (.accept c ep dl)).step (.register c)

/-- a whole exit of `c` for reason `r`: the loop returns and every deferred call runs -/
def Srv.exit (s : Srv) (c : Nat) (r : Reason) : Srv :=
  (s.step (.fail c r)).run (exitDefers.map fun _ => Ev.defer c)

/-- every registered connection exits for reason `r` (shed of all sessions, shutdown) -/
def Srv.exitAll (s : Srv) (r : Reason) : Srv :=
  s.registeredIds.foldl (fun s c => s.exit c r) s

/-- `dialUpstream`/`proxyTCP`: `u.Dial()`; on `ErrGone` (remote go-away on a live session)
`RemoveConn(u)`.  A closed session gives `ErrSessionShutdown`, no removal. -/
def Srv.proxyDial (s : Srv) (c : Nat) : Srv :=
  match s.conns.find c with
  | some conn => if conn.goneAway && conn.phase = .registered then s.step (.proxyRemove c) else s
  | none => s

end Session
end Upstream
end Piko
