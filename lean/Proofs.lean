import Proofs.LB
