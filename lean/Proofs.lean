import Proofs.LB
import Proofs.GossipLocal
import Proofs.Mgr
import Proofs.MgrSpec
