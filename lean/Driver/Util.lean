/-!
# Driver utilities: hex tokens, canonical printing.  Core Lean only.
Strings travel hex-encoded (`-` is the empty string) so that any UTF-8 key/value is one token.
-/
namespace Piko.Driver

def hexDigit (n : Nat) : Char :=
  if n < 10 then Char.ofNat (48 + n) else Char.ofNat (87 + n)

def hexOfBytes (bs : List UInt8) : String :=
  String.ofList (bs.flatMap fun b => [hexDigit (b.toNat / 16), hexDigit (b.toNat % 16)])

def hexEnc (s : String) : String :=
  if s.isEmpty then "-" else hexOfBytes s.toUTF8.toList

def hexVal (c : Char) : Option Nat :=
  if '0' ≤ c ∧ c ≤ '9' then some (c.toNat - 48)
  else if 'a' ≤ c ∧ c ≤ 'f' then some (c.toNat - 87)
  else none

def bytesOfHexAux : List Char → List UInt8 → Option (List UInt8)
  | [], acc => some acc.reverse
  | [_], _ => none
  | a :: b :: rest, acc =>
    match hexVal a, hexVal b with
    | some x, some y => bytesOfHexAux rest (UInt8.ofNat (x * 16 + y) :: acc)
    | _, _ => none

def bytesOfHex (s : String) : Option (List UInt8) :=
  if s = "-" then some [] else bytesOfHexAux s.toList []

def hexDec (s : String) : Option String :=
  match bytesOfHex s with
  | none => none
  | some bs => String.fromUTF8? (ByteArray.mk bs.toArray)

/-- decode a hex token; undecodable tokens become a marker that can never equal real data -/
def hx (s : String) : String := (hexDec s).getD ("\u0000bad:" ++ s)

def joinWith (sep : String) (xs : List String) : String := sep.intercalate xs

def sortStrings (xs : List String) : List String := xs.mergeSort (fun a b => decide (a ≤ b))

def boolStr (b : Bool) : String := if b then "1" else "0"

def words (line : String) : List String :=
  (line.splitOn " ").filter (fun w => !w.isEmpty)

structure Engine where
  σ : Type
  init : σ
  step : σ → List String → σ × String

end Piko.Driver
