import PikoModel.Node.Lifecycle
import PikoModel.Cluster.Syncer
import Driver.Util
/-!
# Engine `node`: losing a node (C18)
ops (see `harness/eng/node/node.go`):
  init <n> | listen <k> <ep> <i> | req | shutdown <i> <inflight> | kill <i>
  decide <ctx> <local> <inject> | proc <signal>

The model is a cluster of `Node.St` (upstream server + manager + cluster table + gossip state
each), a syncer pending map per node, and "settled gossip": after every change the changed
node's `LocalDelta` is applied (`Gossip.applyDelta` → watcher events → `Cluster.Sync`) at every
live peer.  `shutdown` runs `Node.shutdownActions` in order, draining the handlers after the
cancel, and delivers exactly the deltas the `pushLeave` steps produced.
-/
namespace Piko.Driver.NodeEngine
open Piko Piko.Upstream Piko.Upstream.Session Piko.Node

structure MNode where
  id : String
  st : Node.St
  pending : AMap String Cluster.Node := []
  alive : Bool := true

def nodeId (i : Nat) : String := "n" ++ toString i

def mkNode (i : Nat) : MNode :=
  { id := nodeId i,
    st := { srv := Srv.init (nodeId i) ("proxy" ++ toString i) ("admin" ++ toString i) } }

instance : Inhabited MNode := ⟨mkNode 0⟩

structure St where
  started : Bool := false
  nodes : List MNode := []
  /-- listeners: (k, endpoint) -/
  ls : List (Nat × String) := []
  nextConn : Nat := 1
deriving Inhabited

/-- node `m` receives a delta: `ApplyDelta`, the watcher events go to the syncer -/
def receive (m : MNode) (d : Gossip.Delta) : MNode :=
  let (g, evs) := Gossip.applyDelta 0 m.st.gossip d
  let sy := Cluster.Sync.run { pending := m.pending, table := m.st.srv.mgr.cluster } evs
  { m with pending := sy.pending,
           st := { m.st with srv := { m.st.srv with mgr := { m.st.srv.mgr with gossip := g, cluster := sy.table } } } }

/-- the failure detector at `m` suspects the nodes `ids` (those that stopped sending):
`UpdateLiveness` -/
def suspect (m : MNode) (ids : List String) : MNode :=
  let (g, evs) := Gossip.updateLiveness m.st.gossip (fun x => ids.contains x) 0
  let sy := Cluster.Sync.run { pending := m.pending, table := m.st.srv.mgr.cluster } evs
  { m with pending := sy.pending,
           st := { m.st with srv := { m.st.srv with mgr := { m.st.srv.mgr with gossip := g, cluster := sy.table } } } }

def mapNode (ns : List MNode) (id : String) (f : MNode → MNode) : List MNode :=
  ns.map fun m => if m.id = id then f m else m

def getNode (ns : List MNode) (id : String) : Option MNode := ns.find? (fun m => m.id = id)

/-- settled gossip: every live node other than `src` applies `src`'s full local delta -/
def broadcast (ns : List MNode) (src : String) : List MNode :=
  match getNode ns src with
  | none => ns
  | some s =>
    let d := Gossip.localDelta s.st.gossip
    ns.map fun m => if m.id = src || !m.alive then m else receive m d

def alive (ns : List MNode) : List MNode := ns.filter (·.alive)

def showCounts (m : List (String × String)) : String :=
  "[" ++ joinWith "," (sortStrings (m.map fun p => hexEnc p.1 ++ ":" ++ p.2)) ++ "]"

def addCount (acc : AMap String Int) (p : String × Int) : AMap String Int :=
  acc.insert p.1 ((acc.find p.1).getD 0 + p.2)

def total (ns : List MNode) : String :=
  let m := (alive ns).foldl (fun acc n => n.st.srv.mgr.cluster.localNode.endpoints.foldl addCount acc) ([] : AMap String Int)
  showCounts (m.map fun p => (p.1, toString p.2))

def wantEps (ls : List (Nat × String)) : List String :=
  sortStrings (ls.foldl (fun acc p => if acc.contains p.2 then acc else acc ++ [p.2]) [])

/-- would a request for `e` entering at `m` be served?  (`Select` locally, else forwarded once) -/
def serves (ns : List MNode) (m : MNode) (e : String) : String :=
  match (m.st.srv.mgr.select e true).1 with
  | .localUp _ => "200"
  | .remote cs =>
    let oks := cs.map fun id =>
      match getNode ns id with
      | some r => r.alive && (match (r.st.srv.mgr.select e false).1 with | .localUp _ => true | _ => false)
      | none => false
    if oks.all id then "200" else if oks.any id then "{200|502}" else "502"
  | _ => "502"

def reqLine (ns : List MNode) (ls : List (Nat × String)) : String × Bool :=
  let eps := wantEps ls
  let parts := (alive ns).map fun m =>
    m.id ++ "=[" ++ joinWith "," (eps.map fun e => hexEnc e ++ ":" ++ serves ns m e) ++ "]"
  let all := (alive ns).all fun m => eps.all fun e => serves ns m e == "200"
  (joinWith " " parts, all)

def statusAt (obs : MNode) (id : String) : String :=
  match obs.st.srv.mgr.cluster.nodes.find id with
  | some n => n.status.toString
  | none => "absent"

/-- `active` (still a routing candidate) or `down` (left / unreachable / forgotten): which
of the latter depends on the real failure detectors, so the line only carries the distinction
that matters for routing (the harness oracle asserts `left` at the notified peers) -/
def routed (obs : MNode) (id : String) : String :=
  if statusAt obs id = "active" then "active" else "down"

def seen (ns : List MNode) (lost : String) : String :=
  "[" ++ joinWith "," ((alive ns).map fun m => m.id ++ ":" ++ routed m lost) ++ "]"

/-- register a new upstream connection for `ep` on node `id` and let the cluster settle -/
def attach (s : St) (id : String) (ep : String) : St :=
  let c := s.nextConn
  let ns := mapNode s.nodes id fun m => { m with st := { m.st with srv := m.st.srv.connect c ep none } }
  { s with nodes := broadcast ns id, nextConn := c + 1 }

/-- the endpoints of the connections registered on a node -/
def attachedEps (m : MNode) : List String :=
  (m.st.srv.conns.filter (fun p => p.2.phase = .registered)).map (·.2.ep)

/-- the listeners that were on the lost node reconnect to the first survivor -/
def reattach (s : St) (eps : List String) : St :=
  match (alive s.nodes).head? with
  | none => s
  | some t => eps.foldl (fun s e => attach s t.id e) s

def recoverLine (s : St) (lost : String) : String :=
  let (_, all) := reqLine s.nodes s.ls
  "seen=" ++ seen s.nodes lost ++ " total=" ++ total s.nodes ++ " recovered=" ++ boolStr all

/-- run `Server.Shutdown` of node `m`: the actions of `Node.shutdownActions` in order, the
handlers draining right after the cancel; returns the final state and whether the upstream
server was already shut down when the left marker was written -/
def runShutdown (m : Node.St) (reached : List String) : Node.St × Bool × Bool :=
  (Node.shutdownActions reached).foldl (fun (acc : Node.St × Bool × Bool) a =>
    let closedAtLeave := if a = .leaveLocal then acc.1.srv.cancelled else acc.2.1
    -- when the proxy starts draining: have the upstreams been sent away already?
    let withdrawnAtProxy := if a = .proxyShutdown then acc.1.srv.cancelled else acc.2.2
    let n := acc.1.act a
    let n := if a = .upstreamShutdown then n.drain else n
    (n, closedAtLeave, withdrawnAtProxy)) (m, false, false)

/-- the error kind `AcceptStreamWithContext` returns for an injected fault and a local action
(assumed yamux behaviour); `none` = no error, the call blocks -/
def errKinds (local_ inject : String) : List Node.ErrKind :=
  let inj : List Node.ErrKind := match inject with
    | "remote-close" => [.netClosed]
    | "rst" => [.other]
    | "sess-close" => [.sessionShutdown]
    | _ => []
  match local_ with
  | "close" => inj ++ [.netClosed]        -- localGoAwayCh and shutdownCh may both be ready
  | "shutdown" => if inj.isEmpty then [.sessionShutdown] else inj
  | _ => inj

def outcomeStr : Node.Outcome → String
  | .ctxErr => "ctx-err" | .errClosed => "closed" | .reconnected => "reconnected" | .connectErr => "connect-err"

def decideLine (ctx : Bool) (local_ inject : String) : String :=
  let ks := errKinds local_ inject
  if ks.isEmpty then (if ctx then "decide ctx-err" else "decide blocked") else
  let outs := (ks.map fun k => outcomeStr (Node.acceptOutcome ctx (local_ != "none") false k)).eraseDups
  match outs with
  | [o] => "decide " ++ o
  | os => "decide {" ++ joinWith "|" os ++ "}"

def validLocal (l : String) : Bool := l = "none" || l = "close" || l = "shutdown"
def validInject (i : String) : Bool := i = "none" || i = "remote-close" || i = "rst" || i = "sess-close"

/-- graceful `Server.Shutdown` of node `i`; `drain` = a slow request is in flight on its proxy
and the line also says whether the traffic is withdrawn while the proxy drains -/
def doShutdown (s : St) (i : String) (drain : Bool) : St × String :=
  match i.toNat? with
  | some ii =>
    match getNode s.nodes (nodeId ii) with
    | some m =>
      if !m.alive || (alive s.nodes).length < 2 then (s, "bad-op") else
      let others := (alive s.nodes).filter (fun x => x.id != m.id)
      let eps := attachedEps m
      let (st', closedAtLeave, withdrawnAtProxy) := runShutdown m.st (others.map (·.id))
      let ns := mapNode s.nodes m.id fun x => { x with st := st', alive := false }
      -- exactly the pushed deltas reach their peers, at once
      let ns := st'.pushed.foldl (fun ns p => mapNode ns p.1 fun x => receive x p.2) ns
      let notified := ((alive ns).filter fun x => statusAt x m.id = "left").length
      -- the rest follow through gossip
      let ns := match st'.pushed.head? with
        | some p => ns.map fun x => if x.alive then receive x p.2 else x
        | none => ns
      let s' := reattach { s with nodes := ns } eps
      (s', "ok lost=" ++ m.id ++
        (if drain then (if withdrawnAtProxy then " drain=withdrawn" else " drain=held") else "") ++
        " upstream-at-leave=" ++ (if closedAtLeave then "closed" else "open") ++
        " notified=" ++ (if notified ≥ min others.length Node.maxLeaveNotified then "all"
          else toString notified ++ "/" ++ toString (min others.length Node.maxLeaveNotified)) ++
        " " ++ recoverLine s' m.id)
    | none => (s, "bad-op")
  | none => (s, "bad-op")

def step (s : St) : List String → St × String
  | ["init", n] =>
    match n.toNat? with
    | some k =>
      if s.started || k < 2 || k > 8 then (s, "bad-op") else
      let ns := (List.range k).map mkNode
      let ns := ns.foldl (fun acc m => broadcast acc m.id) ns
      ({ s with started := true, nodes := ns }, "ok nodes=" ++ toString k)
    | none => (s, "bad-op")
  | ["decide", c, l, i] =>
    if validLocal l && validInject i then (s, decideLine (c = "1") l i) else (s, "bad-op")
  | ["close-during-reconnect", l, w] =>
    if (l = "close" || l = "shutdown") && (w = "during" || w = "after") then
      -- the server dropped the connection (no local close yet, live context): reconnect;
      -- `during`: the local close lands while `connect` runs → the re-check; `after`: the
      -- reconnect completed, then a local close on the new session (go-away / session close)
      let out := if w = "during" then Node.acceptOutcome false false true .netClosed
        else Node.acceptOutcome false true false (if l = "close" then .netClosed else .sessionShutdown)
      (s, "decide " ++ outcomeStr out ++ " reg=" ++
        boolStr (Node.registeredAfterLocalClose (l = "shutdown") (w = "during")))
    else (s, "bad-op")
  | ["proc", _] => (s, "proc before=1 recovered=1")
  | ws =>
    if !s.started then (s, "bad-op") else
    match ws with
    | ["listen", k, ep, i] =>
      match k.toNat?, i.toNat? with
      | some kk, some ii =>
        if s.ls.any (·.1 = kk) || ii ≥ s.nodes.length || (alive s.nodes).isEmpty then (s, "bad-op") else
        let target := match getNode s.nodes (nodeId ii) with
          | some m => if m.alive then m.id else ((alive s.nodes).head?.map (·.id)).getD ""
          | none => ""
        let s' := attach { s with ls := s.ls ++ [(kk, hx ep)] } target (hx ep)
        (s', "ok total=" ++ total s'.nodes)
      | _, _ => (s, "bad-op")
    | ["req"] => (s, "ok " ++ (reqLine s.nodes s.ls).1)
    | ["shutdown", i, _] => doShutdown s i false
    | ["shutdown-inflight", i] => if s.ls.isEmpty then (s, "bad-op") else doShutdown s i true
    | ["kill", i] =>
      match i.toNat? with
      | some ii =>
        match getNode s.nodes (nodeId ii) with
        | some m =>
          if !m.alive || (alive s.nodes).length < 2 then (s, "bad-op") else
          let eps := attachedEps m
          let ns := mapNode s.nodes m.id fun x => { x with alive := false }
          let dead := (ns.filter fun x => !x.alive).map (·.id)
          let ns := ns.map fun x => if x.alive then suspect x dead else x
          let s' := reattach { s with nodes := ns } eps
          (s', "ok lost=" ++ m.id ++ " " ++ recoverLine s' m.id)
        | none => (s, "bad-op")
      | none => (s, "bad-op")
    | _ => (s, "bad-op")

def engine : Engine := { σ := St, init := default, step := step }

end Piko.Driver.NodeEngine
