import PikoModel.Upstream.Session
import Driver.Util
/-!
# Engine `session`: the upstream connection lifecycle (C16)
ops (see `harness/eng/session/session.go`):
  init <auth> <disable> | connect <k> <ep> <tok> | close <k> | shutdown <k> | drop <k> | reset <k>
  shed | dial <k> <hold> | expire <k> | server-shutdown | server-shutdown-stuck
Each op is a fixed sequence of `Session.Ev`s; the line printed is the quiescent state the
state machine predicts.
-/
namespace Piko.Driver.SessionEngine
open Piko Piko.Upstream Piko.Upstream.Session

structure St where
  started : Bool := false
  auth : Bool := false
  disable : Bool := false
  s : Srv := Srv.init "n0" "10.0.0.1:8000" "10.0.0.1:8002"
  /-- clients whose token carried an `exp` claim -/
  hasExp : List Nat := []
deriving Inhabited

def showCounts (m : List (String × String)) : String :=
  "[" ++ joinWith "," (sortStrings (m.map fun p => hexEnc p.1 ++ ":" ++ p.2)) ++ "]"

def epPrefix : String := "endpoint:"

/-- the live `endpoint:<id>` entries of the node's own gossip state -/
def liveEndpointEntries (g : Gossip.CState) : List (String × String) :=
  (Gossip.own g).entries.vals.filterMap fun e =>
    if !e.deleted && !e.internal && e.key.startsWith epPrefix
    then some ((e.key.drop epPrefix.length).toString, e.value) else none

def showState (s : Srv) : String :=
  "eps=" ++ showCounts (s.mgr.endpoints.map fun p => (p.1, toString p.2)) ++
  " local=" ++ showCounts (s.mgr.cluster.localNode.endpoints.map fun p => (p.1, toString p.2)) ++
  " gossip=" ++ showCounts (liveEndpointEntries s.mgr.gossip) ++
  " sess=" ++ toString s.sessions.length

def line (s : Srv) (logs : List String) : String :=
  "ok " ++ showState s ++ " log=" ++ (if logs.isEmpty then "-" else joinWith "," (sortStrings logs))

/-- exit `c` for `r`; returns the new state and the log lines written -/
def doExit (s : Srv) (c : Nat) (r : Reason) : Srv × List String :=
  let s' := s.exit c r
  let exited : Bool := match s.conns.find c, s'.conns.find c with
    | some a, some b => decide (a.phase = .registered) && decide (b.phase = .released)
    | _, _ => false
  (s', if exited then ((loopBranch (.err r.acceptErr)).log).toList else [])

def step (st : St) : List String → St × String
  | ["init", a, d] =>
    if st.started then (st, "bad-op") else
    let st' : St := { started := true, auth := a = "1", disable := d = "1" }
    (st', line st'.s [])
  | ws =>
    if !st.started then (st, "bad-op") else
    match ws with
    | ["connect", k, ep, tok] =>
      match k.toNat? with
      | none => (st, "bad-op")
      | some c =>
        if (st.s.conns.find c).isSome then (st, "bad-op") else
        if st.auth == (tok == "-") then (st, "bad-op") else
        if st.s.cancelled then (st, "refused " ++ showState st.s ++ " log=-") else
        let exp : Option Nat := if tok = "noexp" || tok = "-" then none else tok.toNat?
        let token : Option (Option Nat) := if st.auth then some exp else none
        let s' := st.s.connect c (hx ep) (handlerDeadline token st.disable)
        ({ st with s := s', hasExp := if exp.isSome then c :: st.hasExp else st.hasExp }, line s' [])
    | ["shed"] =>
      let s' := st.s.exitAll .shed
      ({ st with s := s' }, line s' [])
    | ["server-shutdown"] =>
      let s' := (st.s.step .serverShutdown).exitAll .shutdown
      ({ st with s := s' }, line s' [])
    | ["server-shutdown-stuck"] =>
      -- `Shutdown(ctx)` whose grace period expires (a connection stuck in its request header
      -- keeps `http.Server.Shutdown` waiting): the shared context is cancelled all the same
      let s' := (st.s.step .serverShutdown).exitAll .shutdown
      ({ st with s := s' }, line s' [])
    | op :: k :: rest =>
      match k.toNat? with
      | none => (st, "bad-op")
      | some c =>
        match st.s.conns.find c with
        | none => (st, "bad-op")
        | some conn =>
          match op, rest with
          | "close", [] =>
            let s' := if conn.phase = .registered then st.s.step (.goAway c) else st.s
            ({ st with s := s' }, line s' [])
          | "shutdown", [] =>
            let (s', lg) := doExit st.s c (if conn.goneAway then .goAwayClose else .clientClose)
            ({ st with s := s' }, line s' lg)
          | "drop", [] =>
            let (s', lg) := doExit st.s c .drop
            ({ st with s := s' }, line s' lg)
          | "reset", [] =>
            let (s', lg) := doExit st.s c .otherErr
            ({ st with s := s' }, line s' lg)
          | "dial", [_] =>
            let s' := st.s.proxyDial c
            ({ st with s := s' }, line s' [])
          | "expire", [] =>
            if !st.hasExp.contains c then (st, "bad-op") else
            let (s', lg) := doExit st.s c .expiry
            ({ st with s := s' }, line s' lg)
          | _, _ => (st, "bad-op")
    | _ => (st, "bad-op")

def engine : Engine := { σ := St, init := default, step := step }

end Piko.Driver.SessionEngine
