import PikoModel.Proxy.Http
import Driver.Util
/-!
# Engine `http`: real `server/proxy.Server` nodes between a raw client and a raw recorder (C08)

ops:
  setup <timeoutMs>
  req <path> <method> <target> <host> <nh> (<name>=<value>)* <bmode> <blen> <bseed>
      <status> <rmode> <rlen> <rseed> <nrh> (<name>=<value>)*
        → `up m=.. uri=.. host=.. fwd=.. h=[..] body=<n>:ok down s=.. h=[..] body=<n>:ok`
  fail <path> <kind>            → `st=<status> msg=<hex> hang=0`, or `aborted=1 hang=0` for closemid-*

paths: `local` (one proxy node), `fwd` (two nodes), `agent` (agent/reverseproxy.Server: the same
timeout/error-handler code, `NewSingleHostReverseProxy`, no piko marker)

The prediction is the end-to-end preservation rule: method, request target, Host and body are
echoed; the header list is `Http.visible` of the client's headers (`Http.visibleResp` for the
response); piko's own answers come from `Http.respond` / `Http.ownMessage`.
-/
namespace Piko.Driver.HttpEngine
open Piko Piko.Http

structure St where
  timeoutMs : Nat := 0
  ready : Bool := false
deriving Inhabited

def hexBytes (s : String) : List UInt8 := (bytesOfHex s).getD []

/-- header names and values travel as raw bytes (values may be non-UTF-8): keep them as the
Latin-1 reading of the bytes so that `String` operations act bytewise on ASCII -/
def latin1 (bs : List UInt8) : String := String.ofList (bs.map fun b => Char.ofNat b.toNat)
def unlatin1 (s : String) : List UInt8 := s.toList.map fun c => UInt8.ofNat c.toNat

def tok (s : String) : String := let bs := unlatin1 s; if bs.isEmpty then "-" else hexOfBytes bs

def parseKV (t : String) : Option (String × String) :=
  match t.splitOn "=" with
  | [k, v] => match bytesOfHex k, bytesOfHex v with
    | some kb, some vb => some (latin1 kb, latin1 vb)
    | _, _ => none
  | _ => none

def showHeaders (h : Headers) : String :=
  "[" ++ joinWith "," (sortStrings (h.map fun p => tok p.1 ++ "=" ++ tok p.2)) ++ "]"

/-- the client's fields as Go's server presents them: canonical names -/
def canonHeaders (h : Headers) : Headers := h.map fun p => (canon p.1, p.2)

def takeKVs : Nat → List String → Option (Headers × List String)
  | 0, rest => some ([], rest)
  | n + 1, t :: rest =>
    match parseKV t, takeKVs n rest with
    | some kv, some (kvs, rest') => some (kv :: kvs, rest')
    | _, _ => none
  | _ + 1, [] => none

def failSituation (T : Nat) (path kind : String) : Option (Situation × Option Framing) :=
  let base : Situation := { endpointID := "e", selected := true, timeoutMs := T, up := .responds 0 200 }
  let notAgent := !path.startsWith "agent"
  -- no protocol upgrade over HTTP/2; the net/http upstream of `agent-h2` chooses its own framing
  if path = "agent-h2" && (kind = "slow-upgrade" || kind = "slow-upgrade-case" || kind = "closemid-cl") then none else
  match kind with
  | "noendpoint" => if notAgent then some ({ base with endpointID := "" }, none) else none
  | "noupstream" => if notAgent then some ({ base with selected := false }, none) else none
  | "noupstream-remote" =>
    -- the first node selects the remote node; that node has no upstream and answers 502 itself,
    -- which the first node relays
    if path = "fwd" then some ({ base with selected := false }, none) else none
  | "dialerr" => if notAgent then some ({ base with up := .dialError }, none) else none
  | "deadnode" => if path = "fwd" then some ({ base with up := .dialError }, none) else none
  | "closebefore" => some ({ base with up := .closedBeforeResponse }, none)
  | "closemid-cl" =>
    -- forwarded path: the second node aborts before it has flushed a byte of the small
    -- Content-Length response, so the first node sees a connection closed before the response
    if path = "fwd" then some ({ base with up := .closedBeforeResponse }, none)
    else some (base, some .contentLength)
  | "closemid-chunked" => some (base, some .chunked)
  | "slow" => if T = 0 then none else some ({ base with up := .responds (3 * T) 200 }, none)
  | "slow-upgrade" =>
    if T = 0 then none else some ({ base with upgrade := "websocket", up := .responds (2 * T) 200 }, none)
  | "slow-upgrade-case" =>
    if T = 0 then none else some ({ base with upgrade := "WebSocket", up := .responds (3 * T) 200 }, none)
  | "fast" => some (base, none)
  | _ => none

def step (s : St) : List String → St × String
  | ["setup", t] =>
    match t.toNat? with
    | some ms => ({ timeoutMs := ms, ready := true }, "ok")
    | none => (s, "bad-op")
  | "req" :: path :: method :: target :: host :: nh :: rest =>
    if !s.ready then (s, "bad-op") else
    match nh.toNat? with
    | none => (s, "bad-op")
    | some n =>
      match takeKVs n rest with
      | some (hs, bmode :: blen :: _bseed :: status :: rmode :: rlen :: _rseed :: nrh :: rest') =>
        match blen.toNat?, status.toNat?, rlen.toNat?, nrh.toNat? with
        | some bl, some st, some rl, some m =>
          match takeKVs m rest' with
          | some (rhs, _) =>
            let reqH := canonHeaders hs
            let epHeader := Headers.get reqH "x-piko-endpoint"
            let hostStr := latin1 (hexBytes host)
            let ep := if path = "agent" then "agent"
                      else if epHeader ≠ "" then epHeader else (hostStr.splitOn ".").headD ""
            let sit : Situation :=
              { endpointID := ep, selected := true, timeoutMs := s.timeoutMs,
                upgrade := Headers.get reqH "upgrade", up := .responds 0 st }
            let ans := respond sit
            if ans.own then (s, "up none down own s=" ++ toString ans.status) else
            let sentBody := if bmode = "none" then 0 else bl
            let noBody := method = "HEAD" || st = 204 || st = 304 || rmode = "none"
            let gotBody := if noBody then 0 else rl
            let r0 : Request :=
              { method := method, rawPath := target, rawQuery := "", host := hostStr, headers := reqH, body := [] }
            let seen := if path = "agent" then { r0 with headers := removeHopByHop reqH }
                        else hops (if path = "fwd" then 2 else 1) ep r0
            let up := "up m=" ++ seen.method ++ " uri=" ++ seen.rawPath ++ " host=" ++ tok seen.host ++
              " fwd=" ++ tok (joinWith "|" (seen.headers.values "x-piko-forward")) ++
              " h=" ++ showHeaders (visible seen.headers) ++ " body=" ++ toString sentBody ++ ":ok"
            let down := " down s=" ++ toString ans.status ++ " h=" ++
              showHeaders (visibleResp (canonHeaders rhs)) ++ " body=" ++ toString gotBody ++ ":ok"
            (s, up ++ down)
          | none => (s, "bad-op")
        | _, _, _, _ => (s, "bad-op")
      | _ => (s, "bad-op")
  | ["fail", path, kind] =>
    if !s.ready then (s, "bad-op") else
    match failSituation s.timeoutMs path kind with
    | none => (s, "bad-op")
    | some (sit, fr) =>
      let ans := respond sit
      let out := "st=" ++ toString ans.status ++ " msg=" ++ tok (ownMessage sit) ++ " hang=0"
      match fr with
      | some f =>
        (s, "aborted=" ++ boolStr (onUpstreamDeathMidBody f == ClientView.aborted) ++ " hang=0")
      | none => (s, out)
  | _ => (s, "bad-op")

def engine : Engine := { σ := St, init := default, step := step }

end Piko.Driver.HttpEngine
