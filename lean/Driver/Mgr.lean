import PikoModel.Upstream.LB
import Driver.Util
/-!
# Engine `mgr`: loadBalancer / LoadBalancedManager / cluster local endpoints / own gossip state
ops:
  init <id> <proxy> <admin>            NewState + newClusterState + Sync
  node <id> <status> <proxy> <admin> <ep>=<n> ...     cluster.AddNode (remote row)
  add <uid> <ep> | rm <uid> <ep>       AddConn / RemoveConn
  compact <thr>                        CompactLocal of the node's own gossip state
  sel <ep> <0|1>                       Select(ep, allowRemote)
  lb.new | lb.add <u> | lb.rm <u> | lb.next        raw loadBalancer
-/
namespace Piko.Driver.MgrEngine
open Piko Piko.Upstream

structure St where
  m : Mgr
  lb : LB := {}
deriving Inhabited

def parseStatus : String → Cluster.Status
  | "active" => .active | "unreachable" => .unreachable | "left" => .left | _ => .unset

def showCounts (m : List (String × String)) : String :=
  "[" ++ joinWith "," (sortStrings (m.map fun p => hexEnc p.1 ++ ":" ++ p.2)) ++ "]"

def showEntry (e : Gossip.Entry) : String :=
  hexEnc e.key ++ "=" ++ hexEnc e.value ++ "@" ++ toString e.version ++
    (if e.deleted then "D" else "") ++ (if e.internal then "I" else "")

def showOwnGossip (g : Gossip.CState) : String :=
  let n := Gossip.own g
  "v" ++ toString n.version ++ "[" ++
    joinWith "," ((Gossip.sortByVersion n.entries.vals).map showEntry) ++ "]"

def showState (m : Mgr) : String :=
  "eps=" ++ showCounts (m.endpoints.map fun p => (p.1, toString p.2)) ++
  " local=" ++ showCounts (m.cluster.localNode.endpoints.map fun p => (p.1, toString p.2)) ++
  " gossip=" ++ showOwnGossip m.gossip

def showLB (lb : LB) : String :=
  "lb=[" ++ joinWith "," (lb.ups.map toString) ++ "]"

def parseEp (s : String) : Option (String × Int) :=
  match s.splitOn "=" with
  | [e, n] => match n.toInt? with
    | some k => some (hx e, k)
    | none => none
  | _ => none

def step (s : St) : List String → St × String
  | ["init", id, p, a] =>
    let c := Cluster.State.new { id := hx id, proxyAddr := hx p, adminAddr := hx a }
    let g := syncInit c (Gossip.init (hx id) "")
    let m : Mgr := { cluster := c, gossip := g }
    ({ m := m }, "ok " ++ showState m)
  | "node" :: id :: st :: p :: a :: eps =>
    let n : Cluster.Node :=
      { id := hx id, status := parseStatus st, proxyAddr := hx p, adminAddr := hx a,
        endpoints := (eps.filterMap parseEp) }
    ({ s with m := { s.m with cluster := s.m.cluster.addNode n } }, "ok")
  | ["add", u, e] =>
    match u.toNat? with
    | some uid =>
      let m := s.m.addConn { id := uid, ep := hx e }
      ({ s with m := m }, "ok " ++ showState m)
    | none => (s, "bad-op")
  | ["rm", u, e] =>
    match u.toNat? with
    | some uid =>
      let m := s.m.removeConn { id := uid, ep := hx e }
      ({ s with m := m }, "ok " ++ showState m)
    | none => (s, "bad-op")
  | ["compact", thr] =>
    match thr.toNat? with
    | none => (s, "bad-op")
    | some t =>
      match Gossip.compactLocal s.m.gossip t with
      | none => (s, "panic")
      | some g =>
        let m := { s.m with gossip := g }
        ({ s with m := m }, "ok " ++ showState m)
  | ["sessclose", _u, _e] =>
    -- the session of an upstream ends before its handler deregisters it: no store changes
    (s, "ok " ++ showState s.m)
  | ["sel", e, ar] =>
    let (r, m) := s.m.select (hx e) (ar = "1")
    let out := match r with
      | .localUp u => "sel local " ++ toString u
      | .nilTrue => "sel nil-true"
      | .remote cs => "sel remote {" ++ joinWith "|" (sortStrings (cs.map hexEnc)) ++ "}"
      | .notFound => "sel none"
      | .panic => "panic"
    ({ s with m := m }, out)
  | ["conc", _, _, _] => (s, "conc done")   -- concurrent stress on a separate fresh stack (Go-side oracle only)
  | ["lb.new"] => ({ s with lb := {} }, "ok " ++ showLB {})
  | ["lb.add", u] =>
    match u.toNat? with
    | some uid => let lb := s.lb.add uid; ({ s with lb := lb }, "ok " ++ showLB lb)
    | none => (s, "bad-op")
  | ["lb.rm", u] =>
    match u.toNat? with
    | some uid =>
      let (lb, e) := s.lb.remove uid
      ({ s with lb := lb }, "empty=" ++ boolStr e ++ " " ++ showLB lb)
    | none => (s, "bad-op")
  | ["lb.next"] =>
    match s.lb.pick with
    | (.up u, lb) => ({ s with lb := lb }, "next " ++ toString u)
    | (.none, _) => (s, "next nil")
    | (.panic, _) => (s, "panic")
  | _ => (s, "bad-op")

def engine : Engine := { σ := St, init := default, step := step }

end Piko.Driver.MgrEngine
