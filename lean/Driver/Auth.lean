import PikoModel.Auth.Verifier
import PikoModel.Auth.Middleware
import PikoModel.Auth.Chain
import Driver.Util
/-!
# Engine `auth`: middleware.Auth + JWTVerifier/MultiTenantVerifier, the gin engines of the
three servers, endpoint/tenant confinement (C09, C10)

ops (strings hex-encoded, `-` = empty):
  cfg <owner> <hmac> <rsa> <ecdsa> <jwks: -|kid:kty:alg,...> <aud> <iss> <ddoe> [<lit|load>]
      lit: NewJWTVerifier(&LoadedConfig{…}) literal; load: auth.Config{…}.Load() as server.go does
      (answers `load-error` when Load refuses the combination)
  mt <owner,owner,...|-> [wire]                MultiTenantVerifier(default = cfg `-`, tenants);
      wire: only if the default config is Enabled() or tenants exist (server.go), else no verifier
  tok <id> <alg> <kid: -|s:<hex>|num> <signer> <tamper> <shape> <exp> <nbf> <aud> <iss> <eps>
      signer: k:<owner>:<hmac|rsa|ecdsa|jwk.<kid>> | empty | pem | foreign | nosig | garbage
      tamper: none|hdr|pay|sig     shape: ok|seg2|seg4|b64|json|expstr|epsstr|noalg|algnum
      exp/nbf: -|<seconds relative to now>    aud/eps: none|<hex>,<hex>…
  req <form>:<id> <form>:<id> <tenant>         x-piko-authorization, Authorization, x-piko-tenant-id
      form: none|bearer|lower|upper|nospace|dbl|basic|empty|bare|raw|tab|trail
  srv <proxy|upstream|admin> <auth> [<registry> <cluster> <status keys|->]
  hit <kind> <method> <path> <form>:<id> <form>:<id> <tenant>
  sweep <kind> <form>:<id> <form>:<id> <tenant>     every registered route + neighbours + unknown paths
  up <ep,ep,…|->                               endpoints with an upstream in the fake manager
  http <host> <host without port> <isIP> <x-piko-endpoint> <form>:<id> <form>:<id> <tenant>
  tcp <raw segment> <decoded path> <form>:<id> <form>:<id> <tenant>
  reg <raw segment> <decoded path> <form>:<id> <form>:<id> <tenant>
-/
namespace Piko.Driver.AuthEngine
open Piko Piko.Auth

structure St where
  cfgs : List (String × Cfg) := []
  mt : MTCfg := {}
  toks : List (String × TokenFacts) := []
  ups : List String := []
  srvs : List (String × (Gin.Engine × Bool)) := []
  raws : List (String × RawCfg) := []
  /-- `mt … wire` decided that the port gets no verifier -/
  noVerifier : Bool := false
  /-- seconds elapsed since the case started (advanced by `late`) -/
  now : Int := 0
deriving Inhabited

def b01 (s : String) : Bool := s = "1"

def hexList (s : String) : List String :=
  if s = "-" ∨ s = "none" then [] else (s.splitOn ",").map hx

/-- a claim list (`aud`, `piko.endpoints`): `none` = claim absent, else the elements, `-` = "" -/
def claimList (s : String) : List String :=
  if s = "none" then [] else (s.splitOn ",").map hx

def parseKty : String → Option KeyType
  | "oct" => some .oct | "rsa" => some .rsa | "ec" => some .ec | "okp" => some .okp | _ => none

def parseJwks (s : String) : Option (Option (List Jwk)) :=
  if s = "-" then some none
  else
    let js := (s.splitOn ",").map fun e =>
      match e.splitOn ":" with
      | [kid, kty, alg] => (parseKty kty).map fun t => ({ kid := kid, kty := t, alg := if alg = "-" then "" else alg } : Jwk)
      | _ => none
    if js.all Option.isSome then some (some (js.filterMap id)) else none

def parseKeyRef (s : String) : Option KeyRef :=
  if s = "hmac" then some .hmac else if s = "rsa" then some .rsa else if s = "ecdsa" then some .ecdsa
  else if s.startsWith "jwk." then some (.jwk (s.drop 4).toString) else none

/-- which (alg, key) pairs the harness can really sign: HS* with an HMAC secret / oct JWK,
RS*/PS* with an RSA key, ES256 with a P-256 key.  Everything else gets a garbage signature. -/
def canSign (jwks : List Jwk) (alg : String) (k : KeyRef) : Bool :=
  match KeyRef.type jwks k with
  | some .oct => algFam alg == .hs
  | some .rsa => algFam alg == .rs || algFam alg == .ps
  | some .ec => alg == "ES256"
  | _ => false

/-- the key set every `jwk.<kid>` signer refers to: the one of the owner's configuration -/
def jwksOf (st : St) (owner : String) : List Jwk :=
  match st.cfgs.lookup owner with
  | some c => c.jwks.getD []
  | none => []

def parseSigner (st : St) (alg s : String) : Option Signer :=
  match s.splitOn ":" with
  | ["k", owner, ref] =>
    match parseKeyRef ref with
    | some k => some (if canSign (jwksOf st (hx owner)) alg k then .key (hx owner) k else .other)
    | none => none
  | ["empty"] => some (if algFam alg == .hs then .emptyHmac else .other)
  | ["pem"] => some .other
  | ["foreign"] => some .other
  | ["nosig"] => some .other
  | ["garbage"] => some .other
  | _ => none

def parseOptInt (s : String) : Option (Option Int) :=
  if s = "-" then some none else s.toInt?.map some

def parseKid (s : String) : Option Kid :=
  if s = "-" then some .absent
  else if s = "num" then some .nonString
  else if s.startsWith "s:" then some (.str (hx (s.drop 2).toString))
  else none

def tokName (id : String) : String := "T" ++ id

/-- the header value for a form; `t` is the token string -/
def formHeader (form t : String) : Option String :=
  match form with
  | "none" => some ""
  | "bearer" => some ("Bearer " ++ t)
  | "lower" => some ("bearer " ++ t)
  | "upper" => some ("BEARER " ++ t)
  | "nospace" => some ("Bearer" ++ t)
  | "dbl" => some ("Bearer  " ++ t)
  | "basic" => some ("Basic " ++ t)
  | "empty" => some "Bearer "
  | "bare" => some "Bearer"
  | "raw" => some t
  | "tab" => some ("Bearer\t" ++ t)
  | "trail" => some ("Bearer " ++ t ++ " ")
  | _ => none

def parseHeader (s : String) : Option String :=
  match s.splitOn ":" with
  | [form, id] => formHeader form (tokName id)
  | _ => none

def parseReq (x a tenant : String) : Option Req :=
  match parseHeader x, parseHeader a with
  | some xh, some ah => some { xPikoAuth := xh, authorization := ah, tenant := hx tenant }
  | _, _ => none

def factsOf (st : St) (s : String) : TokenFacts := (st.toks.lookup s).getD {}

def us (s : String) : String := s.replace " " "_"

def showList (l : List String) : String :=
  if l = [] then "none" else joinWith "," (l.map hexEnc)

def showOutcome : Outcome → String
  | .accept t =>
    "200 next=1 eps=" ++ showList t.endpoints ++ " tenant=" ++ hexEnc t.tenant ++ " exp=" ++
      (match t.expiry with | none => "none" | some e => toString e)
  | .reject st reason => toString st ++ " " ++ (if reason = "" then "-" else us reason) ++ " next=0"
  | .panic => "panic next=0"

def guardOn (auth registry cluster : Bool) (g : String) : Bool :=
  (g = Gin.authGuard && auth) || (g = "s.registry != nil" && registry) || (g = "clusterState != nil" && cluster)

def showRoutes (e : Gin.Engine) : String :=
  joinWith "," (sortStrings (e.routes.map fun r => r.method ++ ":" ++ r.path))

/-- run the chain abstractly: every handler other than the auth middleware calls `Next`;
the auth middleware decides.  `none` = aborted with the given outcome. -/
def throughAuth (st : St) (chain : List Gin.H) (r : Req) : Outcome ⊕ Option Token :=
  if chain.contains Gin.authHandler then
    match authorize (factsOf st) st.mt st.now r with
    | .accept t => .inr (some t)
    | o => .inl o
  else .inr none

/-- `:param` segments replaced by `x` -/
def concretePath (p : String) : String :=
  "/".intercalate ((Gin.segs p).map fun s => if Gin.startsWithChar ':' s ∨ Gin.startsWithChar '*' s then "x" else s)

def altSlash (p : String) : String :=
  if Gin.endsWithSlash p then Gin.dropTrailingSlash p else p ++ "/"

/-- the probes of a sweep: every registered route (sorted by `METHOD:path`), its
trailing-slash neighbour, the same path under another method; then unknown paths -/
def probesOf (e : Gin.Engine) : List (String × String) :=
  let rs := (e.routes.map fun r => (r.method ++ ":" ++ r.path, r)).mergeSort (fun a b => decide (a.1 ≤ b.1))
  (rs.flatMap fun p =>
    let m := p.2.method
    let cp := concretePath p.2.path
    [(m, cp), (m, altSlash cp), (if m = "GET" then "POST" else "GET", cp)]) ++
  [("GET", "/"), ("GET", "/no/such/path"), ("POST", "/no/such/path"), ("DELETE", "/_piko/v1/tcp/x"), ("HEAD", "/status")]

def showDeny : Outcome → String
  | .reject s reason => toString s ++ " " ++ (if reason = "" then "-" else us reason)
  | .panic => "panic -"
  | .accept _ => "200 -"

def confProxy (st : St) (res : RouteResult) (okStatus : String) : String :=
  match res with
  | .badRequest => "400 missing_endpoint_id sel=none stamp=-"
  | .notPermitted _ => "401 endpoint_not_permitted sel=none stamp=-"
  | .proceed _ routed _ =>
    if st.ups.contains routed then okStatus ++ " - sel=" ++ hexEnc routed ++ " stamp=" ++ hexEnc routed
    else "502 no_available_upstreams sel=" ++ hexEnc routed ++ " stamp=-"

def stepCore (st : St) : List String → St × String
  | "cfg" :: owner :: hm :: rs :: ec :: jw :: aud :: iss :: ddoe :: via =>
    match parseJwks jw with
    | none => (st, "bad-op")
    | some jwks =>
      let o := hx owner
      if via = ["load"] then
        let raw : RawCfg := { hmacSecret := b01 hm, rsaPEM := b01 rs, ecdsaPEM := b01 ec, jwksEndpoint := jwks,
                              audience := hx aud, issuer := hx iss, disableDisconnectOnExpiry := b01 ddoe }
        match raw.load with
        | none => (st, "load-error")
        | some c =>
          ({ st with cfgs := (o, c) :: st.cfgs.filter (fun p => p.1 ≠ o),
                     raws := (o, raw) :: st.raws.filter (fun p => p.1 ≠ o) }, "ok")
      else if via = [] ∨ via = ["lit"] then
        let c : Cfg := { hmac := b01 hm, rsa := b01 rs, ecdsa := b01 ec, jwks := jwks, audience := hx aud,
                         issuer := hx iss, disableDisconnectOnExpiry := b01 ddoe }
        ({ st with cfgs := (o, c) :: st.cfgs.filter (fun p => p.1 ≠ o),
                   raws := st.raws.filter (fun p => p.1 ≠ o) }, "ok")
      else (st, "bad-op")
  | ["mt", tenants] =>
    let ts := hexList tenants
    match st.cfgs.lookup "", ts.mapM (fun t => (st.cfgs.lookup t).map (fun c => (t, c))) with
    | some d, some tl => ({ st with mt := { dflt := d, tenants := tl }, noVerifier := false }, "ok")
    | _, _ => (st, "bad-op")
  | ["mt", tenants, "wire"] =>
    let ts := hexList tenants
    match st.raws.lookup "", ts.mapM (fun t => (st.raws.lookup t).map (fun c => (t, c))) with
    | some d, some tl =>
      (match wire d tl with
       | none => (st, "load-error")
       | some none => ({ st with mt := {}, noVerifier := true }, "ok none")
       | some (some m) => ({ st with mt := m, noVerifier := false }, "ok verifier"))
    | _, _ => (st, "bad-op")
  | ["tok", id, alg, kid, signer, tamper, shape, exp, nbf, aud, iss, eps] =>
    let alg' := hx alg
    match parseKid kid, parseSigner st alg' signer, parseOptInt exp, parseOptInt nbf with
    | some k, some sg, some e, some n =>
      let f : TokenFacts :=
        { wellFormed := shape = "ok", alg := alg', kid := k,
          signer := if tamper = "none" then sg else .other,
          -- every signature the harness produces for an ES* header is 64 bytes, except `nosig`
          sigLenOk := !(algFam alg' == .es) || (alg' == "ES256" && signer != "nosig"),
          exp := e, nbf := n, aud := claimList aud, iss := hx iss, endpoints := claimList eps }
      ({ st with toks := (tokName id, f) :: st.toks.filter (fun p => p.1 ≠ tokName id) }, "ok")
    | _, _, _, _ => (st, "bad-op")
  | ["req", x, a, tenant] =>
    match parseReq x a tenant with
    | none => (st, "bad-op")
    | some r =>
      let tag := if st.mt.tenants = [] then "auth " else "tenant "
      if st.noVerifier then (st, "auth no-verifier")
      else (st, tag ++ showOutcome (authorize (factsOf st) st.mt st.now r))
  | "srv" :: kind :: auth :: rest =>
    let (registry, cluster, keys) := match rest with
      | [r, c, k] => (b01 r, b01 c, hexList k)
      | _ => (false, false, [])
    let tbl := if kind = "proxy" then Gin.proxyTable
      else if kind = "upstream" then Gin.upstreamTable
      else if kind = "admin" then Gin.adminTableFor keys else none
    match tbl with
    | none => (st, "srv no-table")
    | some t =>
      let authOn := b01 auth && !st.noVerifier
      let e := Gin.build (Gin.enabled (guardOn authOn registry cluster) t)
      ({ st with srvs := (kind, (e, authOn)) :: st.srvs.filter (fun p => p.1 ≠ kind) },
        "srv routes " ++ showRoutes e ++ (if e.bad then " BAD" else ""))
  | ["hit", kind, method, path, x, a, tenant] =>
    match st.srvs.lookup kind, parseReq x a tenant with
    | some (e, _), some r =>
      match Gin.dispatch e method (hx path) with
      | .redirect code => (st, "hit redirect " ++ toString code)
      | .route rt _ =>
        (match throughAuth st rt.chain r with
         | .inl o => (st, "hit deny " ++ showDeny o)
         | .inr _ => (st, "hit pass"))
      | .noRoute chain =>
        (match throughAuth st chain r with
         | .inl o => (st, "hit deny " ++ showDeny o)
         | .inr _ => (st, "hit pass"))
    | _, _ => (st, "bad-op")
  | ["late", kind, method, path, x, a, tenant, dt] =>
    -- the same request now and again `dt` seconds after the case started: the middleware keeps no
    -- state, so the second answer is the decision at the later time (an expired token is refused
    -- however often it was accepted before)
    let hitAt (st : St) : Option String :=
      match st.srvs.lookup kind, parseReq x a tenant with
      | some (e, _), some r =>
        match Gin.dispatch e method (hx path) with
        | .redirect code => some ("redirect " ++ toString code)
        | .route rt _ =>
          (match throughAuth st rt.chain r with
           | .inl o => some ("deny " ++ showDeny o)
           | .inr _ => some "pass")
        | .noRoute chain =>
          (match throughAuth st chain r with
           | .inl o => some ("deny " ++ showDeny o)
           | .inr _ => some "pass")
      | _, _ => none
    match dt.toNat? with
    | none => (st, "bad-op")
    | some d =>
      let st' := { st with now := (d : Int) }
      match hitAt st, hitAt st, hitAt st' with
      | some h1, some h1', some h2 => (st', "late " ++ h1 ++ " | " ++ h1' ++ " | " ++ h2)
      | _, _, _ => (st, "bad-op")
  | ["fwd", kind, method, path, _node, x, a, tenant] =>
    -- `hit` with admin's `?forward=<node>` query: routing and the middleware do not look at it;
    -- an accepted request is then forwarded or handled locally ("pass" either way)
    match st.srvs.lookup kind, parseReq x a tenant with
    | some (e, _), some r =>
      match Gin.dispatch e method (hx path) with
      | .redirect code => (st, "hit redirect " ++ toString code)
      | .route rt _ =>
        (match throughAuth st rt.chain r with
         | .inl o => (st, "hit deny " ++ showDeny o)
         | .inr _ => (st, "hit pass"))
      | .noRoute chain =>
        (match throughAuth st chain r with
         | .inl o => (st, "hit deny " ++ showDeny o)
         | .inr _ => (st, "hit pass"))
    | _, _ => (st, "bad-op")
  | ["sweep", kind, x, a, tenant] =>
    match st.srvs.lookup kind, parseReq x a tenant with
    | some (e, _), some r =>
      let letters := (probesOf e).map fun p =>
        match Gin.dispatch e p.1 p.2 with
        | .redirect _ => "r"
        | .route rt _ => (match throughAuth st rt.chain r with | .inl (.panic) => "x" | .inl _ => "d" | .inr _ => "p")
        | .noRoute chain => (match throughAuth st chain r with | .inl (.panic) => "x" | .inl _ => "d" | .inr _ => "p")
      (st, "sweep " ++ String.join letters)
    | _, _ => (st, "bad-op")
  | ["up", eps] => ({ st with ups := hexList eps }, "ok")
  | ["http", _host, hostnp, isip, xep, x, a, tenant] =>
    match st.srvs.lookup "proxy", parseReq x a tenant with
    | some (e, _), some r =>
      -- `GET /` matches no route of the proxy: the no-route chain ends in proxyHTTPRoute
      (match throughAuth st e.allNoRoute r with
       | .inl o => (st, "conf " ++ showDeny o ++ " sel=none stamp=-")
       | .inr tok => (st, "conf " ++ confProxy st (proxyHTTPRoute tok (hx xep) (hx hostnp) (b01 isip)) "200"))
    | _, _ => (st, "bad-op")
  | ["tcp", _raw, path, x, a, tenant] =>
    match st.srvs.lookup "proxy", parseReq x a tenant with
    | some (e, _), some r =>
      (match Gin.dispatch e "GET" (hx path) with
       | .redirect code => (st, "conf " ++ toString code ++ " - sel=none stamp=-")
       | .route rt ps =>
         (match throughAuth st rt.chain r with
          | .inl o => (st, "conf " ++ showDeny o ++ " sel=none stamp=-")
          | .inr tok => (st, "conf " ++ confProxy st (proxyTCPRoute tok (ps.headD "")) "400"))
       | .noRoute chain =>
         (match throughAuth st chain r with
          | .inl o => (st, "conf " ++ showDeny o ++ " sel=none stamp=-")
          | .inr tok => (st, "conf " ++ confProxy st (proxyHTTPRoute tok "" "127.0.0.1" true) "200")))
    | _, _ => (st, "bad-op")
  | ["tcpx", _raw, path, _host, hostnp, isip, xep, x, a, tenant] =>
    -- `GET <path>` on the proxy port with an arbitrary Host and `x-piko-endpoint`: the TCP route
    -- takes its endpoint from the path parameter only; every other path is the no-route chain,
    -- which takes it from the header, else the Host (a parameter gin captured on a partial match
    -- is NOT an endpoint)
    match st.srvs.lookup "proxy", parseReq x a tenant with
    | some (e, _), some r =>
      (match Gin.dispatch e "GET" (hx path) with
       | .redirect code => (st, "conf " ++ toString code ++ " - sel=none stamp=-")
       | .route rt ps =>
         (match throughAuth st rt.chain r with
          | .inl o => (st, "conf " ++ showDeny o ++ " sel=none stamp=-")
          | .inr tok => (st, "conf " ++ confProxy st (proxyTCPRoute tok (ps.headD "")) "400"))
       | .noRoute chain =>
         (match throughAuth st chain r with
          | .inl o => (st, "conf " ++ showDeny o ++ " sel=none stamp=-")
          | .inr tok => (st, "conf " ++ confProxy st (proxyHTTPRoute tok (hx xep) (hx hostnp) (b01 isip)) "200")))
    | _, _ => (st, "bad-op")
  | ["reg", _raw, path, x, a, tenant] =>
    match st.srvs.lookup "upstream", parseReq x a tenant with
    | some (e, _), some r =>
      (match Gin.dispatch e "GET" (hx path) with
       | .redirect code => (st, "conf " ++ toString code ++ " - reg=none")
       | .route rt ps =>
         (match throughAuth st rt.chain r with
          | .inl o => (st, "conf " ++ showDeny o ++ " reg=none")
          | .inr tok =>
            (match upstreamRoute tok (ps.headD "") with
             | .proceed _ routed _ => (st, "conf 101 - reg=" ++ hexEnc routed)
             | .notPermitted _ => (st, "conf 401 endpoint_not_permitted reg=none")
             | .badRequest => (st, "conf 400 - reg=none")))
       | .noRoute chain =>
         (match throughAuth st chain r with
          | .inl o => (st, "conf " ++ showDeny o ++ " reg=none")
          | .inr _ => (st, "conf 404 - reg=none")))
    | _, _ => (st, "bad-op")
  | _ => (st, "bad-op")

/-- `httpf`/`tcpf` are `http`/`tcp` with a client-supplied `x-piko-forward: true` header: the
header is not an authority — the token's endpoint confinement is checked all the same -/
def step (st : St) : List String → St × String
  | "httpf" :: rest => stepCore st ("http" :: rest)
  | "tcpf" :: rest => stepCore st ("tcp" :: rest)
  | ws => stepCore st ws

def engine : Engine := { σ := St, init := default, step := step }

end Piko.Driver.AuthEngine
