import PikoModel.Gossip.Codec
import Driver.Util
/-!
# Engine `codec`: `pkg/gossip/protocol.go` encoders/decoders, byte exact (C13)
ops (strings hex-encoded, `-` = empty):
  encdigest <nodeid> <addr> <request 0|1> <max> <id>,<addr>,<version>,<left 0|1> ...
  encdelta  <nodeid> <addr> <entries> <max> <id>,<addr>[/<key>,<value>,<version>,<internal>,<deleted>]* ...
      → `pkt=<hex of the packet> dec=<decoded value of that packet>` or `err` (header > max)
  decdigest <hex> | decdelta <hex>     → `dec=<decoded value>` (canonical packets only)
  local <max> <k>,<v>.. | pkt <hex> | conn <hex> | pipe <hex> | rep <kind> <prefix> <unit> <n> <suffix> | scale <family> <n>
                                       malformed stream for the real handlers: implementation
                                       only, both sides print `skip`
-/
namespace Piko.Driver.CodecEngine
open Piko Piko.Gossip Piko.Gossip.Codec

def hexPkt (bs : Bytes) : String := if bs.isEmpty then "-" else hexOfBytes bs

def showErr : DecErr → String
  | .read => "err:read" | .badType => "err:type" | .badVersion => "err:version"
  | .decode => "err:decode"

def showDigestEntry (e : DigestEntry) : String :=
  hexEnc e.id ++ "," ++ hexEnc e.addr ++ "," ++ toString e.version ++ "," ++ boolStr e.left

def showEntry (e : Entry) : String :=
  hexEnc e.key ++ "," ++ hexEnc e.value ++ "," ++ toString e.version ++ "," ++
    boolStr e.internal ++ "," ++ boolStr e.deleted

def showDeltaEntry (de : DeltaEntry) : String :=
  joinWith "/" ((hexEnc de.id ++ "," ++ hexEnc de.addr) :: de.entries.map showEntry)

def showDigestDec : Except DecErr (DigestHeader × Digest) → String
  | .error e => showErr e
  | .ok (h, d) =>
    "H(" ++ hexEnc h.nodeId ++ "," ++ hexEnc h.addr ++ "," ++ boolStr h.request ++ ")[" ++
      joinWith ";" (d.map showDigestEntry) ++ "]"

def showDeltaDec : Except DecErr (DeltaHeader × Delta) → String
  | .error e => showErr e
  | .ok (h, d) =>
    "H(" ++ hexEnc h.nodeId ++ "," ++ hexEnc h.addr ++ "," ++ toString h.entries ++ ")[" ++
      joinWith ";" (d.map showDeltaEntry) ++ "]"

def parseDigestEntryTok (t : String) : Option DigestEntry :=
  match t.splitOn "," with
  | [id, addr, v, l] =>
    match v.toNat? with
    | some ver => some { id := hx id, addr := hx addr, version := ver, left := l = "1" }
    | none => none
  | _ => none

def parseEntryTok (t : String) : Option Entry :=
  match t.splitOn "," with
  | [k, v, ver, i, d] =>
    match ver.toNat? with
    | some n => some { key := hx k, value := hx v, version := n, internal := i = "1", deleted := d = "1" }
    | none => none
  | _ => none

def parseNodeTok (t : String) : Option DeltaEntry :=
  match t.splitOn "/" with
  | hd :: es =>
    match hd.splitOn ",", es.mapM parseEntryTok with
    | [id, addr], some ents => some { id := hx id, addr := hx addr, entries := ents }
    | _, _ => none
  | [] => none

def step (_ : Unit) : List String → Unit × String
  | "encdigest" :: id :: addr :: req :: max :: toks =>
    match max.toNat?, toks.mapM parseDigestEntryTok with
    | some m, some d =>
      match encodeDigest { nodeId := hx id, addr := hx addr, request := req = "1" } d m with
      | none => ((), "err")
      | some bs => ((), "pkt=" ++ hexPkt bs ++ " dec=" ++ showDigestDec (decodeDigest bs))
    | _, _ => ((), "bad-op")
  | "encdelta" :: id :: addr :: ents :: max :: toks =>
    match ents.toNat?, max.toNat?, toks.mapM parseNodeTok with
    | some n, some m, some d =>
      match encodeDelta { nodeId := hx id, addr := hx addr, entries := n } d m with
      | none => ((), "err")
      | some bs => ((), "pkt=" ++ hexPkt bs ++ " dec=" ++ showDeltaDec (decodeDelta bs))
    | _, _, _ => ((), "bad-op")
  | ["decdigest", h] =>
    match bytesOfHex h with
    | some bs => ((), "dec=" ++ showDigestDec (decodeDigest bs))
    | none => ((), "bad-op")
  | ["decdelta", h] =>
    match bytesOfHex h with
    | some bs => ((), "dec=" ++ showDeltaDec (decodeDelta bs))
    | none => ((), "bad-op")
  | "pkt" :: _ => ((), "skip")
  | "conn" :: _ => ((), "skip")
  | "pipe" :: _ => ((), "skip")
  | "rep" :: _ => ((), "skip")
  | "scale" :: _ => ((), "skip")
  | "local" :: _ => ((), "skip")
  | _ => ((), "bad-op")

def engine : Engine := { σ := Unit, init := (), step := step }

end Piko.Driver.CodecEngine
