import PikoModel.Cluster.Syncer
import Driver.Util
/-!
# Engine `syncer`: the syncer's watcher callbacks on `(pendingNodes, cluster.State)` (C04)
ops:
  init <id> <proxy> <admin>        NewState + newSyncer
  join|leave|reach|unreach|exp <id>     OnJoin / OnLeave / OnReachable / OnUnreachable / OnExpired
  up <id> <key> <value>            OnUpsertKey
  del <id> <key>                   OnDeleteKey
  ladd <ep> | lrm <ep>             AddLocalEndpoint / RemoveLocalEndpoint on the same cluster.State
  lookup <ep>                      LookupEndpoint  → `lookup {a|b}` (any candidate) or `lookup none`
  g.*                              real-gossip tier of the harness; the model prints `skip`
output after every op except lookup: the routing table (all rows sorted by id) and the pending nodes.
-/
namespace Piko.Driver.SyncerEngine
open Piko Piko.Cluster

def showStatus (s : Status) : String := if s = .unset then "-" else s.toString

def showEps (m : AMap String Int) : String :=
  "[" ++ joinWith "," (sortStrings (m.map fun p => hexEnc p.1 ++ ":" ++ toString p.2)) ++ "]"

def showNode (n : Node) : String :=
  hexEnc n.id ++ " " ++ showStatus n.status ++ " " ++ hexEnc n.proxyAddr ++ " " ++ hexEnc n.adminAddr ++
    " " ++ showEps n.endpoints

def showNodes (ns : List Node) : String :=
  joinWith ";" (sortStrings (ns.map showNode))

def showSync (s : Sync) : String :=
  "T(" ++ showNodes s.table.nodes.vals ++ ") P(" ++ showNodes s.pending.vals ++ ")"

def withSync (s : Option Sync) (f : Sync → Sync) : Option Sync × String :=
  match s with
  | none => (none, "err no-init")
  | some y => let y' := f y; (some y', showSync y')

def step (s : Option Sync) : List String → Option Sync × String
  | ["init", id, p, a] =>
    let y := Sync.new { id := hx id, proxyAddr := hx p, adminAddr := hx a }
    (some y, showSync y)
  | ["join", id] => withSync s (syncStep · (.join (hx id)))
  | ["leave", id] => withSync s (syncStep · (.leave (hx id)))
  | ["reach", id] => withSync s (syncStep · (.reachable (hx id)))
  | ["unreach", id] => withSync s (syncStep · (.unreachable (hx id)))
  | ["exp", id] => withSync s (syncStep · (.expired (hx id)))
  | ["up", id, k, v] => withSync s (syncStep · (.upsert (hx id) (hx k) (hx v)))
  | ["del", id, k] => withSync s (syncStep · (.delete (hx id) (hx k)))
  | ["ladd", e] => withSync s (fun y => { y with table := y.table.addLocalEndpoint (hx e) })
  | ["lrm", e] => withSync s (fun y => { y with table := (y.table.removeLocalEndpoint (hx e)).1 })
  | ["lookup", e] =>
    match s with
    | none => (none, "err no-init")
    | some y =>
      match y.table.lookupCandidates (hx e) with
      | [] => (s, "lookup none")
      | cs => (s, "lookup {" ++ joinWith "|" (sortStrings (cs.map (hexEnc ·.id))) ++ "}")
  | op :: _ => if op.startsWith "g." then (s, "skip") else (s, "bad-op")
  | [] => (s, "bad-op")

def engine : Engine := { σ := Option Sync, init := none, step := step }

end Piko.Driver.SyncerEngine
