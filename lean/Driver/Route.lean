import PikoModel.Proxy.Route
import Driver.Util
/-!
# Engine `route`: N proxy servers with their own registries and arbitrary routing views (C06, C01)
ops (strings hex-encoded, `-` empty; node index `i` is node id `n<i>`, listening on the
symbolic address `a<i>`; `dead` is an address nobody listens on):
  cfg <i> <key>=<value> ...                   (before `nodes`) legal proxy configuration of node i: access log on/off and level,
                                              request/response header allow/block lists, timeouts, header limit, auth.
                                              The model ignores it entirely: none of it may influence routing.  -> ok
  nodes <N>                                   N fresh nodes (NewState + NewLoadBalancedManager + proxy.NewServer)
  up <i> <uid> <ep> | rmup <i> <uid> <ep>     AddConn / RemoveConn of fake upstream uid at node i   -> ok <Endpoints()>
  view <i> <id> <status> <addr> <ep>=<n> ...  node i's cluster.State.AddNode(row about <id>)        -> ok
  vstat <i> <id> <status> | vep <i> <id> <ep> <n> | vrm <i> <id> <ep> | vdel <i> <id>
                                              UpdateRemoteStatus / UpdateRemoteEndpoint / RemoveRemoteEndpoint / RemoveNode -> ok <0|1>
  lep <i> <ep> | rmlep <i> <ep>               node i's cluster.State.AddLocalEndpoint / RemoveLocalEndpoint called directly
                                              (the local row no longer matches the registry)          -> ok
  gone <i> <uid> <ep>                         from now on that fake upstream's Dial() answers upstream.ErrGone (it stays
                                              registered until the proxy dials it and removes it)   -> ok
  resync                                      every node: RemoveConn all upstreams, AddConn those that are not gone
                                              again in registration order (resets the round-robin cursors and makes
                                              the registries independent of which candidate a request chose) -> ok
  req <i> <http|tcp> <host> <x-piko-endpoint|~> <x-piko-forward|~> <connraw,..|-> <conn,..|-> <pathEp|-> <split|!> <ip>
        client request entering at node i.  <connraw> are the raw `Connection` header lines sent
        (implementation side only); <conn> are the canonical names of the options they list
        (textproto.TrimString + CanonicalMIMEHeaderKey, computed by the harness); <split> is
        net.SplitHostPort(host) (`!` = error), <ip> is net.ParseIP(host part) != nil.
        -> res s=<ok|400|502|..>;r=<reason>;h=<hops>;c=<accepted connections per node>;via=<from>to,..>;at=<node>;u=<uid>;e=<ep>
        the model prints `{alt|alt}` over the rows `LookupEndpoint` may pick
  epid <host> <x-piko-endpoint|~> <split|!> <ip>       EndpointIDFromRequest -> epid <endpoint>
-/
namespace Piko.Driver.RouteEngine
open Piko Piko.Upstream Piko.Proxy

structure St where
  n : Nat := 0
  w : World := { nodes := [], listen := [] }
  /-- registered fake upstreams in registration order: (node index, uid, endpoint) -/
  ups : List (Nat × Nat × String) := []

instance : Inhabited St := ⟨{}⟩

def nid (i : Nat) : String := "n" ++ toString i
def addr (i : Nat) : String := "a" ++ toString i

def parseStatus : String → Cluster.Status
  | "active" => .active | "unreachable" => .unreachable | "left" => .left | _ => .unset

def parseEp (s : String) : Option (String × Int) :=
  match s.splitOn "=" with
  | [e, n] => match n.toInt? with
    | some k => some (hx e, k)
    | none => none
  | _ => none

def optTok (s : String) : Option String := if s = "~" then none else some (hx s)

def listTok (s : String) : List String := if s = "-" then [] else (s.splitOn ",").map hx

def showCounts (m : List (String × String)) : String :=
  "[" ++ joinWith "," (sortStrings (m.map fun p => hexEnc p.1 ++ ":" ++ p.2)) ++ "]"

def mkWorld (n : Nat) : World :=
  { nodes := (List.range n).map (fun i => (nid i, Mgr.init (nid i) (addr i) "")),
    listen := (List.range n).map (fun i => (addr i, nid i)) }

def withNode (s : St) (i : Nat) (f : Mgr → Mgr × String) : St × String :=
  match s.w.nodes.find (nid i) with
  | none => (s, "bad-node")
  | some m =>
    let (m', out) := f m
    ({ s with w := { s.w with nodes := s.w.nodes.insert (nid i) m' } }, out)

def withView (s : St) (i : Nat) (f : Cluster.State → Cluster.State × Bool) : St × String :=
  withNode s i fun m =>
    let (c, r) := f m.cluster
    ({ m with cluster := c }, "ok " ++ boolStr r)

def showEps (m : Mgr) : String := showCounts (m.endpoints.map fun p => (p.1, toString p.2))

def isGoneUp (s : St) (p : Nat × Nat × String) : Bool := s.w.isGone (nid p.1) p.2.2 p.2.1

def resync (s : St) : St :=
  let keep := s.ups.filter (fun p => !isGoneUp s p)
  let rm := s.ups.foldl (fun (w : World) (p : Nat × Nat × String) =>
    match w.nodes.find (nid p.1) with
    | none => w
    | some m => { w with nodes := w.nodes.insert (nid p.1) (m.removeConn { id := p.2.1, ep := p.2.2 }) }) s.w
  let ad := keep.foldl (fun (w : World) (p : Nat × Nat × String) =>
    match w.nodes.find (nid p.1) with
    | none => w
    | some m => { w with nodes := w.nodes.insert (nid p.1) (m.addConn { id := p.2.1, ep := p.2.2 }) }) rm
  { s with w := ad, ups := keep }

def showOutcome (n : Nat) (r : Result) : String :=
  let st := match r.outcome with
    | .badRequest _ => "s=400;r=noep"
    | .served _ _ _ => "s=ok;r=-"
    | .noUpstream _ => "s=502;r=none"
    | .gone _ _ _ => "s=502;r=unreach"
    | .unreachable => "s=502;r=unreach"
    | .fault _ => "s=500;r=fault"
    | .outOfFuel => "s=loop;r=-"
  let counts := (List.range n).map (fun i => toString (r.visited.count (nid i)))
  let via := if r.via.isEmpty then "-" else joinWith "," (sortStrings (r.via.map fun p => p.1 ++ ">" ++ p.2))
  let tail := match r.outcome with
    | .served k e u => ";at=" ++ k ++ ";u=" ++ toString u ++ ";e=" ++ hexEnc e
    | _ => ";at=-;u=-;e=-"
  st ++ ";h=" ++ toString r.hops ++ ";c=" ++ joinWith "." counts ++ ";via=" ++ via ++ tail

def dedup (xs : List String) : List String :=
  xs.foldl (fun acc x => if acc.contains x then acc else acc ++ [x]) []

/-- the number of rows of the largest view: enough indices to reach every candidate -/
def maxRows (w : World) : Nat := w.nodes.foldl (fun k p => max k p.2.cluster.nodes.length) 1

def mkLib (split ip : String) : Lib :=
  { splitHostPort := fun _ => if split = "!" then none else some (hx split),
    parseIP := fun _ => ip = "1" }

def step (s : St) : List String → St × String
  | "cfg" :: _ => (s, "ok")
  | ["nodes", n] =>
    match n.toNat? with
    | some k => ({ n := k, w := mkWorld k, ups := [] }, "ok")
    | none => (s, "bad-op")
  | ["up", i, u, e] =>
    match i.toNat?, u.toNat? with
    | some i, some uid =>
      let (s', out) := withNode s i fun m => let m' := m.addConn { id := uid, ep := hx e }; (m', "ok " ++ showEps m')
      ({ s' with ups := s'.ups ++ [(i, uid, hx e)] }, out)
    | _, _ => (s, "bad-op")
  | ["rmup", i, u, e] =>
    match i.toNat?, u.toNat? with
    | some i, some uid =>
      let (s', out) := withNode s i fun m => let m' := m.removeConn { id := uid, ep := hx e }; (m', "ok " ++ showEps m')
      ({ s' with ups := s'.ups.erase (i, uid, hx e) }, out)
    | _, _ => (s, "bad-op")
  | "view" :: i :: id :: st :: a :: eps =>
    match i.toNat? with
    | some i =>
      withNode s i fun m =>
        let row : Cluster.Node :=
          { id := hx id, status := parseStatus st, proxyAddr := a, endpoints := eps.filterMap parseEp }
        ({ m with cluster := m.cluster.addNode row }, "ok")
    | none => (s, "bad-op")
  | ["vstat", i, id, st] =>
    match i.toNat? with
    | some i => withView s i fun c => c.updateRemoteStatus (hx id) (parseStatus st)
    | none => (s, "bad-op")
  | ["vep", i, id, e, n] =>
    match i.toNat?, n.toInt? with
    | some i, some k => withView s i fun c => c.updateRemoteEndpoint (hx id) (hx e) k
    | _, _ => (s, "bad-op")
  | ["vrm", i, id, e] =>
    match i.toNat? with
    | some i => withView s i fun c => c.removeRemoteEndpoint (hx id) (hx e)
    | none => (s, "bad-op")
  | ["vdel", i, id] =>
    match i.toNat? with
    | some i => withView s i fun c => c.removeNode (hx id)
    | none => (s, "bad-op")
  | ["lep", i, e] =>
    match i.toNat? with
    | some i => withNode s i fun m => ({ m with cluster := m.cluster.addLocalEndpoint (hx e) }, "ok")
    | none => (s, "bad-op")
  | ["rmlep", i, e] =>
    match i.toNat? with
    | some i => withNode s i fun m => ({ m with cluster := (m.cluster.removeLocalEndpoint (hx e)).1 }, "ok")
    | none => (s, "bad-op")
  | ["gone", i, u, e] =>
    match i.toNat?, u.toNat? with
    | some i, some uid => ({ s with w := { s.w with gone := (nid i, hx e, uid) :: s.w.gone } }, "ok")
    | _, _ => (s, "bad-op")
  | ["resync"] => (resync s, "ok")
  | ["req", i, kind, host, eph, fwd, _connraw, conn, pathEp, split, ip] =>
    match i.toNat? with
    | some i =>
      let r : Req :=
        { host := hx host, epHeader := optTok eph, fwdHeader := optTok fwd, conn := listTok conn,
          kind := if kind = "tcp" then .tcp (hx pathEp) else .http }
      let lib := mkLib split ip
      let alts := (List.range (maxRows s.w)).map fun c => route lib s.w (nid i) r [c, c]
      let outs := sortStrings (dedup (alts.map fun a => showOutcome s.n a.1))
      let w' := match alts with
        | a :: _ => a.2
        | [] => s.w
      -- an upstream that answered ErrGone was removed by the proxy: it is no longer registered
      let ups' := match alts with
        | a :: _ => match a.1.outcome with
          | .gone k e u => s.ups.filter (fun p => !(nid p.1 == k && p.2.1 == u && p.2.2 == e))
          | _ => s.ups
        | [] => s.ups
      let out := match outs with
        | [o] => "res " ++ o
        | os => "res {" ++ joinWith "|" os ++ "}"
      ({ s with w := w', ups := ups' }, out)
    | none => (s, "bad-op")
  | ["epid", host, eph, split, ip] =>
    (s, "epid " ++ hexEnc (endpointIDFromRequest (mkLib split ip) (hx host) (optTok eph)))
  | _ => (s, "bad-op")

def engine : Engine := { σ := St, init := default, step := step }

end Piko.Driver.RouteEngine
