import PikoModel.WS.Conn
import Driver.Util
/-!
# Engine `ws`: `pkg/websocket.Conn` Read/Write/Close over a gorilla connection pair (C07)

Two sides `a` (dialing client) and `b` (upgraded server side), each a real `pkg/websocket.Conn`.
ops:
  open <rbuf> <wbuf>          new connection pair (gorilla buffer sizes; the model ignores them)
  wmsg <side> <hex>           one `Conn.Write`                          → `w <n> <class>`
  rawmsg <side> <type> <hex>  raw gorilla message text|binary|ping|pong|close to the peer → `ok`
  read <side> <buf>           one `Conn.Read` with `len b = buf`         → `r <hex> <class>`
  readn <side> <buf> <total>  `Read` in a loop until `total` bytes       → `rn <hex> <class>`
  rawread <side>              one raw gorilla `ReadMessage`              → `raw <type> <hex>`
  close <side>                `Conn.Close`                               → `ok`
  t.*                         tunnel tier: Go-side oracle only           → `skip`

`read` is predicted with the inner reader returning `min(buf, rest)` (`Choice.full`): the
harness sizes gorilla's buffers and delays reads until the written frames have arrived, so
that the real reader does exactly that; the theorems of `Props/C07` cover every choice.
`readn` is independent of the choice (`C07_read_prefix`).
-/
namespace Piko.Driver.WSEngine
open Piko Piko.WS

structure Side where
  rx : Conn := {}
  lclosed : Bool := false   -- `Close()` was called on this side
  csent : Bool := false     -- this side sent a raw close frame: no further ops on it
deriving Inhabited

structure St where
  a : Side := {}
  b : Side := {}
  opened : Bool := false
  dead : Bool := false
deriving Inhabited

def St.get (s : St) (x : String) : Side := if x = "a" then s.a else s.b
def St.peer (s : St) (x : String) : Side := if x = "a" then s.b else s.a
def St.set (s : St) (x : String) (v : Side) : St := if x = "a" then { s with a := v } else { s with b := v }
def St.setPeer (s : St) (x : String) (v : Side) : St := if x = "a" then { s with b := v } else { s with a := v }

def isSide (x : String) : Bool := x = "a" || x = "b"

def errClass : Err → String
  | .closed => "closed"
  | .badType ty => "badtype:" ++ toString ty
  | .other => "opclosed"

def hexB (bs : Bytes) : String := if bs.isEmpty then "-" else hexOfBytes bs

/-- `readn`: `Read(b[:min(buf, total-got)])` until `total` bytes or an error; the chunks are
collected in reverse -/
def readN (c : Conn) (buf total : Nat) : Nat → Nat → List Bytes → List Bytes × String × Conn
  | 0, _, acc => (acc, "fuel", c)
  | fuel + 1, got, acc =>
    if got ≥ total then (acc, "ok", c) else
    let r := read c (min buf (total - got)) Choice.full
    match r.1 with
    | .data bs => readN r.2 buf total fuel (got + bs.length) (bs :: acc)
    | .err e => (acc, errClass e, r.2)
    | .zero => (acc, "zero", r.2)
    | .block => (acc, "block", r.2)

def msgType : String → Option Nat
  | "text" => some 1 | "binary" => some 2 | _ => none

def step (s : St) : List String → St × String
  | ws =>
    match ws with
    | t :: _ =>
      if t.startsWith "t." then (s, "skip")
      else if s.dead then (s, "dead")
      else match ws with
      | ["open", _, _] => ({ opened := true }, "ok")
      | ["wmsg", x, h] =>
        if !isSide x || !s.opened then (s, "bad-op") else
        let me := s.get x; let pr := s.peer x
        match bytesOfHex h with
        | none => (s, "bad-op")
        | some p =>
          if me.csent || pr.lclosed then (s, "bad-op")
          else if me.lclosed then (s, "w 0 opclosed")
          else if me.rx.readErr = some .closed then (s, "w 0 other")
          else
            let r := write pr.rx p
            (s.setPeer x { pr with rx := r.2 }, "w " ++ toString r.1 ++ " ok")
      | ["rawmsg", x, ty, h] =>
        if !isSide x || !s.opened then (s, "bad-op") else
        let me := s.get x; let pr := s.peer x
        match bytesOfHex h with
        | none => (s, "bad-op")
        | some p =>
          if me.csent || pr.lclosed || me.lclosed || me.rx.readErr = some .closed then (s, "bad-op")
          else match ty with
          | "ping" | "pong" => (s, "ok")   -- control frames never surface from NextReader
          | "close" =>
            let s := s.setPeer x { pr with rx := pr.rx.arrive .close }
            (s.set x { me with csent := true }, "ok")
          | _ => match msgType ty with
            | some t => (s.setPeer x { pr with rx := pr.rx.arrive (.msg t p true) }, "ok")
            | none => (s, "bad-op")
      | ["read", x, b] =>
        if !isSide x || !s.opened then (s, "bad-op") else
        let me := s.get x
        match b.toNat? with
        | none => (s, "bad-op")
        | some buf =>
          if me.csent then (s, "bad-op") else
          let r := read me.rx buf Choice.full
          let s' := s.set x { me with rx := r.2 }
          match r.1 with
          | .data bs => (s', "r " ++ hexB bs ++ " ok")
          | .zero => (s', "r - zero")
          | .err e => (s', "r - " ++ errClass e)
          | .block => ({ s' with dead := true }, "r - block")
      | ["readn", x, b, t] =>
        if !isSide x || !s.opened then (s, "bad-op") else
        let me := s.get x
        match b.toNat?, t.toNat? with
        | some buf, some total =>
          if me.csent || buf = 0 then (s, "bad-op") else
          let (acc, cls, c') := readN me.rx buf total (total + 1) 0 []
          let s' := s.set x { me with rx := c' }
          ({ s' with dead := cls = "block" }, "rn " ++ hexB acc.reverse.flatten ++ " " ++ cls)
        | _, _ => (s, "bad-op")
      | ["rawread", x] =>
        if !isSide x || !s.opened then (s, "bad-op") else
        let me := s.get x
        if me.csent then (s, "bad-op") else
        match me.rx.reader with
        | some (_ :: _, _) => (s, "bad-op")
        | some ([], false) => (s, "bad-op")
        | _ =>
          match me.rx.readErr with
          | some .closed => (s, "raw - closeerr")
          | some e => (s, "raw - " ++ errClass e)
          | none =>
            match me.rx.inq with
            | [] => ({ s with dead := true }, "raw - block")
            | .msg ty p true :: q =>
              (s.set x { me with rx := { reader := none, inq := q } }, "raw " ++ toString ty ++ " " ++ hexB p)
            | .msg _ _ false :: _ => (s, "bad-op")
            | .close :: q =>
              (s.set x { me with rx := { reader := none, inq := q, readErr := some .closed } }, "raw - closeerr")
            | .fail :: q =>
              (s.set x { me with rx := { reader := none, inq := q, readErr := some .other } }, "raw - opclosed")
      | ["close", x] =>
        if !isSide x || !s.opened then (s, "bad-op") else
        let me := s.get x; let pr := s.peer x
        if me.lclosed then (s, "ok") else
        let s := s.set x { me with rx := me.rx.closeLocal, lclosed := true }
        (s.setPeer x { pr with rx := pr.rx.arrive .close }, "ok")
      | _ => (s, "bad-op")
    | [] => (s, "bad-op")

def engine : Engine := { σ := St, init := default, step := step }

end Piko.Driver.WSEngine
