import PikoModel.Upstream.Rebalance
import Driver.Util
/-!
# Engine `rebalance`: `upstream.Server.Rebalance` over a real `cluster.State` (C19)
ops (strings hex-encoded):
  init <id>                              cluster.NewState(local node <id>)
  node <id> <status> <ep>=<n> ...        AddNode
  status <id> <status>                   UpdateRemoteStatus
  ep <id> <ep> <n> | rmep <id> <ep>      UpdateRemoteEndpoint / RemoveRemoteEndpoint
  rmnode <id>                            RemoveNode
  lep <ep> | rmlep <ep>                  AddLocalEndpoint / RemoveLocalEndpoint
      each prints  <result 0|1> nodes=<len(Nodes())> avg=<AvgConns()|panic>
  cfg <thrNum> <thrDen> <rateNum> <rateDen> <minConns>    upstream.NewServer with this RebalanceConfig
  open <n>                               make the number of open sessions n
  rebalance <x|~>                        Server.Rebalance()         -> closed <k> open <n>
  tick <x|~>                             one iteration of the server's rebalance loop (guarded)
      `~` = the float computation is not guaranteed to equal the exact one for this input:
      both sides print `closed ~ open ~` (the Go side only runs its oracle) and the next op
      is an `open <n>` that re-synchronises the count
  guard                                  the condition under which server.go starts the loop
-/
namespace Piko.Driver.RebalanceEngine
open Piko Piko.Rebalance

structure St where
  cs : Cluster.State := Cluster.State.new { id := "" }
  cfg : Config := default
  hasCfg : Bool := false
  open_ : Nat := 0

instance : Inhabited St := ⟨{}⟩

def parseStatus : String → Option Cluster.Status
  | "active" => some .active | "unreachable" => some .unreachable | "left" => some .left
  | "unset" => some .unset | _ => none

def parseEp (s : String) : Option (String × Int) :=
  match s.splitOn "=" with
  | [e, n] => match n.toInt? with
    | some k => some (hx e, k)
    | none => none
  | _ => none

def showAvg : Option Int → String
  | some a => toString a
  | none => "panic"

def showTable (r : Bool) (cs : Cluster.State) : String :=
  boolStr r ++ " nodes=" ++ toString (nodesKnown cs) ++ " avg=" ++ showAvg cs.avgConns

def cop (s : St) (op : COp) : St × String :=
  let (cs, r) := applyCOp s.cs op
  ({ s with cs := cs }, showTable r cs)

/-- the guard of `startUpstreamServer`, as go/printer prints it -/
def guardText : String := "s.conf.Upstream.Rebalance.Threshold != 0"

def finish (s : St) (mode : String) (k : Nat) : St × String :=
  if mode = "~" then ({ s with open_ := 0 }, "closed ~ open ~")
  else
    let o := s.open_ - k
    ({ s with open_ := o }, "closed " ++ toString k ++ " open " ++ toString o)

def step (s : St) : List String → St × String
  | ["init", id] =>
    let cs := Cluster.State.new { id := hx id }
    ({ cs := cs }, showTable true cs)
  | "node" :: id :: st :: eps =>
    match parseStatus st with
    | some status =>
      -- a Go map literal with a repeated key keeps the last value: insert in order
      let m : AMap String Int := (eps.filterMap parseEp).foldl (fun m p => m.insert p.1 p.2) []
      cop s (.addNode { id := hx id, status := status, endpoints := m })
    | none => (s, "bad-op")
  | ["status", id, st] =>
    match parseStatus st with
    | some status => cop s (.updateRemoteStatus (hx id) status)
    | none => (s, "bad-op")
  | ["ep", id, e, n] =>
    match n.toInt? with
    | some k => cop s (.updateRemoteEndpoint (hx id) (hx e) k)
    | none => (s, "bad-op")
  | ["rmep", id, e] => cop s (.removeRemoteEndpoint (hx id) (hx e))
  | ["rmnode", id] => cop s (.removeNode (hx id))
  | ["lep", e] => cop s (.addLocalEndpoint (hx e))
  | ["rmlep", e] => cop s (.removeLocalEndpoint (hx e))
  | ["cfg", tn, td, rn, rd, mn] =>
    match tn.toNat?, td.toNat?, rn.toNat?, rd.toNat?, mn.toNat? with
    | some tn, some td, some rn, some rd, some mn =>
      let c : Config := { thrNum := tn, thrDen := td, rateNum := rn, rateDen := rd, minConns := mn }
      if decide c.WF then ({ s with cfg := c, hasCfg := true }, "ok") else (s, "bad-op")
    | _, _, _, _, _ => (s, "bad-op")
  | ["open", n] =>
    match n.toNat? with
    | some k => ({ s with open_ := k }, "open " ++ toString k)
    | none => (s, "bad-op")
  | ["busy", k] =>
    -- k of the open sessions carry a proxied connection: no input of the rebalance decision
    match k.toNat? with
    | some n => if n ≤ s.open_ then (s, "busy " ++ toString n) else (s, "bad-op")
    | none => (s, "bad-op")
  | ["rebalance", mode] =>
    if !s.hasCfg then (s, "bad-op") else
    match serverRebalance s.cfg s.cs s.open_ with
    | .panicDivZero => (s, "panic")
    | d => finish s mode (d.closed s.open_)
  | ["tick", mode] =>
    if !s.hasCfg then (s, "bad-op") else
    match serverTick s.cfg s.cs s.open_ with
    | some .panicDivZero => (s, "panic")
    | d => finish s mode (closedOfTick d s.open_)
  | ["guard"] => (s, "guard " ++ hexEnc guardText)
  | _ => (s, "bad-op")

def engine : Engine := { σ := St, init := default, step := step }

end Piko.Driver.RebalanceEngine
