import PikoModel.Node.Backoff
import Driver.Util
/-!
# Engine `backoff`: `pkg/backoff`, `client.Upstream.connect` (C18)

Every op line is self-contained (durations are decimal nanoseconds unless said otherwise):

  call <retries> <min> <max> <attempts> <last> <seed> <w>
      one `Backoff()` call in exactly that state; `<w>` is the wait the real code produced with
      the global math/rand source seeded with `<seed>` (written by the generator, which runs the
      real code); the model answers `Backoff.step s w`:
        call retry w=<w> attempts=<a'> last=<l'> | call abort attempts=<a> last=<l> |
        call out-of-range lo=<lo> hi=<hi>          (the real code never printed the last one)
  runs <retries> <min> <max> <calls> <seed>
      `New(retries, min, max)` and `<calls>` calls: `runs granted=<g> aborted=<a> attempts=<g>`
      (the number of grants does not depend on the jitter)
  probe <retries> <min> <max> <attempts> <last> <seed>
      outside the exact domain of the model (`max > 2^52`): oracle of the harness only, `probe ok`
  connect <minMs> <maxMs> <entry>… [cancel-at=<k> | cancel-after=<k>]
      `Upstream.connect` with Min/MaxReconnectBackoff in milliseconds (0 = default) against a
      server that answers the k-th dial with `<entry>`: `ok` (upgrade), `status:<c>` /
      `statusj:<c>` (HTTP status, plain / JSON error body), `refuse` (closed without a response).
      `cancel-at=k`: the context is cancelled when dial k returns (`ctxErr`); `cancel-after=k`:
      it is cancelled during the wait that follows dial k (`cancelInWait`).
        connect result=<connected|perm:<c>|ctx|still-retrying> dials=<n> waits=<m>
-/
namespace Piko.Driver.BackoffEngine
open Piko Piko.Backoff

def showCall (s : St) (w : Nat) : String :=
  match step s w with
  | .retry w' s' => s!"call retry w={w'} attempts={s'.attempts} last={s'.last}"
  | .abort => s!"call abort attempts={s.attempts} last={s.last}"
  | .outOfRange lo hi => s!"call out-of-range lo={lo} hi={hi}"

/-- `calls` calls, each taking the un-jittered wait; returns (granted, aborted, final state) -/
def runCalls : Nat → St → Nat → Nat → Nat × Nat × St
  | 0, s, g, a => (g, a, s)
  | k + 1, s, g, a =>
    match step s (base s) with
    | .retry _ s' => runCalls k s' (g + 1) a
    | _ => runCalls k s g (a + 1)

def parseEntry (t : String) : Option Dial :=
  if t = "ok" then some .ok
  else if t = "refuse" then some .noResponse
  else if t.startsWith "statusj:" then (t.drop 8).toNat?.map Dial.status
  else if t.startsWith "status:" then (t.drop 7).toNat?.map Dial.status
  else none

structure Script where
  dials : List Dial := []
  cancelAt : Nat := 0
  cancelAfter : Nat := 0
  bad : Bool := false

def parseScript : List String → Script → Script
  | [], sc => { sc with dials := sc.dials.reverse }
  | t :: ts, sc =>
    if t.startsWith "cancel-at=" then
      match (t.drop 10).toNat? with
      | some k => parseScript ts { sc with cancelAt := k }
      | none => { sc with bad := true }
    else if t.startsWith "cancel-after=" then
      match (t.drop 13).toNat? with
      | some k => parseScript ts { sc with cancelAfter := k }
      | none => { sc with bad := true }
    else match parseEntry t with
      | some d => parseScript ts { sc with dials := d :: sc.dials }
      | none => { sc with bad := true }

def attemptsOf (sc : Script) : List Attempt :=
  (List.range sc.dials.length).zip sc.dials |>.map fun (i, d) =>
    { dial := d, ctxErr := sc.cancelAt == i + 1, cancelInWait := sc.cancelAfter == i + 1 }

def showResult : Result → String
  | .connected => "connected"
  | .errPermanent c => s!"perm:{c}"
  | .errCtx => "ctx"
  | .stillRetrying => "still-retrying"
  | .badJitter => "bad-jitter"

def msNs : Nat := 1000000

def step (_ : Unit) : List String → Unit × String
  | ["call", r, mn, mx, a, l, _seed, w] =>
    match r.toNat?, mn.toNat?, mx.toNat?, a.toNat?, l.toNat?, w.toNat? with
    | some r, some mn, some mx, some a, some l, some w =>
      ((), showCall { retries := r, min := mn, max := mx, attempts := a, last := l } w)
    | _, _, _, _, _, _ => ((), "bad-op")
  | ["runs", r, mn, mx, calls, _seed] =>
    match r.toNat?, mn.toNat?, mx.toNat?, calls.toNat? with
    | some r, some mn, some mx, some calls =>
      let (g, a, s) := runCalls calls (new r mn mx) 0 0
      ((), s!"runs granted={g} aborted={a} attempts={s.attempts}")
    | _, _, _, _ => ((), "bad-op")
  | ["probe", _, _, _, _, _, _] => ((), "probe ok")
  | "connect" :: mn :: mx :: rest =>
    match mn.toNat?, mx.toNat? with
    | some mn, some mx =>
      let sc := parseScript rest {}
      if sc.bad || sc.dials.isEmpty then ((), "bad-op")
      else
        let t := connect { minReconnectBackoff := mn * msNs, maxReconnectBackoff := mx * msNs } (attemptsOf sc)
        ((), s!"connect result={showResult t.result} dials={t.attempts} waits={t.waits.length}")
    | _, _ => ((), "bad-op")
  | _ => ((), "bad-op")

def engine : Engine := { σ := Unit, init := (), step := step }

end Piko.Driver.BackoffEngine
