import PikoModel.Gossip.FD
import Driver.Util
/-!
# Engine `fd`: accrualFailureDetector (C12)
ops (timestamps and intervals are decimal nanoseconds; ids hex):
  new <bootstrap> <sampleSize>     newAccrualFailureDetector
  report <id> <t>                  ReportWithTimestamp(id, time.Unix(0, t))
  query <id> <t>                   SuspicionLevelAt(id, time.Unix(0, t))
  remove <id>                      Remove(id)
output: `ok|phi zero=<0|1> gt=<0|1|~>|panic index|panic phi`, then the integer state of the node's
window `w=[ring] idx= full= sum= size= last=` (or `absent`) and the sorted ids that have a window.
`gt` is the decision `phi > suspicionThreshold`; it is `~` when the exact level is within 1e-6 of
the threshold (the float of the implementation is not compared there).
A case starts with the production detector shape `new 1000000000 50`.
-/
namespace Piko.Driver.FDEngine
open Piko Piko.FD

structure St where
  d : Detector := newDetector 1000000000 50
deriving Inhabited

def showWin : Option ArrivalWindow → String
  | none => "absent"
  | some w =>
    "w=[" ++ joinWith "," (w.intervals.intervals.map toString) ++ "]" ++
    " idx=" ++ toString w.intervals.index ++
    " full=" ++ boolStr w.intervals.isFull ++
    " sum=" ++ toString w.intervals.sum ++
    " size=" ++ toString w.intervals.size ++
    " last=" ++ (match w.lastTimestamp with | some t => toString t | none => "-")

def showNodes (d : Detector) : String :=
  "nodes=[" ++ joinWith "," (sortStrings (d.windows.keys.map hexEnc)) ++ "]"

def showState (d : Detector) (id : String) : String :=
  showWin (d.windows.find id) ++ " " ++ showNodes d

def showErr : Err → String
  | .indexOutOfRange => "panic index"
  | .phiBeforeSample => "panic phi"

def showPhi (p : Phi) : String :=
  "phi zero=" ++ boolStr (decide (p.num = 0)) ++ " gt=" ++
    (if p.awayFrom suspicionThreshold 1000000 then boolStr (decide (p.gt suspicionThreshold)) else "~")

def step (s : St) : List String → St × String
  | ["new", b, n] =>
    match b.toInt?, n.toNat? with
    | some b, some n => ({ d := newDetector b n }, "ok")
    | _, _ => (s, "bad-op")
  | ["report", id, t] =>
    match t.toNat? with
    | some t =>
      let (d, e) := s.d.reportWithTimestamp (hx id) t
      ({ d := d }, (match e with | none => "ok" | some e => showErr e) ++ " " ++ showState d (hx id))
    | none => (s, "bad-op")
  | ["query", id, t] =>
    match t.toNat? with
    | some t =>
      let (d, r) := s.d.suspicionLevelAt (hx id) t
      ({ d := d }, (match r with | .ok p => showPhi p | .error e => showErr e) ++ " " ++ showState d (hx id))
    | none => (s, "bad-op")
  | ["remove", id] =>
    let d := s.d.remove (hx id)
    ({ d := d }, "ok " ++ showState d (hx id))
  | _ => (s, "bad-op")

def engine : Engine := { σ := St, init := default, step := step }

end Piko.Driver.FDEngine
