import PikoModel.Gossip.Round
import PikoModel.Gossip.Net
import PikoModel.Gossip.Codec
import Driver.Util
import Driver.Gossip
/-!
# Engine `gossiph`: the REAL handlers of `listener.go` / `gossip.go` vs `Gossip/Net.lean`

Same network model (`Net.step`) as engine `gossip`; the implementation side runs the real
`packetListener.handlePacket`, `streamListener.handleConn`, `Gossip.gossip/join/leave/Leave`.
The byte limits are decided here by the byte-exact codec model (`Codec.sentDelta`,
`Codec.sentDigest`): `C13_prefix_is_net_cut` says that what the receiver decodes from
`encodeDelta … max` is `cutDelta (sentDelta …)`, which is the `cut` handed to `Net.step`.

ops (strings hex-encoded; the shared ops `node upsert delete leave compact live expire crash
converged` are those of engine `gossip`):
  hgossip <n> <dstnode> max=<bytes>       `Gossip.gossip(n's metadata of dst)`, request digest
  hdeliver <i> max=<bytes> items=<k>      pool[i] to `handlePacket` of a listener with that limit
  hjoin <n> <m> | hjoinlost <n> <m>       `Gossip.join` (reply delivered / lost)
  hleave <n> <m>                          `Gossip.leave`
  hLeave <n>                              `Gossip.Leave()`: LeaveLocal + notify every live node (≤ 4)
A digest that does not fit `max` completely is printed `digest ~` and is not pooled (which
entries survive `rand.Shuffle` + truncation is not predictable: the Go-side oracle covers it).
-/
namespace Piko.Driver.GossiphEngine
open Piko Piko.Gossip Piko.Driver.GossipEngine

/-- every node address of this engine is `127.0.0.1:<5 digits>` -/
def addrLen : Nat := 15

def isJoin (s : String) : Bool := s.startsWith "join:"

/-- sort maximal runs of consecutive `join:` events (`ApplyDigest` over a digest built in Go
map order) -/
def sortJoinRuns : List String → List String → List String
  | [], run => sortStrings run
  | e :: es, run =>
    if isJoin e then sortJoinRuns es (e :: run)
    else sortStrings run ++ e :: sortJoinRuns es []

def evNode (s : String) : String := (s.splitOn ":").getD 1 ""

/-- stable sort by the node an event is about (`ApplyDelta` over a delta in Go map order) -/
def groupByNode (xs : List String) : List String :=
  xs.mergeSort (fun a b => decide (evNode a ≤ evNode b))

inductive EvMode | plain | joins | grouped

def showEv (m : EvMode) (ev : List Event) : String :=
  let xs := ev.map showEvent
  let ys := match m with
    | .plain => canonRuns xs []
    | .joins => canonRuns (sortJoinRuns xs []) []
    | .grouped => canonRuns (groupByNode xs) []
  "[" ++ joinWith "," ys ++ "]"

def stOf (net : Net) (id : String) : String :=
  match net.nodes.find id with
  | some s => showState s
  | none => "?"

def sect (net : Net) (id : String) (m : EvMode) (ev : List Event) : String :=
  hexEnc id ++ " st=" ++ stOf net id ++ " ev=" ++ showEv m ev

def outStr (ps : List String) : String := " out=[" ++ joinWith " " ps ++ "]"

def natKV (pfx s : String) : Option Nat := (parseKV pfx s).bind String.toNat?

def intKV (pfx s : String) : Option Int := (parseKV pfx s).bind String.toInt?

def sharedOps : List String :=
  ["upsert", "delete", "leave", "compact", "live", "expire", "crash", "converged"]

def hgossip (net : Net) (n dst : String) (max : Nat) : Net × String :=
  match net.nodes.find n with
  | none => (net, "err no-node")
  | some s =>
    if n = dst then (net, "err self") else
    match s.nodes.find dst with
    | none => (net, "err unknown-dst")
    | some v =>
      let me := own s
      let h : Codec.DigestHeader := { nodeId := me.id, addr := me.addr, request := true }
      let d := sortDigest (digest s)
      if (Codec.digestPrefix h).length > max then (net, "err header-too-big") else
      if Codec.sentDigest h d max == d.length then
        let r := net.step (.sendDigest n v.addr true (List.range d.length) d.length)
        (r.net, "hgossip " ++ sect r.net n .plain [] ++ outStr (r.sent.map showPacket))
      else
        (net, "hgossip " ++ sect net n .plain [] ++ outStr ["digest ~"])

/-- `Gossip.gossipRound`: one digest request to a random live peer and one to a random
unreachable peer (`roundTargets`; the draws are the real code's own, so only the candidate sets
and the number of requests are printed - the harness checks that each request went to a member
of its set).  The datagrams are not pooled (= lost). -/
def hround (net : Net) (n : String) (max : Nat) : Net × String :=
  match net.nodes.find n with
  | none => (net, "err no-node")
  | some s =>
    let me := own s
    let h : Codec.DigestHeader := { nodeId := me.id, addr := me.addr, request := true }
    let srt (l : List NodeSt) := (l.map (·.id)).mergeSort (fun a b => decide (a ≤ b))
    let live := srt (liveNodes s)
    let un := srt (unreachableNodes s)
    -- the first `gossip` call fails on the header and `gossipRound` returns
    let sent := if (Codec.digestPrefix h).length > max then 0 else (roundTargets s 0 0).length
    (net, "hround " ++ sect net n .plain [] ++ " live=[" ++ joinWith "," (live.map hexEnc) ++ "] unreach=[" ++
      joinWith "," (un.map hexEnc) ++ "] sent=" ++ toString sent)

def hdeliver (net : Net) (i max : Nat) (items : Int) : Net × String :=
  match net.pool[i]? with
  | none => (net, "err no-packet")
  | some (.digest _ _ dst request d) =>
    match net.nodeByAddr dst with
    | none => (net, "err no-dst")
    | some (id, s) =>
      let (s1, _) := applyDigest s d
      let me := own s1
      let h : Codec.DeltaHeader := { nodeId := me.id, addr := me.addr, entries := 0 }
      -- `sendDelta` fails on the header: ApplyDigest has happened, nothing is sent
      if (Codec.deltaPrefix h).length > max then (net.setNode id s1, "err header-too-big") else
      let cut := Codec.sentDelta h (delta s1 d false) max
      if items ≥ 0 ∧ items ≠ Int.ofNat cut then
        (net, "err items-mismatch model=" ++ toString cut ++ " line=" ++ toString items) else
      let dg := sortDigest (digest s1)
      let hd : Codec.DigestHeader := { nodeId := me.id, addr := me.addr, request := false }
      let fits := Codec.sentDigest hd dg max == dg.length
      if request && !fits then
        let r := net.step (.deliver i cut [] 0 0)
        -- the truncated digest reply is lost
        let net' : Net := { r.net with pool := r.net.pool.dropLast }
        (net', "hdeliver " ++ sect net' r.who .joins r.events ++ " fd=[]" ++
          outStr ((r.sent.take 1).map showPacket ++ ["digest ~"]))
      else
        let r := net.step (.deliver i cut (List.range dg.length) dg.length 0)
        (r.net, "hdeliver " ++ sect r.net r.who .joins r.events ++ " fd=[]" ++
          outStr (r.sent.map showPacket))
  | some (.delta src _ _ _) =>
    let r := net.step (.deliver i 0 [] 0 0)
    match r.err with
    | some e => (r.net, "err " ++ e)
    | none =>
      (r.net, "hdeliver " ++ sect r.net r.who .joins r.events ++ " fd=[" ++ hexEnc src ++ "]" ++ outStr [])

def hstream (net : Net) (op n m : String) : Net × String :=
  let r := match op with
    | "hjoin" => net.step (.join n m true 0)
    | "hjoinlost" => net.step (.join n m false 0)
    | _ => net.step (.leaveStream n m 0)
  match r.err with
  | some e => (r.net, "err " ++ e)
  | none =>
    -- the events of the reply half at `n` (not reported by `Net.step`): recomputed from the
    -- definition of the join step
    let evN : List Event :=
      if op = "hjoin" then
        match net.nodes.find n, r.net.nodes.find m with
        | some sn, some sm2 =>
          (applyDelta 0 sn (sortDelta (delta sm2 (sortDigest (digest sn)) true))).2
        | _, _ => []
      else []
    (r.net, op ++ " " ++ sect r.net m .joins r.events ++ " from=" ++ sect r.net n .grouped evN ++ outStr [])

/-- `n` pushes its `LocalDelta` to every node of the list; returns the watcher events per node -/
def notifyAll (net : Net) (n : String) : List String → Net × List (String × List Event)
  | [] => (net, [])
  | m :: ms =>
    let r := net.step (.leaveStream n m 0)
    let (net', rest) := notifyAll r.net n ms
    (net', (m, r.events) :: rest)

def hLeave (net : Net) (n : String) : Net × String :=
  let r := net.step (.leave n)
  match r.err, r.net.nodes.find n with
  | some e, _ => (net, "err " ++ e)
  | none, none => (net, "err no-node")
  | none, some s =>
    -- `Leave`: every known node that is not the local one, not left and not unreachable; the
    -- loop stops after the 4th success, so with at most 4 candidates all of them are notified
    let live := ((liveNodes s).map (·.id)).mergeSort (fun a b => decide (a ≤ b))
    if live.length > 4 then (net, "err more-than-4-live") else
    let (net', evs) := notifyAll r.net n live
    let sects := evs.map fun (m, ev) => " @" ++ sect net' m .plain ev
    (net', "hLeave " ++ sect net' n .plain [] ++ " notified=[" ++ joinWith "," (live.map hexEnc) ++ "]" ++
      String.join sects ++ outStr [])

def step (net : Net) (ws : List String) : Net × String :=
  match ws with
  | ["node", _, addr] =>
    if (hx addr).utf8ByteSize ≠ addrLen then (net, "err bad-addr") else GossipEngine.step net ws
  | ["hgossip", n, dst, mx] =>
    match natKV "max=" mx with
    | some max => hgossip net (hx n) (hx dst) max
    | none => (net, "bad-op")
  | ["hround", n, mx] =>
    match natKV "max=" mx with
    | some max => hround net (hx n) max
    | none => (net, "bad-op")
  | ["hdeliver", i, mx, it] =>
    match i.toNat?, natKV "max=" mx, intKV "items=" it with
    | some i, some max, some items => hdeliver net i max items
    | _, _, _ => (net, "bad-op")
  | ["hjoin", n, m] => hstream net "hjoin" (hx n) (hx m)
  | ["hjoinlost", n, m] => hstream net "hjoinlost" (hx n) (hx m)
  | ["hleave", n, m] => hstream net "hleave" (hx n) (hx m)
  | ["hLeave", n] => hLeave net (hx n)
  | op :: _ => if sharedOps.contains op then GossipEngine.step net ws else (net, "bad-op")
  | [] => (net, "bad-op")

def engine : Engine := { σ := Net, init := {}, step := step }

end Piko.Driver.GossiphEngine
