import PikoModel.Gossip.Net
import Driver.Util
/-!
# Engine `gossip`: N real `clusterState`s and a value-level packet pool vs `Gossip/Net.lean`
ops (strings hex-encoded):
  node <id> <addr>
  upsert <id> <k> <v> | delete <id> <k> | leave <id> | compact <id> <thr>
  senddigest <id> <dstaddr> <req> cut=<n> p=<i,j,…|->
  deliver <i> cut=<n> p=<…> dcut=<m>
  join <n> <m> <reply 0|1> | leavestream <n> <m>
  live <n> <id,id,…|->          suspected ids
  expire <n> <seconds>
output: `<op> <who> st=[…] ev=[…] out=[…]` or `err <what>`
-/
namespace Piko.Driver.GossipEngine
open Piko Piko.Gossip

def showEntry (e : Entry) : String :=
  hexEnc e.key ++ "=" ++ hexEnc e.value ++ "@" ++ toString e.version ++
    (if e.deleted then "D" else "") ++ (if e.internal then "I" else "")

def showEntries (es : List Entry) : String := joinWith "," ((sortByVersion es).map showEntry)

def showNode (n : NodeSt) : String :=
  hexEnc n.id ++ "@" ++ hexEnc n.addr ++ ":v" ++ toString n.version ++ ":L" ++ boolStr n.left ++
    ":U" ++ boolStr n.unreachable ++ ":X" ++ boolStr n.expiry.isSome ++ "{" ++ showEntries n.entries.vals ++ "}"

def showState (s : CState) : String :=
  "[" ++ joinWith ";" (sortStrings (s.nodes.vals.map showNode)) ++ "]"

def showEvent : Event → String
  | .join id => "join:" ++ hexEnc id
  | .leave id => "leave:" ++ hexEnc id
  | .reachable id => "reach:" ++ hexEnc id
  | .unreachable id => "unreach:" ++ hexEnc id
  | .upsert id k v => "up:" ++ hexEnc id ++ ":" ++ hexEnc k ++ "=" ++ hexEnc v
  | .delete id k => "del:" ++ hexEnc id ++ ":" ++ hexEnc k
  | .expired id => "exp:" ++ hexEnc id

def delPrefix (s : String) : Option String :=
  match s.splitOn ":" with
  | ["del", id, _] => some id
  | _ => none

/-- sort maximal runs of consecutive `del:` events of the same node (Go map order inside a
compaction drop) -/
def canonRuns : List String → List String → List String
  | [], run => sortStrings run
  | e :: es, run =>
    match delPrefix e, run with
    | some id, r :: _ =>
      if delPrefix r = some id then canonRuns es (e :: run)
      else sortStrings run ++ canonRuns es [e]
    | some _, [] => canonRuns es [e]
    | none, _ => sortStrings run ++ [e] ++ canonRuns es []

def showEvents (sorted : Bool) (ev : List Event) : String :=
  let xs := ev.map showEvent
  "[" ++ joinWith "," (if sorted then sortStrings xs else canonRuns xs []) ++ "]"

def showDigestEntry (d : DigestEntry) : String :=
  hexEnc d.id ++ "@" ++ hexEnc d.addr ++ ":v" ++ toString d.version ++ ":L" ++ boolStr d.left

def showDeltaEntry (d : DeltaEntry) : String :=
  hexEnc d.id ++ "@" ++ hexEnc d.addr ++ "{" ++ joinWith "," (d.entries.map showEntry) ++ "}"

def showPacket : Packet → String
  | .digest src sa dst r d =>
    "digest(" ++ hexEnc src ++ "@" ++ hexEnc sa ++ ">" ++ hexEnc dst ++ ",r" ++ boolStr r ++ ")[" ++
      joinWith "," (d.map showDigestEntry) ++ "]"
  | .delta src sa dst d =>
    "delta(" ++ hexEnc src ++ "@" ++ hexEnc sa ++ ">" ++ hexEnc dst ++ ")[" ++
      joinWith "|" (d.map showDeltaEntry) ++ "]"

def parseKV (pfx : String) (s : String) : Option String :=
  if s.startsWith pfx then some (s.drop pfx.length).toString else none

def parseNatList (s : String) : List Nat :=
  if s = "-" then [] else (s.splitOn ",").filterMap String.toNat?

def parseIdList (s : String) : List String :=
  if s = "-" then [] else (s.splitOn ",").map hx

def parseOp : List String → Option (Op × Bool)   -- Bool: sort all events (map-order ops)
  | ["node", id, addr] => some (.node (hx id) (hx addr), false)
  | ["upsert", n, k, v] => some (.upsert (hx n) (hx k) (hx v), false)
  | ["delete", n, k] => some (.delete (hx n) (hx k), false)
  | ["leave", n] => some (.leave (hx n), false)
  | ["compact", n, thr] => thr.toNat?.map fun t => (.compact (hx n) t, false)
  | ["senddigest", n, dst, r, cut, p] =>
    match parseKV "cut=" cut, parseKV "p=" p with
    | some c, some pp => c.toNat?.map fun cn => (.sendDigest (hx n) (hx dst) (r = "1") (parseNatList pp) cn, false)
    | _, _ => none
  | ["deliver", i, cut, p, dcut] =>
    match i.toNat?, parseKV "cut=" cut, parseKV "p=" p, parseKV "dcut=" dcut with
    | some i, some c, some pp, some dc =>
      match c.toNat?, dc.toNat? with
      | some cn, some dcn => some (.deliver i cn (parseNatList pp) dcn 0, false)
      | _, _ => none
    | _, _, _, _ => none
  | ["delivermax", i, _max, items] =>
    -- the byte limit was applied by the real encoder; `items` is the whole-item count it produced
    match i.toNat?, parseKV "items=" items with
    | some i, some c => c.toNat?.map fun cn => (.deliver i cn [] 0 0, false)
    | _, _ => none
  | ["join", n, m, r] => some (.join (hx n) (hx m) (r = "1") 0, false)
  | ["leavestream", n, m] => some (.leaveStream (hx n) (hx m) 0, false)
  | ["live", n, ids] => some (.liveness (hx n) (parseIdList ids) 0, true)
  | ["expire", n, d] =>
    match d.toInt? with
    | some k => some (.expire (hx n) (if k ≤ 0 then 0 else k.toNat * 1000000000), true)
    | none => none
  | _ => none

def viewExact (net : Net) (r a : String) : Bool :=
  match net.nodes.find r, net.nodes.find a with
  | some sr, some sa =>
    match sr.nodes.find a with
    | some V => V.version = (own sa).version &&
        showEntries V.entries.vals = showEntries (own sa).entries.vals
    | none => false
  | _, _ => false

def converged (net : Net) (ids : List String) : Bool :=
  ids.all fun r => ids.all fun a => r = a || viewExact net r a

def step (net : Net) (ws : List String) : Net × String :=
  if ws.head? = some "crash" then (net, "ok") else   -- harness bookkeeping only (node stops acting)
  if ws.head? = some "converged" then
    (net, "conv " ++ boolStr (converged net (parseIdList (ws.getD 1 "-")))) else
  if ws.head? = some "deliverw" then
    -- `deliverw i cut p dcut k v`: the replies are computed, then the node writes k=v locally, then
    -- the replies are encoded: what was computed is a snapshot, so this is deliver followed by upsert
    match ws with
    | [_, i, cut, p, dcut, k, v] =>
      match parseOp ["deliver", i, cut, p, dcut] with
      | some (op, _) =>
        let r := net.step op
        match r.err with
        | some e => (r.net, "err " ++ e)
        | none =>
          let r2 := r.net.step (.upsert r.who (hx k) (hx v))
          let st := match r2.net.nodes.find r.who with
            | some s => showState s
            | none => "?"
          (r2.net, "deliverw " ++ hexEnc r.who ++ " st=" ++ st ++ " ev=" ++ showEvents false r.events ++
            " out=[" ++ joinWith " " (r.sent.map showPacket) ++ "]")
      | none => (net, "bad-op")
    | _ => (net, "bad-op")
  else
  if ws.head? = some "pexpire" then
    -- `pexpire n d src`: the expiry sweep at `n` and a digest of `src` arriving concurrently.  The
    -- sweep and its notifications are one atomic step, so this is: sweep, then the digest.
    match ws with
    | [_, n, d, src] =>
      match d.toInt? with
      | none => (net, "bad-op")
      | some k =>
        let r := net.step (.expire (hx n) (if k ≤ 0 then 0 else k.toNat * 1000000000))
        match r.err, r.net.nodes.find (hx n), r.net.nodes.find (hx src) with
        | none, some s, some ssrc =>
          if hx n = hx src then (net, "err no-node") else
          let (s', ev2) := applyDigest s (sortDigest (digest ssrc))
          let net' := r.net.setNode (hx n) s'
          (net', "pexpire " ++ hexEnc (hx n) ++ " st=" ++ showState s' ++ " ev=" ++ showEvents true (r.events ++ ev2) ++ " out=[]")
        | _, _, _ => (net, "err no-node")
    | _ => (net, "bad-op")
  else
  match parseOp ws with
  | none => (net, "bad-op")
  | some (op, sortEv) =>
    let r := net.step op
    match r.err with
    | some e => (r.net, "err " ++ e)
    | none =>
      let st := match r.net.nodes.find r.who with
        | some s => showState s
        | none => "?"
      (r.net, ws.headD "" ++ " " ++ hexEnc r.who ++ " st=" ++ st ++ " ev=" ++ showEvents sortEv r.events ++
        " out=[" ++ joinWith " " (r.sent.map showPacket) ++ "]")

def engine : Engine := { σ := Net, init := {}, step := step }

end Piko.Driver.GossipEngine
