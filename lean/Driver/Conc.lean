import PikoModel.Upstream.LB
import Driver.Util
/-!
# Engine `conc` (C20): the model side only predicts the quiescent state

The implementation side runs per-upstream AddConn/RemoveConn scripts concurrently with
selects, incoming gossip, liveness, compaction, expiry and status reads on one real node.
None of the background load touches the three local stores, and by
`C20_quiescent_schedule_independent` the stores after any interleaving of the scripts equal
the stores after running the scripts one after the other — which is what this engine does.

ops:
  init <id> <proxy> <admin>     fresh node                               → `ok`
  script <uid> <ep> <ops>       per-upstream script, `+` AddConn `-` RemoveConn → `ok`
  run <seed> <goroutines> <n>   run the pending scripts, print the three stores
  anything else (load …)        → `skip`
-/
namespace Piko.Driver.ConcEngine
open Piko Piko.Upstream

structure St where
  m : Mgr
  scripts : List (Nat × String × String) := []
deriving Inhabited

def showCounts (m : List (String × String)) : String :=
  "[" ++ joinWith "," (sortStrings (m.map fun p => hexEnc p.1 ++ ":" ++ p.2)) ++ "]"

/-- live, non-internal `endpoint:<id>` entries of the node's own gossip state -/
def advertisedAll (g : Gossip.CState) : List (String × String) :=
  (Gossip.own g).entries.vals.filterMap fun e =>
    if e.deleted || e.internal || !e.key.startsWith "endpoint:" then none
    else some ((e.key.drop 9).toString, e.value)

def showStores (m : Mgr) : String :=
  "q eps=" ++ showCounts (m.endpoints.map fun p => (p.1, toString p.2)) ++
  " local=" ++ showCounts (m.cluster.localNode.endpoints.map fun p => (p.1, toString p.2)) ++
  " adv=" ++ showCounts (advertisedAll m.gossip)

def runScript (m : Mgr) (s : Nat × String × String) : Mgr :=
  s.2.2.toList.foldl (fun m c =>
    if c = '+' then m.addConn { id := s.1, ep := s.2.1 }
    else if c = '-' then m.removeConn { id := s.1, ep := s.2.1 }
    else m) m

def step (s : St) : List String → St × String
  | ["init", id, p, a] =>
    let c := Cluster.State.new { id := hx id, proxyAddr := hx p, adminAddr := hx a }
    let g := syncInit c (Gossip.init (hx id) "")
    ({ m := { cluster := c, gossip := g } }, "ok")
  | ["script", u, e, ops] =>
    match u.toNat? with
    | some uid => ({ s with scripts := s.scripts ++ [(uid, hx e, ops)] }, "ok")
    | none => (s, "skip")
  | ["run", _, _, _] =>
    let m := s.scripts.foldl runScript s.m
    ({ m := m, scripts := [] }, showStores m)
  | _ => (s, "skip")

def engine : Engine := { σ := St, init := default, step := step }

end Piko.Driver.ConcEngine
