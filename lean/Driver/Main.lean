import Driver.Util
import Driver.Conc
import Driver.Mgr
import Driver.Session
import Driver.Node
import Driver.FD
import Driver.Codec
import Driver.Gossip
import Driver.Gossiph
import Driver.Rebalance
import Driver.Syncer
import Driver.WS
import Driver.Http
import Driver.Auth
import Driver.Route
import Driver.Backoff
import Driver.Sys
/-!
# Model driver: one op per input line → one canonical output line.
`driver <engine> < ops`.  Lines starting with `#` and blank lines are skipped; `case <name>`
resets the engine state and is echoed.
-/
open Piko.Driver

def engines : List (String × Engine) :=
  [("mgr", MgrEngine.engine),
   ("route", RouteEngine.engine),
   ("conc", ConcEngine.engine),
   ("session", SessionEngine.engine),
   ("node", NodeEngine.engine),
   ("auth", AuthEngine.engine),
   ("fd", FDEngine.engine),
   ("rebalance", RebalanceEngine.engine),
   ("codec", CodecEngine.engine),
   ("syncer", SyncerEngine.engine),
   ("ws", WSEngine.engine),
   ("http", HttpEngine.engine),
   ("gossiph", GossiphEngine.engine),
   ("backoff", BackoffEngine.engine),
   ("sys", SysEngine.engine),
   ("gossip", GossipEngine.engine)]

partial def loop (h : IO.FS.Stream) (out : IO.FS.Stream) (e : Engine) (s : e.σ) : IO Unit := do
  let line ← h.getLine
  if line.isEmpty then return ()
  let l := (line.dropEndWhile (fun c => c == '\n' || c == '\r')).toString
  if l.isEmpty || l.startsWith "#" then
    loop h out e s
  else
    match words l with
    | "case" :: _ =>
      out.putStrLn l
      loop h out e e.init
    | ws =>
      let (s', o) := e.step s ws
      out.putStrLn o
      loop h out e s'

def main (args : List String) : IO UInt32 := do
  match args with
  | [name] =>
    match engines.lookup name with
    | some e =>
      let stdin ← IO.getStdin
      let stdout ← IO.getStdout
      loop stdin stdout e e.init
      return 0
    | none => IO.eprintln s!"unknown engine {name}"; return 2
  | _ => IO.eprintln "usage: driver <engine>"; return 2
