import PikoModel.Sys.System
import Driver.Util
import Driver.Gossip
import Driver.Syncer
import Driver.Mgr
/-!
# Engine `sys`: N complete real node stacks (cluster.State + syncer + gossip clusterState +
LoadBalancedManager, wired as `server/gossip.NewGossip` wires them) and a packet pool vs
`PikoModel/Sys/System.lean` (`Sys.step`) - the model of `C04_mirror_system` / `C01_settled_system`
ops (strings hex-encoded; gossip-level argument formats as engine `gossip`):
  boot <id> <gossipAddr> <proxyAddr> <adminAddr>
  add <node> <uid> <ep> | rm <node> <uid> <ep>          AddConn / RemoveConn
  leave <node> | compact <node> <thr>
  senddigest <id> <dstaddr> <req> cut=<n> p=<i,j,…|->
  deliver <i> cut=<n> p=<…> dcut=<m>
  join <n> <m> <reply 0|1> | leavestream <n> <m>
  live <n> <id,id,…|->          suspected ids
  expire <n> <seconds>
output: `<op> <node> [| <node>] out=[…]` or `err <what>` where
  `<node>` = `<id> eps=[registry] T(routing table) P(pending) st=[own gossip node + views]`
(formats of engines `mgr`, `syncer`, `gossip`); for `join n m` the nodes are `m` then `n`.
-/
namespace Piko.Driver.SysEngine
open Piko Piko.Gossip

/-- registry, routing table + pending map, gossip state of node `n` -/
def showOne (s : Sys) (n : String) : String :=
  match s.node n with
  | some x =>
    hexEnc n ++ " eps=" ++ MgrEngine.showCounts (x.mgr.endpoints.map fun p => (p.1, toString p.2)) ++
      " " ++ SyncerEngine.showSync x.sync ++ " st=" ++ GossipEngine.showState x.mgr.gossip
  | none => hexEnc n ++ " ?"

def line (op : String) (s : Sys) (who : List String) (sent : List Packet) : String :=
  op ++ " " ++ joinWith " | " (who.map (showOne s)) ++
    " out=[" ++ joinWith " " (sent.map GossipEngine.showPacket) ++ "]"

/-- the gossip-level operations a system has (no writes of arbitrary keys, no bare `node`) -/
def toSys : Gossip.Op → Option SysOp
  | .leave n => some (.leave n)
  | .compact n thr => some (.compact n thr)
  | .sendDigest n dst rq perm cut => some (.sendDigest n dst rq perm cut)
  | .deliver i cut perm dcut now => some (.deliver i cut perm dcut now)
  | .join n m rd now => some (.join n m rd now)
  | .leaveStream n m now => some (.leaveStream n m now)
  | .liveness n sus now => some (.liveness n sus now)
  | .expire n t => some (.expire n t)
  | _ => none

def connOp (s : Sys) (name n u e : String) (mk : String → Nat → String → SysOp) : Sys × String :=
  match u.toNat?, s.mgr (hx n) with
  | some uid, some _ =>
    let s' := s.step (mk (hx n) uid (hx e))
    (s', line name s' [hx n] [])
  | some _, none => (s, "err no-node")
  | none, _ => (s, "bad-op")

def step (s : Sys) (ws : List String) : Sys × String :=
  match ws with
  | ["boot", id, ga, pa, aa] =>
    match s.net.nodes.find (hx id), s.net.nodeByAddr (hx ga), s.side.find (hx id) with
    | none, none, none =>
      let s' := s.step (.boot (hx id) (hx ga) (hx pa) (hx aa))
      (s', line "boot" s' [hx id] [])
    | _, _, _ => (s, "err exists")
  | ["add", n, u, e] => connOp s "add" n u e .addConn
  | ["rm", n, u, e] => connOp s "rm" n u e .removeConn
  | "delivermax" :: _ => (s, "bad-op")
  | _ =>
    match GossipEngine.parseOp ws with
    | none => (s, "bad-op")
    | some (gop, _) =>
      match toSys gop with
      | none => (s, "bad-op")
      | some op =>
        -- the gossip-level part of the step, for the acting node, the packets and the refusals
        let r := s.net.step gop
        match r.err with
        | some e => (s, "err " ++ e)
        | none =>
          let s' := s.step op
          let who := match gop with
            | .join n _ _ _ => [r.who, n]
            | _ => [r.who]
          (s', line (ws.headD "") s' who r.sent)

def engine : Engine := { σ := Sys, init := {}, step := step }

end Piko.Driver.SysEngine
