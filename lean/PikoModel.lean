import PikoModel.Data.AMap
import PikoModel.Gossip.State
import PikoModel.Cluster.State
import PikoModel.Upstream.LB
