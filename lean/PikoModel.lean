import PikoModel.Data.AMap
import PikoModel.Gossip.State
import PikoModel.Gossip.Net
import PikoModel.Cluster.State
import PikoModel.Upstream.LB
