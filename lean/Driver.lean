import Driver.Util
import Driver.Mgr
import Driver.Gossip
import Driver.Main
