import Driver.Util
import Driver.Mgr
import Driver.Main
