import Proofs.NetInv
/-!
# Small facts about `digest`, `selectIdx`, `nodeByAddr`, and what the receive operations keep
-/
namespace Piko.Gossip
open Piko

theorem mem_selectIdx {α : Type} {p : List Nat} {xs : List α} {x : α} (h : x ∈ selectIdx p xs) : x ∈ xs := by
  unfold selectIdx at h
  obtain ⟨i, _, hi⟩ := List.mem_filterMap.mp h
  exact List.mem_of_getElem? hi

theorem mem_sortDigest {d : Digest} {x : DigestEntry} : x ∈ sortDigest d ↔ x ∈ d := List.mem_mergeSort
theorem mem_sortDelta {d : Delta} {x : DeltaEntry} : x ∈ sortDelta d ↔ x ∈ d := List.mem_mergeSort

/-- every digest entry reports the version the sender currently holds for that node -/
theorem digest_claims {s : CState} (hnd : s.nodes.NoDupKeys) (hids : ∀ a V, s.nodes.find a = some V → V.id = a) :
    ∀ de ∈ digest s, ∃ n, s.nodes.find de.id = some n ∧ de.version ≤ n.version := by
  intro de hde
  unfold digest at hde
  obtain ⟨n, hn, rfl⟩ := List.mem_map.mp hde
  obtain ⟨a, ha⟩ := (AMap.mem_vals_iff hnd).mp hn
  have := hids a n ha
  exact ⟨n, by simp only; rw [this]; exact ha, Nat.le_refl _⟩

theorem nodeByAddr_spec {net : Net} (hnd : net.nodes.NoDupKeys) {addr id : String} {s : CState}
    (h : net.nodeByAddr addr = some (id, s)) : net.nodes.find id = some s ∧ (own s).addr = addr := by
  unfold Net.nodeByAddr at h
  have hm := List.mem_of_find?_eq_some h
  have hp := List.find?_some h
  exact ⟨AMap.findOfMem hnd hm, by simpa using hp⟩

theorem nodeByAddr_none {net : Net} {addr : String} (h : net.nodeByAddr addr = none) :
    ∀ id s, net.nodes.find id = some s → (own s).addr ≠ addr := by
  intro id s hf he
  unfold Net.nodeByAddr at h
  have := List.find?_eq_none.mp h (id, s) (AMap.mem_of_find hf)
  simp [he] at this

/-! ### node maps only grow, keys stay distinct -/

theorem applyDeltaEntry_nd (now : Nat) (s : CState) (de : DeltaEntry) (h : s.nodes.NoDupKeys) :
    (applyDeltaEntry now s de).1.nodes.NoDupKeys := by
  unfold applyDeltaEntry
  split
  · exact h
  · split <;> exact h.insert _ _

theorem applyDelta_nd (now : Nat) (d : Delta) : ∀ (s : CState), s.nodes.NoDupKeys →
    (applyDelta now s d).1.nodes.NoDupKeys := by
  unfold applyDelta
  suffices h : ∀ (d : Delta) (acc : CState × List Event), acc.1.nodes.NoDupKeys →
      (d.foldl (fun acc de => let (s', e) := applyDeltaEntry now acc.1 de; (s', acc.2 ++ e)) acc).1.nodes.NoDupKeys by
    intro s hs; exact h d (s, []) hs
  intro d
  induction d with
  | nil => intro acc h; exact h
  | cons de d ih =>
    intro acc h
    simp only [List.foldl_cons]
    exact ih _ (applyDeltaEntry_nd now acc.1 de h)

theorem applyDigest_nd (d : Digest) : ∀ (s : CState), s.nodes.NoDupKeys →
    (applyDigest s d).1.nodes.NoDupKeys := by
  unfold applyDigest
  suffices h : ∀ (d : Digest) (acc : CState × List Event), acc.1.nodes.NoDupKeys →
      (d.foldl applyDigestEntry acc).1.nodes.NoDupKeys by
    intro s hs; exact h d (s, []) hs
  intro d
  induction d with
  | nil => intro acc h; exact h
  | cons de d ih =>
    intro acc h
    simp only [List.foldl_cons]
    apply ih
    unfold applyDigestEntry
    split
    · exact h
    · split
      · exact h
      · exact h.insert _ _

/-- nodes are never dropped by `applyDelta`, and their versions never decrease -/
theorem applyDelta_keeps {W : World} (now : Nat) (d : Delta) (s : CState)
    (hs : RecvInv W s) (hd : ∀ de ∈ d, DeOK W s de) :
    ∀ a n, s.nodes.find a = some n → ∃ n', (applyDelta now s d).1.nodes.find a = some n' ∧ n.version ≤ n'.version := by
  obtain ⟨_, _, _, hbase⟩ := applyDelta_recv now d s hs hd
  -- existence
  have hex : ∀ (d : Delta) (acc : CState × List Event) a, (acc.1.nodes.find a).isSome →
      ((d.foldl (fun acc de => let (s', e) := applyDeltaEntry now acc.1 de; (s', acc.2 ++ e)) acc).1.nodes.find a).isSome := by
    intro d
    induction d with
    | nil => intro acc a h; exact h
    | cons de d ih =>
      intro acc a h
      simp only [List.foldl_cons]
      apply ih
      rw [applyDeltaEntry_find]
      by_cases h1 : de.id = acc.1.localId
      · simp [h1, h]
      · by_cases h2 : de.id = a
        · subst h2; simp [h1]
        · simp [h1, h2, h]
  intro a n hf
  have h1 := hex d (s, []) a (by simp [hf])
  have h2 := hbase a n.version (by unfold BaseOK; rw [hf]; exact Nat.le_refl _)
  unfold applyDelta
  unfold applyDelta at h2
  cases hf' : ((d.foldl (fun acc de => let (s', e) := applyDeltaEntry now acc.1 de; (s', acc.2 ++ e)) (s, [])).1.nodes.find a) with
  | none => rw [hf'] at h1; cases h1
  | some n' =>
    unfold BaseOK at h2
    rw [hf'] at h2
    exact ⟨n', rfl, h2⟩

end Piko.Gossip
