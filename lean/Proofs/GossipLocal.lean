import PikoModel.Gossip.State
/-!
# Local writes of the gossip state as a last-write-wins map (`pkg/gossip/state.go`)
Shared by C05 (advertised counts) and C17.
-/
namespace Piko.Gossip
open Piko

/-- the local node is present in the node map (the Go code indexes `s.nodes[s.localID]`
without a check; this invariant is what makes that safe) -/
def OwnPresent (s : CState) : Prop := ∃ n, s.nodes.find s.localId = some n

theorem ownPresent_init (id addr : String) : OwnPresent (init id addr) := by
  simp [OwnPresent, init]

@[simp] theorem own_setOwn (s : CState) (n : NodeSt) : own (setOwn s n) = n := by
  simp [own, setOwn]

@[simp] theorem localId_setOwn (s : CState) (n : NodeSt) : (setOwn s n).localId = s.localId := rfl

theorem ownPresent_setOwn (s : CState) (n : NodeSt) : OwnPresent (setOwn s n) := by
  simp [OwnPresent, setOwn]

/-- the live (not deleted) value of a key of the node's own state -/
def liveValue (s : CState) (k : String) : Option String :=
  match (own s).entries.find k with
  | some e => if e.deleted then none else some e.value
  | none => none

theorem own_writeOwn (s : CState) (k : String) (mk : Nat → Entry) :
    own (writeOwn s k mk) =
      { own s with version := (own s).version + 1,
                   entries := (own s).entries.insert k (mk ((own s).version + 1)) } := by
  simp [writeOwn]

theorem liveValue_writeOwn (s : CState) (k k' : String) (mk : Nat → Entry) :
    liveValue (writeOwn s k mk) k' =
      if k = k' then (if (mk ((own s).version + 1)).deleted then none else some (mk ((own s).version + 1)).value)
      else liveValue s k' := by
  unfold liveValue
  rw [own_writeOwn]
  simp only [AMap.find_insert]
  by_cases h : k = k' <;> simp [h]

theorem liveValue_upsertLocal (s : CState) (k v k' : String) :
    liveValue (upsertLocal s k v) k' = if k = k' then some v else liveValue s k' := by
  unfold upsertLocal
  cases hf : (own s).entries.find k with
  | none => simp only [liveValue_writeOwn]; simp
  | some e =>
    by_cases hc : (e.value = v && !e.deleted) = true
    · simp only [hc, if_true]
      by_cases h : k = k'
      · subst h
        simp only [Bool.and_eq_true, decide_eq_true_eq, Bool.not_eq_true'] at hc
        simp [liveValue, hf, hc.1, hc.2]
      · simp [h]
    · dsimp only; rw [if_neg hc]
      simp only [liveValue_writeOwn]; simp

theorem liveValue_deleteLocal (s : CState) (k k' : String) :
    liveValue (deleteLocal s k) k' = if k = k' then none else liveValue s k' := by
  unfold deleteLocal
  cases hf : (own s).entries.find k with
  | none =>
    by_cases h : k = k'
    · subst h; simp [liveValue, hf]
    · simp [h]
  | some e =>
    by_cases hd : e.deleted = true
    · simp only [hd, if_true]
      by_cases h : k = k'
      · subst h; simp [liveValue, hf, hd]
      · simp [h]
    · dsimp only; rw [if_neg hd]
      simp only [liveValue_writeOwn]; simp

theorem ownPresent_writeOwn (s : CState) (k : String) (mk : Nat → Entry) : OwnPresent (writeOwn s k mk) :=
  ownPresent_setOwn _ _

theorem ownPresent_upsertLocal (s : CState) (k v : String) (h : OwnPresent s) : OwnPresent (upsertLocal s k v) := by
  unfold upsertLocal
  split
  · split
    · exact h
    · exact ownPresent_writeOwn _ _ _
  · exact ownPresent_writeOwn _ _ _

theorem ownPresent_deleteLocal (s : CState) (k : String) (h : OwnPresent s) : OwnPresent (deleteLocal s k) := by
  unfold deleteLocal
  split
  · exact h
  · split
    · exact h
    · exact ownPresent_writeOwn _ _ _

end Piko.Gossip
