import Proofs.NetStep
/-!
# Reachable network states (C02's quantifier) and what the ghost history means
-/
namespace Piko.Gossip
open Piko

/-- run a history given **latest operation first** -/
def runRev : List Op → GNet
  | [] => {}
  | op :: earlier => (runRev earlier).step op

/-- every step of the history was allowed when it was taken (no expiry, no writes to the
reserved keys, counters below 2^64 when formatted) -/
def AllowedRev : List Op → Prop
  | [] => True
  | op :: earlier => AllowedRev earlier ∧ StepAllowed (runRev earlier) op

theorem netInv_empty : NetInv {} := by
  refine ⟨AMap.noDupKeys_nil, fun _ _ => rfl, ?_, ?_, ?_, ?_, ?_⟩ <;> intros <;> simp_all

theorem netInv_runRev : ∀ (ops : List Op), AllowedRev ops → NetInv (runRev ops)
  | [], _ => netInv_empty
  | op :: earlier, h => (netInv_runRev earlier h.1).step op h.2

/-- the ghost history is sound: every entry in it was, at some earlier point of the same
history, a current entry of that owner's own state -/
theorem hist_sound : ∀ (ops : List Op) (a : String) (e : Entry), e ∈ (runRev ops).hist a →
    ∃ pre earlier, ops = pre ++ earlier ∧ ∃ s, (runRev earlier).net.nodes.find a = some s ∧
      e ∈ (own s).entries.vals
  | [], a, e, h => by simp [runRev] at h
  | op :: earlier, a, e, h => by
    simp only [runRev, GNet.step] at h
    cases hf : ((runRev earlier).net.step op).net.nodes.find a with
    | none =>
      rw [hf] at h
      obtain ⟨pre, ea, he, hrest⟩ := hist_sound earlier a e h
      exact ⟨op :: pre, ea, by rw [he]; rfl, hrest⟩
    | some s =>
      rw [hf] at h
      rcases mem_histAfter.mp h with h1 | h1
      · obtain ⟨pre, ea, he, hrest⟩ := hist_sound earlier a e h1
        exact ⟨op :: pre, ea, by rw [he]; rfl, hrest⟩
      · exact ⟨[], op :: earlier, rfl, s, hf, h1⟩

end Piko.Gossip
