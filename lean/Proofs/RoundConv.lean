import Proofs.Converge
/-!
# The datagram push-pull round (`Gossip.gossipRound` → `packetListener.handlePacket`)

Helper lemmas behind `C03_pull_round_catches_up`, `C03_pull_round_discovers` and
`C03_converges_rounds` (`Props/C03.lean`):

* `roundDigest`, `roundReply`, `pullRound` — the digest a node sends, the (untruncated) delta the
  receiver answers with, and the three steps of one round as a history fragment (latest first);
* `cutDelta_all` (a cut at or beyond the item count keeps the whole delta), `cutDelta_ids_prefix`,
  `fullDigest_contains` (the full digest lists every remembered node);
* `nodeByAddr_of_find` (unique gossip addresses: the node owning `(own s).addr` is the node of `s`);
* what the three kinds of step do to the network (`step_sendDigest`, `step_deliver_digest`,
  `step_deliver_delta`);
* `applyDelta_append`, `applyEntries_skip` (entries at or below the view's version are ignored),
  `PktInv.dropLE`;
* `applyDigest_discovers` (a digest entry about an unknown, not-left node creates the version-0 view
  and emits `join`).
-/
namespace Piko.Gossip
open Piko

/-! ### the packets of one round -/

/-- the digest `gossip(node)` sends: the entries of the node's id-sorted digest selected by `perm`,
cut after `cut` entries (`rand.Shuffle` + the packet limit in the real code) -/
def roundDigest (s : CState) (perm : List Nat) (cut : Nat) : Digest :=
  (selectIdx perm (sortDigest (digest s))).take cut

/-- the delta `packetListener.digest` computes as the reply to digest `D` (before the packet limit
cuts it): `ApplyDigest(D)` first, then `Delta(D, false)` -/
def roundReply (sa : CState) (D : Digest) : Delta := delta (applyDigest sa D).1 D false

/-- one datagram round `r → dst` as a history fragment, **latest first**: `r` emits a digest request
to address `dst` (it becomes pooled packet `i`), the packet is delivered (the receiver appends the
delta reply as packet `i+1` and, the request flag being set, its own digest as packet `i+2`), and
the delta reply is delivered at `r`.  `i` is the pool length before the round. -/
def pullRound (i : Nat) (r dst : String) (perm : List Nat) (cut cut2 : Nat) (perm2 : List Nat)
    (dcut2 now2 now3 : Nat) : List Op :=
  [.deliver (i + 1) 0 [] 0 now3, .deliver i cut2 perm2 dcut2 now2, .sendDigest r dst true perm cut]

/-- number of whole items (`node header` + its entries) of a delta: what `cutDelta` counts -/
def deltaItems (d : Delta) : Nat := (d.map (fun de => de.entries.length + 1)).sum

@[simp] theorem deltaItems_nil : deltaItems [] = 0 := rfl
@[simp] theorem deltaItems_cons (de : DeltaEntry) (d : Delta) :
    deltaItems (de :: d) = de.entries.length + 1 + deltaItems d := by
  simp [deltaItems]

/-- a cut at or beyond the item count does not truncate -/
theorem cutDelta_all : ∀ (d : Delta) (n : Nat), deltaItems d ≤ n → cutDelta n d = d := by
  intro d
  induction d with
  | nil => intro n _; cases n <;> rfl
  | cons de rest ih =>
    intro n hn
    rw [deltaItems_cons] at hn
    cases n with
    | zero => omega
    | succ n =>
      unfold cutDelta
      have : ¬ n < de.entries.length := by omega
      simp only [this, if_false]
      rw [ih (n - de.entries.length) (by omega)]

/-- the ids of a truncated delta are a prefix of the ids of the delta -/
theorem cutDelta_ids_prefix : ∀ (d : Delta) (n : Nat),
    (cutDelta n d).map (·.id) <+: d.map (·.id) := by
  intro d
  induction d with
  | nil => intro n; cases n <;> simp [cutDelta]
  | cons de rest ih =>
    intro n
    cases n with
    | zero => simp [cutDelta]
    | succ n =>
      unfold cutDelta
      by_cases hlt : n < de.entries.length
      · simp only [hlt, if_true, List.map_cons, List.map_nil]
        exact ⟨rest.map (·.id), rfl⟩
      · simp only [hlt, if_false, List.map_cons]
        obtain ⟨t, ht⟩ := ih (n - de.entries.length)
        exact ⟨t, by rw [List.cons_append, ht]⟩

theorem mem_selectIdx_range {α : Type} {xs : List α} {x : α} (hx : x ∈ xs) {n : Nat}
    (hn : xs.length ≤ n) : x ∈ selectIdx (List.range n) xs := by
  obtain ⟨i, hi, rfl⟩ := List.getElem_of_mem hx
  unfold selectIdx
  exact List.mem_filterMap.mpr ⟨i, List.mem_range.mpr (by omega), by simp [hi]⟩

theorem length_selectIdx_le {α : Type} (p : List Nat) (xs : List α) : (selectIdx p xs).length ≤ p.length := by
  unfold selectIdx
  exact List.length_filterMap_le _ _

/-- every entry of the digest a node sends is an entry of its `Digest()` -/
theorem mem_roundDigest {s : CState} {perm : List Nat} {cut : Nat} {de : DigestEntry}
    (h : de ∈ roundDigest s perm cut) : de ∈ digest s :=
  mem_sortDigest.mp (mem_selectIdx (List.mem_of_mem_take h))

/-- **The full digest carries every remembered node**: with the identity selection and no cut
(`perm = List.range n`, `cut = n`, `n` at least the number of remembered nodes) the digest sent
contains the sender's entry for every node it remembers. -/
theorem fullDigest_contains {s : CState} (hnd : s.nodes.NoDupKeys)
    (hids : ∀ a V, s.nodes.find a = some V → V.id = a) {a : String} {V : NodeSt}
    (hV : s.nodes.find a = some V) {n : Nat} (hn : (digest s).length ≤ n) :
    ∃ de ∈ roundDigest s (List.range n) n, de.id = a := by
  obtain ⟨_, _, hall⟩ := digest_spec hnd hids
  obtain ⟨de, hde, hid, _⟩ := hall a V hV
  refine ⟨de, ?_, hid⟩
  unfold roundDigest
  rw [List.take_of_length_le (by
    have := length_selectIdx_le (List.range n) (sortDigest (digest s)); simpa using this)]
  apply mem_selectIdx_range (mem_sortDigest.mpr hde)
  unfold sortDigest
  rw [List.length_mergeSort]; exact hn

/-- a digest entry the sender holds about a node it remembers reports the remembered version -/
theorem roundDigest_version {s : CState} (hnd : s.nodes.NoDupKeys)
    (hids : ∀ a V, s.nodes.find a = some V → V.id = a) {perm : List Nat} {cut : Nat} {de : DigestEntry}
    (hde : de ∈ roundDigest s perm cut) {V : NodeSt} (hV : s.nodes.find de.id = some V) :
    de.version = V.version := by
  obtain ⟨_, hcl, _⟩ := digest_spec hnd hids
  obtain ⟨n, hn, hv⟩ := hcl de (mem_roundDigest hde)
  rw [hV] at hn; cases hn; exact hv

/-! ### unique gossip addresses -/

/-- the node that owns the gossip address of `sr`'s own node is `r` itself -/
theorem nodeByAddr_of_find {g : GNet} (h : NetInv g) {r : String} {sr : CState}
    (hr : g.net.nodes.find r = some sr) : g.net.nodeByAddr (own sr).addr = some (r, sr) := by
  cases hb : g.net.nodeByAddr (own sr).addr with
  | none => exact absurd rfl (nodeByAddr_none hb r sr hr)
  | some q =>
    obtain ⟨id, s⟩ := q
    obtain ⟨hf, ha⟩ := nodeByAddr_spec h.nd hb
    have := h.addrUniq id s r sr hf hr ha
    subst this
    rw [hr] at hf; cases hf; rfl

/-! ### what the steps of a round do to the network -/

theorem runRev_net_cons (op : Op) (ops : List Op) :
    (runRev (op :: ops)).net = ((runRev ops).net.step op).net := rfl

theorem step_sendDigest {net : Net} {n : String} {s : CState} (h : net.nodes.find n = some s)
    (dst : String) (req : Bool) (perm : List Nat) (cut : Nat) :
    (net.step (.sendDigest n dst req perm cut)).net =
      { nodes := net.nodes,
        pool := net.pool ++ [Packet.digest (own s).id (own s).addr dst req (roundDigest s perm cut)] } := by
  simp [Net.step, h, roundDigest]

theorem step_deliver_digest {net : Net} {i : Nat} {src sa dst : String} {req : Bool} {d : Digest}
    {id : String} {s : CState} (hp : net.pool[i]? = some (.digest src sa dst req d))
    (hb : net.nodeByAddr dst = some (id, s)) (cut : Nat) (perm : List Nat) (dcut now : Nat) :
    (net.step (.deliver i cut perm dcut now)).net =
      { nodes := net.nodes.insert id (applyDigest s d).1,
        pool := net.pool ++
          (Packet.delta (own (applyDigest s d).1).id (own (applyDigest s d).1).addr sa
              (cutDelta cut (delta (applyDigest s d).1 d false)) ::
            if req then [Packet.digest (own (applyDigest s d).1).id (own (applyDigest s d).1).addr sa false
              (roundDigest (applyDigest s d).1 perm dcut)] else []) } := by
  simp [Net.step, hp, hb, handleDigest, Net.setNode, roundDigest]

theorem step_deliver_digest_events {net : Net} {i : Nat} {src sa dst : String} {req : Bool} {d : Digest}
    {id : String} {s : CState} (hp : net.pool[i]? = some (.digest src sa dst req d))
    (hb : net.nodeByAddr dst = some (id, s)) (cut : Nat) (perm : List Nat) (dcut now : Nat) :
    (net.step (.deliver i cut perm dcut now)).events = (applyDigest s d).2 ∧
    (net.step (.deliver i cut perm dcut now)).who = id := by
  simp [Net.step, hp, hb, handleDigest]

theorem step_deliver_delta {net : Net} {i : Nat} {src sa dst : String} {d : Delta}
    {id : String} {s : CState} (hp : net.pool[i]? = some (.delta src sa dst d))
    (hb : net.nodeByAddr dst = some (id, s)) (cut : Nat) (perm : List Nat) (dcut now : Nat) :
    (net.step (.deliver i cut perm dcut now)).net =
      { nodes := net.nodes.insert id (applyDelta now s d).1, pool := net.pool } := by
  simp [Net.step, hp, hb, Net.setNode]

/-! ### receive side: splitting a delta, skipping old entries -/

theorem applyDelta_cons_fst (now : Nat) (s : CState) (x : DeltaEntry) (d : Delta) :
    (applyDelta now s (x :: d)).1 = (applyDelta now (applyDeltaEntry now s x).1 d).1 := by
  rw [C11.applyDelta_fst, C11.applyDelta_fst]; rfl

theorem applyDelta_append (now : Nat) (s : CState) (d₁ d₂ : Delta) :
    (applyDelta now s (d₁ ++ d₂)).1 = (applyDelta now (applyDelta now s d₁).1 d₂).1 := by
  rw [C11.applyDelta_fst, C11.applyDelta_fst, C11.applyDelta_fst, List.foldl_append]

/-- an entry at or below the view's version is ignored (`if entry.Version <= node.Version continue`) -/
theorem applyEntries_cons_skip (now : Nat) (st : NodeSt) (e : Entry) (es : List Entry)
    (h : e.version ≤ st.version) : (applyEntries now st (e :: es)).1 = (applyEntries now st es).1 := by
  simp [applyEntries, applyEntry, h]

/-- applying a version-sorted entry list = applying its part above the view's version -/
theorem applyEntries_skip (now : Nat) : ∀ (es : List Entry) (st : NodeSt),
    es.Pairwise (fun x y => x.version < y.version) →
    (applyEntries now st es).1 =
      (applyEntries now st (es.filter (fun e => decide (st.version < e.version)))).1 := by
  intro es
  induction es with
  | nil => intro st _; rfl
  | cons e es ih =>
    intro st hs
    obtain ⟨h1, h2⟩ := List.pairwise_cons.mp hs
    by_cases hle : e.version ≤ st.version
    · have hd : decide (st.version < e.version) = false := by simp; omega
      rw [applyEntries_cons_skip now st e es hle, List.filter_cons_of_neg (by simp [hd]), ih st h2]
    · have : (e :: es).filter (fun e => decide (st.version < e.version)) = e :: es := by
        apply List.filter_eq_self.mpr
        intro x hx
        rcases List.mem_cons.mp hx with rfl | hx
        · simp; omega
        · have := h1 x hx; simp; omega
      rw [this]

/-- the part of a delta entry list above a higher base is a delta entry list for that base -/
theorem PktInv.dropLE {H : List Entry} {O : NodeSt} {v0 : Nat} {es : List Entry}
    (h : PktInv H O v0 es) (v1 : Nat) (hv : v0 ≤ v1) :
    PktInv H O v1 (es.filter (fun e => decide (v1 < e.version))) := by
  refine ⟨h.sorted.sublist List.filter_sublist, fun e he => h.genuine e (List.mem_filter.mp he).1,
    fun e he => by simpa using (List.mem_filter.mp he).2, ?_⟩
  intro k e' hf hlt ⟨l, hl, hle⟩
  have := h.complete k e' hf (by omega) ⟨l, (List.mem_filter.mp hl).1, hle⟩
  exact List.mem_filter.mpr ⟨this, by simpa using hlt⟩

/-! ### `ApplyDigest` discovers -/

theorem applyDigest_events_mono (d : Digest) : ∀ (acc : CState × List Event) (e : Event),
    e ∈ acc.2 → e ∈ (d.foldl applyDigestEntry acc).2 := by
  induction d with
  | nil => intro acc e h; exact h
  | cons x d ih =>
    intro acc e h
    rw [List.foldl_cons]
    apply ih
    unfold applyDigestEntry
    split
    · exact h
    · split
      · exact h
      · exact List.mem_append_left _ h

theorem applyDigest_find_mono (d : Digest) : ∀ (acc : CState × List Event) (a : String) (n : NodeSt),
    acc.1.nodes.find a = some n → (d.foldl applyDigestEntry acc).1.nodes.find a = some n := by
  induction d with
  | nil => intro acc a n h; exact h
  | cons x d ih =>
    intro acc a n h
    rw [List.foldl_cons]
    apply ih
    rw [(applyDigestEntry_spec acc x).2 a]
    by_cases hc : acc.1.nodes.find x.id = none ∧ x.left = false ∧ x.id = a
    · obtain ⟨h1, _, h3⟩ := hc; rw [h3, h] at h1; cases h1
    · rw [if_neg hc]; exact h

/-- **`ApplyDigest` discovers**: a digest entry about a node that is unknown and has not left creates
the version-0 view `{id, addr}` (address taken from a digest entry about that node) and emits
`join` -/
theorem applyDigest_discovers (d : Digest) (s : CState) {de : DigestEntry} (hde : de ∈ d)
    (hl : de.left = false) (hf : s.nodes.find de.id = none) :
    ∃ de' ∈ d, de'.id = de.id ∧
      (applyDigest s d).1.nodes.find de.id = some { id := de.id, addr := de'.addr } ∧
      Event.join de.id ∈ (applyDigest s d).2 := by
  unfold applyDigest
  suffices hgen : ∀ (d : Digest) (acc : CState × List Event), de ∈ d → acc.1.nodes.find de.id = none →
      ∃ de' ∈ d, de'.id = de.id ∧
        (d.foldl applyDigestEntry acc).1.nodes.find de.id = some { id := de.id, addr := de'.addr } ∧
        Event.join de.id ∈ (d.foldl applyDigestEntry acc).2 from hgen d (s, []) hde hf
  intro d
  induction d with
  | nil => intro acc h; cases h
  | cons x d ih =>
    intro acc hmem hnone
    rw [List.foldl_cons]
    by_cases hx : x.id = de.id ∧ x.left = false
    · -- this entry creates the view
      obtain ⟨hxid, hxl⟩ := hx
      have hstep : applyDigestEntry acc x =
          ({ acc.1 with nodes := acc.1.nodes.insert x.id { id := x.id, addr := x.addr } },
            acc.2 ++ [.join x.id]) := by
        unfold applyDigestEntry
        rw [hxid, hnone]
        simp [hxl]
      refine ⟨x, List.mem_cons_self .., hxid, ?_, ?_⟩
      · apply applyDigest_find_mono
        rw [hstep, ← hxid]; simp
      · apply applyDigest_events_mono
        rw [hstep, ← hxid]; simp
    · have hne : de ≠ x := by rintro rfl; exact hx ⟨rfl, hl⟩
      have hmem' : de ∈ d := by
        rcases List.mem_cons.mp hmem with h | h
        · exact absurd h hne
        · exact h
      have hnone' : (applyDigestEntry acc x).1.nodes.find de.id = none := by
        rw [(applyDigestEntry_spec acc x).2 de.id]
        have : ¬ (acc.1.nodes.find x.id = none ∧ x.left = false ∧ x.id = de.id) :=
          fun ⟨_, h2, h3⟩ => hx ⟨h3, h2⟩
        rw [if_neg this]; exact hnone
      obtain ⟨de', hde', h⟩ := ih (applyDigestEntry acc x) hmem' hnone'
      exact ⟨de', List.mem_cons_of_mem _ hde', h⟩

/-! ### small list facts -/

/-- the last element of a strictly version-sorted list has the greatest version -/
theorem le_getLast_of_sorted {es : List Entry} (hs : es.Pairwise (fun x y => x.version < y.version))
    {e l : Entry} (he : e ∈ es) (hl : es.getLast? = some l) : e.version ≤ l.version := by
  rcases List.mem_iff_append.mp he with ⟨pre, post, hsplit⟩
  cases post with
  | nil =>
    rw [hsplit] at hl
    simp at hl
    rw [← hl]; exact Nat.le_refl _
  | cons p ps =>
    rw [hsplit] at hs hl
    have hlin : l ∈ p :: ps := by
      rw [List.getLast?_append_cons, List.getLast?_cons_cons] at hl
      exact List.mem_of_getLast? (l := p :: ps) (by simpa using hl)
    have := (List.pairwise_append.mp hs).2.1
    have h2 := (List.pairwise_cons.mp this).1 l hlin
    omega

theorem getElem?_pool_snd {α : Type} (l : List α) (p x : α) (t : List α) :
    ((l ++ [p]) ++ x :: t)[l.length + 1]? = some x := by
  rw [List.getElem?_append_right (by simp)]
  simp

theorem getElem?_pool_third {α : Type} (l : List α) (p x y : α) (t : List α) :
    ((l ++ [p]) ++ x :: y :: t)[l.length + 2]? = some y := by
  rw [List.getElem?_append_right (by simp)]
  simp

/-! ### "the packets fit" -/

/-- **The packets of a round `r → a` fit** in state `g`: the digest `r` sends (selection `perm`, cut
after `cut` entries) still carries an entry about `a`, and the reply `a` computes, cut after `cut2`
whole items (what `maxPacketSize` leaves, `C13_prefix_is_net_cut`), still contains, untruncated,
whatever it carries about `a` itself. -/
def RoundFits (g : GNet) (r a : String) (perm : List Nat) (cut cut2 : Nat) : Prop :=
  ∀ sr sa, g.net.nodes.find r = some sr → g.net.nodes.find a = some sa →
    (∃ de ∈ roundDigest sr perm cut, de.id = a) ∧
    ∀ x ∈ roundReply sa (roundDigest sr perm cut), x.id = a →
      x ∈ cutDelta cut2 (roundReply sa (roundDigest sr perm cut))

/-- the full digest and an uncut reply fit: `perm = List.range n`, `cut = n` with `n` at least the
number of nodes `r` remembers, and `cut2` at least the item count of the reply -/
theorem roundFits_of_full {g : GNet} (h : NetInv g) {r a : String} {sr sa : CState} {V : NodeSt}
    (hr : g.net.nodes.find r = some sr) (ha : g.net.nodes.find a = some sa)
    (hV : sr.nodes.find a = some V) {n cut2 : Nat} (hn : (digest sr).length ≤ n)
    (hc : deltaItems (roundReply sa (roundDigest sr (List.range n) n)) ≤ cut2) :
    RoundFits g r a (List.range n) n cut2 := by
  intro sr' sa' hr' ha'
  rw [hr] at hr'; cases hr'
  rw [ha] at ha'; cases ha'
  have hnode := h.node r sr hr
  refine ⟨fullDigest_contains hnode.nd hnode.recv.ids hV hn, ?_⟩
  intro x hx _
  rw [cutDelta_all _ _ hc]; exact hx

/-- the schedule `sched` (a continuation of the history `ops`, latest first) contains, contiguously
and in order, the three steps of a datagram round `r → a` (`addr` = `a`'s gossip address) whose
packets fit in the state the round starts from -/
def HasFittingRound (ops sched : List Op) (r a addr : String) : Prop :=
  ∃ (pre post : List Op) (perm : List Nat) (cut cut2 : Nat) (perm2 : List Nat) (dcut2 now2 now3 : Nat),
    sched = post ++ (pullRound (runRev (pre ++ ops)).net.pool.length r addr perm cut cut2 perm2 dcut2 now2 now3
      ++ pre) ∧
    RoundFits (runRev (pre ++ ops)) r a perm cut cut2

/-- a digest entry about node `a` is the one built from the sender's view of `a` -/
theorem mem_digest_eq {s : CState} (hnd : s.nodes.NoDupKeys)
    (hids : ∀ a V, s.nodes.find a = some V → V.id = a) {de : DigestEntry} (hde : de ∈ digest s)
    {n : NodeSt} (hf : s.nodes.find de.id = some n) :
    de = { id := n.id, addr := n.addr, version := n.version, left := n.left } := by
  unfold digest at hde
  obtain ⟨n', hn', rfl⟩ := List.mem_map.mp hde
  obtain ⟨k, hk⟩ := (AMap.mem_vals_iff hnd).mp hn'
  have := hids k n' hk
  simp only at hf
  rw [this, hk] at hf; cases hf; rfl

/-- **The network after one datagram round** `r → a` (three steps, see `pullRound`): `a` has applied
`r`'s digest (its own node untouched), `r` has applied the cut reply, and the pool holds the request,
the delta reply and the digest reply, in this order, after everything it held before. -/
theorem pullRound_net {ops : List Op} (h : AllowedRev ops) {r a : String} {sr sa : CState}
    (hr : (runRev ops).net.nodes.find r = some sr) (ha : (runRev ops).net.nodes.find a = some sa)
    (hne : r ≠ a) (perm : List Nat) (cut cut2 : Nat) (perm2 : List Nat) (dcut2 now2 now3 : Nat) :
    (runRev (pullRound (runRev ops).net.pool.length r (own sa).addr perm cut cut2 perm2 dcut2 now2 now3
        ++ ops)).net =
      { nodes := ((runRev ops).net.nodes.insert a (applyDigest sa (roundDigest sr perm cut)).1).insert r
          (applyDelta now3 sr (cutDelta cut2 (roundReply sa (roundDigest sr perm cut)))).1,
        pool := ((runRev ops).net.pool ++
            [Packet.digest (own sr).id (own sr).addr (own sa).addr true (roundDigest sr perm cut)]) ++
          [Packet.delta (own sa).id (own sa).addr (own sr).addr
              (cutDelta cut2 (roundReply sa (roundDigest sr perm cut))),
           Packet.digest (own sa).id (own sa).addr (own sr).addr false
              (roundDigest (applyDigest sa (roundDigest sr perm cut)).1 perm2 dcut2)] } := by
  simp only [pullRound, List.cons_append, List.nil_append]
  have hinv := netInv_runRev ops h
  generalize hD : roundDigest sr perm cut = D
  generalize hi : (runRev ops).net.pool.length = i
  have hall1 : AllowedRev (.sendDigest r (own sa).addr true perm cut :: ops) := ⟨h, trivial⟩
  have e1 : (runRev (.sendDigest r (own sa).addr true perm cut :: ops)).net =
      { nodes := (runRev ops).net.nodes,
        pool := (runRev ops).net.pool ++ [Packet.digest (own sr).id (own sr).addr (own sa).addr true D] } := by
    rw [runRev_net_cons, step_sendDigest hr, hD]
  have ha1 : (runRev (.sendDigest r (own sa).addr true perm cut :: ops)).net.nodes.find a = some sa := by
    rw [e1]; exact ha
  have hb1 := nodeByAddr_of_find (netInv_runRev _ hall1) ha1
  have hp1 : (runRev (.sendDigest r (own sa).addr true perm cut :: ops)).net.pool[i]? =
      some (Packet.digest (own sr).id (own sr).addr (own sa).addr true D) := by
    rw [e1, ← hi]; simp
  have hall2 : AllowedRev (.deliver i cut2 perm2 dcut2 now2 :: .sendDigest r (own sa).addr true perm cut :: ops) :=
    ⟨hall1, trivial⟩
  have e2 := step_deliver_digest hp1 hb1 cut2 perm2 dcut2 now2
  rw [← runRev_net_cons, e1] at e2
  simp only [if_true] at e2
  have hown1 : own (applyDigest sa D).1 = own sa := own_applyDigest D sa (hinv.node a sa ha).recv.ownPresent
  rw [hown1] at e2
  have hr2 : (runRev (.deliver i cut2 perm2 dcut2 now2 :: .sendDigest r (own sa).addr true perm cut :: ops)).net.nodes.find r =
      some sr := by
    rw [e2]; simp only; rw [AMap.find_insert_ne _ _ hne]; exact hr
  have hb2 := nodeByAddr_of_find (netInv_runRev _ hall2) hr2
  have hp2 : (runRev (.deliver i cut2 perm2 dcut2 now2 :: .sendDigest r (own sa).addr true perm cut :: ops)).net.pool[i + 1]? =
      some (Packet.delta (own sa).id (own sa).addr (own sr).addr
        (cutDelta cut2 (delta (applyDigest sa D).1 D false))) := by
    rw [e2, ← hi]; exact getElem?_pool_snd _ _ _ _
  have e3 := step_deliver_delta hp2 hb2 0 [] 0 now3
  rw [← runRev_net_cons] at e3
  rw [e3, e2]
  rfl

end Piko.Gossip
