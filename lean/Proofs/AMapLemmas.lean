import PikoModel.Data.AMap
/-!
# Generic lemmas about association-list maps (`PikoModel/Data/AMap.lean`)

Membership characterisations of `erase`/`insert`, the equivalence between membership and
`find` on maps with distinct keys, and `find` on a map built from a value list through a
key function (the shape `CompactLocal` rebuilds its map in).
-/
namespace Piko.AMap
variable {κ ν : Type} [DecidableEq κ]

theorem mem_erase {m : AMap κ ν} {k : κ} {p : κ × ν} : p ∈ erase m k ↔ p ∈ m ∧ p.1 ≠ k := by
  simp [erase, List.mem_filter]

theorem mem_insert {m : AMap κ ν} {k : κ} {v : ν} {p : κ × ν} :
    p ∈ insert m k v ↔ p = (k, v) ∨ (p ∈ m ∧ p.1 ≠ k) := by
  simp [insert, mem_erase]

omit [DecidableEq κ] in
theorem mem_keys_of_mem {m : AMap κ ν} {p : κ × ν} (h : p ∈ m) : p.1 ∈ keys m :=
  List.mem_map.mpr ⟨p, h, rfl⟩

omit [DecidableEq κ] in
theorem mem_vals {m : AMap κ ν} {v : ν} : v ∈ vals m ↔ ∃ k, (k, v) ∈ m := by
  simp [vals]

theorem find_eq_none_iff {m : AMap κ ν} {k : κ} : find m k = none ↔ ∀ p ∈ m, p.1 ≠ k := by
  induction m with
  | nil => simp
  | cons q m ih =>
    obtain ⟨k', v'⟩ := q
    by_cases h : k' = k
    · simp [h]
    · simp [h, ih]

/-- on a map with distinct keys a stored pair is what `find` returns -/
theorem find_of_mem {m : AMap κ ν} (h : NoDupKeys m) {k : κ} {v : ν} (hm : (k, v) ∈ m) :
    find m k = some v := by
  induction m with
  | nil => simp at hm
  | cons q m ih =>
    obtain ⟨k', v'⟩ := q
    have hnd : k' ∉ keys m ∧ NoDupKeys m := by
      simpa [NoDupKeys, keys] using h
    by_cases hk : k' = k
    · subst hk
      rcases List.mem_cons.mp hm with e | e
      · cases e; simp
      · exact absurd (mem_keys_of_mem e) hnd.1
    · rcases List.mem_cons.mp hm with e | e
      · cases e; exact absurd rfl hk
      · simp [hk, ih hnd.2 e]

theorem mem_iff_find {m : AMap κ ν} (h : NoDupKeys m) {k : κ} {v : ν} :
    (k, v) ∈ m ↔ find m k = some v :=
  ⟨find_of_mem h, mem_of_find⟩

omit [DecidableEq κ] in
theorem keys_map_key (f : ν → κ) (l : List ν) :
    keys (l.map (fun e => (f e, e)) : AMap κ ν) = l.map f := by
  simp [keys, List.map_map, Function.comp_def]

omit [DecidableEq κ] in
theorem vals_map_key (f : ν → κ) (l : List ν) :
    vals (l.map (fun e => (f e, e)) : AMap κ ν) = l := by
  simp [vals, List.map_map, Function.comp_def]

theorem find_map_key (f : ν → κ) (l : List ν) (k : κ) :
    find (l.map (fun e => (f e, e)) : AMap κ ν) k = l.find? (fun e => decide (f e = k)) := by
  induction l with
  | nil => rfl
  | cons a l ih =>
    by_cases h : f a = k
    · simp [h]
    · simp [h, ih]

omit [DecidableEq κ] in
theorem eq_nil_of_vals_eq_nil {m : AMap κ ν} (h : vals m = []) : m = [] := by
  simpa [vals] using h

end Piko.AMap
