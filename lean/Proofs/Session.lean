import PikoModel.Upstream.Session
import Proofs.MgrSpec
import Mathlib.Data.List.Nodup
/-!
# The upstream connection lifecycle: invariant of `Session.Srv` over all interleavings

`SInv` ties the three stores of the node to the per-connection phases:

* a connection id is in the manager's registry for endpoint `e` **iff** the connection is for
  `e`, holds a registry slot (registered, or exiting with its `RemoveConn` still pending) and
  was not lazily removed by the proxy;
* it is in `Server.sessions` iff its phase holds the session;
* the manager invariant `MInv` of C05 (registry = cluster-local counts = advertised entries).

Every event preserves it, hence it holds in every reachable state.
-/
namespace Piko.Upstream.Session
open Piko Piko.Upstream

/-- ghost bookkeeping of one connection: which deferred calls have run -/
def Conn.Wf (conn : Conn) : Prop :=
  match conn.phase with
  | .accepted => conn.did = [] ∧ conn.lazy = false
  | .registered => conn.did = []
  | .exiting _ ds => conn.did ++ ds = exitDefers ∧ ds ≠ []
  | .released => conn.did = exitDefers

structure SInv (s : Srv) : Prop where
  mgr : MInv s.mgr
  reg : ∀ c e, c ∈ s.mgr.registry e ↔
    ∃ conn, s.conns.find c = some conn ∧ conn.ep = e ∧ conn.inReg = true
  nodup : ∀ e, (s.mgr.registry e).Nodup
  sess : ∀ c, c ∈ s.sessions ↔
    ∃ conn, s.conns.find c = some conn ∧ conn.phase.holdsSession = true
  wf : ∀ c conn, s.conns.find c = some conn → conn.Wf

theorem sinv_init (id proxy admin : String) : SInv (Srv.init id proxy admin) := by
  refine ⟨inv_init id proxy admin, ?_, ?_, ?_, ?_⟩
  · intro c e; simp [Srv.init, Mgr.init, Mgr.registry]
  · intro e; simp [Srv.init, Mgr.init, Mgr.registry]
  · intro c; simp [Srv.init]
  · intro c conn h; simp [Srv.init] at h

/-- the four positions of the exit sequence -/
theorem exit_positions {did ds : List Deferred} {d : Deferred} (h : did ++ d :: ds = exitDefers) :
    (did = [] ∧ d = .removeConn ∧ ds = [.removeSession, .sessClose, .connClose]) ∨
    (did = [.removeConn] ∧ d = .removeSession ∧ ds = [.sessClose, .connClose]) ∨
    (did = [.removeConn, .removeSession] ∧ d = .sessClose ∧ ds = [.connClose]) ∨
    (did = [.removeConn, .removeSession, .sessClose] ∧ d = .connClose ∧ ds = []) := by
  unfold exitDefers at h
  rcases did with _ | ⟨a, _ | ⟨b, _ | ⟨c, _ | ⟨e, t⟩⟩⟩⟩
  · simp at h; obtain ⟨h1, h2⟩ := h; subst h1; subst h2; simp
  · simp at h; obtain ⟨h1, h2, h3⟩ := h; subst h1; subst h2; subst h3; simp
  · simp at h; obtain ⟨h1, h2, h3, h4⟩ := h; subst h1; subst h2; subst h3; subst h4; simp
  · simp at h; obtain ⟨h1, h2, h3, h4, h5⟩ := h; subst h1; subst h2; subst h3; subst h4; subst h5; simp
  · simp at h

/-! ### generic update of one connection record -/

/-- Replace the record of an existing connection `c` by `conn₁`, the manager by `mgr'` and the
session set by `ss'`; the invariant is kept if the registry and session set change exactly at
`c` and as the new record says. -/
theorem sinv_update {s : Srv} (h : SInv s) (c : Nat) (conn conn₁ : Conn) (mgr' : Mgr)
    (ss' : List Nat) (cancelled' : Bool)
    (hfind : s.conns.find c = some conn)
    (hm : MInv mgr')
    (hother : ∀ c' e, c' ≠ c → (c' ∈ mgr'.registry e ↔ c' ∈ s.mgr.registry e))
    (hself : ∀ e, c ∈ mgr'.registry e ↔ (conn₁.ep = e ∧ conn₁.inReg = true))
    (hnodup : ∀ e, (mgr'.registry e).Nodup)
    (hsother : ∀ c', c' ≠ c → (c' ∈ ss' ↔ c' ∈ s.sessions))
    (hsself : c ∈ ss' ↔ conn₁.phase.holdsSession = true)
    (hwf : conn₁.Wf) :
    SInv { mgr := mgr', sessions := ss', conns := s.conns.insert c conn₁, cancelled := cancelled' } := by
  refine ⟨hm, ?_, hnodup, ?_, ?_⟩
  · intro c' e
    simp only [AMap.find_insert]
    by_cases hc : c = c'
    · subst hc
      simp only [if_true, Option.some.injEq, exists_eq_left']
      exact hself e
    · have hc' : c' ≠ c := fun x => hc x.symm
      simp only [hc, if_false]
      rw [hother c' e hc']
      exact h.reg c' e
  · intro c'
    simp only [AMap.find_insert]
    by_cases hc : c = c'
    · subst hc
      simp only [if_true, Option.some.injEq, exists_eq_left']
      exact hsself
    · have hc' : c' ≠ c := fun x => hc x.symm
      simp only [hc, if_false]
      rw [hsother c' hc']
      exact h.sess c'
  · intro c' conn' hf
    simp only [AMap.find_insert] at hf
    by_cases hc : c = c'
    · simp only [hc, if_true, Option.some.injEq] at hf; subst hf; exact hwf
    · simp only [hc, if_false] at hf; exact h.wf c' conn' hf

theorem reg_self {s : Srv} (h : SInv s) {c : Nat} {conn : Conn} (hfind : s.conns.find c = some conn)
    (e : String) : c ∈ s.mgr.registry e ↔ (conn.ep = e ∧ conn.inReg = true) := by
  rw [h.reg c e]
  simp [hfind]

theorem sess_self {s : Srv} (h : SInv s) {c : Nat} {conn : Conn} (hfind : s.conns.find c = some conn) :
    c ∈ s.sessions ↔ conn.phase.holdsSession = true := by
  rw [h.sess c]
  simp [hfind]

/-! ### registry membership under AddConn / RemoveConn -/

theorem mem_registry_addConn (m : Mgr) (c : Nat) (ep : String) (c' : Nat) (e : String) :
    c' ∈ (m.addConn { id := c, ep := ep }).registry e ↔
      (c' ∈ m.registry e ∨ (ep = e ∧ c' = c)) := by
  rw [registry_addConn]
  by_cases he : ep = e <;> simp [he]

theorem mem_registry_removeConn (m : Mgr) (c : Nat) (ep : String) (c' : Nat) (e : String)
    (hnd : (m.registry e).Nodup) :
    c' ∈ (m.removeConn { id := c, ep := ep }).registry e ↔
      (c' ∈ m.registry e ∧ ¬ (ep = e ∧ c' = c)) := by
  rw [registry_removeConn]
  by_cases he : ep = e
  · simp only [he, if_true, true_and]
    rw [hnd.mem_erase_iff]
    exact and_comm
  · simp [he]

theorem nodup_registry_removeConn (m : Mgr) (c : Nat) (ep : String) (e : String)
    (hnd : (m.registry e).Nodup) : ((m.removeConn { id := c, ep := ep }).registry e).Nodup := by
  rw [registry_removeConn]
  by_cases he : ep = e
  · simp only [he, if_true]; exact hnd.erase _
  · simp only [he, if_false]; exact hnd

/-- the manager/registry part of running `RemoveConn` for connection `c`, whose new record no
longer claims a registry slot -/
theorem sinv_removeConn {s : Srv} (h : SInv s) (c : Nat) (conn conn₁ : Conn)
    (hfind : s.conns.find c = some conn)
    (hep : conn₁.ep = conn.ep) (hnot : conn₁.inReg = false)
    (hsess : conn₁.phase.holdsSession = conn.phase.holdsSession)
    (hwf : conn₁.Wf) :
    SInv { mgr := s.mgr.removeConn { id := c, ep := conn.ep }, sessions := s.sessions,
           conns := s.conns.insert c conn₁, cancelled := s.cancelled } := by
  apply sinv_update h c conn conn₁ _ _ _ hfind (inv_removeConn _ _ h.mgr)
  · intro c' e hc'
    rw [mem_registry_removeConn _ _ _ _ _ (h.nodup e)]
    constructor
    · exact fun x => x.1
    · exact fun x => ⟨x, fun y => hc' y.2⟩
  · intro e
    rw [mem_registry_removeConn _ _ _ _ _ (h.nodup e), reg_self h hfind e]
    constructor
    · rintro ⟨⟨he, _⟩, hn⟩
      exact absurd ⟨he, rfl⟩ hn
    · rintro ⟨_, h2⟩
      rw [hnot] at h2; cases h2
  · intro e; exact nodup_registry_removeConn _ _ _ _ (h.nodup e)
  · intro c' _; exact Iff.rfl
  · rw [sess_self h hfind, hsess]
  · exact hwf

/-- updating only the record of `c` without changing what it claims -/
theorem sinv_record {s : Srv} (h : SInv s) (c : Nat) (conn conn₁ : Conn)
    (hfind : s.conns.find c = some conn)
    (hep : conn₁.ep = conn.ep) (hreg : conn₁.inReg = conn.inReg)
    (hsess : conn₁.phase.holdsSession = conn.phase.holdsSession)
    (hwf : conn₁.Wf) :
    SInv { mgr := s.mgr, sessions := s.sessions, conns := s.conns.insert c conn₁,
           cancelled := s.cancelled } := by
  apply sinv_update h c conn conn₁ _ _ _ hfind h.mgr
  · intro c' e _; exact Iff.rfl
  · intro e; rw [reg_self h hfind e, hep, hreg]
  · exact h.nodup
  · intro c' _; exact Iff.rfl
  · rw [sess_self h hfind, hsess]
  · exact hwf

/-! ### every event preserves the invariant -/

theorem sinv_accept {s : Srv} (h : SInv s) (c : Nat) (ep : String) (dl : Option Nat) :
    SInv (s.step (.accept c ep dl)) := by
  simp only [Srv.step]
  by_cases hc : s.cancelled = true
  · simp [hc]; exact h
  simp only [hc, Bool.false_eq_true, if_false]
  cases hf : s.conns.find c with
  | some _ => exact h
  | none =>
    have hns : c ∉ s.sessions := by
      intro hin
      obtain ⟨conn, hfc, _⟩ := (h.sess c).mp hin
      rw [hf] at hfc; cases hfc
    have hnr : ∀ e, c ∉ s.mgr.registry e := by
      intro e hin
      obtain ⟨conn, hfc, _⟩ := (h.reg c e).mp hin
      rw [hf] at hfc; cases hfc
    refine ⟨h.mgr, ?_, h.nodup, ?_, ?_⟩
    · intro c' e
      simp only [AMap.find_insert]
      by_cases hcc : c = c'
      · subst hcc
        simp only [if_true, Option.some.injEq, exists_eq_left']
        simp [Conn.inReg, Phase.holdsReg, hnr e]
      · simp only [hcc, if_false]; exact h.reg c' e
    · intro c'
      simp only [AMap.find_insert, addSession, hns, if_false, List.mem_append, List.mem_singleton]
      by_cases hcc : c = c'
      · subst hcc
        simp [Phase.holdsSession]
      · have : ¬ c' = c := fun x => hcc x.symm
        simp only [hcc, if_false, this, or_false]; exact h.sess c'
    · intro c' conn' hf'
      simp only [AMap.find_insert] at hf'
      by_cases hcc : c = c'
      · simp only [hcc, if_true, Option.some.injEq] at hf'; subst hf'
        simp [Conn.Wf]
      · simp only [hcc, if_false] at hf'; exact h.wf c' conn' hf'

theorem sinv_register {s : Srv} (h : SInv s) (c : Nat) : SInv (s.step (.register c)) := by
  simp only [Srv.step]
  cases hf : s.conns.find c with
  | none => exact h
  | some conn =>
    by_cases hp : conn.phase = .accepted
    swap
    · simp only [hp, if_false]; exact h
    simp only [hp, if_true]
    have hwf := h.wf c conn hf
    simp only [Conn.Wf, hp] at hwf
    have hnin : ∀ e, c ∉ s.mgr.registry e := by
      intro e hin
      have := (reg_self h hf e).mp hin
      simp [Conn.inReg, hp, Phase.holdsReg] at this
    apply sinv_update h c conn _ _ _ _ hf (inv_addConn _ _ h.mgr)
    · intro c' e hc'
      rw [mem_registry_addConn]
      simp [hc']
    · intro e
      rw [mem_registry_addConn]
      simp [hnin e, Conn.inReg, Phase.holdsReg, hwf.2]
    · intro e
      rw [registry_addConn]
      by_cases he : conn.ep = e
      · simp only [he, if_true]
        rw [List.nodup_append]
        refine ⟨h.nodup e, List.nodup_singleton _, ?_⟩
        intro a ha b hb hab
        simp only [List.mem_singleton] at hb
        subst hb; subst hab
        exact hnin e ha
      · simp only [he, if_false]; exact h.nodup e
    · intro c' _; exact Iff.rfl
    · rw [sess_self h hf]; simp [hp, Phase.holdsSession]
    · simp [Conn.Wf, hwf.1]

theorem sinv_fail {s : Srv} (h : SInv s) (c : Nat) (r : Reason) : SInv (s.step (.fail c r)) := by
  simp only [Srv.step]
  cases hf : s.conns.find c with
  | none => exact h
  | some conn =>
    simp only
    split
    next hcond =>
      simp only [Bool.and_eq_true, decide_eq_true_eq] at hcond
      have hp := hcond.1.1
      have hwf := h.wf c conn hf
      simp only [Conn.Wf, hp] at hwf
      unfold Srv.setConn
      refine sinv_record h c conn _ hf rfl ?_ ?_ ?_
      · simp [Conn.inReg, hp, Phase.holdsReg, exitDefers]
      · simp [hp, Phase.holdsSession, exitDefers]
      · simp [Conn.Wf, hwf, exitDefers]
    next => exact h

theorem sinv_goAway {s : Srv} (h : SInv s) (c : Nat) : SInv (s.step (.goAway c)) := by
  simp only [Srv.step]
  cases hf : s.conns.find c with
  | none => exact h
  | some conn =>
    simp only [Srv.setConn]
    refine sinv_record h c conn _ hf rfl rfl rfl ?_
    have := h.wf c conn hf
    unfold Conn.Wf at this ⊢
    exact this

theorem sinv_proxyRemove {s : Srv} (h : SInv s) (c : Nat) : SInv (s.step (.proxyRemove c)) := by
  simp only [Srv.step]
  cases hf : s.conns.find c with
  | none => exact h
  | some conn =>
    by_cases hp : conn.phase = .accepted
    · simp only [hp, if_true]; exact h
    simp only [hp, if_false, Srv.setConn]
    refine sinv_removeConn h c conn _ hf rfl ?_ ?_ ?_
    · simp [Conn.inReg]
    · rfl
    · have := h.wf c conn hf
      unfold Conn.Wf at this ⊢
      cases hph : conn.phase with
      | accepted => exact absurd hph hp
      | registered => simp only [hph] at this ⊢; exact this
      | exiting r ds => simp only [hph] at this ⊢; exact this
      | released => simp only [hph] at this ⊢; exact this

theorem sinv_defer {s : Srv} (h : SInv s) (c : Nat) : SInv (s.step (.defer c)) := by
  simp only [Srv.step]
  cases hf : s.conns.find c with
  | none => exact h
  | some conn =>
    have hwf := h.wf c conn hf
    cases hph : conn.phase with
    | accepted => simp only [hph]; exact h
    | registered => simp only [hph]; exact h
    | released => simp only [hph]; exact h
    | exiting r ds =>
      simp only [Conn.Wf, hph] at hwf
      cases ds with
      | nil => exact absurd rfl hwf.2
      | cons d ds =>
        simp only
        rcases exit_positions hwf.1 with ⟨hd, rfl, rfl⟩ | ⟨hd, rfl, rfl⟩ | ⟨hd, rfl, rfl⟩ | ⟨hd, rfl, rfl⟩
        · -- RemoveConn
          simp only [hph, runDeferred, Srv.setConn, List.isEmpty_cons, Bool.false_eq_true, if_false]
          refine sinv_removeConn h c conn _ hf ?_ ?_ ?_ ?_
          · rfl
          · simp [Conn.inReg, Phase.holdsReg]
          · simp [hph, Phase.holdsSession]
          · simp [Conn.Wf, hd, exitDefers]
        · -- removeSession
          simp only [hph, runDeferred, Srv.setConn, List.isEmpty_cons, Bool.false_eq_true, if_false]
          refine sinv_update h c conn _ _ _ _ hf h.mgr ?_ ?_ ?_ ?_ ?_ ?_
          · intro c' e _; exact Iff.rfl
          · intro e; rw [reg_self h hf e]
            simp [Conn.inReg, hph, Phase.holdsReg]
          · exact h.nodup
          · intro c' hc'
            simp [removeSession, hc']
          · simp [removeSession, Phase.holdsSession]
          · simp [Conn.Wf, hd, exitDefers]
        · -- sess.Close
          simp only [hph, runDeferred, Srv.setConn, List.isEmpty_cons, Bool.false_eq_true, if_false]
          refine sinv_record h c conn _ hf ?_ ?_ ?_ ?_
          · rfl
          · simp [Conn.inReg, hph, Phase.holdsReg]
          · simp [hph, Phase.holdsSession]
          · simp [Conn.Wf, hd, exitDefers]
        · -- conn.Close: the handler is done
          simp only [hph, runDeferred, Srv.setConn, List.isEmpty_nil, if_true]
          refine sinv_record h c conn _ hf ?_ ?_ ?_ ?_
          · rfl
          · simp [Conn.inReg, hph, Phase.holdsReg]
          · simp [hph, Phase.holdsSession]
          · simp [Conn.Wf, hd, exitDefers]

theorem sinv_step {s : Srv} (h : SInv s) (ev : Ev) : SInv (s.step ev) := by
  cases ev with
  | accept c ep dl => exact sinv_accept h c ep dl
  | register c => exact sinv_register h c
  | stream c => exact h
  | fail c r => exact sinv_fail h c r
  | defer c => exact sinv_defer h c
  | goAway c => exact sinv_goAway h c
  | proxyRemove c => exact sinv_proxyRemove h c
  | serverShutdown => exact ⟨h.mgr, h.reg, h.nodup, h.sess, h.wf⟩

theorem sinv_run (evs : List Ev) : ∀ {s : Srv}, SInv s → SInv (s.run evs) := by
  induction evs with
  | nil => intro s h; exact h
  | cons ev evs ih => intro s h; exact ih (sinv_step h ev)

theorem sinv_reach (id proxy admin : String) (evs : List Ev) : SInv (reachS id proxy admin evs) :=
  sinv_run evs (sinv_init id proxy admin)

/-! ### consequences -/

theorem amap_nil_of_find_none {κ ν : Type} [DecidableEq κ] (m : AMap κ ν)
    (h : ∀ k, m.find k = none) : m = [] := by
  cases m with
  | nil => rfl
  | cons p m =>
    obtain ⟨k, v⟩ := p
    have := h k
    simp at this

/-- nothing registered ⇒ the manager map, the cluster-local endpoints and the advertised
entries are empty -/
theorem empty_of_registry_nil {m : Mgr} (h : MInv m) (hreg : ∀ e, m.registry e = []) :
    m.lbs = [] ∧ m.cluster.localNode.endpoints = [] ∧ ∀ e, advertised m e = none := by
  refine ⟨?_, ?_, ?_⟩
  · apply amap_nil_of_find_none
    intro e
    cases hf : m.lbs.find e with
    | none => rfl
    | some lb =>
      have := (h.lbs e lb hf).1
      rw [← registry_of_find hf, hreg e] at this
      exact absurd rfl this
  · apply amap_nil_of_find_none
    intro e
    rw [h.counts e, hreg e]; rfl
  · intro e
    rw [h.adv e, hreg e]; rfl

/-! ### lazy removal only after go-away, when the proxy is faithful -/

/-- the proxy is faithful when it calls `RemoveConn` only after `Dial` returned `ErrGone`,
i.e. only for a connection whose go-away has been received -/
def proxyFaithful (s : Srv) : Ev → Prop
  | .proxyRemove c => ∀ conn, s.conns.find c = some conn → conn.goneAway = true
  | _ => True

def FaithfulRun : Srv → List Ev → Prop
  | _, [] => True
  | s, ev :: evs => proxyFaithful s ev ∧ FaithfulRun (s.step ev) evs

theorem lazy_goneAway_step {s : Srv} (h : ∀ c conn, s.conns.find c = some conn → conn.lazy = true → conn.goneAway = true)
    (ev : Ev) (hf : proxyFaithful s ev) :
    ∀ c conn, (s.step ev).conns.find c = some conn → conn.lazy = true → conn.goneAway = true := by
  intro c conn
  cases ev with
  | accept c' ep dl =>
    simp only [Srv.step]
    by_cases hc : s.cancelled = true
    · simp only [hc, if_true]; exact h c conn
    simp only [hc, Bool.false_eq_true, if_false]
    cases hfc : s.conns.find c' with
    | some _ => exact h c conn
    | none =>
      simp only [AMap.find_insert]
      by_cases hcc : c' = c
      · simp only [hcc, if_true, Option.some.injEq]
        intro he hl; subst he; simp at hl
      · simp only [hcc, if_false]; exact h c conn
  | register c' =>
    simp only [Srv.step]
    cases hfc : s.conns.find c' with
    | none => exact h c conn
    | some conn0 =>
      by_cases hp : conn0.phase = .accepted
      swap
      · simp only [hp, if_false]; exact h c conn
      simp only [hp, if_true, AMap.find_insert]
      by_cases hcc : c' = c
      · simp only [hcc, if_true, Option.some.injEq]
        intro he hl; subst he
        exact h c' conn0 hfc hl
      · simp only [hcc, if_false]; exact h c conn
  | stream c' => exact h c conn
  | fail c' r =>
    simp only [Srv.step]
    cases hfc : s.conns.find c' with
    | none => exact h c conn
    | some conn0 =>
      simp only
      split
      · simp only [Srv.setConn, AMap.find_insert]
        by_cases hcc : c' = c
        · simp only [hcc, if_true, Option.some.injEq]
          intro he hl; subst he
          exact h c' conn0 hfc hl
        · simp only [hcc, if_false]; exact h c conn
      · exact h c conn
  | defer c' =>
    simp only [Srv.step]
    cases hfc : s.conns.find c' with
    | none => exact h c conn
    | some conn0 =>
      simp only
      split
      · simp only [Srv.setConn, AMap.find_insert]
        by_cases hcc : c' = c
        · simp only [hcc, if_true, Option.some.injEq]
          intro he hl; subst he
          exact h c' conn0 hfc hl
        · simp only [hcc, if_false]
          rename_i d _ _
          cases d <;> exact h c conn
      · simp only [Srv.setConn, AMap.find_insert]
        by_cases hcc : c' = c
        · simp only [hcc, if_true, Option.some.injEq]
          intro he hl; subst he
          exact h c' conn0 hfc hl
        · simp only [hcc, if_false]; exact h c conn
      · exact h c conn
  | goAway c' =>
    simp only [Srv.step]
    cases hfc : s.conns.find c' with
    | none => exact h c conn
    | some conn0 =>
      simp only [Srv.setConn, AMap.find_insert]
      by_cases hcc : c' = c
      · simp only [hcc, if_true, Option.some.injEq]
        intro he _; subst he; rfl
      · simp only [hcc, if_false]; exact h c conn
  | proxyRemove c' =>
    simp only [Srv.step]
    cases hfc : s.conns.find c' with
    | none => exact h c conn
    | some conn0 =>
      by_cases hp : conn0.phase = .accepted
      · simp only [hp, if_true]; exact h c conn
      simp only [hp, if_false, Srv.setConn, AMap.find_insert]
      by_cases hcc : c' = c
      · simp only [hcc, if_true, Option.some.injEq]
        intro he _; subst he
        exact hf conn0 hfc
      · simp only [hcc, if_false]; exact h c conn
  | serverShutdown => exact h c conn

end Piko.Upstream.Session
