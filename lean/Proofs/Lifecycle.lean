import PikoModel.Node.Lifecycle
import PikoModel.Cluster.Syncer
import Proofs.Session
import Proofs.C17
import Proofs.C11
/-!
# Losing a node: lemmas for C18

* `GInv`: the own gossip state of a node driven only by its manager (`AddConn`/`RemoveConn`)
  is well formed (`OwnWF` of C17), has not left, and holds no internal entry;
* the delta `LocalDelta` after `LeaveLocal`: contains the left marker with the strictly
  greatest version (so it is the last entry), and - when nothing is advertised any more - no
  live endpoint entry;
* a receiver applying such an entry list reaches the marker: flagged `left`, `leave` notified;
* the syncer's `OnLeave` takes the node out of every `LookupEndpoint` candidate set;
* the shutdown schedule: the upstream server is shut down before the left marker is written.
-/
namespace Piko.Node
open Piko Piko.Gossip Piko.Upstream Piko.Upstream.Session

/-! ### the node's own gossip state under manager operations -/

/-- own gossip state of a node that has not left: well formed, no internal entries -/
structure GInv (g : CState) : Prop where
  wf : OwnWF g
  notLeft : (own g).left = false
  noInternal : ∀ p ∈ (own g).entries, p.2.internal = false

theorem own_writeOwn' (s : CState) (k : String) (mk : Nat → Entry) :
    own (writeOwn s k mk) =
      { own s with version := (own s).version + 1,
                   entries := (own s).entries.insert k (mk ((own s).version + 1)) } :=
  own_writeOwn s k mk

theorem ginv_writeOwn {g : CState} (h : GInv g) (k : String) (mk : Nat → Entry)
    (hk : (mk ((own g).version + 1)).key = k)
    (hv : (mk ((own g).version + 1)).version = (own g).version + 1)
    (hi : (mk ((own g).version + 1)).internal = false) : GInv (writeOwn g k mk) := by
  refine ⟨ownWF_writeOwn h.wf k mk hk hv, ?_, ?_⟩
  · rw [own_writeOwn']; exact h.notLeft
  · intro p hp
    rw [own_writeOwn'] at hp
    rcases AMap.mem_insert.mp hp with rfl | ⟨hp, _⟩
    · exact hi
    · exact h.noInternal p hp

theorem ginv_upsertLocal {g : CState} (h : GInv g) (k v : String) : GInv (upsertLocal g k v) := by
  rcases upsertLocal_cases g k v with ⟨_, e⟩ | ⟨_, e⟩ <;> rw [e]
  · exact h
  · exact ginv_writeOwn h k _ rfl rfl rfl

theorem ginv_deleteLocal {g : CState} (h : GInv g) (k : String) : GInv (deleteLocal g k) := by
  rcases deleteLocal_cases g k with ⟨_, e⟩ | ⟨e0, hf, _, e⟩ <;> rw [e]
  · exact h
  · exact ginv_writeOwn h k _ (show e0.key = k from h.wf.find_key hf) rfl
      (show e0.internal = false from h.noInternal (k, e0) (AMap.mem_of_find hf))

theorem ginv_onLocalEndpointUpdate {g : CState} (h : GInv g) (c : Cluster.State) (e : String) :
    GInv (onLocalEndpointUpdate c g e) := by
  unfold onLocalEndpointUpdate
  simp only
  split
  · exact ginv_upsertLocal h _ _
  · exact ginv_deleteLocal h _

theorem ginv_addConn {m : Mgr} (h : GInv m.gossip) (u : Up) : GInv (m.addConn u).gossip :=
  ginv_onLocalEndpointUpdate h _ _

theorem ginv_removeConn {m : Mgr} (h : GInv m.gossip) (u : Up) : GInv (m.removeConn u).gossip := by
  unfold Mgr.removeConn
  split
  · exact h
  · split
    · exact h
    · simp only
      split
      · exact ginv_onLocalEndpointUpdate h _ _
      · exact h

theorem ginv_init (id proxy admin : String) : GInv (Mgr.init id proxy admin).gossip := by
  have h0 : GInv (Gossip.init id "") := by
    have : own (Gossip.init id "") = { id := id, addr := "" } := by simp [own, Gossip.init]
    refine ⟨ownWF_init id "", by rw [this], by rw [this]; simp⟩
  simp only [Mgr.init, syncInit, Cluster.State.new, Cluster.State.localNode, AMap.find_cons, if_true,
    Option.getD_some, List.foldl_nil]
  exact ginv_upsertLocal (ginv_upsertLocal h0 _ _) _ _

theorem ginv_srv_step {s : Srv} (h : GInv s.mgr.gossip) (ev : Ev) : GInv (s.step ev).mgr.gossip := by
  cases ev with
  | accept c ep dl =>
    simp only [Srv.step]
    split
    · exact h
    · split <;> exact h
  | register c =>
    simp only [Srv.step]
    split
    · split
      · exact ginv_addConn h _
      · exact h
    · exact h
  | stream c => exact h
  | fail c r =>
    simp only [Srv.step]
    split
    · split <;> exact h
    · exact h
  | defer c =>
    simp only [Srv.step]
    split
    · split
      · rename_i d _ _
        cases d
        · exact ginv_removeConn h _
        · exact h
        · exact h
        · exact h
      · exact h
      · exact h
    · exact h
  | goAway c =>
    simp only [Srv.step]
    split <;> exact h
  | proxyRemove c =>
    simp only [Srv.step]
    split
    · split
      · exact h
      · exact ginv_removeConn h _
    · exact h
  | serverShutdown => exact h

theorem ginv_srv_run (evs : List Ev) : ∀ {s : Srv}, GInv s.mgr.gossip → GInv (s.run evs).mgr.gossip := by
  induction evs with
  | nil => intro s h; exact h
  | cons ev evs ih => intro s h; exact ih (ginv_srv_step h ev)

theorem ginv_reach (id proxy admin : String) (evs : List Ev) : GInv (reachS id proxy admin evs).mgr.gossip :=
  ginv_srv_run evs (ginv_init id proxy admin)

/-! ### the leave delta -/

/-- the left marker `LeaveLocal` writes on top of `g` -/
def marker (g : CState) : Entry :=
  { key := leftKey, value := "", version := (own g).version + 1, internal := true }

theorem marker_isLeft (g : CState) : C11.isLeftMarker (marker g) := ⟨rfl, rfl⟩

theorem own_leaveLocal {g : CState} (h : (own g).left = false) :
    own (leaveLocal g) = leftNode g := by
  rcases leaveLocal_cases g with ⟨hl, _⟩ | ⟨_, e⟩
  · rw [h] at hl; cases hl
  · rw [e, own_setOwn]

/-- the entries of the delta a node pushes when it leaves -/
def leaveEntries (g : CState) : List Entry := (deltaEntry (own (leaveLocal g)) 0).entries

theorem localDelta_leaveLocal (g : CState) :
    localDelta (leaveLocal g) =
      [{ id := (own (leaveLocal g)).id, addr := (own (leaveLocal g)).addr, entries := leaveEntries g }] := rfl

theorem mem_leaveEntries {g : CState} (h : GInv g) {x : Entry} (hx : x ∈ leaveEntries g) :
    x = marker g ∨ ((x.key, x) ∈ (own g).entries ∧ x.version ≤ (own g).version) := by
  unfold leaveEntries deltaEntry at hx
  simp only [mem_sortByVersion, List.mem_filter] at hx
  rw [own_leaveLocal h.notLeft] at hx
  obtain ⟨k, hk⟩ := AMap.mem_vals.mp hx.1
  simp only [leftNode] at hk
  rcases AMap.mem_insert.mp hk with heq | ⟨hp, _⟩
  · left
    have := congrArg Prod.snd heq
    simpa [marker] using this
  · right
    have hkey := h.wf.keyed (k, x) hp
    simp only at hkey
    subst hkey
    exact ⟨hp, h.wf.le_version _ hp⟩

theorem marker_mem_leaveEntries {g : CState} (h : GInv g) : marker g ∈ leaveEntries g := by
  unfold leaveEntries deltaEntry
  simp only [mem_sortByVersion, List.mem_filter]
  rw [own_leaveLocal h.notLeft]
  refine ⟨AMap.mem_vals.mpr ⟨leftKey, ?_⟩, by simp [marker]⟩
  simp only [leftNode]
  exact AMap.mem_insert.mpr (Or.inl rfl)

/-- the marker carries the strictly greatest version of the delta -/
theorem leaveEntries_lt_marker {g : CState} (h : GInv g) {x : Entry} (hx : x ∈ leaveEntries g) :
    x = marker g ∨ x.version < (marker g).version := by
  rcases mem_leaveEntries h hx with rfl | ⟨_, hle⟩
  · left; rfl
  · right; simp only [marker]; omega

/-- … hence it is the last entry of the (version-sorted) delta -/
theorem leaveEntries_getLast {g : CState} (h : GInv g) : (leaveEntries g).getLast? = some (marker g) := by
  have hmem := marker_mem_leaveEntries h
  have hsorted : (leaveEntries g).Pairwise (fun a b => a.version ≤ b.version) :=
    pairwise_sortByVersion _
  cases hl : (leaveEntries g).getLast? with
  | none =>
    rw [List.getLast?_eq_none_iff] at hl
    rw [hl] at hmem; cases hmem
  | some x =>
    have hx : x ∈ leaveEntries g := List.mem_of_getLast? hl
    have hge := le_getLast_of_pairwise hsorted hl (marker g) hmem
    rcases leaveEntries_lt_marker h hx with rfl | hlt
    · rfl
    · omega

/-- no entry of the delta is internal except the marker: nothing can abort the receiver's loop -/
theorem leaveEntries_internal {g : CState} (h : GInv g) {x : Entry} (hx : x ∈ leaveEntries g) :
    x = marker g ∨ x.internal = false := by
  rcases mem_leaveEntries h hx with rfl | ⟨hp, _⟩
  · left; rfl
  · right; exact h.noInternal _ hp

theorem epKey_ne_leftKey (e : String) : epKey e ≠ leftKey := by
  intro h
  exact ne_epKey_of_head (k := leftKey) '_' (by decide) (by decide) h.symm

/-- when the node advertises nothing, every endpoint entry of the leave delta is a tombstone -/
theorem leaveEntries_no_live_endpoint {g : CState} (h : GInv g)
    (hadv : ∀ e, liveValue g (epKey e) = none) {x : Entry} (hx : x ∈ leaveEntries g)
    (e : String) (hk : x.key = epKey e) : x.deleted = true := by
  rcases mem_leaveEntries h hx with rfl | ⟨hp, _⟩
  · exact absurd hk.symm (epKey_ne_leftKey e)
  · have hf : (own g).entries.find x.key = some x := AMap.find_of_mem h.wf.nodup hp
    have := hadv e
    unfold liveValue at this
    rw [← hk, hf] at this
    by_cases hd : x.deleted = true
    · exact hd
    · simp [hd] at this

/-! ### the receiver reaches the marker -/

theorem applyEntry_nonabort (now : Nat) (st : NodeSt) (e : Entry) (hi : e.internal = false) :
    (applyEntry now st e).2.2 = false ∧
    ((applyEntry now st e).1.version = st.version ∨ (applyEntry now st e).1.version = e.version) ∧
    (applyEntry now st e).1.id = st.id := by
  unfold applyEntry
  by_cases hv : e.version ≤ st.version
  · simp [hv]
  · simp only [hv, if_false, hi, Bool.false_eq_true]
    by_cases hd : e.deleted = true <;> simp [hd]

/-- a view older than the marker that applies an entry list in which the marker has the
strictly greatest version and nothing else is internal: ends `left` (expiring after
`nodeExpiry`) and `leave` is notified -/
theorem applyEntries_reaches_marker (now : Nat) (m : Entry) (hm : C11.isLeftMarker m) :
    ∀ (es : List Entry) (st : NodeSt),
      (∀ x ∈ es, x = m ∨ (x.version < m.version ∧ x.internal = false)) → m ∈ es →
      st.version < m.version →
      C11.LeftAt now (applyEntries now st es).1 ∧ Event.leave st.id ∈ (applyEntries now st es).2 := by
  intro es
  induction es with
  | nil => intro st _ hmem; cases hmem
  | cons e es ih =>
    intro st hall hmem hv
    rcases hall e (List.mem_cons_self) with rfl | ⟨hlt, hi⟩
    · exact C11.applyEntries_marker now st e es hm hv
    · have hmem' : m ∈ es := by
        rcases List.mem_cons.mp hmem with rfl | h
        · omega
        · exact h
      obtain ⟨hstop, hver, hid⟩ := applyEntry_nonabort now st e hi
      rw [C11.applyEntries_cons]
      simp only [hstop, Bool.false_eq_true, if_false]
      have hv' : (applyEntry now st e).1.version < m.version := by
        rcases hver with h | h <;> omega
      obtain ⟨h1, h2⟩ := ih _ (fun x hx => hall x (List.mem_cons_of_mem _ hx)) hmem' hv'
      refine ⟨h1, ?_⟩
      rw [hid] at h2
      exact List.mem_append_right _ h2

/-! ### the syncer takes a left node out of routing -/

/-- rows of the routing table are stored under their own id, ids distinct -/
structure TableOK (t : Cluster.State) : Prop where
  nodup : t.nodes.NoDupKeys
  keyed : ∀ p ∈ t.nodes, p.2.id = p.1

theorem candidates_active (t : Cluster.State) (e : String) :
    ∀ n ∈ t.lookupCandidates e, n.status = .active ∧ n.id ≠ t.localId := by
  intro n hn
  simp only [Cluster.State.lookupCandidates, List.mem_filter, Bool.and_eq_true, Bool.not_eq_true',
    decide_eq_false_iff_not, decide_eq_true_eq] at hn
  exact ⟨hn.2.1.2, hn.2.1.1⟩

/-- a row whose status is not `active` is never a candidate -/
theorem not_candidate_of_status {t : Cluster.State} (ht : TableOK t) (id : String)
    (h : ∀ n, t.nodes.find id = some n → n.status ≠ .active) (e : String) :
    ∀ n ∈ t.lookupCandidates e, n.id ≠ id := by
  intro n hn hid
  have hact := (candidates_active t e n hn).1
  simp only [Cluster.State.lookupCandidates, List.mem_filter] at hn
  obtain ⟨k, hk⟩ := AMap.mem_vals.mp hn.1
  have hkey := ht.keyed (k, n) hk
  simp only at hkey
  have hf : t.nodes.find k = some n := AMap.find_of_mem ht.nodup hk
  rw [← hkey, hid] at hf
  exact h n hf hact

theorem onLeave_table (s : Cluster.Sync) (id : String) (hid : id ≠ s.table.localId) :
    ∀ n, (s.onLeave id).table.nodes.find id = some n → n.status = .left := by
  intro n
  unfold Cluster.Sync.onLeave Cluster.Sync.tableElsePending
  simp only [hid, if_false]
  unfold Cluster.State.updateRemoteStatus Cluster.State.updateRemote
  simp only [hid, if_false]
  cases hf : s.table.nodes.find id with
  | none =>
    simp only
    split <;> simp [hf]
  | some n0 =>
    simp only [AMap.find_insert_self, Option.some.injEq]
    intro h; rw [← h]

theorem tableOK_onLeave {s : Cluster.Sync} (ht : TableOK s.table) (id : String) :
    TableOK (s.onLeave id).table := by
  unfold Cluster.Sync.onLeave Cluster.Sync.tableElsePending
  by_cases hid : id = s.table.localId
  · simp [hid]; exact ht
  simp only [hid, if_false]
  unfold Cluster.State.updateRemoteStatus Cluster.State.updateRemote
  simp only [hid, if_false]
  cases hf : s.table.nodes.find id with
  | none =>
    simp only
    split <;> exact ht
  | some n0 =>
    simp only
    refine ⟨ht.nodup.insert _ _, ?_⟩
    intro p hp
    rcases AMap.mem_insert.mp hp with rfl | ⟨hp, _⟩
    · exact ht.keyed (id, n0) (AMap.mem_of_find hf)
    · exact ht.keyed p hp

/-! ### the shutdown schedule -/

theorem cancelled_srv_step {s : Srv} (h : s.cancelled = true) (ev : Ev) : (s.step ev).cancelled = true := by
  cases ev with
  | accept c ep dl => simp [Srv.step, h]
  | register c =>
    simp only [Srv.step]
    split
    · split <;> exact h
    · exact h
  | stream c => exact h
  | fail c r =>
    simp only [Srv.step]
    split
    · split <;> exact h
    · exact h
  | defer c =>
    simp only [Srv.step]
    split
    · split
      · rename_i d _ _
        cases d <;> exact h
      · exact h
      · exact h
    · exact h
  | goAway c =>
    simp only [Srv.step]
    split <;> exact h
  | proxyRemove c =>
    simp only [Srv.step]
    split
    · split <;> exact h
    · exact h
  | serverShutdown => rfl

theorem cancelled_step {n : St} (h : n.srv.cancelled = true) (st : Step) : (n.step st).srv.cancelled = true := by
  cases st with
  | act a =>
    cases a <;> first | exact h | exact cancelled_srv_step h _
  | ev e => exact cancelled_srv_step h e

theorem cancelled_run (steps : List Step) : ∀ {n : St}, n.srv.cancelled = true → (n.run steps).srv.cancelled = true := by
  induction steps with
  | nil => intro n h; exact h
  | cons st steps ih => intro n h; exact ih (cancelled_step h st)

theorem leaveLocal_not_mem_tail (reached : List String) :
    Action.leaveLocal ∉ (reached.take maxLeaveNotified).map Action.pushLeave ++
      [.gossipClose, .adminShutdown, .waitGoroutines] := by
  intro h
  rcases List.mem_append.mp h with h | h
  · obtain ⟨p, _, hp⟩ := List.mem_map.mp h
    cases hp
  · simp at h

/-- the actions before `leaveLocal` in a shutdown schedule are exactly the first four -/
theorem actions_before_leave (reached : List String) (P Q : List Action)
    (h : P ++ Action.leaveLocal :: Q = shutdownActions reached) :
    P = [.stopJWKS, .notReady, .upstreamShutdown, .proxyShutdown] := by
  unfold shutdownActions at h
  have htail := leaveLocal_not_mem_tail reached
  rcases P with _ | ⟨p1, _ | ⟨p2, _ | ⟨p3, _ | ⟨p4, _ | ⟨p5, P'⟩⟩⟩⟩⟩
  · simp at h
  · simp at h
  · simp at h
  · simp at h
  · simp only [List.cons_append, List.nil_append, List.append_assoc, List.cons.injEq] at h
    obtain ⟨h1, h2, h3, h4, _⟩ := h
    rw [h1, h2, h3, h4]
  · exfalso
    simp only [List.cons_append, List.nil_append, List.append_assoc, List.cons.injEq] at h
    obtain ⟨_, _, _, _, _, h6⟩ := h
    apply htail
    rw [← h6]
    simp

/-! ### invariants along a shutdown schedule -/

theorem ne_leaveLocal_of_mem_first {a : Action}
    (h : a ∈ ([.stopJWKS, .notReady, .upstreamShutdown, .proxyShutdown] : List Action)) :
    a ≠ .leaveLocal := by
  intro he; subst he; simp at h

/-- `MInv` does not see the left marker: it only speaks about `endpoint:` keys -/
theorem minv_setGossip_leave {m : Mgr} (h : MInv m) : MInv { m with gossip := leaveLocal m.gossip } := by
  refine ⟨h.lbs, h.counts, ?_⟩
  intro e
  have := h.adv e
  unfold advertised at this ⊢
  simp only [Mgr.registry] at this ⊢
  rw [liveValue_leaveLocal _ (epKey_ne_leftKey e)]
  exact this

theorem sinv_act {n : St} (h : SInv n.srv) (a : Action) : SInv (n.act a).srv := by
  cases a with
  | upstreamShutdown => exact sinv_step h .serverShutdown
  | leaveLocal =>
    exact ⟨minv_setGossip_leave h.mgr, h.reg, h.nodup, h.sess, h.wf⟩
  | stopJWKS => exact h
  | notReady => exact h
  | proxyShutdown => exact h
  | pushLeave p => exact h
  | gossipClose => exact h
  | adminShutdown => exact h
  | waitGoroutines => exact h

theorem sinv_st_step {n : St} (h : SInv n.srv) (st : Step) : SInv (n.step st).srv := by
  cases st with
  | act a => exact sinv_act h a
  | ev e => exact sinv_step h e

theorem sinv_st_run (steps : List Step) : ∀ {n : St}, SInv n.srv → SInv (n.run steps).srv := by
  induction steps with
  | nil => intro n h; exact h
  | cons st steps ih => intro n h; exact ih (sinv_st_step h st)

theorem ginv_st_step {n : St} (h : GInv n.gossip) (st : Step)
    (hne : ∀ a, st.action? = some a → a ≠ .leaveLocal) : GInv (n.step st).gossip := by
  cases st with
  | ev e => exact ginv_srv_step h e
  | act a =>
    cases a with
    | leaveLocal => exact absurd rfl (hne _ rfl)
    | upstreamShutdown => exact ginv_srv_step h .serverShutdown
    | stopJWKS => exact h
    | notReady => exact h
    | proxyShutdown => exact h
    | pushLeave p => exact h
    | gossipClose => exact h
    | adminShutdown => exact h
    | waitGoroutines => exact h

theorem ginv_st_run (steps : List Step) : ∀ {n : St}, GInv n.gossip →
    (∀ a ∈ steps.filterMap Step.action?, a ≠ .leaveLocal) → GInv (n.run steps).gossip := by
  induction steps with
  | nil => intro n h _; exact h
  | cons st steps ih =>
    intro n h hne
    refine ih (ginv_st_step h st ?_) ?_
    · intro a ha
      apply hne
      simp [List.filterMap_cons, ha]
    · intro a ha
      apply hne
      cases hs : st.action? with
      | none => simpa [List.filterMap_cons, hs] using ha
      | some b => simp [List.filterMap_cons, hs, ha]

/-- the upstream server is shut down before the left marker is written, in every schedule -/
theorem cancelled_before_leave (reached : List String) (n : St) (pre post : List Step)
    (h : (pre ++ Step.act .leaveLocal :: post).filterMap Step.action? = shutdownActions reached) :
    (n.run pre).srv.cancelled = true ∧
    pre.filterMap Step.action? = [.stopJWKS, .notReady, .upstreamShutdown, .proxyShutdown] := by
  have hP : pre.filterMap Step.action? = [.stopJWKS, .notReady, .upstreamShutdown, .proxyShutdown] := by
    apply actions_before_leave reached _ (post.filterMap Step.action?)
    rw [← h]
    simp [List.filterMap_append, List.filterMap_cons, Step.action?]
  refine ⟨?_, hP⟩
  have hmem : Step.act .upstreamShutdown ∈ pre := by
    have : Action.upstreamShutdown ∈ pre.filterMap Step.action? := by rw [hP]; simp
    obtain ⟨st, hst, hs⟩ := List.mem_filterMap.mp this
    cases st with
    | act a => simp only [Step.action?, Option.some.injEq] at hs; subst hs; exact hst
    | ev e => simp [Step.action?] at hs
  obtain ⟨p1, p2, rfl⟩ := List.append_of_mem hmem
  simp only [St.run, List.foldl_append, List.foldl_cons]
  exact cancelled_run p2 rfl

/-! ### a quiescent node that has left: nothing moves any more -/

/-- cancelled, every connection released, nothing registered, left marker written -/
structure Quiet (m : St) : Prop where
  cancelled : m.srv.cancelled = true
  released : m.srv.allReleased
  empty : ∀ e, m.srv.mgr.registry e = []
  left : (own m.gossip).left = true

theorem leaveLocal_of_left {g : CState} (h : (own g).left = true) : leaveLocal g = g := by
  unfold leaveLocal; simp [h]

theorem quiet_srv_step {m : St} (h : Quiet m) (ev : Ev) :
    (m.srv.step ev).mgr = m.srv.mgr ∧ (m.srv.step ev).cancelled = true ∧ (m.srv.step ev).allReleased := by
  have hc := h.cancelled
  have hr := h.released
  have same : ∀ {ev : Ev}, m.srv.step ev = m.srv →
      (m.srv.step ev).mgr = m.srv.mgr ∧ (m.srv.step ev).cancelled = true ∧ (m.srv.step ev).allReleased := by
    intro ev he; rw [he]; exact ⟨rfl, hc, hr⟩
  cases ev with
  | accept c ep dl => exact same (by simp [Srv.step, hc])
  | register c =>
    cases hf : m.srv.conns.find c with
    | none => exact same (by simp [Srv.step, hf])
    | some conn =>
      have := hr c conn hf
      exact same (by simp [Srv.step, hf, this])
  | stream c => exact same rfl
  | fail c r =>
    cases hf : m.srv.conns.find c with
    | none => exact same (by simp [Srv.step, hf])
    | some conn =>
      have := hr c conn hf
      exact same (by simp [Srv.step, hf, this])
  | defer c =>
    cases hf : m.srv.conns.find c with
    | none => exact same (by simp [Srv.step, hf])
    | some conn =>
      have := hr c conn hf
      exact same (by simp [Srv.step, hf, this])
  | goAway c =>
    simp only [Srv.step]
    cases hf : m.srv.conns.find c with
    | none => exact ⟨rfl, hc, hr⟩
    | some conn =>
      refine ⟨rfl, hc, ?_⟩
      intro c' conn' hf'
      simp only [Srv.setConn, AMap.find_insert] at hf'
      by_cases hcc : c = c'
      · simp only [hcc, if_true, Option.some.injEq] at hf'; subst hf'
        exact hr c conn hf
      · simp only [hcc, if_false] at hf'; exact hr c' conn' hf'
  | proxyRemove c =>
    simp only [Srv.step]
    cases hf : m.srv.conns.find c with
    | none => exact ⟨rfl, hc, hr⟩
    | some conn =>
      have hp := hr c conn hf
      have hne : ¬ conn.phase = .accepted := by rw [hp]; intro x; cases x
      simp only [hne, if_false, Srv.setConn]
      have hno : m.srv.mgr.removeConn { id := c, ep := conn.ep } = m.srv.mgr :=
        removeConn_absent _ _ (by simp [h.empty conn.ep])
      refine ⟨hno, hc, ?_⟩
      intro c' conn' hf'
      simp only [AMap.find_insert] at hf'
      by_cases hcc : c = c'
      · simp only [hcc, if_true, Option.some.injEq] at hf'; subst hf'
        exact hp
      · simp only [hcc, if_false] at hf'; exact hr c' conn' hf'
  | serverShutdown => exact ⟨rfl, rfl, hr⟩

/-- every step of a quiet node keeps it quiet, keeps its gossip state, and can only add pushes
of that one `LocalDelta` -/
theorem quiet_step {m : St} (h : Quiet m) (st : Step) :
    Quiet (m.step st) ∧ (m.step st).gossip = m.gossip ∧
    (∀ pd ∈ (m.step st).pushed, pd ∈ m.pushed ∨ pd.2 = localDelta m.gossip) := by
  cases st with
  | ev e =>
    obtain ⟨h1, h2, h3⟩ := quiet_srv_step h e
    refine ⟨⟨h2, h3, ?_, ?_⟩, ?_, fun pd hpd => Or.inl hpd⟩
    · intro e'; show (m.srv.step e).mgr.registry e' = []; rw [h1]; exact h.empty e'
    · show (own (m.srv.step e).mgr.gossip).left = true; rw [h1]; exact h.left
    · show (m.srv.step e).mgr.gossip = m.srv.mgr.gossip; rw [h1]
  | act a =>
    cases a with
    | leaveLocal =>
      have hl : leaveLocal m.srv.mgr.gossip = m.srv.mgr.gossip := leaveLocal_of_left h.left
      have : (m.act .leaveLocal) = m := by
        simp only [St.act, St.setGossip, St.gossip, hl]
      rw [St.step, this]
      exact ⟨h, rfl, fun pd hpd => Or.inl hpd⟩
    | upstreamShutdown =>
      obtain ⟨h1, h2, h3⟩ := quiet_srv_step h .serverShutdown
      refine ⟨⟨h2, h3, ?_, ?_⟩, ?_, fun pd hpd => Or.inl hpd⟩
      · intro e'; show (m.srv.step .serverShutdown).mgr.registry e' = []; rw [h1]; exact h.empty e'
      · show (own (m.srv.step .serverShutdown).mgr.gossip).left = true; rw [h1]; exact h.left
      · show (m.srv.step .serverShutdown).mgr.gossip = m.srv.mgr.gossip; rw [h1]
    | pushLeave p =>
      refine ⟨⟨h.cancelled, h.released, h.empty, h.left⟩, rfl, ?_⟩
      intro pd hpd
      simp only [St.step, St.act, List.mem_append, List.mem_singleton] at hpd
      rcases hpd with hpd | rfl
      · exact Or.inl hpd
      · exact Or.inr rfl
    | stopJWKS => exact ⟨⟨h.cancelled, h.released, h.empty, h.left⟩, rfl, fun pd hpd => Or.inl hpd⟩
    | notReady => exact ⟨⟨h.cancelled, h.released, h.empty, h.left⟩, rfl, fun pd hpd => Or.inl hpd⟩
    | proxyShutdown => exact ⟨⟨h.cancelled, h.released, h.empty, h.left⟩, rfl, fun pd hpd => Or.inl hpd⟩
    | gossipClose => exact ⟨⟨h.cancelled, h.released, h.empty, h.left⟩, rfl, fun pd hpd => Or.inl hpd⟩
    | adminShutdown => exact ⟨⟨h.cancelled, h.released, h.empty, h.left⟩, rfl, fun pd hpd => Or.inl hpd⟩
    | waitGoroutines => exact ⟨⟨h.cancelled, h.released, h.empty, h.left⟩, rfl, fun pd hpd => Or.inl hpd⟩

theorem quiet_run (steps : List Step) : ∀ {m : St}, Quiet m →
    Quiet (m.run steps) ∧ (m.run steps).gossip = m.gossip ∧
    (∀ pd ∈ (m.run steps).pushed, pd ∈ m.pushed ∨ pd.2 = localDelta m.gossip) := by
  induction steps with
  | nil => intro m h; exact ⟨h, rfl, fun pd hpd => Or.inl hpd⟩
  | cons st steps ih =>
    intro m h
    obtain ⟨q1, g1, p1⟩ := quiet_step h st
    obtain ⟨q2, g2, p2⟩ := ih q1
    refine ⟨q2, by rw [show (m.run (st :: steps)) = (m.step st).run steps from rfl, g2, g1], ?_⟩
    intro pd hpd
    rcases p2 pd hpd with hin | heq
    · exact p1 pd hin
    · right; rw [heq, g1]

/-- nothing registered once every connection is released -/
theorem registry_nil_of_released {s : Srv} (h : SInv s) (hr : s.allReleased) (e : String) :
    s.mgr.registry e = [] := by
  apply List.eq_nil_iff_forall_not_mem.mpr
  intro c hin
  obtain ⟨conn, hf, _, hreg⟩ := (h.reg c e).mp hin
  have hp := hr c conn hf
  simp [Conn.inReg, hp, Phase.holdsReg] at hreg


/-- the identity of the own node never changes -/
theorem own_id_writeOwn (s : CState) (k : String) (f : Nat → Entry) : (own (writeOwn s k f)).id = (own s).id := by
  rw [own_writeOwn']

theorem own_id_upsertLocal (s : CState) (k v : String) : (own (upsertLocal s k v)).id = (own s).id := by
  rcases upsertLocal_cases s k v with ⟨_, e⟩ | ⟨_, e⟩ <;> rw [e]
  exact own_id_writeOwn _ _ _

theorem own_id_deleteLocal (s : CState) (k : String) : (own (deleteLocal s k)).id = (own s).id := by
  rcases deleteLocal_cases s k with ⟨_, e⟩ | ⟨e0, _, _, e⟩ <;> rw [e]
  exact own_id_writeOwn _ _ _

theorem own_id_onLocalEndpointUpdate (c : Cluster.State) (g : CState) (e : String) :
    (own (onLocalEndpointUpdate c g e)).id = (own g).id := by
  unfold onLocalEndpointUpdate
  simp only
  split
  · exact own_id_upsertLocal _ _ _
  · exact own_id_deleteLocal _ _

theorem own_id_removeConn (m : Mgr) (u : Up) : (own (m.removeConn u).gossip).id = (own m.gossip).id := by
  unfold Mgr.removeConn
  split
  · rfl
  · split
    · rfl
    · simp only
      split
      · exact own_id_onLocalEndpointUpdate _ _ _
      · rfl

theorem own_id_srv_step (s : Srv) (ev : Ev) : (own (s.step ev).mgr.gossip).id = (own s.mgr.gossip).id := by
  cases ev with
  | accept c ep dl =>
    simp only [Srv.step]
    split
    · rfl
    · split <;> rfl
  | register c =>
    simp only [Srv.step]
    split
    · split
      · exact own_id_onLocalEndpointUpdate _ _ _
      · rfl
    · rfl
  | stream c => rfl
  | fail c r =>
    simp only [Srv.step]
    split
    · split <;> rfl
    · rfl
  | defer c =>
    simp only [Srv.step]
    split
    · split
      · rename_i d _ _
        cases d
        · exact own_id_removeConn _ _
        · rfl
        · rfl
        · rfl
      · rfl
      · rfl
    · rfl
  | goAway c =>
    simp only [Srv.step]
    split <;> rfl
  | proxyRemove c =>
    simp only [Srv.step]
    split
    · split
      · rfl
      · exact own_id_removeConn _ _
    · rfl
  | serverShutdown => rfl

/-! ### the own state after leaving, possibly with late handler writes (the race) -/

/-- the own gossip state once `LeaveLocal` wrote the marker `mk`: still well formed, flagged
left, the marker in place, nothing else internal -/
structure GInvL (g : CState) (mk : Entry) : Prop where
  wf : OwnWF g
  left : (own g).left = true
  isMarker : C11.isLeftMarker mk
  pos : 0 < mk.version
  mem : (leftKey, mk) ∈ (own g).entries
  others : ∀ p ∈ (own g).entries, p = (leftKey, mk) ∨ p.2.internal = false

theorem ginvL_leaveLocal {g : CState} (h : GInv g) : GInvL (leaveLocal g) (marker g) := by
  have ho := own_leaveLocal h.notLeft
  refine ⟨ownWF_leaveLocal h.wf, by rw [ho]; rfl, marker_isLeft g, by simp [marker], ?_, ?_⟩
  · rw [ho]; exact AMap.mem_insert.mpr (Or.inl rfl)
  · intro p hp
    rw [ho] at hp
    rcases AMap.mem_insert.mp hp with rfl | ⟨hp, _⟩
    · left; rfl
    · right; exact h.noInternal p hp

theorem ginvL_writeOwn {g : CState} {mk : Entry} (h : GInvL g mk) (k : String) (f : Nat → Entry)
    (hne : k ≠ leftKey)
    (hk : (f ((own g).version + 1)).key = k)
    (hv : (f ((own g).version + 1)).version = (own g).version + 1)
    (hi : (f ((own g).version + 1)).internal = false) : GInvL (writeOwn g k f) mk := by
  refine ⟨ownWF_writeOwn h.wf k f hk hv, ?_, h.isMarker, h.pos, ?_, ?_⟩
  · rw [own_writeOwn']; exact h.left
  · rw [own_writeOwn']
    exact AMap.mem_insert.mpr (Or.inr ⟨h.mem, fun x => hne x.symm⟩)
  · intro p hp
    rw [own_writeOwn'] at hp
    rcases AMap.mem_insert.mp hp with rfl | ⟨hp, _⟩
    · right; exact hi
    · exact h.others p hp

theorem ginvL_upsertLocal {g : CState} {mk : Entry} (h : GInvL g mk) (k v : String) (hne : k ≠ leftKey) :
    GInvL (upsertLocal g k v) mk := by
  rcases upsertLocal_cases g k v with ⟨_, e⟩ | ⟨_, e⟩ <;> rw [e]
  · exact h
  · exact ginvL_writeOwn h k _ hne rfl rfl rfl

theorem ginvL_deleteLocal {g : CState} {mk : Entry} (h : GInvL g mk) (k : String) (hne : k ≠ leftKey) :
    GInvL (deleteLocal g k) mk := by
  rcases deleteLocal_cases g k with ⟨_, e⟩ | ⟨e0, hf, _, e⟩ <;> rw [e]
  · exact h
  · refine ginvL_writeOwn h k _ hne (show e0.key = k from h.wf.find_key hf) rfl ?_
    show e0.internal = false
    rcases h.others (k, e0) (AMap.mem_of_find hf) with heq | hi
    · exact absurd (congrArg Prod.fst heq) hne
    · exact hi

theorem ginvL_onLocalEndpointUpdate {g : CState} {mk : Entry} (h : GInvL g mk) (c : Cluster.State) (e : String) :
    GInvL (onLocalEndpointUpdate c g e) mk := by
  unfold onLocalEndpointUpdate
  simp only
  split
  · exact ginvL_upsertLocal h _ _ (epKey_ne_leftKey e)
  · exact ginvL_deleteLocal h _ (epKey_ne_leftKey e)

theorem ginvL_addConn {m : Mgr} {mk : Entry} (h : GInvL m.gossip mk) (u : Up) : GInvL (m.addConn u).gossip mk :=
  ginvL_onLocalEndpointUpdate h _ _

theorem ginvL_removeConn {m : Mgr} {mk : Entry} (h : GInvL m.gossip mk) (u : Up) :
    GInvL (m.removeConn u).gossip mk := by
  unfold Mgr.removeConn
  split
  · exact h
  · split
    · exact h
    · simp only
      split
      · exact ginvL_onLocalEndpointUpdate h _ _
      · exact h

theorem ginvL_srv_step {s : Srv} {mk : Entry} (h : GInvL s.mgr.gossip mk) (ev : Ev) :
    GInvL (s.step ev).mgr.gossip mk := by
  cases ev with
  | accept c ep dl =>
    simp only [Srv.step]
    split
    · exact h
    · split <;> exact h
  | register c =>
    simp only [Srv.step]
    split
    · split
      · exact ginvL_addConn h _
      · exact h
    · exact h
  | stream c => exact h
  | fail c r =>
    simp only [Srv.step]
    split
    · split <;> exact h
    · exact h
  | defer c =>
    simp only [Srv.step]
    split
    · split
      · rename_i d _ _
        cases d
        · exact ginvL_removeConn h _
        · exact h
        · exact h
        · exact h
      · exact h
      · exact h
    · exact h
  | goAway c =>
    simp only [Srv.step]
    split <;> exact h
  | proxyRemove c =>
    simp only [Srv.step]
    split
    · split
      · exact h
      · exact ginvL_removeConn h _
    · exact h
  | serverShutdown => exact h

/-- what a peer is sent by `leave(addr)`: one delta entry for the leaving node whose entry
list is sorted by version, contains the left marker `mk`, and has nothing else internal or
with the marker's version -/
structure LeaveDelta (id : String) (d : Delta) (mk : Entry) : Prop where
  shape : ∃ addr es, d = [{ id := id, addr := addr, entries := es }] ∧
    es.Pairwise (fun a b => a.version ≤ b.version) ∧ mk ∈ es ∧
    ∀ x ∈ es, x = mk ∨ (x.version ≠ mk.version ∧ x.internal = false)
  isMarker : C11.isLeftMarker mk
  pos : 0 < mk.version

theorem leaveDelta_of_ginvL {g : CState} {mk : Entry} (h : GInvL g mk) :
    LeaveDelta (own g).id (localDelta g) mk := by
  refine ⟨⟨(own g).addr, (deltaEntry (own g) 0).entries, rfl, pairwise_sortByVersion _, ?_, ?_⟩,
    h.isMarker, h.pos⟩
  · unfold deltaEntry
    simp only [mem_sortByVersion, List.mem_filter, decide_eq_true_eq]
    exact ⟨AMap.mem_vals.mpr ⟨leftKey, h.mem⟩, h.pos⟩
  · intro x hx
    unfold deltaEntry at hx
    simp only [mem_sortByVersion, List.mem_filter] at hx
    obtain ⟨k, hk⟩ := AMap.mem_vals.mp hx.1
    by_cases hxm : x = mk
    · left; exact hxm
    · right
      rcases h.others (k, x) hk with heq | hi
      · exact absurd (congrArg Prod.snd heq) hxm
      · refine ⟨?_, hi⟩
        intro hv
        have := h.wf.inj (k, x) hk (leftKey, mk) h.mem hv
        exact hxm (congrArg Prod.snd this)

/-- every step of a node that has left keeps `GInvL`; its pushes are `LeaveDelta`s -/
theorem ginvL_st_step {n : St} {mk : Entry} (h : GInvL n.gossip mk) (st : Step) :
    GInvL (n.step st).gossip mk ∧
    (∀ pd ∈ (n.step st).pushed, pd ∈ n.pushed ∨ LeaveDelta (own n.gossip).id pd.2 mk) ∧
    (own (n.step st).gossip).id = (own n.gossip).id := by
  have hid : ∀ {g' : CState}, GInvL g' mk → True := fun _ => trivial
  cases st with
  | ev e =>
    refine ⟨ginvL_srv_step h e, fun pd hpd => Or.inl hpd, ?_⟩
    exact own_id_srv_step n.srv e
  | act a =>
    cases a with
    | leaveLocal =>
      have hl : leaveLocal n.srv.mgr.gossip = n.srv.mgr.gossip := leaveLocal_of_left h.left
      have : (n.act .leaveLocal) = n := by
        simp only [St.act, St.setGossip, St.gossip, hl]
      rw [St.step, this]
      exact ⟨h, fun pd hpd => Or.inl hpd, rfl⟩
    | upstreamShutdown =>
      exact ⟨ginvL_srv_step h .serverShutdown, fun pd hpd => Or.inl hpd, rfl⟩
    | pushLeave p =>
      refine ⟨h, ?_, rfl⟩
      intro pd hpd
      simp only [St.step, St.act, List.mem_append, List.mem_singleton] at hpd
      rcases hpd with hpd | rfl
      · exact Or.inl hpd
      · exact Or.inr (leaveDelta_of_ginvL h)
    | stopJWKS => exact ⟨h, fun pd hpd => Or.inl hpd, rfl⟩
    | notReady => exact ⟨h, fun pd hpd => Or.inl hpd, rfl⟩
    | proxyShutdown => exact ⟨h, fun pd hpd => Or.inl hpd, rfl⟩
    | gossipClose => exact ⟨h, fun pd hpd => Or.inl hpd, rfl⟩
    | adminShutdown => exact ⟨h, fun pd hpd => Or.inl hpd, rfl⟩
    | waitGoroutines => exact ⟨h, fun pd hpd => Or.inl hpd, rfl⟩

theorem ginvL_st_run (steps : List Step) : ∀ {n : St} {mk : Entry}, GInvL n.gossip mk →
    GInvL (n.run steps).gossip mk ∧
    (∀ pd ∈ (n.run steps).pushed, pd ∈ n.pushed ∨ LeaveDelta (own n.gossip).id pd.2 mk) := by
  induction steps with
  | nil => intro n mk h; exact ⟨h, fun pd hpd => Or.inl hpd⟩
  | cons st steps ih =>
    intro n mk h
    obtain ⟨g1, p1, i1⟩ := ginvL_st_step h st
    obtain ⟨g2, p2⟩ := ih g1
    refine ⟨g2, ?_⟩
    intro pd hpd
    rcases p2 pd hpd with hin | hd
    · exact p1 pd hin
    · right; rw [← i1]; exact hd

/-- the receiver loop on a sorted entry list: it reaches the marker whatever precedes or
follows it -/
theorem applyEntries_reaches_marker' (now : Nat) (m : Entry) (hm : C11.isLeftMarker m) :
    ∀ (es : List Entry) (st : NodeSt),
      es.Pairwise (fun a b => a.version ≤ b.version) →
      (∀ x ∈ es, x = m ∨ (x.version ≠ m.version ∧ x.internal = false)) → m ∈ es →
      st.version < m.version →
      C11.LeftAt now (applyEntries now st es).1 ∧ Event.leave st.id ∈ (applyEntries now st es).2 := by
  intro es
  induction es with
  | nil => intro st _ _ hmem; cases hmem
  | cons e es ih =>
    intro st hs hall hmem hv
    rcases hall e (List.mem_cons_self) with rfl | ⟨hne, hi⟩
    · exact C11.applyEntries_marker now st e es hm hv
    · have hmem' : m ∈ es := by
        rcases List.mem_cons.mp hmem with rfl | h
        · exact absurd rfl hne
        · exact h
      have hle : e.version ≤ m.version := (List.pairwise_cons.mp hs).1 m hmem'
      have hlt : e.version < m.version := by omega
      obtain ⟨hstop, hver, hid⟩ := applyEntry_nonabort now st e hi
      rw [C11.applyEntries_cons]
      simp only [hstop, Bool.false_eq_true, if_false]
      have hv' : (applyEntry now st e).1.version < m.version := by
        rcases hver with h | h <;> omega
      obtain ⟨h1, h2⟩ := ih _ (List.pairwise_cons.mp hs).2
        (fun x hx => hall x (List.mem_cons_of_mem _ hx)) hmem' hv'
      refine ⟨h1, ?_⟩
      rw [hid] at h2
      exact List.mem_append_right _ h2

/-- the actions before `proxyShutdown` in a shutdown schedule are exactly the first three -/
theorem actions_before_proxy (reached : List String) (P Q : List Action)
    (h : P ++ Action.proxyShutdown :: Q = shutdownActions reached) :
    P = [.stopJWKS, .notReady, .upstreamShutdown] := by
  unfold shutdownActions at h
  have htail : Action.proxyShutdown ∉ (Action.leaveLocal ::
      ((reached.take maxLeaveNotified).map Action.pushLeave ++
        [.gossipClose, .adminShutdown, .waitGoroutines])) := by
    intro h
    rcases List.mem_cons.mp h with h | h
    · cases h
    · rcases List.mem_append.mp h with h | h
      · obtain ⟨p, _, hp⟩ := List.mem_map.mp h
        cases hp
      · simp at h
  rcases P with _ | ⟨p1, _ | ⟨p2, _ | ⟨p3, _ | ⟨p4, P'⟩⟩⟩⟩
  · simp at h
  · simp at h
  · simp at h
  · simp only [List.cons_append, List.nil_append, List.append_assoc, List.cons.injEq] at h
    obtain ⟨h1, h2, h3, _⟩ := h
    rw [h1, h2, h3]
  · exfalso
    simp only [List.cons_append, List.nil_append, List.append_assoc, List.cons.injEq] at h
    obtain ⟨_, _, _, _, h5⟩ := h
    apply htail
    rw [← h5]
    simp

/-- the upstream server is shut down before the node stops accepting proxy traffic -/
theorem cancelled_before_proxy (reached : List String) (n : St) (pre post : List Step)
    (h : (pre ++ Step.act .proxyShutdown :: post).filterMap Step.action? = shutdownActions reached) :
    (n.run pre).srv.cancelled = true ∧ (n.run pre).proxyUp = n.proxyUp := by
  have hP : pre.filterMap Step.action? = [.stopJWKS, .notReady, .upstreamShutdown] := by
    apply actions_before_proxy reached _ (post.filterMap Step.action?)
    rw [← h]
    simp [List.filterMap_append, List.filterMap_cons, Step.action?]
  constructor
  · have hmem : Step.act .upstreamShutdown ∈ pre := by
      have : Action.upstreamShutdown ∈ pre.filterMap Step.action? := by rw [hP]; simp
      obtain ⟨st, hst, hs⟩ := List.mem_filterMap.mp this
      cases st with
      | act a => simp only [Step.action?, Option.some.injEq] at hs; subst hs; exact hst
      | ev e => simp [Step.action?] at hs
    obtain ⟨p1, p2, rfl⟩ := List.append_of_mem hmem
    simp only [St.run, List.foldl_append, List.foldl_cons]
    exact cancelled_run p2 rfl
  · have : ∀ (steps : List Step) (m : St), (∀ a ∈ steps.filterMap Step.action?, a ≠ Action.proxyShutdown) →
        (m.run steps).proxyUp = m.proxyUp := by
      intro steps
      induction steps with
      | nil => intro m _; rfl
      | cons st steps ih =>
        intro m hne
        have h1 : (m.step st).proxyUp = m.proxyUp := by
          cases st with
          | ev e => rfl
          | act a =>
            cases a with
            | proxyShutdown => exact absurd rfl (hne .proxyShutdown (by simp [Step.action?]))
            | _ => rfl
        have := ih (m.step st) (by
          intro a ha
          apply hne
          cases hs : st.action? with
          | none => simpa [List.filterMap_cons, hs] using ha
          | some b => simp [List.filterMap_cons, hs, ha])
        exact this.trans h1
    apply this
    intro a ha hap
    rw [hP] at ha; subst hap; simp at ha

end Piko.Node
