import Proofs.Syncer
/-!
# Notification histories as the gossip layer really produces them

`C04_table_spec` assumes `AddrStable`: address keys are never deleted.  **The gossip layer does
not guarantee that** (finding, `Props/C04.lean C04_addrStable_not_guaranteed`): an observer that
holds an owner's *pre-compaction* address entries and is then brought up to date by a third node's
relayed view, which still contains the owner's *old* compaction marker, drops the address keys on
that marker (`OnDeleteKey(a, "proxy_addr")`) and re-learns them from the re-versioned copies a few
entries later (`OnUpsertKey` with the same value).  The syncer is immune: `OnDeleteKey` ignores
every key that is not `endpoint:…`, and `OnUpsertKey` ignores address keys of a node it already
has.  This file turns that immunity into a proof device:

* `dropAddrDeletes evs` removes the `delete` notifications of address keys; the syncer cannot tell
  the difference (`run_dropAddrDeletes`);
* the fold of the filtered history (`VSim`) has the same nodes, flags and non-address keys, and
  at least the address keys of the unfiltered fold (`vsim_fold`);
* `WellFormed` and `NoLivenessAfterLeave` carry over (`Trace.filtered`);
* the filtered history is `AddrStable` as soon as every address `upsert` about a node carries the
  same value (`AddrConst` - what the flow invariant of `Proofs/SysInv.lean` proves)
  (`addrStable_filtered`).

So `C04_table_spec`/`C04_mirror` apply to the filtered history and speak about the real syncer.
-/
namespace Piko
namespace SyncerSpec
open Cluster
open Gossip (Event)

/-! ## traces -/

theorem Trace.append {P : Option NView → NEv → Prop} {l : String} :
    ∀ {v : WView} {e1 e2 : List Event}, Trace P l v e1 → Trace P l (foldFrom v e1) e2 → Trace P l v (e1 ++ e2)
  | _, [], _, _, h2 => h2
  | v, e :: es, e2, h1, h2 => ⟨h1.1, Trace.append (v := viewStep v e) h1.2 (by simpa [foldFrom] using h2)⟩

theorem foldFrom_append (v : WView) (e1 e2 : List Event) :
    foldFrom v (e1 ++ e2) = foldFrom (foldFrom v e1) e2 := by simp [foldFrom]

theorem Trace.of_forall {P : Option NView → NEv → Prop} {l : String} :
    ∀ {v : WView} {evs : List Event}, (∀ e ∈ evs, ∀ o, P o (evKind e)) → Trace P l v evs
  | _, [], _ => trivial
  | _, e :: _, h => ⟨Or.inr (h e (List.mem_cons_self ..) _),
      Trace.of_forall (fun e' he' => h e' (List.mem_cons_of_mem _ he'))⟩

/-! ## dropping the address deletes -/

def isAddrKey (k : String) : Bool := k = proxyAddrKey || k = adminAddrKey

theorem isAddrKey_iff (k : String) : isAddrKey k = true ↔ k = proxyAddrKey ∨ k = adminAddrKey := by
  simp [isAddrKey]

theorem isAddrKey_false (k : String) : isAddrKey k = false ↔ k ≠ proxyAddrKey ∧ k ≠ adminAddrKey := by
  simp [isAddrKey]

/-- `OnDeleteKey(id, "proxy_addr" | "admin_addr")` -/
def addrDelete : Event → Bool
  | .delete _ k => isAddrKey k
  | _ => false

def dropAddrDeletes (evs : List Event) : List Event := evs.filter (fun e => !addrDelete e)

/-- the syncer ignores the deletion of an address key ("unsupported key") -/
theorem syncStep_addrDelete (s : Sync) (e : Event) (h : addrDelete e = true) : syncStep s e = s := by
  cases e with
  | delete id k =>
    simp only [addrDelete, isAddrKey_iff] at h
    simp only [syncStep, Sync.onDeleteKey]
    split
    · rfl
    · rcases h with rfl | rfl
      · simp [cutPrefix_proxy]
      · simp [cutPrefix_admin]
  | _ => simp [addrDelete] at h

theorem run_dropAddrDeletes (s : Sync) (evs : List Event) : s.run (dropAddrDeletes evs) = s.run evs := by
  induction evs generalizing s with
  | nil => rfl
  | cons e es ih =>
    unfold dropAddrDeletes at ih ⊢
    by_cases h : addrDelete e = true
    · simp only [List.filter_cons, h, Bool.not_true, Bool.false_eq_true, if_false]
      rw [ih]
      simp [Sync.run, syncStep_addrDelete s e h]
    · have h' : addrDelete e = false := by simpa using h
      simp only [List.filter_cons, h', Bool.not_false, if_true]
      simp only [Sync.run, List.foldl_cons] at ih ⊢
      exact ih _

/-! ## the folds of the two histories -/

/-- what the filtered fold (right) knows relative to the unfiltered one (left): same presence,
same flags, same non-address keys, at least the same address keys -/
def NSim : Option NView → Option NView → Prop
  | none, none => True
  | some nv, some nv' => nv.left = nv'.left ∧ nv.unreach = nv'.unreach ∧
      (∀ k, isAddrKey k = false → nv.kv.find k = nv'.kv.find k) ∧
      (∀ k v, nv.kv.find k = some v → nv'.kv.find k = some v)
  | _, _ => False

def VSim (v v' : WView) : Prop := ∀ a, NSim (v.find a) (v'.find a)

theorem nsim_step {o o' : Option NView} (ev : NEv) (h : NSim o o') : NSim (nviewStep o ev) (nviewStep o' ev) := by
  cases o with
  | none =>
    cases o' with
    | some _ => exact h.elim
    | none => cases ev <;> simp [nviewStep, NSim]
  | some nv =>
    cases o' with
    | none => exact h.elim
    | some nv' =>
      obtain ⟨h1, h2, h3, h4⟩ := h
      cases ev with
      | join => simp [nviewStep, NSim]
      | expired => simp [nviewStep, NSim]
      | leave => exact ⟨rfl, h2, h3, h4⟩
      | reachable => exact ⟨h1, rfl, h3, h4⟩
      | unreachable => exact ⟨h1, rfl, h3, h4⟩
      | upsert k v =>
        refine ⟨h1, h2, fun k' hk' => ?_, fun k' v' hf => ?_⟩
        · simp only [AMap.find_insert]; split
          · rfl
          · exact h3 k' hk'
        · simp only [AMap.find_insert] at hf ⊢
          split
          · next e => simpa [e] using hf
          · next e => simp only [e, if_false] at hf; exact h4 k' v' hf
      | delete k =>
        refine ⟨h1, h2, fun k' hk' => ?_, fun k' v' hf => ?_⟩
        · simp only [AMap.find_erase]; split
          · rfl
          · exact h3 k' hk'
        · simp only [AMap.find_erase] at hf ⊢
          split
          · next e => simp [e] at hf
          · next e => simp only [e, if_false] at hf; exact h4 k' v' hf

/-- the unfiltered side deletes an address key, the filtered side does nothing -/
theorem nsim_addrDelete {o o' : Option NView} {k : String} (hk : isAddrKey k = true) (h : NSim o o') :
    NSim (nviewStep o (.delete k)) o' := by
  cases o with
  | none =>
    cases o' with
    | some _ => exact h.elim
    | none => simp [nviewStep, NSim]
  | some nv =>
    cases o' with
    | none => exact h.elim
    | some nv' =>
      obtain ⟨h1, h2, h3, h4⟩ := h
      refine ⟨h1, h2, fun k' hk' => ?_, fun k' v' hf => ?_⟩
      · have hne : ¬ k = k' := by intro e; rw [e, hk'] at hk; cases hk
        simp only [AMap.find_erase, hne, if_false]
        exact h3 k' hk'
      · simp only [AMap.find_erase] at hf
        split at hf
        · cases hf
        · exact h4 k' v' hf

theorem vsim_step {v v' : WView} (e : Event) (h : VSim v v') : VSim (viewStep v e) (viewStep v' e) := by
  intro a
  rw [find_viewStep, find_viewStep]
  split
  · exact nsim_step _ (h a)
  · exact h a

theorem vsim_addrDelete {v v' : WView} (e : Event) (he : addrDelete e = true) (h : VSim v v') :
    VSim (viewStep v e) v' := by
  intro a
  rw [find_viewStep]
  cases e with
  | delete id k =>
    simp only [evNode, evKind]
    by_cases hx : id = a
    · simp only [hx, if_true]; exact nsim_addrDelete he (h a)
    · simp only [hx, if_false]; exact h a
  | _ => simp [addrDelete] at he

theorem vsim_fold : ∀ (evs : List Event) {v v' : WView}, VSim v v' →
    VSim (foldFrom v evs) (foldFrom v' (dropAddrDeletes evs))
  | [], _, _, h => h
  | e :: es, v, v', h => by
    unfold dropAddrDeletes
    by_cases he : addrDelete e = true
    · simp only [List.filter_cons, he, Bool.not_true, Bool.false_eq_true, if_false]
      exact vsim_fold es (vsim_addrDelete e he h)
    · have he' : addrDelete e = false := by simpa using he
      simp only [List.filter_cons, he', Bool.not_false, if_true]
      exact vsim_fold es (vsim_step e h)

theorem vsim_nil : VSim [] [] := fun a => by simp [NSim]

/-- a per-notification hypothesis that only looks at presence and flags carries over -/
theorem Trace.filtered {P : Option NView → NEv → Prop} {l : String}
    (hP : ∀ o o' ev, NSim o o' → P o ev → P o' ev) :
    ∀ (evs : List Event) {v v' : WView}, VSim v v' → Trace P l v evs → Trace P l v' (dropAddrDeletes evs)
  | [], _, _, _, _ => trivial
  | e :: es, v, v', h, ht => by
    unfold dropAddrDeletes
    by_cases he : addrDelete e = true
    · simp only [List.filter_cons, he, Bool.not_true, Bool.false_eq_true, if_false]
      exact Trace.filtered hP es (vsim_addrDelete e he h) ht.2
    · have he' : addrDelete e = false := by simpa using he
      simp only [List.filter_cons, he', Bool.not_false, if_true]
      refine ⟨?_, Trace.filtered hP es (vsim_step e h) ht.2⟩
      rcases ht.1 with h1 | h1
      · exact Or.inl h1
      · exact Or.inr (hP _ _ _ (h _) h1)

theorem wfn_nsim (o o' : Option NView) (ev : NEv) (h : NSim o o') (hw : WFn o ev) : WFn o' ev := by
  cases o <;> cases o' <;> first | exact h.elim | (cases ev <;> simp_all [WFn])

theorem liveOKn_nsim (o o' : Option NView) (ev : NEv) (h : NSim o o') (hw : LiveOKn o ev) : LiveOKn o' ev := by
  cases o with
  | none => cases o' with
    | none => exact hw
    | some _ => exact h.elim
  | some nv => cases o' with
    | none => exact h.elim
    | some nv' =>
      cases ev <;> simp_all [LiveOKn, NSim]

theorem wellFormed_filtered (l : String) (evs : List Event) (h : WellFormed l evs) :
    WellFormed l (dropAddrDeletes evs) := Trace.filtered wfn_nsim evs vsim_nil h

theorem noLiveness_filtered (l : String) (evs : List Event) (h : NoLivenessAfterLeave l evs) :
    NoLivenessAfterLeave l (dropAddrDeletes evs) := Trace.filtered liveOKn_nsim evs vsim_nil h

/-! ## constant addresses ⇒ the filtered history is `AddrStable` -/

/-- every `upsert` of an address key about node `a` carries `a`'s one address -/
def AddrConst (pa aa : String → Option String) (evs : List Event) : Prop :=
  ∀ a k v, Event.upsert a k v ∈ evs →
    (k = proxyAddrKey → pa a = some v) ∧ (k = adminAddrKey → aa a = some v)

theorem AddrConst.append {pa aa : String → Option String} {e1 e2 : List Event}
    (h1 : AddrConst pa aa e1) (h2 : AddrConst pa aa e2) : AddrConst pa aa (e1 ++ e2) := by
  intro a k v hm
  rcases List.mem_append.mp hm with hm | hm
  · exact h1 a k v hm
  · exact h2 a k v hm

theorem AddrConst.filtered {pa aa : String → Option String} {evs : List Event}
    (h : AddrConst pa aa evs) : AddrConst pa aa (dropAddrDeletes evs) :=
  fun a k v hm => h a k v (List.mem_filter.mp hm).1

/-- the visible address keys of the fold are the nodes' addresses -/
def AddrInv (pa aa : String → Option String) (v : WView) : Prop :=
  ∀ a nv, v.find a = some nv →
    (∀ x, nv.kv.find proxyAddrKey = some x → pa a = some x) ∧
    (∀ x, nv.kv.find adminAddrKey = some x → aa a = some x)

theorem addrInv_step {pa aa : String → Option String} {v : WView} (e : Event) (h : AddrInv pa aa v)
    (he : ∀ a k x, e = .upsert a k x → (k = proxyAddrKey → pa a = some x) ∧ (k = adminAddrKey → aa a = some x)) :
    AddrInv pa aa (viewStep v e) := by
  intro a nv hf
  rw [find_viewStep] at hf
  split at hf
  · next hn =>
    cases e with
    | join id => simp only [evKind, nviewStep, Option.some.injEq] at hf; subst hf; simp
    | expired id => cases hv : v.find a <;> simp [evKind, nviewStep, hv] at hf
    | leave id =>
      cases hv : v.find a with
      | none => simp [evKind, nviewStep, hv] at hf
      | some n0 => simp only [evKind, nviewStep, hv, Option.some.injEq] at hf; subst hf; exact h a n0 hv
    | reachable id =>
      cases hv : v.find a with
      | none => simp [evKind, nviewStep, hv] at hf
      | some n0 => simp only [evKind, nviewStep, hv, Option.some.injEq] at hf; subst hf; exact h a n0 hv
    | unreachable id =>
      cases hv : v.find a with
      | none => simp [evKind, nviewStep, hv] at hf
      | some n0 => simp only [evKind, nviewStep, hv, Option.some.injEq] at hf; subst hf; exact h a n0 hv
    | upsert id k x =>
      simp only [evNode] at hn
      cases hv : v.find a with
      | none => simp [evKind, nviewStep, hv] at hf
      | some n0 =>
        simp only [evKind, nviewStep, hv, Option.some.injEq] at hf; subst hf
        have h0 := h a n0 hv
        have hk := he id k x rfl
        rw [hn] at hk
        constructor
        · intro y hy
          simp only [AMap.find_insert] at hy
          split at hy
          · next e' => cases hy; exact hk.1 e'
          · exact h0.1 y hy
        · intro y hy
          simp only [AMap.find_insert] at hy
          split at hy
          · next e' => cases hy; exact hk.2 e'
          · exact h0.2 y hy
    | delete id k =>
      cases hv : v.find a with
      | none => simp [evKind, nviewStep, hv] at hf
      | some n0 =>
        simp only [evKind, nviewStep, hv, Option.some.injEq] at hf; subst hf
        have h0 := h a n0 hv
        constructor
        · intro y hy
          simp only [AMap.find_erase] at hy
          split at hy
          · cases hy
          · exact h0.1 y hy
        · intro y hy
          simp only [AMap.find_erase] at hy
          split at hy
          · cases hy
          · exact h0.2 y hy
  · exact h a nv hf

theorem addrOK_of_inv {pa aa : String → Option String} :
    ∀ (evs : List Event) {v : WView} (l : String), AddrInv pa aa v → AddrConst pa aa evs →
      (∀ e ∈ evs, addrDelete e = false) → Trace AddrOKn l v evs
  | [], _, _, _, _, _ => trivial
  | e :: es, v, l, hi, hc, hd => by
    have hce : ∀ a k x, e = .upsert a k x →
        (k = proxyAddrKey → pa a = some x) ∧ (k = adminAddrKey → aa a = some x) :=
      fun a k x he => hc a k x (he ▸ List.mem_cons_self ..)
    refine ⟨Or.inr ?_, addrOK_of_inv es l (addrInv_step e hi hce)
      (fun a k x hm => hc a k x (List.mem_cons_of_mem _ hm)) (fun e' he' => hd e' (List.mem_cons_of_mem _ he'))⟩
    have hde := hd e (List.mem_cons_self ..)
    cases e with
    | delete id k =>
      simp only [addrDelete, isAddrKey_false] at hde
      cases hv : v.find id <;> simp [evNode, evKind, AddrOKn, hde.1, hde.2]
    | upsert id k x =>
      cases hv : v.find id with
      | none => simp [evNode, evKind, AddrOKn, hv]
      | some nv =>
        simp only [evNode, evKind, AddrOKn, hv]
        intro hk hb
        rw [bothAddr_iff] at hb
        have h0 := hi id nv hv
        have hk' := hce id k x rfl
        rcases hk with rfl | rfl
        · cases hf : nv.kv.find proxyAddrKey with
          | none => simp [NView.addr, hf] at hb
          | some y =>
            have e1 := h0.1 y hf
            have e2 := hk'.1 rfl
            rw [e1] at e2; cases e2; rfl
        · cases hf : nv.kv.find adminAddrKey with
          | none => simp [NView.addr, hf] at hb
          | some y =>
            have e1 := h0.2 y hf
            have e2 := hk'.2 rfl
            rw [e1] at e2; cases e2; rfl
    | join id => cases hv : v.find id <;> simp [evNode, evKind, AddrOKn]
    | leave id => cases hv : v.find id <;> simp [evNode, evKind, AddrOKn]
    | reachable id => cases hv : v.find id <;> simp [evNode, evKind, AddrOKn]
    | unreachable id => cases hv : v.find id <;> simp [evNode, evKind, AddrOKn]
    | expired id => cases hv : v.find id <;> simp [evNode, evKind, AddrOKn]

/-- **The filtered history is `AddrStable`** whenever every address `upsert` about a node carries
that node's one address. -/
theorem addrStable_filtered {pa aa : String → Option String} (l : String) (evs : List Event)
    (h : AddrConst pa aa evs) : AddrStable l (dropAddrDeletes evs) :=
  addrOK_of_inv (dropAddrDeletes evs) l (fun a nv hf => by simp at hf) h.filtered
    (fun e he => by simpa using (List.mem_filter.mp he).2)

/-- a node the filtered fold does not flag `left` was not dropped -/
theorem not_dropped_of_not_left (evs : List Event) (a : String) (nv : NView)
    (h : (foldEvents evs).find a = some nv) (hl : nv.left = false) : nv.dropped = false := by
  cases hd : nv.dropped with
  | false => rfl
  | true => have := dropped_imp_left evs a nv h hd; rw [hl] at this; cases this

/-- what is visible of a caught-up owner in the unfiltered fold is visible in the filtered one -/
theorem caught_filtered {nv nv' : NView} (h : NSim (some nv) (some nv')) (ownerLive : String → Option String)
    (hc : ∀ k, nv.kv.find k = ownerLive k) {p q : String}
    (hp : ownerLive proxyAddrKey = some p) (hq : ownerLive adminAddrKey = some q) :
    ∀ k, nv'.kv.find k = ownerLive k := by
  obtain ⟨_, _, h3, h4⟩ := h
  intro k
  by_cases hk : isAddrKey k = true
  · rcases (isAddrKey_iff k).mp hk with rfl | rfl
    · rw [hp]; exact h4 _ _ (by rw [hc, hp])
    · rw [hq]; exact h4 _ _ (by rw [hc, hq])
  · have hk' : isAddrKey k = false := by simpa using hk
    rw [← h3 k hk', hc]

end SyncerSpec
end Piko
