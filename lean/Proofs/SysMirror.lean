import Proofs.SysInv
/-!
# From the system invariant to the premises of `C04_mirror`

* `Sys.node_eq`             — unpack `Sys.node`.
* `NodeInv.fold_view`       — C14 + the bridge to C04's fold: what the observer's notification fold
                              says about a remembered remote node is that node's visible view.
* `ownerLive_eq_liveValue`  — the visible value of a non-reserved own key is its live value
                              (own entries are never `Internal` outside the reserved keys).
* `NodeInv.owner_*`         — C05: the owner's visible entries are its two addresses and
                              `endpoint:<e> ↦ Itoa(count)` for exactly the registered endpoints.
* `SysInv.view_not_left`    — a view is flagged left only if its owner has left.
-/
set_option linter.unusedSimpArgs false
namespace Piko
open Piko.Gossip

theorem Sys.node_eq {s : Sys} {n : String} {x : SysNode} (h : s.node n = some x) :
    ∃ sd g, s.side.find n = some sd ∧ s.net.nodes.find n = some g ∧
      x = { mgr := { lbs := sd.lbs, cluster := sd.table, gossip := g }, sync := sd.sync, evs := sd.evs } := by
  unfold Sys.node at h
  cases hs : s.side.find n with
  | none => simp [hs] at h
  | some sd =>
    cases hg : s.net.nodes.find n with
    | none => simp [hs, hg] at h
    | some g =>
      simp only [hs, hg, Option.some.injEq] at h
      exact ⟨sd, g, rfl, rfl, h.symm⟩

/-- the visible value of an entry map at a key -/
def visAt (m : AMap String Entry) (k : String) : Option String := (m.find k).bind C14.visVal

/-- **C14 for one remembered node.**  The C04 fold of everything the observer was told has the
node, with the flags of the observer's view and exactly its visible keys. -/
theorem NodeInv.fold_view {pa aa : String → Option String} {r : String} {sd : Side} {g : CState}
    (h : NodeInv pa aa r sd g) {a : String} {V : NodeSt} (hV : g.nodes.find a = some V) (hne : a ≠ r) :
    ∃ nv, (SyncerSpec.foldEvents sd.evs).find a = some nv ∧ nv.left = V.left ∧ nv.unreach = V.unreachable ∧
      ∀ k, nv.kv.find k = visAt V.entries k := by
  have hden := (C14.foldOK_iff _ g h.wf).mp h.fold
  have h1 := congrFun hden a
  have hne' : ¬ a = g.localId := by rw [h.lid]; exact hne
  simp only [C14.den, C14.avis, hne', if_false, hV, Option.map_some] at h1
  have hsame := SyncerSpec.sameView_fold [] [] sd.evs SyncerSpec.sameView_nil a
  cases hf : (SyncerSpec.foldEvents sd.evs).find a with
  | none =>
    have hf' : (SyncerSpec.foldFrom [] sd.evs).find a = none := hf
    rw [hf'] at hsame
    simp only [Option.map_none] at hsame
    rw [hsame] at h1; simp at h1
  | some nv =>
    have hf' : (SyncerSpec.foldFrom [] sd.evs).find a = some nv := hf
    rw [hf'] at hsame
    simp only [Option.map_some] at hsame
    rw [hsame] at h1
    simp only [Option.map_some, Option.some.injEq] at h1
    refine ⟨nv, rfl, ?_, ?_, fun k => ?_⟩
    · have := congrArg C14.ANode.left h1; simpa [C14.nden, C14.anode, SyncerSpec.NView.toW] using this
    · have := congrArg C14.ANode.unreachable h1; simpa [C14.nden, C14.anode, SyncerSpec.NView.toW] using this
    · have := congrFun (congrArg C14.ANode.kv h1) k
      simpa [C14.nden, C14.anode, SyncerSpec.NView.toW, C14.mkv, visAt] using this

/-- the owner never flags an ordinary key `Internal`: visible value = live value -/
theorem visAt_own_eq_liveValue {s : Sys} (h : SysInv s) {a : String} {g : CState}
    (hg : s.net.nodes.find a = some g) {sd : Side} (hsd : s.side.find a = some sd)
    (k : String) (hl : k ≠ leftKey) (hc : k ≠ compactKey) :
    visAt (own g).entries k = liveValue g k := by
  have hni := h.node a sd g hsd hg
  have hown := Flow.own_good (h.flow.find hg) (stWF_ownPresent hni.wf)
  unfold visAt liveValue
  cases hf : (own g).entries.find k with
  | none => rfl
  | some e =>
    have hkey : e.key = k := (C14.own_of_wf hni.wf).2.1.2 k e hf
    have hok : entryOK e = true := (hown.2.1 (k, e) (AMap.mem_of_find hf)).1
    have hint : e.internal = false := by
      simp only [entryOK, isReserved, hkey, hl, hc, decide_false, Bool.or_false, beq_iff_eq] at hok
      exact hok
    simp only [Option.bind_some, C14.visVal, visibleEntry, hint, Bool.not_false, Bool.true_and]
    cases e.deleted <;> simp

/-- **C05 for the owner**: what it shows under the keys the syncer reads -/
theorem SysInv.owner_shows {s : Sys} (h : SysInv s) {a : String} {g : CState} {sd : Side}
    (hg : s.net.nodes.find a = some g) (hsd : s.side.find a = some sd) :
    visAt (own g).entries Cluster.proxyAddrKey = some sd.table.localNode.proxyAddr ∧
    visAt (own g).entries Cluster.adminAddrKey = some sd.table.localNode.adminAddr ∧
    (∀ e, visAt (own g).entries (SyncerSpec.epKey e) =
      (sd.table.localNode.endpoints.find e).map (fun c => toString c)) ∧
    (∀ e, sd.table.localNode.endpoints.find e =
      if (Upstream.Mgr.registry { lbs := sd.lbs, cluster := sd.table, gossip := g } e).length = 0 then none
      else some ((Upstream.Mgr.registry { lbs := sd.lbs, cluster := sd.table, gossip := g } e).length : Int)) := by
  have hni := h.node a sd g hsd hg
  refine ⟨?_, ?_, fun e => ?_, fun e => hni.minv.counts e⟩
  · rw [visAt_own_eq_liveValue h hg hsd _ (by decide) (by decide)]; exact hni.paddr
  · rw [visAt_own_eq_liveValue h hg hsd _ (by decide) (by decide)]; exact hni.aaddr
  · have hk : SyncerSpec.epKey e = "endpoint:" ++ e := rfl
    rw [visAt_own_eq_liveValue h hg hsd _ (hk ▸ (epKey_ne_reserved e).1) (hk ▸ (epKey_ne_reserved e).2)]
    have hadv := hni.minv.adv e
    have hcnt := hni.minv.counts e
    unfold Upstream.advertised at hadv
    simp only [] at hadv
    rw [show SyncerSpec.epKey e = Upstream.epKey e from rfl, hadv, hcnt]
    unfold Upstream.advOpt Upstream.countOpt
    split
    · rfl
    · rfl

/-- **A view is flagged left only if its owner has left.** -/
theorem SysInv.view_not_left {s : Sys} (h : SysInv s) {r a : String} {gr ga : CState} {V : NodeSt}
    (hr : s.net.nodes.find r = some gr) (ha : s.net.nodes.find a = some ga)
    (hV : gr.nodes.find a = some V) (hnl : (own ga).left = false) : V.left = false := by
  cases hl : V.left with
  | false => rfl
  | true =>
    obtain ⟨g0, hg0, hleft⟩ := ((h.flow.find hr).find hV).2.2 hl
    rw [ha] at hg0; cases hg0
    rw [hnl] at hleft; cases hleft

end Piko
