import PikoModel.Gossip.Net
import Proofs.GossipLocal
/-!
# Membership lifecycle of `pkg/gossip/state.go` (helper lemmas for C11)

Everything is stated about the model `PikoModel/Gossip/State.lean` (one function per Go
method of `clusterState`).  Names live in `Piko.C11` so that they cannot clash with the
lemma files of other properties.
-/
set_option linter.unusedSimpArgs false
namespace Piko.C11
open Piko Piko.Gossip

/-! ## association lists -/
section amap
variable {κ ν : Type} [DecidableEq κ]

theorem mem_insert {m : AMap κ ν} {k : κ} {v : ν} {p : κ × ν} (h : p ∈ AMap.insert m k v) :
    p = (k, v) ∨ p ∈ m := by
  simp only [AMap.insert, AMap.erase, List.mem_cons, List.mem_filter] at h
  rcases h with h | h
  · exact Or.inl h
  · exact Or.inr h.1

omit [DecidableEq κ] in
theorem mem_filterV {m : AMap κ ν} {f : ν → Bool} {p : κ × ν} :
    p ∈ AMap.filterV m f ↔ p ∈ m ∧ f p.2 = true := by
  simp [AMap.filterV]

theorem find_eq_none_of_not_mem_keys {m : AMap κ ν} {k : κ} (h : k ∉ AMap.keys m) :
    AMap.find m k = none := by
  induction m with
  | nil => rfl
  | cons p m ih =>
    obtain ⟨k', v'⟩ := p
    simp only [AMap.keys, List.map_cons, List.mem_cons, not_or] at h
    have hk : ¬ k' = k := fun e => h.1 e.symm
    simp only [AMap.find_cons, hk, if_false]
    exact ih h.2

omit [DecidableEq κ] in
theorem mem_keys_of_mem {m : AMap κ ν} {p : κ × ν} (h : p ∈ m) : p.1 ∈ AMap.keys m :=
  List.mem_map.mpr ⟨p, h, rfl⟩

theorem find_of_mem_nodup {m : AMap κ ν} (hn : AMap.NoDupKeys m) {p : κ × ν} (hp : p ∈ m) :
    AMap.find m p.1 = some p.2 := by
  induction m with
  | nil => simp at hp
  | cons q m ih =>
    obtain ⟨k', v'⟩ := q
    simp only [AMap.NoDupKeys, AMap.keys, List.map_cons, List.nodup_cons] at hn
    rcases List.mem_cons.mp hp with h | h
    · subst h; simp
    · have hne : ¬ k' = p.1 := by
        intro e
        apply hn.1
        rw [e]
        exact mem_keys_of_mem h
      simp only [AMap.find_cons, hne, if_false]
      exact ih hn.2 h

/-- a node that passes the filter is still found (no key-uniqueness needed) -/
theorem find_filterV_of_pass {m : AMap κ ν} {k : κ} {v : ν} {f : ν → Bool}
    (h : AMap.find m k = some v) (hf : f v = true) : AMap.find (AMap.filterV m f) k = some v := by
  induction m with
  | nil => simp at h
  | cons q m ih =>
    obtain ⟨k', v'⟩ := q
    by_cases hk : k' = k
    · subst hk
      simp only [AMap.find_cons, if_true, Option.some.injEq] at h
      subst h
      simp [AMap.filterV, List.filter, hf]
    · simp only [AMap.find_cons, hk, if_false] at h
      have := ih h
      by_cases hv : f v' = true
      · simp only [AMap.filterV, List.filter, hv] at this ⊢
        simp only [AMap.find_cons, hk, if_false]
        exact this
      · simp only [AMap.filterV, List.filter, hv] at this ⊢
        exact this

theorem find_filterV_nodup {m : AMap κ ν} (hn : AMap.NoDupKeys m) (f : ν → Bool) (k : κ) :
    AMap.find (AMap.filterV m f) k = (AMap.find m k).filter f := by
  induction m with
  | nil => rfl
  | cons q m ih =>
    obtain ⟨k', v'⟩ := q
    simp only [AMap.NoDupKeys, AMap.keys, List.map_cons, List.nodup_cons] at hn
    have ih' := ih hn.2
    by_cases hk : k' = k
    · subst hk
      have hnone : AMap.find m k' = none := find_eq_none_of_not_mem_keys hn.1
      by_cases hv : f v' = true
      · simp [AMap.filterV, List.filter, hv, Option.filter]
      · simp only [AMap.filterV, List.filter, hv] at ih' ⊢
        rw [ih', hnone]
        simp [Option.filter, hv]
    · by_cases hv : f v' = true
      · simp only [AMap.filterV, List.filter, hv] at ih' ⊢
        simp only [AMap.find_cons, hk, if_false]
        exact ih'
      · simp only [AMap.filterV, List.filter, hv] at ih' ⊢
        simp only [AMap.find_cons, hk, if_false]
        exact ih'

omit [DecidableEq κ] in
theorem noDupKeys_filterV {m : AMap κ ν} (hn : AMap.NoDupKeys m) (f : ν → Bool) :
    AMap.NoDupKeys (AMap.filterV m f) := by
  unfold AMap.NoDupKeys AMap.keys AMap.filterV at *
  exact List.Nodup.sublist (List.Sublist.map _ List.filter_sublist) hn

end amap

/-! ## one view: `applyEntry` / `applyEntries` -/

/-- the entry is the owner's left marker (`e.Internal && e.Key == leftKey`) -/
def isLeftMarker (e : Entry) : Prop := e.internal = true ∧ e.key = leftKey

instance (e : Entry) : Decidable (isLeftMarker e) := by unfold isLeftMarker; infer_instance

/-- what one loop iteration of `applyDeltaEntry` can do to a view -/
theorem applyEntry_shape (now : Nat) (st : NodeSt) (e : Entry) :
    (applyEntry now st e).1 = st ∨
    (st.version < e.version ∧
     (∀ p ∈ (applyEntry now st e).1.entries, p = (e.key, e) ∨ p ∈ st.entries) ∧
     (applyEntry now st e).1.id = st.id ∧ (applyEntry now st e).1.addr = st.addr ∧
     (applyEntry now st e).1.unreachable = st.unreachable ∧
     (applyEntry now st e).1.version = e.version ∧
     (if isLeftMarker e then (applyEntry now st e).1.left = true ∧
          (applyEntry now st e).1.expiry = some (now + nodeExpiry)
      else (applyEntry now st e).1.left = st.left ∧ (applyEntry now st e).1.expiry = st.expiry)) := by
  unfold applyEntry isLeftMarker
  by_cases hv : e.version ≤ st.version
  · left; simp [hv]
  · right
    refine ⟨Nat.lt_of_not_le hv, ?_⟩
    simp only [hv, if_false]
    by_cases hi : e.internal = true
    · by_cases hl : e.key = leftKey
      · simp only [hi, hl, if_true, and_self, true_and]
        exact ⟨fun p hp => mem_insert (hl ▸ hp), trivial⟩
      · simp only [hi, hl, if_true, if_false, and_false, true_and]
        by_cases hc : e.key = compactKey
        · simp only [hc, if_true]
          cases hp : parseUint64 e.value with
          | none => simp only []; exact ⟨fun p hp => mem_insert (hc ▸ hp), by simp⟩
          | some cv =>
            simp only []
            refine ⟨fun p hp => ?_, by simp⟩
            exact mem_insert (hc ▸ (mem_filterV.mp hp).1)
        · simp only [hc, if_false]
          exact ⟨fun p hp => mem_insert hp, by simp⟩
    · simp only [hi, false_and, if_false]
      by_cases hd : e.deleted = true
      · simp only [hd, if_true]; exact ⟨fun p hp => mem_insert hp, by simp⟩
      · simp only [hd, if_false]; exact ⟨fun p hp => mem_insert hp, by simp⟩

theorem applyEntries_nil (now : Nat) (st : NodeSt) : applyEntries now st [] = (st, []) := rfl

theorem applyEntries_cons (now : Nat) (st : NodeSt) (e : Entry) (es : List Entry) :
    applyEntries now st (e :: es) =
      if (applyEntry now st e).2.2 = true then ((applyEntry now st e).1, (applyEntry now st e).2.1)
      else ((applyEntries now (applyEntry now st e).1 es).1,
            (applyEntry now st e).2.1 ++ (applyEntries now (applyEntry now st e).1 es).2) := by
  rfl

/-- what gossip about a node can change in the membership fields of its view: nothing but
`left` (only upwards) -/
structure Ext (n r : NodeSt) : Prop where
  id : r.id = n.id
  addr : r.addr = n.addr
  unreachable : r.unreachable = n.unreachable
  left : n.left = true → r.left = true

theorem Ext.refl (n : NodeSt) : Ext n n := ⟨rfl, rfl, rfl, fun h => h⟩

theorem Ext.trans {a b c : NodeSt} (h1 : Ext a b) (h2 : Ext b c) : Ext a c :=
  ⟨h2.id.trans h1.id, h2.addr.trans h1.addr, h2.unreachable.trans h1.unreachable,
   fun h => h2.left (h1.left h)⟩

theorem applyEntry_ext (now : Nat) (st : NodeSt) (e : Entry) : Ext st (applyEntry now st e).1 := by
  rcases applyEntry_shape now st e with h | ⟨_, _, hid, haddr, hu, _, hl⟩
  · rw [h]; exact Ext.refl st
  · refine ⟨hid, haddr, hu, fun h => ?_⟩
    by_cases hm : isLeftMarker e
    · rw [if_pos hm] at hl; exact hl.1
    · rw [if_neg hm] at hl; rw [hl.1]; exact h

theorem applyEntries_ext (now : Nat) (st : NodeSt) (es : List Entry) :
    Ext st (applyEntries now st es).1 := by
  induction es generalizing st with
  | nil => exact Ext.refl st
  | cons e es ih =>
    rw [applyEntries_cons]
    split
    · exact applyEntry_ext now st e
    · exact (applyEntry_ext now st e).trans (ih _)

/-- the view invariant of C11(a): a view holding the owner's left marker is flagged left -/
def MarkerLeft (n : NodeSt) : Prop :=
  ∀ p ∈ n.entries, (p.1 = leftKey ∨ p.2.key = leftKey) → p.2.internal = true → n.left = true

theorem markerLeft_fresh (id addr : String) : MarkerLeft { id := id, addr := addr } := by
  intro p hp; simp at hp

theorem markerLeft_applyEntry (now : Nat) (st : NodeSt) (e : Entry) (h : MarkerLeft st) :
    MarkerLeft (applyEntry now st e).1 := by
  rcases applyEntry_shape now st e with h1 | ⟨_, hmem, _, _, _, _, hl⟩
  · rw [h1]; exact h
  · intro p hp hk hi
    by_cases hm : isLeftMarker e
    · rw [if_pos hm] at hl; exact hl.1
    · rw [if_neg hm] at hl
      rw [hl.1]
      rcases hmem p hp with rfl | hold
      · exact absurd ⟨hi, by rcases hk with hk | hk <;> exact hk⟩ hm
      · exact h p hold hk hi

theorem markerLeft_applyEntries (now : Nat) (st : NodeSt) (es : List Entry) (h : MarkerLeft st) :
    MarkerLeft (applyEntries now st es).1 := by
  induction es generalizing st with
  | nil => exact h
  | cons e es ih =>
    rw [applyEntries_cons]
    split
    · exact markerLeft_applyEntry now st e h
    · exact ih _ (markerLeft_applyEntry now st e h)

/-- flagged left with the expiry of this round -/
def LeftAt (now : Nat) (n : NodeSt) : Prop := n.left = true ∧ n.expiry = some (now + nodeExpiry)

theorem leftAt_applyEntry (now : Nat) (st : NodeSt) (e : Entry) (h : LeftAt now st) :
    LeftAt now (applyEntry now st e).1 := by
  rcases applyEntry_shape now st e with h1 | ⟨_, _, _, _, _, _, hl⟩
  · rw [h1]; exact h
  · by_cases hm : isLeftMarker e
    · rw [if_pos hm] at hl; exact hl
    · rw [if_neg hm] at hl; exact ⟨hl.1.trans h.1, hl.2.trans h.2⟩

theorem leftAt_applyEntries (now : Nat) (st : NodeSt) (es : List Entry) (h : LeftAt now st) :
    LeftAt now (applyEntries now st es).1 := by
  induction es generalizing st with
  | nil => exact h
  | cons e es ih =>
    rw [applyEntries_cons]
    split
    · exact leftAt_applyEntry now st e h
    · exact ih _ (leftAt_applyEntry now st e h)

/-- `applyDeltaEntry` loop body on the left marker: `state.Left = true`, `state.Expiry =
now + nodeExpiry`, `OnLeave` -/
theorem applyEntry_marker (now : Nat) (st : NodeSt) (e : Entry) (hm : isLeftMarker e)
    (hv : st.version < e.version) :
    applyEntry now st e =
      ({ st with entries := st.entries.insert e.key e, version := e.version, left := true,
                 expiry := some (now + nodeExpiry) }, [Event.leave st.id], false) := by
  unfold applyEntry
  simp [Nat.not_le.mpr hv, hm.1, hm.2]

theorem applyEntries_marker (now : Nat) (st : NodeSt) (e : Entry) (es : List Entry)
    (hm : isLeftMarker e) (hv : st.version < e.version) :
    LeftAt now (applyEntries now st (e :: es)).1 ∧
    Event.leave st.id ∈ (applyEntries now st (e :: es)).2 := by
  rw [applyEntries_cons, applyEntry_marker now st e hm hv]
  simp only [Bool.false_eq_true, if_false]
  exact ⟨leftAt_applyEntries now _ es ⟨rfl, rfl⟩, by simp⟩

/-! ## well-formed cluster states -/

/-- What the Go code relies on without checking: map keys are distinct (a Go map), every
node is stored under its own id, the local node is present, and the local node is neither
unreachable nor has an expiry (`RemoveExpiredAt` deletes whatever has one). -/
structure WF (s : CState) : Prop where
  nodup : s.nodes.NoDupKeys
  ids : ∀ p ∈ s.nodes, p.2.id = p.1
  local_present : OwnPresent s
  local_reachable : (own s).unreachable = false
  local_noexpiry : (own s).expiry = none

theorem wf_init (id addr : String) : WF (init id addr) := by
  refine ⟨?_, ?_, ownPresent_init id addr, ?_, ?_⟩
  · simp [init, AMap.NoDupKeys, AMap.keys]
  · intro p hp; simp [init] at hp; subst hp; rfl
  · simp [own, init]
  · simp [own, init]

theorem find_own {s : CState} (h : OwnPresent s) : s.nodes.find s.localId = some (own s) := by
  obtain ⟨n, hn⟩ := h
  simp [own, hn]

theorem WF.find_own {s : CState} (h : WF s) : s.nodes.find s.localId = some (own s) :=
  C11.find_own h.local_present

theorem WF.find_id {s : CState} (h : WF s) {id : String} {n : NodeSt}
    (hf : s.nodes.find id = some n) : n.id = id :=
  h.ids (id, n) (AMap.mem_of_find hf)

theorem WF.own_id {s : CState} (h : WF s) : (own s).id = s.localId := h.find_id h.find_own

theorem WF.find_of_mem {s : CState} (h : WF s) {p : String × NodeSt} (hp : p ∈ s.nodes) :
    s.nodes.find p.1 = some p.2 := find_of_mem_nodup h.nodup hp

theorem own_congr {s s' : CState} (hl : s'.localId = s.localId)
    (hf : s'.nodes.find s.localId = s.nodes.find s.localId) : own s' = own s := by
  simp [own, hl, hf]

/-- adding or replacing a node other than the local one, under its own id -/
theorem WF.insert_other {s : CState} (h : WF s) {k : String} {n : NodeSt} (hk : k ≠ s.localId)
    (hid : n.id = k) : WF { s with nodes := s.nodes.insert k n } := by
  have hfind : (s.nodes.insert k n).find s.localId = s.nodes.find s.localId :=
    AMap.find_insert_ne _ _ (fun e => hk e.symm)
  have hown : own { s with nodes := s.nodes.insert k n } = own s := own_congr rfl hfind
  refine ⟨h.nodup.insert k n, ?_, ?_, ?_, ?_⟩
  · intro p hp
    rcases mem_insert hp with rfl | hp
    · exact hid
    · exact h.ids p hp
  · obtain ⟨m, hm⟩ := h.local_present
    exact ⟨m, by show (s.nodes.insert k n).find s.localId = some m; rw [hfind, hm]⟩
  · rw [hown]; exact h.local_reachable
  · rw [hown]; exact h.local_noexpiry

/-- replacing the local node by one with the same id, still reachable and without expiry -/
theorem WF.setOwn {s : CState} (h : WF s) {n : NodeSt} (hid : n.id = s.localId)
    (hu : n.unreachable = false) (he : n.expiry = none) : WF (setOwn s n) := by
  refine ⟨h.nodup.insert _ _, ?_, ownPresent_setOwn s n, ?_, ?_⟩
  · intro p hp
    rcases mem_insert hp with rfl | hp
    · exact hid
    · exact h.ids p hp
  · rw [own_setOwn]; exact hu
  · rw [own_setOwn]; exact he

theorem foldl_inv {σ α : Type} (P : σ → Prop) (f : σ → α → σ) (h : ∀ s a, P s → P (f s a))
    (l : List α) (s : σ) (hs : P s) : P (l.foldl f s) := by
  induction l generalizing s with
  | nil => exact hs
  | cons a l ih => exact ih _ (h s a hs)

/-- the view invariant of C11(a), for every node other than the local one -/
def LeftSeen (s : CState) : Prop :=
  ∀ id n, s.nodes.find id = some n → id ≠ s.localId → MarkerLeft n

theorem leftSeen_init (id addr : String) : LeftSeen (init id addr) := by
  intro k n hf hk
  simp only [init, AMap.find_cons, AMap.find_nil] at hf hk
  by_cases h : id = k
  · exact absurd h.symm hk
  · simp [h] at hf

/-! ## `ApplyDigest` -/

/-- state part of one iteration of `ApplyDigest` -/
def digestStep (s : CState) (de : DigestEntry) : CState :=
  match s.nodes.find de.id with
  | some _ => s
  | none =>
    if de.left then s
    else { s with nodes := s.nodes.insert de.id { id := de.id, addr := de.addr } }

theorem applyDigestEntry_fst (acc : CState × List Event) (de : DigestEntry) :
    (applyDigestEntry acc de).1 = digestStep acc.1 de := by
  unfold applyDigestEntry digestStep
  cases acc.1.nodes.find de.id with
  | some _ => rfl
  | none => by_cases h : de.left = true <;> simp [h]

theorem applyDigest_fst (s : CState) (d : Digest) : (applyDigest s d).1 = d.foldl digestStep s := by
  unfold applyDigest
  generalize ([] : List Event) = ev
  induction d generalizing s ev with
  | nil => rfl
  | cons de d ih =>
    simp only [List.foldl_cons]
    have : applyDigestEntry (s, ev) de = ((applyDigestEntry (s, ev) de).1, (applyDigestEntry (s, ev) de).2) := rfl
    rw [this, ih, applyDigestEntry_fst]

theorem digestStep_localId (s : CState) (de : DigestEntry) : (digestStep s de).localId = s.localId := by
  unfold digestStep
  cases s.nodes.find de.id with
  | some _ => rfl
  | none => by_cases h : de.left = true <;> simp [h]

theorem find_digestStep_present {s : CState} (de : DigestEntry) {id : String} {n : NodeSt}
    (hf : s.nodes.find id = some n) : (digestStep s de).nodes.find id = some n := by
  unfold digestStep
  cases hd : s.nodes.find de.id with
  | some _ => exact hf
  | none =>
    by_cases h : de.left = true
    · simp [h, hf]
    · have hne : id ≠ de.id := by rintro rfl; rw [hd] at hf; cases hf
      simp only [h, if_false, Bool.false_eq_true]
      rw [AMap.find_insert_ne _ _ hne]; exact hf

theorem find_digestStep_new {s : CState} (de : DigestEntry) {id : String} {n : NodeSt}
    (hf : s.nodes.find id = none) (hn : (digestStep s de).nodes.find id = some n) :
    de.id = id ∧ de.left = false ∧ n = { id := id, addr := de.addr } := by
  unfold digestStep at hn
  cases hd : s.nodes.find de.id with
  | some _ => rw [hd] at hn; rw [hf] at hn; cases hn
  | none =>
    rw [hd] at hn
    by_cases h : de.left = true
    · simp [h, hf] at hn
    · simp only [h, if_false, Bool.false_eq_true] at hn
      rw [AMap.find_insert] at hn
      by_cases hk : de.id = id
      · simp only [hk, if_true, Option.some.injEq] at hn
        exact ⟨hk, by simpa using h, by rw [← hn]⟩
      · simp only [hk, if_false] at hn; rw [hf] at hn; cases hn

theorem find_digestFold_present (d : Digest) {s : CState} {id : String} {n : NodeSt}
    (hf : s.nodes.find id = some n) : (d.foldl digestStep s).nodes.find id = some n := by
  induction d generalizing s with
  | nil => exact hf
  | cons de d ih => exact ih (find_digestStep_present de hf)

theorem find_digestFold_new (d : Digest) {s : CState} {id : String} {n : NodeSt}
    (hf : s.nodes.find id = none) (hn : (d.foldl digestStep s).nodes.find id = some n) :
    ∃ de ∈ d, de.id = id ∧ de.left = false ∧ n = { id := id, addr := de.addr } := by
  induction d generalizing s with
  | nil => simp only [List.foldl_nil] at hn; rw [hf] at hn; cases hn
  | cons de d ih =>
    simp only [List.foldl_cons] at hn
    cases h1 : (digestStep s de).nodes.find id with
    | none =>
      obtain ⟨x, hx, h⟩ := ih h1 hn
      exact ⟨x, List.mem_cons_of_mem _ hx, h⟩
    | some n0 =>
      have := find_digestFold_present d h1
      rw [this] at hn; cases hn
      exact ⟨de, List.mem_cons_self, find_digestStep_new de hf h1⟩

theorem wf_digestStep {s : CState} (h : WF s) (de : DigestEntry) : WF (digestStep s de) := by
  unfold digestStep
  cases hd : s.nodes.find de.id with
  | some _ => exact h
  | none =>
    by_cases hl : de.left = true
    · simp [hl]; exact h
    · simp only [hl, if_false, Bool.false_eq_true]
      refine h.insert_other ?_ rfl
      intro e; rw [e, h.find_own] at hd; cases hd

theorem leftSeen_digestStep {s : CState} (h : LeftSeen s) (de : DigestEntry) :
    LeftSeen (digestStep s de) := by
  intro id n hf hk
  rw [digestStep_localId] at hk
  cases h0 : s.nodes.find id with
  | some m =>
    have := find_digestStep_present de h0
    rw [this] at hf; cases hf
    exact h id _ h0 hk
  | none =>
    obtain ⟨_, _, rfl⟩ := find_digestStep_new de h0 hf
    exact markerLeft_fresh _ _

/-! ## `ApplyDelta` -/

/-- the view `applyDeltaEntry` starts from: the stored one, or a fresh version-0 node -/
def viewOf (s : CState) (de : DeltaEntry) : NodeSt :=
  match s.nodes.find de.id with
  | some st => st
  | none => { id := de.id, addr := de.addr }

theorem applyDeltaEntry_fst (now : Nat) (s : CState) (de : DeltaEntry) :
    (applyDeltaEntry now s de).1 =
      if de.id = s.localId then s
      else { s with nodes := s.nodes.insert de.id (applyEntries now (viewOf s de) de.entries).1 } := by
  unfold applyDeltaEntry viewOf
  by_cases h : de.id = s.localId
  · simp [h]
  · simp only [h, if_false]
    cases s.nodes.find de.id <;> rfl

theorem applyDeltaEntry_snd (now : Nat) (s : CState) (de : DeltaEntry) :
    (applyDeltaEntry now s de).2 =
      if de.id = s.localId then []
      else (match s.nodes.find de.id with | some _ => [] | none => [Event.join de.id]) ++
             (applyEntries now (viewOf s de) de.entries).2 := by
  unfold applyDeltaEntry viewOf
  by_cases h : de.id = s.localId
  · simp [h]
  · simp only [h, if_false]
    cases s.nodes.find de.id <;> rfl

/-- state part of one iteration of `ApplyDelta` -/
def deltaStep (now : Nat) (s : CState) (de : DeltaEntry) : CState := (applyDeltaEntry now s de).1

theorem applyDelta_fst (now : Nat) (s : CState) (d : Delta) :
    (applyDelta now s d).1 = d.foldl (deltaStep now) s := by
  unfold applyDelta
  generalize ([] : List Event) = ev
  induction d generalizing s ev with
  | nil => rfl
  | cons de d ih =>
    simp only [List.foldl_cons]
    rw [ih]
    rfl

theorem deltaStep_localId (now : Nat) (s : CState) (de : DeltaEntry) :
    (deltaStep now s de).localId = s.localId := by
  unfold deltaStep; rw [applyDeltaEntry_fst]; split <;> rfl

theorem find_deltaStep (now : Nat) (s : CState) (de : DeltaEntry) (id : String) :
    (deltaStep now s de).nodes.find id =
      if de.id = s.localId then s.nodes.find id
      else if de.id = id then some (applyEntries now (viewOf s de) de.entries).1
      else s.nodes.find id := by
  unfold deltaStep; rw [applyDeltaEntry_fst]
  by_cases h : de.id = s.localId
  · simp [h]
  · simp only [h, if_false]; exact AMap.find_insert _ _ _ _

theorem viewOf_of_find {s : CState} {de : DeltaEntry} {n : NodeSt} (h : s.nodes.find de.id = some n) :
    viewOf s de = n := by simp [viewOf, h]

theorem viewOf_of_none {s : CState} {de : DeltaEntry} (h : s.nodes.find de.id = none) :
    viewOf s de = { id := de.id, addr := de.addr } := by simp [viewOf, h]

/-- messages never touch the local node -/
theorem find_local_deltaStep (now : Nat) (s : CState) (de : DeltaEntry) :
    (deltaStep now s de).nodes.find s.localId = s.nodes.find s.localId := by
  rw [find_deltaStep]
  by_cases h : de.id = s.localId
  · simp [h]
  · simp [h]

theorem find_deltaStep_present (now : Nat) {s : CState} (de : DeltaEntry) {id : String} {n : NodeSt}
    (hf : s.nodes.find id = some n) :
    ∃ n', (deltaStep now s de).nodes.find id = some n' ∧ Ext n n' := by
  rw [find_deltaStep]
  by_cases h : de.id = s.localId
  · exact ⟨n, by simp [h, hf], Ext.refl n⟩
  · by_cases hk : de.id = id
    · subst hk
      refine ⟨(applyEntries now (viewOf s de) de.entries).1, by simp only [h, if_false, if_true], ?_⟩
      have : viewOf s de = n := viewOf_of_find hf
      rw [← this]; exact applyEntries_ext now _ _
    · exact ⟨n, by simp [h, hk, hf], Ext.refl n⟩

theorem find_deltaStep_new (now : Nat) {s : CState} (de : DeltaEntry) {id : String} {n : NodeSt}
    (hf : s.nodes.find id = none) (hn : (deltaStep now s de).nodes.find id = some n) :
    de.id = id := by
  rw [find_deltaStep] at hn
  by_cases h : de.id = s.localId
  · simp [h, hf] at hn
  · by_cases hk : de.id = id
    · exact hk
    · simp [h, hk, hf] at hn

theorem deltaFold_localId (now : Nat) (d : Delta) (s : CState) :
    (d.foldl (deltaStep now) s).localId = s.localId := by
  induction d generalizing s with
  | nil => rfl
  | cons de d ih => simp only [List.foldl_cons]; rw [ih, deltaStep_localId]

theorem find_local_deltaFold (now : Nat) (d : Delta) (s : CState) :
    (d.foldl (deltaStep now) s).nodes.find s.localId = s.nodes.find s.localId := by
  induction d generalizing s with
  | nil => rfl
  | cons de d ih =>
    simp only [List.foldl_cons]
    have := ih (deltaStep now s de)
    rw [deltaStep_localId] at this
    rw [this, find_local_deltaStep]

theorem find_deltaFold_present (now : Nat) (d : Delta) {s : CState} {id : String} {n : NodeSt}
    (hf : s.nodes.find id = some n) :
    ∃ n', (d.foldl (deltaStep now) s).nodes.find id = some n' ∧ Ext n n' := by
  induction d generalizing s n with
  | nil => exact ⟨n, hf, Ext.refl n⟩
  | cons de d ih =>
    obtain ⟨n1, h1, e1⟩ := find_deltaStep_present now de hf
    obtain ⟨n2, h2, e2⟩ := ih h1
    exact ⟨n2, h2, e1.trans e2⟩

theorem find_deltaFold_new (now : Nat) (d : Delta) {s : CState} {id : String} {n : NodeSt}
    (hf : s.nodes.find id = none) (hn : (d.foldl (deltaStep now) s).nodes.find id = some n) :
    ∃ de ∈ d, de.id = id := by
  induction d generalizing s with
  | nil => simp only [List.foldl_nil] at hn; rw [hf] at hn; cases hn
  | cons de d ih =>
    simp only [List.foldl_cons] at hn
    cases h1 : (deltaStep now s de).nodes.find id with
    | none =>
      obtain ⟨x, hx, h⟩ := ih h1 hn
      exact ⟨x, List.mem_cons_of_mem _ hx, h⟩
    | some n0 => exact ⟨de, List.mem_cons_self, find_deltaStep_new now de hf h1⟩

theorem wf_deltaStep (now : Nat) {s : CState} (h : WF s) (de : DeltaEntry) : WF (deltaStep now s de) := by
  unfold deltaStep; rw [applyDeltaEntry_fst]
  by_cases hk : de.id = s.localId
  · simp [hk]; exact h
  · simp only [hk, if_false]
    refine h.insert_other hk ?_
    rw [(applyEntries_ext now _ _).id]
    cases hf : s.nodes.find de.id with
    | some n => rw [viewOf_of_find hf]; exact h.find_id hf
    | none => rw [viewOf_of_none hf]

theorem leftSeen_deltaStep (now : Nat) {s : CState} (h : LeftSeen s) (de : DeltaEntry) :
    LeftSeen (deltaStep now s de) := by
  intro id n hf hk
  rw [deltaStep_localId] at hk
  rw [find_deltaStep] at hf
  by_cases hl : de.id = s.localId
  · simp only [hl, if_true] at hf; exact h id n hf hk
  · simp only [hl, if_false] at hf
    by_cases hi : de.id = id
    · simp only [hi, if_true, Option.some.injEq] at hf
      rw [← hf]
      apply markerLeft_applyEntries
      cases hv : s.nodes.find de.id with
      | some m => rw [viewOf_of_find hv]; exact h de.id m hv hl
      | none => rw [viewOf_of_none hv]; exact markerLeft_fresh _ _
    · simp only [hi, if_false] at hf; exact h id n hf hk

/-! ## `UpdateLiveness` -/

/-- what `UpdateLiveness` does to one node -/
def liveNode (localId : String) (suspected : String → Bool) (now : Nat) (n : NodeSt) : NodeSt :=
  if n.id = localId || n.left then n else
  if suspected n.id then
    if n.unreachable then n else { n with unreachable := true, expiry := some (now + nodeExpiry) }
  else if n.unreachable then { n with unreachable := false, expiry := none }
  else n

theorem liveNode_id (L : String) (f : String → Bool) (now : Nat) (n : NodeSt) :
    (liveNode L f now n).id = n.id := by
  unfold liveNode; (repeat' split) <;> rfl

theorem liveNode_left (L : String) (f : String → Bool) (now : Nat) (n : NodeSt) :
    (liveNode L f now n).left = n.left := by
  unfold liveNode; (repeat' split) <;> rfl

theorem liveNode_entries (L : String) (f : String → Bool) (now : Nat) (n : NodeSt) :
    (liveNode L f now n).entries = n.entries := by
  unfold liveNode; (repeat' split) <;> rfl

theorem liveNode_skip {L : String} (f : String → Bool) (now : Nat) {n : NodeSt}
    (h : n.id = L ∨ n.left = true) : liveNode L f now n = n := by
  unfold liveNode
  have : (decide (n.id = L) || n.left) = true := by
    rcases h with h | h <;> simp [h]
  simp [this]

theorem find_livenessStep (L : String) (f : String → Bool) (now : Nat) (acc : CState × List Event)
    (p : String × NodeSt) (hacc : acc.1.nodes.find p.2.id = some p.2) (id : String) :
    (livenessStep L f now acc p).1.nodes.find id =
      if p.2.id = id then some (liveNode L f now p.2) else acc.1.nodes.find id := by
  unfold livenessStep liveNode
  by_cases h1 : (decide (p.2.id = L) || p.2.left) = true
  · simp only [h1, if_true]
    by_cases hk : p.2.id = id
    · rw [if_pos hk, ← hk, hacc]
    · rw [if_neg hk]
  · simp only [h1, if_false, Bool.false_eq_true]
    by_cases h2 : f p.2.id = true
    · by_cases h3 : p.2.unreachable = true
      · simp only [h2, h3, if_true]
        by_cases hk : p.2.id = id
        · rw [if_pos hk, ← hk, hacc]
        · rw [if_neg hk]
      · simp only [h2, h3, if_true, if_false, Bool.false_eq_true, setNode]
        exact AMap.find_insert _ _ _ _
    · by_cases h3 : p.2.unreachable = true
      · simp only [h2, h3, if_true, if_false, Bool.false_eq_true, setNode]
        exact AMap.find_insert _ _ _ _
      · simp only [h2, h3, if_false, Bool.false_eq_true]
        by_cases hk : p.2.id = id
        · rw [if_pos hk, ← hk, hacc]
        · rw [if_neg hk]

theorem find_livenessFold (L : String) (f : String → Bool) (now : Nat) (l : AMap String NodeSt)
    (acc : CState × List Event) (hn : AMap.NoDupKeys l) (hid : ∀ p ∈ l, p.2.id = p.1)
    (hacc : ∀ p ∈ l, acc.1.nodes.find p.1 = some p.2) (id : String) :
    (l.foldl (livenessStep L f now) acc).1.nodes.find id =
      match AMap.find l id with
      | some n => some (liveNode L f now n)
      | none => acc.1.nodes.find id := by
  induction l generalizing acc with
  | nil => rfl
  | cons q l ih =>
    obtain ⟨k, n⟩ := q
    have hn' := hn
    simp only [AMap.NoDupKeys, AMap.keys, List.map_cons, List.nodup_cons] at hn'
    have hnk : n.id = k := hid (k, n) List.mem_cons_self
    have hq : acc.1.nodes.find n.id = some n := by
      rw [hnk]; exact hacc (k, n) List.mem_cons_self
    have hstep := find_livenessStep L f now acc (k, n) hq
    simp only [List.foldl_cons]
    rw [ih (livenessStep L f now acc (k, n)) hn'.2 (fun p hp => hid p (List.mem_cons_of_mem _ hp))]
    · simp only [AMap.find_cons]
      by_cases hk : k = id
      · subst hk
        rw [find_eq_none_of_not_mem_keys hn'.1]
        simp only [if_true]
        rw [hstep]; simp [hnk]
      · simp only [hk, if_false]
        cases AMap.find l id with
        | some m => rfl
        | none =>
          simp only []
          rw [hstep, hnk]; simp [hk]
    · intro p hp
      rw [hstep, hnk]
      have : ¬ k = p.1 := by
        intro e; apply hn'.1; rw [e]; exact mem_keys_of_mem hp
      simp only [this, if_false]
      exact hacc p (List.mem_cons_of_mem _ hp)

/-- `UpdateLiveness` maps every remembered node through `liveNode` and forgets none -/
theorem find_updateLiveness {s : CState} (h : WF s) (f : String → Bool) (now : Nat) (id : String) :
    (updateLiveness s f now).1.nodes.find id = (s.nodes.find id).map (liveNode s.localId f now) := by
  unfold updateLiveness
  rw [find_livenessFold s.localId f now s.nodes (s, []) h.nodup h.ids (fun p hp => h.find_of_mem hp)]
  cases s.nodes.find id <;> rfl

theorem livenessStep_basic (L : String) (f : String → Bool) (now : Nat) (acc : CState × List Event)
    (p : String × NodeSt)
    (h : acc.1.localId = L ∧ acc.1.nodes.NoDupKeys ∧ ∀ q ∈ acc.1.nodes, q.2.id = q.1) :
    (livenessStep L f now acc p).1.localId = L ∧ (livenessStep L f now acc p).1.nodes.NoDupKeys ∧
      ∀ q ∈ (livenessStep L f now acc p).1.nodes, q.2.id = q.1 := by
  have key : ∀ n' : NodeSt, (setNode acc.1 n').localId = L ∧ (setNode acc.1 n').nodes.NoDupKeys ∧
      ∀ q ∈ (setNode acc.1 n').nodes, q.2.id = q.1 := by
    intro n'
    refine ⟨h.1, h.2.1.insert _ _, ?_⟩
    intro q hq
    rcases mem_insert hq with rfl | hq
    · rfl
    · exact h.2.2 q hq
  unfold livenessStep
  dsimp only
  (repeat' split) <;> first | exact h | exact key _

theorem updateLiveness_basic {s : CState} (h : WF s) (f : String → Bool) (now : Nat) :
    (updateLiveness s f now).1.localId = s.localId ∧ (updateLiveness s f now).1.nodes.NoDupKeys ∧
      ∀ q ∈ (updateLiveness s f now).1.nodes, q.2.id = q.1 := by
  unfold updateLiveness
  exact foldl_inv (fun acc : CState × List Event => acc.1.localId = s.localId ∧ acc.1.nodes.NoDupKeys ∧
      ∀ q ∈ acc.1.nodes, q.2.id = q.1) _ (fun acc p hacc => livenessStep_basic _ f now acc p hacc)
    s.nodes (s, []) ⟨rfl, h.nodup, h.ids⟩

theorem own_updateLiveness {s : CState} (h : WF s) (f : String → Bool) (now : Nat) :
    own (updateLiveness s f now).1 = own s := by
  apply own_congr (updateLiveness_basic h f now).1
  rw [find_updateLiveness h, h.find_own]
  simp [liveNode_skip f now (Or.inl h.own_id)]

theorem wf_updateLiveness {s : CState} (h : WF s) (f : String → Bool) (now : Nat) :
    WF (updateLiveness s f now).1 := by
  obtain ⟨hl, hn, hi⟩ := updateLiveness_basic h f now
  refine ⟨hn, hi, ?_, ?_, ?_⟩
  · refine ⟨liveNode s.localId f now (own s), ?_⟩
    rw [hl, find_updateLiveness h, h.find_own]; rfl
  · rw [own_updateLiveness h]; exact h.local_reachable
  · rw [own_updateLiveness h]; exact h.local_noexpiry

theorem leftSeen_updateLiveness {s : CState} (h : WF s) (hs : LeftSeen s) (f : String → Bool) (now : Nat) :
    LeftSeen (updateLiveness s f now).1 := by
  intro id n hf hk
  rw [(updateLiveness_basic h f now).1] at hk
  rw [find_updateLiveness h] at hf
  cases h0 : s.nodes.find id with
  | none => rw [h0] at hf; cases hf
  | some m =>
    rw [h0] at hf
    simp only [Option.map_some, Option.some.injEq] at hf
    have hm := hs id m h0 hk
    intro p hp hkey hint
    rw [← hf, liveNode_entries] at hp
    rw [← hf, liveNode_left]
    exact hm p hp hkey hint

/-! ## `RemoveExpiredAt` -/

theorem removeExpiredAt_nodes (s : CState) (t : Nat) :
    (removeExpiredAt s t).1.nodes = s.nodes.filterV (fun n => !isExpiredAt t n) := rfl

theorem removeExpiredAt_snd (s : CState) (t : Nat) :
    (removeExpiredAt s t).2 = (s.nodes.vals.filter (isExpiredAt t)).map (fun n => Event.expired n.id) := rfl

theorem removeExpiredAt_localId (s : CState) (t : Nat) : (removeExpiredAt s t).1.localId = s.localId := rfl

theorem find_removeExpiredAt {s : CState} (h : s.nodes.NoDupKeys) (t : Nat) (id : String) :
    (removeExpiredAt s t).1.nodes.find id = (s.nodes.find id).filter (fun n => !isExpiredAt t n) := by
  rw [removeExpiredAt_nodes]
  exact find_filterV_nodup h _ id

theorem find_removeExpiredAt_some {s : CState} (h : s.nodes.NoDupKeys) (t : Nat) (id : String) (n : NodeSt) :
    (removeExpiredAt s t).1.nodes.find id = some n ↔
      s.nodes.find id = some n ∧ isExpiredAt t n = false := by
  rw [find_removeExpiredAt h]
  cases hf : s.nodes.find id with
  | none => simp [Option.filter]
  | some m =>
    by_cases he : isExpiredAt t m = true
    · simp [Option.filter, he]
      intro e; subst e; simp [he]
    · simp only [Bool.not_eq_true] at he
      simp [Option.filter, he]
      intro e; subst e; exact he

theorem own_not_expired {s : CState} (h : WF s) (t : Nat) : (!isExpiredAt t (own s)) = true := by
  simp [isExpiredAt, h.local_noexpiry]

theorem find_local_removeExpiredAt {s : CState} (h : WF s) (t : Nat) :
    (removeExpiredAt s t).1.nodes.find s.localId = some (own s) := by
  rw [removeExpiredAt_nodes]
  exact find_filterV_of_pass (f := fun n => !isExpiredAt t n) h.find_own (own_not_expired h t)

theorem own_removeExpiredAt {s : CState} (h : WF s) (t : Nat) : own (removeExpiredAt s t).1 = own s := by
  apply own_congr (removeExpiredAt_localId s t)
  rw [find_local_removeExpiredAt h, h.find_own]

theorem wf_removeExpiredAt {s : CState} (h : WF s) (t : Nat) : WF (removeExpiredAt s t).1 := by
  have hown := own_removeExpiredAt h t
  refine ⟨?_, ?_, ⟨own s, find_local_removeExpiredAt h t⟩, ?_, ?_⟩
  · rw [removeExpiredAt_nodes]; exact noDupKeys_filterV h.nodup _
  · intro p hp
    rw [removeExpiredAt_nodes] at hp
    exact h.ids p (mem_filterV.mp hp).1
  · rw [hown]; exact h.local_reachable
  · rw [hown]; exact h.local_noexpiry

theorem leftSeen_removeExpiredAt {s : CState} (h : WF s) (hs : LeftSeen s) (t : Nat) :
    LeftSeen (removeExpiredAt s t).1 := by
  intro id n hf hk
  exact hs id n ((find_removeExpiredAt_some h.nodup t id n).mp hf).1 hk

/-! ## local writes -/

/-- a local key-value write (`UpsertLocal`, `DeleteLocal`, `CompactLocal`): nothing, or the
local node with a new version and new entries -/
def KvStep (s s' : CState) : Prop :=
  s' = s ∨ ∃ ver ents, s' = setOwn s { own s with version := ver, entries := ents }

theorem kvStep_writeOwn (s : CState) (k : String) (mk : Nat → Entry) : KvStep s (writeOwn s k mk) :=
  Or.inr ⟨_, _, rfl⟩

theorem kvStep_upsertLocal (s : CState) (k v : String) : KvStep s (upsertLocal s k v) := by
  unfold upsertLocal
  split
  · split
    · exact Or.inl rfl
    · exact kvStep_writeOwn _ _ _
  · exact kvStep_writeOwn _ _ _

theorem kvStep_deleteLocal (s : CState) (k : String) : KvStep s (deleteLocal s k) := by
  unfold deleteLocal
  split
  · exact Or.inl rfl
  · split
    · exact Or.inl rfl
    · exact kvStep_writeOwn _ _ _

theorem kvStep_compactLocal (s : CState) (thr : Nat) : KvStep s ((compactLocal s thr).getD s) := by
  unfold compactLocal
  dsimp only
  split
  · exact Or.inl rfl
  · split
    · exact Or.inl rfl
    · exact Or.inr ⟨_, _, rfl⟩

/-- `LeaveLocal`: nothing if already left, else the local node flagged left with the marker -/
theorem leaveLocal_shape (s : CState) :
    ((own s).left = true ∧ leaveLocal s = s) ∨
    ((own s).left = false ∧ ∃ ver ents, leaveLocal s = setOwn s { own s with left := true, version := ver, entries := ents }) := by
  unfold leaveLocal
  dsimp only
  by_cases h : (own s).left = true
  · left; simp [h]
  · right; simp only [Bool.not_eq_true] at h; simp [h]; exact ⟨_, _, rfl⟩

theorem find_setOwn_ne (s : CState) (n : NodeSt) {id : String} (h : id ≠ s.localId) :
    (setOwn s n).nodes.find id = s.nodes.find id := AMap.find_insert_ne _ _ h

theorem find_setOwn_self (s : CState) (n : NodeSt) : (setOwn s n).nodes.find s.localId = some n :=
  AMap.find_insert_self _ _ _

/-! ## every operation of `clusterState` -/

/-- the operations of `clusterState` that change it, with arbitrary arguments -/
inductive COp
  | upsert (k v : String) | delete (k : String) | leave | compact (thr : Nat)
  | applyDigest (d : Digest) | applyDelta (now : Nat) (d : Delta)
  | liveness (suspected : String → Bool) (now : Nat) | expire (t : Nat)

/-- `compact` where the Go code panics (`none`) leaves the state as it was -/
def COp.apply (s : CState) : COp → CState
  | .upsert k v => upsertLocal s k v
  | .delete k => deleteLocal s k
  | .leave => leaveLocal s
  | .compact thr => (compactLocal s thr).getD s
  | .applyDigest d => (Gossip.applyDigest s d).1
  | .applyDelta now d => (Gossip.applyDelta now s d).1
  | .liveness f now => (updateLiveness s f now).1
  | .expire t => (removeExpiredAt s t).1

/-- the receive side and the periodic sweeps: everything except the local writes -/
def COp.receiveSide : COp → Bool
  | .applyDigest _ | .applyDelta _ _ | .liveness _ _ | .expire _ => true
  | _ => false

def COp.isLeave : COp → Bool
  | .leave => true
  | _ => false

def runOps (s : CState) (ops : List COp) : CState := ops.foldl COp.apply s

theorem digestFold_localId (d : Digest) (s : CState) : (d.foldl digestStep s).localId = s.localId := by
  induction d generalizing s with
  | nil => rfl
  | cons de d ih => simp only [List.foldl_cons]; rw [ih, digestStep_localId]

theorem wf_kvStep {s s' : CState} (h : WF s) (hk : KvStep s s') : WF s' := by
  rcases hk with rfl | ⟨ver, ents, rfl⟩
  · exact h
  · exact h.setOwn h.own_id h.local_reachable h.local_noexpiry

theorem wf_leaveLocal {s : CState} (h : WF s) : WF (leaveLocal s) := by
  rcases leaveLocal_shape s with ⟨_, e⟩ | ⟨_, ver, ents, e⟩
  · rw [e]; exact h
  · rw [e]; exact h.setOwn h.own_id h.local_reachable h.local_noexpiry

/-- well-formedness is preserved by every operation, whatever its arguments -/
theorem wf_apply {s : CState} (h : WF s) (op : COp) : WF (op.apply s) := by
  cases op with
  | upsert k v => exact wf_kvStep h (kvStep_upsertLocal s k v)
  | delete k => exact wf_kvStep h (kvStep_deleteLocal s k)
  | leave => exact wf_leaveLocal h
  | compact thr => exact wf_kvStep h (kvStep_compactLocal s thr)
  | applyDigest d =>
    show WF (applyDigest s d).1
    rw [applyDigest_fst]; exact foldl_inv WF _ (fun s de hs => wf_digestStep hs de) d s h
  | applyDelta now d =>
    show WF (applyDelta now s d).1
    rw [applyDelta_fst]; exact foldl_inv WF _ (fun s de hs => wf_deltaStep now hs de) d s h
  | liveness f now => exact wf_updateLiveness h f now
  | expire t => exact wf_removeExpiredAt h t

theorem wf_runOps {s : CState} (h : WF s) (ops : List COp) : WF (runOps s ops) :=
  foldl_inv WF _ (fun _ op hs => wf_apply hs op) ops s h

theorem localId_kvStep {s s' : CState} (hk : KvStep s s') : s'.localId = s.localId := by
  rcases hk with rfl | ⟨ver, ents, rfl⟩ <;> rfl

theorem localId_leaveLocal (s : CState) : (leaveLocal s).localId = s.localId := by
  rcases leaveLocal_shape s with ⟨_, e⟩ | ⟨_, ver, ents, e⟩ <;> rw [e] <;> rfl

theorem localId_apply {s : CState} (h : WF s) (op : COp) : (op.apply s).localId = s.localId := by
  cases op with
  | upsert k v => exact localId_kvStep (kvStep_upsertLocal s k v)
  | delete k => exact localId_kvStep (kvStep_deleteLocal s k)
  | leave => exact localId_leaveLocal s
  | compact thr => exact localId_kvStep (kvStep_compactLocal s thr)
  | applyDigest d => show (applyDigest s d).1.localId = _; rw [applyDigest_fst, digestFold_localId]
  | applyDelta now d => show (applyDelta now s d).1.localId = _; rw [applyDelta_fst, deltaFold_localId]
  | liveness f now => exact (updateLiveness_basic h f now).1
  | expire t => rfl

theorem leftSeen_setOwn {s : CState} (hs : LeftSeen s) (n : NodeSt) : LeftSeen (setOwn s n) := by
  intro id m hf hk
  have hk' : id ≠ s.localId := hk
  rw [find_setOwn_ne s n hk'] at hf
  exact hs id m hf hk'

theorem leftSeen_kvStep {s s' : CState} (hs : LeftSeen s) (hk : KvStep s s') : LeftSeen s' := by
  rcases hk with rfl | ⟨ver, ents, rfl⟩
  · exact hs
  · exact leftSeen_setOwn hs _

/-- the view invariant of C11(a) is preserved by every operation -/
theorem leftSeen_apply {s : CState} (h : WF s) (hs : LeftSeen s) (op : COp) : LeftSeen (op.apply s) := by
  cases op with
  | upsert k v => exact leftSeen_kvStep hs (kvStep_upsertLocal s k v)
  | delete k => exact leftSeen_kvStep hs (kvStep_deleteLocal s k)
  | leave =>
    show LeftSeen (leaveLocal s)
    rcases leaveLocal_shape s with ⟨_, e⟩ | ⟨_, ver, ents, e⟩
    · rw [e]; exact hs
    · rw [e]; exact leftSeen_setOwn hs _
  | compact thr => exact leftSeen_kvStep hs (kvStep_compactLocal s thr)
  | applyDigest d =>
    show LeftSeen (applyDigest s d).1
    rw [applyDigest_fst]; exact foldl_inv LeftSeen _ (fun s de hs => leftSeen_digestStep hs de) d s hs
  | applyDelta now d =>
    show LeftSeen (applyDelta now s d).1
    rw [applyDelta_fst]; exact foldl_inv LeftSeen _ (fun s de hs => leftSeen_deltaStep now hs de) d s hs
  | liveness f now => exact leftSeen_updateLiveness h hs f now
  | expire t => exact leftSeen_removeExpiredAt h hs t

/-- receive-side operations and sweeps leave the local node exactly as it was -/
theorem own_apply_receive {s : CState} (h : WF s) (op : COp) (hr : op.receiveSide = true) :
    own (op.apply s) = own s := by
  cases op with
  | upsert k v => cases hr
  | delete k => cases hr
  | leave => cases hr
  | compact thr => cases hr
  | applyDigest d =>
    show own (applyDigest s d).1 = own s
    rw [applyDigest_fst]
    apply own_congr (digestFold_localId d s)
    rw [find_digestFold_present d h.find_own, h.find_own]
  | applyDelta now d =>
    show own (applyDelta now s d).1 = own s
    rw [applyDelta_fst]
    exact own_congr (deltaFold_localId now d s) (find_local_deltaFold now d s)
  | liveness f now => exact own_updateLiveness h f now
  | expire t => exact own_removeExpiredAt h t

theorem own_kvStep {s s' : CState} (hk : KvStep s s') :
    (own s').left = (own s).left ∧ (own s').unreachable = (own s).unreachable ∧
    (own s').expiry = (own s).expiry ∧ (own s').id = (own s).id ∧ (own s').addr = (own s).addr := by
  rcases hk with rfl | ⟨ver, ents, rfl⟩
  · exact ⟨rfl, rfl, rfl, rfl, rfl⟩
  · rw [own_setOwn]; exact ⟨rfl, rfl, rfl, rfl, rfl⟩

/-- only `LeaveLocal` changes the local `left` flag -/
theorem own_left_apply {s : CState} (h : WF s) (op : COp) (hl : op.isLeave = false) :
    (own (op.apply s)).left = (own s).left := by
  cases op with
  | upsert k v => exact (own_kvStep (kvStep_upsertLocal s k v)).1
  | delete k => exact (own_kvStep (kvStep_deleteLocal s k)).1
  | leave => cases hl
  | compact thr => exact (own_kvStep (kvStep_compactLocal s thr)).1
  | applyDigest d => rw [own_apply_receive h _ rfl]
  | applyDelta now d => rw [own_apply_receive h _ rfl]
  | liveness f now => rw [own_apply_receive h _ rfl]
  | expire t => rw [own_apply_receive h _ rfl]

theorem own_left_leaveLocal (s : CState) : (own (leaveLocal s)).left = true := by
  rcases leaveLocal_shape s with ⟨hl, e⟩ | ⟨_, ver, ents, e⟩
  · rw [e]; exact hl
  · rw [e, own_setOwn]

/-- `left` is never reset on a node that is still remembered, and its id never changes -/
theorem sticky_apply {s : CState} (h : WF s) (op : COp) {id : String} {n n' : NodeSt}
    (hf : s.nodes.find id = some n) (hf' : (op.apply s).nodes.find id = some n') :
    n'.id = n.id ∧ (n.left = true → n'.left = true) := by
  have local_case : ∀ s' : CState, (s' = s ∨ ∃ m : NodeSt, s' = setOwn s m ∧ m.id = (own s).id ∧
      ((own s).left = true → m.left = true)) → s'.nodes.find id = some n' →
      n'.id = n.id ∧ (n.left = true → n'.left = true) := by
    intro s' hs' hx
    rcases hs' with e | ⟨m, e, hmid, hml⟩
    · rw [e, hf] at hx; cases hx; exact ⟨rfl, fun x => x⟩
    · rw [e] at hx
      by_cases hk : id = s.localId
      · rw [hk, find_setOwn_self] at hx; cases hx
        rw [hk, h.find_own] at hf; cases hf
        exact ⟨hmid, hml⟩
      · rw [find_setOwn_ne s m hk, hf] at hx; cases hx; exact ⟨rfl, fun x => x⟩
  have kv_case : ∀ s' : CState, KvStep s s' → s'.nodes.find id = some n' →
      n'.id = n.id ∧ (n.left = true → n'.left = true) := by
    intro s' hk
    apply local_case
    rcases hk with rfl | ⟨ver, ents, rfl⟩
    · exact Or.inl rfl
    · exact Or.inr ⟨_, rfl, rfl, fun x => x⟩
  cases op with
  | upsert k v => exact kv_case _ (kvStep_upsertLocal s k v) hf'
  | delete k => exact kv_case _ (kvStep_deleteLocal s k) hf'
  | leave =>
    apply local_case _ _ hf'
    rcases leaveLocal_shape s with ⟨_, e⟩ | ⟨_, ver, ents, e⟩
    · exact Or.inl e
    · exact Or.inr ⟨_, e, rfl, fun _ => rfl⟩
  | compact thr => exact kv_case _ (kvStep_compactLocal s thr) hf'
  | applyDigest d =>
    change (applyDigest s d).1.nodes.find id = some n' at hf'
    rw [applyDigest_fst, find_digestFold_present d hf] at hf'
    cases hf'; exact ⟨rfl, fun x => x⟩
  | applyDelta now d =>
    change (applyDelta now s d).1.nodes.find id = some n' at hf'
    rw [applyDelta_fst] at hf'
    obtain ⟨m, hm, e⟩ := find_deltaFold_present now d hf
    rw [hm] at hf'; cases hf'
    exact ⟨e.id, e.left⟩
  | liveness f now =>
    change (updateLiveness s f now).1.nodes.find id = some n' at hf'
    rw [find_updateLiveness h, hf] at hf'
    simp only [Option.map_some, Option.some.injEq] at hf'
    rw [← hf', liveNode_id, liveNode_left]
    exact ⟨rfl, fun x => x⟩
  | expire t =>
    change (removeExpiredAt s t).1.nodes.find id = some n' at hf'
    have := ((find_removeExpiredAt_some h.nodup t id n').mp hf').1
    rw [hf] at this; cases this
    exact ⟨rfl, fun x => x⟩

/-- `LiveNodes` never returns the local node, a left node or an unreachable node -/
theorem liveNodes_spec (s : CState) (n : NodeSt) (h : n ∈ liveNodes s) :
    n.id ≠ s.localId ∧ n.left = false ∧ n.unreachable = false ∧ n ∈ s.nodes.vals := by
  unfold liveNodes at h
  simp only [List.mem_filter, Bool.and_eq_true, Bool.not_eq_true', decide_eq_false_iff_not,
    Bool.or_eq_false_iff] at h
  exact ⟨h.2.1, h.2.2.2, h.2.2.1, h.1⟩

/-! ## expiry events -/

theorem vals_ids_eq_keys {s : CState} (h : WF s) : s.nodes.vals.map (·.id) = s.nodes.keys := by
  unfold AMap.vals AMap.keys
  rw [List.map_map]
  exact List.map_congr_left (fun p hp => h.ids p hp)

/-- no node is reported expired twice by one sweep -/
theorem expired_events_nodup {s : CState} (h : WF s) (t : Nat) : (removeExpiredAt s t).2.Nodup := by
  rw [removeExpiredAt_snd]
  have h1 : ((s.nodes.vals.filter (isExpiredAt t)).map (·.id)).Nodup := by
    refine List.Nodup.sublist (List.Sublist.map _ List.filter_sublist) ?_
    rw [vals_ids_eq_keys h]; exact h.nodup
  have h2 := List.Pairwise.map (S := fun a b : Event => a ≠ b) Event.expired
    (fun a b hab e => hab (by injection e)) h1
  rw [List.map_map] at h2
  exact h2

/-- a node is reported expired exactly when it was remembered with an expiry before `t` -/
theorem mem_expired_events {s : CState} (h : WF s) (t : Nat) (id : String) :
    Event.expired id ∈ (removeExpiredAt s t).2 ↔
      ∃ n, s.nodes.find id = some n ∧ isExpiredAt t n = true := by
  rw [removeExpiredAt_snd]
  simp only [List.mem_map, List.mem_filter, AMap.vals]
  constructor
  · rintro ⟨n, ⟨⟨p, hp, rfl⟩, he⟩, hid⟩
    injection hid with hid
    have := h.find_of_mem hp
    rw [← hid, h.ids p hp]
    exact ⟨p.2, this, he⟩
  · rintro ⟨n, hf, he⟩
    have hm := AMap.mem_of_find hf
    exact ⟨n, ⟨⟨(id, n), hm, rfl⟩, he⟩, by rw [h.find_id hf]⟩

theorem isExpiredAt_iff (t : Nat) (n : NodeSt) : isExpiredAt t n = true ↔ ∃ x, n.expiry = some x ∧ x < t := by
  unfold isExpiredAt
  cases n.expiry with
  | none => simp
  | some x => simp

/-! ## `UpdateLiveness`, consequences -/

theorem updateLiveness_spec {s : CState} (h : WF s) (f : String → Bool) (now : Nat) {id : String} {n' : NodeSt}
    (hf : (updateLiveness s f now).1.nodes.find id = some n') :
    ∃ n, s.nodes.find id = some n ∧ n.id = id ∧ n' = liveNode s.localId f now n := by
  rw [find_updateLiveness h] at hf
  cases h0 : s.nodes.find id with
  | none => rw [h0] at hf; cases hf
  | some m =>
    rw [h0] at hf
    simp only [Option.map_some, Option.some.injEq] at hf
    exact ⟨m, rfl, h.find_id h0, hf.symm⟩

theorem liveNode_unreachable {L : String} (f : String → Bool) (now : Nat) {n : NodeSt}
    (h1 : n.id ≠ L) (h2 : n.left = false) : (liveNode L f now n).unreachable = f n.id := by
  unfold liveNode
  have : (decide (n.id = L) || n.left) = false := by simp [h1, h2]
  simp only [this, Bool.false_eq_true, if_false]
  by_cases hf : f n.id = true
  · by_cases hu : n.unreachable = true <;> simp [hf, hu]
  · by_cases hu : n.unreachable = true <;> simp [hf, hu]

/-- the expiry after `UpdateLiveness`: set when newly unreachable, cleared on recovery,
otherwise as before -/
theorem liveNode_expiry {L : String} (f : String → Bool) (now : Nat) {n : NodeSt}
    (h1 : n.id ≠ L) (h2 : n.left = false) :
    (liveNode L f now n).expiry =
      if f n.id = true then (if n.unreachable = true then n.expiry else some (now + nodeExpiry))
      else (if n.unreachable = true then none else n.expiry) := by
  unfold liveNode
  have : (decide (n.id = L) || n.left) = false := by simp [h1, h2]
  simp only [this, Bool.false_eq_true, if_false]
  by_cases hf : f n.id = true
  · by_cases hu : n.unreachable = true <;> simp [hf, hu]
  · by_cases hu : n.unreachable = true <;> simp [hf, hu]

/-! ## forgotten nodes -/

/-- the operation carries information that can (re-)introduce node `id`: a digest entry
about it not flagged left, or any delta entry about it -/
def COp.teaches (id : String) : COp → Prop
  | .applyDigest d => ∃ de ∈ d, de.id = id ∧ de.left = false
  | .applyDelta _ d => ∃ de ∈ d, de.id = id
  | _ => False

theorem absent_kvStep {s s' : CState} (h : WF s) (hk : KvStep s s') {id : String}
    (hf : s.nodes.find id = none) : s'.nodes.find id = none := by
  rcases hk with rfl | ⟨ver, ents, rfl⟩
  · exact hf
  · have : id ≠ s.localId := by rintro rfl; rw [h.find_own] at hf; cases hf
    rw [find_setOwn_ne s _ this]; exact hf

theorem forgotten_apply {s : CState} (h : WF s) (op : COp) {id : String}
    (hf : s.nodes.find id = none) (hn : ¬ op.teaches id) : (op.apply s).nodes.find id = none := by
  cases op with
  | upsert k v => exact absent_kvStep h (kvStep_upsertLocal s k v) hf
  | delete k => exact absent_kvStep h (kvStep_deleteLocal s k) hf
  | leave =>
    show (leaveLocal s).nodes.find id = none
    rcases leaveLocal_shape s with ⟨_, e⟩ | ⟨_, ver, ents, e⟩
    · rw [e]; exact hf
    · have : id ≠ s.localId := by rintro rfl; rw [h.find_own] at hf; cases hf
      rw [e, find_setOwn_ne s _ this]; exact hf
  | compact thr => exact absent_kvStep h (kvStep_compactLocal s thr) hf
  | applyDigest d =>
    show (Gossip.applyDigest s d).1.nodes.find id = none
    rw [applyDigest_fst]
    cases hr : (d.foldl digestStep s).nodes.find id with
    | none => rfl
    | some n =>
      obtain ⟨de, hde, h1, h2, _⟩ := find_digestFold_new d hf hr
      exact absurd ⟨de, hde, h1, h2⟩ hn
  | applyDelta now d =>
    show (Gossip.applyDelta now s d).1.nodes.find id = none
    rw [applyDelta_fst]
    cases hr : (d.foldl (deltaStep now) s).nodes.find id with
    | none => rfl
    | some n => exact absurd (find_deltaFold_new now d hf hr) hn
  | liveness f now =>
    show (updateLiveness s f now).1.nodes.find id = none
    rw [find_updateLiveness h, hf]; rfl
  | expire t =>
    show (removeExpiredAt s t).1.nodes.find id = none
    rw [find_removeExpiredAt h.nodup, hf]; rfl

theorem forgotten_runOps {s : CState} (h : WF s) (ops : List COp) {id : String}
    (hf : s.nodes.find id = none) (hn : ∀ op ∈ ops, ¬ op.teaches id) :
    (runOps s ops).nodes.find id = none := by
  induction ops generalizing s with
  | nil => exact hf
  | cons op ops ih =>
    exact ih (wf_apply h op) (forgotten_apply h op hf (hn op List.mem_cons_self))
      (fun o ho => hn o (List.mem_cons_of_mem _ ho))

/-! ## lifting state invariants to the network model `Gossip/Net.lean` -/

/-- every node of the network satisfies `P` -/
def NetAll (P : CState → Prop) (net : Net) : Prop := ∀ p ∈ net.nodes, P p.2

theorem netAll_setNode {P : CState → Prop} {net : Net} (h : NetAll P net) (id : String) {s : CState}
    (hs : P s) : NetAll P (net.setNode id s) := by
  intro p hp
  rcases mem_insert hp with rfl | hp
  · exact hs
  · exact h p hp

theorem netAll_find {P : CState → Prop} {net : Net} (h : NetAll P net) {id : String} {s : CState}
    (hf : net.nodes.find id = some s) : P s := h (id, s) (AMap.mem_of_find hf)

theorem netAll_byAddr {P : CState → Prop} {net : Net} (h : NetAll P net) {addr id : String} {s : CState}
    (hf : net.nodeByAddr addr = some (id, s)) : P s := by
  unfold Net.nodeByAddr at hf
  exact h (id, s) (List.mem_of_find?_eq_some hf)

theorem handleDigest_fst (s : CState) (a : String) (r : Bool) (d : Digest) (c : Nat) (p : List Nat) (dc : Nat) :
    (handleDigest s a r d c p dc).1 = (COp.applyDigest d).apply s := rfl

/-- An invariant of `clusterState` that holds initially and is preserved by every operation
(with arbitrary arguments) holds of every node after every step of the network model:
each `Net.step` is a composition of those operations on one or two nodes. -/
theorem netAll_step (P : CState → Prop) (hinit : ∀ id addr, P (init id addr))
    (hop : ∀ s (op : COp), P s → P (op.apply s)) (net : Net) (h : NetAll P net) (op : Op) :
    NetAll P (net.step op).net := by
  have hlocal : ∀ (n : String) (f : CState → CState), (∀ s, P s → P (f s)) → NetAll P (localOp net n f).net := by
    intro n f hf
    unfold localOp
    split
    · exact h
    · next s hs => exact netAll_setNode h n (hf s (netAll_find h hs))
  cases op with
  | node id addr =>
    simp only [Net.step]
    split
    · exact h
    · split
      · exact h
      · exact netAll_setNode h id (hinit id addr)
  | upsert n k v => exact hlocal n _ (fun s hs => hop s (.upsert k v) hs)
  | delete n k => exact hlocal n _ (fun s hs => hop s (.delete k) hs)
  | leave n => exact hlocal n _ (fun s hs => hop s .leave hs)
  | compact n thr =>
    simp only [Net.step]
    split
    · exact h
    · next s hs =>
      split
      · exact h
      · next s' hc =>
        have : s' = (COp.compact thr).apply s := by simp [COp.apply, hc]
        rw [this]; exact netAll_setNode h n (hop s _ (netAll_find h hs))
  | sendDigest n dst request perm cut =>
    simp only [Net.step]
    split
    · exact h
    · exact h
  | deliver i cut perm dcut now =>
    simp only [Net.step]
    split
    · exact h
    · next src srcAddr dst request d hpk =>
      split
      · exact h
      · next id s hb =>
        intro p hp
        exact netAll_setNode h id (s := (handleDigest s srcAddr request d cut perm dcut).1)
          (by rw [handleDigest_fst]; exact hop s _ (netAll_byAddr h hb)) p hp
    · next src srcAddr dst d hpk =>
      split
      · exact h
      · next id s hb =>
        exact netAll_setNode h id (hop s (.applyDelta now d) (netAll_byAddr h hb))
  | join n m replyDelivered now =>
    simp only [Net.step]
    split
    · next sn sm hn hm =>
      split
      · exact h
      · have hsn := netAll_find h hn
        have hsm := netAll_find h hm
        have h2 : P (applyDigest (applyDelta now sm (localDelta sn)).1 (sortDigest (digest sn))).1 :=
          hop _ (.applyDigest _) (hop sm (.applyDelta now _) hsm)
        split
        · exact netAll_setNode (netAll_setNode h m h2) n (hop sn (.applyDelta now _) hsn)
        · exact netAll_setNode h m h2
    · exact h
  | leaveStream n m now =>
    simp only [Net.step]
    split
    · next sn sm hn hm =>
      split
      · exact h
      · exact netAll_setNode h m (hop sm (.applyDelta now _) (netAll_find h hm))
    · exact h
  | liveness n suspected now =>
    simp only [Net.step]
    split
    · exact h
    · next s hs => exact netAll_setNode h n (hop s (.liveness _ now) (netAll_find h hs))
  | expire n t =>
    simp only [Net.step]
    split
    · exact h
    · next s hs => exact netAll_setNode h n (hop s (.expire t) (netAll_find h hs))

theorem netAll_run (P : CState → Prop) (hinit : ∀ id addr, P (init id addr))
    (hop : ∀ s (op : COp), P s → P (op.apply s)) (net : Net) (h : NetAll P net) (ops : List Op) :
    NetAll P (net.run ops) := by
  unfold Net.run
  induction ops generalizing net with
  | nil => exact h
  | cons op ops ih => exact ih _ (netAll_step P hinit hop net h op)

/-- the state invariant of C11: well-formed, and every view holding a left marker is left -/
def Inv (s : CState) : Prop := WF s ∧ LeftSeen s

theorem inv_init (id addr : String) : Inv (init id addr) := ⟨wf_init id addr, leftSeen_init id addr⟩

theorem inv_apply (s : CState) (op : COp) (h : Inv s) : Inv (op.apply s) :=
  ⟨wf_apply h.1 op, leftSeen_apply h.1 h.2 op⟩

/-! ## the F2 trace -/

/-- Finding F2 as a schedule of the network model: A (with one key) is known to B and C;
A crashes (takes no further step); B marks A unreachable and expires it; C, still holding A,
sends B a digest; B answers; C pushes its copy of A. -/
def f2Trace : List Op :=
  [.node "A" "aA", .node "B" "aB", .node "C" "aC",
   .upsert "A" "k" "v",
   .join "A" "B" true 0, .join "A" "C" true 0, .join "B" "C" true 0,
   -- A crashes here: no later op is a step of A, and no packet is addressed to it
   .liveness "B" ["A"] 0, .expire "B" (nodeExpiry + 1),
   .sendDigest "C" "aB" true [0, 1, 2] 1000,
   .deliver 0 1000 [0, 1, 2] 1000 0,
   .deliver 2 1000 [0, 1, 2] 1000 0,
   .deliver 3 1000 [0, 1, 2] 1000 0]

/-- what observer `b` knows about `a` in a network: `none` = forgotten/unknown, else
(left, unreachable, expiry, version) -/
def viewSummary (net : Net) (b a : String) : Option (Bool × Bool × Option Nat × Nat) :=
  ((net.nodes.find b).bind (fun s => s.nodes.find a)).map
    (fun n => (n.left, n.unreachable, n.expiry, n.version))

theorem localId_runOps {s : CState} (h : WF s) (ops : List COp) : (runOps s ops).localId = s.localId := by
  induction ops generalizing s with
  | nil => rfl
  | cons op ops ih =>
    show (runOps (op.apply s) ops).localId = _
    rw [ih (wf_apply h op), localId_apply h op]

end Piko.C11
