import PikoModel.Gossip.Codec
import Proofs.GossipLocal
/-!
# Lemmas about the packet codec model (`PikoModel/Gossip/Codec.lean`) for C13

1. primitive round trips `parseX (encX x ++ rest) = some (x, rest)` (strings, uint64, int, bool),
2. item round trips (digestHeader, deltaHeader, digestEntry, Entry),
3. `fitCount`: what is sent fits, is maximal, distributes over `++`,
4. the encode loops of `protocol.go` (including the inner `break` that leaves the outer loop of
   `encodeDelta` running) equal "header ++ the first `fitCount` items",
5. the decode loops invert that on every whole-item prefix (a short last node is accepted),
6. `applyDelta` / `applyDigest` of *arbitrary* decoded values never touch the local node's entry of
   the node map (`PikoModel/Gossip/State.lean`).
-/
set_option linter.unusedSimpArgs false
namespace Piko.Gossip.Codec

@[simp] theorem toNat_byte (n : Nat) : (byte n).toNat = n % 256 := by
  simp [byte]

theorem be_length (w n : Nat) : (be w n).length = w := by
  induction w generalizing n with
  | zero => rfl
  | succ w ih => simp [be, ih]

theorem ofBE_append_single (xs : Bytes) (b : UInt8) : ofBE (xs ++ [b]) = ofBE xs * 256 + b.toNat := by
  simp [ofBE, List.foldl_append]

theorem ofBE_be (w n : Nat) (h : n < 256 ^ w) : ofBE (be w n) = n := by
  induction w generalizing n with
  | zero => simp at h; subst h; rfl
  | succ w ih =>
    have h1 : n / 256 < 256 ^ w := by
      rw [Nat.pow_succ] at h
      exact Nat.div_lt_of_lt_mul (by rw [Nat.mul_comm]; exact h)
    rw [be, ofBE_append_single, ih _ h1, toNat_byte]
    omega

theorem expect_append (p r : Bytes) : expect p (p ++ r) = some r := by
  induction p with
  | nil => cases r <;> rfl
  | cons a p ih => simp [expect, ih]

theorem takeBE_append (w n : Nat) (r : Bytes) (h : n < 256 ^ w) :
    takeBE w (be w n ++ r) = some (n, r) := by
  have hl := be_length w n
  unfold takeBE
  rw [if_neg (by simp [hl])]
  have h1 : (be w n ++ r).take w = be w n := List.take_left' hl
  have h2 : (be w n ++ r).drop w = r := List.drop_left' hl
  rw [h1, h2, ofBE_be w n h]

theorem fromUTF8_toUTF8 (s : String) : String.fromUTF8? s.toUTF8 = some s := by
  unfold String.fromUTF8?
  simp [String.toUTF8, s.isValidUTF8, String.fromUTF8]

theorem takeStr_append (s : String) (r : Bytes) :
    takeStr (strBytes s).length (strBytes s ++ r) = some (s, r) := by
  unfold takeStr
  rw [if_neg (by simp)]
  have h1 : (strBytes s ++ r).take (strBytes s).length = strBytes s := by simp
  have h2 : (strBytes s ++ r).drop (strBytes s).length = r := by simp
  rw [h1, h2]
  have h3 : ByteArray.mk (strBytes s).toArray = s.toUTF8 := by simp [strBytes]
  rw [h3, fromUTF8_toUTF8]


theorem pow256_4 : (256 : Nat) ^ 4 = 4294967296 := by decide
theorem pow256_8 : (256 : Nat) ^ 8 = 18446744073709551616 := by decide
theorem pow256_2 : (256 : Nat) ^ 2 = 65536 := by decide
theorem pow256_1 : (256 : Nat) ^ 1 = 256 := by decide

theorem parseStr_append (s : String) (r : Bytes) (h : StrOk s) :
    parseStr (encStr s ++ r) = some (s, r) := by
  unfold StrOk at h
  unfold encStr encStrHdr
  by_cases h1 : (strBytes s).length ≤ 31
  · simp only [h1, if_true, List.cons_append, List.nil_append, parseStr, toNat_byte]
    have e1 : (160 + (strBytes s).length) % 256 = 160 + (strBytes s).length := by omega
    rw [e1, if_pos (by omega)]
    have e2 : 160 + (strBytes s).length - 160 = (strBytes s).length := by omega
    rw [e2, takeStr_append]
  · by_cases h2 : (strBytes s).length ≤ 65535
    · simp only [h1, h2, if_true, if_false, List.cons_append, parseStr, toNat_byte, Nat.reduceMod, Nat.reduceLeDiff, Nat.reduceEqDiff, and_false, false_and, and_true, true_and, reduceIte]
      rw [List.append_assoc, takeBE_append _ _ _ (by rw [pow256_2]; omega)]
      simp only [takeStr_append]
    · simp only [h1, h2, if_false, List.cons_append, parseStr, toNat_byte, Nat.reduceMod, Nat.reduceLeDiff, Nat.reduceEqDiff, and_false, false_and, and_true, true_and, reduceIte]
      rw [List.append_assoc, takeBE_append _ _ _ (by rw [pow256_4]; omega)]
      simp only [takeStr_append]

theorem parseUint_append (n : Nat) (r : Bytes) (h : n < 18446744073709551616) :
    parseUint (encUint n ++ r) = some (n, r) := by
  unfold encUint
  by_cases h1 : n ≤ 127
  · simp only [h1, if_true, List.cons_append, List.nil_append, parseUint, toNat_byte]
    have e1 : n % 256 = n := by omega
    rw [e1, if_pos h1]
  · by_cases h2 : n ≤ 255
    · simp only [h1, h2, if_true, if_false, List.cons_append, List.nil_append, parseUint, toNat_byte]
      have : takeBE 1 (be 1 n ++ r) = some (n, r) := takeBE_append 1 n r (by rw [pow256_1]; omega)
      have e1 : n % 256 = n := by omega
      simpa [be, e1] using this
    · by_cases h3 : n ≤ 65535
      · simp only [h1, h2, h3, if_true, if_false, List.cons_append, parseUint, toNat_byte, Nat.reduceMod, Nat.reduceLeDiff, Nat.reduceEqDiff, reduceIte]
        rw [takeBE_append _ _ _ (by rw [pow256_2]; omega)]
      · by_cases h4 : n < 4294967296
        · simp only [h1, h2, h3, h4, if_true, if_false, List.cons_append, parseUint, toNat_byte, Nat.reduceMod, Nat.reduceLeDiff, Nat.reduceEqDiff, reduceIte]
          rw [takeBE_append _ _ _ (by rw [pow256_4]; omega)]
        · simp only [h1, h2, h3, h4, if_false, List.cons_append, parseUint, toNat_byte, Nat.reduceMod, Nat.reduceLeDiff, Nat.reduceEqDiff, reduceIte]
          rw [takeBE_append _ _ _ (by rw [pow256_8]; omega)]

theorem takeNonNeg_append (w n : Nat) (r : Bytes) (h : n < 2 ^ (8 * w - 1)) (hw : 0 < w) :
    takeNonNeg w (be w n ++ r) = some (n, r) := by
  have : n < 256 ^ w := by
    have e : (256 : Nat) ^ w = 2 ^ (8 * w) := by
      rw [show (256 : Nat) = 2 ^ 8 by rfl, ← Nat.pow_mul]
    rw [e]
    exact Nat.lt_of_lt_of_le h (Nat.pow_le_pow_right (by omega) (by omega))
  unfold takeNonNeg
  rw [takeBE_append _ _ _ this]
  simp [h]

theorem parseInt_append (n : Nat) (r : Bytes) (h : n < 9223372036854775808) :
    parseInt (encInt n ++ r) = some (n, r) := by
  unfold encInt
  by_cases h1 : n ≤ 127
  · simp only [h1, if_true, List.cons_append, List.nil_append, parseInt, toNat_byte]
    have e1 : n % 256 = n := by omega
    rw [e1, if_pos h1]
  · by_cases h2 : n ≤ 32767
    · simp only [h1, h2, if_true, if_false, List.cons_append, parseInt, toNat_byte, Nat.reduceMod, Nat.reduceLeDiff, Nat.reduceEqDiff, reduceIte]
      rw [takeNonNeg_append _ _ _ (by show n < 2 ^ 15; omega) (by omega)]
    · by_cases h3 : n < 2147483648
      · simp only [h1, h2, h3, if_true, if_false, List.cons_append, parseInt, toNat_byte, Nat.reduceMod, Nat.reduceLeDiff, Nat.reduceEqDiff, reduceIte]
        rw [takeNonNeg_append _ _ _ (by show n < 2 ^ 31; omega) (by omega)]
      · simp only [h1, h2, h3, if_false, List.cons_append, parseInt, toNat_byte, Nat.reduceMod, Nat.reduceLeDiff, Nat.reduceEqDiff, reduceIte]
        rw [takeNonNeg_append _ _ _ (by show n < 2 ^ 63; omega) (by omega)]

theorem parseBool_append (b : Bool) (r : Bytes) : parseBool (encBool b ++ r) = some (b, r) := by
  cases b <;> simp [encBool, parseBool]


theorem expect_append2 (a b r : Bytes) : expect (a ++ b) (a ++ (b ++ r)) = some r := by
  rw [← List.append_assoc]; exact expect_append _ _

theorem parseEntry_append (e : Entry) (r : Bytes) (h : EntryOk e) :
    parseEntry (encEntry e ++ r) = some (e, r) := by
  obtain ⟨h1, h2, h3⟩ := h
  simp only [parseEntry, encEntry, List.append_assoc, expect_append, expect_append2, parseStr_append _ _ h1,
    parseStr_append _ _ h2, parseUint_append _ _ h3, parseBool_append, Option.bind_eq_bind,
    Option.bind_some, Option.pure_def]

theorem parseDigestEntry_append (e : DigestEntry) (r : Bytes) (h : DigestEntryOk e) :
    parseDigestEntry (encDigestEntry e ++ r) = some (e, r) := by
  obtain ⟨h1, h2, h3⟩ := h
  simp only [parseDigestEntry, encDigestEntry, List.append_assoc, expect_append, expect_append2,
    parseStr_append _ _ h1, parseStr_append _ _ h2, parseUint_append _ _ h3, parseBool_append,
    Option.bind_eq_bind, Option.bind_some, Option.pure_def]

theorem parseDigestHeader_append (x : DigestHeader) (r : Bytes) (h : DigestHeaderOk x) :
    parseDigestHeader (encDigestHeader x ++ r) = some (x, r) := by
  obtain ⟨h1, h2⟩ := h
  simp only [parseDigestHeader, encDigestHeader, List.append_assoc, expect_append, expect_append2,
    parseStr_append _ _ h1, parseStr_append _ _ h2, parseBool_append,
    Option.bind_eq_bind, Option.bind_some, Option.pure_def]

theorem parseDeltaHeader_append (x : DeltaHeader) (r : Bytes) (h : DeltaHeaderOk x) :
    parseDeltaHeader (encDeltaHeader x ++ r) = some (x, r) := by
  obtain ⟨h1, h2, h3⟩ := h
  simp only [parseDeltaHeader, encDeltaHeader, List.append_assoc, expect_append, expect_append2,
    parseStr_append _ _ h1, parseStr_append _ _ h2, parseInt_append _ _ h3,
    Option.bind_eq_bind, Option.bind_some, Option.pure_def]


/-! ## `fitCount` -/

theorem fitCount_le (max : Nat) (its : List Bytes) (len : Nat) : fitCount max len its ≤ its.length := by
  induction its generalizing len with
  | nil => simp [fitCount]
  | cons b bs ih =>
    unfold fitCount
    split
    · omega
    · have := ih (len + b.length); simp only [List.length_cons]; omega

/-- what is sent fits -/
theorem fitCount_fits (max : Nat) (its : List Bytes) (len : Nat) (h : len ≤ max) :
    len + ((its.take (fitCount max len its)).flatten).length ≤ max := by
  induction its generalizing len with
  | nil => simpa [fitCount] using h
  | cons b bs ih =>
    unfold fitCount
    split
    · simpa using h
    · rename_i hb
      have := ih (len + b.length) (by omega)
      rw [Nat.add_comm 1, List.take_succ_cons, List.flatten_cons, List.length_append]
      omega

/-- the next item does not fit -/
theorem fitCount_greedy (max : Nat) (its : List Bytes) (len : Nat) (it : Bytes)
    (h : its[fitCount max len its]? = some it) :
    len + ((its.take (fitCount max len its)).flatten).length + it.length > max := by
  induction its generalizing len with
  | nil => simp at h
  | cons b bs ih =>
    unfold fitCount at h ⊢
    split
    · rename_i hb
      rw [if_pos hb] at h
      simp only [List.getElem?_cons_zero, Option.some.injEq] at h
      subst h
      simpa using hb
    · rename_i hb
      rw [if_neg hb, Nat.add_comm 1, List.getElem?_cons_succ] at h
      have := ih (len + b.length) h
      rw [Nat.add_comm 1, List.take_succ_cons, List.flatten_cons, List.length_append]
      omega

theorem fitCount_append (max : Nat) (a b : List Bytes) (len : Nat) :
    fitCount max len (a ++ b) =
      if fitCount max len a = a.length then a.length + fitCount max (len + a.flatten.length) b
      else fitCount max len a := by
  induction a generalizing len with
  | nil => simp [fitCount]
  | cons x xs ih =>
    simp only [List.cons_append, fitCount]
    by_cases hx : len + x.length > max
    · simp [hx]
    · simp only [hx, if_false, ih, List.length_cons, List.flatten_cons, List.length_append]
      have hle := fitCount_le max xs (len + x.length)
      by_cases he : fitCount max (len + x.length) xs = xs.length
      · simp only [he, if_true]
        rw [if_pos (by omega)]
        rw [Nat.add_assoc len]
        omega
      · rw [if_neg he, if_neg (by omega)]

/-! ## the encode loops -/

/-- `encDigestLoop` and `encEntriesLoop` are the same loop over different item encoders -/
def flatLoop {α : Type} (enc : α → Bytes) (max : Nat) : EncSt → List α → EncSt
  | st, [] => st
  | st, x :: xs =>
    if (st.buf ++ enc x).length > max then { st with buf := st.buf ++ enc x }
    else flatLoop enc max { buf := st.buf ++ enc x, bufLen := (st.buf ++ enc x).length } xs

theorem encDigestLoop_eq (max : Nat) (st : EncSt) (d : Digest) :
    encDigestLoop max st d = flatLoop encDigestEntry max st d := by
  induction d generalizing st with
  | nil => rfl
  | cons e es ih => simp only [encDigestLoop, flatLoop, ih]

theorem encEntriesLoop_eq (max : Nat) (st : EncSt) (es : List Entry) :
    encEntriesLoop max st es = flatLoop encEntry max st es := by
  induction es generalizing st with
  | nil => rfl
  | cons e es ih => simp only [encEntriesLoop, flatLoop, ih]

/-- a buffer that has not overflowed: everything encoded so far is sent -/
def EncSt.Live (max : Nat) (st : EncSt) : Prop := st.bufLen = st.buf.length ∧ st.buf.length ≤ max
/-- a buffer that has overflowed: `bufLen` is frozen -/
def EncSt.Dead (max : Nat) (st : EncSt) : Prop := st.buf.length > max ∧ st.bufLen ≤ st.buf.length

theorem flatLoop_live {α : Type} (enc : α → Bytes) (max : Nat) (xs : List α) (st : EncSt)
    (h : st.Live max) :
    (flatLoop enc max st xs).out =
        st.buf ++ ((xs.map enc).take (fitCount max st.buf.length (xs.map enc))).flatten ∧
      (fitCount max st.buf.length (xs.map enc) = xs.length →
        (flatLoop enc max st xs).Live max ∧
          (flatLoop enc max st xs).buf = st.buf ++ (xs.map enc).flatten) ∧
      (fitCount max st.buf.length (xs.map enc) < xs.length → (flatLoop enc max st xs).Dead max) := by
  induction xs generalizing st with
  | nil =>
    obtain ⟨h1, h2⟩ := h
    refine ⟨?_, fun _ => ⟨⟨h1, h2⟩, by simp [flatLoop]⟩, fun hlt => by simp at hlt⟩
    simp [flatLoop, EncSt.out, h1, fitCount]
  | cons x xs ih =>
    obtain ⟨h1, h2⟩ := h
    simp only [flatLoop, List.map_cons, fitCount, List.length_append]
    by_cases hx : st.buf.length + (enc x).length > max
    · simp only [hx, if_true]
      refine ⟨?_, fun h0 => by simp at h0, fun _ => ⟨by simpa using hx, by simp [h1]⟩⟩
      simp [EncSt.out, h1]
    · simp only [hx, if_false]
      have hl : EncSt.Live max { buf := st.buf ++ enc x, bufLen := st.buf.length + (enc x).length } :=
        ⟨by simp, by simpa using Nat.le_of_not_gt hx⟩
      obtain ⟨i1, i2, i3⟩ := ih _ hl
      simp only [List.length_append] at i1 i2 i3
      refine ⟨?_, ?_, ?_⟩
      · rw [i1, Nat.add_comm 1, List.take_succ_cons, List.flatten_cons, List.append_assoc]
      · intro h0
        have h0' : fitCount max (st.buf.length + (enc x).length) (xs.map enc) = xs.length := by
          simp only [List.length_cons] at h0; omega
        obtain ⟨j1, j2⟩ := i2 h0'
        exact ⟨j1, by rw [j2, List.flatten_cons, List.append_assoc]⟩
      · intro h0
        exact i3 (by simp only [List.length_cons] at h0; omega)

theorem out_frozen (st : EncSt) (extra : Bytes) (h : st.bufLen ≤ st.buf.length) :
    ({ st with buf := st.buf ++ extra } : EncSt).out = st.out := by
  simp [EncSt.out, List.take_append_of_le_length h]

theorem encDeltaLoop_dead (max : Nat) (ds : Delta) (st : EncSt) (h : st.Dead max) :
    (encDeltaLoop max st ds).out = st.out := by
  obtain ⟨h1, h2⟩ := h
  cases ds with
  | nil => rfl
  | cons de ds =>
    simp only [encDeltaLoop, List.length_append]
    rw [if_pos (by omega)]
    exact out_frozen st _ h2

theorem items_cons (de : DeltaEntry) (ds : Delta) :
    (items (de :: ds)).map encItem =
      encDeltaHeader { nodeId := de.id, addr := de.addr, entries := de.entries.length } ::
        (de.entries.map encEntry ++ (items ds).map encItem) := by
  simp [items, encItem, List.map_append, List.map_map, Function.comp_def]

theorem encDeltaLoop_live (max : Nat) (d : Delta) (st : EncSt) (h : st.Live max) :
    (encDeltaLoop max st d).out =
      st.buf ++ (((items d).map encItem).take
        (fitCount max st.buf.length ((items d).map encItem))).flatten := by
  induction d generalizing st with
  | nil =>
    obtain ⟨h1, _⟩ := h
    simp [encDeltaLoop, items, fitCount, EncSt.out, h1]
  | cons de ds ih =>
    obtain ⟨h1, h2⟩ := h
    rw [items_cons]
    generalize hhb : encDeltaHeader { nodeId := de.id, addr := de.addr, entries := de.entries.length } = hb
    simp only [encDeltaLoop, hhb, fitCount, List.length_append]
    by_cases hx : st.buf.length + hb.length > max
    · simp only [hx, if_true]
      simp [EncSt.out, h1]
    · simp only [hx, if_false]
      have hl : EncSt.Live max { buf := st.buf ++ hb, bufLen := st.buf.length + hb.length } :=
        ⟨by simp, by simpa using Nat.le_of_not_gt hx⟩
      rw [encEntriesLoop_eq]
      obtain ⟨f1, f2, f3⟩ := flatLoop_live encEntry max de.entries _ hl
      simp only [List.length_append] at f1 f2 f3
      rw [fitCount_append]
      have hle := fitCount_le max (de.entries.map encEntry) (st.buf.length + hb.length)
      simp only [List.length_map] at hle ⊢
      by_cases hk : fitCount max (st.buf.length + hb.length) (de.entries.map encEntry) = de.entries.length
      · obtain ⟨g1, g2⟩ := f2 hk
        rw [if_pos hk, ih _ g1, g2]
        simp only [List.length_append, List.append_assoc]
        rw [Nat.add_comm 1, List.take_succ_cons, List.flatten_cons]
        have e1 : (de.entries.map encEntry).length = de.entries.length := by simp
        rw [← e1, List.take_length_add_append, List.flatten_append]
        rw [Nat.add_assoc]
      · rw [if_neg hk]
        have hlt : fitCount max (st.buf.length + hb.length) (de.entries.map encEntry) < de.entries.length := by
          omega
        rw [encDeltaLoop_dead max ds _ (f3 hlt), f1]
        rw [Nat.add_comm 1, List.take_succ_cons, List.flatten_cons,
          List.take_append_of_le_length (by simpa using hle)]
        simp only [List.append_assoc]


/-! ## the decode loops -/

theorem encEntry_cons (e : Entry) (r : Bytes) : ∃ bs, encEntry e ++ r = byte 0x85 :: bs := by
  exact ⟨_, rfl⟩

theorem encDigestEntry_cons (e : DigestEntry) (r : Bytes) : ∃ bs, encDigestEntry e ++ r = byte 0x84 :: bs := by
  exact ⟨_, rfl⟩

theorem encDeltaHeader_cons (h : DeltaHeader) (r : Bytes) : ∃ bs, encDeltaHeader h ++ r = byte 0x83 :: bs := by
  exact ⟨_, rfl⟩

theorem encDeltaHeader_length_pos (h : DeltaHeader) : 0 < (encDeltaHeader h).length := by
  simp [encDeltaHeader]

theorem encDigestEntry_length_pos (e : DigestEntry) : 0 < (encDigestEntry e).length := by
  simp [encDigestEntry]

/-- all announced entries present: exactly `es.length` entries are read, the rest is left -/
theorem decEntries_full (es : List Entry) (r : Bytes) (h : ∀ e ∈ es, EntryOk e) :
    decEntries es.length ((es.map encEntry).flatten ++ r) = some (es, r) := by
  induction es with
  | nil => simp [decEntries]
  | cons e es ih =>
    have he := h e (by simp)
    have ih' := ih (fun x hx => h x (by simp [hx]))
    simp only [List.map_cons, List.flatten_cons, List.length_cons, List.append_assoc]
    obtain ⟨bs, hbs⟩ := encEntry_cons e ((es.map encEntry).flatten ++ r)
    rw [hbs, decEntries, ← hbs, parseEntry_append _ _ he]
    simp only [ih']

/-- fewer entries than announced, then end of packet: accepted as a short node -/
theorem decEntries_short (es : List Entry) (k : Nat) (h : ∀ e ∈ es, EntryOk e) (hk : es.length ≤ k) :
    decEntries k ((es.map encEntry).flatten) = some (es, []) := by
  induction es generalizing k with
  | nil => cases k <;> simp [decEntries]
  | cons e es ih =>
    have he := h e (by simp)
    cases k with
    | zero => simp at hk
    | succ k =>
      have ih' := ih k (fun x hx => h x (by simp [hx])) (by simpa using hk)
      simp only [List.map_cons, List.flatten_cons]
      obtain ⟨bs, hbs⟩ := encEntry_cons e ((es.map encEntry).flatten)
      rw [hbs, decEntries, ← hbs, parseEntry_append _ _ he]
      simp only [ih']

theorem decDigestEntries_enc (d : Digest) (fuel : Nat) (h : DigestOk d)
    (hf : ((d.map encDigestEntry).flatten).length ≤ fuel) :
    decDigestEntries fuel ((d.map encDigestEntry).flatten) = some d := by
  induction d generalizing fuel with
  | nil => cases fuel <;> simp [decDigestEntries]
  | cons e es ih =>
    have he := h e (by simp)
    simp only [List.map_cons, List.flatten_cons, List.length_append] at hf ⊢
    have hp := encDigestEntry_length_pos e
    cases fuel with
    | zero => omega
    | succ fuel =>
      have ih' := ih fuel (fun x hx => h x (by simp [hx])) (by omega)
      obtain ⟨bs, hbs⟩ := encDigestEntry_cons e ((es.map encDigestEntry).flatten)
      rw [hbs, decDigestEntries, ← hbs, parseDigestEntry_append _ _ he]
      simp only [ih']

/-- the body of a (possibly truncated) delta packet: the first `n` encoded items -/
def body (n : Nat) (d : Delta) : Bytes := (((items d).map encItem).take n).flatten

theorem body_zero (d : Delta) : body 0 d = [] := by simp [body]
theorem body_nil (n : Nat) : body n [] = [] := by simp [body, items]

theorem body_succ_cons (n : Nat) (de : DeltaEntry) (ds : Delta) :
    body (n + 1) (de :: ds) =
      encDeltaHeader { nodeId := de.id, addr := de.addr, entries := de.entries.length } ++
        (((de.entries.take n).map encEntry).flatten ++ body (n - de.entries.length) ds) := by
  unfold body
  rw [items_cons, List.take_succ_cons, List.flatten_cons, List.take_append, List.flatten_append]
  simp [List.map_take]

theorem deltaHeaderOk_of (de : DeltaEntry) (h : DeltaEntryOk de) :
    DeltaHeaderOk { nodeId := de.id, addr := de.addr, entries := de.entries.length } :=
  ⟨h.1, h.2.1, h.2.2.1⟩

theorem decNodes_body (d : Delta) (n fuel : Nat) (h : DeltaOk d) (hf : (body n d).length ≤ fuel) :
    decNodes fuel (body n d) = some (takeItems n d) := by
  induction d generalizing n fuel with
  | nil => rw [body_nil]; cases n <;> cases fuel <;> simp [decNodes, takeItems]
  | cons de ds ih =>
    cases n with
    | zero => rw [body_zero]; cases fuel <;> simp [decNodes, takeItems]
    | succ n =>
      have hde := h de (by simp)
      have hds : DeltaOk ds := fun x hx => h x (by simp [hx])
      rw [body_succ_cons] at hf ⊢
      simp only [List.length_append] at hf
      have hp := encDeltaHeader_length_pos { nodeId := de.id, addr := de.addr, entries := de.entries.length }
      cases fuel with
      | zero => omega
      | succ fuel =>
        obtain ⟨bs, hbs⟩ := encDeltaHeader_cons
          { nodeId := de.id, addr := de.addr, entries := de.entries.length }
          (((de.entries.take n).map encEntry).flatten ++ body (n - de.entries.length) ds)
        rw [hbs, decNodes, ← hbs, parseDeltaHeader_append _ _ (deltaHeaderOk_of de hde)]
        simp only [takeItems]
        by_cases hn : de.entries.length ≤ n
        · have hf' : (body (n - de.entries.length) ds).length ≤ fuel := by omega
          rw [List.take_of_length_le hn, decEntries_full _ _ hde.2.2.2]
          simp only [ih (n - de.entries.length) fuel hds hf']
        · have hz : n - de.entries.length = 0 := by omega
          rw [hz, body_zero, List.append_nil,
            decEntries_short _ _ (fun e he => hde.2.2.2 e (List.mem_of_mem_take he))
              (by rw [List.length_take]; omega)]
          simp [decNodes, takeItems]


/-! ## whole packets -/

theorem fitCount_all (max : Nat) (its : List Bytes) (len : Nat) (h : len + its.flatten.length ≤ max) :
    fitCount max len its = its.length := by
  induction its generalizing len with
  | nil => rfl
  | cons b bs ih =>
    simp only [List.flatten_cons, List.length_append] at h
    unfold fitCount
    rw [if_neg (by omega), ih (len + b.length) (by omega), List.length_cons, Nat.add_comm]

theorem encodeDigest_eq (h : DigestHeader) (d : Digest) (max : Nat) :
    encodeDigest h d max =
      if (digestPrefix h).length > max then none
      else some (digestPrefix h ++ ((d.take (sentDigest h d max)).map encDigestEntry).flatten) := by
  unfold encodeDigest
  by_cases hx : (digestPrefix h).length > max
  · simp [hx]
  · simp only [hx, if_false]
    rw [encDigestLoop_eq]
    have hl : EncSt.Live max { buf := digestPrefix h, bufLen := (digestPrefix h).length } :=
      ⟨rfl, Nat.le_of_not_gt hx⟩
    rw [(flatLoop_live encDigestEntry max d _ hl).1, List.map_take]
    rfl

theorem encodeDelta_eq (h : DeltaHeader) (d : Delta) (max : Nat) :
    encodeDelta h d max =
      if (deltaPrefix h).length > max then none
      else some (deltaPrefix h ++ body (sentDelta h d max) d) := by
  unfold encodeDelta
  by_cases hx : (deltaPrefix h).length > max
  · simp [hx]
  · simp only [hx, if_false]
    have hl : EncSt.Live max { buf := deltaPrefix h, bufLen := (deltaPrefix h).length } :=
      ⟨rfl, Nat.le_of_not_gt hx⟩
    rw [encDeltaLoop_live max d _ hl]
    rfl

theorem decodeDigest_packet (h : DigestHeader) (d : Digest) (hh : DigestHeaderOk h) (hd : DigestOk d) :
    decodeDigest (digestPrefix h ++ (d.map encDigestEntry).flatten) = .ok (h, d) := by
  simp only [digestPrefix, List.cons_append, List.nil_append, decodeDigest, toNat_byte,
    messageTypeDigest, supportedVersion, List.append_assoc]
  simp only [Nat.reduceMod, ne_eq, not_true_eq_false, if_false,
    parseDigestHeader_append _ _ hh, decDigestEntries_enc d _ hd (Nat.le_refl _)]

theorem decodeDelta_packet (h : DeltaHeader) (d : Delta) (n : Nat) (hh : DeltaHeaderOk h) (hd : DeltaOk d) :
    decodeDelta (deltaPrefix h ++ body n d) = .ok (h, takeItems n d) := by
  simp only [deltaPrefix, List.cons_append, List.nil_append, decodeDelta, toNat_byte,
    messageTypeDelta, supportedVersion, List.append_assoc]
  simp only [Nat.reduceMod, ne_eq, not_true_eq_false, if_false,
    parseDeltaHeader_append _ _ hh, decNodes_body d n _ hd (Nat.le_refl _)]

theorem digestOk_take (d : Digest) (n : Nat) (h : DigestOk d) : DigestOk (d.take n) :=
  fun e he => h e (List.mem_of_mem_take he)

theorem items_length_cons (de : DeltaEntry) (ds : Delta) :
    (items (de :: ds)).length = 1 + de.entries.length + (items ds).length := by
  simp [items]; omega

theorem takeItems_all (d : Delta) : takeItems (items d).length d = d := by
  induction d with
  | nil => simp [items, takeItems]
  | cons de ds ih =>
    rw [items_length_cons, show 1 + de.entries.length + (items ds).length =
      (de.entries.length + (items ds).length) + 1 by omega, takeItems,
      List.take_of_length_le (by omega), show de.entries.length + (items ds).length - de.entries.length =
      (items ds).length by omega, ih]

/-- a whole-item prefix keeps, per node and in the sender's node order, the node's id and address
and a prefix of its entries (whole entries only, in the sender's order) -/
theorem takeItems_prefix (n : Nat) (d : Delta) (i : Nat) (a : DeltaEntry)
    (h : (takeItems n d)[i]? = some a) :
    ∃ b, d[i]? = some b ∧ a.id = b.id ∧ a.addr = b.addr ∧ a.entries <+: b.entries := by
  induction d generalizing n i with
  | nil => cases n <;> simp [takeItems] at h
  | cons de ds ih =>
    cases n with
    | zero => simp [takeItems] at h
    | succ n =>
      simp only [takeItems] at h
      cases i with
      | zero =>
        simp only [List.getElem?_cons_zero, Option.some.injEq] at h
        subst h
        exact ⟨de, by simp, rfl, rfl, List.take_prefix _ _⟩
      | succ i =>
        simp only [List.getElem?_cons_succ] at h ⊢
        exact ih _ _ h

end Piko.Gossip.Codec

/-! ## hostile values cannot reach the node's own state -/
namespace Piko.Gossip
open Piko

theorem applyDeltaEntry_local (now : Nat) (s : CState) (de : DeltaEntry) :
    (applyDeltaEntry now s de).1.localId = s.localId ∧
      (applyDeltaEntry now s de).1.nodes.find s.localId = s.nodes.find s.localId := by
  unfold applyDeltaEntry
  by_cases h : de.id = s.localId
  · simp [h]
  · simp only [h, if_false]
    have hne : s.localId ≠ de.id := fun e => h e.symm
    split <;> exact ⟨trivial, AMap.find_insert_ne _ _ hne⟩

theorem applyDelta_local (now : Nat) (d : Delta) (s : CState) :
    (applyDelta now s d).1.localId = s.localId ∧
      (applyDelta now s d).1.nodes.find s.localId = s.nodes.find s.localId := by
  unfold applyDelta
  have : ∀ (acc : CState × List Event),
      (d.foldl (fun acc de => let (s', ev) := applyDeltaEntry now acc.1 de; (s', acc.2 ++ ev)) acc).1.localId = acc.1.localId ∧
      (d.foldl (fun acc de => let (s', ev) := applyDeltaEntry now acc.1 de; (s', acc.2 ++ ev)) acc).1.nodes.find acc.1.localId = acc.1.nodes.find acc.1.localId := by
    induction d with
    | nil => intro acc; exact ⟨rfl, rfl⟩
    | cons de ds ih =>
      intro acc
      simp only [List.foldl_cons]
      obtain ⟨h1, h2⟩ := applyDeltaEntry_local now acc.1 de
      obtain ⟨i1, i2⟩ := ih ((applyDeltaEntry now acc.1 de).1, acc.2 ++ (applyDeltaEntry now acc.1 de).2)
      simp only at i1 i2
      rw [h1] at i1 i2
      exact ⟨i1, by rw [i2, h2]⟩
  exact this (s, [])

theorem applyDigestEntry_local (acc : CState × List Event) (de : DigestEntry)
    (hp : OwnPresent acc.1) :
    (applyDigestEntry acc de).1.localId = acc.1.localId ∧
      (applyDigestEntry acc de).1.nodes.find acc.1.localId = acc.1.nodes.find acc.1.localId := by
  unfold applyDigestEntry
  split
  · exact ⟨rfl, rfl⟩
  · rename_i hnone
    by_cases hl : de.left = true
    · simp [hl]
    · simp only [hl]
      have hne : acc.1.localId ≠ de.id := by
        intro e
        obtain ⟨n, hn⟩ := hp
        rw [e] at hn
        rw [hn] at hnone
        cases hnone
      exact ⟨rfl, AMap.find_insert_ne _ _ hne⟩

theorem applyDigest_local (d : Digest) (s : CState) (hp : OwnPresent s) :
    (applyDigest s d).1.localId = s.localId ∧
      (applyDigest s d).1.nodes.find s.localId = s.nodes.find s.localId := by
  unfold applyDigest
  have : ∀ (acc : CState × List Event), OwnPresent acc.1 →
      (d.foldl applyDigestEntry acc).1.localId = acc.1.localId ∧
      (d.foldl applyDigestEntry acc).1.nodes.find acc.1.localId = acc.1.nodes.find acc.1.localId := by
    induction d with
    | nil => intro acc _; exact ⟨rfl, rfl⟩
    | cons de ds ih =>
      intro acc hacc
      simp only [List.foldl_cons]
      obtain ⟨h1, h2⟩ := applyDigestEntry_local acc de hacc
      have hp' : OwnPresent (applyDigestEntry acc de).1 := by
        obtain ⟨n, hn⟩ := hacc
        exact ⟨n, by rw [h1, h2, hn]⟩
      obtain ⟨i1, i2⟩ := ih (applyDigestEntry acc de) hp'
      rw [h1] at i1 i2
      exact ⟨i1, by rw [i2, h2]⟩
  exact this (s, []) hp

theorem own_eq_of_local {s s' : CState} (h1 : s'.localId = s.localId)
    (h2 : s'.nodes.find s.localId = s.nodes.find s.localId) : own s' = own s := by
  unfold own; rw [h1, h2]

theorem ownPresent_of_local {s s' : CState} (h1 : s'.localId = s.localId)
    (h2 : s'.nodes.find s.localId = s.nodes.find s.localId) (hp : OwnPresent s) : OwnPresent s' := by
  obtain ⟨n, hn⟩ := hp
  exact ⟨n, by rw [h1, h2, hn]⟩

end Piko.Gossip
