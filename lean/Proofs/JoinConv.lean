import Proofs.Reach
/-!
# A full stream exchange with the owner: which view the joiner ends up with
-/
namespace Piko.Gossip
open Piko

/-- applying a delta whose entries have pairwise distinct ids: the view of `de.id` afterwards is
what applying `de.entries` to the previous view (or a fresh one) gives -/
theorem applyDelta_find_of_unique (now : Nat) (d : Delta) : ∀ (s : CState) (de : DeltaEntry),
    d.Pairwise (fun x y => x.id ≠ y.id) → de ∈ d → de.id ≠ s.localId →
    (applyDelta now s d).1.nodes.find de.id =
      some (applyEntries now ((s.nodes.find de.id).getD { id := de.id, addr := de.addr }) de.entries).1 := by
  unfold applyDelta
  suffices hgen : ∀ (d : Delta) (acc : CState × List Event) (de : DeltaEntry),
      d.Pairwise (fun x y => x.id ≠ y.id) → de ∈ d → de.id ≠ acc.1.localId →
      (d.foldl (fun acc de => let (s', e) := applyDeltaEntry now acc.1 de; (s', acc.2 ++ e)) acc).1.nodes.find de.id =
        some (applyEntries now ((acc.1.nodes.find de.id).getD { id := de.id, addr := de.addr }) de.entries).1 by
    intro s de hp hm hl; exact hgen d (s, []) de hp hm hl
  intro d
  induction d with
  | nil => intro acc de _ hm; cases hm
  | cons x d ih =>
    intro acc de hp hm hl
    rw [List.foldl_cons]
    obtain ⟨hx, hp'⟩ := List.pairwise_cons.mp hp
    generalize hacc : (match applyDeltaEntry now acc.1 x with | (s', e) => (s', acc.2 ++ e)) = acc'
    have h1 : acc'.1 = (applyDeltaEntry now acc.1 x).1 := by rw [← hacc]
    have hlid : acc'.1.localId = acc.1.localId := by rw [h1, applyDeltaEntry_localId]
    rcases List.mem_cons.mp hm with rfl | hm'
    · -- this entry is applied now; the rest of the delta never touches its id
      have hrest : ∀ (d : Delta) (b : CState × List Event), (∀ y ∈ d, de.id ≠ y.id) →
          (d.foldl (fun acc de => let (s', e) := applyDeltaEntry now acc.1 de; (s', acc.2 ++ e)) b).1.nodes.find de.id =
            b.1.nodes.find de.id := by
        intro d
        induction d with
        | nil => intro b _; rfl
        | cons y d ih2 =>
          intro b hy
          rw [List.foldl_cons]
          generalize hb : (match applyDeltaEntry now b.1 y with | (s', e) => (s', b.2 ++ e)) = b'
          have hb1 : b'.1 = (applyDeltaEntry now b.1 y).1 := by rw [← hb]
          rw [ih2 b' (fun z hz => hy z (List.mem_cons_of_mem _ hz)), hb1, applyDeltaEntry_find]
          have hne : ¬ y.id = de.id := fun e => hy y (List.mem_cons_self ..) e.symm
          by_cases hl2 : y.id = b.1.localId <;> simp [hl2, hne]
      rw [hrest d acc' hx, h1, applyDeltaEntry_find]
      simp [hl]
    · have hne : ¬ x.id = de.id := fun e => hx de hm' e
      rw [ih acc' de hp' hm' (by rw [hlid]; exact hl), h1, applyDeltaEntry_find]
      by_cases hl2 : x.id = acc.1.localId <;> simp [hl2, hne]

/-- a delta with no entry about `a` leaves the view of `a` alone -/
theorem applyDelta_find_untouched (now : Nat) (a : String) (d : Delta) : ∀ (s : CState),
    (∀ y ∈ d, y.id ≠ a) → (applyDelta now s d).1.nodes.find a = s.nodes.find a := by
  unfold applyDelta
  suffices hgen : ∀ (d : Delta) (b : CState × List Event), (∀ y ∈ d, y.id ≠ a) →
      (d.foldl (fun acc de => let (s', e) := applyDeltaEntry now acc.1 de; (s', acc.2 ++ e)) b).1.nodes.find a =
        b.1.nodes.find a by
    intro s h; exact hgen d (s, []) h
  intro d
  induction d with
  | nil => intro b _; rfl
  | cons y d ih =>
    intro b hy
    rw [List.foldl_cons]
    generalize hb : (match applyDeltaEntry now b.1 y with | (s', e) => (s', b.2 ++ e)) = b'
    have hb1 : b'.1 = (applyDeltaEntry now b.1 y).1 := by rw [← hb]
    rw [ih b' (fun z hz => hy z (List.mem_cons_of_mem _ hz)), hb1, applyDeltaEntry_find]
    have hne : ¬ y.id = a := hy y (List.mem_cons_self ..)
    by_cases hl2 : y.id = b.1.localId <;> simp [hl2, hne]

@[simp] theorem deltaEntry_id (n : NodeSt) (v : Nat) : (deltaEntry n v).id = n.id := rfl

/-- the ids of the entries of `Delta(digest, true)` are pairwise distinct when the digest's are -/
theorem delta_ids_nodup {s : CState} (hnd : s.nodes.NoDupKeys)
    (hids : ∀ a V, s.nodes.find a = some V → V.id = a) (d : Digest) (hd : (d.map (·.id)).Nodup) :
    ((delta s d true).map (·.id)).Nodup := by
  unfold delta
  simp only [if_true, List.map_append]
  have hsub : ((d.filterMap fun de =>
      match s.nodes.find de.id with
      | none => none
      | some n => let x := deltaEntry n de.version; if x.entries.isEmpty then none else some x).map (·.id)).Sublist
      (d.map (·.id)) := by
    induction d with
    | nil => exact List.Sublist.refl _
    | cons de d ih =>
      have hd' : (d.map (·.id)).Nodup := (List.nodup_cons.mp hd).2
      simp only [List.filterMap_cons, List.map_cons]
      cases hf : s.nodes.find de.id with
      | none => exact (ih hd').trans (List.sublist_cons_self _ _)
      | some n =>
        simp only
        by_cases he : (deltaEntry n de.version).entries.isEmpty = true
        · simp only [he, if_true]; exact (ih hd').trans (List.sublist_cons_self _ _)
        · simp only [he, Bool.false_eq_true, if_false, List.map_cons, deltaEntry_id]
          rw [hids de.id n hf]
          exact (ih hd').cons₂ _
  have hvals : (s.nodes.vals.map (·.id)) = s.nodes.keys := by
    unfold AMap.vals AMap.keys
    rw [List.map_map]
    apply List.map_congr_left
    intro p hp
    exact hids p.1 p.2 (AMap.findOfMem hnd hp)
  have hrest : (((s.nodes.vals.filter fun n => !(d.any fun x => x.id = n.id)).map fun n => deltaEntry n 0).map (·.id)).Nodup := by
    rw [List.map_map]
    have : ((fun x : DeltaEntry => x.id) ∘ fun n => deltaEntry n 0) = fun n : NodeSt => n.id := rfl
    rw [this]
    have hv : (s.nodes.vals.map (·.id)).Nodup := hvals ▸ hnd
    exact (List.Sublist.map _ List.filter_sublist).nodup hv
  refine List.Nodup.append (hsub.nodup hd) hrest ?_
  intro x hx1 hx2
  have hxd : x ∈ d.map (·.id) := hsub.subset hx1
  simp only [List.mem_map, List.mem_filter, Bool.not_eq_true', List.any_eq_false, decide_eq_true_eq] at hx2
  obtain ⟨y, ⟨n, ⟨_, hn⟩, rfl⟩, rfl⟩ := hx2
  obtain ⟨de, hde, hdeid⟩ := List.mem_map.mp hxd
  exact hn de hde hdeid

/-- the digest a node sends lists every node it knows once, with its current version -/
theorem digest_spec {s : CState} (hnd : s.nodes.NoDupKeys)
    (hids : ∀ a V, s.nodes.find a = some V → V.id = a) :
    ((digest s).map (·.id)).Nodup ∧
    (∀ de ∈ digest s, ∃ n, s.nodes.find de.id = some n ∧ de.version = n.version) ∧
    (∀ a n, s.nodes.find a = some n → ∃ de ∈ digest s, de.id = a ∧ de.version = n.version) := by
  have hvals : (s.nodes.vals.map (·.id)) = s.nodes.keys := by
    unfold AMap.vals AMap.keys
    rw [List.map_map]
    apply List.map_congr_left
    intro p hp
    exact hids p.1 p.2 (AMap.findOfMem hnd hp)
  refine ⟨?_, ?_, ?_⟩
  · unfold digest
    rw [List.map_map]
    have : ((fun x : DigestEntry => x.id) ∘ fun n : NodeSt =>
        ({ id := n.id, addr := n.addr, version := n.version, left := n.left } : DigestEntry)) = fun n => n.id := rfl
    rw [this, hvals]; exact hnd
  · intro de hde
    unfold digest at hde
    obtain ⟨n, hn, rfl⟩ := List.mem_map.mp hde
    obtain ⟨a, ha⟩ := (AMap.mem_vals_iff hnd).mp hn
    exact ⟨n, by simp only; rw [hids a n ha]; exact ha, rfl⟩
  · intro a n hf
    refine ⟨{ id := n.id, addr := n.addr, version := n.version, left := n.left }, ?_, hids a n hf, rfl⟩
    unfold digest
    exact List.mem_map.mpr ⟨n, (AMap.mem_vals_iff hnd).mpr ⟨a, hf⟩, rfl⟩

end Piko.Gossip
