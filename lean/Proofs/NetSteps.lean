import Proofs.NetLemmas
/-!
# Every allowed step preserves `NetInv`
-/
namespace Piko.Gossip
open Piko

theorem histExt_step (g : GNet) (op : Op) : HistExt g (g.step op) := by
  intro a x; rfl

/-- node states unchanged (possibly new packets) -/
theorem NetInv.same {g g' : GNet} (h : NetInv g) {newPkts : List Packet}
    (hnet : g'.net.nodes = g.net.nodes) (hpool : g'.net.pool = g.net.pool ++ newPkts)
    (hhist : HistExt g g')
    (hnewDig : ∀ src sa dst req d, Packet.digest src sa dst req d ∈ newPkts →
      ∃ ss, g'.net.nodes.find src = some ss ∧ (own ss).addr = sa ∧
        ∀ de ∈ d, ∃ n, ss.nodes.find de.id = some n ∧ de.version ≤ n.version)
    (hnewDel : ∀ src sa dst d, Packet.delta src sa dst d ∈ newPkts →
      ∀ r' sr'', g'.net.nodes.find r' = some sr'' → (own sr'').addr = dst → ∀ de ∈ d, DeOK g'.world sr'' de)
    (hnewDst : ∀ src sa dst d, Packet.delta src sa dst d ∈ newPkts →
      ∃ r' sr'', g'.net.nodes.find r' = some sr'' ∧ (own sr'').addr = dst) :
    NetInv g' := by
  have hws : WorldStep g.world g'.world := by
    intro a H O hW
    unfold GNet.world at hW ⊢
    cases hf : g.net.nodes.find a with
    | none => simp [hf] at hW
    | some s =>
      simp only [hf, Option.map_some, Option.some.injEq, Prod.mk.injEq] at hW
      obtain ⟨rfl, rfl⟩ := hW
      have hf' : g'.net.nodes.find a = some s := by rw [hnet]; exact hf
      refine ⟨g'.hist a, own s, by simp [hf'], ?_, noop_ok (h.node a s hf).owner⟩
      intro x; have := hhist a x; rw [hf'] at this; exact this
  refine ⟨hnet ▸ h.nd, ?_, ?_, ?_, ?_, ?_, ?_⟩
  · intro a hf
    rw [hnet] at hf
    apply List.eq_nil_iff_forall_not_mem.mpr
    intro x hx
    have := (hhist a x).mp hx
    rw [hnet, hf, h.histNone a hf] at this; simp at this
  · intro id s hf
    have hf0 : g.net.nodes.find id = some s := hnet ▸ hf
    have hold := h.node id s hf0
    refine ⟨hold.lid, hold.nd, hold.recv.transfer hws, ?_, hold.ownId⟩
    apply (noop_ok hold.owner).owner.congr
    intro x; have := hhist id x; rw [hf] at this; exact this
  · intro r₁ s₁ r₂ s₂ h1 h2 ha
    rw [hnet] at h1 h2; exact h.addrUniq r₁ s₁ r₂ s₂ h1 h2 ha
  · intro src sa dst req d hp
    rw [hpool] at hp
    rcases List.mem_append.mp hp with hp | hp
    · obtain ⟨ss, hss, hsa, hcl⟩ := h.digests src sa dst req d hp
      exact ⟨ss, by rw [hnet]; exact hss, hsa, hcl⟩
    · exact hnewDig src sa dst req d hp
  · intro src sa dst d hp
    rw [hpool] at hp
    rcases List.mem_append.mp hp with hp | hp
    · intro r' sr'' hf' hdst de hde
      rw [hnet] at hf'
      exact (h.deltas src sa dst d hp r' sr'' hf' hdst de hde).transfer hws
    · exact hnewDel src sa dst d hp
  · intro src sa dst d hp
    rw [hpool] at hp
    rcases List.mem_append.mp hp with hp | hp
    · obtain ⟨r0, s0, hf0, ha0⟩ := h.deltaDst src sa dst d hp
      exact ⟨r0, s0, by rw [hnet]; exact hf0, ha0⟩
    · exact hnewDst src sa dst d hp

theorem NetInv.same_nopkt {g g' : GNet} (h : NetInv g) (hnet : g'.net = g.net) (hhist : HistExt g g') :
    NetInv g' :=
  h.same (newPkts := []) (by rw [hnet]) (by rw [hnet]; simp) hhist (by simp) (by simp) (by simp)

/-! ### local operations -/

/-- the own node changes by an `OwnerStepOK` move and nothing else changes -/
theorem NetInv.ownChange {g g' : GNet} (h : NetInv g) {n : String} {s : CState} {O' : NodeSt}
    (hfind : g.net.nodes.find n = some s)
    (hnet : g'.net.nodes = g.net.nodes.insert n (setOwn s O')) (hpool : g'.net.pool = g.net.pool)
    (hhist : HistExt g g') (hstep : OwnerStepOK (g.hist n) (own s) O') : NetInv g' := by
  have hold := h.node n s hfind
  have hown : own (setOwn s O') = O' := own_setOwn s O'
  have hstep' : OwnerStepOK (g.hist n) (own s) (own (setOwn s O')) := by rw [hown]; exact hstep
  have hws := worldStep_update h hfind hnet hhist hstep'
  have hfindS : ∀ a, (setOwn s O').nodes.find a = if s.localId = a then some O' else s.nodes.find a := by
    intro a; simp only [setOwn, AMap.find_insert]
  obtain ⟨n0, hn0⟩ := hold.recv.ownPresent
  have hown0 : own s = n0 := by simp [own, hn0]
  refine h.update (newPkts := []) hfind hnet (by rw [hpool]; simp) hhist hstep' hold.lid
    (hold.nd.insert _ _) ?_ ?_ ?_ (by simp) (by simp) (by simp)
  · have ht := hold.recv.transfer hws
    refine ⟨⟨O', by rw [hfindS]; simp [setOwn]⟩, ?_, ?_, ?_⟩
    · intro a V hf
      rw [hfindS a] at hf
      by_cases ha : s.localId = a
      · simp only [ha, if_true, Option.some.injEq] at hf; subst hf
        rw [hstep.same.1, ← ha, hold.ownId, hold.lid]
      · simp only [ha, if_false] at hf; exact ht.ids a V hf
    · intro a V hf
      rw [hfindS a] at hf
      by_cases ha : s.localId = a
      · subst ha; exact ht.known _ _ hn0
      · simp only [ha, if_false] at hf; exact ht.known a V hf
    · intro a V H O hf hal hW
      rw [hfindS a] at hf
      have ha : ¬ s.localId = a := fun e => hal e.symm
      simp only [ha, if_false] at hf
      exact ht.views a V H O hf hal hW
  · intro a x hf
    by_cases ha : s.localId = a
    · subst ha
      rw [hn0] at hf; cases hf
      exact ⟨O', by rw [hfindS]; simp, by rw [← hown0]; exact hstep.verMono⟩
    · exact ⟨x, by rw [hfindS a]; simp [ha, hf], Nat.le_refl _⟩
  · intro a v0 hb
    unfold BaseOK at hb ⊢
    rw [hfindS a]
    by_cases ha : s.localId = a
    · subst ha
      rw [hn0] at hb
      simp only [if_true]
      have := hstep.verMono; rw [hown0] at this; omega
    · simp only [ha, if_false]; exact hb

/-- the node is re-inserted unchanged -/
theorem NetInv.reinsert {g g' : GNet} (h : NetInv g) {n : String} {s : CState}
    (hfind : g.net.nodes.find n = some s)
    (hnet : g'.net.nodes = g.net.nodes.insert n s) (hpool : g'.net.pool = g.net.pool)
    (hhist : HistExt g g') : NetInv g' := by
  have hold := h.node n s hfind
  have hstep := noop_ok hold.owner
  have hws := worldStep_update h hfind hnet hhist hstep
  exact h.update (newPkts := []) hfind hnet (by rw [hpool]; simp) hhist hstep hold.lid hold.nd
    (hold.recv.transfer hws) (fun a x hf => ⟨x, hf, Nat.le_refl _⟩) (fun _ _ hb => hb) (by simp) (by simp) (by simp)

def writeNode (O : NodeSt) (k : String) (e : Entry) : NodeSt :=
  { O with version := O.version + 1, entries := O.entries.insert k e }

theorem writeOwn_eq (s : CState) (k : String) (mk : Nat → Entry) :
    writeOwn s k mk = setOwn s (writeNode (own s) k (mk ((own s).version + 1))) := rfl

/-- `localOp` with a function that either leaves the state alone or makes an `OwnerStepOK`
move of the own node -/
theorem NetInv.localStep {g : GNet} (h : NetInv g) (op : Op) {n : String} {s s' : CState}
    (hfind : g.net.nodes.find n = some s)
    (hnet : (g.net.step op).net.nodes = g.net.nodes.insert n s')
    (hpool : (g.net.step op).net.pool = g.net.pool)
    (hs' : s' = s ∨ ∃ O', s' = setOwn s O' ∧ OwnerStepOK (g.hist n) (own s) O') :
    NetInv (g.step op) := by
  rcases hs' with rfl | ⟨O', rfl, hok⟩
  · exact h.reinsert hfind hnet hpool (histExt_step g op)
  · exact h.ownChange hfind hnet hpool (histExt_step g op) hok

theorem upsert_ok {H : List Entry} {s : CState} (k v : String) (ho : OwnerInv H (own s))
    (hk : k ≠ leftKey ∧ k ≠ compactKey) :
    upsertLocal s k v = s ∨ ∃ O', upsertLocal s k v = setOwn s O' ∧ OwnerStepOK H (own s) O' := by
  have hw : ∃ O', writeOwn s k (fun ver => { key := k, value := v, version := ver }) = setOwn s O' ∧
      OwnerStepOK H (own s) O' := by
    refine ⟨writeNode (own s) k { key := k, value := v, version := (own s).version + 1 },
      writeOwn_eq s k _, write_ok ho (k := k) (e := { key := k, value := v, version := (own s).version + 1 })
      ⟨rfl, rfl, rfl, rfl, hk.2, by simp⟩ ⟨rfl, rfl⟩⟩
  unfold upsertLocal
  split
  · split
    · exact Or.inl rfl
    · exact Or.inr hw
  · exact Or.inr hw

theorem delete_ok {H : List Entry} {s : CState} (k : String) (ho : OwnerInv H (own s))
    (hk : k ≠ leftKey ∧ k ≠ compactKey) :
    deleteLocal s k = s ∨ ∃ O', deleteLocal s k = setOwn s O' ∧ OwnerStepOK H (own s) O' := by
  unfold deleteLocal
  cases hf : (own s).entries.find k with
  | none => exact Or.inl rfl
  | some e =>
    by_cases hd : e.deleted = true
    · simp [hd]
    · simp only [hd, Bool.false_eq_true, if_false]
      right
      have hkey : e.key = k := ho.wf.keyed k e hf
      have hint : e.internal = false := by
        cases hi : e.internal with
        | false => rfl
        | true =>
          rcases (ho.internalKeys e (ho.cur k e hf)).1 hi with h1 | h1
          · rw [hkey] at h1; exact absurd h1 hk.1
          · rw [hkey] at h1; exact absurd h1 hk.2
      refine ⟨writeNode (own s) k { key := e.key, value := "", version := (own s).version + 1,
                                    internal := e.internal, deleted := true },
        writeOwn_eq s k _, write_ok ho (k := k)
        (e := { key := e.key, value := "", version := (own s).version + 1, internal := e.internal, deleted := true })
        ⟨rfl, rfl, hkey, rfl, hk.2, by simp [hint]⟩ ⟨rfl, rfl⟩⟩

theorem leave_ok {H : List Entry} {s : CState} (ho : OwnerInv H (own s)) :
    leaveLocal s = s ∨ ∃ O', leaveLocal s = setOwn s O' ∧ OwnerStepOK H (own s) O' := by
  unfold leaveLocal
  by_cases hl : (own s).left = true
  · simp [hl]
  · simp only [hl, Bool.false_eq_true, if_false]
    right
    refine ⟨_, rfl, write_ok ho (k := leftKey)
      (e := { key := leftKey, value := "", version := (own s).version + 1, internal := true })
      ⟨rfl, rfl, rfl, rfl, by decide, by simp⟩ ⟨rfl, rfl⟩⟩

theorem compact_ok' {H : List Entry} {s s' : CState} {thr : Nat} (ho : OwnerInv H (own s))
    (hb : (own s).version < 2^64) (hc : compactLocal s thr = some s') :
    s' = s ∨ ∃ O', s' = setOwn s O' ∧ OwnerStepOK H (own s) O' := by
  have hwf := ownWF_of_ownerInv ho
  have hok := compact_ok ho hb hc
  rcases compactLocal_some hwf hc with ⟨_, rfl⟩ | ⟨_, _, rfl⟩
  · exact Or.inl rfl
  · right
    refine ⟨_, rfl, ?_⟩
    rw [own_setOwn] at hok; exact hok

/-! ### receive-side steps -/

theorem ownerStep_of_own_eq {H : List Entry} {O O' : NodeSt} (ho : OwnerInv H O) (e : O' = O) :
    OwnerStepOK H O O' := by subst e; exact noop_ok ho

/-- a node applies a delta all of whose entries are acceptable -/
theorem NetInv.recvDelta {g g' : GNet} (h : NetInv g) {r : String} {sr : CState} (now : Nat) (d : Delta)
    (hfind : g.net.nodes.find r = some sr)
    (hnet : g'.net.nodes = g.net.nodes.insert r (applyDelta now sr d).1)
    (hpool : g'.net.pool = g.net.pool) (hhist : HistExt g g')
    (hd : ∀ de ∈ d, DeOK g.world sr de) : NetInv g' := by
  have hold := h.node r sr hfind
  obtain ⟨_, hown0, _, _⟩ := applyDelta_recv now d sr hold.recv hd
  have hstep := ownerStep_of_own_eq hold.owner hown0
  have hws := worldStep_update h hfind hnet hhist hstep
  have hd' : ∀ de ∈ d, DeOK g'.world sr de := fun de hde => (hd de hde).transfer hws
  have hr' := hold.recv.transfer hws
  obtain ⟨h1, _, h3, h4⟩ := applyDelta_recv now d sr hr' hd'
  exact h.update (newPkts := []) hfind hnet (by rw [hpool]; simp) hhist hstep (h3.trans hold.lid)
    (applyDelta_nd now d sr hold.nd) h1 (applyDelta_keeps now d sr hr' hd') h4 (by simp) (by simp) (by simp)

/-- the packets `handleDigest` emits satisfy the packet invariants -/
theorem NetInv.recvDigest {g g' : GNet} (h : NetInv g) {r : String} {sr : CState}
    {src sa dst : String} {req : Bool} {d : Digest} (cut : Nat) (perm : List Nat) (dcut : Nat)
    (hp : Packet.digest src sa dst req d ∈ g.net.pool)
    (hfind : g.net.nodes.find r = some sr)
    (hnet : g'.net.nodes = g.net.nodes.insert r (handleDigest sr sa req d cut perm dcut).1)
    (hpool : g'.net.pool = g.net.pool ++ (handleDigest sr sa req d cut perm dcut).2.2)
    (hhist : HistExt g g') : NetInv g' := by
  have hold := h.node r sr hfind
  obtain ⟨ss, hss, hsa, hcl⟩ := h.digests src sa dst req d hp
  have hsrc := h.node src ss hss
  have hw := h.worldOK
  -- every digest entry names a node of the world
  have hdig : ∀ (W : World), WorldOK W → RecvInv W ss → ∀ de ∈ d, ∃ H O, W de.id = some (H, O) ∧ OwnerInv H O := by
    intro W hW hr de hde
    obtain ⟨n, hn, _⟩ := hcl de hde
    obtain ⟨H, O, hWd⟩ := hr.known _ _ hn
    exact ⟨H, O, hWd, hW.owners _ _ _ hWd⟩
  obtain ⟨_, hown0, _, _, _⟩ := applyDigest_recv d sr hold.recv (hdig _ hw hsrc.recv)
  have hs1 : (handleDigest sr sa req d cut perm dcut).1 = (applyDigest sr d).1 := rfl
  have hstep : OwnerStepOK (g.hist r) (own sr) (own (handleDigest sr sa req d cut perm dcut).1) := by
    rw [hs1]; exact ownerStep_of_own_eq hold.owner hown0
  have hws := worldStep_update h hfind hnet hhist hstep
  have hr' := hold.recv.transfer hws
  have hsrc' := hsrc.recv.transfer hws
  -- the world after the step
  have hfind' : ∀ a, g'.net.nodes.find a = if r = a then some (applyDigest sr d).1 else g.net.nodes.find a := by
    intro a; rw [hnet, AMap.find_insert]; rfl
  have hw' : WorldOK g'.world := by
    constructor
    intro a H O hW
    obtain ⟨H0, O0, hW0⟩ : ∃ H0 O0, g.world a = some (H0, O0) := by
      unfold GNet.world at hW ⊢
      rw [hfind' a] at hW
      by_cases hra : r = a
      · subst hra; simp [hfind]
      · simp only [hra, if_false] at hW
        cases hf : g.net.nodes.find a with
        | none => simp [hf] at hW
        | some s => simp
    obtain ⟨H', O', hW', heq, hok⟩ := hws a H0 O0 hW0
    rw [hW'] at hW; cases hW
    exact hok.owner.congr heq
  obtain ⟨h1, h2, h3, h4, h5⟩ := applyDigest_recv d sr hr' (hdig _ hw' hsrc')
  have hnd1 := applyDigest_nd d sr hold.nd
  have hlid1 : (applyDigest sr d).1.localId = r := h3.trans hold.lid
  have hownW : ∃ H, g'.world (applyDigest sr d).1.localId = some (H, own (applyDigest sr d).1) := by
    refine ⟨g'.hist r, ?_⟩
    unfold GNet.world
    rw [hlid1, hfind' r]; simp
  -- the receiver of the replies is the sender of the digest (addresses are unique)
  have hrecvOf : ∀ r' sr'', g'.net.nodes.find r' = some sr'' → (own sr'').addr = sa →
      r' = src ∧ ∀ de ∈ d, ∃ n, sr''.nodes.find de.id = some n ∧ de.version ≤ n.version := by
    intro r' sr'' hf' haddr
    rw [hfind' r'] at hf'
    by_cases hra : r = r'
    · subst hra
      simp only [if_true, Option.some.injEq] at hf'; subst hf'
      have haddr' : (own sr).addr = sa := by rw [← h2]; exact haddr
      have hrs : r = src := h.addrUniq r sr src ss hfind hss (haddr'.trans hsa.symm)
      refine ⟨hrs, ?_⟩
      subst hrs
      rw [hfind] at hss; cases hss
      intro de hde
      obtain ⟨n, hn, hle⟩ := hcl de hde
      exact ⟨n, h5 _ _ hn, hle⟩
    · simp only [hra, if_false] at hf'
      have hrs : r' = src := h.addrUniq r' sr'' src ss hf' hss (haddr.trans hsa.symm)
      subst hrs
      rw [hf'] at hss; cases hss
      exact ⟨rfl, hcl⟩
  refine h.update hfind hnet hpool hhist hstep hlid1 hnd1 h1
    (fun a n hf => ⟨n, h5 a n hf, Nat.le_refl _⟩) h4 ?_ ?_ ?_
  · intro src' sa' dst' req' d' hmem
    simp only [handleDigest] at hmem
    by_cases hreq : req = true
    · simp only [hreq, if_true, List.mem_cons, List.mem_singleton, reduceCtorEq, false_or,
        List.not_mem_nil, or_false] at hmem
      cases hmem
      refine ⟨(applyDigest sr d).1, by rw [hfind' _]; simp [← hold.ownId, hown0], rfl, ?_⟩
      intro de hde
      have hde' := mem_sortDigest.mp (mem_selectIdx (List.mem_of_mem_take hde))
      exact digest_claims hnd1 h1.ids de hde'
    · simp [hreq] at hmem
  · intro src' sa' dst' d' hmem r' sr'' hf' haddr de hde
    simp only [handleDigest] at hmem
    have hd'eq : d' = cutDelta cut (delta (applyDigest sr d).1 d false) ∧ dst' = sa := by
      by_cases hreq : req = true
      · simp only [hreq, if_true, List.mem_cons, List.mem_singleton, reduceCtorEq, or_false,
          List.not_mem_nil] at hmem
        cases hmem; exact ⟨rfl, rfl⟩
      · simp only [hreq, Bool.false_eq_true, if_false, List.mem_cons, List.not_mem_nil, or_false] at hmem
        cases hmem; exact ⟨rfl, rfl⟩
    obtain ⟨rfl, rfl⟩ := hd'eq
    obtain ⟨_, hclaims⟩ := hrecvOf r' sr'' hf' haddr
    obtain ⟨y, hy, hid, _, m, hm⟩ := cutDelta_spec cut _ de hde
    have hspec := delta_spec hw' h1 hnd1 hownW d false y hy
    exact deOK_take (deOK_of_spec hw' hclaims hspec) hid m hm
  · intro src' sa' dst' d' hmem
    simp only [handleDigest] at hmem
    have hdst : dst' = sa := by
      by_cases hreq : req = true
      · simp only [hreq, if_true, List.mem_cons, List.mem_singleton, reduceCtorEq, or_false,
          List.not_mem_nil] at hmem
        cases hmem; rfl
      · simp only [hreq, Bool.false_eq_true, if_false, List.mem_cons, List.not_mem_nil, or_false] at hmem
        cases hmem; rfl
    subst hdst
    by_cases hra : r = src
    · have hsame : ss = sr := by
        rw [← hra, hfind] at hss; exact (Option.some.inj hss).symm
      refine ⟨r, (applyDigest sr d).1, by rw [hfind' r]; simp, ?_⟩
      rw [h2, ← hsame]; exact hsa
    · exact ⟨src, ss, by rw [hfind' src]; simp [hra, hss], hsa⟩

end Piko.Gossip
