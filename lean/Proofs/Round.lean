import PikoModel.Gossip.Round
/-!
# Whom a gossip round and `Leave` talk to (`pkg/gossip/gossip.go`)

Lemmas about `roundTargets` (one random live peer + one random unreachable peer) and
`leaveNotified` (the notification loop of `Leave`).  Core Lean only.
-/
namespace Piko.Gossip

theorem pickNode_mem {xs : List NodeSt} {r : Nat} {n : NodeSt} (h : pickNode xs r = some n) : n ∈ xs := by
  unfold pickNode at h
  split at h
  · cases h
  · exact List.mem_of_getElem? h

theorem pickNode_isSome {xs : List NodeSt} (r : Nat) (h : xs ≠ []) : (pickNode xs r).isSome := by
  unfold pickNode
  have hne : xs.isEmpty = false := by cases xs <;> simp_all
  have hpos : 0 < xs.length := List.length_pos_iff.mpr h
  simp only [hne, Bool.false_eq_true, ↓reduceIte]
  rw [List.getElem?_eq_getElem (Nat.mod_lt _ hpos)]
  rfl

theorem pickNode_none {xs : List NodeSt} (r : Nat) (h : xs = []) : pickNode xs r = none := by
  subst h; rfl

/-- every member is the draw of some random number (its index): the draw `rand.Int() % len` is onto -/
theorem pickNode_onto {xs : List NodeSt} {n : NodeSt} (h : n ∈ xs) : ∃ r, r < xs.length ∧ pickNode xs r = some n := by
  obtain ⟨i, hi, hget⟩ := List.getElem_of_mem h
  refine ⟨i, hi, ?_⟩
  unfold pickNode
  have hne : xs.isEmpty = false := by cases xs <;> simp_all
  simp only [hne, Bool.false_eq_true, ↓reduceIte, Nat.mod_eq_of_lt hi]
  rw [List.getElem?_eq_getElem hi, hget]

/-- draws that agree modulo the number of candidates select the same peer -/
theorem pickNode_mod (xs : List NodeSt) (r : Nat) : pickNode xs (r % xs.length) = pickNode xs r := by
  unfold pickNode
  split
  · rfl
  · rw [Nat.mod_mod]

theorem mem_liveNodes {s : CState} {n : NodeSt} :
    n ∈ liveNodes s ↔ n ∈ s.nodes.vals ∧ n.id ≠ s.localId ∧ n.unreachable = false ∧ n.left = false := by
  unfold liveNodes
  simp only [List.mem_filter, Bool.and_eq_true, Bool.not_eq_true', decide_eq_false_iff_not, Bool.or_eq_false_iff]

theorem mem_unreachableNodes {s : CState} {n : NodeSt} :
    n ∈ unreachableNodes s ↔ n ∈ s.nodes.vals ∧ n.id ≠ s.localId ∧ n.unreachable = true := by
  unfold unreachableNodes
  simp only [List.mem_filter, Bool.and_eq_true, Bool.not_eq_true', decide_eq_false_iff_not]

theorem mem_roundTargets {s : CState} {r₁ r₂ : Nat} {n : NodeSt} :
    n ∈ roundTargets s r₁ r₂ ↔ pickNode (liveNodes s) r₁ = some n ∨ pickNode (unreachableNodes s) r₂ = some n := by
  unfold roundTargets
  simp only [List.mem_append, Option.mem_toList]

theorem length_roundTargets (s : CState) (r₁ r₂ : Nat) :
    (roundTargets s r₁ r₂).length =
      (if liveNodes s = [] then 0 else 1) + (if unreachableNodes s = [] then 0 else 1) := by
  unfold roundTargets
  rw [List.length_append]
  congr 1
  · by_cases h : liveNodes s = []
    · simp [h, pickNode_none]
    · have := pickNode_isSome r₁ h
      obtain ⟨n, hn⟩ := Option.isSome_iff_exists.mp this
      simp [h, hn]
  · by_cases h : unreachableNodes s = []
    · simp [h, pickNode_none]
    · have := pickNode_isSome r₂ h
      obtain ⟨n, hn⟩ := Option.isSome_iff_exists.mp this
      simp [h, hn]

/-! ## `Leave` -/

/-- a peer `Leave` tries to notify and whose stream succeeds -/
def eligible (localId : String) (ok : String → Bool) (n : NodeSt) : Bool :=
  !(n.id = localId) && !(n.left || n.unreachable) && ok n.id

/-- what `leaveLoop` guarantees about the accumulated notified list -/
theorem leaveLoop_spec (localId : String) (ok : String → Bool) :
    ∀ (order : List NodeSt) (acc : List String),
      acc.length ≤ 3 →
      (leaveLoop localId ok order acc).length ≤ 4 ∧ acc <+: leaveLoop localId ok order acc ∧
      (∀ x ∈ leaveLoop localId ok order acc, x ∈ acc ∨ ∃ n ∈ order, n.id = x ∧ eligible localId ok n = true)
  | [], acc, hacc => by
    simp only [leaveLoop]
    exact ⟨by omega, List.prefix_refl _, fun x h => Or.inl h⟩
  | n :: rest, acc, hacc => by
    have skip : (leaveLoop localId ok rest acc).length ≤ 4 ∧ acc <+: leaveLoop localId ok rest acc ∧
        (∀ x ∈ leaveLoop localId ok rest acc, x ∈ acc ∨ ∃ m ∈ n :: rest, m.id = x ∧ eligible localId ok m = true) := by
      obtain ⟨h1, h2, h3⟩ := leaveLoop_spec localId ok rest acc hacc
      exact ⟨h1, h2, fun x h => (h3 x h).imp (fun a => a) (fun ⟨m, hm, r⟩ => ⟨m, List.mem_cons_of_mem _ hm, r⟩)⟩
    simp only [leaveLoop]
    split
    · exact skip
    · rename_i hloc
      split
      · exact skip
      · rename_i hflags
        split
        · rename_i hok
          have hn : ∃ m ∈ n :: rest, m.id = n.id ∧ eligible localId ok m = true :=
            ⟨n, List.mem_cons_self, rfl, by simp [eligible, hloc, hflags, hok]⟩
          split
          · refine ⟨by simp; omega, List.prefix_append _ _, ?_⟩
            intro x h
            rcases List.mem_append.mp h with h | h
            · exact Or.inl h
            · simp only [List.mem_singleton] at h; subst h; exact Or.inr hn
          · rename_i hlen
            have hacc' : (acc ++ [n.id]).length ≤ 3 := by simp at hlen ⊢; omega
            obtain ⟨h1, h2, h3⟩ := leaveLoop_spec localId ok rest (acc ++ [n.id]) hacc'
            refine ⟨h1, List.IsPrefix.trans (List.prefix_append _ _) h2, ?_⟩
            intro x h
            rcases h3 x h with h | ⟨m, hm, r⟩
            · rcases List.mem_append.mp h with h | h
              · exact Or.inl h
              · simp only [List.mem_singleton] at h; subst h; exact Or.inr hn
            · exact Or.inr ⟨m, List.mem_cons_of_mem _ hm, r⟩
        · exact skip

/-- an id already in the accumulator stays in the result -/
theorem leaveLoop_acc_subset (localId : String) (ok : String → Bool) :
    ∀ (order : List NodeSt) (acc : List String) (x : String), x ∈ acc → x ∈ leaveLoop localId ok order acc
  | [], acc, x, h => by simpa [leaveLoop] using h
  | n :: rest, acc, x, h => by
    simp only [leaveLoop]
    split
    · exact leaveLoop_acc_subset localId ok rest acc x h
    · split
      · exact leaveLoop_acc_subset localId ok rest acc x h
      · split
        · split
          · exact List.mem_append_left _ h
          · exact leaveLoop_acc_subset localId ok rest _ x (List.mem_append_left _ h)
        · exact leaveLoop_acc_subset localId ok rest acc x h

/-- with at most four eligible peers (counting those already notified) the loop never stops
early: every eligible peer is notified -/
theorem leaveLoop_complete (localId : String) (ok : String → Bool) :
    ∀ (order : List NodeSt) (acc : List String),
      acc.length + (order.filter (eligible localId ok)).length ≤ 4 →
      ∀ n ∈ order, eligible localId ok n = true → n.id ∈ leaveLoop localId ok order acc
  | [], _, _ => by intro n h; cases h
  | m :: rest, acc, hlen => by
    intro n hn hel
    simp only [leaveLoop]
    by_cases hem : eligible localId ok m = true
    · -- `m` is notified
      have hm1 : ¬ m.id = localId := by
        intro h; simp [eligible, h] at hem
      have hm2 : ¬ (m.left || m.unreachable) = true := by
        intro h; simp [eligible, h] at hem
      have hm3 : ok m.id = true := by
        simp only [eligible, Bool.and_eq_true] at hem; exact hem.2
      rw [if_neg hm1, if_neg hm2, if_pos hm3]
      have hlen' : acc.length + 1 + (rest.filter (eligible localId ok)).length ≤ 4 := by
        rw [List.filter_cons, if_pos hem, List.length_cons] at hlen; omega
      split
      · rcases List.mem_cons.mp hn with h | h
        · subst h; exact List.mem_append_right _ (List.mem_singleton.mpr rfl)
        · exfalso
          have : 0 < (rest.filter (eligible localId ok)).length :=
            List.length_pos_of_mem (List.mem_filter.mpr ⟨h, hel⟩)
          omega
      · rcases List.mem_cons.mp hn with h | h
        · subst h
          exact leaveLoop_acc_subset localId ok rest _ _ (List.mem_append_right _ (List.mem_singleton.mpr rfl))
        · exact leaveLoop_complete localId ok rest (acc ++ [m.id]) (by simpa using hlen') n h hel
    · -- `m` is skipped
      have hn' : n ∈ rest := by
        rcases List.mem_cons.mp hn with h | h
        · subst h; exact absurd hel hem
        · exact h
      have hlen' : acc.length + (rest.filter (eligible localId ok)).length ≤ 4 := by
        rw [List.filter_cons, if_neg hem] at hlen; exact hlen
      have hrec := leaveLoop_complete localId ok rest acc hlen' n hn' hel
      by_cases h1 : m.id = localId
      · rw [if_pos h1]; exact hrec
      · rw [if_neg h1]
        by_cases h2 : (m.left || m.unreachable) = true
        · rw [if_pos h2]; exact hrec
        · rw [if_neg h2]
          by_cases h3 : ok m.id = true
          · exfalso; apply hem; simp [eligible, h1, h3]; simpa using h2
          · rw [if_neg h3]; exact hrec

end Piko.Gossip
