import Proofs.JoinConv
import Proofs.C11
import Proofs.Codec
/-!
# What every allowed network step keeps: who is remembered, at least how far, and whose own
state it can change (the closure lemmas behind the network-level convergence theorem C03)

* `Op.writer op` — the node whose **own** state the operation may change (`upsert`, `delete`,
  `leave`, `compact`, and the forbidden `expire`); `Quiet op` = there is none.
* `Keeps s s'` — `s'` is the same node as `s`, still remembers every node `s` remembered, and no
  remembered version went down.
* `step_keeps` — after any allowed step every node is still there, `Keeps` its memory, and its own
  state is untouched unless the step is a local write of that very node.
* `run_keeps` — the same over a whole schedule.
-/
namespace Piko.Gossip
open Piko

/-- the node whose own state the operation writes (local writes; `expire` is listed too so that
`Quiet` excludes it, although `StepAllowed` already forbids it) -/
def Op.writer : Op → Option String
  | .upsert n _ _ => some n
  | .delete n _ => some n
  | .leave n => some n
  | .compact n _ => some n
  | .expire n _ => some n
  | _ => none

/-- the operation is not a local write: `node`, `sendDigest`, `deliver`, `join`, `leaveStream`,
`liveness` are quiet; `upsert`, `delete`, `leave`, `compact` (and `expire`) are not -/
def Quiet (op : Op) : Prop := op.writer = none

instance : DecidablePred Quiet := fun op => inferInstanceAs (Decidable (op.writer = none))

theorem Quiet.writer_ne {op : Op} (h : Quiet op) (a : String) : op.writer ≠ some a := by
  unfold Quiet at h; rw [h]; intro e; cases e

/-- `s'` is the same node as `s`, remembers every node `s` remembered, at a version at least as
high -/
structure Keeps (s s' : CState) : Prop where
  lid : s'.localId = s.localId
  mono : ∀ a n, s.nodes.find a = some n → ∃ n', s'.nodes.find a = some n' ∧ n.version ≤ n'.version

theorem Keeps.refl (s : CState) : Keeps s s := ⟨rfl, fun _ n h => ⟨n, h, Nat.le_refl _⟩⟩

theorem Keeps.trans {s₁ s₂ s₃ : CState} (h₁ : Keeps s₁ s₂) (h₂ : Keeps s₂ s₃) : Keeps s₁ s₃ := by
  refine ⟨h₂.lid.trans h₁.lid, ?_⟩
  intro a n hf
  obtain ⟨n₂, hf₂, hle₂⟩ := h₁.mono a n hf
  obtain ⟨n₃, hf₃, hle₃⟩ := h₂.mono a n₂ hf₂
  exact ⟨n₃, hf₃, Nat.le_trans hle₂ hle₃⟩

/-! ### receive side -/

/-- `ApplyDelta` with an arbitrary delta never drops a remembered node nor lowers its version -/
theorem keeps_applyDelta (now : Nat) (d : Delta) (s : CState) : Keeps s (applyDelta now s d).1 := by
  refine ⟨(applyDelta_local now d s).1, ?_⟩
  unfold applyDelta
  suffices hgen : ∀ (d : Delta) (acc : CState × List Event) (a : String) (n : NodeSt),
      acc.1.nodes.find a = some n →
      ∃ n', (d.foldl (fun acc de => let (s', e) := applyDeltaEntry now acc.1 de; (s', acc.2 ++ e)) acc).1.nodes.find a = some n' ∧
        n.version ≤ n'.version by
    intro a n hf; exact hgen d (s, []) a n hf
  intro d
  induction d with
  | nil => intro acc a n hf; exact ⟨n, hf, Nat.le_refl _⟩
  | cons de d ih =>
    intro acc a n hf
    rw [List.foldl_cons]
    have hstep : ∃ n1, (applyDeltaEntry now acc.1 de).1.nodes.find a = some n1 ∧ n.version ≤ n1.version := by
      rw [applyDeltaEntry_find]
      by_cases h1 : de.id = acc.1.localId
      · exact ⟨n, by simp [h1, hf], Nat.le_refl _⟩
      · by_cases h2 : de.id = a
        · subst h2
          refine ⟨(applyEntries now ((acc.1.nodes.find de.id).getD { id := de.id, addr := de.addr }) de.entries).1,
            by simp [h1], ?_⟩
          have := (applyEntries_version_mono now de.entries ((acc.1.nodes.find de.id).getD { id := de.id, addr := de.addr })).1
          simp only [hf, Option.getD_some] at this ⊢; exact this
        · exact ⟨n, by simp [h1, h2, hf], Nat.le_refl _⟩
    obtain ⟨n1, hn1, hle1⟩ := hstep
    generalize hacc : (match applyDeltaEntry now acc.1 de with | (s', e) => (s', acc.2 ++ e)) = acc'
    have h1' : acc'.1 = (applyDeltaEntry now acc.1 de).1 := by rw [← hacc]
    obtain ⟨n', hn', hle'⟩ := ih acc' a n1 (by rw [h1']; exact hn1)
    exact ⟨n', hn', Nat.le_trans hle1 hle'⟩

/-- `ApplyDigest` never changes a node that is already remembered -/
theorem keeps_applyDigest (s : CState) (d : Digest) : Keeps s (applyDigest s d).1 := by
  rw [C11.applyDigest_fst]
  exact ⟨C11.digestFold_localId d s, fun a n hf => ⟨n, C11.find_digestFold_present d hf, Nat.le_refl _⟩⟩

theorem own_applyDelta (now : Nat) (d : Delta) (s : CState) : own (applyDelta now s d).1 = own s :=
  own_eq_of_local (applyDelta_local now d s).1 (applyDelta_local now d s).2

theorem own_applyDigest (d : Digest) (s : CState) (hp : OwnPresent s) : own (applyDigest s d).1 = own s :=
  own_eq_of_local (applyDigest_local d s hp).1 (applyDigest_local d s hp).2

theorem ownPresent_applyDelta (now : Nat) (d : Delta) (s : CState) (hp : OwnPresent s) :
    OwnPresent (applyDelta now s d).1 :=
  ownPresent_of_local (applyDelta_local now d s).1 (applyDelta_local now d s).2 hp

/-- `UpdateLiveness` changes flags and expiry only -/
theorem keeps_updateLiveness (s : CState) (f : String → Bool) (now : Nat)
    (hnd : s.nodes.NoDupKeys) (hids : ∀ a V, s.nodes.find a = some V → V.id = a) :
    Keeps s (updateLiveness s f now).1 ∧ own (updateLiveness s f now).1 = own s := by
  obtain ⟨h1, h2, h3, _⟩ := updateLiveness_same s f now hnd hids
  refine ⟨⟨h2, ?_⟩, own_eq_of_local h2 h3⟩
  intro a n hf
  have := h1 a
  rw [hf] at this
  cases hf' : (updateLiveness s f now).1.nodes.find a with
  | none => rw [hf'] at this; exact this.elim
  | some n' =>
    rw [hf'] at this
    exact ⟨n', rfl, Nat.le_of_eq this.2.2.1.symm⟩

/-! ### local writes -/

/-- replacing the local node by one with a version at least as high -/
theorem keeps_setOwn (s : CState) (O' : NodeSt) (hv : (own s).version ≤ O'.version) :
    Keeps s (setOwn s O') := by
  refine ⟨rfl, ?_⟩
  intro a n hf
  by_cases e : a = s.localId
  · subst e
    refine ⟨O', C11.find_setOwn_self s O', ?_⟩
    have : own s = n := by simp [own, hf]
    rw [← this]; exact hv
  · exact ⟨n, by rw [C11.find_setOwn_ne s O' e]; exact hf, Nat.le_refl _⟩

theorem keeps_writeOwn (s : CState) (k : String) (mk : Nat → Entry) : Keeps s (writeOwn s k mk) := by
  unfold writeOwn
  exact keeps_setOwn s _ (Nat.le_succ _)

theorem keeps_upsertLocal (s : CState) (k v : String) : Keeps s (upsertLocal s k v) := by
  unfold upsertLocal
  split
  · split
    · exact Keeps.refl s
    · exact keeps_writeOwn _ _ _
  · exact keeps_writeOwn _ _ _

theorem keeps_deleteLocal (s : CState) (k : String) : Keeps s (deleteLocal s k) := by
  unfold deleteLocal
  split
  · exact Keeps.refl s
  · split
    · exact Keeps.refl s
    · exact keeps_writeOwn _ _ _

theorem keeps_leaveLocal (s : CState) : Keeps s (leaveLocal s) := by
  unfold leaveLocal
  dsimp only
  split
  · exact Keeps.refl s
  · exact keeps_setOwn s _ (Nat.le_succ _)

theorem keeps_compactLocal (s s' : CState) (thr : Nat) (h : compactLocal s thr = some s') : Keeps s s' := by
  unfold compactLocal at h
  dsimp only at h
  split at h
  · cases h; exact Keeps.refl s
  · split at h
    · cases h
    · cases h
      exact keeps_setOwn s _ (by simp only; omega)

/-! ### one network step -/

/-- one node of the map is replaced by a state that `Keeps` the old one -/
theorem good_insert {nodes : AMap String CState} {n r : String} {sn sn' sr : CState} (w : Option String)
    (hn : nodes.find n = some sn) (hr : nodes.find r = some sr) (hk : Keeps sn sn')
    (ho : w ≠ some n → own sn' = own sn) :
    ∃ sr', (nodes.insert n sn').find r = some sr' ∧ Keeps sr sr' ∧ (w ≠ some r → own sr' = own sr) := by
  by_cases e : n = r
  · subst e
    rw [hn] at hr; cases hr
    exact ⟨sn', by simp, hk, ho⟩
  · exact ⟨sr, by rw [AMap.find_insert_ne _ _ (fun x => e x.symm)]; exact hr, Keeps.refl _, fun _ => rfl⟩

theorem good_same {nodes nodes' : AMap String CState} {r : String} {sr : CState} (w : Option String)
    (hr : nodes.find r = some sr) (e : nodes' = nodes) :
    ∃ sr', nodes'.find r = some sr' ∧ Keeps sr sr' ∧ (w ≠ some r → own sr' = own sr) :=
  ⟨sr, by rw [e]; exact hr, Keeps.refl _, fun _ => rfl⟩

/-- **After any allowed step, every node is still there, still remembers every node it remembered
at a version at least as high, and its own state is unchanged unless the step is a local write of
that very node.** -/
theorem step_keeps {g : GNet} (h : NetInv g) (op : Op) (ha : StepAllowed g op) {r : String} {sr : CState}
    (hr : g.net.nodes.find r = some sr) :
    ∃ sr', (g.step op).net.nodes.find r = some sr' ∧ Keeps sr sr' ∧
      (op.writer ≠ some r → own sr' = own sr) := by
  show ∃ sr', (g.net.step op).net.nodes.find r = some sr' ∧ _
  cases op with
  | node id addr =>
    cases hf : g.net.nodes.find id with
    | some _ => exact good_same _ hr (by simp [Net.step, hf])
    | none =>
      cases hb : g.net.nodeByAddr addr with
      | some _ => exact good_same _ hr (by simp [Net.step, hf, hb])
      | none =>
        have hne : r ≠ id := by intro e; rw [e, hf] at hr; cases hr
        refine ⟨sr, ?_, Keeps.refl _, fun _ => rfl⟩
        simp only [Net.step, hf, hb, Net.setNode]
        rw [AMap.find_insert_ne _ _ hne]; exact hr
  | upsert n k v =>
    cases hf : g.net.nodes.find n with
    | none => exact good_same _ hr (by simp [Net.step, localOp, hf])
    | some s =>
      have : (g.net.step (.upsert n k v)).net.nodes = g.net.nodes.insert n (upsertLocal s k v) := by
        simp [Net.step, localOp, hf, Net.setNode]
      rw [this]
      exact good_insert _ hf hr (keeps_upsertLocal s k v) (fun hw => absurd rfl hw)
  | delete n k =>
    cases hf : g.net.nodes.find n with
    | none => exact good_same _ hr (by simp [Net.step, localOp, hf])
    | some s =>
      have : (g.net.step (.delete n k)).net.nodes = g.net.nodes.insert n (deleteLocal s k) := by
        simp [Net.step, localOp, hf, Net.setNode]
      rw [this]
      exact good_insert _ hf hr (keeps_deleteLocal s k) (fun hw => absurd rfl hw)
  | leave n =>
    cases hf : g.net.nodes.find n with
    | none => exact good_same _ hr (by simp [Net.step, localOp, hf])
    | some s =>
      have : (g.net.step (.leave n)).net.nodes = g.net.nodes.insert n (leaveLocal s) := by
        simp [Net.step, localOp, hf, Net.setNode]
      rw [this]
      exact good_insert _ hf hr (keeps_leaveLocal s) (fun hw => absurd rfl hw)
  | compact n thr =>
    cases hf : g.net.nodes.find n with
    | none => exact good_same _ hr (by simp [Net.step, hf])
    | some s =>
      cases hc : compactLocal s thr with
      | none => exact good_same _ hr (by simp [Net.step, hf, hc])
      | some s' =>
        have : (g.net.step (.compact n thr)).net.nodes = g.net.nodes.insert n s' := by
          simp [Net.step, hf, hc, Net.setNode]
        rw [this]
        exact good_insert _ hf hr (keeps_compactLocal s s' thr hc) (fun hw => absurd rfl hw)
  | sendDigest n dst request perm cut =>
    cases hf : g.net.nodes.find n with
    | none => exact good_same _ hr (by simp [Net.step, hf])
    | some s => exact good_same _ hr (by simp [Net.step, hf])
  | deliver i cut perm dcut now =>
    cases hp : g.net.pool[i]? with
    | none => exact good_same _ hr (by simp [Net.step, hp])
    | some pk =>
      cases pk with
      | digest src sa dst req d =>
        cases hb : g.net.nodeByAddr dst with
        | none => exact good_same _ hr (by simp [Net.step, hp, hb])
        | some q =>
          obtain ⟨id, s⟩ := q
          obtain ⟨hf, _⟩ := nodeByAddr_spec h.nd hb
          have : (g.net.step (.deliver i cut perm dcut now)).net.nodes =
              g.net.nodes.insert id (applyDigest s d).1 := by
            simp [Net.step, hp, hb, Net.setNode, handleDigest]
          rw [this]
          exact good_insert _ hf hr (keeps_applyDigest s d)
            (fun _ => own_applyDigest d s (h.node id s hf).recv.ownPresent)
      | delta src sa dst d =>
        cases hb : g.net.nodeByAddr dst with
        | none => exact good_same _ hr (by simp [Net.step, hp, hb])
        | some q =>
          obtain ⟨id, s⟩ := q
          obtain ⟨hf, _⟩ := nodeByAddr_spec h.nd hb
          have : (g.net.step (.deliver i cut perm dcut now)).net.nodes =
              g.net.nodes.insert id (applyDelta now s d).1 := by
            simp [Net.step, hp, hb, Net.setNode]
          rw [this]
          exact good_insert _ hf hr (keeps_applyDelta now d s) (fun _ => own_applyDelta now d s)
  | join n m rd now =>
    cases hn : g.net.nodes.find n with
    | none => exact good_same _ hr (by simp [Net.step, hn])
    | some sn =>
      cases hm : g.net.nodes.find m with
      | none => exact good_same _ hr (by simp [Net.step, hn, hm])
      | some sm =>
        by_cases hnm : n = m
        · exact good_same _ hr (by simp [Net.step, hm, hnm])
        · -- request half at `m`
          have hpm : OwnPresent sm := (h.node m sm hm).recv.ownPresent
          have hk2 : Keeps sm (applyDigest (applyDelta now sm (localDelta sn)).1 (sortDigest (digest sn))).1 :=
            (keeps_applyDelta now _ sm).trans (keeps_applyDigest _ _)
          have ho2 : own (applyDigest (applyDelta now sm (localDelta sn)).1 (sortDigest (digest sn))).1 = own sm := by
            rw [own_applyDigest _ _ (ownPresent_applyDelta now _ sm hpm), own_applyDelta]
          obtain ⟨sr1, hr1, hkr1, hor1⟩ := good_insert (Op.join n m rd now).writer hm hr hk2 (fun _ => ho2)
          cases rd with
          | false =>
            have : (g.net.step (.join n m false now)).net.nodes =
                g.net.nodes.insert m (applyDigest (applyDelta now sm (localDelta sn)).1 (sortDigest (digest sn))).1 := by
              simp [Net.step, hn, hm, hnm, Net.setNode]
            rw [this]
            exact ⟨sr1, hr1, hkr1, hor1⟩
          | true =>
            have : (g.net.step (.join n m true now)).net.nodes =
                (g.net.nodes.insert m (applyDigest (applyDelta now sm (localDelta sn)).1 (sortDigest (digest sn))).1).insert n
                  (applyDelta now sn (sortDelta (delta
                    (applyDigest (applyDelta now sm (localDelta sn)).1 (sortDigest (digest sn))).1
                    (sortDigest (digest sn)) true))).1 := by
              simp [Net.step, hn, hm, hnm, Net.setNode]
            rw [this]
            have hn1 : (g.net.nodes.insert m
                (applyDigest (applyDelta now sm (localDelta sn)).1 (sortDigest (digest sn))).1).find n = some sn := by
              rw [AMap.find_insert_ne _ _ hnm]; exact hn
            obtain ⟨sr2, hr2, hkr2, hor2⟩ := good_insert (Op.join n m true now).writer hn1 hr1
              (keeps_applyDelta now _ sn) (fun _ => own_applyDelta now _ sn)
            exact ⟨sr2, hr2, hkr1.trans hkr2, fun hw => (hor2 hw).trans (hor1 hw)⟩
  | leaveStream n m now =>
    cases hn : g.net.nodes.find n with
    | none => exact good_same _ hr (by simp [Net.step, hn])
    | some sn =>
      cases hm : g.net.nodes.find m with
      | none => exact good_same _ hr (by simp [Net.step, hn, hm])
      | some sm =>
        by_cases hnm : n = m
        · exact good_same _ hr (by simp [Net.step, hm, hnm])
        · have : (g.net.step (.leaveStream n m now)).net.nodes =
              g.net.nodes.insert m (applyDelta now sm (localDelta sn)).1 := by
            simp [Net.step, hn, hm, hnm, Net.setNode]
          rw [this]
          exact good_insert _ hm hr (keeps_applyDelta now _ sm) (fun _ => own_applyDelta now _ sm)
  | liveness n suspected now =>
    cases hf : g.net.nodes.find n with
    | none => exact good_same _ hr (by simp [Net.step, hf])
    | some s =>
      have hold := h.node n s hf
      obtain ⟨hk, ho⟩ := keeps_updateLiveness s (fun id => suspected.contains id) now hold.nd hold.recv.ids
      have : (g.net.step (.liveness n suspected now)).net.nodes =
          g.net.nodes.insert n (updateLiveness s (fun id => suspected.contains id) now).1 := by
        simp [Net.step, hf, Net.setNode]
      rw [this]
      exact good_insert _ hf hr hk (fun _ => ho)
  | expire n t => exact ha.elim

/-! ### a whole schedule -/

theorem allowedRev_append : ∀ (sched ops : List Op), AllowedRev (sched ++ ops) → AllowedRev ops
  | [], _, h => h
  | _ :: sched, ops, h => allowedRev_append sched ops h.1

/-- **Over any allowed continuation `sched` of the history `ops`** every node of `runRev ops` is
still there, remembers whatever it remembered at a version at least as high, and has the own state
it had if `sched` contains no local write of it. -/
theorem run_keeps : ∀ (sched ops : List Op), AllowedRev (sched ++ ops) → ∀ {r : String} {sr : CState},
    (runRev ops).net.nodes.find r = some sr →
    ∃ sr', (runRev (sched ++ ops)).net.nodes.find r = some sr' ∧ Keeps sr sr' ∧
      ((∀ op ∈ sched, op.writer ≠ some r) → own sr' = own sr)
  | [], _, _, _, sr, hr => ⟨sr, hr, Keeps.refl _, fun _ => rfl⟩
  | op :: sched, ops, h, r, sr, hr => by
    obtain ⟨sr1, hr1, hk1, ho1⟩ := run_keeps sched ops h.1 hr
    obtain ⟨sr2, hr2, hk2, ho2⟩ := step_keeps (netInv_runRev _ h.1) op h.2 hr1
    refine ⟨sr2, hr2, hk1.trans hk2, ?_⟩
    intro hq
    rw [ho2 (hq op (List.mem_cons_self ..)), ho1 (fun o ho => hq o (List.mem_cons_of_mem _ ho))]

end Piko.Gossip
