import Proofs.SysMirror
import Proofs.Route
/-!
# Settling the system, and the routing `World` of a system state

* `SysOp.quiet`            — the receive-side operations (`sendDigest`, `deliver`, `join`,
                             `leaveStream`, `liveness`): what a settle schedule consists of.
* `Sys.netHist_append_quiet` — such a schedule is, on the gossip network, the same list of
                             `Gossip.Op`s (so `C03_converges_all` applies to it).
* `Sys.side_dom_quiet`     — it neither creates nor removes nodes.
* `Sys.world`              — the `World` of `Proxy/Route.lean`: every node's manager (registry + its
                             routing table) and who listens on which proxy address.
* `NodeInv.row_known`      — a remote row of the routing table is about a node the gossip state
                             remembers.
-/
set_option linter.unusedSimpArgs false
namespace Piko
open Piko.Gossip

def SysOp.quiet : SysOp → Option Gossip.Op
  | .sendDigest n dst rq perm cut => some (.sendDigest n dst rq perm cut)
  | .deliver i cut perm dcut now => some (.deliver i cut perm dcut now)
  | .join n m rd now => some (.join n m rd now)
  | .leaveStream n m now => some (.leaveStream n m now)
  | .liveness n sus now => some (.liveness n sus now)
  | _ => none

namespace Sys

theorem netOps_quiet (s : Sys) {op : SysOp} {g : Gossip.Op} (h : op.quiet = some g) : s.netOps op = [g] := by
  cases op <;> simp_all [SysOp.quiet, netOps]

theorem step_quiet (s : Sys) {op : SysOp} {g : Gossip.Op} (h : op.quiet = some g) : s.step op = s.gossip g := by
  cases op <;> simp_all [SysOp.quiet, step]

theorem quiet_isQuiet {op : SysOp} {g : Gossip.Op} (h : op.quiet = some g) : Gossip.Quiet g := by
  cases op <;> simp_all [SysOp.quiet, Gossip.Quiet, Gossip.Op.writer] <;> subst h <;> rfl

theorem netHist_append_quiet : ∀ (sched ops : List SysOp), (∀ op ∈ sched, op.quiet.isSome = true) →
    netHist (sched ++ ops) = sched.filterMap SysOp.quiet ++ netHist ops
  | [], _, _ => rfl
  | op :: rest, ops, hq => by
    have h1 := hq op (List.mem_cons_self ..)
    cases hg : op.quiet with
    | none => rw [hg] at h1; cases h1
    | some g =>
      rw [List.cons_append, netHist, netOps_quiet _ hg,
        netHist_append_quiet rest ops (fun o ho => hq o (List.mem_cons_of_mem _ ho)),
        List.filterMap_cons_some hg]
      rfl

theorem feed_isSome (side : AMap String Side) (n : String) (ev : List Event) (k : String) :
    ((feed side n ev).find k).isSome = (side.find k).isSome := by
  unfold feed
  split
  · next sd hsd =>
    simp only [AMap.find_insert]
    by_cases hk : n = k
    · subst hk; simp [hsd]
    · simp [hk]
  · rfl

theorem gossip_side_dom (s : Sys) (g : Gossip.Op) (k : String) :
    ((s.gossip g).side.find k).isSome = (s.side.find k).isSome := by
  unfold gossip
  simp only []
  split
  · rw [feed_isSome, feed_isSome]
  · rw [feed_isSome]

/-- a quiet schedule neither creates nor removes nodes -/
theorem side_dom_quiet : ∀ (sched ops : List SysOp), (∀ op ∈ sched, op.quiet.isSome = true) → ∀ k,
    ((runRev (sched ++ ops)).side.find k).isSome = ((runRev ops).side.find k).isSome
  | [], _, _, _ => rfl
  | op :: rest, ops, hq, k => by
    have h1 := hq op (List.mem_cons_self ..)
    cases hg : op.quiet with
    | none => rw [hg] at h1; cases h1
    | some g =>
      rw [List.cons_append, runRev, step_quiet _ hg, gossip_side_dom]
      exact side_dom_quiet rest ops (fun o ho => hq o (List.mem_cons_of_mem _ ho)) k

/-! ## the routing world -/

/-- every node's manager with its routing table, and the listening proxy sockets -/
def world (s : Sys) : Proxy.World :=
  { nodes := s.side.map fun p =>
      (p.1, ({ lbs := p.2.lbs, cluster := p.2.table, gossip := (s.net.nodes.find p.1).getD default } : Upstream.Mgr)),
    listen := s.side.map fun p => (p.2.table.localNode.proxyAddr, p.1) }

theorem find_mapKV {κ ν μ : Type} [DecidableEq κ] (m : AMap κ ν) (f : κ → ν → μ) (k : κ) :
    AMap.find (m.map fun p => (p.1, f p.1 p.2)) k = (AMap.find m k).map (f k) := by
  induction m with
  | nil => rfl
  | cons p m ih =>
    obtain ⟨k', v⟩ := p
    simp only [List.map_cons, AMap.find_cons]
    by_cases hk : k' = k
    · subst hk; simp
    · simp [hk, ih]

theorem world_find {s : Sys} (h : SysInv s) (n : String) : s.world.nodes.find n = (s.node n).map (·.mgr) := by
  unfold world node
  simp only []
  rw [find_mapKV s.side (fun k sd =>
    ({ lbs := sd.lbs, cluster := sd.table, gossip := (s.net.nodes.find k).getD default } : Upstream.Mgr))]
  cases hs : s.side.find n with
  | none => rfl
  | some sd =>
    obtain ⟨g, hg⟩ := h.net_of_side hs
    simp [hg]

theorem world_reg {s : Sys} (h : SysInv s) (k e : String) :
    s.world.reg k e = ((s.node k).map (·.mgr.registry e)).getD [] := by
  unfold Proxy.World.reg
  rw [world_find h]
  cases s.node k <;> rfl

theorem find_listen {f : Side → String} {x k : String} : ∀ (l : AMap String Side),
    (∀ p ∈ l, f p.2 = x → p.1 = k) → (∃ p ∈ l, p.1 = k ∧ f p.2 = x) →
    AMap.find (l.map fun p => (f p.2, p.1)) x = some k
  | [], _, h => by obtain ⟨p, hp, _⟩ := h; cases hp
  | q :: l, h1, h2 => by
    simp only [List.map_cons, AMap.find_cons]
    by_cases hq : f q.2 = x
    · simp [hq, h1 q (List.mem_cons_self ..) hq]
    · simp only [hq, if_false]
      apply find_listen l (fun p hp => h1 p (List.mem_cons_of_mem _ hp))
      obtain ⟨p, hp, hpk, hpx⟩ := h2
      rcases List.mem_cons.mp hp with rfl | hp
      · exact absurd hpx hq
      · exact ⟨p, hp, hpk, hpx⟩

/-- with pairwise distinct proxy addresses, `k`'s address is where `k` listens -/
theorem world_listen {s : Sys} (h : SysInv s)
    (hdist : ∀ a b sda sdb, s.side.find a = some sda → s.side.find b = some sdb →
      sda.table.localNode.proxyAddr = sdb.table.localNode.proxyAddr → a = b)
    {k : String} {sd : Side} (hk : s.side.find k = some sd) :
    s.world.listen.find sd.table.localNode.proxyAddr = some k := by
  unfold world
  simp only []
  apply find_listen (f := fun sd => sd.table.localNode.proxyAddr)
  · intro p hp hpx
    obtain ⟨k', sd'⟩ := p
    exact hdist k' k sd' sd (AMap.find_of_mem h.snd hp) hk hpx
  · exact ⟨(k, sd), AMap.mem_of_find hk, rfl, rfl⟩

end Sys

/-- **A remote row of the routing table is about a node the gossip state remembers** (so: about a
real node). -/
theorem NodeInv.row_known {pa aa : String → Option String} {r : String} {sd : Side} {g : CState}
    (h : NodeInv pa aa r sd g) {a : String} (hne : a ≠ r) {row : Cluster.Node}
    (hrow : sd.table.nodes.find a = some row) : ∃ V, g.nodes.find a = some V := by
  cases hV : g.nodes.find a with
  | some V => exact ⟨V, rfl⟩
  | none =>
    exfalso
    open SyncerSpec in
    -- the C14 fold does not have `a` ...
    have hden := (C14.foldOK_iff _ g h.wf).mp h.fold
    have h1 := congrFun hden a
    have hne' : ¬ a = g.localId := by rw [h.lid]; exact hne
    simp only [C14.den, C14.avis, hne', if_false, hV, Option.map_none] at h1
    have hw : (Gossip.foldEvents [] sd.evs).find a = none := by
      cases hf : (Gossip.foldEvents [] sd.evs).find a with
      | none => rfl
      | some w => rw [hf] at h1; simp at h1
    -- ... nor the C04 fold, nor the filtered one
    have hsame := sameView_fold [] [] sd.evs sameView_nil a
    rw [hw] at hsame
    have hF : (foldEvents sd.evs).find a = none := by
      cases hf : (foldEvents sd.evs).find a with
      | none => rfl
      | some nv =>
        have hf' : (foldFrom [] sd.evs).find a = some nv := hf
        rw [hf'] at hsame; simp at hsame
    have hvs : NSim ((foldEvents sd.evs).find a) ((foldEvents (dropAddrDeletes sd.evs)).find a) :=
      vsim_fold sd.evs vsim_nil a
    rw [hF] at hvs
    have hF' : (foldEvents (dropAddrDeletes sd.evs)).find a = none := by
      cases hf : (foldEvents (dropAddrDeletes sd.evs)).find a with
      | none => rfl
      | some nv => rw [hf] at hvs; exact hvs.elim
    -- so the pure syncer has no row, and neither has the real one
    have hw' := wellFormed_filtered r sd.evs (wellFormed_of_eventsOK_from r [] [] sd.evs sameView_nil h.evok)
    have hl' := noLiveness_filtered r sd.evs h.live
    have ha' := addrStable_filtered r sd.evs h.addr
    have hspec := table_spec { id := r } (dropAddrDeletes sd.evs) hw' hl' ha' a hne
    rw [hF', run_dropAddrDeletes] at hspec
    have hag := h.agree.2 a (by rw [Side.sync_table, h.tlid]; exact hne)
    have := congrArg Prod.fst (hag.trans hspec)
    simp only [atNode, Side.sync_table] at this
    rw [hrow] at this; cases this

end Piko
