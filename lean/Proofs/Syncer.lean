import PikoModel.Cluster.Syncer
import PikoModel.Gossip.Watch
/-!
# The syncer folds watcher notifications into (pending, routing table) — lemmas for C04

`PikoModel/Cluster/Syncer.lean` is the model.  This file
* proves `strings.CutPrefix` / `strconv.Atoi` facts (`atoi_toString_nat`: Atoi ∘ Itoa = id);
* defines the fold of watcher events `WView` (C14's fold: per remembered node the visible
  key/value map and the left/unreachable flags, plus the ghost bit `dropped`);
* localises `syncStep` to the one node an event names (`upd_syncStep`: nothing else changes,
  and that node changes as `nsyncStep` says), which needs the invariant `PendOK`;
* proves the per-node relation `Rel` between (row, pending entry) and the fold is preserved by
  every admissible notification (`rel_step`), hence by every history (`inv_run`, `table_spec`).
-/
namespace Piko
namespace SyncerSpec
open Cluster
open Gossip (Event)

/-! ## `strings.CutPrefix` and `strconv.Atoi` facts -/

theorem cutPrefixL_append (p x : List Char) : cutPrefixL p (p ++ x) = some x := by
  induction p with
  | nil => cases x <;> rfl
  | cons a p ih => simp [cutPrefixL, ih]

theorem cutPrefixL_some {p s x : List Char} (h : cutPrefixL p s = some x) : s = p ++ x := by
  induction p generalizing s with
  | nil => cases s <;> simp_all [cutPrefixL]
  | cons a p ih =>
    cases s with
    | nil => simp [cutPrefixL] at h
    | cons b s =>
      by_cases hab : a = b
      · subst hab
        simp only [cutPrefixL, if_true] at h
        simp [ih h]
      · simp [cutPrefixL, hab] at h

theorem cutPrefix_append (p x : String) : cutPrefix p (p ++ x) = some x := by
  simp [cutPrefix, String.toList_append, cutPrefixL_append, String.ofList_toList]

theorem cutPrefix_some {p s x : String} (h : cutPrefix p s = some x) : s = p ++ x := by
  unfold cutPrefix at h
  cases hc : cutPrefixL p.toList s.toList with
  | none => simp [hc] at h
  | some l =>
    simp [hc] at h
    apply String.toList_injective
    rw [String.toList_append, cutPrefixL_some hc, ← h, String.toList_ofList]

/-- the gossip key under which endpoint `e` is advertised -/
def epKey (e : String) : String := endpointPrefix ++ e

theorem epKey_inj {e e' : String} (h : epKey e = epKey e') : e = e' := by
  have := congrArg String.toList h
  simp [epKey, String.toList_append] at this
  exact String.toList_injective this

@[simp] theorem cutPrefix_epKey (e : String) : cutPrefix endpointPrefix (epKey e) = some e :=
  cutPrefix_append _ _

theorem eq_epKey_of_cutPrefix {k e : String} (h : cutPrefix endpointPrefix k = some e) : k = epKey e :=
  cutPrefix_some h

theorem ne_epKey_of_cutPrefix_none {k : String} (h : cutPrefix endpointPrefix k = none) (e : String) :
    k ≠ epKey e := by
  intro hk; subst hk; simp at h

theorem cutPrefix_proxy : cutPrefix endpointPrefix proxyAddrKey = none := by decide
theorem cutPrefix_admin : cutPrefix endpointPrefix adminAddrKey = none := by decide
theorem proxy_ne_admin : proxyAddrKey ≠ adminAddrKey := by decide

theorem proxy_ne_epKey (e : String) : proxyAddrKey ≠ epKey e := ne_epKey_of_cutPrefix_none cutPrefix_proxy e
theorem admin_ne_epKey (e : String) : adminAddrKey ≠ epKey e := ne_epKey_of_cutPrefix_none cutPrefix_admin e

theorem digitsVal_append (l : List Char) (c : Char) :
    digitsVal (l ++ [c]) = digitsVal l * 10 + (c.toNat - 48) := by
  simp [digitsVal, List.foldl_append]

theorem digitChar_val : ∀ d, d < 10 → (Nat.digitChar d).toNat - 48 = d := by decide

theorem digitsVal_toDigits (n : Nat) : digitsVal (Nat.toDigits 10 n) = n := by
  induction n using Nat.strongRecOn with
  | _ n ih =>
    by_cases h : n < 10
    · rw [Nat.toDigits_of_lt_base h]
      simp [digitsVal, digitChar_val n h]
    · have hq : 0 < n / 10 := by omega
      have hd : n % 10 < 10 := Nat.mod_lt _ (by omega)
      have := @Nat.toDigits_append_toDigits 10 (n / 10) (n % 10) (by omega) hq hd
      rw [Nat.toDigits_of_lt_base hd] at this
      have hn : 10 * (n / 10) + n % 10 = n := Nat.div_add_mod n 10
      rw [hn] at this
      rw [← this, digitsVal_append, ih (n / 10) (by omega), digitChar_val _ hd]
      omega

/-- `strconv.Atoi(strconv.Itoa(n)) = n` for the non-negative counts an owner publishes -/
theorem atoi_toString_nat (n : Nat) (h : n < 2 ^ 63) : atoi (toString n) = some (n : Int) := by
  have hl : (toString n).toList = Nat.toDigits 10 n := Nat.toList_repr
  unfold atoi
  rw [hl]
  have hne : Nat.toDigits 10 n ≠ [] := Nat.toDigits_ne_nil
  have hall : ∀ c ∈ Nat.toDigits 10 n, c.isDigit = true :=
    fun c hc => Nat.isDigit_of_mem_toDigits (by omega) (by omega) hc
  cases hd : Nat.toDigits 10 n with
  | nil => exact absurd hd hne
  | cons c r =>
    have hc : c.isDigit = true := hall c (by rw [hd]; simp)
    have h1 : c ≠ '+' := by intro e; subst e; revert hc; decide
    have h2 : c ≠ '-' := by intro e; subst e; revert hc; decide
    simp only [atoiL, h1, h2, if_false]
    have hall' : (c :: r).all Char.isDigit = true := by
      rw [List.all_eq_true]; intro x hx; exact hall x (by rw [hd]; exact hx)
    have hv : digitsVal (c :: r) = n := by rw [← hd]; exact digitsVal_toDigits n
    simp [atoiU, hall', hv, h]


/-! ## The fold of watcher events (`WView`) -/

/-- what the notifications received so far say about one remembered node: its visible
key/value map and its flags (C14's fold), plus one ghost bit: `dropped` = a `leave` was
announced at a moment when not both addresses were visible with non-empty values. -/
structure NView where
  kv : AMap String String := []
  left : Bool := false
  unreach : Bool := false
  dropped : Bool := false
deriving Repr, DecidableEq

abbrev WView := AMap String NView

/-- the visible value of an address key, `""` when the key is not visible -/
def NView.addr (nv : NView) (k : String) : String := (nv.kv.find k).getD ""

/-- both `proxy_addr` and `admin_addr` are visible with non-empty values -/
def NView.bothAddr (nv : NView) : Bool :=
  decide (nv.addr proxyAddrKey ≠ "") && decide (nv.addr adminAddrKey ≠ "")

/-- routing status the flags stand for -/
def NView.status (nv : NView) : Status :=
  if nv.left then .left else if nv.unreach then .unreachable else .active

/-- a watcher event without the node id -/
inductive NEv
  | join | leave | reachable | unreachable | expired
  | upsert (k v : String) | delete (k : String)
deriving DecidableEq, Repr

def evNode : Event → String
  | .join id | .leave id | .reachable id | .unreachable id | .expired id => id
  | .upsert id _ _ | .delete id _ => id

def evKind : Event → NEv
  | .join _ => .join | .leave _ => .leave | .reachable _ => .reachable
  | .unreachable _ => .unreachable | .expired _ => .expired
  | .upsert _ k v => .upsert k v | .delete _ k => .delete k

/-- one node's fold step; events of a node that is not remembered are ignored -/
def nviewStep : Option NView → NEv → Option NView
  | _, .join => some {}
  | none, _ => none
  | some nv, .leave => some { nv with left := true, dropped := nv.dropped || !nv.bothAddr }
  | some nv, .reachable => some { nv with unreach := false }
  | some nv, .unreachable => some { nv with unreach := true }
  | some _, .expired => none
  | some nv, .upsert k v => some { nv with kv := nv.kv.insert k v }
  | some nv, .delete k => some { nv with kv := nv.kv.erase k }

def viewStep (v : WView) (e : Event) : WView :=
  match nviewStep (v.find (evNode e)) (evKind e) with
  | some nv => v.insert (evNode e) nv
  | none => v.erase (evNode e)

/-- the fold of a list of watcher events, from the empty view -/
def foldFrom (v : WView) (evs : List Event) : WView := evs.foldl viewStep v
def foldEvents (evs : List Event) : WView := foldFrom [] evs

theorem find_viewStep (v : WView) (e : Event) (a : String) :
    (viewStep v e).find a = if evNode e = a then nviewStep (v.find a) (evKind e) else v.find a := by
  unfold viewStep
  by_cases h : evNode e = a
  · subst h
    cases hn : nviewStep (v.find (evNode e)) (evKind e) <;> simp
  · cases hn : nviewStep (v.find (evNode e)) (evKind e) <;>
      simp [h, AMap.find_insert, AMap.find_erase]

/-! ## The syncer seen from one node id -/

/-- the table-first-then-pending shape on one node's `(table row, pending entry)` -/
def tepN (tp : Option Node × Option Node) (ft fp : Node → Option Node) : Option Node × Option Node :=
  match tp with
  | (some r, p) => (ft r, p)
  | (none, some n) => (none, fp n)
  | (none, none) => (none, none)

def upsertPendingN (tp : Option Node × Option Node) (k v : String) : Option Node × Option Node :=
  match tp.2 with
  | none => tp
  | some n =>
    match pendingUpsert n k v with
    | none => tp
    | some n' =>
      if n'.proxyAddr ≠ "" ∧ n'.adminAddr ≠ "" then
        (some (if n'.status = .unset then { n' with status := .active } else n'), none)
      else (tp.1, some n')

/-- what `syncStep` does to the row and pending entry of the (remote) node the event names -/
def nsyncStep (a : String) (tp : Option Node × Option Node) : NEv → Option Node × Option Node
  | .join => if tp.1.isSome then tp else if tp.2.isSome then tp else (tp.1, some { id := a })
  | .leave => tepN tp (fun r => some { r with status := .left }) (fun _ => none)
  | .reachable => tepN tp (fun r => some { r with status := .active }) (fun n => some { n with status := .active })
  | .unreachable => tepN tp (fun r => some { r with status := .unreachable })
      (fun n => some { n with status := .unreachable })
  | .expired => tepN tp (fun _ => none) (fun _ => none)
  | .upsert k v =>
    if (k = proxyAddrKey ∨ k = adminAddrKey) ∧ tp.1.isSome then tp else
    match cutPrefix endpointPrefix k with
    | some eid =>
      match atoi v with
      | none => tp
      | some l =>
        match tp.1 with
        | some r => (some { r with endpoints := r.endpoints.insert eid l }, tp.2)
        | none => upsertPendingN tp k v
    | none => upsertPendingN tp k v
  | .delete k =>
    match cutPrefix endpointPrefix k with
    | none => tp
    | some eid =>
      match tp with
      | (some r, p) => (some { r with endpoints := r.endpoints.erase eid }, p)
      | (none, some n) => (none, some { n with endpoints := n.endpoints.erase eid })
      | (none, none) => tp

/-- every pending entry is filed under its own id -/
def PendOK (s : Sync) : Prop := ∀ id n, s.pending.find id = some n → n.id = id

/-- the row and pending entry of node `a` -/
def atNode (s : Sync) (a : String) : Option Node × Option Node := (s.table.nodes.find a, s.pending.find a)

/-- `s'` differs from `s` at most at node `a`, where it holds `tp` -/
structure Upd (s s' : Sync) (a : String) (tp : Option Node × Option Node) : Prop where
  lid : s'.table.localId = s.table.localId
  tbl : ∀ x, s'.table.nodes.find x = if a = x then tp.1 else s.table.nodes.find x
  pnd : ∀ x, s'.pending.find x = if a = x then tp.2 else s.pending.find x

theorem Upd.refl (s : Sync) (a : String) : Upd s s a (atNode s a) :=
  ⟨rfl, fun x => by by_cases h : a = x <;> simp [h, atNode],
        fun x => by by_cases h : a = x <;> simp [h, atNode]⟩

theorem Upd.ofEq {s s' : Sync} {a : String} {tp tp' : Option Node × Option Node}
    (h : Upd s s' a tp) (e : tp = tp') : Upd s s' a tp' := e ▸ h

theorem updTable (s : Sync) (a : String) (r : Node) :
    Upd s { s with table := { s.table with nodes := s.table.nodes.insert a r } } a (some r, s.pending.find a) :=
  ⟨rfl, fun x => by simp [AMap.find_insert],
        fun x => by by_cases h : a = x <;> simp [h]⟩

theorem updTableErase (s : Sync) (a : String) :
    Upd s { s with table := { s.table with nodes := s.table.nodes.erase a } } a (none, s.pending.find a) :=
  ⟨rfl, fun x => by simp [AMap.find_erase],
        fun x => by by_cases h : a = x <;> simp [h]⟩

theorem updPend (s : Sync) (a : String) (n : Node) :
    Upd s { s with pending := s.pending.insert a n } a (s.table.nodes.find a, some n) :=
  ⟨rfl, fun x => by by_cases h : a = x <;> simp [h],
        fun x => by simp [AMap.find_insert]⟩

theorem updPendErase (s : Sync) (a : String) :
    Upd s { s with pending := s.pending.erase a } a (s.table.nodes.find a, none) :=
  ⟨rfl, fun x => by by_cases h : a = x <;> simp [h],
        fun x => by simp [AMap.find_erase]⟩

theorem updateRemote_eq (t : State) (a : String) (f : Node → Node) (h : a ≠ t.localId) :
    t.updateRemote a f = match t.nodes.find a with
      | none => (t, false)
      | some n => ({ t with nodes := t.nodes.insert a (f n) }, true) := by
  unfold State.updateRemote
  simp only [h, if_false]
  cases t.nodes.find a <;> rfl

theorem removeNode_eq (t : State) (a : String) (h : a ≠ t.localId) :
    t.removeNode a = match t.nodes.find a with
      | none => (t, false)
      | some _ => ({ t with nodes := t.nodes.erase a }, true) := by
  unfold State.removeNode
  simp only [h, if_false]
  cases t.nodes.find a <;> rfl

theorem upd_join (s : Sync) (a : String) (h : a ≠ s.table.localId) :
    Upd s (s.onJoin a) a (nsyncStep a (atNode s a) .join) := by
  unfold Sync.onJoin nsyncStep atNode
  simp only [h, if_false]
  by_cases h1 : (s.table.nodes.find a).isSome
  · simp only [h1, if_true]; exact Upd.refl s a
  · by_cases h2 : (s.pending.find a).isSome
    · simp only [h1, h2, if_true]; exact Upd.refl s a
    · simp only [h1, h2]; exact updPend s a _

theorem upd_status (s : Sync) (a : String) (st : Status) (h : a ≠ s.table.localId) :
    Upd s (s.tableElsePending a (·.updateRemoteStatus a st) (fun p n => p.insert a { n with status := st })) a
      (tepN (atNode s a) (fun r => some { r with status := st }) (fun n => some { n with status := st })) := by
  unfold Sync.tableElsePending State.updateRemoteStatus tepN atNode
  simp only [h, if_false]
  rw [updateRemote_eq _ _ _ h]
  cases ht : s.table.nodes.find a with
  | some r => simp only []; exact (updTable s a _).ofEq (by simp)
  | none =>
    simp only []
    cases hp : s.pending.find a with
    | some n => simp only []; exact (updPend s a _).ofEq (by simp [ht])
    | none => simp only []; exact (Upd.refl s a).ofEq (by simp [atNode, ht, hp])

theorem upd_leave (s : Sync) (a : String) (h : a ≠ s.table.localId) :
    Upd s (s.onLeave a) a (nsyncStep a (atNode s a) .leave) := by
  unfold Sync.onLeave Sync.tableElsePending State.updateRemoteStatus nsyncStep tepN atNode
  simp only [h, if_false]
  rw [updateRemote_eq _ _ _ h]
  cases ht : s.table.nodes.find a with
  | some r => simp only []; exact (updTable s a _).ofEq (by simp)
  | none =>
    simp only []
    cases hp : s.pending.find a with
    | some n => simp only []; exact (updPendErase s a).ofEq (by simp [ht])
    | none => simp only []; exact (Upd.refl s a).ofEq (by simp [atNode, ht, hp])

theorem upd_expired (s : Sync) (a : String) (h : a ≠ s.table.localId) :
    Upd s (s.onExpired a) a (nsyncStep a (atNode s a) .expired) := by
  unfold Sync.onExpired Sync.tableElsePending nsyncStep tepN atNode
  simp only [h, if_false]
  rw [removeNode_eq _ _ h]
  cases ht : s.table.nodes.find a with
  | some r => simp only []; exact (updTableErase s a).ofEq (by simp)
  | none =>
    simp only []
    cases hp : s.pending.find a with
    | some n => simp only []; exact (updPendErase s a).ofEq (by simp [ht])
    | none => simp only []; exact (Upd.refl s a).ofEq (by simp [atNode, ht, hp])


theorem upd_reachable (s : Sync) (a : String) (h : a ≠ s.table.localId) :
    Upd s (s.onReachable a) a (nsyncStep a (atNode s a) .reachable) := upd_status s a .active h

theorem upd_unreachable (s : Sync) (a : String) (h : a ≠ s.table.localId) :
    Upd s (s.onUnreachable a) a (nsyncStep a (atNode s a) .unreachable) := upd_status s a .unreachable h

theorem pendingUpsert_id {n n' : Node} {k v : String} (h : pendingUpsert n k v = some n') : n'.id = n.id := by
  unfold pendingUpsert at h
  split at h
  · cases h; rfl
  · split at h
    · cases h; rfl
    · split at h
      · split at h
        · cases h
        · cases h; rfl
      · cases h

theorem updPromote (s : Sync) (a : String) (n : Node) (hid : n.id = a) (h : a ≠ s.table.localId) :
    Upd s { pending := s.pending.erase n.id, table := s.table.addNode n } a (some n, none) := by
  subst hid
  refine ⟨?_, fun x => ?_, fun x => ?_⟩
  · simp [State.addNode, h]
  · simp [State.addNode, h, AMap.find_insert]
  · simp [AMap.find_erase]

theorem upd_upsertPending (s : Sync) (a k v : String) (h : a ≠ s.table.localId) (hp : PendOK s) :
    Upd s (s.upsertPending a k v) a (upsertPendingN (atNode s a) k v) := by
  unfold Sync.upsertPending upsertPendingN atNode
  cases hf : s.pending.find a with
  | none => simp only []; exact (Upd.refl s a).ofEq (by simp [atNode, hf])
  | some n =>
    simp only []
    cases hu : pendingUpsert n k v with
    | none => simp only []; exact (Upd.refl s a).ofEq (by simp [atNode, hf])
    | some n' =>
      simp only []
      have hid : n'.id = a := by rw [pendingUpsert_id hu]; exact hp a n hf
      by_cases hb : n'.proxyAddr ≠ "" ∧ n'.adminAddr ≠ ""
      · rw [if_pos hb, if_pos hb]
        apply updPromote s a _ _ h
        split <;> simp [hid]
      · rw [if_neg hb, if_neg hb]
        exact updPend s a n'

theorem upd_upsert (s : Sync) (a k v : String) (h : a ≠ s.table.localId) (hp : PendOK s) :
    Upd s (s.onUpsertKey a k v) a (nsyncStep a (atNode s a) (.upsert k v)) := by
  unfold Sync.onUpsertKey nsyncStep
  simp only [h, if_false]
  by_cases hg : (k = proxyAddrKey ∨ k = adminAddrKey) ∧ (s.table.nodes.find a).isSome
  · have hg' : (k = proxyAddrKey ∨ k = adminAddrKey) ∧ (atNode s a).1.isSome := hg
    simp only [hg, hg', and_self, if_true]; exact Upd.refl s a
  · have hg' : ¬ ((k = proxyAddrKey ∨ k = adminAddrKey) ∧ (atNode s a).1.isSome) := hg
    simp only [hg, hg', if_false]
    cases hc : cutPrefix endpointPrefix k with
    | none => simp only []; exact upd_upsertPending s a k v h hp
    | some eid =>
      simp only []
      cases ha : atoi v with
      | none => simp only []; exact Upd.refl s a
      | some l =>
        simp only []
        unfold State.updateRemoteEndpoint
        rw [updateRemote_eq _ _ _ h]
        cases ht : s.table.nodes.find a with
        | some r =>
          have : (atNode s a).1 = some r := ht
          simp only [this]
          exact (updTable s a _).ofEq (by simp [atNode])
        | none =>
          have : (atNode s a).1 = none := ht
          simp only [this]
          exact upd_upsertPending s a k v h hp

theorem upd_delete (s : Sync) (a k : String) (h : a ≠ s.table.localId) :
    Upd s (s.onDeleteKey a k) a (nsyncStep a (atNode s a) (.delete k)) := by
  unfold Sync.onDeleteKey nsyncStep
  simp only [h, if_false]
  cases hc : cutPrefix endpointPrefix k with
  | none => simp only []; exact Upd.refl s a
  | some eid =>
    simp only []
    unfold State.removeRemoteEndpoint
    rw [updateRemote_eq _ _ _ h]
    unfold atNode
    cases ht : s.table.nodes.find a with
    | some r => simp only []; exact (updTable s a _).ofEq (by simp)
    | none =>
      simp only []
      cases hf : s.pending.find a with
      | none => simp only []; exact (Upd.refl s a).ofEq (by simp [atNode, ht, hf])
      | some n => simp only []; exact (updPend s a _).ofEq (by simp [ht])

/-- a notification naming the local node id changes nothing (the guard at the top of every callback) -/
theorem syncStep_local (s : Sync) (e : Event) (h : evNode e = s.table.localId) : syncStep s e = s := by
  cases e <;> simp only [evNode] at h <;>
    simp [syncStep, Sync.onJoin, Sync.onLeave, Sync.onReachable, Sync.onUnreachable, Sync.onExpired,
      Sync.onUpsertKey, Sync.onDeleteKey, Sync.tableElsePending, h]

/-- **localisation**: a notification about remote node `a` changes the syncer at most at `a`,
and there exactly as `nsyncStep` says. -/
theorem upd_syncStep (s : Sync) (e : Event) (h : evNode e ≠ s.table.localId) (hp : PendOK s) :
    Upd s (syncStep s e) (evNode e) (nsyncStep (evNode e) (atNode s (evNode e)) (evKind e)) := by
  cases e with
  | join id => exact upd_join s id h
  | leave id => exact upd_leave s id h
  | reachable id => exact upd_reachable s id h
  | unreachable id => exact upd_unreachable s id h
  | expired id => exact upd_expired s id h
  | upsert id k v => exact upd_upsert s id k v h hp
  | delete id k => exact upd_delete s id k h


theorem nsync_pend_id (a : String) (tp : Option Node × Option Node) (ev : NEv)
    (h : ∀ m, tp.2 = some m → m.id = a) : ∀ n, (nsyncStep a tp ev).2 = some n → n.id = a := by
  obtain ⟨t, p⟩ := tp
  simp only at h
  intro n
  cases ev with
  | join =>
    simp only [nsyncStep]
    split
    · exact h n
    · split
      · exact h n
      · intro e; cases e; rfl
  | leave =>
    cases t <;> cases p <;> simp_all [nsyncStep, tepN]
    all_goals (intro e; subst e; simp_all)
  | reachable =>
    cases t <;> cases p <;> simp_all [nsyncStep, tepN]
    all_goals (intro e; subst e; simp_all)
  | unreachable =>
    cases t <;> cases p <;> simp_all [nsyncStep, tepN]
    all_goals (intro e; subst e; simp_all)
  | expired =>
    cases t <;> cases p <;> simp_all [nsyncStep, tepN]
    all_goals (intro e; subst e; simp_all)
  | upsert k v =>
    have hup : ∀ n, (upsertPendingN (t, p) k v).2 = some n → n.id = a := by
      intro n
      unfold upsertPendingN
      cases p with
      | none => simp
      | some m =>
        simp only []
        cases hu : pendingUpsert m k v with
        | none => simp only []; exact h n
        | some n' =>
          simp only []
          split
          · simp
          · intro e; cases e; rw [pendingUpsert_id hu]; exact h m rfl
    simp only [nsyncStep]
    split
    · exact h n
    · split
      · split
        · exact h n
        · split
          · exact h n
          · exact hup n
      · exact hup n
  | delete k =>
    simp only [nsyncStep]
    split
    · exact h n
    · cases t <;> cases p <;> simp_all
      all_goals (intro e; subst e; simp_all)

theorem syncStep_localId (s : Sync) (e : Event) (hp : PendOK s) :
    (syncStep s e).table.localId = s.table.localId := by
  by_cases h : evNode e = s.table.localId
  · rw [syncStep_local s e h]
  · exact (upd_syncStep s e h hp).lid

theorem pendOK_syncStep (s : Sync) (e : Event) (hp : PendOK s) : PendOK (syncStep s e) := by
  by_cases h : evNode e = s.table.localId
  · rw [syncStep_local s e h]; exact hp
  · have u := upd_syncStep s e h hp
    intro x n hx
    rw [u.pnd x] at hx
    by_cases hax : evNode e = x
    · subst hax
      simp only [if_true] at hx
      exact nsync_pend_id _ _ _ (fun m hm => hp _ m hm) n hx
    · simp only [hax, if_false] at hx
      exact hp x n hx

theorem pendOK_new (l : Node) : PendOK (Sync.new l) := by
  intro id n h; simp [Sync.new] at h

theorem run_invariants (s : Sync) (evs : List Event) (hp : PendOK s) :
    PendOK (s.run evs) ∧ (s.run evs).table.localId = s.table.localId := by
  induction evs generalizing s with
  | nil => exact ⟨hp, rfl⟩
  | cons e es ih =>
    have := ih (syncStep s e) (pendOK_syncStep s e hp)
    simp only [Sync.run, List.foldl_cons] at this ⊢
    exact ⟨this.1, this.2.trans (syncStep_localId s e hp)⟩

/-! ## The relation between the fold and the syncer, node by node -/

/-- `eps` lists exactly the endpoints whose key is visible: a key that is not visible has no
entry; a visible key whose value `Atoi` parses to `n` has the entry `n`.  (A visible key whose
value does **not** parse says nothing: the callback returned early and the entry is whatever
it was — see `C04_unparsable_count_keeps_old`.) -/
def EpSpec (eps : AMap String Int) (kv : AMap String String) : Prop :=
  ∀ eid, match kv.find (epKey eid) with
    | none => eps.find eid = none
    | some val => ∀ n, atoi val = some n → eps.find eid = some n

/-- the status a pending node carries: `unreachable` iff the flag is set, otherwise still
undecided (`""`) or `active` (after a `reachable`) — both become `active` on promotion -/
def PendStatus (st : Status) (unreach : Bool) : Prop :=
  if unreach then st = .unreachable else (st = .unset ∨ st = .active)

structure RowSpec (a : String) (row : Node) (nv : NView) : Prop where
  id : row.id = a
  proxy : row.proxyAddr = nv.addr proxyAddrKey
  admin : row.adminAddr = nv.addr adminAddrKey
  status : row.status = nv.status
  eps : EpSpec row.endpoints nv.kv

structure PendSpec (a : String) (pn : Node) (nv : NView) : Prop where
  id : pn.id = a
  proxy : pn.proxyAddr = nv.addr proxyAddrKey
  admin : pn.adminAddr = nv.addr adminAddrKey
  notLeft : nv.left = false
  status : PendStatus pn.status nv.unreach
  eps : EpSpec pn.endpoints nv.kv

/-- **the C04 relation for one remote node**: `tp` = (routing-table row, pending entry),
`ov` = what the fold of the notifications says about the node. -/
def Rel (a : String) (tp : Option Node × Option Node) : Option NView → Prop
  | none => tp = (none, none)
  | some nv =>
    if nv.dropped then tp = (none, none)
    else if nv.bothAddr then ∃ row, tp = (some row, none) ∧ RowSpec a row nv
    else ∃ pn, tp = (none, some pn) ∧ PendSpec a pn nv

/-- C14's well-formedness for one node: `join` only for a node that is not remembered, every
other notification only for a remembered node (between its `join` and its `expired`). -/
def WFn (ov : Option NView) : NEv → Prop
  | .join => ov = none
  | _ => ov.isSome = true

/-- the gossip layer emits no `reachable`/`unreachable` for a node that has left
(`UpdateLiveness` skips left nodes) -/
def LiveOKn : Option NView → NEv → Prop
  | some nv, .reachable => nv.left = false
  | some nv, .unreachable => nv.left = false
  | _, _ => True

/-- owners never change or delete their addresses once both are published: address keys are
never deleted, and an address key announced again while both addresses are visible
(non-empty) carries the visible value (a re-versioned copy after the owner compacted). -/
def AddrOKn : Option NView → NEv → Prop
  | _, .delete k => k ≠ proxyAddrKey ∧ k ≠ adminAddrKey
  | some nv, .upsert k v => (k = proxyAddrKey ∨ k = adminAddrKey) → nv.bothAddr = true → nv.kv.find k = some v
  | _, _ => True

instance (ov : Option NView) (ev : NEv) : Decidable (WFn ov ev) := by
  unfold WFn; split <;> infer_instance
instance (ov : Option NView) (ev : NEv) : Decidable (LiveOKn ov ev) := by
  unfold LiveOKn; split <;> infer_instance
instance (ov : Option NView) (ev : NEv) : Decidable (AddrOKn ov ev) := by
  unfold AddrOKn; split <;> infer_instance

/-! ### `EpSpec` under the key/value changes -/

theorem epSpec_nil : EpSpec [] [] := by intro eid; simp

theorem epSpec_congr {eps : AMap String Int} {kv kv' : AMap String String}
    (h : ∀ eid, kv'.find (epKey eid) = kv.find (epKey eid)) (hs : EpSpec eps kv) : EpSpec eps kv' := by
  intro eid; rw [h eid]; exact hs eid

theorem epSpec_insert_other {eps : AMap String Int} {kv : AMap String String} {k : String} (v : String)
    (hk : ∀ eid, k ≠ epKey eid) (hs : EpSpec eps kv) : EpSpec eps (kv.insert k v) :=
  epSpec_congr (fun eid => AMap.find_insert_ne kv v (fun e => hk eid e.symm)) hs

theorem epSpec_erase_other {eps : AMap String Int} {kv : AMap String String} {k : String}
    (hk : ∀ eid, k ≠ epKey eid) (hs : EpSpec eps kv) : EpSpec eps (kv.erase k) :=
  epSpec_congr (fun eid => AMap.find_erase_ne kv (fun e => hk eid e.symm)) hs

theorem epSpec_upsert {eps : AMap String Int} {kv : AMap String String} (eid v : String) (l : Int)
    (ha : atoi v = some l) (hs : EpSpec eps kv) : EpSpec (eps.insert eid l) (kv.insert (epKey eid) v) := by
  intro e
  by_cases he : eid = e
  · subst he
    simp only [AMap.find_insert_self]
    intro n hn; rw [ha] at hn; cases hn; rfl
  · have hk : epKey e ≠ epKey eid := fun h => he (epKey_inj h).symm
    rw [AMap.find_insert_ne kv v hk, AMap.find_insert_ne eps l (fun h => he h.symm)]
    exact hs e

theorem epSpec_upsert_unparsed {eps : AMap String Int} {kv : AMap String String} (eid v : String)
    (ha : atoi v = none) (hs : EpSpec eps kv) : EpSpec eps (kv.insert (epKey eid) v) := by
  intro e
  by_cases he : eid = e
  · subst he
    simp only [AMap.find_insert_self]
    intro n hn; rw [ha] at hn; cases hn
  · have hk : epKey e ≠ epKey eid := fun h => he (epKey_inj h).symm
    rw [AMap.find_insert_ne kv v hk]
    exact hs e

theorem epSpec_delete {eps : AMap String Int} {kv : AMap String String} (eid : String)
    (hs : EpSpec eps kv) : EpSpec (eps.erase eid) (kv.erase (epKey eid)) := by
  intro e
  by_cases he : eid = e
  · subst he; simp
  · have hk : epKey e ≠ epKey eid := fun h => he (epKey_inj h).symm
    rw [AMap.find_erase_ne kv hk, AMap.find_erase_ne eps (fun h => he h.symm)]
    exact hs e

/-! ### `Rel` case lemmas -/

theorem rel_dropped {a : String} {tp : Option Node × Option Node} {nv : NView} (h : nv.dropped = true) :
    Rel a tp (some nv) ↔ tp = (none, none) := by simp [Rel, h]

theorem rel_both {a : String} {tp : Option Node × Option Node} {nv : NView}
    (hd : nv.dropped = false) (hb : nv.bothAddr = true) :
    Rel a tp (some nv) ↔ ∃ row, tp = (some row, none) ∧ RowSpec a row nv := by simp [Rel, hd, hb]

theorem rel_pend {a : String} {tp : Option Node × Option Node} {nv : NView}
    (hd : nv.dropped = false) (hb : nv.bothAddr = false) :
    Rel a tp (some nv) ↔ ∃ pn, tp = (none, some pn) ∧ PendSpec a pn nv := by simp [Rel, hd, hb]

theorem rel_cases {a : String} {tp : Option Node × Option Node} {nv : NView} (hr : Rel a tp (some nv)) :
    (nv.dropped = true ∧ tp = (none, none)) ∨
    (nv.dropped = false ∧ nv.bothAddr = true ∧ ∃ row, tp = (some row, none) ∧ RowSpec a row nv) ∨
    (nv.dropped = false ∧ nv.bothAddr = false ∧ ∃ pn, tp = (none, some pn) ∧ PendSpec a pn nv) := by
  cases hd : nv.dropped with
  | true => exact Or.inl ⟨rfl, (rel_dropped hd).mp hr⟩
  | false =>
    cases hb : nv.bothAddr with
    | true => exact Or.inr (Or.inl ⟨rfl, rfl, (rel_both hd hb).mp hr⟩)
    | false => exact Or.inr (Or.inr ⟨rfl, rfl, (rel_pend hd hb).mp hr⟩)

def setEps (g : AMap String Int → AMap String Int) (n : Node) : Node := { n with endpoints := g n.endpoints }

theorem bothAddr_congr {nv nv' : NView}
    (hp : nv'.kv.find proxyAddrKey = nv.kv.find proxyAddrKey)
    (hq : nv'.kv.find adminAddrKey = nv.kv.find adminAddrKey) : nv'.bothAddr = nv.bothAddr := by
  unfold NView.bothAddr NView.addr; rw [hp, hq]

/-- a change of the visible map that keeps both address keys, together with the matching
change `g` of the listed endpoints, keeps `Rel` -/
theorem rel_ep_change {a : String} {tp : Option Node × Option Node} {nv : NView}
    (g : AMap String Int → AMap String Int) (kv' : AMap String String)
    (hp : kv'.find proxyAddrKey = nv.kv.find proxyAddrKey)
    (hq : kv'.find adminAddrKey = nv.kv.find adminAddrKey)
    (he : ∀ eps, EpSpec eps nv.kv → EpSpec (g eps) kv')
    (hr : Rel a tp (some nv)) :
    Rel a (tp.1.map (setEps g), tp.2.map (setEps g)) (some { nv with kv := kv' }) := by
  obtain ⟨kv, l, u, d⟩ := nv
  simp only at hp hq he ⊢
  have hap : (⟨kv', l, u, d⟩ : NView).addr proxyAddrKey = (⟨kv, l, u, d⟩ : NView).addr proxyAddrKey := by
    simp [NView.addr, hp]
  have haq : (⟨kv', l, u, d⟩ : NView).addr adminAddrKey = (⟨kv, l, u, d⟩ : NView).addr adminAddrKey := by
    simp [NView.addr, hq]
  have hbb : (⟨kv', l, u, d⟩ : NView).bothAddr = (⟨kv, l, u, d⟩ : NView).bothAddr :=
    bothAddr_congr hp hq
  rcases rel_cases hr with ⟨hd, e⟩ | ⟨hd, hb, row, e, rs⟩ | ⟨hd, hb, pn, e, ps⟩
  · simp only at hd; subst hd; subst e
    rw [rel_dropped rfl]; rfl
  · simp only at hd; subst hd; subst e
    rw [rel_both rfl (hbb.trans hb)]
    exact ⟨setEps g row, rfl, ⟨rs.id, by rw [hap]; exact rs.proxy, by rw [haq]; exact rs.admin, rs.status, he _ rs.eps⟩⟩
  · simp only at hd; subst hd; subst e
    rw [rel_pend rfl (hbb.trans hb)]
    exact ⟨setEps g pn, rfl, ⟨ps.id, by rw [hap]; exact ps.proxy, by rw [haq]; exact ps.admin, ps.notLeft, ps.status, he _ ps.eps⟩⟩

theorem setEps_id (n : Node) : setEps (fun x => x) n = n := rfl

/-- special case: the listed endpoints do not change -/
theorem rel_kv_change {a : String} {tp : Option Node × Option Node} {nv : NView} (kv' : AMap String String)
    (hp : kv'.find proxyAddrKey = nv.kv.find proxyAddrKey)
    (hq : kv'.find adminAddrKey = nv.kv.find adminAddrKey)
    (he : ∀ eps, EpSpec eps nv.kv → EpSpec eps kv')
    (hr : Rel a tp (some nv)) : Rel a tp (some { nv with kv := kv' }) := by
  have := rel_ep_change (fun x => x) kv' hp hq he hr
  have e : (tp.1.map (setEps fun x => x), tp.2.map (setEps fun x => x)) = tp := by
    obtain ⟨t, p⟩ := tp
    cases t <;> cases p <;> rfl
  rw [e] at this; exact this

/-! ### one step of one node -/

theorem rel_step_join (a : String) (tp : Option Node × Option Node) (hr : Rel a tp none) :
    Rel a (nsyncStep a tp .join) (nviewStep none .join) := by
  have e : tp = (none, none) := hr
  subst e
  have hb : ({} : NView).bothAddr = false := by simp [NView.bothAddr, NView.addr]
  show Rel a _ (some {})
  rw [rel_pend rfl hb]
  refine ⟨{ id := a }, by simp [nsyncStep], ⟨rfl, ?_, ?_, rfl, ?_, ?_⟩⟩
  · simp [NView.addr]
  · simp [NView.addr]
  · simp [PendStatus]
  · exact epSpec_nil

theorem rel_step_leave (a : String) (tp : Option Node × Option Node) (nv : NView) (hr : Rel a tp (some nv)) :
    Rel a (nsyncStep a tp .leave) (nviewStep (some nv) .leave) := by
  obtain ⟨kv, l, u, d⟩ := nv
  rcases rel_cases hr with ⟨hd, e⟩ | ⟨hd, hb, row, e, rs⟩ | ⟨hd, hb, pn, e, ps⟩
  · simp only at hd; subst hd; subst e
    show Rel a _ (some _)
    rw [rel_dropped (by simp)]; rfl
  · simp only at hd; subst hd; subst e
    show Rel a _ (some ⟨kv, true, u, false || !(NView.bothAddr ⟨kv, l, u, false⟩)⟩)
    rw [hb]
    have hb' : (⟨kv, true, u, false⟩ : NView).bothAddr = true := hb
    rw [rel_both (by simp) (by simpa using hb')]
    exact ⟨{ row with status := .left }, rfl, ⟨rs.id, rs.proxy, rs.admin, by simp [NView.status], rs.eps⟩⟩
  · simp only at hd; subst hd; subst e
    show Rel a _ (some ⟨kv, true, u, false || !(NView.bothAddr ⟨kv, l, u, false⟩)⟩)
    rw [hb]
    rw [rel_dropped (by simp)]; rfl

/-- `reachable` (`b = false`, status `active`) and `unreachable` (`b = true`) -/
theorem rel_step_live (a : String) (tp : Option Node × Option Node) (nv : NView) (b : Bool) (st : Status)
    (hst : st = if b then .unreachable else .active)
    (hr : Rel a tp (some nv)) (hl : nv.left = false) :
    Rel a (tepN tp (fun r => some { r with status := st }) (fun n => some { n with status := st }))
      (some { nv with unreach := b }) := by
  obtain ⟨kv, l, u, d⟩ := nv
  simp only at hl; subst hl
  rcases rel_cases hr with ⟨hd, e⟩ | ⟨hd, hb, row, e, rs⟩ | ⟨hd, hb, pn, e, ps⟩
  · simp only at hd; subst hd; subst e
    rw [rel_dropped rfl]; rfl
  · simp only at hd; subst hd; subst e
    have hb' : (⟨kv, false, b, false⟩ : NView).bothAddr = true := hb
    rw [rel_both rfl hb']
    refine ⟨{ row with status := st }, rfl, ⟨rs.id, rs.proxy, rs.admin, ?_, rs.eps⟩⟩
    cases b <;> simp [NView.status, hst]
  · simp only at hd; subst hd; subst e
    have hb' : (⟨kv, false, b, false⟩ : NView).bothAddr = false := hb
    rw [rel_pend rfl hb']
    refine ⟨{ pn with status := st }, rfl, ⟨ps.id, ps.proxy, ps.admin, rfl, ?_, ps.eps⟩⟩
    cases b <;> simp [PendStatus, hst]

theorem rel_step_expired (a : String) (tp : Option Node × Option Node) (nv : NView) (hr : Rel a tp (some nv)) :
    Rel a (nsyncStep a tp .expired) (nviewStep (some nv) .expired) := by
  show nsyncStep a tp .expired = (none, none)
  rcases rel_cases hr with ⟨_, e⟩ | ⟨_, _, row, e, _⟩ | ⟨_, _, pn, e, _⟩ <;> subst e <;> rfl


theorem bothAddr_iff (nv : NView) :
    nv.bothAddr = true ↔ nv.addr proxyAddrKey ≠ "" ∧ nv.addr adminAddrKey ≠ "" := by
  simp [NView.bothAddr]

theorem bothAddr_false_iff (nv : NView) :
    nv.bothAddr = false ↔ ¬ (nv.addr proxyAddrKey ≠ "" ∧ nv.addr adminAddrKey ≠ "") := by
  rw [← bothAddr_iff]; simp

theorem pendingUpsert_other {n : Node} {k v : String} (h1 : k ≠ proxyAddrKey) (h2 : k ≠ adminAddrKey)
    (hc : cutPrefix endpointPrefix k = none) : pendingUpsert n k v = none := by
  simp [pendingUpsert, h1, h2, hc]

theorem pendingUpsert_ep {n : Node} {k v eid : String} {l : Int}
    (hc : cutPrefix endpointPrefix k = some eid) (ha : atoi v = some l) :
    pendingUpsert n k v = some { n with endpoints := n.endpoints.insert eid l } := by
  have hk := eq_epKey_of_cutPrefix hc
  have h1 : k ≠ proxyAddrKey := by rw [hk]; exact fun e => proxy_ne_epKey eid e.symm
  have h2 : k ≠ adminAddrKey := by rw [hk]; exact fun e => admin_ne_epKey eid e.symm
  simp [pendingUpsert, h1, h2, hc, ha]

theorem upsertPendingN_none (t : Option Node) (k v : String) : upsertPendingN (t, none) k v = (t, none) := rfl

theorem rel_step_delete (a : String) (tp : Option Node × Option Node) (nv : NView) (k : String)
    (hr : Rel a tp (some nv)) (hk : k ≠ proxyAddrKey ∧ k ≠ adminAddrKey) :
    Rel a (nsyncStep a tp (.delete k)) (nviewStep (some nv) (.delete k)) := by
  show Rel a _ (some { nv with kv := nv.kv.erase k })
  have hp : (nv.kv.erase k).find proxyAddrKey = nv.kv.find proxyAddrKey := AMap.find_erase_ne _ (Ne.symm hk.1)
  have hq : (nv.kv.erase k).find adminAddrKey = nv.kv.find adminAddrKey := AMap.find_erase_ne _ (Ne.symm hk.2)
  cases hc : cutPrefix endpointPrefix k with
  | none =>
    have e : nsyncStep a tp (.delete k) = tp := by simp [nsyncStep, hc]
    rw [e]
    exact rel_kv_change _ hp hq (fun eps h => epSpec_erase_other (ne_epKey_of_cutPrefix_none hc) h) hr
  | some eid =>
    have hke := eq_epKey_of_cutPrefix hc
    have e : nsyncStep a tp (.delete k) =
        (tp.1.map (setEps fun eps => eps.erase eid), tp.2.map (setEps fun eps => eps.erase eid)) := by
      simp only [nsyncStep, hc]
      rcases rel_cases hr with ⟨_, e⟩ | ⟨_, _, row, e, _⟩ | ⟨_, _, pn, e, _⟩ <;> subst e <;> rfl
    rw [e]
    refine rel_ep_change _ _ hp hq (fun eps h => ?_) hr
    rw [hke]; exact epSpec_delete eid h

theorem find_insert_same {m : AMap String String} {k v : String} (h : m.find k = some v) (k' : String) :
    (m.insert k v).find k' = m.find k' := by
  rw [AMap.find_insert]
  by_cases e : k = k'
  · subst e; simp [h]
  · simp [e]

theorem status_promote {st : Status} {u : Bool} {kv : AMap String String} (h : PendStatus st u) :
    (if st = .unset then Status.active else st) = (⟨kv, false, u, false⟩ : NView).status := by
  cases u
  · rcases (by simpa [PendStatus] using h : st = .unset ∨ st = .active) with e | e <;> subst e <;> simp [NView.status]
  · have e : st = .unreachable := by simpa [PendStatus] using h
    subst e; simp [NView.status]

/-- an address key announced for a pending node: stored, and the node is promoted as soon as
both addresses are non-empty (status `active` unless a flag decided otherwise) -/
theorem rel_step_upsert_addr_pend (a : String) (kv : AMap String String) (u : Bool) (pn : Node) (k v : String)
    (hka : k = proxyAddrKey ∨ k = adminAddrKey)
    (ps : PendSpec a pn ⟨kv, false, u, false⟩) :
    Rel a (nsyncStep a (none, some pn) (.upsert k v)) (some ⟨kv.insert k v, false, u, false⟩) := by
  have hcut : cutPrefix endpointPrefix k = none := by
    rcases hka with e | e <;> subst e
    · exact cutPrefix_proxy
    · exact cutPrefix_admin
  have hns : nsyncStep a (none, some pn) (.upsert k v) = upsertPendingN (none, some pn) k v := by
    simp [nsyncStep, hcut]
  rw [hns]
  have heps : EpSpec pn.endpoints (kv.insert k v) := by
    apply epSpec_insert_other v _ ps.eps
    intro eid
    rcases hka with e | e <;> subst e
    · exact proxy_ne_epKey eid
    · exact admin_ne_epKey eid
  rcases hka with e | e <;> subst e
  · -- proxy_addr
    have hpu : pendingUpsert pn proxyAddrKey v = some { pn with proxyAddr := v } := by simp [pendingUpsert]
    have hap : (⟨kv.insert proxyAddrKey v, false, u, false⟩ : NView).addr proxyAddrKey = v := by
      simp [NView.addr]
    have haq : (⟨kv.insert proxyAddrKey v, false, u, false⟩ : NView).addr adminAddrKey = pn.adminAddr := by
      rw [ps.admin]; simp [NView.addr, AMap.find_insert_ne _ _ (Ne.symm proxy_ne_admin)]
    simp only [upsertPendingN, hpu]
    by_cases hc : v ≠ "" ∧ pn.adminAddr ≠ ""
    · rw [if_pos hc]
      have hb' : (⟨kv.insert proxyAddrKey v, false, u, false⟩ : NView).bothAddr = true := by
        rw [bothAddr_iff, hap, haq]; exact hc
      rw [rel_both rfl hb']
      refine ⟨_, rfl, ⟨?_, ?_, ?_, ?_, ?_⟩⟩
      · split <;> exact ps.id
      · rw [hap]; split <;> rfl
      · rw [haq]; split <;> rfl
      · rw [← status_promote ps.status]; split <;> simp_all
      · split <;> exact heps
    · rw [if_neg hc]
      have hb' : (⟨kv.insert proxyAddrKey v, false, u, false⟩ : NView).bothAddr = false := by
        rw [bothAddr_false_iff, hap, haq]; exact hc
      rw [rel_pend rfl hb']
      exact ⟨_, rfl, ⟨ps.id, hap.symm, haq.symm, rfl, ps.status, heps⟩⟩
  · -- admin_addr
    have hpu : pendingUpsert pn adminAddrKey v = some { pn with adminAddr := v } := by
      simp [pendingUpsert, Ne.symm proxy_ne_admin]
    have hap : (⟨kv.insert adminAddrKey v, false, u, false⟩ : NView).addr proxyAddrKey = pn.proxyAddr := by
      rw [ps.proxy]; simp [NView.addr, AMap.find_insert_ne _ _ proxy_ne_admin]
    have haq : (⟨kv.insert adminAddrKey v, false, u, false⟩ : NView).addr adminAddrKey = v := by
      simp [NView.addr]
    simp only [upsertPendingN, hpu]
    by_cases hc : pn.proxyAddr ≠ "" ∧ v ≠ ""
    · rw [if_pos hc]
      have hb' : (⟨kv.insert adminAddrKey v, false, u, false⟩ : NView).bothAddr = true := by
        rw [bothAddr_iff, hap, haq]; exact hc
      rw [rel_both rfl hb']
      refine ⟨_, rfl, ⟨?_, ?_, ?_, ?_, ?_⟩⟩
      · split <;> exact ps.id
      · rw [hap]; split <;> rfl
      · rw [haq]; split <;> rfl
      · rw [← status_promote ps.status]; split <;> simp_all
      · split <;> exact heps
    · rw [if_neg hc]
      have hb' : (⟨kv.insert adminAddrKey v, false, u, false⟩ : NView).bothAddr = false := by
        rw [bothAddr_false_iff, hap, haq]; exact hc
      rw [rel_pend rfl hb']
      exact ⟨_, rfl, ⟨ps.id, hap.symm, haq.symm, rfl, ps.status, heps⟩⟩

theorem rel_step_upsert (a : String) (tp : Option Node × Option Node) (nv : NView) (k v : String)
    (hr : Rel a tp (some nv)) (ha : AddrOKn (some nv) (.upsert k v)) :
    Rel a (nsyncStep a tp (.upsert k v)) (nviewStep (some nv) (.upsert k v)) := by
  show Rel a _ (some { nv with kv := nv.kv.insert k v })
  by_cases hka : k = proxyAddrKey ∨ k = adminAddrKey
  · have hcut : cutPrefix endpointPrefix k = none := by
      rcases hka with e | e <;> subst e
      · exact cutPrefix_proxy
      · exact cutPrefix_admin
    obtain ⟨kv, l, u, d⟩ := nv
    rcases rel_cases hr with ⟨hd, e⟩ | ⟨hd, hb, row, e, rs⟩ | ⟨hd, hb, pn, e, ps⟩
    · simp only at hd; subst hd; subst e
      rw [rel_dropped rfl]
      simp [nsyncStep, hcut, upsertPendingN]
    · simp only at hd; subst hd; subst e
      have e : nsyncStep a (some row, none) (.upsert k v) = (some row, none) := by simp [nsyncStep, hka]
      rw [e]
      have hf : kv.find k = some v := ha hka hb
      exact rel_kv_change _ (find_insert_same hf _) (find_insert_same hf _)
        (fun eps h => epSpec_congr (fun eid => find_insert_same hf _) h) hr
    · simp only at hd; subst hd; subst e
      have hl : l = false := ps.notLeft
      subst hl
      exact rel_step_upsert_addr_pend a kv u pn k v hka ps
  · have h1 : k ≠ proxyAddrKey := fun e => hka (Or.inl e)
    have h2 : k ≠ adminAddrKey := fun e => hka (Or.inr e)
    have hp : (nv.kv.insert k v).find proxyAddrKey = nv.kv.find proxyAddrKey := AMap.find_insert_ne _ _ (Ne.symm h1)
    have hq : (nv.kv.insert k v).find adminAddrKey = nv.kv.find adminAddrKey := AMap.find_insert_ne _ _ (Ne.symm h2)
    cases hc : cutPrefix endpointPrefix k with
    | none =>
      have e : nsyncStep a tp (.upsert k v) = tp := by
        obtain ⟨t, p⟩ := tp
        cases p with
        | none => simp [nsyncStep, hka, hc, upsertPendingN]
        | some n => simp [nsyncStep, hka, hc, upsertPendingN, pendingUpsert_other h1 h2 hc]
      rw [e]
      exact rel_kv_change _ hp hq (fun eps h => epSpec_insert_other v (ne_epKey_of_cutPrefix_none hc) h) hr
    | some eid =>
      have hke := eq_epKey_of_cutPrefix hc
      cases hat : atoi v with
      | none =>
        have e : nsyncStep a tp (.upsert k v) = tp := by simp [nsyncStep, hka, hc, hat]
        rw [e]
        refine rel_kv_change _ hp hq (fun eps h => ?_) hr
        rw [hke]; exact epSpec_upsert_unparsed eid v hat h
      | some n =>
        have e : nsyncStep a tp (.upsert k v) =
            (tp.1.map (setEps fun eps => eps.insert eid n), tp.2.map (setEps fun eps => eps.insert eid n)) := by
          simp only [nsyncStep, hka, hc, hat]
          rcases rel_cases hr with ⟨_, e⟩ | ⟨_, _, row, e, _⟩ | ⟨_, hb, pn, e, ps⟩ <;> subst e
          · rfl
          · rfl
          · simp only [upsertPendingN, pendingUpsert_ep hc hat]
            have : ¬ (pn.proxyAddr ≠ "" ∧ pn.adminAddr ≠ "") := by
              rw [ps.proxy, ps.admin]; exact (bothAddr_false_iff nv).mp hb
            rw [if_neg this]; rfl
        rw [e]
        refine rel_ep_change _ _ hp hq (fun eps h => ?_) hr
        rw [hke]; exact epSpec_upsert eid v n hat h


/-- the three hypotheses on one notification, relative to what the fold says about its node -/
def Admissible (ov : Option NView) (ev : NEv) : Prop := WFn ov ev ∧ LiveOKn ov ev ∧ AddrOKn ov ev

theorem rel_step (a : String) (tp : Option Node × Option Node) (ov : Option NView) (ev : NEv)
    (hr : Rel a tp ov) (h : Admissible ov ev) : Rel a (nsyncStep a tp ev) (nviewStep ov ev) := by
  obtain ⟨hw, hl, ha⟩ := h
  cases ev with
  | join => have e : ov = none := hw; subst e; exact rel_step_join a tp hr
  | leave =>
    cases ov with
    | none => simp [WFn] at hw
    | some nv => exact rel_step_leave a tp nv hr
  | reachable =>
    cases ov with
    | none => simp [WFn] at hw
    | some nv => exact rel_step_live a tp nv false .active rfl hr hl
  | unreachable =>
    cases ov with
    | none => simp [WFn] at hw
    | some nv => exact rel_step_live a tp nv true .unreachable rfl hr hl
  | expired =>
    cases ov with
    | none => simp [WFn] at hw
    | some nv => exact rel_step_expired a tp nv hr
  | upsert k v =>
    cases ov with
    | none => simp [WFn] at hw
    | some nv => exact rel_step_upsert a tp nv k v hr ha
  | delete k =>
    cases ov with
    | none => simp [WFn] at hw
    | some nv => exact rel_step_delete a tp nv k hr ha

/-! ## Whole histories -/

/-- `P` holds of every notification of the list, each judged against the fold of the
notifications before it; notifications naming the local id are exempt (the syncer ignores them) -/
def Trace (P : Option NView → NEv → Prop) (localId : String) : WView → List Event → Prop
  | _, [] => True
  | v, e :: es => (evNode e = localId ∨ P (v.find (evNode e)) (evKind e)) ∧ Trace P localId (viewStep v e) es

instance decTrace (P : Option NView → NEv → Prop) [∀ o e, Decidable (P o e)] (l : String) :
    ∀ (v : WView) (evs : List Event), Decidable (Trace P l v evs)
  | _, [] => isTrue trivial
  | v, e :: es => by
    unfold Trace
    exact @instDecidableAnd _ _ _ (decTrace P l (viewStep v e) es)

theorem Trace.and {P Q : Option NView → NEv → Prop} {l : String} {v : WView} {evs : List Event}
    (hp : Trace P l v evs) (hq : Trace Q l v evs) : Trace (fun o e => P o e ∧ Q o e) l v evs := by
  induction evs generalizing v with
  | nil => trivial
  | cons e es ih =>
    refine ⟨?_, ih hp.2 hq.2⟩
    rcases hp.1 with h | h
    · exact Or.inl h
    · rcases hq.1 with h' | h'
      · exact Or.inl h'
      · exact Or.inr ⟨h, h'⟩

/-- the syncer state and the fold agree on every remote node -/
def Inv (s : Sync) (v : WView) : Prop :=
  PendOK s ∧ ∀ a, a ≠ s.table.localId → Rel a (atNode s a) (v.find a)

theorem inv_new (l : Node) : Inv (Sync.new l) [] := by
  refine ⟨pendOK_new l, fun a ha => ?_⟩
  have ha' : ¬ l.id = a := fun e => ha (by simp [Sync.new, State.new, e])
  simp [Rel, atNode, Sync.new, State.new, ha']

theorem inv_step (s : Sync) (v : WView) (e : Event) (hi : Inv s v)
    (h : evNode e = s.table.localId ∨ Admissible (v.find (evNode e)) (evKind e)) :
    Inv (syncStep s e) (viewStep v e) := by
  obtain ⟨hp, hr⟩ := hi
  refine ⟨pendOK_syncStep s e hp, fun a ha => ?_⟩
  rw [syncStep_localId s e hp] at ha
  rw [find_viewStep]
  by_cases hl : evNode e = s.table.localId
  · rw [syncStep_local s e hl]
    have : ¬ evNode e = a := fun e' => ha (e' ▸ hl)
    simp only [this, if_false]
    exact hr a ha
  · have hadm : Admissible (v.find (evNode e)) (evKind e) := h.resolve_left hl
    have u := upd_syncStep s e hl hp
    have hat : atNode (syncStep s e) a =
        if evNode e = a then nsyncStep (evNode e) (atNode s (evNode e)) (evKind e) else atNode s a := by
      unfold atNode
      rw [u.tbl a, u.pnd a]
      by_cases hx : evNode e = a <;> simp [hx, atNode]
    rw [hat]
    by_cases hx : evNode e = a
    · subst hx
      simp only [if_true]
      exact rel_step _ _ _ _ (hr _ ha) hadm
    · simp only [hx, if_false]
      exact hr a ha

theorem inv_run (s : Sync) (v : WView) (evs : List Event) (hi : Inv s v)
    (ht : Trace Admissible s.table.localId v evs) : Inv (s.run evs) (foldFrom v evs) := by
  induction evs generalizing s v with
  | nil => exact hi
  | cons e es ih =>
    have h1 := inv_step s v e hi ht.1
    have hl : (syncStep s e).table.localId = s.table.localId := syncStep_localId s e hi.1
    have := ih (syncStep s e) (viewStep v e) h1 (by rw [hl]; exact ht.2)
    simpa [Sync.run, foldFrom] using this

/-- C14's well-formedness: every key/flag notification of node `x` lies between a `join x`
and the next `expired x`; `join x` only when `x` is not remembered -/
def WellFormed (localId : String) (evs : List Event) : Prop := Trace WFn localId [] evs
/-- no `reachable`/`unreachable` notification for a node whose `leave` has been announced -/
def NoLivenessAfterLeave (localId : String) (evs : List Event) : Prop := Trace LiveOKn localId [] evs
/-- address keys are never deleted, and never change once both are visible and non-empty -/
def AddrStable (localId : String) (evs : List Event) : Prop := Trace AddrOKn localId [] evs

instance (l : String) (evs : List Event) : Decidable (WellFormed l evs) := by unfold WellFormed; infer_instance
instance (l : String) (evs : List Event) : Decidable (NoLivenessAfterLeave l evs) := by
  unfold NoLivenessAfterLeave; infer_instance
instance (l : String) (evs : List Event) : Decidable (AddrStable l evs) := by unfold AddrStable; infer_instance

theorem table_spec (l : Node) (evs : List Event)
    (hw : WellFormed l.id evs) (hl : NoLivenessAfterLeave l.id evs) (ha : AddrStable l.id evs)
    (a : String) (hne : a ≠ l.id) :
    Rel a (atNode ((Sync.new l).run evs) a) ((foldEvents evs).find a) := by
  have ht : Trace Admissible (Sync.new l).table.localId [] evs := hw.and (hl.and ha)
  have hi := inv_run (Sync.new l) [] evs (inv_new l) ht
  have hlid := (run_invariants (Sync.new l) evs (pendOK_new l)).2
  exact hi.2 a (by rw [hlid]; exact hne)

theorem dropped_imp_left_from (evs : List Event) (v : WView)
    (hv : ∀ a nv, v.find a = some nv → nv.dropped = true → nv.left = true) :
    ∀ a nv, (foldFrom v evs).find a = some nv → nv.dropped = true → nv.left = true := by
  induction evs generalizing v with
  | nil => exact hv
  | cons e es ih =>
    apply ih (viewStep v e)
    intro b nb hb hdb
    rw [find_viewStep] at hb
    by_cases hx : evNode e = b
    · simp only [hx, if_true] at hb
      cases hk : evKind e <;> rw [hk] at hb <;> cases hv' : v.find b <;> rw [hv'] at hb <;>
        simp [nviewStep] at hb <;> subst hb <;> simp_all
      all_goals (rename_i nv0; have := hv b nv0 hv'; simp_all)
    · simp only [hx, if_false] at hb
      exact hv b nb hb hdb

/-- the ghost bit is only ever set by a `leave` -/
theorem dropped_imp_left (evs : List Event) (a : String) (nv : NView)
    (h : (foldEvents evs).find a = some nv) (hd : nv.dropped = true) : nv.left = true :=
  dropped_imp_left_from evs [] (by intro a nv h; simp at h) a nv h hd

/-! ## Bridge to C14's fold (`PikoModel/Gossip/Watch.lean`) -/

/-- forget the ghost bit: C14's reconstructed node -/
def NView.toW (nv : NView) : Gossip.WNode := ⟨nv.kv, nv.left, nv.unreach⟩

/-- the C04 fold and the C14 fold agree node by node -/
def SameView (w : Gossip.WView) (v : WView) : Prop := ∀ a, w.find a = (v.find a).map NView.toW

theorem find_wmodify (w : Gossip.WView) (id : String) (f : Gossip.WNode → Gossip.WNode) (a : String) :
    (Gossip.wmodify w id f).find a = if id = a then (w.find a).map f else w.find a := by
  unfold Gossip.wmodify
  by_cases h : id = a
  · subst h
    cases hf : w.find id <;> simp [hf]
  · cases hf : w.find id <;> simp [h, AMap.find_insert]

theorem evNode_eq (e : Event) : evNode e = e.node := by cases e <;> rfl

theorem sameView_step (w : Gossip.WView) (v : WView) (e : Event) (h : SameView w v) :
    SameView (Gossip.foldEvent w e) (viewStep v e) := by
  intro a
  rw [find_viewStep]
  cases e with
  | join id =>
    simp only [Gossip.foldEvent, evNode, evKind, AMap.find_insert]
    by_cases hx : id = a <;> simp [hx, nviewStep, h a, NView.toW]
  | expired id =>
    simp only [Gossip.foldEvent, evNode, evKind, AMap.find_erase]
    by_cases hx : id = a
    · subst hx; cases hv : v.find id <;> simp [nviewStep]
    · simp [hx, h a]
  | leave id =>
    simp only [Gossip.foldEvent, evNode, evKind, find_wmodify]
    by_cases hx : id = a
    · subst hx; rw [h id]; cases hv : v.find id <;> simp [nviewStep, NView.toW]
    · simp [hx, h a]
  | reachable id =>
    simp only [Gossip.foldEvent, evNode, evKind, find_wmodify]
    by_cases hx : id = a
    · subst hx; rw [h id]; cases hv : v.find id <;> simp [nviewStep, NView.toW]
    · simp [hx, h a]
  | unreachable id =>
    simp only [Gossip.foldEvent, evNode, evKind, find_wmodify]
    by_cases hx : id = a
    · subst hx; rw [h id]; cases hv : v.find id <;> simp [nviewStep, NView.toW]
    · simp [hx, h a]
  | upsert id k x =>
    simp only [Gossip.foldEvent, evNode, evKind, find_wmodify]
    by_cases hx : id = a
    · subst hx; rw [h id]; cases hv : v.find id <;> simp [nviewStep, NView.toW]
    · simp [hx, h a]
  | delete id k =>
    simp only [Gossip.foldEvent, evNode, evKind, find_wmodify]
    by_cases hx : id = a
    · subst hx; rw [h id]; cases hv : v.find id <;> simp [nviewStep, NView.toW]
    · simp [hx, h a]

theorem sameView_fold (w : Gossip.WView) (v : WView) (evs : List Event) (h : SameView w v) :
    SameView (Gossip.foldEvents w evs) (foldFrom v evs) := by
  induction evs generalizing w v with
  | nil => exact h
  | cons e es ih => exact ih _ _ (sameView_step w v e h)

theorem wfn_of_eventOK (w : Gossip.WView) (v : WView) (e : Event) (h : SameView w v)
    (hok : Gossip.eventOK w e = true) : WFn (v.find (evNode e)) (evKind e) := by
  have hc : ∀ id, w.contains id = (v.find id).isSome := by
    intro id; simp [AMap.contains, h id]
  cases e <;> simp_all [Gossip.eventOK, WFn, evNode, evKind, Gossip.Event.node]

/-- C14's `eventsOK` (proved of every history the gossip state emits: `C14_join_first_history`)
is the well-formedness C04 needs -/
theorem wellFormed_of_eventsOK_from (localId : String) (w : Gossip.WView) (v : WView) (evs : List Event)
    (h : SameView w v) (hok : Gossip.eventsOK w evs = true) : Trace WFn localId v evs := by
  induction evs generalizing w v with
  | nil => trivial
  | cons e es ih =>
    simp only [Gossip.eventsOK, Bool.and_eq_true] at hok
    exact ⟨Or.inr (wfn_of_eventOK w v e h hok.1), ih _ _ (sameView_step w v e h) hok.2⟩

theorem sameView_nil : SameView [] [] := by intro a; simp

end SyncerSpec
end Piko
