import PikoModel.Gossip.FD
import Mathlib.Tactic.Ring
import Mathlib.Tactic.Linarith
/-!
# Lemmas about the failure detector model (`PikoModel/Gossip/FD.lean`)

`Rep N xs a` : the ring `a` of capacity `N` holds the sample list `xs` (all samples ever
added, oldest first): cursor, full flag, running sum and the slots of the last `N` samples.
`rep_add` is the induction step of every window theorem of C12.
-/
namespace Piko
namespace FD

/-! ## arithmetic on slots -/

theorem mod_ne_of_lt {N k n : Nat} (h1 : k < n) (h2 : n < k + N) : k % N ≠ n % N := by
  intro h
  have hz : (n - k) % N = 0 := Nat.sub_mod_eq_zero_of_mod_eq h.symm
  have hd : N ∣ n - k := Nat.dvd_of_mod_eq_zero hz
  have := Nat.le_of_dvd (by omega) hd
  omega

theorem succ_mod_of_ne {N n : Nat} (hN : 0 < N) (h : n % N + 1 ≠ N) : (n + 1) % N = n % N + 1 := by
  have hlt : n % N < N := Nat.mod_lt _ hN
  rw [Nat.add_mod]
  by_cases h1 : N = 1
  · subst h1; omega
  · have : 1 % N = 1 := Nat.mod_eq_of_lt (by omega)
    rw [this, Nat.mod_eq_of_lt (by omega)]

theorem succ_mod_of_eq {N n : Nat} (hN : 0 < N) (h : n % N + 1 = N) : (n + 1) % N = 0 := by
  rw [Nat.add_mod]
  by_cases h1 : N = 1
  · subst h1; omega
  · have : 1 % N = 1 := Nat.mod_eq_of_lt (by omega)
    rw [this, h, Nat.mod_self]

/-! ## the ring invariant -/

structure Rep (N : Nat) (xs : List Int) (a : ArrivalIntervals) : Prop where
  len : a.intervals.length = N
  idx : a.index = if xs.length = 0 then 0 else (xs.length - 1) % N + 1
  full : a.isFull = decide (N < xs.length)
  sum : a.sum = (lastN N xs).sum
  ring : ∀ k, k < xs.length → xs.length ≤ k + N → a.intervals[k % N]? = xs[k]?

theorem rep_new (N : Nat) : Rep N [] (newArrivalIntervals N) := by
  refine ⟨by simp [newArrivalIntervals], by simp [newArrivalIntervals], by simp [newArrivalIntervals],
    by simp [newArrivalIntervals, lastN], ?_⟩
  intro k hk; simp at hk

/-- after the wrap the cursor is `n mod N` (in range) and the flag says "`N` samples stored" -/
theorem Rep.wrap_index {N : Nat} {xs : List Int} {a : ArrivalIntervals} (hN : 0 < N)
    (h : Rep N xs a) : a.wrap.index = xs.length % N ∧ a.wrap.isFull = decide (N ≤ xs.length) ∧
      a.wrap.intervals = a.intervals ∧ a.wrap.sum = a.sum := by
  have hidx := h.idx
  have hfull := h.full
  have hlen := h.len
  unfold ArrivalIntervals.wrap
  by_cases hw : a.index = a.intervals.length
  · simp only [hw, if_true]
    rw [hlen] at hw
    by_cases h0 : xs.length = 0
    · simp [h0] at hidx; omega
    · obtain ⟨m, hm⟩ : ∃ m, xs.length = m + 1 := ⟨xs.length - 1, by omega⟩
      rw [hm] at hidx ⊢
      simp only [Nat.add_sub_cancel, Nat.succ_ne_zero, if_false] at hidx
      have hmod : m % N + 1 = N := by omega
      have hle : m % N ≤ m := Nat.mod_le _ _
      refine ⟨(succ_mod_of_eq hN hmod).symm, ?_, by simp, by simp⟩
      simp; omega
  · simp only [hw, if_false]
    rw [hlen] at hw
    refine ⟨?_, ?_, by simp, by simp⟩
    · by_cases h0 : xs.length = 0
      · simp [h0] at hidx ⊢; exact hidx
      · obtain ⟨m, hm⟩ : ∃ m, xs.length = m + 1 := ⟨xs.length - 1, by omega⟩
        rw [hm] at hidx ⊢
        simp only [Nat.add_sub_cancel, Nat.succ_ne_zero, if_false] at hidx
        have hmod : m % N + 1 ≠ N := by omega
        rw [succ_mod_of_ne hN hmod]; exact hidx
    · rw [hfull]
      by_cases h0 : xs.length = 0
      · simp [h0]; omega
      · obtain ⟨m, hm⟩ : ∃ m, xs.length = m + 1 := ⟨xs.length - 1, by omega⟩
        rw [hm] at hidx ⊢
        simp only [Nat.add_sub_cancel, Nat.succ_ne_zero, if_false] at hidx
        have hne : N ≠ m + 1 := by
          intro he
          have : m % N = m := Nat.mod_eq_of_lt (by omega)
          omega
        simp; omega

theorem lastN_sum_append_lt {N : Nat} {xs : List Int} (x : Int) (h : xs.length < N) :
    (lastN N (xs ++ [x])).sum = (lastN N xs).sum + x := by
  unfold lastN
  have h1 : (xs ++ [x]).length - N = 0 := by simp; omega
  have h2 : xs.length - N = 0 := by omega
  rw [h1, h2]; simp

theorem lastN_sum_append_ge {N : Nat} {xs : List Int} (x : Int) (hN : 0 < N) (h : N ≤ xs.length)
    (old : Int) (ho : xs[xs.length - N]? = some old) :
    (lastN N (xs ++ [x])).sum = (lastN N xs).sum - old + x := by
  unfold lastN
  have hlt : xs.length - N < xs.length := by omega
  have e1 : (xs ++ [x]).length - N = (xs.length - N) + 1 := by simp; omega
  rw [e1, List.drop_append_of_le_length (by omega), List.drop_eq_getElem_cons hlt]
  rw [List.getElem?_eq_getElem hlt] at ho
  injection ho with ho
  simp only [List.sum_append, List.sum_cons, List.sum_nil, ho]
  omega

theorem sub_mod_self' {n N : Nat} (h : N ≤ n) : (n - N) % N = n % N := by
  conv_rhs => rw [show n = (n - N) + N by omega]
  rw [Nat.add_mod_right]

/-- the induction step: `Add` on a ring that represents `xs` succeeds, its slice index is in
range, and the result represents `xs ++ [x]` -/
theorem rep_add {N : Nat} {xs : List Int} {a : ArrivalIntervals} (hN : 0 < N) (h : Rep N xs a)
    (x : Int) : a.accessIndex < N ∧ ∃ a', a.add x = .ok a' ∧ Rep N (xs ++ [x]) a' := by
  obtain ⟨hi, hf, hint, hsum⟩ := h.wrap_index hN
  have hlt : xs.length % N < N := Nat.mod_lt _ hN
  refine ⟨by unfold ArrivalIntervals.accessIndex; omega, ?_⟩
  have hin : a.wrap.index < a.wrap.intervals.length := by rw [hint, h.len, hi]; exact hlt
  unfold ArrivalIntervals.add
  rw [List.getElem?_eq_getElem hin]
  refine ⟨_, rfl, ?_⟩
  refine ⟨by simp [hint, h.len], ?_, ?_, ?_, ?_⟩
  · simp [hi]
  · simp only [hf, List.length_append, List.length_singleton]
    simp; omega
  · simp only [hf, hsum]
    by_cases hge : N ≤ xs.length
    · have hk : xs.length - N < xs.length := by omega
      have hold : a.intervals[xs.length % N]? = xs[xs.length - N]? := by
        have := h.ring (xs.length - N) hk (by omega)
        rwa [sub_mod_self' hge] at this
      have hold' : xs[xs.length - N]? = some (a.wrap.intervals[a.wrap.index]) := by
        rw [← hold, List.getElem?_eq_getElem (by rw [h.len]; exact hlt)]
        simp [hint, hi]
      rw [lastN_sum_append_ge x hN hge _ hold', h.sum]
      simp [hge]
    · rw [lastN_sum_append_lt x (by omega), h.sum]
      simp [hge]
  · intro k hk hkN
    simp only [List.length_append, List.length_singleton] at hk hkN
    simp only [hint, hi]
    by_cases hkn : k = xs.length
    · subst hkn
      rw [List.getElem?_set_self (by rw [h.len]; exact hlt)]
      simp
    · have hk' : k < xs.length := by omega
      rw [List.getElem?_set_ne (Ne.symm (mod_ne_of_lt hk' (by omega)))]
      rw [h.ring k hk' (by omega), List.getElem?_append_left hk']

/-- adding a whole list -/
def ArrivalIntervals.addAll (a : ArrivalIntervals) : List Int → Except Err ArrivalIntervals
  | [] => .ok a
  | x :: xs => match a.add x with
    | .ok a' => a'.addAll xs
    | .error e => .error e

theorem rep_addAll {N : Nat} (hN : 0 < N) (ys : List Int) :
    ∀ {xs : List Int} {a : ArrivalIntervals}, Rep N xs a →
      ∃ a', a.addAll ys = .ok a' ∧ Rep N (xs ++ ys) a' := by
  induction ys with
  | nil => intro xs a h; exact ⟨a, rfl, by simpa using h⟩
  | cons y ys ih =>
    intro xs a h
    obtain ⟨_, a1, h1, hr⟩ := rep_add hN h y
    obtain ⟨a2, h2, hr2⟩ := ih hr
    refine ⟨a2, ?_, by simpa using hr2⟩
    simp [ArrivalIntervals.addAll, h1, h2]

/-! ## consequences of the invariant -/

theorem length_lastN {α : Type} (N : Nat) (xs : List α) : (lastN N xs).length = min xs.length N := by
  unfold lastN; simp; omega

theorem Rep.size_eq {N : Nat} {xs : List Int} {a : ArrivalIntervals} (h : Rep N xs a) :
    a.size = min xs.length N := by
  unfold ArrivalIntervals.size
  rw [h.full, h.len, h.idx]
  by_cases hlt : N < xs.length
  · simp [hlt]; omega
  · simp only [hlt, decide_false, Bool.false_eq_true, if_false]
    by_cases h0 : xs.length = 0
    · simp [h0]
    · simp only [h0, if_false]
      have : (xs.length - 1) % N = xs.length - 1 := Nat.mod_eq_of_lt (by omega)
      omega

/-- `lo * length ≤ sum` when every element is at least `lo` -/
theorem sum_ge_of_forall_ge (lo : Int) (l : List Int) (h : ∀ x ∈ l, lo ≤ x) :
    lo * (l.length : Int) ≤ l.sum := by
  induction l with
  | nil => simp
  | cons y ys ih =>
    have h1 := h y (by simp)
    have h2 := ih (fun x hx => h x (by simp [hx]))
    simp only [List.length_cons, List.sum_cons]
    push_cast
    linarith

/-- `sum ≤ hi * length` when every element is at most `hi` -/
theorem sum_le_of_forall_le (hi : Int) (l : List Int) (h : ∀ x ∈ l, x ≤ hi) :
    l.sum ≤ hi * (l.length : Int) := by
  induction l with
  | nil => simp
  | cons y ys ih =>
    have h1 := h y (by simp)
    have h2 := ih (fun x hx => h x (by simp [hx]))
    simp only [List.length_cons, List.sum_cons]
    push_cast
    linarith

theorem mem_of_mem_lastN {α : Type} {N : Nat} {xs : List α} {x : α} (h : x ∈ lastN N xs) : x ∈ xs :=
  List.mem_of_mem_drop h

/-! ## samples of an arrival sequence -/

theorem length_diffs : ∀ ts : List Nat, (diffs ts).length = ts.length - 1
  | [] => rfl
  | [_] => rfl
  | a :: b :: rest => by
    simp only [diffs, List.length_cons, length_diffs (b :: rest)]
    omega

theorem length_intervalsOf (b : Int) (ts : List Nat) : (intervalsOf b ts).length = ts.length := by
  cases ts with
  | nil => rfl
  | cons t ts => simp [intervalsOf, length_diffs]

theorem diffs_append : ∀ (ts : List Nat) (hne : ts ≠ []) (t : Nat),
    diffs (ts ++ [t]) = diffs ts ++ [(t : Int) - (ts.getLast hne : Nat)]
  | [], hne, _ => absurd rfl hne
  | [a], _, t => by simp [diffs]
  | a :: b :: rest, _, t => by
    have ih := diffs_append (b :: rest) (by simp) t
    simp only [List.cons_append] at ih ⊢
    simp only [diffs, ih, List.cons_append]
    simp

theorem intervalsOf_append (b : Int) (ts : List Nat) (t : Nat) :
    intervalsOf b (ts ++ [t]) = intervalsOf b ts ++
      [match ts.getLast? with | some l => (t : Int) - (l : Int) | none => b] := by
  cases ts with
  | nil => simp [intervalsOf, diffs]
  | cons a rest =>
    have h := diffs_append (a :: rest) (by simp) t
    simp only [List.cons_append] at h
    simp only [intervalsOf, List.cons_append, h, List.getLast?_eq_some_getLast (l := a :: rest) (by simp)]

theorem diffs_drop : ∀ (k : Nat) (ts : List Nat), (diffs ts).drop k = diffs (ts.drop k)
  | 0, ts => by simp
  | k + 1, [] => by simp [diffs]
  | k + 1, [a] => by simp [diffs]
  | k + 1, a :: b :: rest => by
    simp only [diffs, List.drop_succ_cons]
    exact diffs_drop k (b :: rest)

/-- once more than `N` arrivals were seen, the window samples are the differences of the last
`N + 1` arrivals: the bootstrap sample is gone -/
theorem lastN_intervalsOf (b : Int) (N : Nat) (ts : List Nat) (h : N + 1 ≤ ts.length) :
    lastN N (intervalsOf b ts) = diffs (lastN (N + 1) ts) := by
  cases ts with
  | nil => simp at h
  | cons a rest =>
    unfold lastN
    rw [length_intervalsOf]
    simp only [intervalsOf]
    have e : (a :: rest).length - N = ((a :: rest).length - (N + 1)) + 1 := by
      simp only [List.length_cons] at h ⊢; omega
    rw [e, List.drop_succ_cons, diffs_drop]

theorem diffs_pos : ∀ (ts : List Nat), ts.Pairwise (· < ·) → ∀ x ∈ diffs ts, 0 < x
  | [], _, x, hx => by simp [diffs] at hx
  | [_], _, x, hx => by simp [diffs] at hx
  | a :: b :: rest, hp, x, hx => by
    simp only [diffs, List.mem_cons] at hx
    rcases hx with hx | hx
    · have : a < b := (List.pairwise_cons.mp hp).1 b (by simp)
      omega
    · exact diffs_pos (b :: rest) (List.pairwise_cons.mp hp).2 x hx

theorem intervalsOf_pos (b : Int) (hb : 0 < b) (ts : List Nat) (hp : ts.Pairwise (· < ·)) :
    ∀ x ∈ intervalsOf b ts, 0 < x := by
  cases ts with
  | nil => intro x hx; simp [intervalsOf] at hx
  | cons a rest =>
    intro x hx
    simp only [intervalsOf, List.mem_cons] at hx
    rcases hx with hx | hx
    · omega
    · exact diffs_pos _ hp x hx

/-! ## the window invariant -/

structure WRep (b : Int) (N : Nat) (ts : List Nat) (w : ArrivalWindow) : Prop where
  boot : w.bootstrapInterval = b
  last : w.lastTimestamp = ts.getLast?
  rep : Rep N (intervalsOf b ts) w.intervals

theorem wrep_new (b : Int) (N : Nat) : WRep b N [] (newArrivalWindow b N) :=
  ⟨rfl, rfl, rep_new N⟩

theorem wrep_add {b : Int} {N : Nat} {ts : List Nat} {w : ArrivalWindow} (hN : 0 < N)
    (h : WRep b N ts w) (t : Nat) :
    (w.add t).2 = none ∧ w.intervals.accessIndex < N ∧ WRep b N (ts ++ [t]) (w.add t).1 := by
  have hs : w.sample t = match ts.getLast? with | some l => (t : Int) - (l : Int) | none => b := by
    unfold ArrivalWindow.sample
    rw [h.last, h.boot]
    cases ts.getLast? <;> rfl
  obtain ⟨hacc, a', ha, hr⟩ := rep_add hN h.rep (w.sample t)
  unfold ArrivalWindow.add
  rw [ha]
  refine ⟨rfl, hacc, h.boot, by simp, ?_⟩
  rw [intervalsOf_append, ← hs]
  exact hr

theorem addAll_append (w : ArrivalWindow) (ts us : List Nat) :
    w.addAll (ts ++ us) = (w.addAll ts).addAll us := by
  simp [ArrivalWindow.addAll, List.foldl_append]

theorem addAll_cons (w : ArrivalWindow) (t : Nat) (ts : List Nat) :
    w.addAll (t :: ts) = (w.add t).1.addAll ts := rfl

theorem wrep_addAll {b : Int} {N : Nat} (hN : 0 < N) (us : List Nat) :
    ∀ {ts : List Nat} {w : ArrivalWindow}, WRep b N ts w → WRep b N (ts ++ us) (w.addAll us) := by
  induction us with
  | nil => intro ts w h; simpa [ArrivalWindow.addAll] using h
  | cons u us ih =>
    intro ts w h
    have := ih (wrep_add hN h u).2.2
    rw [addAll_cons]
    simpa using this

theorem wrep_windowOf (b : Int) {N : Nat} (hN : 0 < N) (ts : List Nat) :
    WRep b N ts (windowOf b N ts) := by
  have := wrep_addAll hN ts (wrep_new b N)
  simpa [windowOf] using this

theorem windowOf_append (b : Int) (N : Nat) (ts us : List Nat) :
    windowOf b N (ts ++ us) = (windowOf b N ts).addAll us := addAll_append _ _ _

/-- `Phi` of a window that represents `ts` (non-empty), in terms of the sample list only -/
theorem WRep.phi_eq {b : Int} {N : Nat} {ts : List Nat} {w : ArrivalWindow} (h : WRep b N ts w)
    (hne : ts ≠ []) (t : Nat) :
    w.phi t =
      if 0 < (lastN N (intervalsOf b ts)).sum then
        .ok { num := ((t : Int) - (ts.getLast hne : Nat)) * ((min ts.length N : Nat) : Int),
              den := (lastN N (intervalsOf b ts)).sum }
      else .error .phiBeforeSample := by
  unfold ArrivalWindow.phi
  rw [h.last, List.getLast?_eq_some_getLast hne]
  simp only [h.rep.sum, h.rep.size_eq, length_intervalsOf]

theorem window_sum_pos {b : Int} (hb : 0 < b) {N : Nat} (hN : 0 < N) {ts : List Nat}
    (hne : ts ≠ []) (hp : ts.Pairwise (· < ·)) : 0 < (lastN N (intervalsOf b ts)).sum := by
  have h1 : ∀ x ∈ lastN N (intervalsOf b ts), (1 : Int) ≤ x := fun x hx =>
    intervalsOf_pos b hb ts hp x (mem_of_mem_lastN hx)
  have h2 := sum_ge_of_forall_ge 1 _ h1
  rw [length_lastN, length_intervalsOf] at h2
  have : 0 < ts.length := List.length_pos_iff.mpr hne
  have h3 : (1 : Int) ≤ ((min ts.length N : Nat) : Int) := by
    have : 1 ≤ min ts.length N := by omega
    exact_mod_cast this
  linarith

/-! ## window-only, accuracy, completeness -/

theorem getLast?_lastN {α : Type} (n : Nat) (xs : List α) (h : 0 < n) :
    (lastN n xs).getLast? = xs.getLast? := by
  unfold lastN
  rw [List.getLast?_drop]
  by_cases h0 : xs.length = 0
  · have : xs = [] := List.length_eq_zero_iff.mp h0
    subst this; simp
  · have : ¬ xs.length ≤ xs.length - n := by omega
    simp [this]

/-- a window with at least `N + 1` arrivals is determined by its last `N + 1` arrivals -/
theorem phi_eq_of_lastN {N : Nat} (hN : 0 < N) (b₁ b₂ : Int) (ts₁ ts₂ : List Nat)
    (h1 : N + 1 ≤ ts₁.length) (h2 : N + 1 ≤ ts₂.length)
    (h : lastN (N + 1) ts₁ = lastN (N + 1) ts₂) (t : Nat) :
    (windowOf b₁ N ts₁).phi t = (windowOf b₂ N ts₂).phi t := by
  have w1 := wrep_windowOf b₁ hN ts₁
  have w2 := wrep_windowOf b₂ hN ts₂
  unfold ArrivalWindow.phi
  rw [w1.last, w2.last, w1.rep.sum, w2.rep.sum, w1.rep.size_eq, w2.rep.size_eq,
    length_intervalsOf, length_intervalsOf, lastN_intervalsOf b₁ N ts₁ h1,
    lastN_intervalsOf b₂ N ts₂ h2, h, ← getLast?_lastN (N + 1) ts₁ (by omega),
    ← getLast?_lastN (N + 1) ts₂ (by omega), h]
  have e1 : min ts₁.length N = N := by omega
  have e2 : min ts₂.length N = N := by omega
  rw [e1, e2]

theorem mem_intervalsOf_append (b : Int) (pre post : List Nat) {x : Int}
    (hx : x ∈ intervalsOf b pre) : x ∈ intervalsOf b (pre ++ post) := by
  induction post generalizing pre with
  | nil => simpa using hx
  | cons u us ih =>
    have : pre ++ u :: us = (pre ++ [u]) ++ us := by simp
    rw [this]
    apply ih
    rw [intervalsOf_append]
    exact List.mem_append_left _ hx

theorem accuracy_core (b : Int) (N : Nat) (ts : List Nat) (hN : 0 < N) (hne : ts ≠ [])
    (lo hi : Int) (θ : Nat) (hlo : 0 < lo)
    (hwin : ∀ x ∈ lastN N (intervalsOf b ts), lo ≤ x) (hθ : hi ≤ (θ : Int) * lo)
    (t : Nat) (ht : (t : Int) ≤ (ts.getLast hne : Nat) + hi) :
    ∃ p, (windowOf b N ts).phi t = .ok p ∧ p.le θ ∧ ¬ p.gt θ := by
  have hsum := sum_ge_of_forall_ge lo _ hwin
  rw [length_lastN, length_intervalsOf] at hsum
  have hlen : 0 < ts.length := List.length_pos_iff.mpr hne
  have hm : (1 : Int) ≤ ((min ts.length N : Nat) : Int) := by
    have : 1 ≤ min ts.length N := by omega
    exact_mod_cast this
  have hpos : 0 < (lastN N (intervalsOf b ts)).sum := by nlinarith
  rw [(wrep_windowOf b hN ts).phi_eq hne, if_pos hpos]
  have hle : ((t : Int) - (ts.getLast hne : Nat)) * ((min ts.length N : Nat) : Int) ≤
      (θ : Int) * (lastN N (intervalsOf b ts)).sum := by
    have h1 : ((t : Int) - (ts.getLast hne : Nat)) * ((min ts.length N : Nat) : Int) ≤
        hi * ((min ts.length N : Nat) : Int) :=
      Int.mul_le_mul_of_nonneg_right (by linarith) (by linarith)
    have h2 : hi * ((min ts.length N : Nat) : Int) ≤
        ((θ : Int) * lo) * ((min ts.length N : Nat) : Int) :=
      Int.mul_le_mul_of_nonneg_right hθ (by linarith)
    have h3 : (θ : Int) * (lo * ((min ts.length N : Nat) : Int)) ≤
        (θ : Int) * (lastN N (intervalsOf b ts)).sum :=
      Int.mul_le_mul_of_nonneg_left hsum (Int.natCast_nonneg _)
    calc _ ≤ hi * ((min ts.length N : Nat) : Int) := h1
      _ ≤ ((θ : Int) * lo) * ((min ts.length N : Nat) : Int) := h2
      _ = (θ : Int) * (lo * ((min ts.length N : Nat) : Int)) := by ring
      _ ≤ _ := h3
  refine ⟨_, rfl, hle, ?_⟩
  unfold Phi.gt
  exact not_lt.mpr hle

theorem completeness_core (b : Int) (N : Nat) (ts : List Nat) (hN : 0 < N) (hb : 0 < b)
    (hinc : ts.Pairwise (· < ·)) (hne : ts ≠ []) (θ : Nat) :
    ∃ T : Nat, (T : Int) = (θ : Int) * (lastN N (intervalsOf b ts)).sum /
        ((min ts.length N : Nat) : Int) + 1 ∧
      ∀ t : Nat, ts.getLast hne + T ≤ t →
        ∃ p, (windowOf b N ts).phi t = .ok p ∧ p.gt θ ∧ ¬ p.le θ := by
  have hpos := window_sum_pos hb hN hne hinc
  have hlen : 0 < ts.length := List.length_pos_iff.mpr hne
  have hm : (0 : Int) < ((min ts.length N : Nat) : Int) := by
    have : 0 < min ts.length N := by omega
    exact_mod_cast this
  have hq : 0 ≤ (θ : Int) * (lastN N (intervalsOf b ts)).sum / ((min ts.length N : Nat) : Int) :=
    Int.ediv_nonneg (Int.mul_nonneg (Int.natCast_nonneg _) (le_of_lt hpos)) (le_of_lt hm)
  refine ⟨((θ : Int) * (lastN N (intervalsOf b ts)).sum / ((min ts.length N : Nat) : Int) + 1).toNat,
    Int.toNat_of_nonneg (by linarith), ?_⟩
  intro t ht
  rw [(wrep_windowOf b hN ts).phi_eq hne, if_pos hpos]
  have htI : ((ts.getLast hne : Nat) : Int) +
      ((θ : Int) * (lastN N (intervalsOf b ts)).sum / ((min ts.length N : Nat) : Int) + 1) ≤ (t : Int) := by
    have : ((ts.getLast hne + ((θ : Int) * (lastN N (intervalsOf b ts)).sum /
        ((min ts.length N : Nat) : Int) + 1).toNat : Nat) : Int) ≤ (t : Int) := by exact_mod_cast ht
    rw [Nat.cast_add, Int.toNat_of_nonneg (by linarith)] at this
    exact this
  have hkey := Int.lt_ediv_add_one_mul_self ((θ : Int) * (lastN N (intervalsOf b ts)).sum) hm
  have hgt : (θ : Int) * (lastN N (intervalsOf b ts)).sum <
      ((t : Int) - (ts.getLast hne : Nat)) * ((min ts.length N : Nat) : Int) := by
    have h1 : ((θ : Int) * (lastN N (intervalsOf b ts)).sum / ((min ts.length N : Nat) : Int) + 1) *
        ((min ts.length N : Nat) : Int) ≤
        ((t : Int) - (ts.getLast hne : Nat)) * ((min ts.length N : Nat) : Int) :=
      Int.mul_le_mul_of_nonneg_right (by linarith) (le_of_lt hm)
    linarith
  refine ⟨_, rfl, hgt, ?_⟩
  unfold Phi.le
  exact not_le.mpr hgt

/-! ## the detector: a node's window is a function of its own arrivals -/

theorem find_step {b : Int} {N : Nat} (hN : 0 < N) (id : String) (d : Detector) (ts : List Nat)
    (hb : d.bootstrapInterval = b) (hs : d.sampleSize = N)
    (h : d.windows.find id = if ts = [] then none else some (windowOf b N ts)) (op : Op) :
    (d.step op).bootstrapInterval = b ∧ (d.step op).sampleSize = N ∧
    (d.step op).windows.find id =
      if arrivalsStep id ts op = [] then none else some (windowOf b N (arrivalsStep id ts op)) := by
  cases op with
  | report i t =>
    simp only [Detector.step, Detector.reportWithTimestamp, arrivalsStep]
    refine ⟨hb, hs, ?_⟩
    by_cases hi : i = id
    · subst hi
      simp only [AMap.find_insert_self, if_true, List.append_eq_nil_iff, List.cons_ne_self,
        and_false, if_false]
      rw [h, hb, hs, windowOf_append]
      by_cases hts : ts = []
      · subst hts; simp [windowOf, ArrivalWindow.addAll]
      · simp [hts, ArrivalWindow.addAll]
    · simp only [hi, if_false]
      rw [AMap.find_insert_ne _ _ (fun e => hi e.symm)]
      exact h
  | query i t =>
    simp only [Detector.step, Detector.suspicionLevelAt, arrivalsStep]
    cases hf : d.windows.find i with
    | some w =>
      refine ⟨hb, hs, ?_⟩
      by_cases hi : i = id
      · subst hi
        rw [hf] at h
        have hts : ts ≠ [] := by intro e; simp [e] at h
        simp only [hts, and_false, if_false]
        rw [hf]; simpa [hts] using h
      · simp only [hi, false_and, if_false]; exact h
    | none =>
      have hN' : 0 < d.sampleSize := hs ▸ hN
      obtain ⟨hnone, _, _⟩ := wrep_add hN' (wrep_new d.bootstrapInterval d.sampleSize) t
      have hpair : (newArrivalWindow d.bootstrapInterval d.sampleSize).add t =
          (((newArrivalWindow d.bootstrapInterval d.sampleSize).add t).1, none) :=
        Prod.ext rfl hnone
      rw [hpair]
      refine ⟨hb, hs, ?_⟩
      by_cases hi : i = id
      · subst hi
        rw [hf] at h
        have hts : ts = [] := by
          by_cases e : ts = []
          · exact e
          · simp [e] at h
        simp only [hts, and_self, if_true, AMap.find_insert_self, List.cons_ne_self, if_false]
        simp [windowOf, ArrivalWindow.addAll, hb, hs]
      · simp only [hi, false_and, if_false]
        rw [AMap.find_insert_ne _ _ (fun e => hi e.symm)]
        exact h
  | remove i =>
    simp only [Detector.step, Detector.remove, arrivalsStep]
    refine ⟨hb, hs, ?_⟩
    rw [AMap.find_erase]
    by_cases hi : i = id
    · simp [hi]
    · simp only [hi, if_false]; exact h

theorem find_run {b : Int} {N : Nat} (hN : 0 < N) (id : String) (ops : List Op) :
    ∀ (d : Detector) (ts : List Nat), d.bootstrapInterval = b → d.sampleSize = N →
      (d.windows.find id = if ts = [] then none else some (windowOf b N ts)) →
      (d.run ops).windows.find id =
        if ops.foldl (arrivalsStep id) ts = [] then none
        else some (windowOf b N (ops.foldl (arrivalsStep id) ts)) := by
  induction ops with
  | nil => intro d ts _ _ h; exact h
  | cons op ops ih =>
    intro d ts hb hs h
    obtain ⟨hb', hs', h'⟩ := find_step hN id d ts hb hs h op
    exact ih (d.step op) (arrivalsStep id ts op) hb' hs' h'

/-- the value `SuspicionLevelAt` returns, in terms of the node's arrivals -/
theorem query_phi {b : Int} {N : Nat} (hN : 0 < N) (id : String) (d : Detector) (ts : List Nat)
    (hb : d.bootstrapInterval = b) (hs : d.sampleSize = N)
    (h : d.windows.find id = if ts = [] then none else some (windowOf b N ts)) (t : Nat) :
    (d.suspicionLevelAt id t).2 = (windowOf b N (arrivalsStep id ts (Op.query id t))).phi t := by
  unfold Detector.suspicionLevelAt
  by_cases hts : ts = []
  · subst hts
    simp only [if_true] at h
    rw [h]
    have hN' : 0 < d.sampleSize := hs ▸ hN
    obtain ⟨hnone, _, _⟩ := wrep_add hN' (wrep_new d.bootstrapInterval d.sampleSize) t
    have hpair : (newArrivalWindow d.bootstrapInterval d.sampleSize).add t =
        (((newArrivalWindow d.bootstrapInterval d.sampleSize).add t).1, none) :=
      Prod.ext rfl hnone
    rw [hpair]
    simp [arrivalsStep, windowOf, ArrivalWindow.addAll, hb, hs]
  · simp only [hts, if_false] at h
    rw [h]
    simp [arrivalsStep, hts]

theorem step_params (d : Detector) (op : Op) :
    (d.step op).bootstrapInterval = d.bootstrapInterval ∧ (d.step op).sampleSize = d.sampleSize := by
  cases op with
  | report i t => exact ⟨rfl, rfl⟩
  | remove i => exact ⟨rfl, rfl⟩
  | query i t =>
    simp only [Detector.step, Detector.suspicionLevelAt]
    split
    · exact ⟨rfl, rfl⟩
    · split <;> exact ⟨rfl, rfl⟩

theorem run_params (ops : List Op) : ∀ (d : Detector),
    (d.run ops).bootstrapInterval = d.bootstrapInterval ∧ (d.run ops).sampleSize = d.sampleSize := by
  induction ops with
  | nil => intro d; exact ⟨rfl, rfl⟩
  | cons op ops ih =>
    intro d
    obtain ⟨h1, h2⟩ := ih (d.step op)
    obtain ⟨h3, h4⟩ := step_params d op
    exact ⟨h1.trans h3, h2.trans h4⟩

end FD
end Piko
