import PikoModel.Auth.Verifier
import PikoModel.Auth.Middleware
import PikoModel.Auth.Chain
/-!
# Lemmas for C09 / C10 (models: `PikoModel/Auth/*.lean`)
-/
namespace Piko
namespace Auth

/-! ## `strings.Cut` and the header form -/

theorem cutChars_some {l a b : List Char} (h : cutChars l = some (a, b)) :
    l = a ++ ' ' :: b ∧ ' ' ∉ a := by
  induction l generalizing a b with
  | nil => simp [cutChars] at h
  | cons c cs ih =>
    unfold cutChars at h
    by_cases hc : c = ' '
    · simp only [hc, if_true, Option.some.injEq, Prod.mk.injEq] at h
      obtain ⟨rfl, rfl⟩ := h
      simp [hc]
    · simp only [hc, if_false] at h
      cases hr : cutChars cs with
      | none => simp [hr] at h
      | some p =>
        obtain ⟨a', b'⟩ := p
        simp only [hr, Option.some.injEq, Prod.mk.injEq] at h
        obtain ⟨rfl, rfl⟩ := h
        obtain ⟨h1, h2⟩ := ih hr
        refine ⟨by rw [h1]; rfl, ?_⟩
        intro hm
        cases hm with
        | head => exact hc rfl
        | tail _ hm' => exact h2 hm'

theorem cutSpace_some {s a b : String} (h : cutSpace s = some (a, b)) :
    s = a ++ " " ++ b := by
  unfold cutSpace at h
  cases hc : cutChars s.toList with
  | none => simp [hc] at h
  | some p =>
    obtain ⟨x, y⟩ := p
    simp only [hc, Option.some.injEq, Prod.mk.injEq] at h
    obtain ⟨rfl, rfl⟩ := h
    obtain ⟨h1, _⟩ := cutChars_some hc
    apply String.ext
    simp only [String.toList_append, String.toList_ofList, h1]
    simp

theorem cutChars_bearer (l : List Char) :
    cutChars ('B' :: 'e' :: 'a' :: 'r' :: 'e' :: 'r' :: ' ' :: l) = some (['B', 'e', 'a', 'r', 'e', 'r'], l) := by
  simp [cutChars]

theorem bearer_toList : "Bearer ".toList = ['B', 'e', 'a', 'r', 'e', 'r', ' '] := by decide

/-- `parseToken` succeeds exactly on the form `Bearer <token>` of the chosen header -/
theorem parseToken_ok {r : Req} {ts : String} (h : parseToken r = .ok ts) :
    chosenHeader r = "Bearer " ++ ts := by
  unfold parseToken at h
  simp only at h
  by_cases h0 : chosenHeader r = ""
  · simp [h0] at h
  · simp only [h0, if_false] at h
    cases hc : cutSpace (chosenHeader r) with
    | none => simp [hc] at h
    | some p =>
      obtain ⟨a, b⟩ := p
      simp only [hc] at h
      by_cases hb : a = "Bearer"
      · simp only [hb, ne_eq, not_true_eq_false, if_false, Except.ok.injEq] at h
        rw [cutSpace_some hc, hb, h]
        rfl
      · simp [hb] at h

theorem parseToken_of_form (r : Req) (ts : String) (h : chosenHeader r = "Bearer " ++ ts) :
    parseToken r = .ok ts := by
  have hne : ¬ ("Bearer " ++ ts = "") := by
    intro he
    have := congrArg String.toList he
    rw [String.toList_append, bearer_toList] at this
    simp at this
  have hcut : cutSpace ("Bearer " ++ ts) = some ("Bearer", ts) := by
    unfold cutSpace
    rw [String.toList_append, bearer_toList]
    simp only [List.cons_append, List.nil_append, cutChars_bearer]
    simp only [String.ofList_toList]
  unfold parseToken
  simp only [h, hne, if_false, hcut]
  simp

/-! ## `JWTVerifier.Verify` -/

/-- key `k` (of Go type `t`) is one of the verification keys configuration `c` holds **and**
is the one the key function can return: a static key only when no JWKS is configured. -/
def Cfg.hasKey (c : Cfg) (k : KeyRef) (t : KeyType) : Prop :=
  match k with
  | .hmac => c.hmac = true ∧ t = .oct ∧ c.jwks = none
  | .rsa => c.rsa = true ∧ t = .rsa ∧ c.jwks = none
  | .ecdsa => c.ecdsa = true ∧ t = .ec ∧ c.jwks = none
  | .jwk kid => ∃ jwks j, c.jwks = some jwks ∧ j ∈ jwks ∧ j.kid = kid ∧ j.kty = t

theorem methods_none_iff (c : Cfg) : c.methods = none ↔ (c.hmac = false ∧ c.rsa = false ∧ c.ecdsa = false) := by
  unfold Cfg.methods
  cases c.hmac <;> cases c.rsa <;> cases c.ecdsa <;> simp

/-- what a `good` signature check means -/
theorem checkSignature_good {owner : String} {c : Cfg} {tok : TokenFacts}
    (h : checkSignature owner c tok = .good) :
    (∃ k t, tok.signer = .key owner k ∧ (algFam tok.alg).accepts t = true ∧ c.hasKey k t) ∨
    (tok.signer = .emptyHmac ∧ c.jwks = none ∧ c.hmac = false ∧ algFam tok.alg = .hs) := by
  unfold checkSignature at h
  cases hk : keyLookup c tok with
  | error => simp [hk] at h
  | nilKey => simp only [hk] at h; split at h <;> cases h
  | emptySecret =>
    right
    simp only [hk] at h
    have hs : tok.signer = .emptyHmac := by
      by_cases hs : tok.signer = .emptyHmac
      · exact hs
      · simp [hs] at h
    unfold keyLookup at hk
    cases hj : c.jwks with
    | some jw =>
      simp only [hj] at hk
      unfold jwksLookup at hk
      split at hk
      · cases hk
      · cases hk
      · split at hk
        · cases hk
        · split at hk <;> cases hk
    | none =>
      simp only [hj] at hk
      split at hk
      · rename_i halg
        split at hk
        · cases hk
        · rename_i hh
          refine ⟨hs, rfl, by simpa using hh, ?_⟩
          unfold algFam
          simp [halg]
      · split at hk
        · split at hk <;> cases hk
        · split at hk
          · split at hk <;> cases hk
          · cases hk
  | one k t =>
    left
    simp only [hk] at h
    have hs : sigOkKey owner tok k t = true := by
      by_cases hs : sigOkKey owner tok k t = true
      · exact hs
      · simp [hs] at h
    unfold sigOkKey at hs
    simp only [Bool.and_eq_true, decide_eq_true_eq] at hs
    refine ⟨k, t, hs.2, hs.1, ?_⟩
    unfold keyLookup at hk
    cases hj : c.jwks with
    | some jw =>
      simp only [hj] at hk
      unfold jwksLookup at hk
      split at hk
      · cases hk
      · cases hk
      · rename_i kid _
        split at hk
        · cases hk
        · rename_i j hf
          split at hk
          · cases hk
          · simp only [KeyLookup.one.injEq] at hk
            obtain ⟨rfl, rfl⟩ := hk
            have hm := List.mem_of_find?_eq_some hf
            exact ⟨jw, j, hj, hm, rfl, rfl⟩
    | none =>
      simp only [hj] at hk
      split at hk
      · split at hk
        · rename_i hh
          simp only [KeyLookup.one.injEq] at hk
          obtain ⟨rfl, rfl⟩ := hk
          exact ⟨hh, rfl, hj⟩
        · cases hk
      · split at hk
        · split at hk
          · rename_i hh
            simp only [KeyLookup.one.injEq] at hk
            obtain ⟨rfl, rfl⟩ := hk
            exact ⟨hh, rfl, hj⟩
          · cases hk
        · split at hk
          · split at hk
            · rename_i hh
              simp only [KeyLookup.one.injEq] at hk
              obtain ⟨rfl, rfl⟩ := hk
              exact ⟨hh, rfl, hj⟩
            · cases hk
          · cases hk
  | set ks =>
    left
    simp only [hk] at h
    split at h
    · cases h
    · have hany : ks.any (fun p => sigOkKey owner tok p.1 p.2) = true := by
        by_cases hany : ks.any (fun p => sigOkKey owner tok p.1 p.2) = true
        · exact hany
        · simp [hany] at h
      obtain ⟨p, hp, hs⟩ := List.any_eq_true.mp hany
      unfold sigOkKey at hs
      simp only [Bool.and_eq_true, decide_eq_true_eq] at hs
      refine ⟨p.1, p.2, hs.2, hs.1, ?_⟩
      unfold keyLookup at hk
      cases hj : c.jwks with
      | some jw =>
        simp only [hj] at hk
        unfold jwksLookup at hk
        split at hk
        · simp only [KeyLookup.set.injEq] at hk
          subst hk
          obtain ⟨j, hjm, rfl⟩ := List.mem_map.mp hp
          exact ⟨jw, j, hj, hjm, rfl, rfl⟩
        · cases hk
        · split at hk
          · cases hk
          · split at hk <;> cases hk
      | none =>
        simp only [hj] at hk
        split at hk
        · split at hk <;> cases hk
        · split at hk
          · split at hk <;> cases hk
          · split at hk
            · split at hk <;> cases hk
            · cases hk

theorem checkClaims_none {c : Cfg} {now : Int} {tok : TokenFacts} (h : checkClaims c now tok = none) :
    notExpired now tok = true ∧ nbfOk now tok = true ∧ audOk c.audience tok.aud = true ∧
      issOk c.issuer tok.iss = true := by
  unfold checkClaims at h
  split at h
  · cases h
  · split at h
    · cases h
    · split at h
      · cases h
      · split at h
        · cases h
        · rename_i h1 h2 h3 h4
          simp only [Bool.not_eq_true, Bool.not_eq_eq_eq_not, Bool.not_true, Bool.not_false] at h1 h2 h3 h4
          simp_all

/-- every accepted token went through all five stages -/
theorem verify_ok {owner : String} {c : Cfg} {now : Int} {tok : TokenFacts} {t : Token}
    (h : verify owner c now tok = .ok t) :
    tok.wellFormed = true ∧ c.methodAllowed tok.alg = true ∧ checkSignature owner c tok = .good ∧
    checkClaims c now tok = none ∧
    t = { expiry := if c.disableDisconnectOnExpiry then none else tok.exp,
          endpoints := tok.endpoints, tenant := "" } := by
  unfold verify at h
  split at h
  · cases h
  · split at h
    · cases h
    · split at h
      · cases h
      · rename_i h1 _ h3
        split at h
        · cases h
        · cases h
        · rename_i hs
          split at h
          · cases h
          · rename_i hc
            simp only [VResult.ok.injEq] at h
            refine ⟨by simpa using h1, by simpa using h3, hs, hc, h.symm⟩

/-- with at least one key configured, the HMAC-with-empty-secret branch is closed -/
theorem enabled_no_empty {c : Cfg} {alg : String} (he : c.enabled = true) (hj : c.jwks = none)
    (hh : c.hmac = false) (hm : c.methodAllowed alg = true) : algFam alg ≠ .hs := by
  unfold Cfg.methodAllowed Cfg.methods at hm
  unfold Cfg.enabled at he
  simp only [hj, hh, Option.isSome_none, Bool.or_false, Bool.false_or, Bool.or_eq_true] at he
  intro hf
  unfold algFam at hf
  split at hf
  · rename_i halg
    rcases he with hr | hecd
    · cases hc : c.ecdsa <;> simp [hh, hr, hc] at hm <;> rcases halg with h' | h' | h' <;> rw [h'] at hm <;> simp at hm
    · cases hc : c.rsa <;> simp [hh, hecd, hc] at hm <;> rcases halg with h' | h' | h' <;> rw [h'] at hm <;> simp at hm
  · split at hf
    · cases hf
    · split at hf
      · cases hf
      · split at hf
        · cases hf
        · split at hf
          · cases hf
          · split at hf <;> cases hf

theorem verify_sound {owner : String} {c : Cfg} {now : Int} {tok : TokenFacts} {t : Token}
    (he : c.enabled = true) (h : verify owner c now tok = .ok t) :
    tok.wellFormed = true ∧
    (∃ k kt, tok.signer = .key owner k ∧ (algFam tok.alg).accepts kt = true ∧ c.hasKey k kt) ∧
    notExpired now tok = true ∧ nbfOk now tok = true ∧ audOk c.audience tok.aud = true ∧
    issOk c.issuer tok.iss = true ∧ t.endpoints = tok.endpoints ∧ t.tenant = "" := by
  obtain ⟨h1, h2, h3, h4, h5⟩ := verify_ok h
  obtain ⟨c1, c2, c3, c4⟩ := checkClaims_none h4
  refine ⟨h1, ?_, c1, c2, c3, c4, by rw [h5], by rw [h5]⟩
  rcases checkSignature_good h3 with hk | ⟨_, hj, hh, hf⟩
  · exact hk
  · exact absurd hf (enabled_no_empty he hj hh h2)

/-- `JWTVerifier.Verify` returns only `ErrInvalidToken` and `ErrExpiredToken` -/
theorem verify_err_set (owner : String) (c : Cfg) (now : Int) (tok : TokenFacts) (e : VerifyErr)
    (h : verify owner c now tok = .err e) : e = .invalid ∨ e = .expired := by
  unfold verify at h
  split at h
  · simp only [VResult.err.injEq] at h; exact Or.inl h.symm
  · split at h
    · simp only [VResult.err.injEq] at h; exact Or.inl h.symm
    · split at h
      · simp only [VResult.err.injEq] at h; exact Or.inl h.symm
      · split at h
        · cases h
        · simp only [VResult.err.injEq] at h; exact Or.inl h.symm
        · split at h
          · rename_i e' hc
            simp only [VResult.err.injEq] at h
            subst h
            unfold checkClaims at hc
            split at hc
            · simp only [Option.some.injEq] at hc; exact Or.inr hc.symm
            · split at hc
              · simp only [Option.some.injEq] at hc; exact Or.inl hc.symm
              · split at hc
                · simp only [Option.some.injEq] at hc; exact Or.inl hc.symm
                · split at hc
                  · simp only [Option.some.injEq] at hc; exact Or.inl hc.symm
                  · cases hc
          · cases h

/-- the nil-key panic needs a verifier with no key at all -/
theorem verify_panic {owner : String} {c : Cfg} {now : Int} {tok : TokenFacts}
    (h : verify owner c now tok = .panic) : c.enabled = false := by
  unfold verify at h
  split at h
  · cases h
  · split at h
    · cases h
    · split at h
      · cases h
      · rename_i _ _ hm
        simp only [Bool.not_eq_true, Bool.not_eq_false] at hm
        split at h
        · rename_i hs
          unfold checkSignature at hs
          cases hk : keyLookup c tok with
          | nilKey =>
            unfold keyLookup at hk
            cases hj : c.jwks with
            | some jw =>
              simp only [hj] at hk
              unfold jwksLookup at hk
              split at hk
              · cases hk
              · cases hk
              · split at hk
                · cases hk
                · split at hk <;> cases hk
            | none =>
              simp only [hj] at hk
              unfold Cfg.methodAllowed Cfg.methods at hm
              unfold Cfg.enabled
              split at hk
              · split at hk <;> cases hk
              · split at hk
                · rename_i halg
                  split at hk
                  · cases hk
                  · rename_i hr
                    have hr' : c.rsa = false := by simpa using hr
                    cases hh : c.hmac <;> cases hc : c.ecdsa <;>
                      simp [hh, hc, hr', hj] at hm ⊢ <;>
                      rcases halg with h' | h' | h' <;> rw [h'] at hm <;> simp at hm
                · split at hk
                  · rename_i halg
                    split at hk
                    · cases hk
                    · rename_i he
                      have he' : c.ecdsa = false := by simpa using he
                      cases hh : c.hmac <;> cases hc : c.rsa <;>
                        simp [hh, hc, he', hj] at hm ⊢ <;>
                        rcases halg with h' | h' | h' <;> rw [h'] at hm <;> simp at hm
                  · cases hk
          | error => simp [hk] at hs
          | emptySecret => simp only [hk] at hs; split at hs <;> cases hs
          | one k t => simp only [hk] at hs; split at hs <;> cases hs
          | set ks =>
            simp only [hk] at hs
            split at hs
            · cases hs
            · split at hs <;> cases hs
        · cases h
        · split at h <;> cases h

/-! ## `MultiTenantVerifier.Verify` -/

theorem find_some_mem {m : MTCfg} {tenant : String} {c : Cfg} (h : m.find tenant = some c) :
    (tenant, c) ∈ m.tenants := by
  unfold MTCfg.find at h
  cases hf : m.tenants.find? (fun p => p.1 = tenant) with
  | none => simp [hf] at h
  | some p =>
    simp only [hf, Option.map_some, Option.some.injEq] at h
    have hm := List.mem_of_find?_eq_some hf
    have hp := List.find?_some hf
    simp only [decide_eq_true_eq] at hp
    obtain ⟨a, b⟩ := p
    simp only at hp h
    subst hp; subst h
    exact hm

/-- which verifier accepted, for every accepted (token, tenant header) pair -/
theorem verifyMT_ok {m : MTCfg} {now : Int} {tok : TokenFacts} {tenant : String} {t : Token}
    (h : verifyMT m now tok tenant = .ok t) :
    (tenant = "" ∧ m.tenants = [] ∧ verify "" m.dflt now tok = .ok t) ∨
    (tenant ≠ "" ∧ ∃ c t0, m.find tenant = some c ∧ verify tenant c now tok = .ok t0 ∧
      t = { t0 with tenant := tenant }) := by
  unfold verifyMT at h
  split at h
  · rename_i ht
    split at h
    · cases h
    · rename_i hn
      left
      exact ⟨ht, by simpa using hn, h⟩
  · rename_i ht
    right
    refine ⟨ht, ?_⟩
    split at h
    · cases h
    · rename_i c hf
      split at h
      · rename_i t0 hv
        simp only [VResult.ok.injEq] at h
        exact ⟨c, t0, hf, hv, h.symm⟩
      · rename_i r hr
        cases hv : verify tenant c now tok with
        | ok t0 => exact absurd hv (hr t0)
        | err e => rw [hv] at h; cases h
        | panic => rw [hv] at h; cases h

theorem verifyMT_err_set (m : MTCfg) (now : Int) (tok : TokenFacts) (tenant : String) (e : VerifyErr)
    (h : verifyMT m now tok tenant = .err e) : e ≠ .other := by
  unfold verifyMT at h
  split at h
  · split at h
    · simp only [VResult.err.injEq] at h; subst h; simp
    · rcases verify_err_set _ _ _ _ _ h with rfl | rfl <;> simp
  · split at h
    · simp only [VResult.err.injEq] at h; subst h; simp
    · rename_i c _
      split at h
      · cases h
      · rename_i r hr
        cases hv : verify tenant c now tok with
        | ok t0 => exact absurd hv (hr t0)
        | err e' =>
          rw [hv] at h
          simp only [VResult.err.injEq] at h
          subst h
          rcases verify_err_set _ _ _ _ _ hv with rfl | rfl <;> simp
        | panic => rw [hv] at h; cases h

/-- the verifiers `server.go` builds: the default one has a key unless tenants are
configured (then it is never consulted), and every tenant has a key (`TenantConfig.Validate`) -/
def MTCfg.wf (m : MTCfg) : Prop :=
  (m.tenants = [] → m.dflt.enabled = true) ∧ ∀ p ∈ m.tenants, p.2.enabled = true

theorem load_enabled {raw : RawCfg} {c : Cfg} (h : raw.load = some c) : c.enabled = raw.enabled := by
  unfold RawCfg.load at h
  split at h
  · cases h
  · simp only [Option.some.injEq] at h
    subst h
    rfl

theorem mapM_load_mem {tenants : List (String × RawCfg)} {ts : List (String × Cfg)}
    (h : tenants.mapM (fun p => p.2.load.map (fun c => (p.1, c))) = some ts) :
    (tenants = [] ↔ ts = []) ∧
    ∀ q ∈ ts, ∃ p ∈ tenants, p.1 = q.1 ∧ p.2.load = some q.2 := by
  induction tenants generalizing ts with
  | nil =>
    simp only [List.mapM_nil] at h
    cases h
    simp
  | cons p rest ih =>
    rw [List.mapM_cons] at h
    cases hp : p.2.load with
    | none => simp [hp] at h
    | some c =>
      cases hr : rest.mapM (fun p => p.2.load.map (fun c => (p.1, c))) with
      | none => simp [hp, hr] at h
      | some tl =>
        simp only [hp, hr, Option.map_some, Option.bind_eq_bind, Option.bind_some, Option.pure_def,
          Option.some.injEq] at h
        subst h
        refine ⟨by simp, ?_⟩
        intro q hq
        simp only [List.mem_cons] at hq
        rcases hq with rfl | hq
        · exact ⟨p, by simp, rfl, hp⟩
        · obtain ⟨p', hp', e1, e2⟩ := (ih hr).2 q hq
          exact ⟨p', by simp [hp'], e1, e2⟩

/-- the verifiers `server.go` wires from configurations that pass `Validate` (every tenant's
auth enabled) satisfy `MTCfg.wf`: the hypothesis of the C09/C10 soundness theorems is what
production establishes. -/
theorem wire_wf {dflt : RawCfg} {tenants : List (String × RawCfg)} {m : MTCfg}
    (hval : ∀ p ∈ tenants, p.2.enabled = true) (h : wire dflt tenants = some (some m)) : m.wf := by
  unfold wire at h
  split at h
  · cases h
  · rename_i hen
    cases hd : dflt.load with
    | none => simp [hd] at h
    | some d =>
      cases ht : tenants.mapM (fun p => p.2.load.map (fun c => (p.1, c))) with
      | none => simp [hd, ht] at h
      | some ts =>
        simp only [hd, ht, Option.some.injEq] at h
        subst h
        obtain ⟨hemp, hmem⟩ := mapM_load_mem ht
        constructor
        · intro hts
          have hte : tenants = [] := hemp.mpr hts
          rw [load_enabled hd]
          simp only [hte, List.isEmpty_nil, Bool.and_true, Bool.not_eq_true', Bool.not_eq_false] at hen
          simpa using hen
        · intro q hq
          obtain ⟨p, hp, _, hl⟩ := hmem q hq
          rw [load_enabled hl]
          exact hval p hp

theorem verifyMT_no_panic {m : MTCfg} (hwf : m.wf) (now : Int) (tok : TokenFacts) (tenant : String) :
    verifyMT m now tok tenant ≠ .panic := by
  intro h
  unfold verifyMT at h
  split at h
  · split at h
    · cases h
    · rename_i hn
      have := verify_panic h
      rw [hwf.1 (by simpa using hn)] at this
      cases this
  · split at h
    · cases h
    · rename_i c hf
      split at h
      · cases h
      · rename_i r hr
        cases hv : verify tenant c now tok with
        | ok t0 => exact absurd hv (hr t0)
        | err e' => rw [hv] at h; cases h
        | panic =>
          have := verify_panic hv
          rw [hwf.2 _ (find_some_mem hf)] at this
          cases this

/-- soundness of `Auth.Verify` acceptance (statement explained at `C09_accept_sound`) -/
theorem authorize_accept_sound (facts : String → TokenFacts) (m : MTCfg) (hwf : m.wf) (now : Int)
    (r : Req) (t : Token) (h : authorize facts m now r = .accept t) :
    ∃ ts owner c k kt,
      chosenHeader r = "Bearer " ++ ts ∧
      ((owner = "" ∧ r.tenant = "" ∧ m.tenants = [] ∧ c = m.dflt) ∨
        (owner = r.tenant ∧ r.tenant ≠ "" ∧ m.find r.tenant = some c)) ∧
      (facts ts).wellFormed = true ∧
      (facts ts).signer = .key owner k ∧ (algFam (facts ts).alg).accepts kt = true ∧ c.hasKey k kt ∧
      notExpired now (facts ts) = true ∧ nbfOk now (facts ts) = true ∧
      audOk c.audience (facts ts).aud = true ∧ issOk c.issuer (facts ts).iss = true ∧
      t.endpoints = (facts ts).endpoints ∧ t.tenant = r.tenant := by
  unfold authorize at h
  cases hp : parseToken r with
  | error e => simp [hp] at h
  | ok ts =>
    simp only [hp] at h
    cases hv : verifyMT m now (facts ts) r.tenant with
    | err e => simp [hv, outcomeOf] at h
    | panic => simp [hv, outcomeOf] at h
    | ok t' =>
      simp only [hv, outcomeOf, Outcome.accept.injEq] at h
      subst h
      have hform := parseToken_ok hp
      rcases verifyMT_ok hv with ⟨ht, hn, hd⟩ | ⟨ht, c, t0, hf, hd, rfl⟩
      · obtain ⟨w, ⟨k, kt, s1, s2, s3⟩, e1, e2, e3, e4, e5, e6⟩ := verify_sound (hwf.1 hn) hd
        exact ⟨ts, "", m.dflt, k, kt, hform, Or.inl ⟨rfl, ht, hn, rfl⟩, w, s1, s2, s3, e1, e2, e3, e4, e5,
          by rw [e6, ht]⟩
      · obtain ⟨w, ⟨k, kt, s1, s2, s3⟩, e1, e2, e3, e4, e5, _⟩ :=
          verify_sound (hwf.2 _ (find_some_mem hf)) hd
        exact ⟨ts, r.tenant, c, k, kt, hform, Or.inr ⟨rfl, ht, hf⟩, w, s1, s2, s3, e1, e2, e3, e4, e5, rfl⟩


end Auth

/-! ## gin chains -/
namespace Gin

/-- `P ++ [auth]` is in front of everything the engine holds -/
structure PInv (P : List H) (auth : H) (s : Engine) : Prop where
  eng : (P ++ [auth]) <+: s.handlers
  grp : ∀ g ∈ s.groups, (P ++ [auth]) <+: g.2.2
  rts : ∀ r ∈ s.routes, ∃ mid h, r.chain = (P ++ [auth]) ++ mid ++ [h]
  nor : s.allNoRoute = s.handlers ++ s.noRoute

theorem lookup_prefix {P : List H} {auth : H} {s : Engine} (hi : PInv P auth s) {recv base : String}
    {hs : List H} (h : s.lookup recv = some (base, hs)) : (P ++ [auth]) <+: hs := by
  unfold Engine.lookup at h
  split at h
  · simp only [Option.some.injEq, Prod.mk.injEq] at h
    rw [← h.2]; exact hi.eng
  · cases hf : s.groups.find? (fun p => p.1 = recv) with
    | none => simp [hf] at h
    | some g =>
      simp only [hf, Option.map_some, Option.some.injEq] at h
      have := hi.grp g (List.mem_of_find?_eq_some hf)
      rw [h] at this
      exact this

theorem step_inv {P : List H} {auth : H} {s : Engine} (hi : PInv P auth s) (e : Ev) :
    PInv P auth (s.step e) := by
  cases e with
  | use recv h =>
    simp only [Engine.step]
    by_cases hr : recv = "engine"
    · simp only [hr, if_true]
      exact ⟨hi.eng.trans (List.prefix_append _ _), hi.grp, hi.rts, rfl⟩
    · simp only [hr, if_false]
      cases hf : s.groups.find? (fun p => p.1 = recv) with
      | none => exact ⟨hi.eng, hi.grp, hi.rts, hi.nor⟩
      | some g0 =>
        refine ⟨hi.eng, ?_, hi.rts, hi.nor⟩
        intro g hg
        simp only [List.mem_map] at hg
        obtain ⟨p, hp, rfl⟩ := hg
        by_cases hpr : p.1 = recv
        · simp only [hpr, if_true]
          exact (hi.grp p hp).trans (List.prefix_append _ _)
        · simp only [hpr, if_false]
          exact hi.grp p hp
  | group parent new path =>
    simp only [Engine.step]
    cases hl : s.lookup parent with
    | none => exact ⟨hi.eng, hi.grp, hi.rts, hi.nor⟩
    | some bh =>
      obtain ⟨base, hs⟩ := bh
      refine ⟨hi.eng, ?_, hi.rts, hi.nor⟩
      intro g hg
      simp only [List.mem_cons, List.mem_filter] at hg
      rcases hg with hg | ⟨hg, _⟩
      · rw [hg]; exact lookup_prefix hi hl
      · exact hi.grp g hg
  | route recv method path mws h =>
    simp only [Engine.step]
    cases hl : s.lookup recv with
    | none => exact ⟨hi.eng, hi.grp, hi.rts, hi.nor⟩
    | some bh =>
      obtain ⟨base, hs⟩ := bh
      refine ⟨hi.eng, hi.grp, ?_, hi.nor⟩
      intro r hr
      simp only [List.mem_append, List.mem_singleton] at hr
      rcases hr with hr | hr
      · exact hi.rts r hr
      · obtain ⟨t, ht⟩ := lookup_prefix hi hl
        rw [hr]
        exact ⟨t ++ mws, h, by simp [← ht, List.append_assoc]⟩
  | noRoute hs =>
    simp only [Engine.step]
    exact ⟨hi.eng, hi.grp, hi.rts, rfl⟩

theorem foldl_inv {P : List H} {auth : H} (evs : List Ev) {s : Engine} (hi : PInv P auth s) :
    PInv P auth (evs.foldl Engine.step s) := by
  induction evs generalizing s with
  | nil => exact hi
  | cons e es ih => exact ih (step_inv hi e)

theorem authFirst_inv (auth : H) (evs : List Ev) (s : Engine) (hg : s.groups = []) (hr : s.routes = [])
    (hn : s.allNoRoute = s.handlers ++ s.noRoute) (h : authFirst auth evs = true) :
    ∃ P, P = s.handlers ++ preAuth auth evs ∧ PInv P auth (evs.foldl Engine.step s) := by
  induction evs generalizing s with
  | nil => simp [authFirst] at h
  | cons e es ih =>
    cases e with
    | use recv hd =>
      simp only [authFirst, Bool.and_eq_true, decide_eq_true_eq, Bool.or_eq_true] at h
      obtain ⟨hrecv, hor⟩ := h
      subst hrecv
      have hstep : s.step (.use "engine" hd) =
          { s with handlers := s.handlers ++ [hd], allNoRoute := (s.handlers ++ [hd]) ++ s.noRoute } := by
        simp [Engine.step]
      by_cases ha : hd = auth
      · subst ha
        refine ⟨s.handlers, by simp [preAuth], ?_⟩
        rw [List.foldl_cons, hstep]
        apply foldl_inv
        exact ⟨List.prefix_refl _, by simp [hg], by simp [hr], rfl⟩
      · have hrest : authFirst auth es = true := by
          rcases hor with h1 | h1
          · exact absurd h1 ha
          · exact h1
        rw [List.foldl_cons, hstep]
        generalize hs' : ({ s with handlers := s.handlers ++ [hd], allNoRoute := (s.handlers ++ [hd]) ++ s.noRoute } : Engine) = s'
        have e1 : s'.groups = [] := by rw [← hs']; simp [hg]
        have e2 : s'.routes = [] := by rw [← hs']; simp [hr]
        have e3 : s'.allNoRoute = s'.handlers ++ s'.noRoute := by rw [← hs']
        have e4 : s'.handlers = s.handlers ++ [hd] := by rw [← hs']
        obtain ⟨P, hP, hi⟩ := ih s' e1 e2 e3 hrest
        exact ⟨P, by rw [hP, e4]; simp [preAuth, ha], hi⟩
    | group _ _ _ => simp [authFirst] at h
    | route _ _ _ _ _ => simp [authFirst] at h
    | noRoute _ => simp [authFirst] at h

theorem authFirst_of_G (auth : H) (ga : String) (on : String → Bool) (hon : on ga = true)
    (gevs : List GEv) (h : authFirstG auth ga gevs = true) : authFirst auth (enabled on gevs) = true := by
  induction gevs with
  | nil => simp [authFirstG] at h
  | cons g gs ih =>
    obtain ⟨e, guards⟩ := g
    cases e with
    | use recv hd =>
      simp only [authFirstG, Bool.and_eq_true, decide_eq_true_eq, Bool.or_eq_true, ne_eq,
        decide_not, Bool.not_eq_true', decide_eq_false_iff_not] at h
      obtain ⟨hrecv, hor⟩ := h
      subst hrecv
      rcases hor with ⟨rfl, rfl⟩ | ⟨⟨hne, _⟩, hrest⟩
      · have : enabled on (⟨.use "engine" hd, [ga]⟩ :: gs) = .use "engine" hd :: enabled on gs := by
          simp [enabled, List.filter_cons, hon]
        rw [this]
        simp [authFirst]
      · by_cases hk : guards.all on = true
        · have : enabled on (⟨.use "engine" hd, guards⟩ :: gs) = .use "engine" hd :: enabled on gs := by
            simp only [enabled, List.filter_cons, hk, if_true, List.map_cons]
          rw [this]
          simp [authFirst, ih hrest]
        · have : enabled on (⟨.use "engine" hd, guards⟩ :: gs) = enabled on gs := by
            simp only [enabled, List.filter_cons, hk]
            simp
          rw [this]
          exact ih hrest
    | group _ _ _ => simp [authFirstG] at h
    | route _ _ _ _ _ => simp [authFirstG] at h
    | noRoute _ => simp [authFirstG] at h

/-- on a table of shape `authFirstG`, for every valuation of the guards under which the auth
guard holds, every handler `Use`d ahead of the auth middleware is one of `passiveHandlers` -/
theorem preAuth_passive_of_G (auth : H) (ga : String) (on : String → Bool) (hon : on ga = true)
    (gevs : List GEv) (h : authFirstG auth ga gevs = true) :
    ∀ x ∈ preAuth auth (enabled on gevs), x ∈ passiveHandlers := by
  induction gevs with
  | nil => simp [authFirstG] at h
  | cons g gs ih =>
    obtain ⟨e, guards⟩ := g
    cases e with
    | use recv hd =>
      simp only [authFirstG, Bool.and_eq_true, decide_eq_true_eq, Bool.or_eq_true, ne_eq,
        decide_not, Bool.not_eq_true', decide_eq_false_iff_not] at h
      obtain ⟨hrecv, hor⟩ := h
      subst hrecv
      rcases hor with ⟨rfl, rfl⟩ | ⟨⟨hne, hpass⟩, hrest⟩
      · have : enabled on (⟨.use "engine" hd, [ga]⟩ :: gs) = .use "engine" hd :: enabled on gs := by
          simp [enabled, List.filter_cons, hon]
        rw [this]
        simp [preAuth]
      · by_cases hk : guards.all on = true
        · have : enabled on (⟨.use "engine" hd, guards⟩ :: gs) = .use "engine" hd :: enabled on gs := by
            simp only [enabled, List.filter_cons, hk, if_true, List.map_cons]
          rw [this]
          intro x hx
          simp only [preAuth, hne, if_false, List.mem_cons] at hx
          rcases hx with rfl | hx
          · simpa using hpass
          · exact ih hrest x hx
        · have : enabled on (⟨.use "engine" hd, guards⟩ :: gs) = enabled on gs := by
            simp only [enabled, List.filter_cons, hk]
            simp
          rw [this]
          exact ih hrest
    | group _ _ _ => simp [authFirstG] at h
    | route _ _ _ _ _ => simp [authFirstG] at h
    | noRoute _ => simp [authFirstG] at h

theorem findRoute_mem {routes : List Route} {method path : String} {r : Route} {ps : List String}
    (h : findRoute routes method path = some (r, ps)) : r ∈ routes := by
  unfold findRoute at h
  simp only at h
  generalize hms : (routes.filterMap fun r =>
    if r.method = method then (matchSegs (segs r.path) (segs path)).map (fun ps => (r, ps)) else none) = ms at h
  have hmem : (r, ps) ∈ ms := by
    split at h
    · rename_i m tl hf
      simp only [Option.some.injEq] at h
      have : m ∈ ms.filter (fun m => m.2.length = 0) := by rw [hf]; exact List.mem_cons_self
      rw [← h]
      exact (List.mem_filter.mp this).1
    · exact List.mem_of_mem_head? h
  rw [← hms] at hmem
  obtain ⟨r', hr', hq⟩ := List.mem_filterMap.mp hmem
  split at hq
  · cases hm : matchSegs (segs r'.path) (segs path) with
    | none => simp [hm] at hq
    | some ps' =>
      simp only [hm, Option.map_some, Option.some.injEq, Prod.mk.injEq] at hq
      rw [← hq.1]; exact hr'
  · cases hq

theorem dispatch_route {s : Engine} {method path : String} {r : Route} {ps : List String}
    (h : dispatch s method path = .route r ps) : r ∈ s.routes := by
  unfold dispatch at h
  cases hf : findRoute s.routes method path with
  | some q =>
    obtain ⟨r', ps'⟩ := q
    simp only [hf, Dispatch.route.injEq] at h
    rw [← h.1]; exact findRoute_mem hf
  | none =>
    simp only [hf] at h
    split at h <;> cases h

/-- a redirect is issued exactly when no route matches and the trailing-slash sibling does -/
theorem dispatch_redirect_iff (s : Engine) (method path : String) :
    (∃ c, dispatch s method path = .redirect c) ↔
      (findRoute s.routes method path = none ∧ tsrApplies s method path = true) := by
  unfold dispatch
  cases hf : findRoute s.routes method path with
  | some q => obtain ⟨r', ps'⟩ := q; simp
  | none =>
    by_cases ht : tsrApplies s method path = true
    · simp [ht]
    · simp [ht]

theorem dispatch_noRoute {s : Engine} {method path : String} {chain : List H}
    (h : dispatch s method path = .noRoute chain) : chain = s.allNoRoute := by
  unfold dispatch at h
  cases hf : findRoute s.routes method path with
  | some q => obtain ⟨r', ps'⟩ := q; simp [hf] at h
  | none =>
    simp only [hf] at h
    split at h
    · cases h
    · simp only [Dispatch.noRoute.injEq] at h; exact h.symm

end Gin
end Piko
