import Proofs.View
/-!
# Receiver side: `applyDeltaEntry` / `applyDelta` / `applyDigest` on a whole `CState`
relative to a "world" `W` giving, for every node id, its ghost history and current own state.
-/
namespace Piko.Gossip
open Piko

abbrev World := String → Option (List Entry × NodeSt)

/-- the delta for node `a` was computed for a base the receiver has reached (or `0` for an
unknown node) -/
def BaseOK (s : CState) (a : String) (v0 : Nat) : Prop :=
  match s.nodes.find a with
  | some V => v0 ≤ V.version
  | none => v0 = 0

/-- what one receiver state satisfies -/
structure RecvInv (W : World) (s : CState) : Prop where
  ownPresent : ∃ n, s.nodes.find s.localId = some n
  ids : ∀ a V, s.nodes.find a = some V → V.id = a
  known : ∀ a V, s.nodes.find a = some V → ∃ H O, W a = some (H, O)
  views : ∀ a V H O, s.nodes.find a = some V → a ≠ s.localId → W a = some (H, O) → ViewInv H O V

/-- one delta entry is acceptable for receiver `s` -/
def DeOK (W : World) (s : CState) (de : DeltaEntry) : Prop :=
  de.id ≠ s.localId → ∃ H O v0, W de.id = some (H, O) ∧ OwnerInv H O ∧
    PktInv H O v0 de.entries ∧ BaseOK s de.id v0

theorem applyDeltaEntry_localId (now : Nat) (s : CState) (de : DeltaEntry) :
    (applyDeltaEntry now s de).1.localId = s.localId := by
  unfold applyDeltaEntry
  split
  · rfl
  · split <;> rfl

theorem applyDeltaEntry_find (now : Nat) (s : CState) (de : DeltaEntry) (a : String) :
    (applyDeltaEntry now s de).1.nodes.find a =
      if de.id = s.localId then s.nodes.find a
      else if de.id = a then
        some (applyEntries now ((s.nodes.find de.id).getD { id := de.id, addr := de.addr }) de.entries).1
      else s.nodes.find a := by
  unfold applyDeltaEntry
  by_cases hl : de.id = s.localId
  · simp [hl]
  · simp only [hl, if_false]
    cases hf : s.nodes.find de.id with
    | none => simp only [AMap.find_insert, Option.getD_none]
    | some st => simp only [AMap.find_insert, Option.getD_some]

/-- `applyDeltaEntry` never touches the local node -/
theorem applyDeltaEntry_own (now : Nat) (s : CState) (de : DeltaEntry) :
    own (applyDeltaEntry now s de).1 = own s := by
  unfold own
  rw [applyDeltaEntry_localId, applyDeltaEntry_find]
  by_cases hl : de.id = s.localId
  · simp [hl]
  · simp [hl]

theorem applyDeltaEntry_recv {W : World} {s : CState} (now : Nat) (de : DeltaEntry)
    (hs : RecvInv W s) (hd : DeOK W s de) :
    RecvInv W (applyDeltaEntry now s de).1 ∧
    (∀ a v0, BaseOK s a v0 → BaseOK (applyDeltaEntry now s de).1 a v0) := by
  by_cases hl : de.id = s.localId
  · have : (applyDeltaEntry now s de).1 = s := by unfold applyDeltaEntry; simp [hl]
    rw [this]; exact ⟨hs, fun _ _ h => h⟩
  obtain ⟨H, O, v0, hW, ho, hp, hb⟩ := hd hl
  -- the view the entries are applied to
  have hVinv : ViewInv H O ((s.nodes.find de.id).getD { id := de.id, addr := de.addr }) ∧
      v0 ≤ ((s.nodes.find de.id).getD { id := de.id, addr := de.addr }).version ∧
      ((s.nodes.find de.id).getD { id := de.id, addr := de.addr }).id = de.id := by
    unfold BaseOK at hb
    cases hf : s.nodes.find de.id with
    | none =>
      rw [hf] at hb
      simp only [Option.getD_none]
      exact ⟨ViewInv.fresh ho _ _, by simp [hb], by simp⟩
    | some V =>
      rw [hf] at hb
      simp only [Option.getD_some]
      exact ⟨hs.views de.id V H O hf hl hW, hb, hs.ids de.id V hf⟩
  obtain ⟨hV, hv0, hid⟩ := hVinv
  have hnew := applyEntries_viewInv now ho de.entries _ v0 hV hp hv0
  obtain ⟨hmono, hid', _⟩ := applyEntries_version_mono now de.entries
    ((s.nodes.find de.id).getD { id := de.id, addr := de.addr })
  refine ⟨⟨?_, ?_, ?_, ?_⟩, ?_⟩
  · rw [applyDeltaEntry_localId, applyDeltaEntry_find]
    have : ¬ de.id = s.localId := hl
    simp only [this, if_false]
    exact hs.ownPresent
  · intro a V hf
    rw [applyDeltaEntry_find] at hf
    simp only [hl, if_false] at hf
    by_cases ha : de.id = a
    · subst ha
      simp only [if_true, Option.some.injEq] at hf
      subst hf; rw [hid', hid]
    · simp only [ha, if_false] at hf; exact hs.ids a V hf
  · intro a V hf
    rw [applyDeltaEntry_find] at hf
    simp only [hl, if_false] at hf
    by_cases ha : de.id = a
    · subst ha; exact ⟨H, O, hW⟩
    · simp only [ha, if_false] at hf; exact hs.known a V hf
  · intro a V H' O' hf hal hW'
    rw [applyDeltaEntry_localId] at hal
    rw [applyDeltaEntry_find] at hf
    simp only [hl, if_false] at hf
    by_cases ha : de.id = a
    · subst ha
      simp only [if_true, Option.some.injEq] at hf
      rw [hW] at hW'; cases hW'
      subst hf; exact hnew
    · simp only [ha, if_false] at hf; exact hs.views a V H' O' hf hal hW'
  · intro a w hbw
    unfold BaseOK at hbw ⊢
    rw [applyDeltaEntry_find]
    simp only [hl, if_false]
    by_cases ha : de.id = a
    · subst ha
      simp only [if_true]
      cases hf : s.nodes.find de.id with
      | none => rw [hf] at hbw; subst hbw; exact Nat.zero_le _
      | some V =>
        rw [hf] at hbw
        rw [hf] at hmono
        simp only [Option.getD_some] at hmono ⊢
        omega
    · simp only [ha, if_false]; exact hbw

theorem applyDelta_recv {W : World} (now : Nat) (d : Delta) : ∀ (s : CState),
    RecvInv W s → (∀ de ∈ d, DeOK W s de) →
    RecvInv W (applyDelta now s d).1 ∧ own (applyDelta now s d).1 = own s ∧
    (applyDelta now s d).1.localId = s.localId ∧
    (∀ a v0, BaseOK s a v0 → BaseOK (applyDelta now s d).1 a v0) := by
  unfold applyDelta
  suffices h : ∀ (d : Delta) (s : CState) (ev : List Event), RecvInv W s → (∀ de ∈ d, DeOK W s de) →
      RecvInv W (d.foldl (fun acc de => let (s', e) := applyDeltaEntry now acc.1 de; (s', acc.2 ++ e)) (s, ev)).1 ∧
      own (d.foldl (fun acc de => let (s', e) := applyDeltaEntry now acc.1 de; (s', acc.2 ++ e)) (s, ev)).1 = own s ∧
      (d.foldl (fun acc de => let (s', e) := applyDeltaEntry now acc.1 de; (s', acc.2 ++ e)) (s, ev)).1.localId = s.localId ∧
      (∀ a v0, BaseOK s a v0 →
        BaseOK (d.foldl (fun acc de => let (s', e) := applyDeltaEntry now acc.1 de; (s', acc.2 ++ e)) (s, ev)).1 a v0) by
    intro s; exact h d s []
  intro d
  induction d with
  | nil => intro s ev hs _; exact ⟨hs, rfl, rfl, fun _ _ h => h⟩
  | cons de d ih =>
    intro s ev hs hall
    simp only [List.foldl_cons]
    obtain ⟨hs', hbase⟩ := applyDeltaEntry_recv now de hs (hall de (List.mem_cons_self ..))
    have hall' : ∀ x ∈ d, DeOK W (applyDeltaEntry now s de).1 x := by
      intro x hx hxl
      rw [applyDeltaEntry_localId] at hxl
      obtain ⟨H, O, v0, h1, h2, h3, h4⟩ := hall x (List.mem_cons_of_mem _ hx) hxl
      exact ⟨H, O, v0, h1, h2, h3, hbase _ _ h4⟩
    obtain ⟨i1, i2, i3, i4⟩ := ih (applyDeltaEntry now s de).1 (ev ++ (applyDeltaEntry now s de).2) hs' hall'
    refine ⟨i1, ?_, ?_, ?_⟩
    · rw [i2, applyDeltaEntry_own]
    · rw [i3, applyDeltaEntry_localId]
    · intro a v0 hb; exact i4 a v0 (hbase a v0 hb)

/-! ### `applyDigest` only adds fresh, version-0 nodes -/

theorem applyDigestEntry_spec (acc : CState × List Event) (de : DigestEntry) :
    (applyDigestEntry acc de).1.localId = acc.1.localId ∧
    ∀ a, (applyDigestEntry acc de).1.nodes.find a =
      if acc.1.nodes.find de.id = none ∧ de.left = false ∧ de.id = a
      then some { id := de.id, addr := de.addr } else acc.1.nodes.find a := by
  unfold applyDigestEntry
  cases hf : acc.1.nodes.find de.id with
  | some n => simp
  | none =>
    by_cases hl : de.left = true
    · simp [hl]
    · have hl' : de.left = false := by simpa using hl
      simp only [hl', Bool.false_eq_true, if_false, true_and]
      intro a
      exact AMap.find_insert _ _ _ _

theorem applyDigest_recv {W : World} (d : Digest) : ∀ (s : CState),
    RecvInv W s → (∀ de ∈ d, ∃ H O, W de.id = some (H, O) ∧ OwnerInv H O) →
    RecvInv W (applyDigest s d).1 ∧ own (applyDigest s d).1 = own s ∧
    (applyDigest s d).1.localId = s.localId ∧
    (∀ a v0, BaseOK s a v0 → BaseOK (applyDigest s d).1 a v0) ∧
    (∀ a V, s.nodes.find a = some V → (applyDigest s d).1.nodes.find a = some V) := by
  unfold applyDigest
  suffices h : ∀ (d : Digest) (acc : CState × List Event), RecvInv W acc.1 →
      (∀ de ∈ d, ∃ H O, W de.id = some (H, O) ∧ OwnerInv H O) →
      RecvInv W (d.foldl applyDigestEntry acc).1 ∧ own (d.foldl applyDigestEntry acc).1 = own acc.1 ∧
      (d.foldl applyDigestEntry acc).1.localId = acc.1.localId ∧
      (∀ a v0, BaseOK acc.1 a v0 → BaseOK (d.foldl applyDigestEntry acc).1 a v0) ∧
      (∀ a V, acc.1.nodes.find a = some V → (d.foldl applyDigestEntry acc).1.nodes.find a = some V) by
    intro s; exact h d (s, [])
  intro d
  induction d with
  | nil => intro acc hs _; exact ⟨hs, rfl, rfl, fun _ _ h => h, fun _ _ h => h⟩
  | cons de d ih =>
    intro acc hs hall
    simp only [List.foldl_cons]
    obtain ⟨hlid, hfind⟩ := applyDigestEntry_spec acc de
    obtain ⟨H, O, hW, ho⟩ := hall de (List.mem_cons_self ..)
    have hkeep : ∀ a V, acc.1.nodes.find a = some V → (applyDigestEntry acc de).1.nodes.find a = some V := by
      intro a V hf
      rw [hfind a]
      by_cases hc : acc.1.nodes.find de.id = none ∧ de.left = false ∧ de.id = a
      · obtain ⟨h1, _, h3⟩ := hc; subst h3; rw [h1] at hf; cases hf
      · rw [if_neg hc]; exact hf
    have hs' : RecvInv W (applyDigestEntry acc de).1 := by
      refine ⟨?_, ?_, ?_, ?_⟩
      · obtain ⟨n, hn⟩ := hs.ownPresent
        exact ⟨n, by rw [hlid]; exact hkeep _ _ hn⟩
      · intro a V hf
        rw [hfind a] at hf
        by_cases hc : acc.1.nodes.find de.id = none ∧ de.left = false ∧ de.id = a
        · rw [if_pos hc] at hf; cases hf; exact hc.2.2
        · rw [if_neg hc] at hf; exact hs.ids a V hf
      · intro a V hf
        rw [hfind a] at hf
        by_cases hc : acc.1.nodes.find de.id = none ∧ de.left = false ∧ de.id = a
        · obtain ⟨_, _, h3⟩ := hc; subst h3; exact ⟨H, O, hW⟩
        · rw [if_neg hc] at hf; exact hs.known a V hf
      · intro a V H' O' hf hal hW'
        rw [hlid] at hal
        rw [hfind a] at hf
        by_cases hc : acc.1.nodes.find de.id = none ∧ de.left = false ∧ de.id = a
        · rw [if_pos hc] at hf
          obtain ⟨_, _, h3⟩ := hc; subst h3
          rw [hW] at hW'; cases hW'
          cases hf; exact ViewInv.fresh ho _ _
        · rw [if_neg hc] at hf; exact hs.views a V H' O' hf hal hW'
    have hbase : ∀ a v0, BaseOK acc.1 a v0 → BaseOK (applyDigestEntry acc de).1 a v0 := by
      intro a v0 hb
      unfold BaseOK at hb ⊢
      rw [hfind a]
      by_cases hc : acc.1.nodes.find de.id = none ∧ de.left = false ∧ de.id = a
      · rw [if_pos hc]
        obtain ⟨h1, h2, h3⟩ := hc; subst h3
        rw [h1] at hb; subst hb
        simp
      · rw [if_neg hc]; exact hb
    obtain ⟨i1, i2, i3, i4, i5⟩ := ih (applyDigestEntry acc de) hs' (fun x hx => hall x (List.mem_cons_of_mem _ hx))
    refine ⟨i1, ?_, by rw [i3, hlid], fun a v0 hb => i4 a v0 (hbase a v0 hb), fun a V hf => i5 a V (hkeep a V hf)⟩
    rw [i2]
    unfold own
    rw [hlid]
    obtain ⟨n, hn⟩ := hs.ownPresent
    rw [hkeep _ _ hn, hn]

end Piko.Gossip
