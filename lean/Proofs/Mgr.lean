import Proofs.LB
import Proofs.GossipLocal
/-!
# `LoadBalancedManager` invariant: registry = cluster-local counts = advertised gossip entries
-/
namespace Piko.Upstream
open Piko

def epKey (e : String) : String := "endpoint:" ++ e

theorem epKey_inj {e e' : String} (h : epKey e = epKey e') : e = e' := by
  have := congrArg String.toList h
  simp [epKey, String.toList_append] at this
  exact String.toList_injective this

/-- the local node is present in the routing table (`LocalNode()` panics otherwise) -/
def LocalPresent (c : Cluster.State) : Prop := ∃ n, c.nodes.find c.localId = some n

@[simp] theorem localNode_setLocal (c : Cluster.State) (n : Cluster.Node) :
    (c.setLocal n).localNode = n := by
  simp [Cluster.State.localNode, Cluster.State.setLocal]

theorem localPresent_setLocal (c : Cluster.State) (n : Cluster.Node) : LocalPresent (c.setLocal n) := by
  simp [LocalPresent, Cluster.State.setLocal]

/-- what the node advertises for endpoint `e`: the live value of its gossip key -/
def advertised (m : Mgr) (e : String) : Option String := Gossip.liveValue m.gossip (epKey e)

def countOpt (n : Nat) : Option Int := if n = 0 then none else some (n : Int)
def advOpt (n : Nat) : Option String := if n = 0 then none else some (toString n)

structure MInv (m : Mgr) : Prop where
  lbs : ∀ e lb, m.lbs.find e = some lb → lb.ups ≠ [] ∧ lb.Inv
  counts : ∀ e, m.cluster.localNode.endpoints.find e = countOpt (m.registry e).length
  adv : ∀ e, advertised m e = advOpt (m.registry e).length

theorem registry_of_find {m : Mgr} {e : String} {lb : LB} (h : m.lbs.find e = some lb) :
    m.registry e = lb.ups := by simp [Mgr.registry, h]

theorem registry_of_none {m : Mgr} {e : String} (h : m.lbs.find e = none) :
    m.registry e = [] := by simp [Mgr.registry, h]

theorem listeners_eq {m : Mgr} (h : MInv m) (e : String) :
    m.cluster.localEndpointListeners e = ((m.registry e).length : Int) := by
  unfold Cluster.State.localEndpointListeners
  rw [h.counts e]
  unfold countOpt
  by_cases h0 : (m.registry e).length = 0 <;> simp [h0]

theorem toString_natCast (n : Nat) : toString (n : Int) = toString n := rfl

/-- the gossip write made by the `OnLocalEndpointUpdate` subscriber -/
theorem liveValue_onLocalEndpointUpdate (c : Cluster.State) (g : Gossip.CState) (e : String) (n : Nat)
    (hl : c.localEndpointListeners e = (n : Int)) (k : String) :
    Gossip.liveValue (onLocalEndpointUpdate c g e) k =
      if epKey e = k then advOpt n else Gossip.liveValue g k := by
  unfold onLocalEndpointUpdate
  simp only [hl]
  by_cases h0 : n = 0
  · subst h0
    simp only [Int.natCast_zero, Int.lt_irrefl, if_false]
    rw [Gossip.liveValue_deleteLocal]
    simp [epKey, advOpt]
  · have : (0 : Int) < (n : Int) := by omega
    simp only [gt_iff_lt, this, if_true]
    rw [Gossip.liveValue_upsertLocal]
    have hr : (n : Int).repr = n.repr := rfl
    simp [epKey, advOpt, h0, hr]

/-! ### AddConn -/

theorem registry_addConn (m : Mgr) (u : Up) (e : String) :
    (m.addConn u).registry e = if u.ep = e then m.registry e ++ [u.id] else m.registry e := by
  unfold Mgr.registry Mgr.addConn
  simp only [AMap.find_insert]
  by_cases h : u.ep = e
  · subst h
    cases hf : m.lbs.find u.ep <;> simp [LB.add]
  · simp [h]

theorem inv_addConn (m : Mgr) (u : Up) (h : MInv m) : MInv (m.addConn u) := by
  have hl := listeners_eq h u.ep
  refine ⟨?_, ?_, ?_⟩
  · intro e lb hf
    unfold Mgr.addConn at hf
    simp only [AMap.find_insert] at hf
    by_cases he : u.ep = e
    · subst he
      simp only [if_true, Option.some.injEq] at hf
      subst hf
      constructor
      · simp [LB.add]
      · apply LB.inv_add
        cases hf' : m.lbs.find u.ep with
        | none => simpa using LB.inv_empty
        | some lb0 => simpa using (h.lbs _ _ hf').2
    · simp only [he, if_false] at hf
      exact h.lbs e lb hf
  · intro e
    rw [registry_addConn]
    show ((m.cluster.addLocalEndpoint u.ep).localNode.endpoints.find e) = _
    unfold Cluster.State.addLocalEndpoint
    simp only [localNode_setLocal, AMap.find_insert, hl]
    by_cases he : u.ep = e
    · subst he; simp [countOpt]
    · simp only [he, if_false]; exact h.counts e
  · intro e
    rw [registry_addConn]
    show Gossip.liveValue (onLocalEndpointUpdate (m.cluster.addLocalEndpoint u.ep) m.gossip u.ep) (epKey e) = _
    have hl' : (m.cluster.addLocalEndpoint u.ep).localEndpointListeners u.ep =
        (((m.registry u.ep).length + 1 : Nat) : Int) := by
      unfold Cluster.State.addLocalEndpoint
      simp only [Cluster.State.localEndpointListeners, localNode_setLocal, AMap.find_insert_self]
      simp only [Cluster.State.localEndpointListeners] at hl
      simp [hl]
    rw [liveValue_onLocalEndpointUpdate _ _ _ _ hl']
    by_cases he : u.ep = e
    · subst he; simp
    · have : ¬ epKey u.ep = epKey e := fun hk => he (epKey_inj hk)
      simp only [this, he, if_false]; exact h.adv e

/-! ### RemoveConn (repaired) -/

theorem removeConn_absent (m : Mgr) (u : Up) (h : u.id ∉ m.registry u.ep) : m.removeConn u = m := by
  unfold Mgr.removeConn
  cases hf : m.lbs.find u.ep with
  | none => rfl
  | some lb =>
    have : ¬ lb.contains u.id = true := by
      rw [registry_of_find hf] at h
      simpa [LB.contains] using h
    simp [this]

theorem lb_remove_of_mem (lb : LB) (u : Nat) (h : u ∈ lb.ups) :
    (lb.remove u).1.ups = lb.ups.erase u ∧ ((lb.remove u).2 = true ↔ (lb.ups.erase u).length = 0) := by
  unfold LB.remove
  simp only [h, if_true]
  by_cases h0 : (lb.ups.erase u).length = 0 <;> simp [h0]

theorem registry_removeConn (m : Mgr) (u : Up) (e : String) :
    (m.removeConn u).registry e = if u.ep = e then (m.registry e).erase u.id else m.registry e := by
  by_cases hm : u.id ∈ m.registry u.ep
  · unfold Mgr.removeConn
    cases hf : m.lbs.find u.ep with
    | none => simp [registry_of_none hf] at hm
    | some lb =>
      rw [registry_of_find hf] at hm
      have hc : lb.contains u.id = true := by simpa [LB.contains] using hm
      obtain ⟨h1, h2⟩ := lb_remove_of_mem lb u.id hm
      simp only [hc, Bool.not_true, Bool.false_eq_true, if_false]
      by_cases hem : (lb.remove u.id).2 = true
      · have h0 := h2.mp hem
        simp only [hem, if_true, Mgr.registry, AMap.find_erase]
        by_cases he : u.ep = e
        · subst he
          simp only [if_true, Option.map_none, Option.getD_none, hf, Option.map_some, Option.getD_some]
          exact (List.eq_nil_of_length_eq_zero h0).symm
        · simp [he]
      · simp only [hem, Bool.false_eq_true, if_false, Mgr.registry, AMap.find_insert]
        by_cases he : u.ep = e
        · subst he; simp [hf, h1]
        · simp [he]
  · rw [removeConn_absent m u hm]
    by_cases he : u.ep = e
    · subst he; simp [List.erase_of_not_mem hm]
    · simp [he]

theorem inv_removeConn (m : Mgr) (u : Up) (h : MInv m) : MInv (m.removeConn u) := by
  by_cases hm : u.id ∈ m.registry u.ep
  swap
  · rw [removeConn_absent m u hm]; exact h
  have hreg := registry_removeConn m u
  cases hf : m.lbs.find u.ep with
  | none => simp [registry_of_none hf] at hm
  | some lb =>
  have hmem : u.id ∈ lb.ups := by rwa [registry_of_find hf] at hm
  have hc : lb.contains u.id = true := by simpa [LB.contains] using hmem
  obtain ⟨h1, h2⟩ := lb_remove_of_mem lb u.id hmem
  have hlen : (m.registry u.ep).length = lb.ups.length := by rw [registry_of_find hf]
  have hlenpos : 0 < lb.ups.length := List.length_pos_of_mem hmem
  have hlerase : (lb.ups.erase u.id).length = lb.ups.length - 1 := List.length_erase_of_mem hmem
  have hcnt := h.counts u.ep
  rw [hlen] at hcnt
  -- shape of the cluster update
  have hcl : ∀ e, ((m.cluster.removeLocalEndpoint u.ep).1.localNode.endpoints.find e) =
      if u.ep = e then countOpt (lb.ups.length - 1) else m.cluster.localNode.endpoints.find e := by
    intro e
    unfold Cluster.State.removeLocalEndpoint
    have hne : ¬ lb.ups.length = 0 := by omega
    simp only [hcnt, countOpt, hne, if_false]
    have hz : ¬ ((lb.ups.length : Nat) : Int) = 0 := by omega
    simp only [hz, if_false]
    by_cases h1' : ((lb.ups.length : Nat) : Int) > 1
    · simp only [h1', if_true, localNode_setLocal, AMap.find_insert]
      by_cases he : u.ep = e
      · have : ¬ lb.ups.length - 1 = 0 := by omega
        simp only [he, if_true, this, if_false]; congr 1; omega
      · simp [he]
    · simp only [h1', if_false, localNode_setLocal, AMap.find_erase]
      by_cases he : u.ep = e
      · have : lb.ups.length - 1 = 0 := by omega
        simp [he, this]
      · simp [he]
  have hnotify : (m.cluster.removeLocalEndpoint u.ep).2 = true := by
    unfold Cluster.State.removeLocalEndpoint
    have hne : ¬ lb.ups.length = 0 := by omega
    simp only [hcnt, countOpt, hne, if_false]
    have hz : ¬ ((lb.ups.length : Nat) : Int) = 0 := by omega
    simp only [hz, if_false]
    by_cases h1' : ((lb.ups.length : Nat) : Int) > 1 <;> simp [h1']
  have hgossip : (m.removeConn u).gossip =
      onLocalEndpointUpdate (m.cluster.removeLocalEndpoint u.ep).1 m.gossip u.ep := by
    unfold Mgr.removeConn
    simp [hf, hc, hnotify]
  have hcluster : (m.removeConn u).cluster = (m.cluster.removeLocalEndpoint u.ep).1 := by
    unfold Mgr.removeConn
    simp [hf, hc]
  refine ⟨?_, ?_, ?_⟩
  · intro e lb' hf'
    unfold Mgr.removeConn at hf'
    simp only [hf, hc, Bool.not_true, Bool.false_eq_true, if_false] at hf'
    by_cases hem : (lb.remove u.id).2 = true
    · simp only [hem, if_true, AMap.find_erase] at hf'
      by_cases he : u.ep = e
      · simp [he] at hf'
      · simp only [he, if_false] at hf'; exact h.lbs e lb' hf'
    · simp only [hem, Bool.false_eq_true, if_false, AMap.find_insert] at hf'
      by_cases he : u.ep = e
      · simp only [he, if_true, Option.some.injEq] at hf'
        subst hf'
        refine ⟨?_, LB.inv_remove lb u.id (h.lbs _ _ hf).2⟩
        rw [h1]
        intro hnil
        apply hem; apply h2.mpr; simp [hnil]
      · simp only [he, if_false] at hf'; exact h.lbs e lb' hf'
  · intro e
    rw [hcluster, hcl e, hreg e]
    by_cases he : u.ep = e
    · subst he
      simp only [if_true, registry_of_find hf, hlerase]
    · simp only [he, if_false]; exact h.counts e
  · intro e
    unfold advertised
    rw [hgossip]
    have hl' : (m.cluster.removeLocalEndpoint u.ep).1.localEndpointListeners u.ep =
        ((lb.ups.length - 1 : Nat) : Int) := by
      unfold Cluster.State.localEndpointListeners
      rw [hcl u.ep]
      simp only [if_true, countOpt]
      by_cases h0 : lb.ups.length - 1 = 0 <;> simp [h0]
    rw [liveValue_onLocalEndpointUpdate _ _ _ _ hl', hreg e]
    by_cases he : u.ep = e
    · subst he
      simp only [if_true, registry_of_find hf, hlerase]
    · have : ¬ epKey u.ep = epKey e := fun hk => he (epKey_inj hk)
      simp only [this, he, if_false]; exact h.adv e

/-! ### Select -/

theorem registry_select (m : Mgr) (e : String) (a : Bool) (e' : String) (h : MInv m) :
    (m.select e a).2.registry e' = m.registry e' := by
  unfold Mgr.select
  cases hf : m.lbs.find e with
  | none =>
    by_cases ha : a = true
    · simp only [ha, Bool.not_true, Bool.false_eq_true, if_false]
      split <;> rfl
    · simp [ha]
  | some lb =>
    obtain ⟨hne, hinv⟩ := h.lbs e lb hf
    obtain ⟨hlt, hp⟩ := lb.pick_of_inv hinv hne
    simp only [hp]
    unfold Mgr.registry
    simp only [AMap.find_insert]
    by_cases he : e = e'
    · subst he; simp [hf]
    · simp [he]

theorem select_cluster_gossip (m : Mgr) (e : String) (a : Bool) :
    (m.select e a).2.cluster = m.cluster ∧ (m.select e a).2.gossip = m.gossip := by
  unfold Mgr.select
  cases hf : m.lbs.find e with
  | none =>
    by_cases ha : a = true
    · simp only [ha, Bool.not_true, Bool.false_eq_true, if_false]
      split <;> exact ⟨rfl, rfl⟩
    · simp [ha]
  | some lb =>
    simp only
    split <;> exact ⟨rfl, rfl⟩

theorem inv_select (m : Mgr) (e : String) (a : Bool) (h : MInv m) : MInv (m.select e a).2 := by
  obtain ⟨hc, hg⟩ := select_cluster_gossip m e a
  refine ⟨?_, ?_, ?_⟩
  · intro e' lb' hf'
    unfold Mgr.select at hf'
    cases hf : m.lbs.find e with
    | none =>
      simp only [hf] at hf'
      by_cases ha : a = true
      · simp only [ha, Bool.not_true, Bool.false_eq_true, if_false] at hf'
        split at hf' <;> exact h.lbs e' lb' hf'
      · simp only [ha, Bool.not_false, if_true] at hf'; exact h.lbs e' lb' hf'
    | some lb =>
      obtain ⟨hne, hinv⟩ := h.lbs e lb hf
      obtain ⟨hlt, hp⟩ := lb.pick_of_inv hinv hne
      simp only [hf, hp, AMap.find_insert] at hf'
      by_cases he : e = e'
      · simp only [he, if_true, Option.some.injEq] at hf'
        subst hf'
        refine ⟨hne, ?_⟩
        have := lb.inv_pick hinv; rw [hp] at this; exact this
      · simp only [he, if_false] at hf'; exact h.lbs e' lb' hf'
  · intro e'; rw [hc, registry_select m e a e' h]; exact h.counts e'
  · intro e'; unfold advertised; rw [hg, registry_select m e a e' h]; exact h.adv e'

theorem inv_step (m : Mgr) (op : Op) (h : MInv m) : MInv (m.step op) := by
  cases op with
  | add u => exact inv_addConn m u h
  | rm u => exact inv_removeConn m u h
  | sel e a => exact inv_select m e a h

theorem inv_run (ops : List Op) : ∀ (m : Mgr), MInv m → MInv (m.run ops) := by
  induction ops with
  | nil => intro m h; exact h
  | cons op ops ih => intro m h; exact ih _ (inv_step m op h)

end Piko.Upstream
