import Proofs.SysNet
import Proofs.SysTrace
import Proofs.GossipFlow
import Proofs.C14
import Proofs.MgrSpec
import Proofs.C17
import Proofs.Converge
/-!
# One node of the system: what holds between its gossip state, its syncer, its routing table and
its upstream registry (`NodeInv`), and the two ways a step changes it

* `NodeInv.observe` — the node's gossip state moves by receive-side operations (own state
  untouched) and the notifications are fed to the syncer;
* `NodeInv.localWrite` — the node's own gossip state is written (`LeaveLocal`, `CompactLocal`, the
  subscriber's `UpsertLocal`/`DeleteLocal`), no notification.
-/
set_option linter.unusedSimpArgs false
namespace Piko
open Piko.Gossip

/-! ## lists of notifications -/

namespace Gossip

theorem foldEvents_append (w : WView) (e1 e2 : List Event) :
    foldEvents w (e1 ++ e2) = foldEvents (foldEvents w e1) e2 := by simp [foldEvents]

theorem eventsOK_append (w : WView) (e1 e2 : List Event) :
    eventsOK w (e1 ++ e2) = (eventsOK w e1 && eventsOK (foldEvents w e1) e2) := by
  induction e1 generalizing w with
  | nil => simp [eventsOK, foldEvents]
  | cons e es ih => simp [eventsOK, foldEvents, ih, Bool.and_assoc]

end Gossip

/-! ## the syncer never touches the local row; two syncers that agree on the remote nodes -/

namespace SyncerSpec
open Cluster

theorem syncStep_local_row (s : Sync) (e : Event) (hp : PendOK s) :
    (syncStep s e).table.nodes.find s.table.localId = s.table.nodes.find s.table.localId := by
  by_cases h : evNode e = s.table.localId
  · rw [syncStep_local s e h]
  · rw [(upd_syncStep s e h hp).tbl]; simp [h]

theorem run_local_row (s : Sync) (evs : List Event) (hp : PendOK s) :
    (s.run evs).table.nodes.find s.table.localId = s.table.nodes.find s.table.localId := by
  induction evs generalizing s with
  | nil => rfl
  | cons e es ih =>
    have := ih (syncStep s e) (pendOK_syncStep s e hp)
    rw [syncStep_localId s e hp, syncStep_local_row s e hp] at this
    simpa [Sync.run] using this

theorem run_localNode (s : Sync) (evs : List Event) (hp : PendOK s) :
    (s.run evs).table.localNode = s.table.localNode := by
  unfold State.localNode
  rw [(run_invariants s evs hp).2, run_local_row s evs hp]

theorem run_append (s : Sync) (e1 e2 : List Event) : s.run (e1 ++ e2) = (s.run e1).run e2 := by
  simp [Sync.run]

/-- same local id, same row and pending entry for every remote node -/
def Agree (y1 y2 : Sync) : Prop :=
  y1.table.localId = y2.table.localId ∧ ∀ a, a ≠ y1.table.localId → atNode y1 a = atNode y2 a

theorem atNode_syncStep (s : Sync) (e : Event) (h : evNode e ≠ s.table.localId) (hp : PendOK s) (a : String) :
    atNode (syncStep s e) a =
      if evNode e = a then nsyncStep (evNode e) (atNode s (evNode e)) (evKind e) else atNode s a := by
  have u := upd_syncStep s e h hp
  unfold atNode
  rw [u.tbl a, u.pnd a]
  by_cases hx : evNode e = a <;> simp [hx, atNode]

theorem agree_step {y1 y2 : Sync} (e : Event) (hp1 : PendOK y1) (hp2 : PendOK y2) (h : Agree y1 y2) :
    Agree (syncStep y1 e) (syncStep y2 e) := by
  obtain ⟨hl, ha⟩ := h
  refine ⟨by rw [syncStep_localId y1 e hp1, syncStep_localId y2 e hp2, hl], ?_⟩
  intro a hne
  rw [syncStep_localId y1 e hp1] at hne
  by_cases hloc : evNode e = y1.table.localId
  · rw [syncStep_local y1 e hloc, syncStep_local y2 e (hl ▸ hloc)]
    exact ha a hne
  · rw [atNode_syncStep y1 e hloc hp1, atNode_syncStep y2 e (hl ▸ hloc) hp2, ha _ hloc]
    by_cases hx : evNode e = a
    · simp [hx]
    · simp only [hx, if_false]; exact ha a hne

theorem agree_run {y1 y2 : Sync} (evs : List Event) (hp1 : PendOK y1) (hp2 : PendOK y2) (h : Agree y1 y2) :
    Agree (y1.run evs) (y2.run evs) := by
  induction evs generalizing y1 y2 with
  | nil => exact h
  | cons e es ih =>
    have := ih (pendOK_syncStep y1 e hp1) (pendOK_syncStep y2 e hp2) (agree_step e hp1 hp2 h)
    simpa [Sync.run] using this

/-! ## the table stays a map (distinct keys) -/

theorem updateRemote_nodup (t : State) (id : String) (f : Node → Node) (h : t.nodes.NoDupKeys) :
    (t.updateRemote id f).1.nodes.NoDupKeys := by
  unfold State.updateRemote
  split
  · exact h
  · split
    · exact h
    · exact h.insert _ _

theorem updateRemoteEndpoint_nodup (t : State) (id e : String) (l : Int) (h : t.nodes.NoDupKeys) :
    (t.updateRemoteEndpoint id e l).1.nodes.NoDupKeys := updateRemote_nodup t id _ h

theorem removeRemoteEndpoint_nodup (t : State) (id e : String) (h : t.nodes.NoDupKeys) :
    (t.removeRemoteEndpoint id e).1.nodes.NoDupKeys := updateRemote_nodup t id _ h

theorem removeNode_nodup (t : State) (id : String) (h : t.nodes.NoDupKeys) :
    (t.removeNode id).1.nodes.NoDupKeys := by
  unfold State.removeNode
  split
  · exact h
  · split
    · exact h
    · exact h.erase _

theorem addNode_nodup (t : State) (n : Node) (h : t.nodes.NoDupKeys) : (t.addNode n).nodes.NoDupKeys := by
  unfold State.addNode
  split
  · exact h
  · exact h.insert _ _

theorem tableElsePending_nodup (s : Sync) (id : String) (tbl : State → State × Bool)
    (pend : AMap String Node → Node → AMap String Node) (h : s.table.nodes.NoDupKeys)
    (ht : (tbl s.table).1.nodes.NoDupKeys) : (s.tableElsePending id tbl pend).table.nodes.NoDupKeys := by
  unfold Sync.tableElsePending
  split
  · exact h
  · split
    · next t hb => rw [hb] at ht; exact ht
    · split <;> exact h

theorem upsertPending_nodup (s : Sync) (id k v : String) (h : s.table.nodes.NoDupKeys) :
    (s.upsertPending id k v).table.nodes.NoDupKeys := by
  unfold Sync.upsertPending
  split
  · exact h
  · split
    · exact h
    · split
      · exact addNode_nodup _ _ h
      · exact h

theorem syncStep_nodup (s : Sync) (e : Event) (h : s.table.nodes.NoDupKeys) :
    (syncStep s e).table.nodes.NoDupKeys := by
  cases e with
  | join id =>
    simp only [syncStep, Sync.onJoin]
    split
    · exact h
    · split
      · exact h
      · split <;> exact h
  | leave id => exact tableElsePending_nodup s id _ _ h (updateRemote_nodup _ _ _ h)
  | reachable id => exact tableElsePending_nodup s id _ _ h (updateRemote_nodup _ _ _ h)
  | unreachable id => exact tableElsePending_nodup s id _ _ h (updateRemote_nodup _ _ _ h)
  | expired id => exact tableElsePending_nodup s id _ _ h (removeNode_nodup _ _ h)
  | upsert id k v =>
    simp only [syncStep, Sync.onUpsertKey]
    split
    · exact h
    · split
      · exact h
      · cases hcut : cutPrefix endpointPrefix k with
        | none => exact upsertPending_nodup s id k v h
        | some eid =>
          cases hat : atoi v with
          | none => exact h
          | some l =>
            have hn := updateRemoteEndpoint_nodup s.table id eid l h
            cases hb : s.table.updateRemoteEndpoint id eid l with
            | mk t b =>
              rw [hb] at hn
              cases b with
              | true => simp only [hb]; exact hn
              | false => simp only [hb]; exact upsertPending_nodup s id k v h
  | delete id k =>
    simp only [syncStep, Sync.onDeleteKey]
    split
    · exact h
    · cases hcut : cutPrefix endpointPrefix k with
      | none => exact h
      | some eid =>
        have hn := removeRemoteEndpoint_nodup s.table id eid h
        cases hb : s.table.removeRemoteEndpoint id eid with
        | mk t b =>
          rw [hb] at hn
          cases b with
          | true => simp only [hb]; exact hn
          | false => simp only [hb]; split <;> exact h

theorem run_nodup (s : Sync) (evs : List Event) (h : s.table.nodes.NoDupKeys) :
    (s.run evs).table.nodes.NoDupKeys := by
  induction evs generalizing s with
  | nil => exact h
  | cons e es ih => simpa [Sync.run] using ih (syncStep s e) (syncStep_nodup s e h)

/-! ## liveness notifications -/

theorem liveOKn_of_notLive (o : Option NView) (x : Event) (h : Flow.NotLive x) : LiveOKn o (evKind x) := by
  cases x <;> cases o <;> simp_all [Flow.NotLive, LiveOKn, evKind]

theorem trace_live_of_notLive (l : String) : ∀ (ev : List Event) (v : WView),
    (∀ x ∈ ev, Flow.NotLive x) → Trace LiveOKn l v ev
  | [], _, _ => trivial
  | x :: xs, _, h => ⟨Or.inr (liveOKn_of_notLive _ x (h x (List.mem_cons_self ..))),
      trace_live_of_notLive l xs _ (fun y hy => h y (List.mem_cons_of_mem _ hy))⟩

/-- the fold does not flag `a` as left -/
def LeftFalse (v : WView) (a : String) : Prop := ∀ nv, v.find a = some nv → nv.left = false

theorem leftFalse_liveStep {v : WView} {a b : String} (e : Event)
    (he : e = .unreachable b ∨ e = .reachable b) (h : LeftFalse v a) : LeftFalse (viewStep v e) a := by
  intro nv hf
  rw [find_viewStep] at hf
  split at hf
  · rcases he with rfl | rfl <;>
      (cases hv : v.find a with
       | none => simp [evKind, nviewStep, hv] at hf
       | some n0 => simp only [evKind, nviewStep, hv, Option.some.injEq] at hf; subst hf; exact h n0 hv)
  · exact h nv hf

theorem trace_live_batch (l : String) : ∀ (ev : List Event) (v : WView),
    (∀ e ∈ ev, ∃ a, (e = .unreachable a ∨ e = .reachable a) ∧ LeftFalse v a) → Trace LiveOKn l v ev
  | [], _, _ => trivial
  | e :: es, v, h => by
    obtain ⟨a, hea, hla⟩ := h e (List.mem_cons_self ..)
    refine ⟨Or.inr ?_, trace_live_batch l es _ ?_⟩
    · rcases hea with rfl | rfl <;>
        (cases hv : v.find a with
         | none => simp [evNode, evKind, LiveOKn, hv]
         | some nv => simpa [evNode, evKind, LiveOKn, hv] using hla nv hv)
    · intro e' he'
      obtain ⟨a', hea', hla'⟩ := h e' (List.mem_cons_of_mem _ he')
      exact ⟨a', hea', leftFalse_liveStep e hea hla'⟩

/-- the (un)reachability notifications of one `UpdateLiveness` are admissible after any history
whose fold is the visible state: they are about nodes that are not flagged left -/
theorem trace_live_liveness (l : String) (g : CState) (f : String → Bool) (now : Nat)
    (w : Gossip.WView) (v : WView) (hwf : C14.StWF g) (hfold : C14.foldOK w g) (hsame : SameView w v) :
    Trace LiveOKn l v (updateLiveness g f now).2 := by
  apply trace_live_batch
  intro e he
  obtain ⟨p, hp, hev, hleft, hne⟩ := updateLiveness_events g f now e he
  obtain ⟨k, n⟩ := p
  have hfind : g.nodes.find k = some n := AMap.find_of_mem hwf.1 hp
  have hid : n.id = k := (hwf.2.1 k n hfind).1
  simp only at hev hleft hne
  rw [hid] at hev hne
  refine ⟨k, hev, ?_⟩
  intro nv hv
  have hden := (C14.foldOK_iff w g hwf).mp hfold
  have h1 := congrFun hden k
  have hw : w.find k = some nv.toW := by rw [hsame k, hv]; rfl
  simp only [C14.den, hw, Option.map_some, C14.avis, hne, if_false, hfind] at h1
  have := congrArg C14.ANode.left (Option.some.inj h1)
  simp only [C14.nden, C14.anode, NView.toW] at this
  rw [this]; exact hleft

end SyncerSpec

/-! ## the system-wide predicates the flow invariant is instantiated with -/

namespace Sys

/-- node `a` has left: its own gossip node is flagged (`LeaveLocal`) -/
def HasLeft (s : Sys) (a : String) : Prop := ∃ g, s.net.nodes.find a = some g ∧ (own g).left = true

/-- the proxy / admin address node `a` was started with (the local row of its routing table) -/
def proxyOf (s : Sys) (a : String) : Option String := (s.side.find a).map (·.table.localNode.proxyAddr)
def adminOf (s : Sys) (a : String) : Option String := (s.side.find a).map (·.table.localNode.adminAddr)

/-- what holds of every entry about node `a`, wherever it is stored or travelling: `Internal` exactly
on the reserved keys; a left marker only if `a` has left; the address keys are live and carry `a`'s
addresses -/
def Good (s : Sys) (a : String) (e : Entry) : Prop :=
  entryOK e = true ∧ (e.key = leftKey → s.HasLeft a) ∧
  (e.key = Cluster.proxyAddrKey → e.deleted = false ∧ s.proxyOf a = some e.value) ∧
  (e.key = Cluster.adminAddrKey → e.deleted = false ∧ s.adminOf a = some e.value)

theorem good_marker (s : Sys) : ∀ a e, s.Good a e → e.internal = true → e.key = leftKey → s.HasLeft a :=
  fun _ _ h _ hk => h.2.1 hk

/-- `s'` knows at least what `s` knows: who has left and everybody's addresses -/
structure Le (s s' : Sys) : Prop where
  left : ∀ a, s.HasLeft a → s'.HasLeft a
  proxy : ∀ a x, s.proxyOf a = some x → s'.proxyOf a = some x
  admin : ∀ a x, s.adminOf a = some x → s'.adminOf a = some x

theorem Le.good {s s' : Sys} (h : Le s s') : ∀ a e, s.Good a e → s'.Good a e :=
  fun a _ hg => ⟨hg.1, fun hk => h.left a (hg.2.1 hk),
    fun hk => ⟨(hg.2.2.1 hk).1, h.proxy a _ (hg.2.2.1 hk).2⟩,
    fun hk => ⟨(hg.2.2.2 hk).1, h.admin a _ (hg.2.2.2 hk).2⟩⟩

theorem good_version {s : Sys} {a : String} {e : Entry} (ver : Nat) (h : s.Good a e) :
    s.Good a { e with version := ver } := h

theorem deltaOK_of_good {s : Sys} {d : Delta} (h : Flow.DeltaGood s.Good d) : deltaOK d = true :=
  (C14.deltaOK_iff d).mpr fun de hde e he => (h de hde e he).1

theorem addrConst_of_upsertOK {s : Sys} {ev : List Event} (h : ∀ x ∈ ev, Flow.UpsertOK s.Good x) :
    SyncerSpec.AddrConst s.proxyOf s.adminOf ev := by
  intro a k v hm
  obtain ⟨e, hg, hk, hv, _, _⟩ := h _ hm
  subst hk hv
  exact ⟨fun hk => (hg.2.2.1 hk).2, fun hk => (hg.2.2.2 hk).2⟩

end Sys

/-! ## the side of a node -/

namespace Side

@[simp] theorem sync_table (sd : Side) : sd.sync.table = sd.table := rfl
@[simp] theorem sync_pending (sd : Side) : sd.sync.pending = sd.pending := rfl

theorem observe_sync (sd : Side) (ev : List Event) : (sd.observe ev).sync = sd.sync.run ev := rfl
@[simp] theorem observe_evs (sd : Side) (ev : List Event) : (sd.observe ev).evs = sd.evs ++ ev := rfl
@[simp] theorem observe_lbs (sd : Side) (ev : List Event) : (sd.observe ev).lbs = sd.lbs := rfl
theorem observe_table (sd : Side) (ev : List Event) : (sd.observe ev).table = (sd.sync.run ev).table := rfl

theorem observe_nil (sd : Side) : sd.observe [] = sd := by
  cases sd; simp [observe, sync, Cluster.Sync.run]

end Side

/-! ## the per-node invariant -/

/-- `n`'s side `sd` and gossip state `g`; `pa`/`aa` = everybody's boot addresses -/
structure NodeInv (pa aa : String → Option String) (n : String) (sd : Side) (g : CState) : Prop where
  lid : g.localId = n
  wf : C14.StWF g
  keys : C14.KeysOK g
  /-- C14: the fold of everything the watcher was told is the visible gossip state -/
  fold : C14.foldOK (Gossip.foldEvents [] sd.evs) g
  evok : eventsOK [] sd.evs = true
  live : SyncerSpec.NoLivenessAfterLeave n sd.evs
  addr : SyncerSpec.AddrConst pa aa sd.evs
  tlid : sd.table.localId = n
  pend : SyncerSpec.PendOK sd.sync
  /-- the syncer is the pure syncer run over everything the watcher was told (the local row, which
  the manager writes, aside) -/
  agree : SyncerSpec.Agree sd.sync ((Cluster.Sync.new { id := n }).run sd.evs)
  /-- C05: registry = cluster-local counts = live gossip entries -/
  minv : Upstream.MInv { lbs := sd.lbs, cluster := sd.table, gossip := g }
  ownwf : OwnWF g
  paddr : liveValue g Cluster.proxyAddrKey = some sd.table.localNode.proxyAddr
  aaddr : liveValue g Cluster.adminAddrKey = some sd.table.localNode.adminAddr
  /-- the routing table is a map, and its local row is there under the node's id -/
  tnd : sd.table.nodes.NoDupKeys
  tloc : ∃ row, sd.table.nodes.find n = some row ∧ row.id = n

theorem liveValue_congr {g g' : CState} (h : own g' = own g) (k : String) : liveValue g' k = liveValue g k := by
  unfold liveValue; rw [h]

theorem NodeInv.mono {pa aa pa' aa' : String → Option String} {n : String} {sd : Side} {g : CState}
    (h : NodeInv pa aa n sd g) (hp : ∀ a x, pa a = some x → pa' a = some x)
    (ha : ∀ a x, aa a = some x → aa' a = some x) : NodeInv pa' aa' n sd g :=
  { h with addr := fun a k v hm => ⟨fun hk => hp a v ((h.addr a k v hm).1 hk), fun hk => ha a v ((h.addr a k v hm).2 hk)⟩ }

theorem pendOK_new' (l : Cluster.Node) (evs : List Event) : SyncerSpec.PendOK ((Cluster.Sync.new l).run evs) :=
  (SyncerSpec.run_invariants _ evs (SyncerSpec.pendOK_new l)).1

/-- **Receive side.**  The gossip state moves from `g` to `g'` notifying `ev` (C14's `Good`), the own
node untouched; `ev` is fed to the syncer. -/
theorem NodeInv.observe {pa aa : String → Option String} {n : String} {sd : Side} {g g' : CState} {ev : List Event}
    (h : NodeInv pa aa n sd g) (hgood : C14.Good g (g', ev)) (hown : own g' = own g)
    (hlive : SyncerSpec.Trace SyncerSpec.LiveOKn n (SyncerSpec.foldEvents sd.evs) ev)
    (haddr : SyncerSpec.AddrConst pa aa ev) : NodeInv pa aa n (sd.observe ev) g' := by
  have hf := hgood.foldOK h.wf h.fold
  have hloc : (sd.sync.run ev).table.localNode = sd.table.localNode := SyncerSpec.run_localNode sd.sync ev h.pend
  refine
    { lid := hgood.lid.trans h.lid
      wf := hgood.wf
      keys := hgood.keys h.keys
      fold := by rw [Side.observe_evs, Gossip.foldEvents_append]; exact hf.1
      evok := by rw [Side.observe_evs, Gossip.eventsOK_append, h.evok, hf.2]; rfl
      live := by rw [Side.observe_evs]; exact SyncerSpec.Trace.append h.live hlive
      addr := by rw [Side.observe_evs]; exact h.addr.append haddr
      tlid := by
        rw [Side.observe_table, (SyncerSpec.run_invariants sd.sync ev h.pend).2]; exact h.tlid
      pend := by rw [Side.observe_sync]; exact (SyncerSpec.run_invariants sd.sync ev h.pend).1
      agree := by
        rw [Side.observe_sync, Side.observe_evs, SyncerSpec.run_append]
        exact SyncerSpec.agree_run ev h.pend (pendOK_new' _ _) h.agree
      minv := ?_
      ownwf := by unfold OwnWF at *; rw [hown]; exact h.ownwf
      paddr := by rw [liveValue_congr hown, Side.observe_table, hloc]; exact h.paddr
      aaddr := by rw [liveValue_congr hown, Side.observe_table, hloc]; exact h.aaddr
      tnd := by rw [Side.observe_table]; exact SyncerSpec.run_nodup _ _ h.tnd
      tloc := by
        rw [Side.observe_table]
        have := SyncerSpec.run_local_row sd.sync ev h.pend
        rw [Side.sync_table, h.tlid] at this
        rw [this]; exact h.tloc }
  refine ⟨h.minv.lbs, fun e => ?_, fun e => ?_⟩
  · show (sd.observe ev).table.localNode.endpoints.find e = _
    rw [Side.observe_table, hloc]; exact h.minv.counts e
  · show liveValue g' (Upstream.epKey e) = _
    rw [liveValue_congr hown]; exact h.minv.adv e

/-- **Own write.**  The node's own gossip state is written (no notification; C14's `LocalGood`), the
manager's stores move along keeping the C05 invariant; the syncer's part of the table is untouched. -/
theorem NodeInv.localWrite {pa aa : String → Option String} {n : String} {sd sd' : Side} {g g' : CState}
    (h : NodeInv pa aa n sd g) (hgood : C14.LocalGood g g') (hevs : sd'.evs = sd.evs)
    (hpend : sd'.pending = sd.pending) (hlid : sd'.table.localId = sd.table.localId)
    (hrows : ∀ a, a ≠ sd.table.localId → sd'.table.nodes.find a = sd.table.nodes.find a)
    (hminv : Upstream.MInv { lbs := sd'.lbs, cluster := sd'.table, gossip := g' })
    (hownwf : OwnWF g')
    (hp : liveValue g' Cluster.proxyAddrKey = some sd'.table.localNode.proxyAddr)
    (ha : liveValue g' Cluster.adminAddrKey = some sd'.table.localNode.adminAddr)
    (htnd : sd'.table.nodes.NoDupKeys) (htloc : ∃ row, sd'.table.nodes.find n = some row ∧ row.id = n) :
    NodeInv pa aa n sd' g' := by
  have hfold : C14.foldOK (Gossip.foldEvents [] sd.evs) g' := by
    have := h.fold; unfold C14.foldOK at *; rw [hgood.vis]; exact this
  exact
    { lid := hgood.lid.trans h.lid
      wf := hgood.wf
      keys := hgood.keys h.keys
      fold := by rw [hevs]; exact hfold
      evok := by rw [hevs]; exact h.evok
      live := by rw [hevs]; exact h.live
      addr := by rw [hevs]; exact h.addr
      tlid := hlid.trans h.tlid
      pend := by intro id x hx; exact h.pend id x (by simpa [Side.sync, hpend] using hx)
      agree := by
        rw [hevs]
        refine ⟨hlid.trans h.agree.1, fun a hne => ?_⟩
        have hne' : a ≠ sd.table.localId := by simpa [hlid] using hne
        rw [← h.agree.2 a hne']
        simp [SyncerSpec.atNode, hrows a hne', hpend]
      minv := hminv
      ownwf := hownwf
      paddr := hp
      aaddr := ha
      tnd := htnd
      tloc := htloc }

end Piko
