import PikoModel.Conc.LockOrder
/-!
# Ranked locks never reach a circular wait (lemmas for C20)

`WInv`: a blocked thread asked for its lock along edges of the graph (so, under `Ranked`,
everything it holds has a strictly smaller rank than what it waits for).  It is an invariant of
`Step`.  Along a wait-for path the rank of the awaited lock strictly increases, hence no path
returns to its start (`no_circular_wait`); and following holders from any blocked thread must
end, after at most `maxRank` hops, at a thread that can move (`progress`, the max-rank
argument).  `Excl` (mutual exclusion) is proved as a sanity check of the model.
-/
set_option linter.unusedSectionVars false

namespace Piko
namespace Conc

variable {L : Type} [DecidableEq L]

/-- a blocked thread requested its lock along edges of the lock-order graph -/
def WInv (edges : List (L × L)) (s : Sys L) : Prop :=
  ∀ i l, (s i).waiting = some l → ∀ h ∈ (s i).held, (h, l) ∈ edges

/-- mutual exclusion: a lock is held by at most one thread -/
def Excl (s : Sys L) : Prop :=
  ∀ i j l, l ∈ (s i).held → l ∈ (s j).held → i = j

theorem set_same (s : Sys L) (i : Nat) (t : Thread L) : (s.set i t) i = t := by
  simp [Sys.set]

theorem set_other (s : Sys L) (i j : Nat) (t : Thread L) (h : j ≠ i) : (s.set i t) j = s j := by
  simp [Sys.set, h]

theorem winv_step {edges : List (L × L)} {s s' : Sys L} (hs : WInv edges s)
    (st : Step edges s s') : WInv edges s' := by
  cases st with
  | request i l hw he =>
    intro j l' hj h hh
    by_cases hji : j = i
    · subst hji
      rw [set_same] at hj hh
      simp at hj
      subst hj
      exact he h hh
    · rw [set_other _ _ _ _ hji] at hj hh
      exact hs j l' hj h hh
  | grant i l hw hfree =>
    intro j l' hj h hh
    by_cases hji : j = i
    · subst hji
      rw [set_same] at hj
      simp at hj
    · rw [set_other _ _ _ _ hji] at hj hh
      exact hs j l' hj h hh
  | release i l hw =>
    intro j l' hj h hh
    by_cases hji : j = i
    · subst hji
      rw [set_same] at hj
      simp at hj
    · rw [set_other _ _ _ _ hji] at hj hh
      exact hs j l' hj h hh

theorem winv_reach {edges : List (L × L)} {s : Sys L} (h : Reach edges s) : WInv edges s := by
  induction h with
  | init => intro i l hw; simp [Sys.idle] at hw
  | step _ st ih => exact winv_step ih st

theorem excl_step {edges : List (L × L)} {s s' : Sys L} (hs : Excl s)
    (st : Step edges s s') : Excl s' := by
  cases st with
  | request i l hw he =>
    intro a b x ha hb
    have ha' : x ∈ (s a).held := by
      by_cases h : a = i
      · subst h; rw [set_same] at ha; exact ha
      · rw [set_other _ _ _ _ h] at ha; exact ha
    have hb' : x ∈ (s b).held := by
      by_cases h : b = i
      · subst h; rw [set_same] at hb; exact hb
      · rw [set_other _ _ _ _ h] at hb; exact hb
    exact hs a b x ha' hb'
  | grant i l hw hfree =>
    intro a b x ha hb
    by_cases hai : a = i
    · by_cases hbi : b = i
      · rw [hai, hbi]
      · subst hai
        rw [set_same] at ha
        rw [set_other _ _ _ _ hbi] at hb
        simp at ha
        rcases ha with ha | ha
        · subst ha; exact absurd hb (hfree b)
        · exact hs a b x ha hb
    · by_cases hbi : b = i
      · subst hbi
        rw [set_same] at hb
        rw [set_other _ _ _ _ hai] at ha
        simp at hb
        rcases hb with hb | hb
        · subst hb; exact absurd ha (hfree a)
        · exact hs a b x ha hb
      · rw [set_other _ _ _ _ hai] at ha
        rw [set_other _ _ _ _ hbi] at hb
        exact hs a b x ha hb
  | release i l hw =>
    intro a b x ha hb
    have ha' : x ∈ (s a).held := by
      by_cases h : a = i
      · subst h; rw [set_same] at ha; exact List.mem_of_mem_erase ha
      · rw [set_other _ _ _ _ h] at ha; exact ha
    have hb' : x ∈ (s b).held := by
      by_cases h : b = i
      · subst h; rw [set_same] at hb; exact List.mem_of_mem_erase hb
      · rw [set_other _ _ _ _ h] at hb; exact hb
    exact hs a b x ha' hb'

theorem excl_reach {edges : List (L × L)} {s : Sys L} (h : Reach edges s) : Excl s := by
  induction h with
  | init => intro i j l hi; simp [Sys.idle] at hi
  | step _ st ih => exact excl_step ih st

/-- along a wait-for path the awaited lock's rank strictly increases -/
theorem path_rank {edges : List (L × L)} {rank : L → Nat} (hr : Ranked rank edges)
    {s : Sys L} (hs : WInv edges s) :
    ∀ (xs : List Nat) (a b : Nat) (lb : L), WaitPath s a xs b → (s b).waiting = some lb →
      ∃ la, (s a).waiting = some la ∧ rank la < rank lb := by
  intro xs
  induction xs with
  | nil =>
    intro a b lb hp hb
    obtain ⟨la, hwa, hheld⟩ := hp
    exact ⟨la, hwa, hr _ (hs b lb hb la hheld)⟩
  | cons x xs ih =>
    intro a b lb hp hb
    obtain ⟨⟨la, hwa, hheld⟩, hrest⟩ := hp
    obtain ⟨lx, hwx, hlt⟩ := ih x b lb hrest hb
    have h1 : rank la < rank lx := hr _ (hs x lx hwx la hheld)
    exact ⟨la, hwa, Nat.lt_trans h1 hlt⟩

theorem path_start_waits {s : Sys L} : ∀ (xs : List Nat) (a b : Nat), WaitPath s a xs b →
    ∃ la, (s a).waiting = some la := by
  intro xs a b hp
  cases xs with
  | nil => obtain ⟨la, h, _⟩ := hp; exact ⟨la, h⟩
  | cons x xs => obtain ⟨⟨la, h, _⟩, _⟩ := hp; exact ⟨la, h⟩

/-- **No circular wait**: with a strictly increasing rank along every edge of the lock-order
graph, no state reachable by any number of threads contains a wait-for cycle. -/
theorem no_circular_wait {edges : List (L × L)} {rank : L → Nat} (hr : Ranked rank edges)
    {s : Sys L} (h : Reach edges s) : ¬ CircularWait s := by
  intro ⟨t, xs, hp⟩
  have hs := winv_reach h
  obtain ⟨lt, hwt⟩ := path_start_waits xs t t hp
  obtain ⟨la, hwa, hlt⟩ := path_rank hr hs xs t t lt hp hwt
  rw [hwt] at hwa
  simp at hwa
  subst hwa
  exact Nat.lt_irrefl _ hlt

/-- the largest rank of an edge target -/
def maxRank (rank : L → Nat) (edges : List (L × L)) : Nat :=
  edges.foldr (fun e m => max (rank e.2) m) 0

theorem le_maxRank (rank : L → Nat) (edges : List (L × L)) (e : L × L) (h : e ∈ edges) :
    rank e.2 ≤ maxRank rank edges := by
  induction edges with
  | nil => simp at h
  | cons x xs ih =>
    simp only [maxRank, List.foldr_cons]
    rcases List.mem_cons.mp h with h | h
    · subst h; exact Nat.le_max_left _ _
    · exact Nat.le_trans (ih h) (Nat.le_max_right _ _)

theorem progress_aux {edges : List (L × L)} {rank : L → Nat} (hr : Ranked rank edges)
    {s : Sys L} (hs : WInv edges s) :
    ∀ (n i : Nat) (l : L), (s i).waiting = some l → rank l ≤ maxRank rank edges →
      maxRank rank edges - rank l ≤ n → ∃ j, CanMove s j := by
  intro n
  induction n with
  | zero =>
    intro i l hw hle hn
    by_cases hfree : ∀ k, l ∉ (s k).held
    · exact ⟨i, Or.inl ⟨l, hw, hfree⟩⟩
    · have ⟨k, hk⟩ : ∃ k, l ∈ (s k).held := Classical.not_forall_not.mp hfree
      cases hwk : (s k).waiting with
      | none => exact ⟨k, Or.inr ⟨hwk, List.ne_nil_of_mem hk⟩⟩
      | some l' =>
        have hedge := hs k l' hwk l hk
        have h1 : rank l < rank l' := hr _ hedge
        have h2 : rank l' ≤ maxRank rank edges := le_maxRank rank edges _ hedge
        omega
  | succ n ih =>
    intro i l hw hle hn
    by_cases hfree : ∀ k, l ∉ (s k).held
    · exact ⟨i, Or.inl ⟨l, hw, hfree⟩⟩
    · have ⟨k, hk⟩ : ∃ k, l ∈ (s k).held := Classical.not_forall_not.mp hfree
      cases hwk : (s k).waiting with
      | none => exact ⟨k, Or.inr ⟨hwk, List.ne_nil_of_mem hk⟩⟩
      | some l' =>
        have hedge := hs k l' hwk l hk
        have h1 : rank l < rank l' := hr _ hedge
        have h2 : rank l' ≤ maxRank rank edges := le_maxRank rank edges _ hedge
        exact ih k l' hwk h2 (by omega)

/-- **Progress**: in a reachable state where some thread is blocked, some thread can move
(a blocked thread whose lock is free, or a running lock holder). -/
theorem progress {edges : List (L × L)} {rank : L → Nat} (hr : Ranked rank edges)
    {s : Sys L} (h : Reach edges s) (i : Nat) (l : L) (hw : (s i).waiting = some l) :
    ∃ j, CanMove s j := by
  have hs := winv_reach h
  by_cases hfree : ∀ k, l ∉ (s k).held
  · exact ⟨i, Or.inl ⟨l, hw, hfree⟩⟩
  · have ⟨k, hk⟩ : ∃ k, l ∈ (s k).held := Classical.not_forall_not.mp hfree
    cases hwk : (s k).waiting with
    | none => exact ⟨k, Or.inr ⟨hwk, List.ne_nil_of_mem hk⟩⟩
    | some l' =>
      have hedge := hs k l' hwk l hk
      have h2 : rank l' ≤ maxRank rank edges := le_maxRank rank edges _ hedge
      exact progress_aux hr hs _ k l' hwk h2 (Nat.le_refl _)

end Conc
end Piko
