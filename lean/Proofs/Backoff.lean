import PikoModel.Node.Backoff
/-!
# Lemmas about the backoff model and the connect / join loops (C18)

* one `Backoff()` call: `step_retry`, `step_abort`, the jitter offset always lands in the
  accepted interval (`okWait_jitterWait`);
* runs of granted calls (`runWaits`): parameters are kept, `attempts` counts the grants, every
  wait lies in `[min, hi max]`, the un-jittered value never decreases and is at least
  `min (max, min·2^k)` after `k` grants;
* the retries guard: `retries = 0` never aborts; `retries = n > 0` grants exactly `n + 1`;
* `connectFrom` / `joinFrom` over a prefix of retryable failures is a `runWaits` run.
Core Lean only.
-/
namespace Piko.Backoff

/-! ### one call -/

theorem base_le_max (s : St) : base s ≤ s.max := by
  unfold base; omega

theorem hi_mono {a b : Nat} (h : a ≤ b) : hi a ≤ hi b := by
  unfold hi
  have : a / 10 ≤ b / 10 := Nat.div_le_div_right h
  omega

theorem okWait_iff (s : St) (w : Nat) : okWait s w = true ↔ base s ≤ w ∧ w ≤ hi (base s) := by
  simp [okWait]

theorem step_retry (s : St) (w w' : Nat) (s' : St) :
    step s w = .retry w' s' ↔
      exhausted s = false ∧ okWait s w = true ∧ w' = w ∧
        s' = { s with attempts := s.attempts + 1, last := w } := by
  unfold step
  by_cases h1 : exhausted s = true
  · simp [h1]
  · by_cases h2 : okWait s w = true
    · simp [h1, h2]; constructor
      · rintro ⟨rfl, rfl⟩; exact ⟨rfl, rfl⟩
      · rintro ⟨rfl, rfl⟩; exact ⟨rfl, rfl⟩
    · simp [h1, h2]

theorem step_abort (s : St) (w : Nat) : step s w = .abort ↔ exhausted s = true := by
  unfold step
  by_cases h1 : exhausted s = true
  · simp [h1]
  · by_cases h2 : okWait s w = true <;> simp [h1, h2]

theorem step_of_ok (s : St) (w : Nat) (h1 : exhausted s = false) (h2 : okWait s w = true) :
    step s w = .retry w { s with attempts := s.attempts + 1, last := w } :=
  (step_retry s w w _).mpr ⟨h1, h2, rfl, rfl⟩

theorem okWait_base (s : St) : okWait s (base s) = true := by
  rw [okWait_iff]; unfold hi; omega

theorem okWait_jitterWait (s : St) (j : Nat) : okWait s (jitterWait s j) = true := by
  rw [okWait_iff]
  unfold jitterWait hi
  have : j % (base s / 10 + 2) < base s / 10 + 2 := Nat.mod_lt _ (by omega)
  omega

/-- every value of the accepted interval is a `jitterWait` -/
theorem jitterWait_surj (s : St) (w : Nat) (h : okWait s w = true) :
    jitterWait s (w - base s) = w := by
  rw [okWait_iff] at h
  unfold jitterWait
  unfold hi at h
  rw [Nat.mod_eq_of_lt (by omega)]
  omega

theorem exhausted_of_retries_zero (s : St) (h : s.retries = 0) : exhausted s = false := by
  simp [exhausted, h]

theorem exhausted_iff (s : St) : exhausted s = true ↔ s.retries ≠ 0 ∧ s.retries < s.attempts := by
  simp [exhausted]

theorem stepSt_abort (s : St) (w : Nat) (h : exhausted s = true) : stepSt s w = s := by
  unfold stepSt; rw [(step_abort s w).mpr h]

/-! ### runs of granted calls -/

theorem runWaits_cons (s : St) (w : Nat) (ws : List Nat) (s' : St) :
    runWaits s (w :: ws) = some s' ↔
      exhausted s = false ∧ okWait s w = true ∧
        runWaits { s with attempts := s.attempts + 1, last := w } ws = some s' := by
  simp only [runWaits]
  by_cases h1 : exhausted s = true
  · rw [(step_abort s w).mpr h1]; simp [h1]
  · by_cases h2 : okWait s w = true
    · rw [step_of_ok s w (by simpa using h1) h2]; simp [h1, h2]
    · have : step s w = .outOfRange (base s) (hi (base s)) := by
        unfold step; simp [h1, h2]
      rw [this]; simp [h2]

theorem runWaits_append (s : St) (ws1 ws2 : List Nat) :
    runWaits s (ws1 ++ ws2) = (runWaits s ws1).bind (fun s1 => runWaits s1 ws2) := by
  induction ws1 generalizing s with
  | nil => rfl
  | cons w ws ih =>
    simp only [List.cons_append, runWaits]
    cases step s w with
    | retry _ s' => exact ih s'
    | abort => rfl
    | outOfRange _ _ => rfl

/-- parameters are constants of a run, `attempts` counts the granted calls -/
theorem runWaits_params (s s' : St) (ws : List Nat) (h : runWaits s ws = some s') :
    s'.retries = s.retries ∧ s'.min = s.min ∧ s'.max = s.max ∧
      s'.attempts = s.attempts + ws.length := by
  induction ws generalizing s with
  | nil => simp [runWaits] at h; subst h; simp
  | cons w ws ih =>
    rw [runWaits_cons] at h
    obtain ⟨_, _, h3⟩ := h
    have := ih _ h3
    simp only [List.length_cons] at this ⊢
    omega

/-- upper bound of every wait: needs nothing about `min`, `max` -/
theorem runWaits_le (s s' : St) (ws : List Nat) (h : runWaits s ws = some s') :
    ∀ w ∈ ws, w ≤ hi s.max := by
  induction ws generalizing s with
  | nil => intro w hw; cases hw
  | cons x xs ih =>
    rw [runWaits_cons] at h
    obtain ⟨_, h2, h3⟩ := h
    intro w hw
    rcases List.mem_cons.mp hw with rfl | hw
    · rw [okWait_iff] at h2
      exact Nat.le_trans h2.2 (hi_mono (base_le_max s))
    · exact ih _ h3 w hw

/-- the state invariant behind the lower bound: the stored wait is `0` (fresh) or `≥ min` -/
def Inv (s : St) : Prop := s.last = 0 ∨ s.min ≤ s.last

theorem inv_new (r mn mx : Nat) : Inv (new r mn mx) := Or.inl rfl

theorem min_le_base (s : St) (hi' : Inv s) (hle : s.min ≤ s.max) : s.min ≤ base s := by
  unfold base
  rcases hi' with h | h
  · simp [h]; omega
  · by_cases h0 : s.last = 0
    · simp [h0]; omega
    · simp [h0]; omega

theorem runWaits_ge (s s' : St) (ws : List Nat) (hinv : Inv s) (hle : s.min ≤ s.max)
    (h : runWaits s ws = some s') : (∀ w ∈ ws, s.min ≤ w) ∧ Inv s' := by
  induction ws generalizing s with
  | nil => simp [runWaits] at h; subst h; exact ⟨(by intro w hw; cases hw), hinv⟩
  | cons x xs ih =>
    rw [runWaits_cons] at h
    obtain ⟨_, h2, h3⟩ := h
    rw [okWait_iff] at h2
    have hx : s.min ≤ x := Nat.le_trans (min_le_base s hinv hle) h2.1
    obtain ⟨ih1, ih2⟩ := ih { s with attempts := s.attempts + 1, last := x } (Or.inr hx) hle h3
    refine ⟨?_, ih2⟩
    intro w hw
    rcases List.mem_cons.mp hw with rfl | hw
    · exact hx
    · exact ih1 w hw

/-- one granted call does not lower the un-jittered value, and at least doubles it up to the cap -/
theorem base_step (s : St) (w : Nat) (hinv : Inv s) (hmin : 0 < s.min) (hle : s.min ≤ s.max)
    (h2 : okWait s w = true) :
    base s ≤ base { s with attempts := s.attempts + 1, last := w } ∧
    Min.min s.max (2 * base s) ≤ base { s with attempts := s.attempts + 1, last := w } := by
  rw [okWait_iff] at h2
  have hb := min_le_base s hinv hle
  have hm := base_le_max s
  have hw : w ≠ 0 := by omega
  simp only [base, hw, if_false]
  simp only [base] at h2 hb hm
  omega

theorem runWaits_base_mono (s s' : St) (ws : List Nat) (hinv : Inv s) (hmin : 0 < s.min)
    (hle : s.min ≤ s.max) (h : runWaits s ws = some s') : base s ≤ base s' := by
  induction ws generalizing s with
  | nil => simp [runWaits] at h; subst h; exact Nat.le_refl _
  | cons x xs ih =>
    rw [runWaits_cons] at h
    obtain ⟨_, h2, h3⟩ := h
    have hb := (base_step s x hinv hmin hle h2).1
    have hx : s.min ≤ x := by
      rw [okWait_iff] at h2
      exact Nat.le_trans (min_le_base s hinv hle) h2.1
    exact Nat.le_trans hb (ih { s with attempts := s.attempts + 1, last := x } (Or.inr hx) hmin hle h3)

/-- after `k` granted calls the un-jittered value is at least `L·2^k` capped at `max`, when it
was at least `L` capped at `max` before -/
theorem runWaits_base_growth (s s' : St) (ws : List Nat) (L : Nat) (hinv : Inv s)
    (hmin : 0 < s.min) (hle : s.min ≤ s.max) (hL : Min.min s.max L ≤ base s)
    (h : runWaits s ws = some s') : Min.min s.max (L * 2 ^ ws.length) ≤ base s' := by
  induction ws generalizing s L with
  | nil => simp [runWaits] at h; subst h; simpa using hL
  | cons x xs ih =>
    rw [runWaits_cons] at h
    obtain ⟨_, h2, h3⟩ := h
    have hb := (base_step s x hinv hmin hle h2).2
    have hx : s.min ≤ x := by
      rw [okWait_iff] at h2
      exact Nat.le_trans (min_le_base s hinv hle) h2.1
    have := ih { s with attempts := s.attempts + 1, last := x } (2 * L) (Or.inr hx) hmin hle
      (by show Min.min s.max (2 * L) ≤ _; omega) h3
    have e : 2 * L * 2 ^ xs.length = L * 2 ^ (x :: xs).length := by
      rw [List.length_cons, Nat.pow_succ]
      rw [Nat.mul_comm 2 L, Nat.mul_assoc, Nat.mul_comm 2]
    rw [e] at this
    exact this

/-- the `k`-th wait of a run is at least `L·2^k` capped at `max` -/
theorem runWaits_nth_ge (s s' : St) (ws : List Nat) (L : Nat) (hinv : Inv s)
    (hmin : 0 < s.min) (hle : s.min ≤ s.max) (hL : Min.min s.max L ≤ base s)
    (h : runWaits s ws = some s') (k : Nat) (w : Nat) (hk : ws[k]? = some w) :
    Min.min s.max (L * 2 ^ k) ≤ w := by
  induction ws generalizing s L k with
  | nil => simp at hk
  | cons x xs ih =>
    rw [runWaits_cons] at h
    obtain ⟨_, h2, h3⟩ := h
    have hx : s.min ≤ x := by
      rw [okWait_iff] at h2
      exact Nat.le_trans (min_le_base s hinv hle) h2.1
    cases k with
    | zero =>
      simp at hk; subst hk
      rw [okWait_iff] at h2
      simp; omega
    | succ k =>
      have hb := (base_step s x hinv hmin hle h2).2
      have := ih { s with attempts := s.attempts + 1, last := x } (2 * L) (Or.inr hx) hmin hle
        (by show Min.min s.max (2 * L) ≤ _; omega) h3 k (by simpa using hk)
      have e : 2 * L * 2 ^ k = L * 2 ^ (k + 1) := by
        rw [Nat.pow_succ, Nat.mul_comm 2 L, Nat.mul_assoc, Nat.mul_comm 2]
      rw [e] at this
      exact this

/-- with a retries limit a run of granted calls is short -/
theorem runWaits_length_le (s s' : St) (ws : List Nat) (hr : s.retries ≠ 0) (hne : ws ≠ [])
    (h : runWaits s ws = some s') : s.attempts + ws.length ≤ s.retries + 1 := by
  induction ws generalizing s with
  | nil => exact absurd rfl hne
  | cons w ws ih =>
    rw [runWaits_cons] at h
    obtain ⟨hex, _, h3⟩ := h
    have hx : ¬ (s.retries ≠ 0 ∧ s.retries < s.attempts) := by
      rw [← exhausted_iff]; simp [hex]
    by_cases hn : ws = []
    · subst hn; simp only [List.length_cons, List.length_nil]; omega
    · have := ih { s with attempts := s.attempts + 1, last := w } hr hn h3
      simp only [List.length_cons]
      have e : ({ s with attempts := s.attempts + 1, last := w } : St).attempts = s.attempts + 1 := rfl
      have e2 : ({ s with attempts := s.attempts + 1, last := w } : St).retries = s.retries := rfl
      rw [e, e2] at this
      omega

/-- the canonical run: every call takes the un-jittered value -/
def baseRun : St → Nat → List Nat
  | _, 0 => []
  | s, k + 1 => base s :: baseRun { s with attempts := s.attempts + 1, last := base s } k

theorem length_baseRun (s : St) (k : Nat) : (baseRun s k).length = k := by
  induction k generalizing s with
  | zero => rfl
  | succ k ih => simp [baseRun, ih]

/-- as long as the guard allows it, calls are granted -/
theorem runWaits_baseRun (s : St) (k : Nat)
    (h : s.retries = 0 ∨ s.attempts + k ≤ s.retries + 1) :
    ∃ s', runWaits s (baseRun s k) = some s' := by
  induction k generalizing s with
  | zero => exact ⟨s, rfl⟩
  | succ k ih =>
    have hex : exhausted s = false := by
      cases hx : exhausted s with
      | false => rfl
      | true => rw [exhausted_iff] at hx; omega
    obtain ⟨s', hs'⟩ := ih { s with attempts := s.attempts + 1, last := base s } (by
      rcases h with h | h
      · exact Or.inl h
      · right; show s.attempts + 1 + k ≤ s.retries + 1; omega)
    exact ⟨s', (runWaits_cons s (base s) _ s').mpr ⟨hex, okWait_base s, hs'⟩⟩

/-- the outcomes of an arbitrary sequence of calls (rejected proposals and aborts leave the
state unchanged) -/
def outcomes : St → List Nat → List Outcome
  | _, [] => []
  | s, w :: ws => step s w :: outcomes (stepSt s w) ws

theorem stepSt_retries (s : St) (w : Nat) : (stepSt s w).retries = s.retries := by
  unfold stepSt
  cases h : step s w with
  | retry w' s' => rw [step_retry] at h; obtain ⟨_, _, _, rfl⟩ := h; rfl
  | abort => rfl
  | outOfRange _ _ => rfl

theorem outcomes_no_abort (s : St) (h : s.retries = 0) (ws : List Nat) :
    Outcome.abort ∉ outcomes s ws := by
  induction ws generalizing s with
  | nil => simp [outcomes]
  | cons w ws ih =>
    simp only [outcomes, List.mem_cons, not_or]
    refine ⟨?_, ih _ (by rw [stepSt_retries]; exact h)⟩
    intro e
    have := (step_abort s w).mp e.symm
    rw [exhausted_of_retries_zero s h] at this
    cases this

theorem outcomes_all_abort (s : St) (h : exhausted s = true) (ws : List Nat) :
    ∀ o ∈ outcomes s ws, o = Outcome.abort := by
  induction ws with
  | nil => intro o ho; cases ho
  | cons w ws ih =>
    intro o ho
    simp only [outcomes, List.mem_cons] at ho
    rcases ho with rfl | ho
    · exact (step_abort s w).mpr h
    · rw [stepSt_abort s w h] at ho; exact ih o ho

/-! ### `Upstream.connect` -/

/-- a failed dial that is retried after a full wait -/
def Attempt.retried (a : Attempt) : Prop :=
  classify a.dial = .retryable ∧ a.ctxErr = false ∧ a.cancelInWait = false

theorem connectFrom_retried (b : St) (hb : b.retries = 0) (a : Attempt) (ha : a.retried)
    (rest : List Attempt) (n : Nat) (ws : List Nat) (ab : Nat) :
    connectFrom b (a :: rest) n ws ab =
      connectFrom { b with attempts := b.attempts + 1, last := jitterWait b a.jitter } rest (n + 1)
        (ws ++ [jitterWait b a.jitter]) ab := by
  obtain ⟨h1, h2, h3⟩ := ha
  have hs := step_of_ok b (jitterWait b a.jitter) (exhausted_of_retries_zero b hb)
    (okWait_jitterWait b a.jitter)
  simp only [connectFrom, h1, h2, h3, hs]
  simp

/-- the waits of a prefix of retried attempts -/
def prefixWaits : St → List Attempt → List Nat
  | _, [] => []
  | b, a :: as =>
    jitterWait b a.jitter ::
      prefixWaits { b with attempts := b.attempts + 1, last := jitterWait b a.jitter } as

theorem length_prefixWaits (b : St) (as : List Attempt) : (prefixWaits b as).length = as.length := by
  induction as generalizing b with
  | nil => rfl
  | cons a as ih => simp [prefixWaits, ih]

/-- over a prefix of retried attempts the loop is a run of granted `Backoff()` calls -/
theorem connectFrom_prefix (b : St) (hb : b.retries = 0) (fails : List Attempt)
    (hf : ∀ a ∈ fails, a.retried) (rest : List Attempt) (n : Nat) (ws : List Nat) (ab : Nat) :
    ∃ b', runWaits b (prefixWaits b fails) = some b' ∧ b'.retries = 0 ∧
      connectFrom b (fails ++ rest) n ws ab =
        connectFrom b' rest (n + fails.length) (ws ++ prefixWaits b fails) ab := by
  induction fails generalizing b n ws with
  | nil => exact ⟨b, rfl, hb, by simp [prefixWaits]⟩
  | cons a as ih =>
    have ha := hf a (List.mem_cons_self ..)
    obtain ⟨b', h1, h2, h3⟩ := ih { b with attempts := b.attempts + 1, last := jitterWait b a.jitter }
      hb (fun x hx => hf x (List.mem_cons_of_mem _ hx)) (n + 1) (ws ++ [jitterWait b a.jitter])
    refine ⟨b', ?_, h2, ?_⟩
    · simp only [prefixWaits]
      exact (runWaits_cons b _ _ b').mpr
        ⟨exhausted_of_retries_zero b hb, okWait_jitterWait b a.jitter, h1⟩
    · rw [List.cons_append, connectFrom_retried b hb a ha, h3]
      simp only [prefixWaits, List.length_cons, List.append_assoc, List.singleton_append]
      congr 1; omega

/-- general shape of a `connectFrom` result (`retries = 0`): what each result implies about
the attempts consumed -/
theorem connectFrom_results (b : St) (hb : b.retries = 0) (as : List Attempt) (n : Nat)
    (ws : List Nat) (ab : Nat) :
    (connectFrom b as n ws ab).aborts = ab ∧
    (connectFrom b as n ws ab).result ≠ .badJitter ∧
    ((connectFrom b as n ws ab).result = .connected → ∃ a ∈ as, a.dial = .ok) ∧
    (∀ code, (connectFrom b as n ws ab).result = .errPermanent code →
      retryableStatusCodes.contains code = false ∧
        ∃ a ∈ as, a.dial = .status code ∧ a.ctxErr = false) ∧
    ((connectFrom b as n ws ab).result = .errCtx →
      ∃ a ∈ as, a.dial ≠ .ok ∧ (a.ctxErr = true ∨ a.cancelInWait = true)) ∧
    ((connectFrom b as n ws ab).result = .stillRetrying →
      (connectFrom b as n ws ab).attempts = n + as.length ∧ ∀ a ∈ as, a.retried) ∧
    (connectFrom b as n ws ab).attempts ≤ n + as.length ∧
    (as ≠ [] → n < (connectFrom b as n ws ab).attempts) := by
  induction as generalizing b n ws with
  | nil => simp [connectFrom]
  | cons a as ih =>
    by_cases hret : a.retried
    · rw [connectFrom_retried b hb a hret]
      obtain ⟨i1, i2, i3, i4, i5, i6, i7, i8⟩ :=
        ih { b with attempts := b.attempts + 1, last := jitterWait b a.jitter } hb (n + 1)
          (ws ++ [jitterWait b a.jitter])
      refine ⟨i1, i2, ?_, ?_, ?_, ?_, ?_, ?_⟩
      · intro h; obtain ⟨x, hx, hx2⟩ := i3 h; exact ⟨x, List.mem_cons_of_mem _ hx, hx2⟩
      · intro code h; obtain ⟨h1, x, hx, hx2⟩ := i4 code h
        exact ⟨h1, x, List.mem_cons_of_mem _ hx, hx2⟩
      · intro h; obtain ⟨x, hx, hx2⟩ := i5 h; exact ⟨x, List.mem_cons_of_mem _ hx, hx2⟩
      · intro h; obtain ⟨h1, h2⟩ := i6 h
        refine ⟨by rw [h1, List.length_cons]; omega, ?_⟩
        intro x hx
        rcases List.mem_cons.mp hx with hx | hx
        · rw [hx]; exact hret
        · exact h2 x hx
      · rw [List.length_cons]; omega
      · intro _
        by_cases hn : as = []
        · subst hn; simp [connectFrom]
        · have := i8 hn; omega
    · have hmem : a ∈ a :: as := List.mem_cons_self ..
      cases hd : a.dial with
      | ok =>
        simp only [connectFrom, hd, classify]
        exact ⟨by simp, by simp, fun _ => ⟨a, hmem, hd⟩, by simp, by simp, by simp, by simp, by simp⟩
      | noResponse =>
        by_cases hc : a.ctxErr = true
        · simp only [connectFrom, hd, classify, hc, if_true]
          exact ⟨by simp, by simp, by simp, by simp,
            fun _ => ⟨a, hmem, by simp [hd], Or.inl hc⟩, by simp, by simp, by simp⟩
        · have hc' : a.ctxErr = false := by simpa using hc
          have hs := step_of_ok b (jitterWait b a.jitter) (exhausted_of_retries_zero b hb)
            (okWait_jitterWait b a.jitter)
          have hw : a.cancelInWait = true := by
            cases hw : a.cancelInWait with
            | true => rfl
            | false => exact absurd ⟨by rw [hd]; rfl, hc', hw⟩ hret
          simp only [connectFrom, hd, classify, hc', hs, hw, if_true]
          exact ⟨by simp, by simp, by simp, by simp,
            fun _ => ⟨a, hmem, by simp [hd], Or.inr hw⟩, by simp, by simp, by simp⟩
      | status c =>
        by_cases hr : retryableStatusCodes.contains c = true
        · by_cases hc : a.ctxErr = true
          · simp only [connectFrom, hd, classify, hr, if_true, hc]
            exact ⟨by simp, by simp, by simp, by simp,
              fun _ => ⟨a, hmem, by simp [hd], Or.inl hc⟩, by simp, by simp, by simp⟩
          · have hc' : a.ctxErr = false := by simpa using hc
            have hs := step_of_ok b (jitterWait b a.jitter) (exhausted_of_retries_zero b hb)
              (okWait_jitterWait b a.jitter)
            have hw : a.cancelInWait = true := by
              cases hw : a.cancelInWait with
              | true => rfl
              | false => exact absurd ⟨by rw [hd]; simp only [classify, hr, if_true], hc', hw⟩ hret
            simp only [connectFrom, hd, classify, hr, if_true, hc', hs, hw]
            exact ⟨by simp, by simp, by simp, by simp,
              fun _ => ⟨a, hmem, by simp [hd], Or.inr hw⟩, by simp, by simp, by simp⟩
        · have hr' : retryableStatusCodes.contains c = false := by simpa using hr
          by_cases hc : a.ctxErr = true
          · simp only [connectFrom, hd, classify, hr', hc, if_true]
            simp only [Bool.false_eq_true, if_false]
            exact ⟨by simp, by simp, by simp, by simp,
              fun _ => ⟨a, hmem, by simp [hd], Or.inl hc⟩, by simp, by simp, by simp⟩
          · have hc' : a.ctxErr = false := by simpa using hc
            simp only [connectFrom, hd, classify, hr', hc']
            simp only [Bool.false_eq_true, if_false]
            refine ⟨by simp, by simp, by simp, ?_, by simp, by simp, by simp, by simp⟩
            intro code h
            simp at h; subst h
            exact ⟨hr', a, hmem, hd, hc'⟩

/-! ### `Gossip.JoinOnStartup` -/

/-- a failed join that is retried after a full wait -/
def JoinAttempt.retried (a : JoinAttempt) : Prop := a.ok = false ∧ a.cancelInWait = false

def joinPrefixWaits : St → List JoinAttempt → List Nat
  | _, [] => []
  | b, a :: as =>
    jitterWait b a.jitter ::
      joinPrefixWaits { b with attempts := b.attempts + 1, last := jitterWait b a.jitter } as

theorem length_joinPrefixWaits (b : St) (as : List JoinAttempt) :
    (joinPrefixWaits b as).length = as.length := by
  induction as generalizing b with
  | nil => rfl
  | cons a as ih => simp [joinPrefixWaits, ih]

/-- while the retries guard allows it, a prefix of failed joins is a run of granted calls; the
remembered error is that of the last failed join -/
theorem joinFrom_prefix (b : St) (fails : List JoinAttempt) (hf : ∀ a ∈ fails, a.retried)
    (hg : b.retries = 0 ∨ b.attempts + fails.length ≤ b.retries + 1)
    (rest : List JoinAttempt) (n : Nat) (ws : List Nat) (le : Option Nat) :
    ∃ b', runWaits b (joinPrefixWaits b fails) = some b' ∧
      joinFrom b (fails ++ rest) n ws le =
        joinFrom b' rest (n + fails.length) (ws ++ joinPrefixWaits b fails)
          (if fails = [] then le else some (n + fails.length - 1)) := by
  induction fails generalizing b n ws le with
  | nil => exact ⟨b, rfl, by simp [joinPrefixWaits]⟩
  | cons a as ih =>
    obtain ⟨h1, h2⟩ := hf a (List.mem_cons_self ..)
    have hex : exhausted b = false := by
      cases hx : exhausted b with
      | false => rfl
      | true => rw [exhausted_iff] at hx; simp only [List.length_cons] at hg; omega
    have hs := step_of_ok b (jitterWait b a.jitter) hex (okWait_jitterWait b a.jitter)
    obtain ⟨b', r1, r2⟩ := ih { b with attempts := b.attempts + 1, last := jitterWait b a.jitter }
      (fun x hx => hf x (List.mem_cons_of_mem _ hx))
      (by
        rcases hg with h | h
        · exact Or.inl h
        · right; simp only [List.length_cons] at h; show b.attempts + 1 + as.length ≤ b.retries + 1; omega)
      (n + 1) (ws ++ [jitterWait b a.jitter]) (some n)
    refine ⟨b', ?_, ?_⟩
    · simp only [joinPrefixWaits]
      exact (runWaits_cons b _ _ b').mpr ⟨hex, okWait_jitterWait b a.jitter, r1⟩
    · simp only [List.cons_append, joinFrom, h1, h2, hs]
      simp only [Bool.false_eq_true, if_false]
      rw [r2]
      simp only [joinPrefixWaits, List.length_cons, List.append_assoc, List.singleton_append]
      have e1 : n + 1 + as.length = n + (as.length + 1) := by omega
      rw [e1]
      congr 1
      by_cases hn : as = []
      · subst hn; simp
      · simp [hn]

/-! ### classification of dials, the first decisive attempt (used by `Props/C18`) -/

theorem classify_retryable_iff (d : Dial) :
    classify d = .retryable ↔
      d = .noResponse ∨ ∃ c, c ∈ retryableStatusCodes ∧ d = .status c := by
  cases d with
  | ok => simp [classify]
  | noResponse => simp [classify]
  | status c =>
    by_cases h : retryableStatusCodes.contains c = true
    · simp only [classify, h, if_true, true_iff]
      right; exact ⟨c, by simpa using h, rfl⟩
    · simp only [classify, h]
      constructor
      · intro h'; cases h'
      · rintro (h' | ⟨c', hc', h'⟩)
        · cases h'
        · cases h'; exact absurd (by simpa using hc') h

theorem classify_permanent_iff (d : Dial) (code : Nat) :
    classify d = .permanent code ↔ d = .status code ∧ code ∉ retryableStatusCodes := by
  cases d with
  | ok => simp [classify]
  | noResponse => simp [classify]
  | status c =>
    by_cases h : retryableStatusCodes.contains c = true
    · simp only [classify, h, if_true]
      constructor
      · intro h'; cases h'
      · rintro ⟨h1, h2⟩; cases h1; exact absurd (by simpa using h) h2
    · simp only [classify, h]
      constructor
      · intro h'; cases h'; exact ⟨rfl, by simpa using h⟩
      · rintro ⟨h1, _⟩; cases h1; rfl

theorem classify_connected_iff (d : Dial) : classify d = .connected ↔ d = .ok := by
  cases d with
  | ok => simp [classify]
  | noResponse => simp [classify]
  | status c =>
    simp only [classify]
    split <;> simp

/-- what the first attempt that is not simply retried makes `connect` return -/
def Attempt.verdict (a : Attempt) : Result :=
  match classify a.dial with
  | .connected => .connected
  | .permanent c => if a.ctxErr then .errCtx else .errPermanent c
  | .retryable => if a.ctxErr || a.cancelInWait then .errCtx else .stillRetrying

theorem verdict_stillRetrying_iff (a : Attempt) : a.verdict = .stillRetrying ↔ a.retried := by
  unfold Attempt.verdict Attempt.retried
  cases hc : classify a.dial with
  | connected => simp
  | permanent c => cases a.ctxErr <;> simp
  | retryable => cases a.ctxErr <;> cases a.cancelInWait <;> simp

/-- the loop returns at the first attempt that is not simply retried -/
theorem connectFrom_decisive (b : St) (hb : b.retries = 0) (a : Attempt) (ha : ¬ a.retried)
    (rest : List Attempt) (n : Nat) (ws : List Nat) (ab : Nat) :
    (connectFrom b (a :: rest) n ws ab).result = a.verdict ∧
    (connectFrom b (a :: rest) n ws ab).attempts = n + 1 ∧
    (connectFrom b (a :: rest) n ws ab).aborts = ab ∧
    (connectFrom b (a :: rest) n ws ab).waits =
      (if classify a.dial = .retryable ∧ a.ctxErr = false then ws ++ [jitterWait b a.jitter] else ws) := by
  have hs := step_of_ok b (jitterWait b a.jitter) (exhausted_of_retries_zero b hb)
    (okWait_jitterWait b a.jitter)
  unfold Attempt.retried at ha
  unfold Attempt.verdict
  cases hc : classify a.dial with
  | connected => simp [connectFrom, hc]
  | permanent c =>
    cases hx : a.ctxErr <;> simp [connectFrom, hc, hx]
  | retryable =>
    cases hx : a.ctxErr
    · cases hw : a.cancelInWait
      · exact absurd ⟨hc, hx, hw⟩ ha
      · simp [connectFrom, hc, hx, hw, hs]
    · simp [connectFrom, hc, hx]

/-- a list of attempts is all retried, or has a first attempt that is not -/
theorem attempts_split (as : List Attempt) :
    (∀ a ∈ as, a.retried) ∨
    ∃ fails a rest, as = fails ++ a :: rest ∧ (∀ x ∈ fails, x.retried) ∧ ¬ a.retried := by
  induction as with
  | nil => left; intro a ha; cases ha
  | cons a as ih =>
    by_cases ha : a.retried
    · rcases ih with h | ⟨fails, x, rest, h1, h2, h3⟩
      · left; intro y hy
        rcases List.mem_cons.mp hy with rfl | hy
        · exact ha
        · exact h y hy
      · right
        refine ⟨a :: fails, x, rest, by rw [h1]; rfl, ?_, h3⟩
        intro y hy
        rcases List.mem_cons.mp hy with rfl | hy
        · exact ha
        · exact h2 y hy
    · right; exact ⟨[], a, as, rfl, (by intro x hx; cases hx), ha⟩

/-- `connectFrom` over retried attempts followed by a decisive one -/
theorem connectFrom_first (b : St) (hb : b.retries = 0) (fails : List Attempt)
    (hf : ∀ x ∈ fails, x.retried) (a : Attempt) (ha : ¬ a.retried) (rest : List Attempt) :
    (connectFrom b (fails ++ a :: rest) 0 [] 0).result = a.verdict ∧
    (connectFrom b (fails ++ a :: rest) 0 [] 0).attempts = fails.length + 1 ∧
    (connectFrom b (fails ++ a :: rest) 0 [] 0).aborts = 0 := by
  obtain ⟨b', _, hb', h⟩ := connectFrom_prefix b hb fails hf (a :: rest) 0 [] 0
  rw [h]
  obtain ⟨h1, h2, h3, _⟩ := connectFrom_decisive b' hb' a ha rest (0 + fails.length)
    ([] ++ prefixWaits b fails) 0
  exact ⟨h1, by rw [h2]; omega, h3⟩

theorem connectFrom_all_retried (b : St) (hb : b.retries = 0) (as : List Attempt)
    (hf : ∀ x ∈ as, x.retried) :
    connectFrom b as 0 [] 0 = ⟨.stillRetrying, as.length, prefixWaits b as, 0⟩ ∧
    ∃ b', runWaits b (prefixWaits b as) = some b' := by
  obtain ⟨b', hr, _, h⟩ := connectFrom_prefix b hb as hf [] 0 [] 0
  rw [List.append_nil] at h
  rw [h]
  exact ⟨by simp [connectFrom], b', hr⟩

/-! ### `JoinOnStartup`: bounds -/

theorem joinFrom_bounds (b : St) (hr : b.retries ≠ 0) (hb : b.attempts ≤ b.retries + 1)
    (as : List JoinAttempt) (n : Nat) (ws : List Nat) (le : Option Nat) :
    (joinFrom b as n ws le).attempts ≤ n + as.length ∧
    (joinFrom b as n ws le).attempts + b.attempts ≤ n + b.retries + 2 ∧
    (joinFrom b as n ws le).result ≠ .badJitter := by
  induction as generalizing b n ws le with
  | nil => simp [joinFrom]; omega
  | cons a as ih =>
    simp only [joinFrom]
    by_cases hok : a.ok = true
    · simp [hok]; omega
    · simp only [hok, Bool.false_eq_true, if_false]
      by_cases hex : exhausted b = true
      · rw [(step_abort b _).mpr hex]; simp; omega
      · have hex' : exhausted b = false := by simpa using hex
        rw [step_of_ok b _ hex' (okWait_jitterWait b a.jitter)]
        simp only
        by_cases hw : a.cancelInWait = true
        · simp [hw]; omega
        · simp only [hw, Bool.false_eq_true, if_false]
          have hlt : ¬ (b.retries ≠ 0 ∧ b.retries < b.attempts) := by
            rw [← exhausted_iff]; simp [hex']
          have := ih { b with attempts := b.attempts + 1, last := jitterWait b a.jitter } hr
            (by show b.attempts + 1 ≤ b.retries + 1; omega) (n + 1) (ws ++ [jitterWait b a.jitter]) (some n)
          obtain ⟨i1, i2, i3⟩ := this
          refine ⟨by simp only [List.length_cons]; omega, ?_, i3⟩
          have e : ({ b with attempts := b.attempts + 1, last := jitterWait b a.jitter } : St).attempts
            = b.attempts + 1 := rfl
          have e2 : ({ b with attempts := b.attempts + 1, last := jitterWait b a.jitter } : St).retries
            = b.retries := rfl
          rw [e, e2] at i2
          omega

/-- after a prefix of failed joins, the next join decides -/
theorem joinFrom_after_prefix (b : St) (hr : b.retries ≠ 0) (fails : List JoinAttempt)
    (hf : ∀ a ∈ fails, a.retried) (hg : b.attempts + fails.length ≤ b.retries + 1)
    (a : JoinAttempt) (rest : List JoinAttempt) (n : Nat) (ws : List Nat) (le : Option Nat) :
    ∃ b', runWaits b (joinPrefixWaits b fails) = some b' ∧
      (a.ok = true →
        joinFrom b (fails ++ a :: rest) n ws le =
          ⟨.joined, n + fails.length + 1, ws ++ joinPrefixWaits b fails⟩) ∧
      (a.ok = false → b.attempts + fails.length = b.retries + 1 →
        joinFrom b (fails ++ a :: rest) n ws le =
          ⟨.err (if fails = [] then le else some (n + fails.length - 1)), n + fails.length + 1,
            ws ++ joinPrefixWaits b fails⟩) ∧
      (a.ok = false → b.attempts + fails.length ≤ b.retries → a.cancelInWait = true →
        joinFrom b (fails ++ a :: rest) n ws le =
          ⟨.err (some (n + fails.length)), n + fails.length + 1,
            ws ++ joinPrefixWaits b fails ++ [jitterWait b' a.jitter]⟩) := by
  obtain ⟨b', h1, h2⟩ := joinFrom_prefix b fails hf (Or.inr hg) (a :: rest) n ws le
  obtain ⟨p1, _, _, p4⟩ := runWaits_params b b' _ h1
  rw [length_joinPrefixWaits] at p4
  refine ⟨b', h1, ?_, ?_, ?_⟩
  · intro hok; rw [h2]; simp [joinFrom, hok]
  · intro hok hfull
    have hex : exhausted b' = true := by rw [exhausted_iff]; omega
    rw [h2]; simp only [joinFrom, hok, Bool.false_eq_true, if_false]
    rw [(step_abort b' _).mpr hex]
  · intro hok hle hw
    have hex : exhausted b' = false := by
      cases hx : exhausted b' with
      | false => rfl
      | true => rw [exhausted_iff] at hx; omega
    rw [h2]; simp only [joinFrom, hok, Bool.false_eq_true, if_false]
    rw [step_of_ok b' _ hex (okWait_jitterWait b' a.jitter)]
    simp [hw]

end Piko.Backoff
