import Proofs.OwnerOps
import Proofs.C17
/-!
# `CompactLocal` preserves the owner/view/packet invariants
-/
namespace Piko.Gossip
open Piko

theorem ownWF_of_ownerInv {H : List Entry} {s : CState} (ho : OwnerInv H (own s)) : OwnWF s := by
  refine ⟨ho.wf.nodup, ?_, ?_, ?_, ?_⟩
  · intro p hp
    exact ho.wf.keyed p.1 p.2 (AMap.findOfMem ho.wf.nodup hp)
  · intro p hp
    exact ho.hb _ (ho.cur p.1 p.2 (AMap.findOfMem ho.wf.nodup hp))
  · intro p hp q hq hv
    have hp' := AMap.findOfMem ho.wf.nodup (k := p.1) (v := p.2) hp
    have hq' := AMap.findOfMem ho.wf.nodup (k := q.1) (v := q.2) hq
    have := ho.inj _ (ho.cur _ _ hp') _ (ho.cur _ _ hq') hv
    have k1 := ho.wf.keyed _ _ hp'
    have k2 := ho.wf.keyed _ _ hq'
    exact Prod.ext (by rw [← k1, ← k2, this]) this
  · intro hne
    cases hm : (own s).entries with
    | nil => exact absurd hm hne
    | cons p m =>
      have hp : p ∈ (own s).entries := by rw [hm]; exact List.mem_cons_self ..
      have hf := AMap.findOfMem ho.wf.nodup (k := p.1) (v := p.2) hp
      obtain ⟨k, e, hk, hv⟩ := ho.top _ (ho.cur _ _ hf)
      exact ⟨(k, e), by rw [← hm]; exact AMap.mem_of_find hk, hv⟩

/-- the marker written by an effective compaction -/
def newMarker (s : CState) : Entry :=
  { key := compactKey, value := toString (own s).version,
    version := (own s).version + (compactKept s).length + 1, internal := true }

theorem compact_ok {H : List Entry} {s s' : CState} {thr : Nat} (ho : OwnerInv H (own s))
    (hbound : (own s).version < 2^64) (h : compactLocal s thr = some s') :
    OwnerStepOK H (own s) (own s') := by
  have hwf := ownWF_of_ownerInv ho
  rcases compactLocal_some hwf h with ⟨_, rfl⟩ | ⟨_, hne, rfl⟩
  · exact noop_ok ho
  rw [own_setOwn]
  generalize hO' : compactedNode s (own s).version = O'
  have hwf' : EntriesWF O'.version O'.entries := hO' ▸ entriesWF_compacted hwf _
  have hmemc : ∀ p ∈ O'.entries,
      p = (compactKey, newMarker s) ∨
      (p.1 = p.2.key ∧ ∃ e ∈ compactKept s, p.2 = { e with version := p.2.version } ∧
        (own s).version < p.2.version ∧ p.2.version ≤ (own s).version + (compactKept s).length) := by
    intro p hp; subst hO'; exact mem_compacted hp
  have hver : O'.version = (own s).version + (compactKept s).length + 1 := by subst hO'; rfl
  have hmarker : O'.entries.find compactKey = some (newMarker s) := by
    subst hO'; simp [compactedNode, newMarker]
  have hidaddr : O'.id = (own s).id ∧ O'.addr = (own s).addr := by subst hO'; exact ⟨rfl, rfl⟩
  -- every current entry of O' is newer than the old node version
  have hnew : ∀ k e, O'.entries.find k = some e → (own s).version < e.version := by
    intro k e hf
    rcases hmemc (k, e) (AMap.mem_of_find hf) with hp | ⟨_, _, _, _, h4, _⟩
    · cases hp; show (own s).version < (own s).version + (compactKept s).length + 1; omega
    · exact h4
  have hvals : ∀ h, h ∈ O'.entries.vals → O'.entries.find h.key = some h := by
    intro h hh
    obtain ⟨k, hk⟩ := AMap.mem_vals.mp hh
    have := hwf'.keyed (k, h) hk
    simp only at this
    rw [this]
    exact AMap.findOfMem hwf'.nodup (this ▸ hk)
  have hmem : ∀ {h}, h ∈ histAfter H O' ↔ h ∈ H ∨ h ∈ O'.entries.vals := mem_histAfter
  have hsurv : ∀ h, h ∈ O'.entries.vals → h.key = compactKey → h.internal = true := by
    intro h hh hk
    obtain ⟨k, hkm⟩ := AMap.mem_vals.mp hh
    rcases hmemc (k, h) hkm with hp | ⟨_, e, he, h3, _, _⟩
    · cases hp; rfl
    · simp only at h3
      obtain ⟨hev, _⟩ := mem_compactKept.mp he
      obtain ⟨k0, hk0⟩ := (AMap.mem_vals_iff ho.wf.nodup).mp hev
      have heH := ho.cur k0 e hk0
      have : e.key = compactKey := by rw [h3] at hk; exact hk
      rw [h3]; exact (ho.internalKeys e heH).2 this
  refine ⟨?_, ?_, ?_, by rw [hver]; omega, hidaddr⟩
  · refine ⟨⟨hwf'.nodup, fun k e hf => hwf'.keyed (k, e) (AMap.mem_of_find hf)⟩, ?_, ?_, ?_, ?_, ?_, ?_, ?_, ?_, ?_⟩
    · intro k e hf
      exact hmem.mpr (Or.inr ((AMap.mem_vals_iff hwf'.nodup).mpr ⟨k, hf⟩))
    · intro h hh
      rcases hmem.mp hh with a | a
      · exact ho.pos h a
      · have := hnew _ _ (hvals h a); omega
    · intro h hh
      rcases hmem.mp hh with a | a
      · have := ho.hb h a; rw [hver]; omega
      · exact hwf'.le_version (h.key, h) (AMap.mem_of_find (hvals h a))
    · intro h1 hh1 h2 hh2 hv
      rcases hmem.mp hh1 with a1 | a1 <;> rcases hmem.mp hh2 with a2 | a2
      · exact ho.inj h1 a1 h2 a2 hv
      · have := ho.hb h1 a1; have := hnew _ _ (hvals h2 a2); omega
      · have := ho.hb h2 a2; have := hnew _ _ (hvals h1 a1); omega
      · have := hwf'.inj (h1.key, h1) (AMap.mem_of_find (hvals h1 a1)) (h2.key, h2)
          (AMap.mem_of_find (hvals h2 a2)) hv
        exact congrArg Prod.snd this
    · intro h hh e hf
      rcases hmem.mp hh with a | a
      · have := ho.hb h a; have := hnew _ _ hf; omega
      · rw [hvals h a] at hf; cases hf; exact Nat.le_refl _
    · intro h hh
      rcases hmem.mp hh with a | a
      · exact ho.internalKeys h a
      · refine ⟨?_, hsurv h a⟩
        intro hi
        obtain ⟨k, hkm⟩ := AMap.mem_vals.mp a
        rcases hmemc (k, h) hkm with hp | ⟨_, e, he, h3, _, _⟩
        · cases hp; right; rfl
        · simp only at h3
          obtain ⟨hev, _⟩ := mem_compactKept.mp he
          obtain ⟨k0, hk0⟩ := (AMap.mem_vals_iff ho.wf.nodup).mp hev
          have := (ho.internalKeys e (ho.cur k0 e hk0)).1 (by rw [h3] at hi; exact hi)
          rw [h3]; exact this
    · intro c hc hck
      rcases hmem.mp hc with a | a
      · obtain ⟨cv, hp, hlt, _⟩ := ho.markers c a hck
        refine ⟨cv, hp, hlt, ?_⟩
        intro k e hf
        have := ho.hb c a; have := hnew k e hf; omega
      · -- the only current entry under the compaction key is the new marker
        have hf := hvals c a
        rw [hck, hmarker] at hf
        cases hf
        refine ⟨(own s).version, parseUint64_toString _ hbound, by show _ < _ + _ + 1; omega, hnew⟩
    · intro h hh hfloor
      have := hfloor _ (own s).version hmarker (parseUint64_toString _ hbound)
      rcases hmem.mp hh with a | a
      · have := ho.hb h a; omega
      · exact ⟨h, hvals h a⟩
    · intro h _
      exact ⟨compactKey, _, hmarker, by rw [hver]; rfl⟩
  · intro V hv
    refine ⟨hv.wf, fun k e hf => hmem.mpr (Or.inl (hv.genuine k e hf)), hv.bounded,
      by have := hv.le; rw [hver]; omega, ?_, hv.aboveOwnMarker⟩
    intro k e hf hle
    have := hnew k e hf; have := hv.le; omega
  · intro v0 es hp
    refine ⟨hp.sorted, fun e he => hmem.mpr (Or.inl (hp.genuine e he)), hp.base, ?_⟩
    intro k e' hf _ ⟨l, hl, hle⟩
    have := hnew k e' hf; have := ho.hb l (hp.genuine l hl); omega

end Piko.Gossip
