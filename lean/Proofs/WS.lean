import PikoModel.WS.Conn
/-!
# Lemmas about the `pkg/websocket.Conn` model (`PikoModel/WS/Conn.lean`) used by `Props/C07`

* `read_stream` / `run_stream`: one `Read` (any buffer size, any inner-reader choice) moves bytes
  from `pending` to the caller and nothing else; `copy_stream`: the same for `io.Copy`.
* `read_ok`: what one `Read` can return; `read_clean`: progress on an open connection.
* `read_ahead` / `run_ahead` / `run_sticky`: data, then a close, then the sticky closed error.
* `write_clean` / `writes_clean`: one binary message per `Write`.
* `RInv`, `rinv_run`, `relay_close_du/ud`: the two goroutines of a proxy leg under any schedule.
-/
namespace Piko.WS

def tailOf (X : Bytes) : Option (Bytes × Bool) → Bytes
  | some (r, true) => r ++ X
  | some (r, false) => r
  | none => X

theorem pending_eq (c : Conn) :
    c.pending = tailOf (if c.readErr.isNone then payloadOf c.inq else []) c.reader := by
  unfold Conn.pending tailOf
  cases c.reader with
  | none => rfl
  | some p => obtain ⟨r, f⟩ := p; cases f <;> rfl

theorem inner_stream (rest : Bytes) (fin : Bool) (buf : Nat) (ch : Choice) (X : Bytes) :
    (inner rest fin buf ch).1.bytes ++ tailOf X (inner rest fin buf ch).2
      = rest ++ (if fin then X else []) := by
  unfold inner
  by_cases hb : buf = 0
  · simp [hb, Res.bytes, tailOf]; cases fin <;> simp
  · simp only [hb, if_false]
    by_cases hc : ((rest.drop (want buf ch.n)).isEmpty && ch.eof && fin) = true
    · simp only [hc, if_true, Res.bytes, tailOf]
      simp only [Bool.and_eq_true, List.isEmpty_iff] at hc
      obtain ⟨⟨h1, _⟩, h3⟩ := hc
      have := List.take_append_drop (want buf ch.n) rest
      rw [h1, List.append_nil] at this
      rw [this, h3]; simp
    · simp only [hc, Res.bytes]
      cases fin <;> simp [tailOf, ← List.append_assoc, List.take_append_drop]

theorem next_stream (buf : Nat) (ch : Choice) (q : List Frame) :
    (next buf ch q).1.bytes ++ (next buf ch q).2.pending = payloadOf q := by
  induction q with
  | nil => simp [next, Res.bytes, Conn.pending, payloadOf]
  | cons f q ih =>
    cases f with
    | close => simp [next, Res.bytes, Conn.pending, payloadOf]
    | fail => simp [next, Res.bytes, Conn.pending, payloadOf]
    | msg ty p fin =>
      unfold next
      by_cases ht : ty = binaryMessage
      · simp only [ht, ne_eq, not_true_eq_false, if_false]
        cases p with
        | nil =>
          cases fin with
          | true => simpa [payloadOf] using ih
          | false => simp [Res.bytes, Conn.pending, payloadOf]
        | cons b bs =>
          simp only [pending_eq, Option.isNone_none, if_true]
          rw [inner_stream]
          simp [payloadOf]
      · simp only [ne_eq, ht, not_false_eq_true, if_true, Res.bytes, Conn.pending, payloadOf]
        cases fin <;> simp [payloadOf]

theorem read_stream (c : Conn) (buf : Nat) (ch : Choice) :
    (read c buf ch).1.bytes ++ (read c buf ch).2.pending = c.pending := by
  unfold read
  rcases hr : c.reader with _ | ⟨r, fin⟩
  · simp only
    cases he : c.readErr with
    | some e => simp [Res.bytes, Conn.pending, hr, he]
    | none => simp only [next_stream]; simp [Conn.pending, hr, he]
  · cases r with
    | nil =>
      cases fin with
      | false => simp [Res.bytes, Conn.pending, hr]
      | true =>
        simp only
        cases he : c.readErr with
        | some e => simp [Res.bytes, Conn.pending, hr, he]
        | none => simp only [next_stream]; simp [Conn.pending, hr, he]
    | cons b bs =>
      simp only [pending_eq, hr]
      rw [inner_stream]
      cases fin <;> simp [tailOf]

theorem delivered_cons (r : Res) (t : List Res) : delivered (r :: t) = r.bytes ++ delivered t := by
  simp [delivered]

theorem run_stream (c : Conn) (rs : List (Nat × Choice)) :
    delivered (run c rs).1 ++ (run c rs).2.pending = c.pending := by
  induction rs generalizing c with
  | nil => simp [run, delivered]
  | cons x rs ih =>
    obtain ⟨b, ch⟩ := x
    simp only [run, delivered_cons, List.append_assoc]
    rw [ih, read_stream]

def binFrames (ms : List Bytes) : List Frame := ms.map fun p => .msg binaryMessage p true

theorem payloadOf_binFrames (ms : List Bytes) (q : List Frame) :
    payloadOf (binFrames ms ++ q) = ms.flatten ++ payloadOf q := by
  induction ms with
  | nil => simp [binFrames]
  | cons m ms ih =>
    simp only [binFrames, List.map_cons, List.cons_append, payloadOf, if_true, List.flatten_cons,
      List.append_assoc] at *
    rw [ih]

theorem pending_ofMsgs (msgs : List Bytes) : (Conn.ofMsgs msgs).pending = msgs.flatten := by
  have := payloadOf_binFrames msgs []
  simp only [List.append_nil, payloadOf] at this
  simp [Conn.ofMsgs, Conn.pending]
  exact this

/-! progress -/
theorem want_pos (buf k : Nat) : 1 ≤ want buf k := by unfold want; omega
theorem want_le (buf k : Nat) (h : 0 < buf) : want buf k ≤ buf := by unfold want; omega

theorem inner_res (rest : Bytes) (fin : Bool) (buf : Nat) (ch : Choice) (hr : rest ≠ []) :
    (buf = 0 ∧ (inner rest fin buf ch).1 = .zero) ∨
    (0 < buf ∧ ∃ bs, (inner rest fin buf ch).1 = .data bs ∧ 1 ≤ bs.length ∧ bs.length ≤ buf) := by
  unfold inner
  by_cases hb : buf = 0
  · left; simp [hb]
  · right
    refine ⟨Nat.pos_of_ne_zero hb, rest.take (want buf ch.n), ?_, ?_, ?_⟩
    · simp only [hb, if_false]; split <;> rfl
    · have := want_pos buf ch.n
      have : 0 < rest.length := List.length_pos_iff.mpr hr
      simp only [List.length_take]; omega
    · have := want_le buf ch.n (Nat.pos_of_ne_zero hb)
      simp only [List.length_take]; omega

/-- what one `Read` can return, whatever the state -/
def Res.ok (buf : Nat) : Res → Prop
  | .data bs => 1 ≤ bs.length ∧ bs.length ≤ buf
  | .zero => buf = 0
  | _ => True

theorem inner_ok (rest : Bytes) (fin : Bool) (buf : Nat) (ch : Choice) (hr : rest ≠ []) :
    (inner rest fin buf ch).1.ok buf := by
  rcases inner_res rest fin buf ch hr with ⟨h0, h⟩ | ⟨_, bs, h, h1, h2⟩
  · rw [h]; exact h0
  · rw [h]; exact ⟨h1, h2⟩

theorem next_ok (buf : Nat) (ch : Choice) (q : List Frame) : (next buf ch q).1.ok buf := by
  induction q with
  | nil => simp [next, Res.ok]
  | cons f q ih =>
    cases f with
    | close => simp [next, Res.ok]
    | fail => simp [next, Res.ok]
    | msg ty p fin =>
      unfold next
      by_cases ht : ty = binaryMessage
      · simp only [ht, ne_eq, not_true_eq_false, if_false]
        cases p with
        | nil =>
          cases fin with
          | true => simpa using ih
          | false => simp [Res.ok]
        | cons b bs => exact inner_ok _ _ _ _ (by simp)
      · simp [ht, Res.ok]

theorem read_ok (c : Conn) (buf : Nat) (ch : Choice) : (read c buf ch).1.ok buf := by
  unfold read
  split
  · exact inner_ok _ _ _ _ (by simp)
  · simp [Res.ok]
  · split
    · simp [Res.ok]
    · exact next_ok _ _ _
def finReader (o : Option (Bytes × Bool)) : Prop := ∀ r f, o = some (r, f) → f = true

theorem inner_reader (rest : Bytes) (fin : Bool) (buf : Nat) (ch : Choice) :
    (inner rest fin buf ch).2 = none ∨ ∃ r, (inner rest fin buf ch).2 = some (r, fin) := by
  unfold inner
  split
  · exact Or.inr ⟨_, rfl⟩
  · simp only; split
    · exact Or.inl rfl
    · exact Or.inr ⟨_, rfl⟩

theorem inner_finReader (rest : Bytes) (buf : Nat) (ch : Choice) :
    finReader (inner rest true buf ch).2 := by
  intro r f h
  rcases inner_reader rest true buf ch with h0 | ⟨r', h1⟩
  · rw [h0] at h; cases h
  · rw [h1] at h; cases h; rfl

/-- open and binary-only -/
def Clean (c : Conn) : Prop :=
  c.readErr = none ∧ finReader c.reader ∧ ∃ ms, c.inq = binFrames ms

theorem next_nil_cons (buf : Nat) (ch : Choice) (q : List Frame) :
    next buf ch (.msg binaryMessage [] true :: q) = next buf ch q := by
  simp [next]

theorem next_bin (buf : Nat) (ch : Choice) (hb : 0 < buf) (ms : List Bytes) :
    Clean (next buf ch (binFrames ms)).2 ∧
    (if ms.flatten = [] then (next buf ch (binFrames ms)).1 = .block
     else ∃ bs, (next buf ch (binFrames ms)).1 = .data bs) := by
  induction ms with
  | nil =>
    refine ⟨⟨rfl, ?_, [], rfl⟩, by simp [binFrames, next]⟩
    intro r f h; cases h
  | cons m ms ih =>
    cases m with
    | nil =>
      have : binFrames ([] :: ms) = .msg binaryMessage [] true :: binFrames ms := rfl
      rw [this, next_nil_cons]
      simpa using ih
    | cons b bs =>
      have : binFrames ((b :: bs) :: ms) = .msg binaryMessage (b :: bs) true :: binFrames ms := rfl
      rw [this]
      simp only [next, ne_eq, not_true_eq_false, if_false]
      refine ⟨⟨rfl, inner_finReader _ _ _, ms, rfl⟩, ?_⟩
      simp only [List.flatten_cons, List.append_eq_nil_iff, reduceCtorEq, false_and, if_false]
      rcases inner_res (b :: bs) true buf ch (by simp) with ⟨h0, _⟩ | ⟨_, bs', h, _⟩
      · omega
      · exact ⟨bs', h⟩

theorem clean_pending (c : Conn) (h : Clean c) (ms : List Bytes) (hq : c.inq = binFrames ms) :
    c.pending = (match c.reader with | some (r, _) => r | none => []) ++ ms.flatten := by
  obtain ⟨he, hf, _⟩ := h
  have hp := payloadOf_binFrames ms []
  simp only [List.append_nil, payloadOf] at hp
  unfold Conn.pending
  rcases hr : c.reader with _ | ⟨r, f⟩
  · simp [he, hq, hp]
  · have := hf r f hr; subst this
    simp [he, hq, hp]

/-- a read on an open binary-only connection with data available returns at least one byte and
at most `len b`; with nothing available it blocks; the connection stays open -/
theorem read_clean (c : Conn) (buf : Nat) (ch : Choice) (hb : 0 < buf) (h : Clean c) :
    Clean (read c buf ch).2 ∧
    (if c.pending = [] then (read c buf ch).1 = .block
     else ∃ bs, (read c buf ch).1 = .data bs) := by
  obtain ⟨he, hf, ms, hq⟩ := h
  have hpend := clean_pending c ⟨he, hf, ms, hq⟩ ms hq
  have hnb := next_bin buf ch hb ms
  unfold read
  rcases hr : c.reader with _ | ⟨r, f⟩
  · simp only [he, hq]
    rw [hpend, hr]; simpa using hnb
  · have := hf r f hr; subst this
    cases r with
    | nil =>
      simp only [he, hq]
      rw [hpend, hr]; simpa using hnb
    | cons b bs =>
      simp only
      refine ⟨⟨he, inner_finReader _ _ _, ms, hq⟩, ?_⟩
      rw [hpend, hr]
      simp only [List.cons_append, reduceCtorEq, if_false]
      rcases inner_res (b :: bs) true buf ch (by simp) with ⟨h0, _⟩ | ⟨_, bs', h, _⟩
      · omega
      · exact ⟨bs', h⟩
/-- data messages, then a close frame / abnormal closure, then anything -/
def Ahead (junk : List Frame) (c : Conn) : Prop :=
  c.readErr = none ∧ finReader c.reader ∧ ∃ ms, c.inq = binFrames ms ++ .close :: junk

/-- the sticky error state -/
def Sticky (e : Err) (c : Conn) : Prop :=
  c.readErr = some e ∧ (c.reader = none ∨ c.reader = some ([], true))

def Res.isDataOrZero : Res → Prop
  | .data _ => True
  | .zero => True
  | _ => False

theorem read_sticky (e : Err) (c : Conn) (buf : Nat) (ch : Choice) (h : Sticky e c) :
    (read c buf ch).1 = .err e ∧ Sticky e (read c buf ch).2 := by
  obtain ⟨he, hr | hr⟩ := h <;> simp [read, hr, he, Sticky]

theorem sticky_pending (e : Err) (c : Conn) (h : Sticky e c) : c.pending = [] := by
  obtain ⟨he, hr | hr⟩ := h <;> simp [Conn.pending, hr, he]

theorem inner_isDataOrZero (rest : Bytes) (fin : Bool) (buf : Nat) (ch : Choice) (hr : rest ≠ []) :
    (inner rest fin buf ch).1.isDataOrZero := by
  rcases inner_res rest fin buf ch hr with ⟨_, h⟩ | ⟨_, bs, h, _⟩ <;> rw [h] <;> trivial

theorem next_ahead (buf : Nat) (ch : Choice) (junk : List Frame) (ms : List Bytes) :
    ((next buf ch (binFrames ms ++ .close :: junk)).1 = .err .closed ∧
      Sticky .closed (next buf ch (binFrames ms ++ .close :: junk)).2) ∨
    ((next buf ch (binFrames ms ++ .close :: junk)).1.isDataOrZero ∧
      Ahead junk (next buf ch (binFrames ms ++ .close :: junk)).2) := by
  induction ms with
  | nil => left; simp [binFrames, next, Sticky]
  | cons m ms ih =>
    cases m with
    | nil =>
      have : binFrames ([] :: ms) ++ .close :: junk
          = .msg binaryMessage [] true :: (binFrames ms ++ .close :: junk) := rfl
      rw [this, next_nil_cons]; exact ih
    | cons b bs =>
      have : binFrames ((b :: bs) :: ms) ++ .close :: junk
          = .msg binaryMessage (b :: bs) true :: (binFrames ms ++ .close :: junk) := rfl
      rw [this]
      right
      simp only [next, ne_eq, not_true_eq_false, if_false]
      exact ⟨inner_isDataOrZero _ _ _ _ (by simp), rfl, inner_finReader _ _ _, ms, rfl⟩

theorem read_ahead (buf : Nat) (ch : Choice) (junk : List Frame) (c : Conn) (h : Ahead junk c) :
    ((read c buf ch).1 = .err .closed ∧ Sticky .closed (read c buf ch).2) ∨
    ((read c buf ch).1.isDataOrZero ∧ Ahead junk (read c buf ch).2) := by
  obtain ⟨he, hf, ms, hq⟩ := h
  have hn := next_ahead buf ch junk ms
  unfold read
  rcases hr : c.reader with _ | ⟨r, f⟩
  · simp only [he, hq]; exact hn
  · have := hf r f hr; subst this
    cases r with
    | nil => simp only [he, hq]; exact hn
    | cons b bs =>
      right
      exact ⟨inner_isDataOrZero _ _ _ _ (by simp), he, inner_finReader _ _ _, ms, hq⟩

theorem run_sticky (e : Err) (rs : List (Nat × Choice)) (c : Conn) (h : Sticky e c) :
    Sticky e (run c rs).2 ∧ ∀ r ∈ (run c rs).1, r = .err e := by
  induction rs generalizing c with
  | nil => simp [run, h]
  | cons y rs ih =>
    obtain ⟨b, ch⟩ := y
    obtain ⟨h1, h2⟩ := read_sticky e c b ch h
    obtain ⟨i1, i2⟩ := ih _ h2
    simp only [run, List.mem_cons, forall_eq_or_imp]
    exact ⟨i1, h1, i2⟩

/-- invariant of a connection on which data and then a close arrive -/
theorem run_ahead (junk : List Frame) (rs : List (Nat × Choice)) (c : Conn)
    (h : Ahead junk c ∨ Sticky .closed c) :
    (Ahead junk (run c rs).2 ∨ Sticky .closed (run c rs).2) ∧
    (∀ r ∈ (run c rs).1, r.isDataOrZero ∨ r = .err .closed) ∧
    (.err .closed ∈ (run c rs).1 → Sticky .closed (run c rs).2) := by
  induction rs generalizing c with
  | nil => simp [run, h]
  | cons x rs ih =>
    obtain ⟨b, ch⟩ := x
    simp only [run, List.mem_cons, forall_eq_or_imp]
    rcases h with h | h
    · rcases read_ahead b ch junk c h with ⟨h1, h2⟩ | ⟨h1, h2⟩
      · obtain ⟨i1, i2, _⟩ := ih _ (Or.inr h2)
        exact ⟨i1, ⟨Or.inr h1, i2⟩, fun _ => (run_sticky _ rs _ h2).1⟩
      · obtain ⟨i1, i2, i3⟩ := ih _ (Or.inl h2)
        refine ⟨i1, ⟨Or.inl h1, i2⟩, ?_⟩
        rintro (hh | hh)
        · rw [← hh] at h1; cases h1
        · exact i3 hh
    · obtain ⟨h1, h2⟩ := read_sticky _ c b ch h
      obtain ⟨i1, i2, _⟩ := ih _ (Or.inr h2)
      exact ⟨i1, ⟨Or.inr h1, i2⟩, fun _ => (run_sticky _ rs _ h2).1⟩

theorem binFrames_append (a b : List Bytes) : binFrames (a ++ b) = binFrames a ++ binFrames b := by
  simp [binFrames]

/-! write -/
theorem write_clean (peer : Conn) (p : Bytes) (h : Clean peer) :
    Clean (write peer p).2 ∧ (write peer p).2.pending = peer.pending ++ p := by
  obtain ⟨he, hf, ms, hq⟩ := h
  have hq' : (write peer p).2.inq = binFrames (ms ++ [p]) := by
    simp [write, Conn.arrive, hq, binFrames]
  have hc : Clean (write peer p).2 := ⟨he, hf, ms ++ [p], hq'⟩
  refine ⟨hc, ?_⟩
  rw [clean_pending _ hc _ hq', clean_pending peer ⟨he, hf, ms, hq⟩ ms hq]
  simp [write, Conn.arrive]

theorem writes_clean (c : Conn) (ps : List Bytes) (h : Clean c) :
    Clean (writes c ps) ∧ (writes c ps).pending = c.pending ++ ps.flatten := by
  induction ps generalizing c with
  | nil => simp [writes, h]
  | cons p ps ih =>
    obtain ⟨h1, h2⟩ := write_clean c p h
    obtain ⟨i1, i2⟩ := ih _ h1
    simp only [writes, List.foldl_cons] at i1 i2 ⊢
    exact ⟨i1, by rw [i2, h2]; simp⟩

/-! copy -/
theorem read_bytes_nil_pending (c : Conn) (buf : Nat) (ch : Choice)
    (h : (read c buf ch).1.bytes = []) : (read c buf ch).2.pending = c.pending := by
  have := read_stream c buf ch
  rw [h] at this; simpa using this

theorem copy_data (src : Conn) (b : Nat) (ch : Choice) (rs : List (Nat × Choice)) (bs : Bytes)
    (h : (read src b ch).1 = .data bs) :
    copy src ((b, ch) :: rs) = (.msg binaryMessage bs true :: (copy (read src b ch).2 rs).1,
      (copy (read src b ch).2 rs).2.1, (copy (read src b ch).2 rs).2.2) := by
  simp only [copy, h]

theorem copy_err (src : Conn) (b : Nat) (ch : Choice) (rs : List (Nat × Choice)) (e : Err)
    (h : (read src b ch).1 = .err e) :
    copy src ((b, ch) :: rs) = ([.close], (read src b ch).2, true) := by
  simp only [copy, h]

theorem copy_skip (src : Conn) (b : Nat) (ch : Choice) (rs : List (Nat × Choice))
    (h : (read src b ch).1 = .zero ∨ (read src b ch).1 = .block) :
    copy src ((b, ch) :: rs) = copy (read src b ch).2 rs := by
  rcases h with h | h <;> simp only [copy, h]

theorem copy_stream (src : Conn) (rs : List (Nat × Choice)) :
    payloadOf (copy src rs).1 ++ (copy src rs).2.1.pending = src.pending := by
  induction rs generalizing src with
  | nil => simp [copy, payloadOf]
  | cons x rs ih =>
    obtain ⟨b, ch⟩ := x
    cases hr : (read src b ch).1 with
    | data bs =>
      rw [copy_data _ _ _ _ _ hr]
      simp only [payloadOf, if_true, List.append_assoc]
      rw [ih]
      have := read_stream src b ch
      rw [hr] at this; exact this
    | err e =>
      rw [copy_err _ _ _ _ _ hr]
      simp only [payloadOf, List.nil_append]
      exact read_bytes_nil_pending _ _ _ (by rw [hr]; rfl)
    | zero =>
      rw [copy_skip _ _ _ _ (Or.inl hr), ih]
      exact read_bytes_nil_pending _ _ _ (by rw [hr]; rfl)
    | block =>
      rw [copy_skip _ _ _ _ (Or.inr hr), ih]
      exact read_bytes_nil_pending _ _ _ (by rw [hr]; rfl)

/-- what `io.Copy` writes: binary messages, then `close` exactly when the goroutine returned -/
theorem copy_frames (src : Conn) (rs : List (Nat × Choice)) :
    ∃ cs, (copy src rs).1 = binFrames cs ++ (if (copy src rs).2.2 then [.close] else []) := by
  induction rs generalizing src with
  | nil => exact ⟨[], by simp [copy, binFrames]⟩
  | cons x rs ih =>
    obtain ⟨b, ch⟩ := x
    cases hr : (read src b ch).1 with
    | data bs =>
      obtain ⟨cs, h⟩ := ih (read src b ch).2
      rw [copy_data _ _ _ _ _ hr]
      exact ⟨bs :: cs, by simp only [h]; rfl⟩
    | err e => rw [copy_err _ _ _ _ _ hr]; exact ⟨[], by simp [binFrames]⟩
    | zero => rw [copy_skip _ _ _ _ (Or.inl hr)]; exact ih _
    | block => rw [copy_skip _ _ _ _ (Or.inr hr)]; exact ih _

/-! relay -/
def tailClose (b : Bool) : List Frame := if b then [.close] else []

structure RInv (s : Relay) : Prop where
  toU : ∃ cs, s.toU = binFrames cs ++ tailClose s.duDone
  toD : ∃ cs, s.toD = binFrames cs ++ tailClose s.udDone
  uClosed : s.duDone = true → s.u.isClosed = true
  dClosed : s.udDone = true → s.d.isClosed = true

theorem read_closed (c : Conn) (buf : Nat) (ch : Choice) (h : c.isClosed = true) :
    (∃ e, (read c buf ch).1 = .err e) ∧ (read c buf ch).2.isClosed = true := by
  unfold Conn.isClosed at h
  simp only [Bool.and_eq_true, Option.isNone_iff_eq_none, Option.isSome_iff_exists] at h
  obtain ⟨hr, e, he⟩ := h
  simp [read, hr, he, Conn.isClosed]

theorem arrive_closed (c : Conn) (f : Frame) : (c.arrive f).isClosed = c.isClosed := rfl

theorem closeLocal_closed (c : Conn) : c.closeLocal.isClosed = true := rfl

theorem rinv_init : RInv {} := ⟨⟨[], rfl⟩, ⟨[], rfl⟩, by simp, by simp⟩

theorem rinv_step (s : Relay) (st : RStep) (h : RInv s) : RInv (s.step st) := by
  obtain ⟨⟨cu, hu⟩, ⟨cd, hd⟩, huc, hdc⟩ := h
  cases st with
  | arriveD f => exact ⟨⟨cu, hu⟩, ⟨cd, hd⟩, huc, by simpa [Relay.step, arrive_closed] using hdc⟩
  | arriveU f => exact ⟨⟨cu, hu⟩, ⟨cd, hd⟩, by simpa [Relay.step, arrive_closed] using huc, hdc⟩
  | copyDU b ch =>
    unfold Relay.step
    by_cases hdone : s.duDone = true
    · simp only [hdone, if_true]; exact ⟨⟨cu, hu⟩, ⟨cd, hd⟩, huc, hdc⟩
    · simp only [hdone]
      have hdf : s.duDone = false := by simpa using hdone
      have hd' : s.udDone = true → (read s.d b ch).2.isClosed = true :=
        fun hx => (read_closed _ b ch (hdc hx)).2
      rw [hdf] at hu; simp only [tailClose, if_false, List.append_nil, Bool.false_eq_true] at hu
      cases hr : (read s.d b ch).1 with
      | data bs =>
        refine ⟨⟨cu ++ [bs], ?_⟩, ⟨cd, hd⟩, ?_, hd'⟩
        · simp [hu, tailClose, binFrames]
        · simp
      | err e =>
        refine ⟨⟨cu, ?_⟩, ⟨cd, hd⟩, fun _ => closeLocal_closed _, hd'⟩
        simp [hu, tailClose]
      | zero => exact ⟨⟨cu, by simp [hu, tailClose]⟩, ⟨cd, hd⟩, by simp, hd'⟩
      | block => exact ⟨⟨cu, by simp [hu, tailClose]⟩, ⟨cd, hd⟩, by simp, hd'⟩
  | copyUD b ch =>
    unfold Relay.step
    by_cases hdone : s.udDone = true
    · simp only [hdone, if_true]; exact ⟨⟨cu, hu⟩, ⟨cd, hd⟩, huc, hdc⟩
    · simp only [hdone]
      have hdf : s.udDone = false := by simpa using hdone
      have hu' : s.duDone = true → (read s.u b ch).2.isClosed = true :=
        fun hx => (read_closed _ b ch (huc hx)).2
      rw [hdf] at hd; simp only [tailClose, if_false, List.append_nil, Bool.false_eq_true] at hd
      cases hr : (read s.u b ch).1 with
      | data bs =>
        refine ⟨⟨cu, hu⟩, ⟨cd ++ [bs], ?_⟩, hu', ?_⟩
        · simp [hd, tailClose, binFrames]
        · simp
      | err e =>
        refine ⟨⟨cu, hu⟩, ⟨cd, ?_⟩, hu', fun _ => closeLocal_closed _⟩
        simp [hd, tailClose]
      | zero => exact ⟨⟨cu, hu⟩, ⟨cd, by simp [hd, tailClose]⟩, hu', by simp⟩
      | block => exact ⟨⟨cu, hu⟩, ⟨cd, by simp [hd, tailClose]⟩, hu', by simp⟩

theorem rinv_run (s : Relay) (steps : List RStep) (h : RInv s) : RInv (s.run steps) := by
  induction steps generalizing s with
  | nil => exact h
  | cons st steps ih => exact ih _ (rinv_step s st h)

/-- once `io.Copy(upstream, downstream)` has returned, the next iteration of the other
goroutine returns too: both legs are closed -/
theorem relay_close_du (s : Relay) (b : Nat) (ch : Choice) (h : RInv s) (hd : s.duDone = true) :
    (s.step (.copyUD b ch)).duDone = true ∧ (s.step (.copyUD b ch)).udDone = true ∧
    (s.step (.copyUD b ch)).d.isClosed = true ∧ (s.step (.copyUD b ch)).u.isClosed = true := by
  by_cases hdone : s.udDone = true
  · have : s.step (.copyUD b ch) = s := by simp [Relay.step, hdone]
    rw [this]
    exact ⟨hd, hdone, h.dClosed hdone, h.uClosed hd⟩
  · obtain ⟨⟨e, he⟩, hc⟩ := read_closed s.u b ch (h.uClosed hd)
    have : s.step (.copyUD b ch) =
        { s with u := (read s.u b ch).2, udDone := true,
                 d := s.d.closeLocal, toD := s.toD ++ [.close] } := by
      simp [Relay.step, hdone, he]
    rw [this]
    exact ⟨hd, rfl, closeLocal_closed _, hc⟩

/-- the symmetric statement -/
theorem relay_close_ud (s : Relay) (b : Nat) (ch : Choice) (h : RInv s) (hd : s.udDone = true) :
    (s.step (.copyDU b ch)).duDone = true ∧ (s.step (.copyDU b ch)).udDone = true ∧
    (s.step (.copyDU b ch)).d.isClosed = true ∧ (s.step (.copyDU b ch)).u.isClosed = true := by
  by_cases hdone : s.duDone = true
  · have : s.step (.copyDU b ch) = s := by simp [Relay.step, hdone]
    rw [this]
    exact ⟨hdone, hd, h.dClosed hd, h.uClosed hdone⟩
  · obtain ⟨⟨e, he⟩, hc⟩ := read_closed s.d b ch (h.dClosed hd)
    have : s.step (.copyDU b ch) =
        { s with d := (read s.d b ch).2, duDone := true,
                 u := s.u.closeLocal, toU := s.toU ++ [.close] } := by
      simp [Relay.step, hdone, he]
    rw [this]
    exact ⟨rfl, hd, hc, closeLocal_closed _⟩

/-- the data path of the small-step relay: an iteration moves bytes from the downstream
connection to the upstream leg and nothing else -/
theorem relay_step_stream (s : Relay) (b : Nat) (ch : Choice) (h : RInv s) :
    payloadOf (s.step (.copyDU b ch)).toU ++ (s.step (.copyDU b ch)).d.pending
      = payloadOf s.toU ++ s.d.pending := by
  by_cases hdone : s.duDone = true
  · have : s.step (.copyDU b ch) = s := by simp [Relay.step, hdone]
    rw [this]
  · obtain ⟨cu, hu⟩ := h.toU
    have hdf : s.duDone = false := by simpa using hdone
    rw [hdf] at hu
    simp only [tailClose, Bool.false_eq_true, if_false, List.append_nil] at hu
    have hp : ∀ q, payloadOf (s.toU ++ q) = payloadOf s.toU ++ payloadOf q := by
      intro q
      rw [hu, payloadOf_binFrames]
      have := payloadOf_binFrames cu []
      simp only [List.append_nil, payloadOf] at this
      rw [this]
    have hrs := read_stream s.d b ch
    cases hr : (read s.d b ch).1 with
    | data bs =>
      have : s.step (.copyDU b ch) =
          { s with d := (read s.d b ch).2,
                   toU := s.toU ++ [.msg binaryMessage bs true] } := by simp [Relay.step, hdone, hr]
      rw [this]; simp only [hp, payloadOf, if_true, List.append_nil, List.append_assoc]
      rw [hr] at hrs; rw [← hrs]; rfl
    | err e =>
      have : s.step (.copyDU b ch) =
          { s with d := (read s.d b ch).2, duDone := true,
                   u := s.u.closeLocal, toU := s.toU ++ [.close] } := by simp [Relay.step, hdone, hr]
      rw [this]; simp only [hp, payloadOf, List.append_nil]
      rw [hr] at hrs; rw [← hrs]; rfl
    | zero =>
      have : s.step (.copyDU b ch) = { s with d := (read s.d b ch).2 } := by
        simp [Relay.step, hdone, hr]
      rw [this]; rw [hr] at hrs; rw [← hrs]; rfl
    | block =>
      have : s.step (.copyDU b ch) = { s with d := (read s.d b ch).2 } := by
        simp [Relay.step, hdone, hr]
      rw [this]; rw [hr] at hrs; rw [← hrs]; rfl

end Piko.WS
