import Proofs.GossipLocal
import Proofs.AMapLemmas
/-!
# Lemmas for C17 — the own state as a last-write-wins map (`pkg/gossip/state.go`)

* `LocalOp`, `stepLocal`, `runLocal` : the four local operations and their histories;
  `refMap` : the reference last-write-wins map of a history.
* `EntriesWF` / `OwnWF` : the well-formedness invariant of the node's own entry map that
  `CompactLocal` relies on, with its preservation by every operation.
* `reversion`, `sortByVersion` : how `find` on the map rebuilt by `CompactLocal` relates to
  membership in the old one.
-/
namespace Piko.Gossip
open Piko

/-! ## operations, histories, reference map -/

/-- a key that `UpsertLocal`/`DeleteLocal` callers may use: not one of the two keys the
package reserves for itself -/
def NonReserved (k : String) : Prop := k ≠ leftKey ∧ k ≠ compactKey

instance (k : String) : Decidable (NonReserved k) := by unfold NonReserved; infer_instance

/-- the local operations on a node's own state -/
inductive LocalOp
  | upsert (k v : String)
  | delete (k : String)
  | compact (thr : Nat)
  | leave
deriving DecidableEq, Repr

/-- the key whose entry the operation writes -/
def LocalOp.key : LocalOp → String
  | .upsert k _ => k
  | .delete k => k
  | .compact _ => compactKey
  | .leave => leftKey

/-- `compact` with result `none` is the Go panic; a history treats it as "unchanged"
(`compactLocal_eq_none` shows when it can happen: empty map and threshold 0 only) -/
def stepLocal (s : CState) : LocalOp → CState
  | .upsert k v => upsertLocal s k v
  | .delete k => deleteLocal s k
  | .compact thr => (compactLocal s thr).getD s
  | .leave => leaveLocal s

def runLocal (s : CState) (ops : List LocalOp) : CState := ops.foldl stepLocal s

@[simp] theorem runLocal_nil (s : CState) : runLocal s [] = s := rfl
@[simp] theorem runLocal_cons (s : CState) (op : LocalOp) (ops : List LocalOp) :
    runLocal s (op :: ops) = runLocal (stepLocal s op) ops := rfl

theorem runLocal_append (s : CState) (ops ops' : List LocalOp) :
    runLocal s (ops ++ ops') = runLocal (runLocal s ops) ops' := by
  simp [runLocal, List.foldl_append]

/-- one step of the reference map: upsert ↦ `some v`, delete ↦ `none`, compact/leave ↦ unchanged -/
def refApply (m : String → Option String) : LocalOp → String → Option String
  | .upsert k v => fun k' => if k = k' then some v else m k'
  | .delete k => fun k' => if k = k' then none else m k'
  | .compact _ => m
  | .leave => m

def refRun (m : String → Option String) (ops : List LocalOp) : String → Option String :=
  ops.foldl refApply m

/-- the reference last-write-wins map of a history, from the empty map -/
def refMap (ops : List LocalOp) : String → Option String := refRun (fun _ => none) ops

/-! ## the well-formedness invariant of an entry map -/

/-- `m` is a well-formed own entry map of a node whose version counter is `ver` -/
structure EntriesWF (ver : Nat) (m : AMap String Entry) : Prop where
  /-- map keys are distinct (it is a Go map) -/
  nodup : m.NoDupKeys
  /-- every entry is stored under its own key -/
  keyed : ∀ p ∈ m, p.2.key = p.1
  /-- no entry is newer than the node version -/
  le_version : ∀ p ∈ m, p.2.version ≤ ver
  /-- versions are pairwise distinct -/
  inj : ∀ p ∈ m, ∀ q ∈ m, p.2.version = q.2.version → p = q
  /-- a non-empty map has an entry carrying the node version -/
  top : m ≠ [] → ∃ p ∈ m, p.2.version = ver

/-- the own node of `s` is well formed -/
def OwnWF (s : CState) : Prop := EntriesWF (own s).version (own s).entries

theorem entriesWF_nil : EntriesWF 0 [] where
  nodup := AMap.noDupKeys_nil
  keyed := by simp
  le_version := by simp
  inj := by simp
  top := by simp

/-- writing one entry with the next version under its own key keeps the map well formed -/
theorem EntriesWF.write {ver : Nat} {m : AMap String Entry} (h : EntriesWF ver m)
    (k : String) (e : Entry) (hk : e.key = k) (hv : e.version = ver + 1) :
    EntriesWF (ver + 1) (m.insert k e) where
  nodup := h.nodup.insert k e
  keyed := by
    intro p hp
    rcases AMap.mem_insert.mp hp with rfl | ⟨hp, _⟩
    · exact hk
    · exact h.keyed p hp
  le_version := by
    intro p hp
    rcases AMap.mem_insert.mp hp with rfl | ⟨hp, _⟩
    · simp [hv]
    · have := h.le_version p hp; omega
  inj := by
    intro p hp q hq hpq
    rcases AMap.mem_insert.mp hp with rfl | ⟨hp, _⟩ <;>
      rcases AMap.mem_insert.mp hq with rfl | ⟨hq, _⟩
    · rfl
    · have := h.le_version q hq; simp only at hpq; omega
    · have := h.le_version p hp; simp only at hpq; omega
    · exact h.inj p hp q hq hpq
  top := fun _ => ⟨(k, e), AMap.mem_insert.mpr (Or.inl rfl), hv⟩

/-- facts in terms of `find` -/
theorem EntriesWF.find_key {ver : Nat} {m : AMap String Entry} (h : EntriesWF ver m)
    {k : String} {e : Entry} (hf : m.find k = some e) : e.key = k :=
  h.keyed (k, e) (AMap.mem_of_find hf)

theorem EntriesWF.find_le {ver : Nat} {m : AMap String Entry} (h : EntriesWF ver m)
    {k : String} {e : Entry} (hf : m.find k = some e) : e.version ≤ ver :=
  h.le_version (k, e) (AMap.mem_of_find hf)

/-- an entry of the value list is what `find` returns under its key -/
theorem EntriesWF.find_of_mem_vals {ver : Nat} {m : AMap String Entry} (h : EntriesWF ver m)
    {e : Entry} (he : e ∈ m.vals) : m.find e.key = some e := by
  obtain ⟨k, hk⟩ := AMap.mem_vals.mp he
  have := h.keyed (k, e) hk
  simp only at this
  subst this
  exact AMap.find_of_mem h.nodup hk

theorem EntriesWF.keys_eq {ver : Nat} {m : AMap String Entry} (h : EntriesWF ver m) :
    m.vals.map (·.key) = m.keys := by
  simp only [AMap.vals, AMap.keys, List.map_map]
  apply List.map_congr_left
  intro p hp
  exact h.keyed p hp

/-! ## `reversion` -/

@[simp] theorem length_reversion (v0 : Nat) (l : List Entry) : (reversion v0 l).length = l.length := by
  induction l generalizing v0 with
  | nil => rfl
  | cons a l ih => simp [reversion, ih]

theorem map_key_reversion (v0 : Nat) (l : List Entry) :
    (reversion v0 l).map (·.key) = l.map (·.key) := by
  induction l generalizing v0 with
  | nil => rfl
  | cons a l ih => simp [reversion, ih]

/-- every re-versioned entry is an old entry with a new version in `(v0, v0 + length]` -/
theorem mem_reversion {v0 : Nat} {l : List Entry} {e' : Entry} (h : e' ∈ reversion v0 l) :
    ∃ e ∈ l, e' = { e with version := e'.version } ∧ v0 < e'.version ∧ e'.version ≤ v0 + l.length := by
  induction l generalizing v0 with
  | nil => simp [reversion] at h
  | cons a l ih =>
    simp only [reversion, List.mem_cons] at h
    rcases h with rfl | h
    · exact ⟨a, List.mem_cons_self, rfl, by simp, by simp⟩
    · obtain ⟨e, he, h1, h2, h3⟩ := ih h
      exact ⟨e, List.mem_cons_of_mem _ he, h1, by omega, by simp only [List.length_cons]; omega⟩

theorem pairwise_reversion (v0 : Nat) (l : List Entry) :
    (reversion v0 l).Pairwise (fun a b => a.version < b.version) := by
  induction l generalizing v0 with
  | nil => simp [reversion]
  | cons a l ih =>
    simp only [reversion, List.pairwise_cons]
    refine ⟨?_, ih (v0 + 1)⟩
    intro b hb
    obtain ⟨_, _, _, h2, _⟩ := mem_reversion hb
    exact h2

/-- the map `CompactLocal` rebuilds from the re-versioned list -/
def rmap (v0 : Nat) (l : List Entry) : AMap String Entry := (reversion v0 l).map (fun e => (e.key, e))

theorem rmap_cons (v0 : Nat) (a : Entry) (l : List Entry) :
    rmap v0 (a :: l) = (a.key, { a with version := v0 + 1 }) :: rmap (v0 + 1) l := rfl

theorem mem_rmap {v0 : Nat} {l : List Entry} {p : String × Entry} (h : p ∈ rmap v0 l) :
    p.1 = p.2.key ∧ p.2 ∈ reversion v0 l := by
  simp only [rmap, List.mem_map] at h
  obtain ⟨e, he, rfl⟩ := h
  exact ⟨rfl, he⟩

theorem keys_rmap (v0 : Nat) (l : List Entry) : (rmap v0 l).keys = l.map (·.key) := by
  rw [rmap, AMap.keys_map_key, map_key_reversion]

/-- a key of the old list is found in the rebuilt map with the same entry up to version -/
theorem find_rmap {l : List Entry} (hnd : (l.map (·.key)).Nodup) (v0 : Nat) {e : Entry} (he : e ∈ l) :
    ∃ v, v0 < v ∧ v ≤ v0 + l.length ∧ (rmap v0 l).find e.key = some { e with version := v } := by
  induction l generalizing v0 with
  | nil => simp at he
  | cons a l ih =>
    simp only [List.map_cons, List.nodup_cons] at hnd
    rw [rmap_cons, AMap.find_cons]
    rcases List.mem_cons.mp he with rfl | he
    · exact ⟨v0 + 1, by omega, by simp only [List.length_cons]; omega, by simp⟩
    · have hne : ¬ a.key = e.key := by
        intro heq
        exact hnd.1 (heq ▸ List.mem_map.mpr ⟨e, he, rfl⟩)
      obtain ⟨v, h1, h2, h3⟩ := ih hnd.2 (v0 + 1) he
      exact ⟨v, by omega, by simp only [List.length_cons]; omega, by simp [hne, h3]⟩

theorem find_rmap_none (v0 : Nat) {l : List Entry} {k : String} (h : ∀ e ∈ l, e.key ≠ k) :
    (rmap v0 l).find k = none := by
  rw [AMap.find_eq_none_iff]
  intro p hp
  obtain ⟨h1, h2⟩ := mem_rmap hp
  obtain ⟨e, he, h3, _, _⟩ := mem_reversion h2
  rw [h1, h3]
  exact h e he

/-- re-versioning a version-sorted list keeps the relative order of any two of its keys -/
theorem find_rmap_lt {l : List Entry} (hnd : (l.map (·.key)).Nodup)
    (hs : l.Pairwise (fun a b => a.version ≤ b.version)) (v0 : Nat) {e1 e2 e1' e2' : Entry}
    (h1 : e1 ∈ l) (h2 : e2 ∈ l) (hlt : e1.version < e2.version)
    (hf1 : (rmap v0 l).find e1.key = some e1') (hf2 : (rmap v0 l).find e2.key = some e2') :
    e1'.version < e2'.version := by
  induction l generalizing v0 with
  | nil => simp at h1
  | cons a l ih =>
    simp only [List.map_cons, List.nodup_cons] at hnd
    simp only [List.pairwise_cons] at hs
    rw [rmap_cons, AMap.find_cons] at hf1 hf2
    have hne : ∀ e ∈ l, ¬ a.key = e.key := by
      intro e he heq
      exact hnd.1 (heq ▸ List.mem_map.mpr ⟨e, he, rfl⟩)
    rcases List.mem_cons.mp h1 with rfl | h1'
    · rcases List.mem_cons.mp h2 with rfl | h2'
      · omega
      · simp only [if_true, Option.some.injEq] at hf1
        rw [if_neg (hne _ h2')] at hf2
        obtain ⟨_, hm⟩ := mem_rmap (AMap.mem_of_find hf2)
        obtain ⟨_, _, _, hgt, _⟩ := mem_reversion hm
        subst hf1
        exact hgt
    · rcases List.mem_cons.mp h2 with rfl | h2'
      · have := hs.1 e1 h1'; omega
      · rw [if_neg (hne _ h1')] at hf1
        rw [if_neg (hne _ h2')] at hf2
        exact ih hnd.2 hs.2 (v0 + 1) h1' h2' hf1 hf2

/-! ## `sortByVersion` -/

theorem sortByVersion_perm (l : List Entry) : (sortByVersion l).Perm l :=
  List.mergeSort_perm _ _

theorem mem_sortByVersion {l : List Entry} {e : Entry} : e ∈ sortByVersion l ↔ e ∈ l :=
  List.mem_mergeSort

theorem pairwise_sortByVersion (l : List Entry) :
    (sortByVersion l).Pairwise (fun a b => a.version ≤ b.version) := by
  have h := List.pairwise_mergeSort (le := fun (a b : Entry) => decide (a.version ≤ b.version))
    (by intro a b c hab hbc; simp only [decide_eq_true_eq] at *; omega)
    (by intro a b; simp only [Bool.or_eq_true, decide_eq_true_eq]; omega) l
  exact h.imp (by intro a b hab; simpa using hab)

/-- the last element of a sorted list dominates every element -/
theorem le_getLast_of_pairwise {l : List Entry} {x : Entry}
    (hs : l.Pairwise (fun a b => a.version ≤ b.version)) (hl : l.getLast? = some x) :
    ∀ a ∈ l, a.version ≤ x.version := by
  obtain ⟨ys, rfl⟩ := List.getLast?_eq_some_iff.mp hl
  intro a ha
  rcases List.mem_append.mp ha with ha | ha
  · exact (List.pairwise_append.mp hs).2.2 a ha x (by simp)
  · simp at ha; subst ha; exact Nat.le_refl _

/-- in a list with strictly increasing versions an entry is determined by its version -/
theorem eq_of_pairwise_lt {l : List Entry} (h : l.Pairwise (fun a b => a.version < b.version))
    {a b : Entry} (ha : a ∈ l) (hb : b ∈ l) (hv : a.version = b.version) : a = b := by
  induction l with
  | nil => simp at ha
  | cons x l ih =>
    simp only [List.pairwise_cons] at h
    rcases List.mem_cons.mp ha with rfl | ha' <;> rcases List.mem_cons.mp hb with rfl | hb'
    · rfl
    · have := h.1 b hb'; omega
    · have := h.1 a ha'; omega
    · exact ih h.2 ha' hb'

/-! ## `compactLocal` unfolded -/

/-- the number of tombstones `CompactLocal` counts -/
def deletedCount (s : CState) : Nat := ((own s).entries.vals.filter (·.deleted)).length

/-- the entries that survive a compaction, in version order -/
def compactKept (s : CState) : List Entry :=
  (sortByVersion (own s).entries.vals).filter compactKeeps

/-- the own node after an effective compaction whose newest pre-compaction version was `lastV` -/
def compactedNode (s : CState) (lastV : Nat) : NodeSt :=
  { own s with
    version := (own s).version + (compactKept s).length + 1,
    entries := (rmap (own s).version (compactKept s)).insert compactKey
      { key := compactKey, value := toString lastV,
        version := (own s).version + (compactKept s).length + 1, internal := true } }

theorem deletedCount_sorted (s : CState) :
    ((sortByVersion (own s).entries.vals).filter (·.deleted)).length = deletedCount s :=
  ((sortByVersion_perm _).filter _).length_eq

theorem compactLocal_eq (s : CState) (thr : Nat) :
    compactLocal s thr =
      if deletedCount s < thr then some s else
        match (sortByVersion (own s).entries.vals).getLast? with
        | none => none
        | some lastE => some (setOwn s (compactedNode s lastE.version)) := by
  unfold compactLocal
  simp only [deletedCount_sorted, length_reversion]
  rfl

/-- `CompactLocal` panics (indexes an empty slice) only on an empty map with threshold 0 -/
theorem compactLocal_eq_none {s : CState} {thr : Nat} (h : compactLocal s thr = none) :
    (own s).entries = [] ∧ thr = 0 := by
  rw [compactLocal_eq] at h
  split at h
  · cases h
  · rename_i hlt
    split at h
    · rename_i hl
      have h1 : sortByVersion (own s).entries.vals = [] := List.getLast?_eq_none_iff.mp hl
      have h2 : (own s).entries.vals = [] := by
        have := (sortByVersion_perm (own s).entries.vals).symm
        rw [h1] at this
        exact this.eq_nil
      have h3 : (own s).entries = [] := AMap.eq_nil_of_vals_eq_nil h2
      refine ⟨h3, ?_⟩
      have : deletedCount s = 0 := by simp [deletedCount, h2]
      omega
    · cases h

theorem compactLocal_below {s : CState} {thr : Nat} (h : deletedCount s < thr) :
    compactLocal s thr = some s := by
  rw [compactLocal_eq, if_pos h]

theorem mem_vals_ne_nil {m : AMap String Entry} {e : Entry} (he : e ∈ m.vals) : m ≠ [] := by
  intro h; subst h; simp [AMap.vals] at he

/-- under the invariant the newest entry carries the node version -/
theorem getLast_version {s : CState} (hwf : OwnWF s) {lastE : Entry}
    (hl : (sortByVersion (own s).entries.vals).getLast? = some lastE) :
    lastE.version = (own s).version := by
  have hmem : lastE ∈ (own s).entries.vals := mem_sortByVersion.mp (List.mem_of_getLast? hl)
  obtain ⟨k, hk⟩ := AMap.mem_vals.mp hmem
  have h1 := hwf.le_version (k, lastE) hk
  obtain ⟨p, hp, hpv⟩ := hwf.top (mem_vals_ne_nil hmem)
  have hp2 : p.2 ∈ sortByVersion (own s).entries.vals :=
    mem_sortByVersion.mpr (AMap.mem_vals.mpr ⟨p.1, hp⟩)
  have h2 := le_getLast_of_pairwise (pairwise_sortByVersion _) hl p.2 hp2
  simp only at h1
  omega

/-- an effective compaction: the result, explicitly -/
theorem compactLocal_effective {s : CState} (hwf : OwnWF s) {thr : Nat}
    (hthr : thr ≤ deletedCount s) (hne : (own s).entries ≠ []) :
    compactLocal s thr = some (setOwn s (compactedNode s (own s).version)) := by
  rw [compactLocal_eq, if_neg (by omega)]
  cases hl : (sortByVersion (own s).entries.vals).getLast? with
  | none =>
    exfalso
    have h1 : sortByVersion (own s).entries.vals = [] := List.getLast?_eq_none_iff.mp hl
    have := (sortByVersion_perm (own s).entries.vals).symm
    rw [h1] at this
    exact hne (AMap.eq_nil_of_vals_eq_nil this.eq_nil)
  | some lastE => simp only [getLast_version hwf hl]

/-- every `some` result of `compactLocal` is either `s` itself or the compacted node -/
theorem compactLocal_some {s s' : CState} (hwf : OwnWF s) {thr : Nat}
    (h : compactLocal s thr = some s') :
    (deletedCount s < thr ∧ s' = s) ∨
    (thr ≤ deletedCount s ∧ (own s).entries ≠ [] ∧
      s' = setOwn s (compactedNode s (own s).version)) := by
  by_cases hlt : deletedCount s < thr
  · rw [compactLocal_below hlt] at h
    exact Or.inl ⟨hlt, (Option.some.inj h).symm⟩
  · by_cases hne : (own s).entries = []
    · exfalso
      rw [compactLocal_eq, if_neg hlt] at h
      have : sortByVersion (own s).entries.vals = [] := by
        have hv : (own s).entries.vals = [] := by rw [hne]; rfl
        have hp := (sortByVersion_perm (own s).entries.vals).length_eq
        exact List.eq_nil_of_length_eq_zero (by rw [hp, hv]; rfl)
      rw [this] at h
      simp at h
    · rw [compactLocal_effective hwf (by omega) hne] at h
      exact Or.inr ⟨by omega, hne, (Option.some.inj h).symm⟩

/-! ## the surviving entries -/

theorem mem_compactKept {s : CState} {e : Entry} :
    e ∈ compactKept s ↔ e ∈ (own s).entries.vals ∧ compactKeeps e = true := by
  simp [compactKept, List.mem_filter, mem_sortByVersion]

theorem compactKept_nodup {s : CState} (hwf : OwnWF s) : ((compactKept s).map (·.key)).Nodup := by
  have h1 : ((own s).entries.vals.map (·.key)).Nodup := by rw [hwf.keys_eq]; exact hwf.nodup
  have h2 : ((sortByVersion (own s).entries.vals).map (·.key)).Nodup :=
    ((sortByVersion_perm _).map _).nodup_iff.mpr h1
  exact h2.sublist (List.filter_sublist.map _)

theorem compactKept_pairwise (s : CState) :
    (compactKept s).Pairwise (fun a b => a.version ≤ b.version) :=
  (pairwise_sortByVersion _).sublist List.filter_sublist

theorem find_compacted_ne (s : CState) (lastV : Nat) {k : String} (hk : k ≠ compactKey) :
    (compactedNode s lastV).entries.find k = (rmap (own s).version (compactKept s)).find k :=
  AMap.find_insert_ne _ _ hk

/-- a live entry of a key other than the marker key survives, re-versioned -/
theorem find_compacted_live {s : CState} (hwf : OwnWF s) (lastV : Nat) {k : String} {e : Entry}
    (hk : k ≠ compactKey) (hf : (own s).entries.find k = some e) (hd : e.deleted = false) :
    ∃ v, (own s).version < v ∧ v ≤ (own s).version + (compactKept s).length ∧
      (compactedNode s lastV).entries.find k = some { e with version := v } := by
  have hkey : e.key = k := hwf.find_key hf
  subst hkey
  have hmem : e ∈ compactKept s := by
    rw [mem_compactKept]
    refine ⟨AMap.mem_vals.mpr ⟨e.key, AMap.mem_of_find hf⟩, ?_⟩
    simp [compactKeeps, hd, hk]
  obtain ⟨v, h1, h2, h3⟩ := find_rmap (compactKept_nodup hwf) (own s).version hmem
  exact ⟨v, h1, h2, by rw [find_compacted_ne s lastV hk, h3]⟩

/-- a key that is absent or a tombstone is absent afterwards -/
theorem find_compacted_dead {s : CState} (hwf : OwnWF s) (lastV : Nat) {k : String}
    (hk : k ≠ compactKey) (h : ∀ e, (own s).entries.find k = some e → e.deleted = true) :
    (compactedNode s lastV).entries.find k = none := by
  rw [find_compacted_ne s lastV hk]
  apply find_rmap_none
  intro e he hek
  obtain ⟨hv, hkeep⟩ := mem_compactKept.mp he
  have hf := hwf.find_of_mem_vals hv
  rw [hek] at hf
  have := h e hf
  simp [compactKeeps, this] at hkeep

theorem liveValue_compacted {s : CState} (hwf : OwnWF s) (lastV : Nat) {k : String}
    (hk : k ≠ compactKey) :
    liveValue (setOwn s (compactedNode s lastV)) k = liveValue s k := by
  unfold liveValue
  rw [own_setOwn]
  cases hf : (own s).entries.find k with
  | none =>
    rw [find_compacted_dead hwf lastV hk (by intro e he; rw [hf] at he; cases he)]
  | some e =>
    by_cases hd : e.deleted = true
    · rw [find_compacted_dead hwf lastV hk
        (by intro e' he; rw [hf] at he; cases he; exact hd)]
      simp [hd]
    · have hd' : e.deleted = false := by simpa using hd
      obtain ⟨v, _, _, h3⟩ := find_compacted_live hwf lastV hk hf hd'
      rw [h3]

/-- every entry of the compacted map is the marker or a re-versioned survivor -/
theorem mem_compacted {s : CState} {lastV : Nat} {p : String × Entry}
    (hp : p ∈ (compactedNode s lastV).entries) :
    p = (compactKey, { key := compactKey, value := toString lastV,
                       version := (own s).version + (compactKept s).length + 1, internal := true }) ∨
    (p.1 = p.2.key ∧ ∃ e ∈ compactKept s, p.2 = { e with version := p.2.version } ∧
      (own s).version < p.2.version ∧ p.2.version ≤ (own s).version + (compactKept s).length) := by
  rcases AMap.mem_insert.mp hp with h | ⟨h, _⟩
  · exact Or.inl h
  · obtain ⟨h1, h2⟩ := mem_rmap h
    obtain ⟨e, he, h3, h4, h5⟩ := mem_reversion h2
    exact Or.inr ⟨h1, e, he, h3, h4, h5⟩

theorem entriesWF_compacted {s : CState} (hwf : OwnWF s) (lastV : Nat) :
    EntriesWF (compactedNode s lastV).version (compactedNode s lastV).entries where
  nodup := by
    have : (rmap (own s).version (compactKept s)).NoDupKeys := by
      unfold AMap.NoDupKeys; rw [keys_rmap]; exact compactKept_nodup hwf
    exact this.insert _ _
  keyed := by
    intro p hp
    rcases mem_compacted hp with rfl | ⟨h1, _⟩
    · rfl
    · exact h1.symm
  le_version := by
    intro p hp
    rcases mem_compacted hp with rfl | ⟨_, e, _, _, _, h5⟩
    · exact Nat.le_refl _
    · show p.2.version ≤ (own s).version + (compactKept s).length + 1
      omega
  inj := by
    intro p hp q hq hpq
    rcases mem_compacted hp with rfl | ⟨hp1, _, _, _, _, hp5⟩ <;>
      rcases mem_compacted hq with rfl | ⟨hq1, _, _, _, _, hq5⟩
    · rfl
    · simp only at hpq; omega
    · simp only at hpq; omega
    · have hp' : p.2 ∈ reversion (own s).version (compactKept s) := by
        rcases AMap.mem_insert.mp hp with h | ⟨h, _⟩
        · subst h; simp only at hp5; omega
        · exact (mem_rmap h).2
      have hq' : q.2 ∈ reversion (own s).version (compactKept s) := by
        rcases AMap.mem_insert.mp hq with h | ⟨h, _⟩
        · subst h; simp only at hq5; omega
        · exact (mem_rmap h).2
      have := eq_of_pairwise_lt (pairwise_reversion _ _) hp' hq' hpq
      exact Prod.ext (by rw [hp1, hq1, this]) this
  top := fun _ => ⟨_, AMap.mem_insert.mpr (Or.inl rfl), rfl⟩

/-- compaction keeps the relative version order of the surviving keys -/
theorem compacted_order {s : CState} (hwf : OwnWF s) (lastV : Nat) {k1 k2 : String}
    {e1 e2 e1' e2' : Entry} (hk1 : k1 ≠ compactKey) (hk2 : k2 ≠ compactKey)
    (hf1 : (own s).entries.find k1 = some e1) (hf2 : (own s).entries.find k2 = some e2)
    (hd1 : e1.deleted = false) (hd2 : e2.deleted = false) (hlt : e1.version < e2.version)
    (hf1' : (compactedNode s lastV).entries.find k1 = some e1')
    (hf2' : (compactedNode s lastV).entries.find k2 = some e2') :
    e1'.version < e2'.version := by
  have hkey1 : e1.key = k1 := hwf.find_key hf1
  have hkey2 : e2.key = k2 := hwf.find_key hf2
  subst hkey1 hkey2
  have hm1 : e1 ∈ compactKept s := by
    rw [mem_compactKept]
    exact ⟨AMap.mem_vals.mpr ⟨e1.key, AMap.mem_of_find hf1⟩, by simp [compactKeeps, hd1, hk1]⟩
  have hm2 : e2 ∈ compactKept s := by
    rw [mem_compactKept]
    exact ⟨AMap.mem_vals.mpr ⟨e2.key, AMap.mem_of_find hf2⟩, by simp [compactKeeps, hd2, hk2]⟩
  rw [find_compacted_ne s lastV hk1] at hf1'
  rw [find_compacted_ne s lastV hk2] at hf2'
  exact find_rmap_lt (compactKept_nodup hwf) (compactKept_pairwise s) _ hm1 hm2 hlt hf1' hf2'

/-! ## the operations, case by case -/

/-- an effective write: the node version goes up by exactly one, the entry under `k`
carries the new version, every other entry is untouched -/
structure FreshWrite (s s' : CState) (k : String) : Prop where
  version : (own s').version = (own s).version + 1
  touched : ∃ e, (own s').entries.find k = some e ∧ e.version = (own s).version + 1
  others : ∀ k', k' ≠ k → (own s').entries.find k' = (own s).entries.find k'

/-- some live value or the left flag differs -/
def Changed (s s' : CState) : Prop :=
  (∃ k, liveValue s' k ≠ liveValue s k) ∨ (own s').left ≠ (own s).left

theorem not_changed_self (s : CState) : ¬ Changed s s := by
  rintro (⟨k, hk⟩ | h) <;> simp at *

theorem freshWrite_writeOwn (s : CState) (k : String) (mk : Nat → Entry)
    (hv : (mk ((own s).version + 1)).version = (own s).version + 1) :
    FreshWrite s (writeOwn s k mk) k where
  version := by rw [own_writeOwn]
  touched := ⟨mk ((own s).version + 1), by rw [own_writeOwn]; simp, hv⟩
  others := by
    intro k' hk'
    rw [own_writeOwn]
    exact AMap.find_insert_ne _ _ hk'

theorem ownWF_writeOwn {s : CState} (h : OwnWF s) (k : String) (mk : Nat → Entry)
    (hk : (mk ((own s).version + 1)).key = k)
    (hv : (mk ((own s).version + 1)).version = (own s).version + 1) :
    OwnWF (writeOwn s k mk) := by
  unfold OwnWF
  rw [own_writeOwn]
  exact EntriesWF.write h k _ hk hv

theorem left_writeOwn (s : CState) (k : String) (mk : Nat → Entry) :
    (own (writeOwn s k mk)).left = (own s).left := by rw [own_writeOwn]

theorem upsertLocal_cases (s : CState) (k v : String) :
    (liveValue s k = some v ∧ upsertLocal s k v = s) ∨
    (liveValue s k ≠ some v ∧
      upsertLocal s k v = writeOwn s k (fun ver => { key := k, value := v, version := ver })) := by
  unfold upsertLocal liveValue
  cases hf : (own s).entries.find k with
  | none => right; simp
  | some e =>
    by_cases hc : (e.value = v && !e.deleted) = true
    · left
      simp only [hc, if_true, and_true]
      simp only [Bool.and_eq_true, decide_eq_true_eq, Bool.not_eq_true'] at hc
      simp [hc.1, hc.2]
    · right
      refine ⟨?_, by simp only [hc]; rfl⟩
      intro h
      apply hc
      by_cases hd : e.deleted = true
      · simp [hd] at h
      · simp only [hd] at h
        simp at h
        simp [h, hd]

theorem deleteLocal_cases (s : CState) (k : String) :
    (liveValue s k = none ∧ deleteLocal s k = s) ∨
    (∃ e, (own s).entries.find k = some e ∧ e.deleted = false ∧
      deleteLocal s k = writeOwn s k (fun ver =>
        { key := e.key, value := "", version := ver, internal := e.internal, deleted := true })) := by
  unfold deleteLocal liveValue
  cases hf : (own s).entries.find k with
  | none => left; simp
  | some e =>
    by_cases hd : e.deleted = true
    · left; simp [hd]
    · right
      exact ⟨e, rfl, by simpa using hd, by simp only [hd]; rfl⟩

/-- the own node after an effective `LeaveLocal` -/
def leftNode (s : CState) : NodeSt :=
  { own s with left := true, version := (own s).version + 1,
               entries := (own s).entries.insert leftKey
                 { key := leftKey, value := "", version := (own s).version + 1, internal := true } }

theorem leaveLocal_cases (s : CState) :
    ((own s).left = true ∧ leaveLocal s = s) ∨
    ((own s).left = false ∧ leaveLocal s = setOwn s (leftNode s)) := by
  unfold leaveLocal
  by_cases h : (own s).left = true
  · left; simp [h]
  · right
    exact ⟨by simpa using h, by simp only [h]; rfl⟩

theorem ownWF_init (id addr : String) : OwnWF (init id addr) := by
  have : own (init id addr) = { id := id, addr := addr } := by simp [own, init]
  unfold OwnWF
  rw [this]
  exact entriesWF_nil

theorem ownWF_upsertLocal {s : CState} (h : OwnWF s) (k v : String) : OwnWF (upsertLocal s k v) := by
  rcases upsertLocal_cases s k v with ⟨_, e⟩ | ⟨_, e⟩ <;> rw [e]
  · exact h
  · exact ownWF_writeOwn h k _ rfl rfl

theorem ownWF_deleteLocal {s : CState} (h : OwnWF s) (k : String) : OwnWF (deleteLocal s k) := by
  rcases deleteLocal_cases s k with ⟨_, e⟩ | ⟨e0, hf, _, e⟩ <;> rw [e]
  · exact h
  · exact ownWF_writeOwn h k _ (show e0.key = k from h.find_key hf) rfl

theorem ownWF_leaveLocal {s : CState} (h : OwnWF s) : OwnWF (leaveLocal s) := by
  rcases leaveLocal_cases s with ⟨_, e⟩ | ⟨_, e⟩ <;> rw [e]
  · exact h
  · unfold OwnWF
    rw [own_setOwn]
    exact EntriesWF.write h leftKey _ rfl rfl

theorem ownWF_compactLocal {s s' : CState} (h : OwnWF s) {thr : Nat}
    (hc : compactLocal s thr = some s') : OwnWF s' := by
  rcases compactLocal_some h hc with ⟨_, rfl⟩ | ⟨_, _, rfl⟩
  · exact h
  · unfold OwnWF
    rw [own_setOwn]
    exact entriesWF_compacted h _

theorem ownWF_stepLocal {s : CState} (h : OwnWF s) (op : LocalOp) : OwnWF (stepLocal s op) := by
  cases op with
  | upsert k v => exact ownWF_upsertLocal h k v
  | delete k => exact ownWF_deleteLocal h k
  | leave => exact ownWF_leaveLocal h
  | compact thr =>
    simp only [stepLocal]
    cases hc : compactLocal s thr with
    | none => exact h
    | some s' => exact ownWF_compactLocal h hc

theorem ownWF_runLocal {s : CState} (h : OwnWF s) (ops : List LocalOp) : OwnWF (runLocal s ops) := by
  induction ops generalizing s with
  | nil => exact h
  | cons op ops ih => exact ih (ownWF_stepLocal h op)

/-! ## live values under leave and compaction -/

theorem liveValue_leaveLocal (s : CState) {k : String} (hk : k ≠ leftKey) :
    liveValue (leaveLocal s) k = liveValue s k := by
  rcases leaveLocal_cases s with ⟨_, e⟩ | ⟨_, e⟩ <;> rw [e]
  unfold liveValue
  rw [own_setOwn]
  simp only [leftNode, AMap.find_insert_ne _ _ hk]

theorem liveValue_compactLocal {s s' : CState} (h : OwnWF s) {thr : Nat}
    (hc : compactLocal s thr = some s') {k : String} (hk : k ≠ compactKey) :
    liveValue s' k = liveValue s k := by
  rcases compactLocal_some h hc with ⟨_, rfl⟩ | ⟨_, _, rfl⟩
  · rfl
  · exact liveValue_compacted h _ hk

theorem liveValue_stepLocal {s : CState} (h : OwnWF s) (op : LocalOp) {k : String}
    (hk : NonReserved k) :
    liveValue (stepLocal s op) k = refApply (liveValue s) op k := by
  cases op with
  | upsert k' v => exact liveValue_upsertLocal s k' v k
  | delete k' => exact liveValue_deleteLocal s k' k
  | leave => exact liveValue_leaveLocal s hk.1
  | compact thr =>
    simp only [stepLocal, refApply]
    cases hc : compactLocal s thr with
    | none => rfl
    | some s' => exact liveValue_compactLocal h hc hk.2

theorem refRun_congr {m m' : String → Option String} (ops : List LocalOp)
    (h : ∀ k, NonReserved k → m k = m' k) : ∀ k, NonReserved k → refRun m ops k = refRun m' ops k := by
  induction ops generalizing m m' with
  | nil => exact h
  | cons op ops ih =>
    apply ih (m := refApply m op) (m' := refApply m' op)
    intro k hk
    cases op with
    | upsert k' v => simp only [refApply]; split <;> simp [h k hk]
    | delete k' => simp only [refApply]; split <;> simp [h k hk]
    | leave => exact h k hk
    | compact thr => exact h k hk

theorem liveValue_runLocal {s : CState} (h : OwnWF s) (ops : List LocalOp) {k : String}
    (hk : NonReserved k) :
    liveValue (runLocal s ops) k = refRun (liveValue s) ops k := by
  induction ops generalizing s with
  | nil => rfl
  | cons op ops ih =>
    rw [runLocal_cons, ih (ownWF_stepLocal h op)]
    show _ = refRun (refApply (liveValue s) op) ops k
    exact refRun_congr ops (fun k' hk' => liveValue_stepLocal h op hk') k hk

theorem liveValue_init (id addr k : String) : liveValue (init id addr) k = none := by
  have : own (init id addr) = { id := id, addr := addr } := by simp [own, init]
  simp [liveValue, this]

/-! ## effective or not at all -/

/-- a non-compaction step either leaves the whole state alone or is a fresh write that
changed something observable -/
theorem stepLocal_cases (s : CState) (op : LocalOp) (hop : ∀ thr, op ≠ .compact thr) :
    stepLocal s op = s ∨ (FreshWrite s (stepLocal s op) op.key ∧ Changed s (stepLocal s op)) := by
  cases op with
  | compact thr => exact absurd rfl (hop thr)
  | upsert k v =>
    simp only [stepLocal, LocalOp.key]
    rcases upsertLocal_cases s k v with ⟨_, e⟩ | ⟨hne, e⟩
    · exact Or.inl e
    · right
      refine ⟨by rw [e]; exact freshWrite_writeOwn s k _ rfl, Or.inl ⟨k, ?_⟩⟩
      rw [liveValue_upsertLocal, if_pos rfl]
      exact fun h => hne h.symm
  | delete k =>
    simp only [stepLocal, LocalOp.key]
    rcases deleteLocal_cases s k with ⟨_, e⟩ | ⟨e0, hf, hd, e⟩
    · exact Or.inl e
    · right
      refine ⟨by rw [e]; exact freshWrite_writeOwn s k _ rfl, Or.inl ⟨k, ?_⟩⟩
      rw [liveValue_deleteLocal, if_pos rfl]
      simp [liveValue, hf, hd]
  | leave =>
    simp only [stepLocal, LocalOp.key]
    rcases leaveLocal_cases s with ⟨_, e⟩ | ⟨hl, e⟩
    · exact Or.inl e
    · right
      rw [e]
      refine ⟨⟨by rw [own_setOwn]; rfl, ⟨_, by rw [own_setOwn]; exact AMap.find_insert_self _ _ _, rfl⟩, ?_⟩,
        Or.inr ?_⟩
      · intro k' hk'
        rw [own_setOwn]
        exact AMap.find_insert_ne _ _ hk'
      · rw [own_setOwn, hl]; simp [leftNode]

/-! ## the left flag -/

theorem left_stepLocal (s : CState) (op : LocalOp) :
    (own (stepLocal s op)).left = ((own s).left || decide (op = .leave)) := by
  cases op with
  | upsert k v =>
    simp only [stepLocal]
    rcases upsertLocal_cases s k v with ⟨_, e⟩ | ⟨_, e⟩ <;> rw [e] <;> simp [left_writeOwn]
  | delete k =>
    simp only [stepLocal]
    rcases deleteLocal_cases s k with ⟨_, e⟩ | ⟨_, _, _, e⟩ <;> rw [e] <;> simp [left_writeOwn]
  | leave =>
    simp only [stepLocal]
    rcases leaveLocal_cases s with ⟨h, e⟩ | ⟨_, e⟩ <;> rw [e]
    · simp [h]
    · rw [own_setOwn]; simp [leftNode]
  | compact thr =>
    simp only [stepLocal]
    rw [compactLocal_eq]
    split
    · simp
    · split
      · simp
      · simp only [Option.getD_some, own_setOwn]; simp [compactedNode]

theorem left_runLocal (s : CState) (ops : List LocalOp) :
    (own (runLocal s ops)).left = ((own s).left || decide (LocalOp.leave ∈ ops)) := by
  induction ops generalizing s with
  | nil => simp
  | cons op ops ih =>
    rw [runLocal_cons, ih, left_stepLocal]
    by_cases h : op = .leave
    · simp [h]
    · have : ¬ LocalOp.leave = op := fun e => h e.symm
      simp [h, this]

/-! ## the sorted slice does not depend on map iteration order or on the sorting algorithm -/

/-- values of a well-formed map are determined by their version -/
theorem EntriesWF.vals_inj {ver : Nat} {m : AMap String Entry} (h : EntriesWF ver m)
    {a b : Entry} (ha : a ∈ m.vals) (hb : b ∈ m.vals) (hv : a.version = b.version) : a = b := by
  obtain ⟨ka, hka⟩ := AMap.mem_vals.mp ha
  obtain ⟨kb, hkb⟩ := AMap.mem_vals.mp hb
  exact congrArg Prod.snd (h.inj (ka, a) hka (kb, b) hkb hv)

/-- any arrangement of `l` that is sorted by version is the one `sortByVersion` computes,
provided versions are distinct inside `l` -/
theorem eq_sortByVersion_of_sorted {l r : List Entry}
    (hinj : ∀ a ∈ l, ∀ b ∈ l, a.version = b.version → a = b)
    (hp : r.Perm l) (hs : r.Pairwise (fun a b => a.version ≤ b.version)) :
    r = sortByVersion l := by
  refine List.Perm.eq_of_pairwise (le := fun a b => a.version ≤ b.version) ?_ hs
    (pairwise_sortByVersion l) (hp.trans (sortByVersion_perm l).symm)
  intro a b ha hb hab hba
  exact hinj a (hp.mem_iff.mp ha) b (mem_sortByVersion.mp hb) (Nat.le_antisymm hab hba)

end Piko.Gossip
