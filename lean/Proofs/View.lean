import Proofs.AMapX
import PikoModel.Gossip.State
/-!
# One owner, its write history, one observer's view (the single-view core of C02)

`H` is the ghost history: every entry the owner ever held.  `OwnerInv H O` relates it to the
owner's current map `O`; `ViewInv H O V` is what an observer's view `V` satisfies;
`PktInv H O v0 es` is what the entry list of a delta about the owner satisfies when it was
computed for base version `v0`.  `applyEntries_viewInv` is the step that carries C02.
-/
namespace Piko.Gossip
open Piko

theorem parseUint64_toString (n : Nat) (h : n < 2^64) : parseUint64 (toString n) = some n := by
  unfold parseUint64
  simp only [Nat.toString_eq_repr, Nat.toList_repr]
  have h1 : (Nat.toDigits 10 n).isEmpty = false := by
    cases hh : Nat.toDigits 10 n with
    | nil => exact absurd hh Nat.toDigits_ne_nil
    | cons a b => rfl
  have h2 : (Nat.toDigits 10 n).all Char.isDigit = true := by
    rw [List.all_eq_true]
    intro c hc
    exact Nat.isDigit_of_mem_toDigits (by omega) (by omega) hc
  simp [h1, h2, Nat.ofDigitChars_ten_toDigits, h]

/-- map well-formedness: distinct keys, every entry stored under its own key -/
structure EntWF (m : AMap String Entry) : Prop where
  nodup : m.NoDupKeys
  keyed : ∀ k e, m.find k = some e → e.key = k

theorem EntWF.nil : EntWF ([] : AMap String Entry) :=
  ⟨AMap.noDupKeys_nil, by intro k e h; simp at h⟩

theorem EntWF.insert {m : AMap String Entry} (h : EntWF m) (e : Entry) :
    EntWF (m.insert e.key e) := by
  refine ⟨h.nodup.insert _ _, ?_⟩
  intro k e' hf
  rw [AMap.find_insert] at hf
  by_cases hk : e.key = k
  · simp only [hk, if_true, Option.some.injEq] at hf; subst hf; exact hk
  · simp only [hk, if_false] at hf; exact h.keyed k e' hf

theorem EntWF.filterV {m : AMap String Entry} (h : EntWF m) (p : Entry → Bool) :
    EntWF (m.filterV p) := by
  refine ⟨h.nodup.filterV p, ?_⟩
  intro k e hf
  rw [AMap.find_filterV h.nodup] at hf
  cases hm : m.find k with
  | none => simp [hm, Option.filter] at hf
  | some e' =>
    simp only [hm, Option.filter] at hf
    split at hf
    · simp only [Option.some.injEq] at hf; subst hf; exact h.keyed k e' hm
    · simp at hf

structure OwnerInv (H : List Entry) (O : NodeSt) : Prop where
  wf : EntWF O.entries
  /-- every current entry is in the history -/
  cur : ∀ k e, O.entries.find k = some e → e ∈ H
  /-- history versions are positive and bounded by the node version -/
  pos : ∀ h ∈ H, 0 < h.version
  hb : ∀ h ∈ H, h.version ≤ O.version
  /-- a version identifies an entry -/
  inj : ∀ h₁ ∈ H, ∀ h₂ ∈ H, h₁.version = h₂.version → h₁ = h₂
  /-- the current entry of a key is the newest entry that key ever had -/
  newest : ∀ h ∈ H, ∀ e, O.entries.find h.key = some e → h.version ≤ e.version
  /-- internal entries live under the two reserved keys, and the compaction key only holds markers -/
  internalKeys : ∀ h ∈ H, (h.internal = true → h.key = leftKey ∨ h.key = compactKey) ∧
                          (h.key = compactKey → h.internal = true)
  /-- every compaction marker ever written parses, points below itself and below every current entry -/
  markers : ∀ c ∈ H, c.key = compactKey → ∃ cv, parseUint64 c.value = some cv ∧ cv < c.version ∧
              ∀ k e, O.entries.find k = some e → cv < e.version
  /-- a historical entry newer than the current compaction floor still has its key present -/
  aboveFloor : ∀ h ∈ H, (∀ c cv, O.entries.find compactKey = some c → parseUint64 c.value = some cv →
                cv < h.version) → ∃ e, O.entries.find h.key = some e
  /-- the newest entry carries the node version -/
  top : ∀ h ∈ H, ∃ k e, O.entries.find k = some e ∧ e.version = O.version

structure ViewInv (H : List Entry) (O V : NodeSt) : Prop where
  wf : EntWF V.entries
  /-- never fabricated -/
  genuine : ∀ k e, V.entries.find k = some e → e ∈ H
  bounded : ∀ k e, V.entries.find k = some e → e.version ≤ V.version
  le : V.version ≤ O.version
  /-- every key whose latest write is at or below the reported version shows the owner's entry -/
  complete : ∀ k e, O.entries.find k = some e → e.version ≤ V.version → V.entries.find k = some e
  /-- every entry of the view is newer than the value of the view's own compaction marker -/
  aboveOwnMarker : ∀ c cv, V.entries.find compactKey = some c → parseUint64 c.value = some cv →
                     ∀ k e, V.entries.find k = some e → cv < e.version

/-- the entry list of a delta about the owner, computed for base version `v0` -/
structure PktInv (H : List Entry) (O : NodeSt) (v0 : Nat) (es : List Entry) : Prop where
  sorted : es.Pairwise (fun x y => x.version < y.version)
  genuine : ∀ e ∈ es, e ∈ H
  /-- only entries newer than the base are sent -/
  base : ∀ e ∈ es, v0 < e.version
  complete : ∀ k e', O.entries.find k = some e' → v0 < e'.version →
               (∃ l ∈ es, e'.version ≤ l.version) → e' ∈ es

/-- a fresh view (node just discovered, version 0) -/
theorem ViewInv.fresh {H : List Entry} {O : NodeSt} (ho : OwnerInv H O) (id addr : String) :
    ViewInv H O { id := id, addr := addr } := by
  refine ⟨EntWF.nil, ?_, ?_, Nat.zero_le _, ?_, ?_⟩
  · intro k e h; simp at h
  · intro k e h; simp at h
  · intro k e h hv
    have := ho.pos e (ho.cur k e h)
    simp at hv; omega
  · intro c cv h; simp at h

/-- "or is hidden": a key the owner no longer has is not visible once the view has reached the
owner's compaction marker -/
theorem ViewInv.hidden {H : List Entry} {O V : NodeSt} (ho : OwnerInv H O) (hv : ViewInv H O V)
    (k : String) (hk : O.entries.find k = none)
    (c : Entry) (hc : O.entries.find compactKey = some c) (hcv : c.version ≤ V.version) :
    V.entries.find k = none := by
  cases hf : V.entries.find k with
  | none => rfl
  | some e =>
    exfalso
    have heH := hv.genuine k e hf
    have hek : e.key = k := hv.wf.keyed k e hf
    have hVc := hv.complete compactKey c hc hcv
    have hcH := ho.cur _ _ hc
    have hckey : c.key = compactKey := ho.wf.keyed _ _ hc
    obtain ⟨cv, hp, _, _⟩ := ho.markers c hcH hckey
    have hgt := hv.aboveOwnMarker c cv hVc hp k e hf
    have := ho.aboveFloor e heH (by
      intro c' cv' hc' hp'
      rw [hc] at hc'; cases hc'
      rw [hp] at hp'; cases hp'
      exact hgt)
    rw [hek, hk] at this
    obtain ⟨_, h⟩ := this
    cases h

/-- the entry-map clauses of `ViewInv` other than `aboveOwnMarker` -/
structure ViewCore (H : List Entry) (O V : NodeSt) : Prop where
  wf : EntWF V.entries
  genuine : ∀ k e, V.entries.find k = some e → e ∈ H
  bounded : ∀ k e, V.entries.find k = some e → e.version ≤ V.version
  le : V.version ≤ O.version
  complete : ∀ k e, O.entries.find k = some e → e.version ≤ V.version → V.entries.find k = some e

theorem ViewInv.core {H : List Entry} {O V : NodeSt} (h : ViewInv H O V) : ViewCore H O V :=
  ⟨h.wf, h.genuine, h.bounded, h.le, h.complete⟩

/-- storing a newer history entry `e` (with no current owner entry strictly between) -/
theorem store_core {H : List Entry} {O V : NodeSt} (e : Entry)
    (ho : OwnerInv H O) (hv : ViewCore H O V) (he : e ∈ H) (hlt : V.version < e.version)
    (hbetween : ∀ k e', O.entries.find k = some e' →
        V.version < e'.version → e'.version ≤ e.version → e' = e) :
    ViewCore H O { V with entries := V.entries.insert e.key e, version := e.version } := by
  refine ⟨hv.wf.insert e, ?_, ?_, ho.hb e he, ?_⟩
  · intro k x hf
    simp only [AMap.find_insert] at hf
    by_cases hk : e.key = k
    · simp only [hk, if_true, Option.some.injEq] at hf; subst hf; exact he
    · simp only [hk, if_false] at hf; exact hv.genuine k x hf
  · intro k x hf
    simp only [AMap.find_insert] at hf
    by_cases hk : e.key = k
    · simp only [hk, if_true, Option.some.injEq] at hf; subst hf; exact Nat.le_refl _
    · simp only [hk, if_false] at hf
      have := hv.bounded k x hf
      show x.version ≤ e.version
      omega
  · intro k e' hf hle
    show (V.entries.insert e.key e).find k = some e'
    simp only [AMap.find_insert]
    by_cases hk : e.key = k
    · simp only [hk, if_true, Option.some.injEq]
      by_cases hle' : e'.version ≤ V.version
      · exfalso
        have := ho.newest e he e' (by rw [hk]; exact hf)
        omega
      · exact (hbetween k e' hf (by omega) hle).symm
    · simp only [hk, if_false]
      by_cases hle' : e'.version ≤ V.version
      · exact hv.complete k e' hf hle'
      · exfalso
        have := hbetween k e' hf (by omega) hle
        subst this
        exact hk (ho.wf.keyed k e' hf)

/-- applying one entry of the owner's history that has no current owner entry strictly
between the view's version and itself keeps the view invariant (and never aborts) -/
theorem applyEntry_viewInv {H : List Entry} {O V : NodeSt} (now : Nat) (e : Entry)
    (ho : OwnerInv H O) (hv : ViewInv H O V) (he : e ∈ H)
    (hbetween : V.version < e.version → ∀ k e', O.entries.find k = some e' →
        V.version < e'.version → e'.version ≤ e.version → e' = e) :
    ViewInv H O (applyEntry now V e).1 ∧ (applyEntry now V e).2.2 = false := by
  unfold applyEntry
  by_cases hold : e.version ≤ V.version
  · simp [hold, hv]
  simp only [hold, if_false]
  have hlt : V.version < e.version := by omega
  have hc1 := store_core e ho hv.core he hlt (hbetween hlt)
  -- `aboveOwnMarker` after storing an entry that is not a marker
  have habove : e.key ≠ compactKey → ∀ c cv, (V.entries.insert e.key e).find compactKey = some c →
      parseUint64 c.value = some cv → ∀ k x, (V.entries.insert e.key e).find k = some x → cv < x.version := by
    intro hck c cv hc hp k x hf
    simp only [AMap.find_insert, hck, if_false] at hc
    simp only [AMap.find_insert] at hf
    by_cases hk : e.key = k
    · simp only [hk, if_true, Option.some.injEq] at hf; subst hf
      have hcH := hv.genuine _ _ hc
      have hckey : c.key = compactKey := hv.wf.keyed _ _ hc
      obtain ⟨cv', hp', hlt', _⟩ := ho.markers c hcH hckey
      rw [hp] at hp'; cases hp'
      have := hv.bounded _ _ hc
      omega
    · simp only [hk, if_false] at hf
      exact hv.aboveOwnMarker c cv hc hp k x hf
  have mk : ∀ (W : NodeSt), W.entries = V.entries.insert e.key e → W.version = e.version →
      e.key ≠ compactKey → ViewInv H O W := by
    intro W hW hWv hck
    have hcW : ViewCore H O W := by
      refine ⟨hW ▸ hc1.wf, ?_, ?_, hWv ▸ hc1.le, ?_⟩
      · intro k x hf; rw [hW] at hf; exact hc1.genuine k x hf
      · intro k x hf; rw [hW] at hf; rw [hWv]; exact hc1.bounded k x hf
      · intro k x hf hle; rw [hW]; rw [hWv] at hle; exact hc1.complete k x hf hle
    refine ⟨hcW.wf, hcW.genuine, hcW.bounded, hcW.le, hcW.complete, ?_⟩
    intro c cv hc hp k x hf
    rw [hW] at hc hf
    exact habove hck c cv hc hp k x hf
  by_cases hint : e.internal = true
  · simp only [hint, if_true]
    by_cases hleft : e.key = leftKey
    · rw [if_pos hleft]
      refine ⟨mk _ rfl rfl ?_, by simp⟩
      rw [hleft]; decide
    · rw [if_neg hleft]
      by_cases hck : e.key = compactKey
      · rw [if_pos hck]
        obtain ⟨cv, hp, hcvlt, hall⟩ := ho.markers e he hck
        simp only [hp]
        refine ⟨?_, by simp⟩
        -- the drop of everything at or below the compaction version
        have hwf1 := hc1.wf
        have hfind : ∀ k x, ((V.entries.insert e.key e).filterV fun x => !decide (x.version ≤ cv)).find k = some x →
            (V.entries.insert e.key e).find k = some x ∧ cv < x.version := by
          intro k x hf
          rw [AMap.find_filterV hwf1.nodup] at hf
          cases hm : (V.entries.insert e.key e).find k with
          | none => simp [hm, Option.filter] at hf
          | some y =>
            simp only [hm, Option.filter] at hf
            split at hf
            · rename_i hy
              simp only [Option.some.injEq] at hf; subst hf
              exact ⟨rfl, by simpa using hy⟩
            · simp at hf
        have hwf2 : EntWF ((V.entries.insert e.key e).filterV fun x => !decide (x.version ≤ cv)) :=
          hwf1.filterV _
        refine ⟨hwf2, ?_, ?_, hc1.le, ?_, ?_⟩
        · intro k x hf; exact hc1.genuine k x (hfind k x hf).1
        · intro k x hf; exact hc1.bounded k x (hfind k x hf).1
        · intro k x hf hle
          have h1 := hc1.complete k x hf hle
          show ((V.entries.insert e.key e).filterV fun x => !decide (x.version ≤ cv)).find k = some x
          rw [AMap.find_filterV hwf1.nodup, h1]
          have := hall k x hf
          simp [Option.filter]; omega
        · intro c cv' hc hp' k x hf
          have hce : c = e := by
            have h1 := (hfind compactKey c hc).1
            rw [← hck] at h1
            simpa using h1.symm
          subst hce
          rw [hp] at hp'; cases hp'
          exact (hfind k x hf).2
      · rw [if_neg hck]
        exact ⟨mk _ rfl rfl hck, by simp⟩
  · have hint' : e.internal = false := by simpa using hint
    simp only [hint', Bool.false_eq_true, if_false]
    have hck : e.key ≠ compactKey := by
      intro h
      have := (ho.internalKeys e he).2 h
      rw [hint'] at this; cases this
    by_cases hdel : e.deleted = true
    · simp only [hdel, if_true]; exact ⟨mk _ rfl rfl hck, by simp⟩
    · simp only [hdel]; exact ⟨mk _ rfl rfl hck, by simp⟩

/-- `applyEntry` never lowers the view's version, never touches id/addr -/
theorem applyEntry_version_mono (now : Nat) (V : NodeSt) (e : Entry) :
    V.version ≤ (applyEntry now V e).1.version ∧ (applyEntry now V e).1.id = V.id ∧
    (applyEntry now V e).1.addr = V.addr := by
  unfold applyEntry
  by_cases hold : e.version ≤ V.version
  · simp [hold]
  · simp only [hold, if_false]
    have : V.version ≤ e.version := by omega
    repeat' split
    all_goals simp_all

theorem applyEntries_version_mono (now : Nat) (es : List Entry) : ∀ (V : NodeSt),
    V.version ≤ (applyEntries now V es).1.version ∧ (applyEntries now V es).1.id = V.id ∧
    (applyEntries now V es).1.addr = V.addr := by
  induction es with
  | nil => intro V; simp [applyEntries]
  | cons e es ih =>
    intro V
    obtain ⟨h1, h2, h3⟩ := applyEntry_version_mono now V e
    unfold applyEntries
    generalize hr : applyEntry now V e = r at h1 h2 h3
    obtain ⟨st', ev, stop⟩ := r
    by_cases hs : stop = true
    · simp [hs]; exact ⟨h1, h2, h3⟩
    · simp only [hs, Bool.false_eq_true, if_false]
      obtain ⟨i1, i2, i3⟩ := ih st'
      simp only at h1 h2 h3
      exact ⟨Nat.le_trans h1 i1, i2.trans h2, i3.trans h3⟩

theorem PktInv.tail {H : List Entry} {O : NodeSt} {v0 : Nat} {e : Entry} {es : List Entry}
    (h : PktInv H O v0 (e :: es)) : PktInv H O e.version es := by
  have hs := List.pairwise_cons.mp h.sorted
  refine ⟨hs.2, fun x hx => h.genuine x (List.mem_cons_of_mem _ hx), fun x hx => hs.1 x hx, ?_⟩
  intro k e' hf hlt ⟨l, hl, hle⟩
  have hlt0 : v0 < e'.version := Nat.lt_trans (h.base e (List.mem_cons_self ..)) hlt
  have := h.complete k e' hf hlt0 ⟨l, List.mem_cons_of_mem _ hl, hle⟩
  rcases List.mem_cons.mp this with rfl | hmem
  · omega
  · exact hmem

/-- a sorted, genuine, complete entry list applied in order to a view at or above its base -/
theorem applyEntries_viewInv {H : List Entry} {O : NodeSt} (now : Nat) (ho : OwnerInv H O)
    (es : List Entry) : ∀ (V : NodeSt) (v0 : Nat), ViewInv H O V → PktInv H O v0 es → v0 ≤ V.version →
    ViewInv H O (applyEntries now V es).1 := by
  induction es with
  | nil => intro V v0 hv _ _; simpa [applyEntries] using hv
  | cons e es ih =>
    intro V v0 hv hp hb
    have he : e ∈ H := hp.genuine e (List.mem_cons_self ..)
    have hs := List.pairwise_cons.mp hp.sorted
    have hbetween : V.version < e.version → ∀ k e', O.entries.find k = some e' →
        V.version < e'.version → e'.version ≤ e.version → e' = e := by
      intro _ k e' hf h1 h2
      have := hp.complete k e' hf (by omega) ⟨e, List.mem_cons_self .., h2⟩
      rcases List.mem_cons.mp this with rfl | hmem
      · rfl
      · have := hs.1 e' hmem; omega
    obtain ⟨hv', hstop⟩ := applyEntry_viewInv now e ho hv he hbetween
    obtain ⟨hmono, _, _⟩ := applyEntry_version_mono now V e
    unfold applyEntries
    generalize hr : applyEntry now V e = r at hv' hstop hmono
    obtain ⟨st', ev, stop⟩ := r
    simp only at hv' hstop hmono
    subst hstop
    simp only [Bool.false_eq_true, if_false]
    -- the tail is a packet for base `e.version`, and the view is now at or above it
    have hge : e.version ≤ st'.version := by
      by_cases hold : e.version ≤ V.version
      · omega
      · have : st' = (applyEntry now V e).1 := by rw [hr]
        rw [this]
        unfold applyEntry
        simp only [hold, if_false]
        repeat' split
        all_goals simp
    exact ih st' e.version hv' hp.tail hge

end Piko.Gossip
