import PikoModel.Gossip.Watch
import Proofs.AMapLemmas
import Proofs.GossipLocal
/-!
# C14 — watcher notifications fold to the visible cluster state (helper lemmas)

Plan.  Views are read through their denotation `den : WView → AView` (a function node id ↦
optional node, the node's key/value part again a function), so that "agree on every id and
key" is plain equality.  `afoldEvent` is `foldEvent` on denotations (`den_foldEvent`),
`avis` is the denotation of `visible` on well-formed states (`den_visible`).  For every
operation of `pkg/gossip/state.go` we prove `Sim (avis s) events (avis s')`: the emitted
notifications are never about an unknown node and fold `avis s` into `avis s'`.
-/
namespace Piko.Gossip.C14
open Piko Piko.AMap Piko.Gossip

/-! ## association lists -/
section amap
variable {κ ν μ : Type} [DecidableEq κ]

theorem find_none_of_not_mem_keys {m : AMap κ ν} {k : κ} (h : k ∉ keys m) : find m k = none :=
  find_eq_none_iff.mpr fun _ hp e => h (e ▸ mem_keys_of_mem hp)

theorem mem_keys_of_find {m : AMap κ ν} {k : κ} {v : ν} (h : find m k = some v) : k ∈ keys m :=
  mem_keys_of_mem (p := (k, v)) (mem_of_find h)

theorem find_mapSnd (m : AMap κ ν) (f : ν → μ) (k : κ) :
    find (m.map fun p => (p.1, f p.2) : AMap κ μ) k = (find m k).map f := by
  induction m with
  | nil => rfl
  | cons p m ih =>
    obtain ⟨k', v⟩ := p
    by_cases h : k' = k <;> simp [h, ih]

omit [DecidableEq κ] in
theorem keys_filterV_sublist (m : AMap κ ν) (p : ν → Bool) :
    List.Sublist (keys (filterV m p)) (keys m) := by
  unfold keys filterV
  exact List.Sublist.map _ List.filter_sublist

omit [DecidableEq κ] in
theorem noDupKeys_filterV {m : AMap κ ν} (h : NoDupKeys m) (p : ν → Bool) :
    NoDupKeys (filterV m p) :=
  List.Nodup.sublist (keys_filterV_sublist m p) h

theorem find_filterV {m : AMap κ ν} (h : NoDupKeys m) (p : ν → Bool) (k : κ) :
    find (filterV m p) k = (find m k).filter p := by
  induction m with
  | nil => rfl
  | cons q m ih =>
    obtain ⟨k', v⟩ := q
    have hnd : k' ∉ keys m ∧ NoDupKeys m := by simpa [NoDupKeys, keys] using h
    by_cases hk : k' = k
    · subst hk
      by_cases hp : p v = true
      · simp [filterV, hp, Option.filter_some]
      · have hnk : k' ∉ keys (filterV m p) := fun hm => hnd.1 ((keys_filterV_sublist m p).subset hm)
        have := find_none_of_not_mem_keys hnk
        simp only [filterV] at this
        simp [filterV, hp, this, Option.filter_some]
    · by_cases hp : p v = true
      · have := ih hnd.2
        simp only [filterV] at this
        simp [filterV, hp, hk, this]
      · have := ih hnd.2
        simp only [filterV] at this
        simp [filterV, hp, hk, this]

end amap

/-! ## denotations -/

/-- a node as a watcher consumer reads it: key ↦ value, and the two flags -/
structure ANode where
  kv : String → Option String
  left : Bool
  unreachable : Bool

/-- a view read extensionally -/
abbrev AView := String → Option ANode

def nden (n : WNode) : ANode := ⟨fun k => n.kv.find k, n.left, n.unreachable⟩

def den (w : WView) : AView := fun id => (w.find id).map nden

def upd (a : AView) (x : String) (v : Option ANode) : AView := fun y => if y = x then v else a y

@[simp] theorem upd_same (a : AView) (x : String) (v : Option ANode) : upd a x v x = v := by simp [upd]

theorem upd_ne (a : AView) {x y : String} (v : Option ANode) (h : y ≠ x) : upd a x v y = a y := by
  simp [upd, h]

@[simp] theorem upd_upd (a : AView) (x : String) (u v : Option ANode) :
    upd (upd a x u) x v = upd a x v := by
  funext y; by_cases h : y = x <;> simp [upd, h]

theorem upd_self (a : AView) (x : String) (v : Option ANode) (h : a x = v) : upd a x v = a := by
  funext y; by_cases hy : y = x
  · subst hy; simp [h]
  · simp [upd, hy]

def aEmpty : ANode := ⟨fun _ => none, false, false⟩

/-- `foldEvent` on denotations -/
def afoldEvent (a : AView) : Event → AView
  | .join id => upd a id (some aEmpty)
  | .upsert id k v =>
    upd a id ((a id).map fun n => { n with kv := fun k' => if k' = k then some v else n.kv k' })
  | .delete id k =>
    upd a id ((a id).map fun n => { n with kv := fun k' => if k' = k then none else n.kv k' })
  | .leave id => upd a id ((a id).map fun n => { n with left := true })
  | .unreachable id => upd a id ((a id).map fun n => { n with unreachable := true })
  | .reachable id => upd a id ((a id).map fun n => { n with unreachable := false })
  | .expired id => upd a id none

def afoldEvents (a : AView) (evs : List Event) : AView := evs.foldl afoldEvent a

def aeventOK (a : AView) : Event → Bool
  | .join id => !(a id).isSome
  | e => (a e.node).isSome

def aeventsOK (a : AView) : List Event → Bool
  | [] => true
  | e :: es => aeventOK a e && aeventsOK (afoldEvent a e) es

theorem den_insert (w : WView) (id : String) (n : WNode) :
    den (w.insert id n) = upd (den w) id (some (nden n)) := by
  funext y
  by_cases h : y = id
  · subst h; simp [den]
  · have h' : ¬ id = y := fun e => h e.symm
    simp [den, upd, h, find_insert, h']

theorem den_erase (w : WView) (id : String) : den (w.erase id) = upd (den w) id none := by
  funext y
  by_cases h : y = id
  · subst h; simp [den]
  · have h' : ¬ id = y := fun e => h e.symm
    simp [den, upd, h, find_erase, h']

theorem den_wmodify (w : WView) (id : String) (f : WNode → WNode) (g : ANode → ANode)
    (hfg : ∀ n, nden (f n) = g (nden n)) :
    den (wmodify w id f) = upd (den w) id ((den w id).map g) := by
  unfold wmodify
  cases hf : w.find id with
  | none =>
    simp only []
    exact (upd_self _ _ _ (by simp [den, hf])).symm
  | some n =>
    simp only []
    rw [den_insert]
    simp [den, hf, hfg]

theorem den_foldEvent (w : WView) (e : Event) : den (foldEvent w e) = afoldEvent (den w) e := by
  cases e with
  | join id => simp [foldEvent, afoldEvent, den_insert, nden, aEmpty]
  | expired id => simp [foldEvent, afoldEvent, den_erase]
  | upsert id k v =>
    refine den_wmodify w id _ _ fun n => ?_
    simp only [nden, ANode.mk.injEq, and_self, and_true]
    funext k'
    simp only [find_insert]
    by_cases h : k = k'
    · subst h; simp
    · have : ¬ k' = k := fun e => h e.symm
      simp [h, this]
  | delete id k =>
    refine den_wmodify w id _ _ fun n => ?_
    simp only [nden, ANode.mk.injEq, and_self, and_true]
    funext k'
    simp only [find_erase]
    by_cases h : k = k'
    · subst h; simp
    · have : ¬ k' = k := fun e => h e.symm
      simp [h, this]
  | leave id => exact den_wmodify w id _ _ fun n => rfl
  | unreachable id => exact den_wmodify w id _ _ fun n => rfl
  | reachable id => exact den_wmodify w id _ _ fun n => rfl

theorem den_foldEvents (w : WView) (evs : List Event) :
    den (foldEvents w evs) = afoldEvents (den w) evs := by
  induction evs generalizing w with
  | nil => rfl
  | cons e es ih =>
    simp only [foldEvents, afoldEvents, List.foldl_cons] at ih ⊢
    rw [ih, den_foldEvent]

theorem contains_den (w : WView) (id : String) : w.contains id = (den w id).isSome := by
  simp [contains, den]

theorem eventOK_den (w : WView) (e : Event) : eventOK w e = aeventOK (den w) e := by
  cases e <;> simp [eventOK, aeventOK, contains_den]

theorem eventsOK_den (w : WView) (evs : List Event) : eventsOK w evs = aeventsOK (den w) evs := by
  induction evs generalizing w with
  | nil => rfl
  | cons e es ih => simp only [eventsOK, aeventsOK, ih, eventOK_den, den_foldEvent]

theorem afoldEvents_append (a : AView) (e1 e2 : List Event) :
    afoldEvents a (e1 ++ e2) = afoldEvents (afoldEvents a e1) e2 := by
  simp [afoldEvents, List.foldl_append]

theorem aeventsOK_append (a : AView) (e1 e2 : List Event) :
    aeventsOK a (e1 ++ e2) = (aeventsOK a e1 && aeventsOK (afoldEvents a e1) e2) := by
  induction e1 generalizing a with
  | nil => simp [aeventsOK, afoldEvents]
  | cons e es ih =>
    simp only [List.cons_append, aeventsOK, ih, afoldEvents, List.foldl_cons, Bool.and_assoc]

/-- the notifications `evs` are never about an unknown node and fold `a` into `b` -/
def Sim (a : AView) (evs : List Event) (b : AView) : Prop :=
  aeventsOK a evs = true ∧ afoldEvents a evs = b

theorem Sim.nil (a : AView) : Sim a [] a := ⟨rfl, rfl⟩

theorem Sim.append {a b c : AView} {e1 e2 : List Event} (h1 : Sim a e1 b) (h2 : Sim b e2 c) :
    Sim a (e1 ++ e2) c := by
  obtain ⟨h1a, h1b⟩ := h1
  obtain ⟨h2a, h2b⟩ := h2
  subst h1b
  exact ⟨by rw [aeventsOK_append, h1a, h2a]; rfl, by rw [afoldEvents_append, h2b]⟩

theorem Sim.single {a : AView} {e : Event} (h : aeventOK a e = true) : Sim a [e] (afoldEvent a e) :=
  ⟨by simp [aeventsOK, h], rfl⟩

theorem Sim.of_eq {a b c : AView} {evs : List Event} (h : Sim a evs b) (e : b = c) : Sim a evs c :=
  e ▸ h


/-! ## extensional comparison of views -/

/-- two reconstructed nodes agree on every key and on both flags -/
def WNode.Agree (a b : WNode) : Prop :=
  (∀ k, a.kv.find k = b.kv.find k) ∧ a.left = b.left ∧ a.unreachable = b.unreachable

def optRel {α β : Type} (r : α → β → Prop) : Option α → Option β → Prop
  | some a, some b => r a b
  | none, none => True
  | _, _ => False

/-- the same nodes are present in both views and they agree on every key and flag -/
def ViewEq (w v : WView) : Prop := ∀ id, optRel WNode.Agree (w.find id) (v.find id)

theorem nden_eq_iff (a b : WNode) : nden a = nden b ↔ WNode.Agree a b := by
  constructor
  · intro h
    simp only [nden, ANode.mk.injEq] at h
    exact ⟨fun k => congrFun h.1 k, h.2.1, h.2.2⟩
  · intro h
    simp only [nden, ANode.mk.injEq]
    exact ⟨funext h.1, h.2.1, h.2.2⟩

theorem viewEq_iff_den (w v : WView) : ViewEq w v ↔ den w = den v := by
  constructor
  · intro h
    funext id
    have := h id
    simp only [den]
    cases hw : w.find id <;> cases hv : v.find id <;> simp only [hw, hv, optRel] at this
    · rfl
    · simp [(nden_eq_iff _ _).mpr this]
  · intro h id
    have := congrFun h id
    simp only [den] at this
    cases hw : w.find id <;> cases hv : v.find id <;> simp only [hw, hv, optRel] at this ⊢
    · simp at this
    · simp at this
    · simp only [Option.map_some, Option.some.injEq] at this
      exact (nden_eq_iff _ _).mp this

/-! ## the state side -/

/-- the value a consumer sees for an entry, if any -/
def visVal (e : Entry) : Option String := if visibleEntry e then some e.value else none

/-- visible key ↦ value of an entry map -/
def mkv (m : AMap String Entry) : String → Option String := fun k => (m.find k).bind visVal

def anode (n : NodeSt) : ANode := ⟨mkv n.entries, n.left, n.unreachable⟩

/-- denotation of `visible` (`den_visible`) -/
def avis (s : CState) : AView :=
  fun id => if id = s.localId then none else (s.nodes.find id).map anode

/-- an entry map as a Go `map[string]Entry` filled by the package: distinct keys, every
entry stored under its own `Key` -/
def EntWF (m : AMap String Entry) : Prop := m.NoDupKeys ∧ ∀ k e, m.find k = some e → e.key = k

/-- well-formed cluster state: node-map keys distinct, every node stored under its own id
with a well-formed entry map, the local node present and without an expiry -/
def StWF (s : CState) : Prop :=
  s.nodes.NoDupKeys ∧ (∀ id n, s.nodes.find id = some n → n.id = id ∧ EntWF n.entries) ∧
    ∃ n, s.nodes.find s.localId = some n ∧ n.expiry = none

theorem entWF_nil : EntWF [] := ⟨noDupKeys_nil, by simp⟩

theorem EntWF.insert {m : AMap String Entry} (h : EntWF m) (e : Entry) : EntWF (m.insert e.key e) := by
  refine ⟨h.1.insert _ _, fun k x hx => ?_⟩
  rw [find_insert] at hx
  by_cases hk : e.key = k
  · simp only [hk, if_true, Option.some.injEq] at hx; subst hx; exact hk
  · simp only [hk, if_false] at hx; exact h.2 k x hx

theorem EntWF.filterV {m : AMap String Entry} (h : EntWF m) (p : Entry → Bool) : EntWF (m.filterV p) := by
  refine ⟨noDupKeys_filterV h.1 p, fun k x hx => ?_⟩
  rw [find_filterV h.1] at hx
  cases hf : m.find k with
  | none => simp [hf] at hx
  | some y =>
    simp only [hf, Option.filter_some] at hx
    split at hx
    · simp only [Option.some.injEq] at hx; subst hx; exact h.2 k y hf
    · simp at hx

theorem mkv_insert (m : AMap String Entry) (k : String) (e : Entry) (k' : String) :
    mkv (m.insert k e) k' = if k = k' then visVal e else mkv m k' := by
  simp only [mkv, find_insert]
  by_cases h : k = k' <;> simp [h]

theorem nden_visNode (n : NodeSt) (h : n.entries.NoDupKeys) : nden (visNode n) = anode n := by
  simp only [nden, visNode, anode, ANode.mk.injEq, and_self, and_true]
  funext k
  rw [find_mapSnd, find_filterV h]
  simp only [mkv]
  cases n.entries.find k with
  | none => rfl
  | some e =>
    simp only [Option.filter_some, Option.bind_some, visVal]
    split <;> simp

theorem den_visible (s : CState) (h : StWF s) : den (visible s) = avis s := by
  funext id
  simp only [den, visible, avis, find_mapSnd, find_erase]
  by_cases hid : id = s.localId
  · subst hid; simp
  · have h' : ¬ s.localId = id := fun e => hid e.symm
    simp only [h', hid, if_false]
    cases hf : s.nodes.find id with
    | none => rfl
    | some n => simp [nden_visNode n ((h.2.1 id n hf).2.1)]

/-- the folded view `w` is the visible state of `s` -/
def foldOK (w : WView) (s : CState) : Prop := ViewEq w (visible s)

theorem foldOK_iff (w : WView) (s : CState) (h : StWF s) : foldOK w s ↔ den w = avis s := by
  rw [foldOK, viewEq_iff_den, den_visible s h]

/-! ## one delta entry (`applyEntry`) -/

/-- fold of a run of deletions of one node -/
theorem sim_deletes (x : String) (ks : List String) (a : AView) (n : ANode) (h : a x = some n) :
    Sim a (ks.map (Event.delete x))
      (upd a x (some { n with kv := fun k => if k ∈ ks then none else n.kv k })) := by
  induction ks generalizing a n with
  | nil =>
    refine (Sim.nil a).of_eq (upd_self _ _ _ ?_).symm
    simp [h]
  | cons k0 ks ih =>
    have h1 : aeventOK a (Event.delete x k0) = true := by simp [aeventOK, Event.node, h]
    have hstep := Sim.single h1
    have hx : afoldEvent a (Event.delete x k0) x =
        some { n with kv := fun k' => if k' = k0 then none else n.kv k' } := by
      simp [afoldEvent, h]
    have := (hstep.append (ih _ _ hx))
    refine this.of_eq ?_
    simp only [afoldEvent, h, Option.map_some, upd_upd]
    congr 2
    simp only [ANode.mk.injEq, and_self, and_true]
    funext k
    by_cases hk : k = k0
    · subst hk; simp
    · simp [hk]

/-- the four shapes of what one delta entry does to the visible part of a node -/
inductive Shape (st : NodeSt) (e : Entry) (st' : NodeSt) (evs : List Event) : Prop
  | quiet (hev : evs = []) (hkv : mkv st'.entries = mkv st.entries) (hl : st'.left = st.left)
  | leave (hev : evs = [Event.leave st.id]) (hkv : mkv st'.entries = mkv st.entries) (hl : st'.left = true)
  | deletes (ks : List String) (hev : evs = ks.map (Event.delete st.id))
      (hkv : mkv st'.entries = fun k => if k ∈ ks then none else mkv st.entries k)
      (hl : st'.left = st.left)
  | upsert (hev : evs = [Event.upsert st.id e.key e.value])
      (hkv : mkv st'.entries = fun k => if k = e.key then some e.value else mkv st.entries k)
      (hl : st'.left = st.left)

theorem visVal_internal {e : Entry} (h : e.internal = true) : visVal e = none := by
  simp [visVal, visibleEntry, h]

theorem mkv_insert_hidden (m : AMap String Entry) (e : Entry) (hv : visVal e = none)
    (H : mkv m e.key = none) : mkv (m.insert e.key e) = mkv m := by
  funext k
  rw [mkv_insert]
  by_cases h : e.key = k
  · subst h; simp [hv, H]
  · simp [h]

/-- visible keys after a compaction marker with parsed value `cv` -/
theorem mkv_compact (m : AMap String Entry) (hwf : EntWF m) (cv : Nat) :
    mkv (m.filterV fun x => !decide (x.version ≤ cv)) =
      fun k => if k ∈ ((m.vals.filter fun x => decide (x.version ≤ cv)).filter fun x => !x.deleted).map (·.key)
        then none else mkv m k := by
  funext k
  simp only [mkv, find_filterV hwf.1]
  cases hf : m.find k with
  | none => simp
  | some x =>
    have hxk : x.key = k := hwf.2 k x hf
    simp only [Option.filter_some, Option.bind_some]
    by_cases hv : x.version ≤ cv
    · simp only [hv, decide_true, Bool.not_true, Bool.false_eq_true, if_false, Option.bind_none]
      by_cases hd : x.deleted = true
      · have : visVal x = none := by simp [visVal, visibleEntry, hd]
        simp [this]
      · have hmem : k ∈ ((m.vals.filter fun x => decide (x.version ≤ cv)).filter fun x => !x.deleted).map (·.key) := by
          simp only [List.mem_map, List.mem_filter]
          exact ⟨x, ⟨⟨mem_vals.mpr ⟨k, mem_of_find hf⟩, by simp [hv]⟩, by simp [hd]⟩, hxk⟩
        rw [if_pos hmem]
    · have hnot : k ∉ ((m.vals.filter fun x => decide (x.version ≤ cv)).filter fun x => !x.deleted).map (·.key) := by
        simp only [List.mem_map, List.mem_filter]
        rintro ⟨y, ⟨⟨hy, hyv⟩, _⟩, hyk⟩
        obtain ⟨k', hk'⟩ := mem_vals.mp hy
        have hfy := find_of_mem hwf.1 hk'
        have : y.key = k' := hwf.2 k' y hfy
        have hkk : k' = k := this ▸ hyk
        subst hkk
        rw [hf] at hfy
        simp only [Option.some.injEq] at hfy
        subst hfy
        simp at hyv
        exact hv hyv
      rw [if_neg hnot]; simp [hv]


theorem find_filterV_some {m : AMap String Entry} (h : m.NoDupKeys) (p : Entry → Bool) {k : String}
    {x : Entry} (hx : (m.filterV p).find k = some x) : m.find k = some x := by
  rw [find_filterV h] at hx
  cases hf : m.find k with
  | none => simp [hf] at hx
  | some y =>
    simp only [hf, Option.filter_some] at hx
    split at hx
    · exact hx
    · simp at hx

theorem find_insert_some {m : AMap String Entry} {e : Entry} {k : String} {x : Entry}
    (hx : (m.insert e.key e).find k = some x) : x = e ∨ m.find k = some x := by
  rw [find_insert] at hx
  by_cases hk : e.key = k
  · simp only [hk, if_true, Option.some.injEq] at hx; exact Or.inl hx.symm
  · simp only [hk, if_false] at hx; exact Or.inr hx

/-- everything C14 needs to know about one iteration of the loop of `applyDeltaEntry` -/
structure EntryStep (st : NodeSt) (e : Entry) (r : NodeSt × List Event × Bool) : Prop where
  id_eq : r.1.id = st.id
  unr : r.1.unreachable = st.unreachable
  wf : EntWF r.1.entries
  sub : ∀ k x, r.1.entries.find k = some x → x = e ∨ st.entries.find k = some x
  shape : (e.internal = true → mkv st.entries e.key = none) → Shape st e r.1 r.2.1

/-- The hypothesis of the `shape` field excludes exactly the hostile input of
`C14_hostile_internal_counterexample`: an entry flagged `Internal` that overwrites a key the
observer currently shows.  The structural fields hold for every input. -/
theorem applyEntry_step (now : Nat) (st : NodeSt) (e : Entry) (hwf : EntWF st.entries) :
    EntryStep st e (applyEntry now st e) := by
  by_cases hver : e.version ≤ st.version
  · have hr : applyEntry now st e = (st, [], false) := by simp [applyEntry, hver]
    rw [hr]
    exact ⟨rfl, rfl, hwf, fun k x hx => Or.inr hx, fun _ => .quiet rfl rfl rfl⟩
  · have hwf1 := hwf.insert e
    by_cases hint : e.internal = true
    · have hhid := fun (H : e.internal = true → mkv st.entries e.key = none) =>
        mkv_insert_hidden st.entries e (visVal_internal hint) (H hint)
      by_cases hl : e.key = leftKey
      · have hr : applyEntry now st e =
            ({ st with entries := st.entries.insert e.key e, version := e.version, left := true,
                       expiry := some (now + nodeExpiry) }, [.leave st.id], false) := by
          simp [applyEntry, hver, hint, hl]
        rw [hr]
        exact ⟨rfl, rfl, hwf1, fun k x hx => find_insert_some hx, fun H => .leave rfl (hhid H) rfl⟩
      · by_cases hc : e.key = compactKey
        · have hne : ¬ compactKey = leftKey := by decide
          cases hp : parseUint64 e.value with
          | none =>
            have hr : applyEntry now st e =
                ({ st with entries := st.entries.insert e.key e, version := e.version }, [], true) := by
              simp [applyEntry, hver, hint, hc, hp, hne]
            rw [hr]
            exact ⟨rfl, rfl, hwf1, fun k x hx => find_insert_some hx, fun H => .quiet rfl (hhid H) rfl⟩
          | some cv =>
            have hr : applyEntry now st e =
                ({ st with entries := (st.entries.insert e.key e).filterV (fun x => !decide (x.version ≤ cv)),
                           version := e.version },
                 ((((st.entries.insert e.key e).vals.filter fun x => decide (x.version ≤ cv)).filter
                    fun x => !x.deleted).map (·.key)).map (Event.delete st.id), false) := by
              simp [applyEntry, hver, hint, hc, hp, hne, List.map_map, Function.comp_def]
            rw [hr]
            refine ⟨rfl, rfl, hwf1.filterV (fun x => !decide (x.version ≤ cv)), fun k x hx => find_insert_some (find_filterV_some hwf1.1 (fun x => !decide (x.version ≤ cv)) hx),
              fun H => .deletes _ rfl ?_ rfl⟩
            dsimp only
            rw [mkv_compact _ hwf1 cv, hhid H]
        · have hr : applyEntry now st e =
              ({ st with entries := st.entries.insert e.key e, version := e.version }, [], false) := by
            simp [applyEntry, hver, hint, hl, hc]
          rw [hr]
          exact ⟨rfl, rfl, hwf1, fun k x hx => find_insert_some hx, fun H => .quiet rfl (hhid H) rfl⟩
    · have hint' : e.internal = false := by simpa using hint
      by_cases hd : e.deleted = true
      · have hr : applyEntry now st e =
            ({ st with entries := st.entries.insert e.key e, version := e.version },
             [e.key].map (Event.delete st.id), false) := by
          simp [applyEntry, hver, hint', hd]
        rw [hr]
        refine ⟨rfl, rfl, hwf1, fun k x hx => find_insert_some hx, fun _ => .deletes [e.key] rfl ?_ rfl⟩
        dsimp only
        funext k
        rw [mkv_insert]
        have hv : visVal e = none := by simp [visVal, visibleEntry, hd]
        by_cases hk : e.key = k
        · subst hk; simp [hv]
        · have : ¬ k = e.key := fun h => hk h.symm
          simp [hk, this]
      · have hd' : e.deleted = false := by simpa using hd
        have hr : applyEntry now st e =
            ({ st with entries := st.entries.insert e.key e, version := e.version },
             [.upsert st.id e.key e.value], false) := by
          simp [applyEntry, hver, hint', hd']
        rw [hr]
        refine ⟨rfl, rfl, hwf1, fun k x hx => find_insert_some hx, fun _ => .upsert rfl ?_ rfl⟩
        dsimp only
        funext k
        rw [mkv_insert]
        have hv : visVal e = some e.value := by simp [visVal, visibleEntry, hint', hd']
        by_cases hk : e.key = k
        · subst hk; simp [hv]
        · have : ¬ k = e.key := fun h => hk h.symm
          simp [hk, this]


/-! ## one node's entry list (`applyEntries`) -/

/-- the notifications `evs` turn the node `st` into `st'` inside any view that shows `st` -/
def NodeStep (st : NodeSt) (evs : List Event) (st' : NodeSt) : Prop :=
  st'.id = st.id ∧ ∀ a : AView, a st.id = some (anode st) → Sim a evs (upd a st.id (some (anode st')))

theorem NodeStep.refl (st : NodeSt) : NodeStep st [] st :=
  ⟨rfl, fun a ha => (Sim.nil a).of_eq (upd_self _ _ _ ha).symm⟩

theorem NodeStep.trans {s1 s2 s3 : NodeSt} {e1 e2 : List Event} (h1 : NodeStep s1 e1 s2)
    (h2 : NodeStep s2 e2 s3) : NodeStep s1 (e1 ++ e2) s3 := by
  refine ⟨h2.1.trans h1.1, fun a ha => ?_⟩
  have a1 := h1.2 a ha
  have a2 := h2.2 (upd a s1.id (some (anode s2))) (by rw [h1.1]; simp)
  rw [h1.1, upd_upd] at a2
  exact a1.append a2

theorem nodeStep_of_shape {st st' : NodeSt} {e : Entry} {evs : List Event} (h : Shape st e st' evs)
    (hid : st'.id = st.id) (hu : st'.unreachable = st.unreachable) : NodeStep st evs st' := by
  refine ⟨hid, fun a ha => ?_⟩
  cases h with
  | quiet hev hkv hl =>
    subst hev
    refine (Sim.nil a).of_eq (upd_self _ _ _ ?_).symm
    rw [ha]; simp [anode, hkv, hl, hu]
  | leave hev hkv hl =>
    subst hev
    refine (Sim.single (by simp [aeventOK, Event.node, ha])).of_eq ?_
    simp [afoldEvent, ha, anode, hkv, hl, hu]
  | deletes ks hev hkv hl =>
    subst hev
    refine (sim_deletes st.id ks a _ ha).of_eq ?_
    simp [anode, hkv, hl, hu]
  | upsert hev hkv hl =>
    subst hev
    refine (Sim.single (by simp [aeventOK, Event.node, ha])).of_eq ?_
    simp [afoldEvent, ha, anode, hkv, hl, hu]

/-- no visible (non-internal) entry sits under a reserved key -/
def NodeKeysOK (m : AMap String Entry) : Prop :=
  ∀ k x, m.find k = some x → x.internal = false → isReserved k = false

theorem hidden_of_keysOK {m : AMap String Entry} (hk : NodeKeysOK m) {e : Entry}
    (he : entryOK e = true) (hint : e.internal = true) : mkv m e.key = none := by
  simp only [mkv]
  cases hf : m.find e.key with
  | none => rfl
  | some x =>
    simp only [Option.bind_some]
    cases hx : x.internal with
    | true => exact visVal_internal hx
    | false =>
      have := hk _ _ hf hx
      simp [entryOK, hint, this] at he

theorem applyEntries_cons (now : Nat) (st : NodeSt) (e : Entry) (es : List Entry) :
    applyEntries now st (e :: es) =
      if (applyEntry now st e).2.2 then ((applyEntry now st e).1, (applyEntry now st e).2.1)
      else ((applyEntries now (applyEntry now st e).1 es).1,
            (applyEntry now st e).2.1 ++ (applyEntries now (applyEntry now st e).1 es).2) := by
  simp only [applyEntries]

theorem applyEntries_step (now : Nat) (es : List Entry) (st : NodeSt) (hwf : EntWF st.entries)
    (hk : NodeKeysOK st.entries) (hes : ∀ e ∈ es, entryOK e = true) :
    NodeStep st (applyEntries now st es).2 (applyEntries now st es).1 ∧
      EntWF (applyEntries now st es).1.entries ∧ NodeKeysOK (applyEntries now st es).1.entries := by
  induction es generalizing st with
  | nil => exact ⟨NodeStep.refl st, hwf, hk⟩
  | cons e es ih =>
    have he := hes e (List.mem_cons_self ..)
    have hstep := applyEntry_step now st e hwf
    have hns := nodeStep_of_shape (hstep.shape (hidden_of_keysOK hk he)) hstep.id_eq hstep.unr
    have hk1 : NodeKeysOK (applyEntry now st e).1.entries := by
      intro k x hx hxi
      rcases hstep.sub k x hx with rfl | h
      · have : x.key = k := hstep.wf.2 k x hx
        subst this
        simpa [entryOK, hxi] using he
      · exact hk k x h hxi
    rw [applyEntries_cons]
    split
    · exact ⟨hns, hstep.wf, hk1⟩
    · have := ih (applyEntry now st e).1 hstep.wf hk1 fun e' he' => hes e' (List.mem_cons_of_mem _ he')
      exact ⟨hns.trans this.1, this.2.1, this.2.2⟩


theorem find_filterV_some' {ν : Type} {m : AMap String ν} (h : m.NoDupKeys) (p : ν → Bool) {k : String}
    {x : ν} (hx : (m.filterV p).find k = some x) : m.find k = some x := by
  rw [find_filterV h] at hx
  cases hf : m.find k with
  | none => simp [hf] at hx
  | some y =>
    simp only [hf, Option.filter_some] at hx
    split at hx
    · exact hx
    · simp at hx

/-- structure is preserved for every entry list, hostile or not -/
theorem applyEntries_wf (now : Nat) (es : List Entry) (st : NodeSt) (hwf : EntWF st.entries) :
    (applyEntries now st es).1.id = st.id ∧ EntWF (applyEntries now st es).1.entries := by
  induction es generalizing st with
  | nil => exact ⟨rfl, hwf⟩
  | cons e es ih =>
    have hstep := applyEntry_step now st e hwf
    rw [applyEntries_cons]
    split
    · exact ⟨hstep.id_eq, hstep.wf⟩
    · have := ih (applyEntry now st e).1 hstep.wf
      exact ⟨this.1.trans hstep.id_eq, this.2⟩

/-! ## cluster level -/

/-- the remote nodes' maps satisfy `NodeKeysOK` -/
def KeysOK (s : CState) : Prop :=
  ∀ id n, id ≠ s.localId → s.nodes.find id = some n → NodeKeysOK n.entries

theorem avis_insert (s : CState) (id : String) (n : NodeSt) (hne : id ≠ s.localId) :
    avis { s with nodes := s.nodes.insert id n } = upd (avis s) id (some (anode n)) := by
  funext y
  simp only [avis, upd, find_insert]
  by_cases hy : y = id
  · subst hy; simp [hne]
  · have : ¬ id = y := fun e => hy e.symm
    simp [hy, this]

theorem StWF.insertRemote {s : CState} (h : StWF s) {id : String} {n : NodeSt} (hne : id ≠ s.localId)
    (hid : n.id = id) (hwf : EntWF n.entries) : StWF { s with nodes := s.nodes.insert id n } := by
  obtain ⟨h1, h2, l, hl, hle⟩ := h
  refine ⟨h1.insert _ _, fun id' n' hf => ?_, l, ?_, hle⟩
  · simp only [find_insert] at hf
    by_cases hk : id = id'
    · simp only [hk, if_true, Option.some.injEq] at hf; subst hf; exact ⟨hk ▸ hid, hwf⟩
    · simp only [hk, if_false] at hf; exact h2 id' n' hf
  · simp only [find_insert, hne, if_false]; exact hl

theorem KeysOK.insert {s : CState} (h : KeysOK s) {id : String} {n : NodeSt}
    (hk : NodeKeysOK n.entries) : KeysOK { s with nodes := s.nodes.insert id n } := by
  intro id' n' hne hf
  simp only [find_insert] at hf
  by_cases hk' : id = id'
  · simp only [hk', if_true, Option.some.injEq] at hf; subst hf; exact hk
  · simp only [hk', if_false] at hf; exact h id' n' hne hf

/-- what every observer-side operation preserves, for a fixed start state `s0` -/
structure Good (s0 : CState) (r : CState × List Event) : Prop where
  wf : StWF r.1
  keys : KeysOK s0 → KeysOK r.1
  lid : r.1.localId = s0.localId
  sim : Sim (avis s0) r.2 (avis r.1)

theorem Good.start {s : CState} (h : StWF s) : Good s (s, []) :=
  ⟨h, id, rfl, Sim.nil _⟩

theorem nodeKeysOK_nil : NodeKeysOK [] := by intro k x h; simp at h

theorem applyDeltaEntry_good (now : Nat) (s0 : CState) (acc : CState × List Event) (de : DeltaEntry)
    (hk0 : KeysOK s0) (h : Good s0 acc) (hde : ∀ e ∈ de.entries, entryOK e = true) :
    Good s0 ((applyDeltaEntry now acc.1 de).1, acc.2 ++ (applyDeltaEntry now acc.1 de).2) := by
  obtain ⟨s, evs⟩ := acc
  obtain ⟨hwf, hk, hlid, hsim⟩ := h
  simp only at hwf hk hlid hsim ⊢
  have hk := hk hk0
  by_cases hl : de.id = s.localId
  · have hr : applyDeltaEntry now s de = (s, []) := by simp [applyDeltaEntry, hl]
    rw [hr]; simpa using ⟨hwf, fun _ => hk, hlid, hsim⟩
  · cases hf : s.nodes.find de.id with
    | some st =>
      have hr : applyDeltaEntry now s de =
          ({ s with nodes := s.nodes.insert de.id (applyEntries now st de.entries).1 },
           (applyEntries now st de.entries).2) := by
        simp [applyDeltaEntry, hl, hf]
      obtain ⟨hid, hent⟩ := hwf.2.1 de.id st hf
      obtain ⟨hns, hwf', hk'⟩ := applyEntries_step now de.entries st hent (hk de.id st hl hf) hde
      rw [hr]
      refine ⟨hwf.insertRemote hl (hns.1.trans hid) hwf', fun _ => hk.insert hk', hlid, ?_⟩
      refine hsim.append ?_
      have := hns.2 (avis s) (by simp [avis, hid, hl, hf])
      rw [hid] at this
      exact this.of_eq (avis_insert s de.id _ hl).symm
    | none =>
      have hr : applyDeltaEntry now s de =
          ({ s with nodes := s.nodes.insert de.id (applyEntries now { id := de.id, addr := de.addr } de.entries).1 },
           Event.join de.id :: (applyEntries now { id := de.id, addr := de.addr } de.entries).2) := by
        simp [applyDeltaEntry, hl, hf]
      obtain ⟨hns, hwf', hk'⟩ := applyEntries_step now de.entries { id := de.id, addr := de.addr }
        entWF_nil nodeKeysOK_nil hde
      rw [hr]
      refine ⟨hwf.insertRemote hl hns.1 hwf', fun _ => hk.insert hk', hlid, ?_⟩
      refine hsim.append ?_
      have hj : aeventOK (avis s) (Event.join de.id) = true := by simp [aeventOK, avis, hl, hf]
      have hjoin := Sim.single hj
      have hx : afoldEvent (avis s) (Event.join de.id) de.id =
          some (anode ({ id := de.id, addr := de.addr } : NodeSt)) := by
        have hm : mkv [] = fun _ => none := by funext k; simp [mkv]
        simp [afoldEvent, anode, aEmpty, hm]
      have := hns.2 _ hx
      simp only [afoldEvent, upd_upd] at this
      exact (hjoin.append this).of_eq (avis_insert s de.id _ hl).symm

theorem foldl_inv {α β : Type} (P : β → Prop) (f : β → α → β) (l : List α) (b : β) (h0 : P b)
    (hs : ∀ b a, a ∈ l → P b → P (f b a)) : P (l.foldl f b) := by
  induction l generalizing b with
  | nil => exact h0
  | cons a l ih =>
    exact ih (f b a) (hs b a (List.mem_cons_self ..) h0) fun b' a' ha' => hs b' a' (List.mem_cons_of_mem _ ha')

theorem deltaOK_iff (d : Delta) : deltaOK d = true ↔ ∀ de ∈ d, ∀ e ∈ de.entries, entryOK e = true := by
  simp [deltaOK, List.all_eq_true]

theorem applyDelta_good (now : Nat) (s : CState) (d : Delta) (h : StWF s) (hk : KeysOK s)
    (hd : deltaOK d = true) : Good s (applyDelta now s d) := by
  unfold applyDelta
  refine foldl_inv (Good s) _ d (s, []) (Good.start h) fun acc de hde hacc => ?_
  exact applyDeltaEntry_good now s acc de hk hacc ((deltaOK_iff d).mp hd de hde)

/-- structure is preserved by `ApplyDelta` for every delta, hostile or not -/
theorem applyDeltaEntry_wf (now : Nat) (s : CState) (de : DeltaEntry) (hwf : StWF s) :
    StWF (applyDeltaEntry now s de).1 ∧ (applyDeltaEntry now s de).1.localId = s.localId := by
  by_cases hl : de.id = s.localId
  · have hr : applyDeltaEntry now s de = (s, []) := by simp [applyDeltaEntry, hl]
    rw [hr]; exact ⟨hwf, rfl⟩
  · cases hf : s.nodes.find de.id with
    | some st =>
      have hr : (applyDeltaEntry now s de).1 =
          { s with nodes := s.nodes.insert de.id (applyEntries now st de.entries).1 } := by
        simp [applyDeltaEntry, hl, hf]
      obtain ⟨hid, hent⟩ := hwf.2.1 de.id st hf
      obtain ⟨hid', hwf'⟩ := applyEntries_wf now de.entries st hent
      rw [hr]
      exact ⟨hwf.insertRemote hl (hid'.trans hid) hwf', rfl⟩
    | none =>
      have hr : (applyDeltaEntry now s de).1 =
          { s with nodes := s.nodes.insert de.id (applyEntries now { id := de.id, addr := de.addr } de.entries).1 } := by
        simp [applyDeltaEntry, hl, hf]
      obtain ⟨hid', hwf'⟩ := applyEntries_wf now de.entries { id := de.id, addr := de.addr } entWF_nil
      rw [hr]
      exact ⟨hwf.insertRemote hl hid' hwf', rfl⟩

theorem applyDelta_wf (now : Nat) (s : CState) (d : Delta) (h : StWF s) :
    StWF (applyDelta now s d).1 ∧ (applyDelta now s d).1.localId = s.localId := by
  unfold applyDelta
  refine foldl_inv (fun acc : CState × List Event => StWF acc.1 ∧ acc.1.localId = s.localId) _ d (s, [])
    ⟨h, rfl⟩ fun acc de _ hacc => ?_
  have := applyDeltaEntry_wf now acc.1 de hacc.1
  exact ⟨this.1, this.2.trans hacc.2⟩


/-! ## `ApplyDigest` -/

theorem local_ne_of_absent {s : CState} (h : StWF s) {id : String} (hf : s.nodes.find id = none) :
    id ≠ s.localId := by
  obtain ⟨_, _, l, hl, _⟩ := h
  intro e; subst e; rw [hl] at hf; cases hf

theorem applyDigestEntry_good (s0 : CState) (acc : CState × List Event) (de : DigestEntry)
    (h : Good s0 acc) : Good s0 (applyDigestEntry acc de) := by
  obtain ⟨s, evs⟩ := acc
  obtain ⟨hwf, hk, hlid, hsim⟩ := h
  simp only at hwf hk hlid hsim
  cases hf : s.nodes.find de.id with
  | some n =>
    have hr : applyDigestEntry (s, evs) de = (s, evs) := by simp [applyDigestEntry, hf]
    rw [hr]; exact ⟨hwf, hk, hlid, hsim⟩
  | none =>
    by_cases hleft : de.left = true
    · have hr : applyDigestEntry (s, evs) de = (s, evs) := by simp [applyDigestEntry, hf, hleft]
      rw [hr]; exact ⟨hwf, hk, hlid, hsim⟩
    · have hr : applyDigestEntry (s, evs) de =
          ({ s with nodes := s.nodes.insert de.id { id := de.id, addr := de.addr } },
           evs ++ [Event.join de.id]) := by simp [applyDigestEntry, hf, hleft]
      have hl := local_ne_of_absent hwf hf
      rw [hr]
      refine ⟨hwf.insertRemote hl rfl entWF_nil, fun h0 => (hk h0).insert nodeKeysOK_nil, hlid, hsim.append ?_⟩
      have hj : aeventOK (avis s) (Event.join de.id) = true := by simp [aeventOK, avis, hl, hf]
      refine (Sim.single hj).of_eq ?_
      rw [avis_insert s de.id _ hl]
      have hm : mkv [] = fun _ => none := by funext k; simp [mkv]
      simp [afoldEvent, anode, aEmpty, hm]

theorem applyDigest_good (s : CState) (d : Digest) (h : StWF s) :
    Good s (applyDigest s d) := by
  unfold applyDigest
  exact foldl_inv (Good s) _ d (s, []) (Good.start h) fun acc de _ hacc =>
    applyDigestEntry_good s acc de hacc

/-! ## `UpdateLiveness` -/

theorem livenessStep_good (s0 : CState) (susp : String → Bool) (now : Nat)
    (acc : CState × List Event) (p : String × NodeSt) (h : Good s0 acc)
    (hp : acc.1.nodes.find p.1 = some p.2) :
    Good s0 (livenessStep s0.localId susp now acc p) ∧
      ∀ q, q ≠ p.1 → (livenessStep s0.localId susp now acc p).1.nodes.find q = acc.1.nodes.find q := by
  obtain ⟨s, evs⟩ := acc
  obtain ⟨key, n⟩ := p
  obtain ⟨hwf, hk, hlid, hsim⟩ := h
  simp only at hwf hk hlid hsim hp
  obtain ⟨hid, hent⟩ := hwf.2.1 key n hp
  subst hid
  have same : ∀ r, r = (s, evs) → Good s0 r ∧ ∀ q, q ≠ n.id → r.1.nodes.find q = s.nodes.find q := by
    rintro r rfl; exact ⟨⟨hwf, hk, hlid, hsim⟩, fun _ _ => rfl⟩
  by_cases hskip : (n.id = s0.localId || n.left) = true
  · exact same _ (by simp only [livenessStep]; rw [if_pos hskip])
  · have hne : n.id ≠ s.localId := by
      intro e; apply hskip; simp [e, hlid]
    have hav : avis s n.id = some (anode n) := by simp [avis, hne, hp]
    have changed : ∀ (n' : NodeSt) (ev : Event), n'.id = n.id → n'.entries = n.entries →
        aeventOK (avis s) ev = true → afoldEvent (avis s) ev = upd (avis s) n.id (some (anode n')) →
        Good s0 (setNode s n', evs ++ [ev]) ∧
          ∀ q, q ≠ n.id → (setNode s n').nodes.find q = s.nodes.find q := by
      intro n' ev hid' hent' hok hfold
      refine ⟨⟨?_, ?_, hlid, hsim.append ((Sim.single hok).of_eq ?_)⟩, fun q hq => ?_⟩
      · simp only [setNode, hid']
        exact hwf.insertRemote hne hid' (hent' ▸ hent)
      · intro h0
        simp only [setNode, hid']
        exact (hk h0).insert (hent' ▸ hk h0 n.id n hne hp)
      · simp only [setNode, hid']
        rw [hfold, avis_insert s n.id n' hne]
      · simp only [setNode, hid']
        exact find_insert_ne _ _ hq
    by_cases hs : susp n.id = true
    · by_cases hu : n.unreachable = true
      · exact same _ (by simp only [livenessStep]; rw [if_neg hskip, if_pos hs, if_pos hu])
      · have hr : livenessStep s0.localId susp now (s, evs) (n.id, n) =
            (setNode s { n with unreachable := true, expiry := some (now + nodeExpiry) },
             evs ++ [Event.unreachable n.id]) := by
          simp only [livenessStep]; rw [if_neg hskip, if_pos hs, if_neg hu]
        rw [hr]
        exact changed _ _ rfl rfl (by simp [aeventOK, Event.node, hav])
          (by simp [afoldEvent, hav, anode])
    · by_cases hu : n.unreachable = true
      · have hr : livenessStep s0.localId susp now (s, evs) (n.id, n) =
            (setNode s { n with unreachable := false, expiry := none },
             evs ++ [Event.reachable n.id]) := by
          simp only [livenessStep]; rw [if_neg hskip, if_neg hs, if_pos hu]
        rw [hr]
        exact changed _ _ rfl rfl (by simp [aeventOK, Event.node, hav])
          (by simp [afoldEvent, hav, anode])
      · exact same _ (by simp only [livenessStep]; rw [if_neg hskip, if_neg hs, if_neg hu])

theorem liveness_fold_good (s0 : CState) (susp : String → Bool) (now : Nat)
    (l : List (String × NodeSt)) (hnd : NoDupKeys l) (acc : CState × List Event) (h : Good s0 acc)
    (hl : ∀ p ∈ l, acc.1.nodes.find p.1 = some p.2) :
    Good s0 (l.foldl (livenessStep s0.localId susp now) acc) := by
  induction l generalizing acc with
  | nil => exact h
  | cons p l ih =>
    have hnd' : p.1 ∉ keys l ∧ NoDupKeys l := by simpa [NoDupKeys, keys] using hnd
    obtain ⟨hg, hsame⟩ := livenessStep_good s0 susp now acc p h (hl p (List.mem_cons_self ..))
    rw [List.foldl_cons]
    refine ih hnd'.2 _ hg fun q hq => ?_
    rw [hsame q.1 fun e => hnd'.1 (e ▸ mem_keys_of_mem hq)]
    exact hl q (List.mem_cons_of_mem _ hq)

theorem updateLiveness_good (s : CState) (susp : String → Bool) (now : Nat) (h : StWF s) :
    Good s (updateLiveness s susp now) := by
  unfold updateLiveness
  exact liveness_fold_good s susp now s.nodes h.1 (s, []) (Good.start h) fun p hp =>
    find_of_mem h.1 hp

/-! ## `RemoveExpiredAt` -/

theorem sim_expired (ids : List String) (a : AView) (hnd : ids.Nodup)
    (hp : ∀ x ∈ ids, (a x).isSome = true) :
    Sim a (ids.map Event.expired) (fun x => if x ∈ ids then none else a x) := by
  induction ids generalizing a with
  | nil => exact (Sim.nil a).of_eq (by funext x; simp)
  | cons i ids ih =>
    have hnd' : i ∉ ids ∧ ids.Nodup := by simpa using hnd
    have h1 : aeventOK a (Event.expired i) = true := by
      simpa [aeventOK, Event.node] using hp i (List.mem_cons_self ..)
    have h2 := ih (afoldEvent a (Event.expired i)) hnd'.2 fun x hx => by
      have hxi : x ≠ i := fun e => hnd'.1 (e ▸ hx)
      simpa [afoldEvent, upd, hxi] using hp x (List.mem_cons_of_mem _ hx)
    refine ((Sim.single h1).append h2).of_eq ?_
    funext x
    by_cases hxi : x = i
    · subst hxi; simp [afoldEvent]
    · simp [afoldEvent, upd, hxi]

theorem removeExpiredAt_good (s : CState) (t : Nat) (h : StWF s) :
    Good s (removeExpiredAt s t) := by
  obtain ⟨hnd, hnodes, l, hl, hle⟩ := h
  have hwf : StWF s := ⟨hnd, hnodes, l, hl, hle⟩
  have hlexp : isExpiredAt t l = false := by simp [isExpiredAt, hle]
  have hids : (s.nodes.vals.filter (isExpiredAt t)).map (fun n => Event.expired n.id) =
      (keys (s.nodes.filterV (isExpiredAt t))).map Event.expired := by
    simp only [vals, keys, filterV, List.filter_map, List.map_map]
    refine List.map_congr_left fun p hp => ?_
    have hp' := (List.mem_filter.mp hp).1
    have := (hnodes p.1 p.2 (find_of_mem hnd hp')).1
    simp [this]
  have hmem : ∀ x, x ∈ keys (s.nodes.filterV (isExpiredAt t)) ↔
      ∃ n, s.nodes.find x = some n ∧ isExpiredAt t n = true := by
    intro x
    constructor
    · intro hx
      cases hf : (s.nodes.filterV (isExpiredAt t)).find x with
      | none =>
        exact absurd hx fun hx' => by
          have := find_eq_none_iff.mp hf
          obtain ⟨p, hp, hpx⟩ := List.mem_map.mp hx'
          exact this p hp hpx
      | some n =>
        rw [find_filterV hnd] at hf
        cases hf' : s.nodes.find x with
        | none => simp [hf'] at hf
        | some m =>
          simp only [hf', Option.filter_some] at hf
          split at hf
          · exact ⟨m, rfl, by assumption⟩
          · simp at hf
    · rintro ⟨n, hn, he⟩
      have : (s.nodes.filterV (isExpiredAt t)).find x = some n := by
        rw [find_filterV hnd, hn]; simp [Option.filter_some, he]
      exact mem_keys_of_find this
  have hr : removeExpiredAt s t =
      ({ s with nodes := s.nodes.filterV fun n => !isExpiredAt t n },
       (keys (s.nodes.filterV (isExpiredAt t))).map Event.expired) := by
    simp only [removeExpiredAt, hids]
  rw [hr]
  refine ⟨⟨noDupKeys_filterV hnd (fun n => !isExpiredAt t n), fun id n hf => ?_, l, ?_, hle⟩,
    fun hk id n hne hf => ?_, rfl, ?_⟩
  · exact hnodes id n (find_filterV_some' hnd (fun n => !isExpiredAt t n) hf)
  · show (s.nodes.filterV fun n => !isExpiredAt t n).find s.localId = some l
    rw [find_filterV hnd, hl]; simp [Option.filter_some, hlexp]
  · exact hk id n hne (find_filterV_some' hnd (fun n => !isExpiredAt t n) hf)
  · refine (sim_expired _ (avis s) (noDupKeys_filterV hnd _) fun x hx => ?_).of_eq ?_
    · obtain ⟨n, hn, he⟩ := (hmem x).mp hx
      have hxl : x ≠ s.localId := by
        intro e; subst e; rw [hl] at hn; cases hn; rw [hlexp] at he; cases he
      simp [avis, hxl, hn]
    · funext x
      simp only [avis]
      by_cases hxl : x = s.localId
      · simp [hxl]
      · simp only [hxl, if_false]
        rw [find_filterV hnd]
        cases hf : s.nodes.find x with
        | none => simp
        | some n =>
          by_cases he : isExpiredAt t n = true
          · have : x ∈ keys (s.nodes.filterV (isExpiredAt t)) := (hmem x).mpr ⟨n, hf, he⟩
            simp [this, Option.filter_some, he]
          · have : x ∉ keys (s.nodes.filterV (isExpiredAt t)) := by
              intro hx
              obtain ⟨m, hm, hme⟩ := (hmem x).mp hx
              rw [hf] at hm; cases hm; exact he hme
            simp [this, Option.filter_some, he]


/-! ## the local operations -/

theorem erase_insert_self {κ ν : Type} [DecidableEq κ] (m : AMap κ ν) (k : κ) (v : ν) :
    AMap.erase (AMap.insert m k v) k = AMap.erase m k := by
  simp [AMap.insert, AMap.erase, List.filter_filter]

/-- writing the local node does not change the visible state (as a list, for every state) -/
theorem visible_setOwn (s : CState) (n : NodeSt) : visible (setOwn s n) = visible s := by
  simp [visible, setOwn, erase_insert_self]

/-- what the local operations preserve -/
structure LocalGood (s s' : CState) : Prop where
  wf : StWF s'
  keys : KeysOK s → KeysOK s'
  lid : s'.localId = s.localId
  vis : visible s' = visible s

theorem LocalGood.refl {s : CState} (h : StWF s) : LocalGood s s := ⟨h, id, rfl, rfl⟩

theorem own_of_wf {s : CState} (h : StWF s) :
    (own s).id = s.localId ∧ EntWF (own s).entries ∧ (own s).expiry = none := by
  obtain ⟨_, h2, l, hl, hle⟩ := h
  have : own s = l := by simp [own, hl]
  rw [this]
  exact ⟨(h2 _ _ hl).1, (h2 _ _ hl).2, hle⟩

theorem setOwn_good {s : CState} (h : StWF s) (n : NodeSt) (hid : n.id = s.localId)
    (hwf : EntWF n.entries) (hexp : n.expiry = none) : LocalGood s (setOwn s n) := by
  refine ⟨⟨h.1.insert _ _, fun id n' hf => ?_, n, by simp [setOwn], hexp⟩, fun hk id n' hne hf => ?_, rfl,
    visible_setOwn s n⟩
  · simp only [setOwn, find_insert] at hf
    by_cases hk' : s.localId = id
    · simp only [hk', if_true, Option.some.injEq] at hf; subst hf; exact ⟨hk' ▸ hid, hwf⟩
    · simp only [hk', if_false] at hf; exact h.2.1 id n' hf
  · have hne' : id ≠ s.localId := hne
    simp only [setOwn] at hf
    rw [find_insert_ne _ _ hne'] at hf
    exact hk id n' hne' hf

theorem writeOwn_good {s : CState} (h : StWF s) (k : String) (mk : Nat → Entry)
    (hmk : ∀ v, (mk v).key = k) : LocalGood s (writeOwn s k mk) := by
  obtain ⟨hid, hent, hexp⟩ := own_of_wf h
  refine setOwn_good h _ hid ?_ hexp
  have := hent.insert (mk ((own s).version + 1))
  rw [hmk] at this
  exact this

theorem upsertLocal_good {s : CState} (h : StWF s) (k v : String) :
    LocalGood s (upsertLocal s k v) := by
  unfold upsertLocal
  split
  · split
    · exact LocalGood.refl h
    · exact writeOwn_good h k _ fun _ => rfl
  · exact writeOwn_good h k _ fun _ => rfl

theorem deleteLocal_good {s : CState} (h : StWF s) (k : String) :
    LocalGood s (deleteLocal s k) := by
  unfold deleteLocal
  split
  · exact LocalGood.refl h
  · rename_i e he
    split
    · exact LocalGood.refl h
    · exact writeOwn_good h k _ fun _ => (own_of_wf h).2.1.2 k e he

theorem leaveLocal_good {s : CState} (h : StWF s) : LocalGood s (leaveLocal s) := by
  obtain ⟨hid, hent, hexp⟩ := own_of_wf h
  unfold leaveLocal
  simp only []
  split
  · exact LocalGood.refl h
  · refine setOwn_good h _ hid ?_ hexp
    exact hent.insert { key := leftKey, value := "", version := (own s).version + 1, internal := true }

theorem reversion_keys (v0 : Nat) (l : List Entry) :
    (reversion v0 l).map (·.key) = l.map (·.key) := by
  induction l generalizing v0 with
  | nil => rfl
  | cons e l ih => simp [reversion, ih]

theorem vals_keys_of_wf {m : AMap String Entry} (h : EntWF m) : m.vals.map (·.key) = keys m := by
  simp only [vals, keys, List.map_map]
  refine List.map_congr_left fun p hp => ?_
  exact h.2 p.1 p.2 (find_of_mem h.1 hp)

/-- the entry map `CompactLocal` rebuilds is well-formed -/
theorem entWF_compact {m : AMap String Entry} (h : EntWF m) (v0 : Nat) (marker : Entry)
    (hm : marker.key = compactKey) :
    EntWF (AMap.insert ((reversion v0 ((sortByVersion m.vals).filter compactKeeps)).map
      (fun e => (e.key, e)) : AMap String Entry) compactKey marker) := by
  have hents : EntWF ((reversion v0 ((sortByVersion m.vals).filter compactKeeps)).map
      (fun e => (e.key, e)) : AMap String Entry) := by
    refine ⟨?_, fun k x hx => ?_⟩
    · unfold NoDupKeys
      rw [keys_map_key, reversion_keys]
      have hsub : List.Sublist (((sortByVersion m.vals).filter compactKeeps).map (·.key))
          ((sortByVersion m.vals).map (·.key)) := List.Sublist.map _ List.filter_sublist
      refine List.Nodup.sublist hsub ?_
      have hperm : List.Perm ((sortByVersion m.vals).map (·.key)) (m.vals.map (·.key)) :=
        List.Perm.map _ (List.mergeSort_perm _ _)
      rw [hperm.nodup_iff, vals_keys_of_wf h]
      exact h.1
    · rw [find_map_key] at hx
      have := List.find?_some hx
      simpa using this
  have := hents.insert marker
  rw [hm] at this
  exact this

theorem compactLocal_good {s s' : CState} (h : StWF s) (thr : Nat)
    (hc : compactLocal s thr = some s') : LocalGood s s' := by
  obtain ⟨hid, hent, hexp⟩ := own_of_wf h
  unfold compactLocal at hc
  simp only [] at hc
  split at hc
  · cases hc; exact LocalGood.refl h
  · split at hc
    · cases hc
    · cases hc
      exact setOwn_good h _ hid (entWF_compact hent _ _ rfl) hexp

/-! ## `init`, operations, histories -/

theorem stWF_init (id addr : String) : StWF (init id addr) := by
  refine ⟨by simp [init, NoDupKeys, keys], fun id' n hf => ?_, { id := id, addr := addr }, by simp [init], rfl⟩
  simp only [init, find_cons, find_nil] at hf
  split at hf
  · cases hf; rename_i h; exact ⟨h, entWF_nil⟩
  · cases hf

theorem keysOK_init (id addr : String) : KeysOK (init id addr) := by
  intro id' n hne hf
  simp only [init, find_cons, find_nil] at hf hne
  split at hf
  · rename_i h; exact absurd h.symm hne
  · cases hf

theorem visible_init (id addr : String) : visible (init id addr) = [] := by
  simp [visible, init, erase]

/-- the operations of `clusterState` that change state -/
inductive Op
  | upsertLocal (k v : String)
  | deleteLocal (k : String)
  | leaveLocal
  | compactLocal (threshold : Nat)
  | applyDigest (d : Digest)
  | applyDelta (now : Nat) (d : Delta)
  | updateLiveness (suspected : String → Bool) (now : Nat)
  | removeExpiredAt (t : Nat)

/-- run one operation: new state and emitted notifications.  Where `CompactLocal` panics in
Go (`compactLocal = none`) the state is left as it was. -/
def Op.run (s : CState) : Op → CState × List Event
  | .upsertLocal k v => (Gossip.upsertLocal s k v, [])
  | .deleteLocal k => (Gossip.deleteLocal s k, [])
  | .leaveLocal => (Gossip.leaveLocal s, [])
  | .compactLocal thr => ((Gossip.compactLocal s thr).getD s, [])
  | .applyDigest d => Gossip.applyDigest s d
  | .applyDelta now d => Gossip.applyDelta now s d
  | .updateLiveness susp now => Gossip.updateLiveness s susp now
  | .removeExpiredAt t => Gossip.removeExpiredAt s t

/-- the input restriction of C14: deltas carry `Internal` exactly on the reserved keys -/
def Op.ok : Op → Bool
  | .applyDelta _ d => deltaOK d
  | _ => true

/-- run a list of operations, collecting every notification -/
def runOps (s : CState) : List Op → CState × List Event
  | [] => (s, [])
  | op :: ops => ((runOps (op.run s).1 ops).1, (op.run s).2 ++ (runOps (op.run s).1 ops).2)

theorem LocalGood.good {s s' : CState} (h : StWF s) (hl : LocalGood s s') : Good s (s', []) := by
  refine ⟨hl.wf, hl.keys, hl.lid, (Sim.nil _).of_eq ?_⟩
  rw [← den_visible s h, ← den_visible s' hl.wf, hl.vis]

theorem compactLocal_getD_good {s : CState} (h : StWF s) (thr : Nat) :
    LocalGood s ((compactLocal s thr).getD s) := by
  cases hc : compactLocal s thr with
  | none => exact LocalGood.refl h
  | some s' => exact compactLocal_good h thr hc

theorem run_good {s : CState} (h : StWF s) (hk : KeysOK s) (op : Op) (hop : op.ok = true) :
    Good s (op.run s) := by
  cases op with
  | upsertLocal k v => exact (upsertLocal_good h k v).good h
  | deleteLocal k => exact (deleteLocal_good h k).good h
  | leaveLocal => exact (leaveLocal_good h).good h
  | compactLocal thr => exact (compactLocal_getD_good h thr).good h
  | applyDigest d => exact applyDigest_good s d h
  | applyDelta now d => exact applyDelta_good now s d h hk hop
  | updateLiveness susp now => exact updateLiveness_good s susp now h
  | removeExpiredAt t => exact removeExpiredAt_good s t h

/-- structure is preserved by every operation on every input -/
theorem run_wf {s : CState} (h : StWF s) (op : Op) :
    StWF (op.run s).1 ∧ (op.run s).1.localId = s.localId := by
  cases op with
  | upsertLocal k v => exact ⟨(upsertLocal_good h k v).wf, (upsertLocal_good h k v).lid⟩
  | deleteLocal k => exact ⟨(deleteLocal_good h k).wf, (deleteLocal_good h k).lid⟩
  | leaveLocal => exact ⟨(leaveLocal_good h).wf, (leaveLocal_good h).lid⟩
  | compactLocal thr => exact ⟨(compactLocal_getD_good h thr).wf, (compactLocal_getD_good h thr).lid⟩
  | applyDigest d => exact ⟨(applyDigest_good s d h).wf, (applyDigest_good s d h).lid⟩
  | applyDelta now d => exact applyDelta_wf now s d h
  | updateLiveness susp now => exact ⟨(updateLiveness_good s susp now h).wf, (updateLiveness_good s susp now h).lid⟩
  | removeExpiredAt t => exact ⟨(removeExpiredAt_good s t h).wf, (removeExpiredAt_good s t h).lid⟩

theorem Good.trans {s0 : CState} {r1 r2 : CState × List Event} (h1 : Good s0 r1) (h2 : Good r1.1 r2) :
    Good s0 (r2.1, r1.2 ++ r2.2) :=
  ⟨h2.wf, fun h0 => h2.keys (h1.keys h0), h2.lid.trans h1.lid, h1.sim.append h2.sim⟩

theorem runOps_good {s : CState} (h : StWF s) (hk : KeysOK s) (ops : List Op)
    (hops : ∀ op ∈ ops, op.ok = true) : Good s (runOps s ops) := by
  induction ops generalizing s with
  | nil => exact Good.start h
  | cons op ops ih =>
    have h1 := run_good h hk op (hops op (List.mem_cons_self ..))
    have h2 := ih h1.wf (h1.keys hk) fun o ho => hops o (List.mem_cons_of_mem _ ho)
    exact h1.trans h2

/-- from `Good` to the statement about folded views -/
theorem Good.foldOK {s : CState} {r : CState × List Event} (hg : Good s r) (h : StWF s) {w : WView}
    (hw : foldOK w s) : foldOK (foldEvents w r.2) r.1 ∧ eventsOK w r.2 = true := by
  have hden := (foldOK_iff w s h).mp hw
  refine ⟨(foldOK_iff _ _ hg.wf).mpr ?_, ?_⟩
  · rw [den_foldEvents, hden]; exact hg.sim.2
  · rw [eventsOK_den, hden]; exact hg.sim.1

theorem foldOK_init (id addr : String) : foldOK [] (init id addr) := by
  rw [foldOK, visible_init]; intro x; simp [optRel]


/-! ## per-entry completeness and soundness of `delete` / `upsert` (C14_compaction_delete) -/

theorem visNode_find (n : NodeSt) (h : n.entries.NoDupKeys) (k : String) :
    (visNode n).kv.find k = mkv n.entries k :=
  congrFun (congrArg ANode.kv (nden_visNode n h)) k

/-- every key that stops being visible is announced by `delete`, every key whose visible
value appears or changes is announced by `upsert` with the new value -/
theorem shape_complete {st st' : NodeSt} {e : Entry} {evs : List Event} (h : Shape st e st' evs)
    (k : String) :
    (mkv st.entries k ≠ none → mkv st'.entries k = none → Event.delete st.id k ∈ evs) ∧
      (∀ v, mkv st'.entries k = some v → mkv st.entries k ≠ some v → Event.upsert st.id k v ∈ evs) := by
  cases h with
  | quiet hev hkv hl =>
    rw [hkv]
    exact ⟨fun h1 h2 => absurd h2 h1, fun v h1 h2 => absurd h1 h2⟩
  | leave hev hkv hl =>
    rw [hkv]
    exact ⟨fun h1 h2 => absurd h2 h1, fun v h1 h2 => absurd h1 h2⟩
  | deletes ks hev hkv hl =>
    rw [hkv, hev]
    by_cases hk : k ∈ ks
    · refine ⟨fun _ _ => List.mem_map.mpr ⟨k, hk, rfl⟩, fun v h1 _ => ?_⟩
      simp [hk] at h1
    · simp only [hk, if_false]
      exact ⟨fun h1 h2 => absurd h2 h1, fun v h1 h2 => absurd h1 h2⟩
  | upsert hev hkv hl =>
    rw [hkv, hev]
    by_cases hk : k = e.key
    · subst hk
      simp only [if_true]
      refine ⟨fun _ h2 => (by cases h2), fun v h1 _ => ?_⟩
      cases h1; exact List.mem_singleton.mpr rfl
    · simp only [hk, if_false]
      exact ⟨fun h1 h2 => absurd h2 h1, fun v h1 h2 => absurd h1 h2⟩

/-- conversely a `delete` is only sent for a key that is not visible afterwards, an
`upsert` only for a key that then shows that value; and all notifications are about the
node itself -/
theorem shape_sound {st st' : NodeSt} {e : Entry} {evs : List Event} (h : Shape st e st' evs) :
    (∀ k, Event.delete st.id k ∈ evs → mkv st'.entries k = none) ∧
      (∀ k v, Event.upsert st.id k v ∈ evs → mkv st'.entries k = some v) ∧
      (∀ ev ∈ evs, ev.node = st.id) := by
  cases h with
  | quiet hev hkv hl => subst hev; simp
  | leave hev hkv hl => subst hev; simp [Event.node]
  | deletes ks hev hkv hl =>
    subst hev
    rw [hkv]
    refine ⟨fun k hk => ?_, fun k v hk => ?_, fun ev hev => ?_⟩
    · obtain ⟨k', hk', e'⟩ := List.mem_map.mp hk
      cases e'; simp [hk']
    · obtain ⟨k', _, e'⟩ := List.mem_map.mp hk
      cases e'
    · obtain ⟨k', _, e'⟩ := List.mem_map.mp hev
      subst e'; rfl
  | upsert hev hkv hl =>
    subst hev
    rw [hkv]
    refine ⟨fun k hk => ?_, fun k v hk => ?_, fun ev hev => ?_⟩
    · simp at hk
    · simp only [List.mem_singleton, Event.upsert.injEq] at hk
      obtain ⟨_, rfl, rfl⟩ := hk; simp
    · simp only [List.mem_singleton] at hev; subst hev; rfl

/-- `parseUint64` failure on a compaction marker: the marker is stored, nothing is
announced and the rest of the entry list is not applied (the Go code `return`s) -/
theorem applyEntries_unparsable (now : Nat) (st : NodeSt) (e : Entry) (es : List Entry)
    (hver : st.version < e.version) (hint : e.internal = true) (hkey : e.key = compactKey)
    (hp : parseUint64 e.value = none) :
    applyEntries now st (e :: es) =
      ({ st with entries := st.entries.insert e.key e, version := e.version }, []) := by
  have hne : ¬ compactKey = leftKey := by decide
  have hv : ¬ e.version ≤ st.version := Nat.not_le.mpr hver
  have hr : applyEntry now st e =
      ({ st with entries := st.entries.insert e.key e, version := e.version }, [], true) := by
    simp [applyEntry, hv, hint, hkey, hp, hne]
  rw [applyEntries_cons, hr]
  rfl


/-! ## unconditional facts about the local operations, witnesses -/

theorem visible_writeOwn (s : CState) (k : String) (mk : Nat → Entry) :
    visible (writeOwn s k mk) = visible s := visible_setOwn s _

theorem visible_upsertLocal (s : CState) (k v : String) : visible (upsertLocal s k v) = visible s := by
  unfold upsertLocal
  split
  · split
    · rfl
    · exact visible_writeOwn s k _
  · exact visible_writeOwn s k _

theorem visible_deleteLocal (s : CState) (k : String) : visible (deleteLocal s k) = visible s := by
  unfold deleteLocal
  split
  · rfl
  · split
    · rfl
    · exact visible_writeOwn s k _

theorem visible_leaveLocal (s : CState) : visible (leaveLocal s) = visible s := by
  unfold leaveLocal
  simp only []
  split
  · rfl
  · exact visible_setOwn s _

theorem visible_compactLocal (s s' : CState) (thr : Nat) (h : compactLocal s thr = some s') :
    visible s' = visible s := by
  unfold compactLocal at h
  simp only [] at h
  split at h
  · cases h; rfl
  · split at h
    · cases h
    · cases h; exact visible_setOwn s _

def Op.isLocal : Op → Bool
  | .upsertLocal _ _ => true
  | .deleteLocal _ => true
  | .leaveLocal => true
  | .compactLocal _ => true
  | _ => false

theorem run_local (s : CState) (op : Op) (h : op.isLocal = true) :
    (op.run s).2 = [] ∧ visible (op.run s).1 = visible s := by
  cases op with
  | upsertLocal k v => exact ⟨rfl, visible_upsertLocal s k v⟩
  | deleteLocal k => exact ⟨rfl, visible_deleteLocal s k⟩
  | leaveLocal => exact ⟨rfl, visible_leaveLocal s⟩
  | compactLocal thr =>
    refine ⟨rfl, ?_⟩
    simp only [Op.run]
    cases hc : compactLocal s thr with
    | none => rfl
    | some s' => exact visible_compactLocal s s' thr hc
  | applyDigest d => cases h
  | applyDelta now d => cases h
  | updateLiveness susp now => cases h
  | removeExpiredAt t => cases h

/-- hostile input: node `b` first shows `k = v`, then an entry for the ordinary key `k`
arrives with `Internal = true` -/
def hostileInternalOps : List Op :=
  [.applyDelta 0 [{ id := "b", addr := "B", entries := [{ key := "k", value := "v", version := 1 }] }],
   .applyDelta 0 [{ id := "b", addr := "B",
                    entries := [{ key := "k", value := "", version := 2, internal := true }] }]]

/-- what observers receive when the owner `b` calls `UpsertLocal("_internal:left", "x")` and
then `LeaveLocal()` (observation O1: the package does not reject reserved keys) -/
def reservedKeyOps : List Op :=
  [.applyDelta 0 [{ id := "b", addr := "B", entries := [{ key := leftKey, value := "x", version := 1 }] }],
   .applyDelta 0 [{ id := "b", addr := "B",
                    entries := [{ key := leftKey, value := "", version := 2, internal := true }] }]]

/-- a two-node history: digest, two writes, a tombstone, a compaction marker that drops a
key whose deletion was never seen, a new write, the owner leaving, expiry -/
def sampleOps : List Op :=
  [.applyDigest [{ id := "b", addr := "B", version := 7, left := false }],
   .applyDelta 0 [{ id := "b", addr := "B",
                    entries := [{ key := "k1", value := "v1", version := 1 },
                                { key := "k2", value := "v2", version := 2 }] }],
   .upsertLocal "own" "x",
   .applyDelta 0 [{ id := "b", addr := "B",
                    entries := [{ key := "k1", value := "", version := 3, deleted := true }] }],
   .applyDelta 0 [{ id := "b", addr := "B",
                    entries := [{ key := compactKey, value := "4", version := 5, internal := true },
                                { key := "k3", value := "v3", version := 6 }] }],
   .updateLiveness (fun id => id = "b") 10,
   .updateLiveness (fun _ => false) 11,
   .applyDelta 12 [{ id := "b", addr := "B",
                     entries := [{ key := leftKey, value := "", version := 7, internal := true }] }]]

end Piko.Gossip.C14
