import Props.C04
import Proofs.Lifecycle
/-!
# A node leaves: what the system model guarantees about its peers (C18), and the three stores at
quiescence (C20)

* `OwnMarker` / `markerOK_runRev`   — a node whose own state is flagged left holds the live internal
                                      left marker (`LeaveLocal` writes it, the subscriber's writes never
                                      touch the reserved key, `CompactLocal` keeps live entries).
* `Sys.leftSeen`                    — C11's view invariant (a view holding the owner's left marker is
                                      flagged left) for every node of every reachable system state.
* `Sys.left_of_caught_up`           — C02 + the two above: a view that has the owner's version, of an
                                      owner that has left, is flagged left.
* `Sys.leaveStream_caught_up`       — one `leaveStream a r` catches `r` up with `a`.
* `Sys.caught_up_after_join`        — `C03_converges` about the system, one ordered pair.
* `NodeInv.rel` / `NodeInv.left_row` / `NodeInv.tableOK` — C04's relation between the routing-table
                                      row and the (filtered) notification fold, in every reachable
                                      state: a view flagged left has a row with status `left` or no row;
                                      rows are filed under their id.
* `Sys.row_eps_of_caught_up`        — the endpoint half of the mirror without "has not left".
* `SyncerSpec.run_keeps_row`        — a routing-table row survives every notification but `expired`.
* `Proxy.SettledExcept` / `route_settled_except` — `route_settled` for a world in which one node's rows
                                      are not `active`.
-/
set_option linter.unusedSimpArgs false
namespace Piko
open Piko.Gossip

/-! ## the owner's left marker -/

/-- the own node of a node that has left holds the live internal left marker -/
def OwnMarker (g : CState) : Prop :=
  (own g).left = true →
    ∃ e, (own g).entries.find leftKey = some e ∧ e.internal = true ∧ e.deleted = false

theorem ownMarker_congr {g g' : CState} (h : own g' = own g) (hm : OwnMarker g) : OwnMarker g' := by
  unfold OwnMarker; rw [h]; exact hm

theorem ownMarker_leaveLocal {g : CState} (hm : OwnMarker g) : OwnMarker (leaveLocal g) := by
  rcases leaveLocal_cases g with ⟨_, e⟩ | ⟨_, e⟩
  · rw [e]; exact hm
  · intro _
    rw [e, own_setOwn]
    exact ⟨_, AMap.find_insert_self _ _ _, rfl, rfl⟩

theorem ownMarker_writeOwn {g : CState} (hm : OwnMarker g) (k : String) (mk : Nat → Entry)
    (hk : k ≠ leftKey) : OwnMarker (writeOwn g k mk) := by
  intro hl
  rw [own_writeOwn] at hl ⊢
  obtain ⟨e, he, hi, hd⟩ := hm hl
  exact ⟨e, by simp only [AMap.find_insert_ne _ _ hk.symm]; exact he, hi, hd⟩

theorem ownMarker_upsertLocal {g : CState} (hm : OwnMarker g) (k v : String) (hk : k ≠ leftKey) :
    OwnMarker (upsertLocal g k v) := by
  rcases upsertLocal_cases g k v with ⟨_, e⟩ | ⟨_, e⟩ <;> rw [e]
  · exact hm
  · exact ownMarker_writeOwn hm k _ hk

theorem ownMarker_deleteLocal {g : CState} (hm : OwnMarker g) (k : String) (hk : k ≠ leftKey) :
    OwnMarker (deleteLocal g k) := by
  rcases deleteLocal_cases g k with ⟨_, e⟩ | ⟨e0, _, _, e⟩ <;> rw [e]
  · exact hm
  · exact ownMarker_writeOwn hm k _ hk

theorem ownMarker_init (id addr : String) : OwnMarker (Gossip.init id addr) := by
  intro hl
  have : own (Gossip.init id addr) = { id := id, addr := addr } := by simp [own, Gossip.init]
  rw [this] at hl; cases hl

theorem ownMarker_compactLocal {g g' : CState} (hwf : OwnWF g) {thr : Nat}
    (hc : compactLocal g thr = some g') (hm : OwnMarker g) : OwnMarker g' := by
  rcases compactLocal_some hwf hc with ⟨_, rfl⟩ | ⟨_, _, rfl⟩
  · exact hm
  · intro hl
    rw [own_setOwn] at hl ⊢
    obtain ⟨e, he, hi, hd⟩ := hm hl
    obtain ⟨v, _, _, hf⟩ := find_compacted_live hwf (own g).version (k := leftKey) (by decide) he hd
    exact ⟨_, hf, hi, hd⟩

/-- every node of the network satisfies `OwnMarker` -/
def NetMarker (net : Net) : Prop := ∀ k g, net.nodes.find k = some g → OwnMarker g

theorem netMarker_setNode {net : Net} (hm : NetMarker net) (n : String) {g' : CState} (hg' : OwnMarker g') :
    NetMarker (net.setNode n g') := by
  intro k g hk
  simp only [Net.setNode, AMap.find_insert] at hk
  by_cases hnk : n = k
  · simp only [hnk, if_true, Option.some.injEq] at hk; subst hk; exact hg'
  · simp only [hnk, if_false] at hk; exact hm k g hk

theorem netMarker_localOp {net : Net} (hm : NetMarker net) (n : String) (f : CState → CState)
    (hf : ∀ g, OwnMarker g → OwnMarker (f g)) : NetMarker (localOp net n f).net := by
  unfold localOp
  split
  · exact hm
  · next s hs => exact netMarker_setNode hm n (hf s (hm n s hs))

/-- the gossip operations a piko node's own writes are, other than compaction: they never touch
the reserved left key -/
def MarkerSafe : Gossip.Op → Prop
  | .node _ _ => True
  | .upsert _ k _ => k ≠ leftKey
  | .delete _ k => k ≠ leftKey
  | .leave _ => True
  | _ => False

theorem netMarker_step {net : Net} (hm : NetMarker net) {op : Gossip.Op} (hop : MarkerSafe op) :
    NetMarker (net.step op).net := by
  cases op with
  | node id addr =>
    simp only [Net.step]
    split
    · exact hm
    · split
      · exact hm
      · exact netMarker_setNode hm id (ownMarker_init id addr)
  | upsert n k v => exact netMarker_localOp hm n _ (fun g hg => ownMarker_upsertLocal hg k v hop)
  | delete n k => exact netMarker_localOp hm n _ (fun g hg => ownMarker_deleteLocal hg k hop)
  | leave n => exact netMarker_localOp hm n _ (fun g hg => ownMarker_leaveLocal hg)
  | compact n thr => exact hop.elim
  | sendDigest n dst rq perm cut => exact hop.elim
  | deliver i cut perm dcut now => exact hop.elim
  | join n m rd now => exact hop.elim
  | leaveStream n m now => exact hop.elim
  | liveness n sus now => exact hop.elim
  | expire n t => exact hop.elim

theorem netMarker_run : ∀ (ops : List Gossip.Op) {net : Net}, NetMarker net → (∀ op ∈ ops, MarkerSafe op) →
    NetMarker (net.run ops)
  | [], _, hm, _ => hm
  | op :: ops, net, hm, h => by
    have := netMarker_run ops (netMarker_step hm (h op (List.mem_cons_self ..)))
      (fun o ho => h o (List.mem_cons_of_mem _ ho))
    simpa [Net.run] using this

theorem markerSafe_endpointWrite (c : Cluster.State) (n ep : String) : MarkerSafe (Sys.endpointWrite c n ep) := by
  unfold Sys.endpointWrite
  split <;> exact (epKey_ne_reserved ep).1

/-- a quiet step: every node of the new state existed before, with the same own state -/
theorem Sys.quiet_own_back (hist : List SysOp) (hall : SysAllowed hist) {op : SysOp} {g : Gossip.Op}
    (hq : op.quiet = some g) {k : String} {gk' : CState}
    (hk : ((Sys.runRev hist).step op).net.nodes.find k = some gk') :
    ∃ gk, (Sys.runRev hist).net.nodes.find k = some gk ∧ own gk' = own gk := by
  have hinv := sysInv_runRev hist hall
  have hallow : SysStepAllowed (Sys.runRev hist) op := by
    cases op <;> simp_all [SysOp.quiet, SysStepAllowed]
  have hinv' : SysInv ((Sys.runRev hist).step op) := hinv.step op hallow
  obtain ⟨sd', hsd'⟩ := hinv'.side_of_net hk
  rw [Sys.step_quiet _ hq] at hsd' hk
  have hdom := Sys.gossip_side_dom (Sys.runRev hist) g k
  rw [hsd'] at hdom
  cases hs0 : (Sys.runRev hist).side.find k with
  | none => rw [hs0] at hdom; cases hdom
  | some sd0 =>
    obtain ⟨gk, hgk⟩ := hinv.net_of_side hs0
    obtain ⟨gk'', h1, h2⟩ := Sys.gossip_own hist hall (Sys.quiet_isQuiet hq) hgk
    rw [hk] at h1; cases h1
    exact ⟨gk, hgk, h2⟩

/-- **Every node that is flagged left holds its left marker**, in every reachable state. -/
theorem markerOK_runRev : ∀ ops : List SysOp, SysAllowed ops → NetMarker (Sys.runRev ops).net
  | [], _ => fun k g h => by simp [Sys.runRev] at h
  | op :: earlier, hall => by
    have ih := markerOK_runRev earlier hall.1
    have hinv := sysInv_runRev earlier hall.1
    have hstep := hall.2
    show NetMarker ((Sys.runRev earlier).step op).net
    -- the receive-side steps
    have hquiet : ∀ g, op.quiet = some g → NetMarker ((Sys.runRev earlier).step op).net := by
      intro g hq k gk' hk
      obtain ⟨gk, hgk, hown⟩ := Sys.quiet_own_back earlier hall.1 hq hk
      exact ownMarker_congr hown (ih k gk hgk)
    cases op with
    | boot id ga pa aa =>
      rw [Sys.step_net]
      apply netMarker_run _ ih
      intro o ho
      simp only [Sys.netOps] at ho
      split at ho
      · simp only [List.mem_cons, List.not_mem_nil, or_false] at ho
        rcases ho with rfl | rfl | rfl
        · trivial
        · exact proxy_ne_reserved.1
        · exact admin_ne_reserved.1
      · simp at ho
    | addConn n uid ep =>
      rw [Sys.step_net]
      apply netMarker_run _ ih
      intro o ho
      simp only [Sys.netOps] at ho
      split at ho
      · simp at ho
      · simp only [List.mem_cons, List.not_mem_nil, or_false] at ho
        subst ho; exact markerSafe_endpointWrite _ _ _
    | removeConn n uid ep =>
      rw [Sys.step_net]
      apply netMarker_run _ ih
      intro o ho
      simp only [Sys.netOps] at ho
      split at ho
      · simp at ho
      · split at ho
        · split at ho
          · simp only [List.mem_cons, List.not_mem_nil, or_false] at ho
            subst ho; exact markerSafe_endpointWrite _ _ _
          · simp at ho
        · simp at ho
    | leave n =>
      rw [Sys.step_net]
      apply netMarker_run _ ih
      intro o ho
      simp only [Sys.netOps, List.mem_cons, List.not_mem_nil, or_false] at ho
      subst ho; trivial
    | compact n thr =>
      show NetMarker ((Sys.runRev earlier).net.step (.compact n thr)).net
      simp only [Net.step]
      split
      · exact ih
      · next g hg =>
        split
        · exact ih
        · next g' hc =>
          obtain ⟨sd, hsd⟩ := hinv.side_of_net hg
          exact netMarker_setNode ih n (ownMarker_compactLocal (hinv.node n sd g hsd hg).ownwf hc (ih n g hg))
    | sendDigest n dst rq perm cut => exact hquiet _ rfl
    | deliver i cut perm dcut now => exact hquiet _ rfl
    | join n m rd now => exact hquiet _ rfl
    | leaveStream n m now => exact hquiet _ rfl
    | liveness n sus now => exact hquiet _ rfl
    | expire n t => exact hstep.elim

/-! ## C11's view invariant in the system -/

theorem netAll_inv_runRev : ∀ gops : List Gossip.Op, C11.NetAll C11.Inv (Gossip.runRev gops).net
  | [] => fun p hp => by simp [Gossip.runRev] at hp
  | op :: earlier =>
    C11.netAll_step C11.Inv C11.inv_init C11.inv_apply _ (netAll_inv_runRev earlier) op

/-- **A view that holds the owner's left marker is flagged left**, in every node of every reachable
system state (`C11_net_invariant` about the system). -/
theorem Sys.leftSeen (ops : List SysOp) {r : String} {gr : CState}
    (hgr : (Sys.runRev ops).net.nodes.find r = some gr) : C11.WF gr ∧ C11.LeftSeen gr := by
  rw [Sys.runRev_net] at hgr
  exact C11.netAll_find (netAll_inv_runRev _) hgr

/-- **A caught-up view of a node that has left is flagged left.** -/
theorem Sys.left_of_caught_up (ops : List SysOp) (hall : SysAllowed ops) {r a : String} {gr ga : CState}
    {V : NodeSt} (hne : r ≠ a) (hgr : (Sys.runRev ops).net.nodes.find r = some gr)
    (hga : (Sys.runRev ops).net.nodes.find a = some ga) (hV : gr.nodes.find a = some V)
    (hc : V.version = (own ga).version) (hl : (own ga).left = true) : V.left = true := by
  have hallN := allowedRev_netHist ops hall
  have hobs : Observes (Gossip.runRev (Sys.netHist ops)) r a V (own ga) := by
    refine ⟨fun e => hne e.symm, ⟨gr, ?_, hV⟩, ⟨ga, ?_, rfl⟩⟩
    · rw [← Sys.runRev_net]; exact hgr
    · rw [← Sys.runRev_net]; exact hga
  have hexact := C02_caught_up_exact hallN hobs hc
  obtain ⟨e, he, hi, _⟩ := markerOK_runRev ops hall a ga hga hl
  have hVe : V.entries.find leftKey = some e := by rw [hexact]; exact he
  have hlid : gr.localId = r := by
    have hnet := netInv_sys ops hall
    exact (hnet.node r gr (by rw [← Sys.runRev_net]; exact hgr)).lid
  exact (Sys.leftSeen ops hgr).2 a V hV (by rw [hlid]; exact fun e => hne e.symm)
    (leftKey, e) (AMap.mem_of_find hVe) (Or.inl rfl) hi

/-! ## one `leaveStream` catches the receiver up -/

/-- the owner publishes at least its proxy address -/
theorem SysInv.own_entries_ne {s : Sys} (h : SysInv s) {a : String} {ga : CState}
    (hga : s.net.nodes.find a = some ga) : (own ga).entries ≠ [] := by
  obtain ⟨sd, hsd⟩ := h.side_of_net hga
  have hp := (h.node a sd ga hsd hga).paddr
  intro h0
  simp [liveValue, h0] at hp

/-- **`leaveStream a r` (`a` pushes its `LocalDelta` to `r`) catches `r` up with `a`**, whatever `r`
knew about `a` before; nobody's own state changes. -/
theorem Sys.leaveStream_caught_up (ops : List SysOp) (hall : SysAllowed ops) {a r : String} {ga gr : CState}
    (hne : r ≠ a) (now : Nat) (hga : (Sys.runRev ops).net.nodes.find a = some ga)
    (hgr : (Sys.runRev ops).net.nodes.find r = some gr) :
    ∃ gr' V, (Sys.runRev (.leaveStream a r now :: ops)).net.nodes.find r = some gr' ∧
      (Sys.runRev (.leaveStream a r now :: ops)).net.nodes.find a = some ga ∧
      gr'.nodes.find a = some V ∧ V.version = (own ga).version := by
  have hinvS := sysInv_runRev ops hall
  have hnet := netInv_sys ops hall
  have hga' : (Gossip.runRev (Sys.netHist ops)).net.nodes.find a = some ga := by rw [← Sys.runRev_net]; exact hga
  have hgr' : (Gossip.runRev (Sys.netHist ops)).net.nodes.find r = some gr := by rw [← Sys.runRev_net]; exact hgr
  have hnodeA := hnet.node a ga hga'
  have hnodeR := hnet.node r gr hgr'
  have howner : OwnerInv ((Gossip.runRev (Sys.netHist ops)).hist a) (own ga) := hnodeA.owner
  have hOid : (own ga).id = a := hnodeA.ownId
  have hlid : gr.localId = r := hnodeR.lid
  have hent := hinvS.own_entries_ne hga
  obtain ⟨p0, hp0⟩ := List.exists_mem_of_ne_nil _ hent
  have hf0 := AMap.findOfMem howner.wf.nodup (k := p0.1) (v := p0.2) hp0
  have hH : (Gossip.runRev (Sys.netHist ops)).hist a ≠ [] := List.ne_nil_of_mem (howner.cur _ _ hf0)
  have hnea : ¬ a = r := fun e => hne e.symm
  -- the step
  have hnodes : (Sys.runRev (.leaveStream a r now :: ops)).net.nodes =
      (Sys.runRev ops).net.nodes.insert r (applyDelta now gr (localDelta ga)).1 := by
    show ((Sys.runRev ops).net.step (.leaveStream a r now)).net.nodes = _
    simp [Net.step, hga, hgr, hnea, Net.setNode]
  have hd1 : (applyDelta now gr (localDelta ga)).1 = (applyDeltaEntry now gr (deltaEntry (own ga) 0)).1 := by
    show (applyDelta now gr [deltaEntry (own ga) 0]).1 = _
    rw [applyDelta_cons_fst]; rfl
  have hfindA : (applyDelta now gr (localDelta ga)).1.nodes.find a =
      some (applyEntries now ((gr.nodes.find a).getD { id := a, addr := (own ga).addr })
        (deltaEntry (own ga) 0).entries).1 := by
    rw [hd1, applyDeltaEntry_find]
    have h1 : ¬ a = gr.localId := by rw [hlid]; exact hnea
    have h2 : (deltaEntry (own ga) 0).id = a := hOid
    simp only [h2, h1, if_false, if_true]
    rfl
  have hview : ViewInv ((Gossip.runRev (Sys.netHist ops)).hist a) (own ga)
      ((gr.nodes.find a).getD { id := a, addr := (own ga).addr }) := by
    cases hV : gr.nodes.find a with
    | some V =>
      simp only [Option.getD_some]
      exact hnodeR.recv.views a V _ _ hV (by rw [hlid]; exact hnea) (by simp [GNet.world, hga'])
    | none =>
      simp only [Option.getD_none]
      exact ViewInv.fresh howner _ _
  refine ⟨(applyDelta now gr (localDelta ga)).1, _, by rw [hnodes]; exact AMap.find_insert_self _ _ _,
    by rw [hnodes, AMap.find_insert_ne _ _ hnea]; exact hga, hfindA, ?_⟩
  exact applyEntries_catches_up now howner hview 0 (Nat.zero_le _) hH

/-- **`C03_converges` about the system, one ordered pair**: after a quiet schedule that contains the
exchange `join r a`, `r`'s view of `a` has `a`'s version. -/
theorem Sys.caught_up_after_join (ops sched : List SysOp) (hall : SysAllowed (sched ++ ops))
    (hq : ∀ op ∈ sched, op.quiet.isSome = true) (r a : String) (hne : r ≠ a)
    (hr0 : ((Sys.runRev ops).node r).isSome = true) (ha0 : ((Sys.runRev ops).node a).isSome = true)
    (hjoin : ∃ now, SysOp.join r a true now ∈ sched) (xr xa : SysNode)
    (hr : (Sys.runRev (sched ++ ops)).node r = some xr) (ha : (Sys.runRev (sched ++ ops)).node a = some xa) :
    ∃ V, xr.mgr.gossip.nodes.find a = some V ∧ V.version = (own xa.mgr.gossip).version := by
  obtain ⟨sdr1, gr1, hsr1, hgr1, rfl⟩ := Sys.node_eq hr
  obtain ⟨sda1, ga1, hsa1, hga1, rfl⟩ := Sys.node_eq ha
  have hall0 := sysAllowed_append sched ops hall
  have hinv0 := sysInv_runRev ops hall0
  have hnode0 : ∀ k, ((Sys.runRev ops).node k).isSome = true →
      ∃ sd0 g0, (Sys.runRev ops).side.find k = some sd0 ∧ (Sys.runRev ops).net.nodes.find k = some g0 := by
    intro k hk
    cases hx : (Sys.runRev ops).node k with
    | none => rw [hx] at hk; cases hk
    | some x =>
      obtain ⟨sd, g, hsd, hg, _⟩ := Sys.node_eq hx
      exact ⟨sd, g, hsd, hg⟩
  obtain ⟨sdr0, gr0, hsr0, hgr0⟩ := hnode0 r hr0
  obtain ⟨sda0, ga0, hsa0, hga0⟩ := hnode0 a ha0
  have hN := Sys.netHist_append_quiet sched ops hq
  have hallN : AllowedRev (sched.filterMap SysOp.quiet ++ Sys.netHist ops) := by
    rw [← hN]; exact allowedRev_netHist _ hall
  have hqN : ∀ op ∈ sched.filterMap SysOp.quiet, Quiet op := by
    intro g hg
    obtain ⟨op, _, hop⟩ := List.mem_filterMap.mp hg
    exact Sys.quiet_isQuiet hop
  obtain ⟨now, hj⟩ := hjoin
  have hjN : Op.join r a true now ∈ sched.filterMap SysOp.quiet := List.mem_filterMap.mpr ⟨_, hj, rfl⟩
  obtain ⟨sr', sa', V, h1, h2, h3, h4, h5, _⟩ :=
    C03_converges hallN hqN (r := r) (a := a) (sr := gr0) (sa := ga0)
      (by rw [← Sys.runRev_net]; exact hgr0) (by rw [← Sys.runRev_net]; exact hga0) hne
      (hinv0.own_entries_ne hga0) hjN
  rw [← hN, ← Sys.runRev_net] at h1 h2
  rw [hgr1] at h1; cases h1
  rw [hga1] at h2; cases h2
  exact ⟨V, h4, by rw [h5, h3]⟩

/-! ## the routing-table row of a remote node, in every reachable state -/

open SyncerSpec Cluster in
/-- **C04's relation between the row / pending entry of `a` and the filtered notification fold**, for
every node of every reachable system state (`C04_table_spec` applied to the real syncer). -/
theorem NodeInv.rel {pa aa : String → Option String} {r : String} {sd : Side} {g : CState}
    (h : NodeInv pa aa r sd g) {a : String} (hne : a ≠ r) :
    Rel a (sd.table.nodes.find a, sd.pending.find a) ((foldEvents (dropAddrDeletes sd.evs)).find a) := by
  have hw' := wellFormed_filtered r sd.evs (wellFormed_of_eventsOK_from r [] [] sd.evs sameView_nil h.evok)
  have hl' := noLiveness_filtered r sd.evs h.live
  have ha' := addrStable_filtered r sd.evs h.addr
  have hspec := table_spec { id := r } (dropAddrDeletes sd.evs) hw' hl' ha' a hne
  rw [run_dropAddrDeletes] at hspec
  have hag := h.agree.2 a (by rw [Side.sync_table, h.tlid]; exact hne)
  rw [← hag] at hspec
  exact hspec

open SyncerSpec Cluster in
/-- the filtered fold has the flags of the gossip view and its visible non-address keys -/
theorem NodeInv.fold_view' {pa aa : String → Option String} {r : String} {sd : Side} {g : CState}
    (h : NodeInv pa aa r sd g) {a : String} {V : NodeSt} (hV : g.nodes.find a = some V) (hne : a ≠ r) :
    ∃ nv', (foldEvents (dropAddrDeletes sd.evs)).find a = some nv' ∧ nv'.left = V.left ∧
      nv'.unreach = V.unreachable ∧ ∀ k, isAddrKey k = false → nv'.kv.find k = visAt V.entries k := by
  obtain ⟨nv, hnv, hl, hu, hk⟩ := h.fold_view hV hne
  have hvs : NSim ((foldEvents sd.evs).find a) ((foldEvents (dropAddrDeletes sd.evs)).find a) :=
    vsim_fold sd.evs vsim_nil a
  rw [hnv] at hvs
  cases hnv' : (foldEvents (dropAddrDeletes sd.evs)).find a with
  | none => rw [hnv'] at hvs; exact hvs.elim
  | some nv' =>
    rw [hnv'] at hvs
    obtain ⟨h1, h2, h3, _⟩ := hvs
    exact ⟨nv', rfl, by rw [← h1, hl], by rw [← h2, hu], fun k hk' => by rw [← h3 k hk', hk k]⟩

open SyncerSpec Cluster in
/-- **A view flagged left: the node is not pending, and its row - if there is one - has status
`left`** (the row is missing exactly when the leave arrived while the node was still pending). -/
theorem NodeInv.left_row {pa aa : String → Option String} {r : String} {sd : Side} {g : CState}
    (h : NodeInv pa aa r sd g) {a : String} {V : NodeSt} (hV : g.nodes.find a = some V) (hne : a ≠ r)
    (hl : V.left = true) :
    sd.pending.find a = none ∧ ∀ row, sd.table.nodes.find a = some row → row.status = .left := by
  obtain ⟨nv', hnv', hl', _, _⟩ := h.fold_view' hV hne
  have hrel := h.rel hne
  rw [hnv'] at hrel
  rcases rel_cases hrel with ⟨_, e⟩ | ⟨_, _, row', e, rs⟩ | ⟨_, _, pn, _, ps⟩
  · have e1 := congrArg Prod.fst e
    have e2 := congrArg Prod.snd e
    simp only at e1 e2
    exact ⟨e2, fun row hrow => by rw [e1] at hrow; cases hrow⟩
  · have e1 := congrArg Prod.fst e
    have e2 := congrArg Prod.snd e
    simp only at e1 e2
    refine ⟨e2, fun row hrow => ?_⟩
    rw [e1] at hrow; cases hrow
    rw [rs.status]
    simp [NView.status, hl', hl]
  · have := ps.notLeft
    rw [hl', hl] at this; cases this

open SyncerSpec Cluster in
/-- every row of the routing table is filed under its own id -/
theorem NodeInv.row_id {pa aa : String → Option String} {r : String} {sd : Side} {g : CState}
    (h : NodeInv pa aa r sd g) {a : String} {row : Cluster.Node} (hrow : sd.table.nodes.find a = some row) :
    row.id = a := by
  by_cases hne : a = r
  · subst hne
    obtain ⟨row', hrow', hid⟩ := h.tloc
    rw [hrow] at hrow'; cases hrow'; exact hid
  · have hrel := h.rel hne
    cases hf : (foldEvents (dropAddrDeletes sd.evs)).find a with
    | none =>
      rw [hf] at hrel
      have := congrArg Prod.fst hrel
      simp only at this
      rw [hrow] at this; cases this
    | some nv' =>
      rw [hf] at hrel
      rcases rel_cases hrel with ⟨_, e⟩ | ⟨_, _, row', e, rs⟩ | ⟨_, _, pn, e, _⟩
      · have := congrArg Prod.fst e; simp only at this; rw [hrow] at this; cases this
      · have := congrArg Prod.fst e; simp only at this; rw [hrow] at this; cases this
        exact rs.id
      · have := congrArg Prod.fst e; simp only at this; rw [hrow] at this; cases this

theorem NodeInv.tableOK {pa aa : String → Option String} {r : String} {sd : Side} {g : CState}
    (h : NodeInv pa aa r sd g) : Node.TableOK sd.table :=
  ⟨h.tnd, fun _ hp => h.row_id (AMap.find_of_mem h.tnd hp)⟩

/-- **A node whose view at `r` is flagged left is never chosen by `r`**: it is in no
`LookupEndpoint` candidate set, so `Select` never returns it. -/
theorem NodeInv.left_not_candidate {pa aa : String → Option String} {r : String} {sd : Side} {g : CState}
    (h : NodeInv pa aa r sd g) {a : String} {V : NodeSt} (hV : g.nodes.find a = some V) (hne : a ≠ r)
    (hl : V.left = true) (e : String) : ∀ c ∈ sd.table.lookupCandidates e, c.id ≠ a :=
  Node.not_candidate_of_status h.tableOK a
    (fun n hn hact => by rw [(h.left_row hV hne hl).2 n hn] at hact; cases hact) e

theorem Upstream.select_remote_not {m : Upstream.Mgr} {a e : String} {allow : Bool} {cs : List String}
    (h : ∀ c ∈ m.cluster.lookupCandidates e, c.id ≠ a) (hs : (m.select e allow).1 = .remote cs) : a ∉ cs := by
  unfold Upstream.Mgr.select at hs
  split at hs
  · split at hs <;> cases hs
  · split at hs
    · cases hs
    · split at hs
      · cases hs
      · next cs' hcs' =>
        simp only [Upstream.Sel.remote.injEq] at hs
        subst hs
        intro hin
        obtain ⟨c, hc, hca⟩ := List.mem_map.mp hin
        exact h c hc hca

/-! ## a row survives every notification but `expired` -/

namespace SyncerSpec
open Cluster

theorem nsyncStep_keeps_row (a : String) (tp : Option Node × Option Node) (ev : NEv)
    (h : tp.1.isSome = true) (hne : ev ≠ .expired) : (nsyncStep a tp ev).1.isSome = true := by
  obtain ⟨t, _⟩ := tp
  cases t with
  | none => cases h
  | some row =>
    cases ev with
    | join => simp [nsyncStep]
    | leave => simp [nsyncStep, tepN]
    | reachable => simp [nsyncStep, tepN]
    | unreachable => simp [nsyncStep, tepN]
    | expired => exact absurd rfl hne
    | upsert k v =>
      simp only [nsyncStep]
      split
      · rfl
      · split
        · split
          · rfl
          · rfl
        · unfold upsertPendingN
          simp only []
          split
          · rfl
          · split
            · rfl
            · split <;> rfl
    | delete k =>
      simp only [nsyncStep]
      split <;> rfl

theorem syncStep_keeps_row (s : Sync) (e : Event) (hp : PendOK s) (a : String)
    (h : (s.table.nodes.find a).isSome = true) (hne : e ≠ .expired a) :
    ((syncStep s e).table.nodes.find a).isSome = true := by
  by_cases hloc : evNode e = s.table.localId
  · rw [syncStep_local s e hloc]; exact h
  · have := congrArg Prod.fst (atNode_syncStep s e hloc hp a)
    simp only [atNode] at this
    rw [this]
    by_cases hx : evNode e = a
    · simp only [hx, if_true]
      apply nsyncStep_keeps_row
      · exact h
      · intro hk
        apply hne
        cases e <;> simp_all [evKind, evNode]
    · simp only [hx, if_false]; exact h

theorem run_keeps_row : ∀ (evs : List Event) (s : Sync), PendOK s → ∀ a,
    (s.table.nodes.find a).isSome = true → (∀ e ∈ evs, Gossip.Flow.NotLive e) →
    ((s.run evs).table.nodes.find a).isSome = true
  | [], _, _, _, h, _ => h
  | e :: es, s, hp, a, h, hn => by
    have h1 := syncStep_keeps_row s e hp a h (by
      intro he
      have := hn e (List.mem_cons_self ..)
      rw [he] at this; exact this)
    have := run_keeps_row es (syncStep s e) (pendOK_syncStep s e hp) a h1
      (fun x hx => hn x (List.mem_cons_of_mem _ hx))
    simpa [Sync.run] using this

end SyncerSpec

/-! ## the endpoint half of the mirror, whether or not the owner has left -/

open SyncerSpec Cluster in
/-- **In every reachable state, a caught-up observer's row of `a` lists exactly `a`'s registered
endpoints with their upstream counts** - also when `a` has left (`C04_mirror_system` needs "has not
left" only for the status and for the existence of the row). -/
theorem Sys.row_eps_of_caught_up (ops : List SysOp) (hall : SysAllowed ops) {r a : String} (hne : r ≠ a)
    {nr na : SysNode} (hr : (Sys.runRev ops).node r = some nr) (ha : (Sys.runRev ops).node a = some na)
    {V : NodeSt} (hV : nr.mgr.gossip.nodes.find a = some V)
    (hc : V.version = (own na.mgr.gossip).version)
    (hsmall : ∀ e, (na.mgr.registry e).length < 2 ^ 63)
    {row : Cluster.Node} (hrow : nr.mgr.cluster.nodes.find a = some row) (e : String) :
    row.endpoints.find e =
      if (na.mgr.registry e).length = 0 then none else some ((na.mgr.registry e).length : Int) := by
  obtain ⟨sdr, gr, hsr, hgr, rfl⟩ := Sys.node_eq hr
  obtain ⟨sda, ga, hsa, hga, rfl⟩ := Sys.node_eq ha
  simp only [] at hV hc hsmall hrow ⊢
  have hinv := sysInv_runRev ops hall
  have hnr := hinv.node r sdr gr hsr hgr
  have hnea : a ≠ r := fun e => hne e.symm
  have hallN := allowedRev_netHist ops hall
  have hobs : Observes (Gossip.runRev (Sys.netHist ops)) r a V (own ga) := by
    refine ⟨hnea, ⟨gr, ?_, hV⟩, ⟨ga, ?_, rfl⟩⟩
    · rw [← Sys.runRev_net]; exact hgr
    · rw [← Sys.runRev_net]; exact hga
  have hexact := C02_caught_up_exact hallN hobs hc
  obtain ⟨nv', hnv', _, _, hkv⟩ := hnr.fold_view' hV hnea
  obtain ⟨_, _, hepx, hcnt⟩ := hinv.owner_shows hga hsa
  have hkey : nv'.kv.find (epKey e) =
      (sda.table.localNode.endpoints.find e).map (fun c => toString c) := by
    rw [hkv (epKey e) ((isAddrKey_false _).mpr ⟨fun h => proxy_ne_epKey e h.symm, fun h => admin_ne_epKey e h.symm⟩)]
    unfold visAt
    rw [hexact]
    exact hepx e
  have hrel := hnr.rel hnea
  rw [hnv'] at hrel
  rcases rel_cases hrel with ⟨_, e'⟩ | ⟨_, _, row', e', rs⟩ | ⟨_, _, pn, e', _⟩
  · have := congrArg Prod.fst e'; simp only at this; rw [hrow] at this; cases this
  · have := congrArg Prod.fst e'; simp only at this; rw [hrow] at this; cases this
    have hes := rs.eps e
    rw [hkey, hcnt e] at hes
    split
    · next h0 => simpa [h0] using hes
    · next h0 =>
      simp only [h0, if_false, Option.map_some] at hes
      exact hes _ (atoi_toString_nat _ (hsmall e))
  · have := congrArg Prod.fst e'; simp only at this; rw [hrow] at this; cases this

/-! ## system-level wrappers: a view flagged left takes the node out of routing -/

/-- **In every reachable state: if `r`'s gossip view of `a` is flagged left, then at `r` the node `a`
is not pending, its routing-table row (if any) has status `left`, it is in no `LookupEndpoint`
candidate set and `Select` never returns it.** -/
theorem Sys.left_view_not_routed (ops : List SysOp) (hall : SysAllowed ops) {r a : String} (hne : r ≠ a)
    {xr : SysNode} (hr : (Sys.runRev ops).node r = some xr) {V : NodeSt}
    (hV : xr.mgr.gossip.nodes.find a = some V) (hl : V.left = true) :
    xr.sync.pending.find a = none ∧
    (∀ row, xr.mgr.cluster.nodes.find a = some row → row.status = .left) ∧
    (∀ e, ∀ c ∈ xr.mgr.cluster.lookupCandidates e, c.id ≠ a) ∧
    (∀ e allow cs, (xr.mgr.select e allow).1 = .remote cs → a ∉ cs) := by
  obtain ⟨sdr, gr, hsr, hgr, rfl⟩ := Sys.node_eq hr
  have hnr := (sysInv_runRev ops hall).node r sdr gr hsr hgr
  have hnea : a ≠ r := fun e => hne e.symm
  obtain ⟨hp, hrow⟩ := hnr.left_row hV hnea hl
  have hc := hnr.left_not_candidate hV hnea hl
  exact ⟨hp, hrow, hc, fun e allow cs hs => Upstream.select_remote_not (hc e) hs⟩

/-- a node never looks itself up -/
theorem Sys.self_not_candidate (ops : List SysOp) (hall : SysAllowed ops) {a : String} {xa : SysNode}
    (ha : (Sys.runRev ops).node a = some xa) (e : String) :
    ∀ c ∈ xa.mgr.cluster.lookupCandidates e, c.id ≠ a := by
  obtain ⟨sda, ga, hsa, hga, rfl⟩ := Sys.node_eq ha
  have hna := (sysInv_runRev ops hall).node a sda ga hsa hga
  intro c hc
  have := (Node.candidates_active sda.table e c hc).2
  rw [hna.tlid] at this; exact this

/-! ## routing in a world where one node has left -/

namespace Proxy
open Piko.Upstream

/-- routing information has settled around a node `a` that has left: no node holds an `active` row
about `a`; every row about any other node is that node's truth; every node has a row for every
other node but `a` -/
structure SettledExcept (w : World) (a : String) : Prop where
  ids : WId w
  ok : WOk w
  rows_left : ∀ n m, w.nodes.find n = some m → ∀ c ∈ m.cluster.nodes.vals, c.id ≠ n → c.id = a →
    c.status ≠ .active
  rows_sound : ∀ n m, w.nodes.find n = some m → ∀ c ∈ m.cluster.nodes.vals, c.id ≠ n → c.id ≠ a →
    c.status = .active ∧ w.listen.find c.proxyAddr = some c.id ∧
    ∃ mk, w.nodes.find c.id = some mk ∧ ∀ e, (c.serves e = true ↔ mk.registry e ≠ [])
  rows_complete : ∀ n m k mk, w.nodes.find n = some m → w.nodes.find k = some mk → k ≠ n → k ≠ a →
    ∃ c ∈ m.cluster.nodes.vals, c.id = k

/-- `route_settled` around a node that has left: a request entering at any other node is served by
an upstream of a node other than `a` if one of them has one, and answered 502 by the entry node
otherwise - whatever `a` itself still has registered. -/
theorem route_settled_except (lib : Lib) (w : World) (a : String) (hs : SettledExcept w a) (hng : NoGone w)
    (fuel : Nat) (n : String) (m : Mgr) (hn : w.nodes.find n = some m) (hna : n ≠ a) (r : Req)
    (hnf : r.forwarded = false) (e : String) (he : endpointOf lib r = some e) (ch : List Nat) :
    ((∃ k, k ≠ a ∧ w.reg k e ≠ []) →
      ∃ k u, k ≠ a ∧ (routeAt lib (fuel + 2) w n r ch).1.outcome = .served k e u ∧ u ∈ w.reg k e) ∧
    ((∀ k, k ≠ a → w.reg k e = []) →
      (routeAt lib (fuel + 2) w n r ch).1 = { visited := [n], via := [], outcome := .noUpstream n }) := by
  have hid : m.cluster.localId = n := hs.ids n m hn
  by_cases hreg : m.registry e = []
  swap
  · obtain ⟨u, hu, hr⟩ := routeAt_local lib (fuel + 1) w n r ch m e hn (hs.ok n m hn) he hreg
    rw [hng n e u] at hr
    refine ⟨fun _ => ⟨n, u, hna, by rw [hr]; rfl, by rw [reg_of_find hn]; exact hu⟩, fun h => ?_⟩
    have := h n hna; rw [reg_of_find hn] at this; exact absurd this hreg
  rcases handle_spec lib (w.isGone n) m r with ⟨h0, _⟩ | ⟨e0, he0, ⟨lb, u0, lb', h1, h2, _, _, _, hh⟩ |
      ⟨lb, u0, lb', h1, h2, _, _, _, hh⟩ | ⟨lb, h1, _, h3⟩ | ⟨h1, _, hc, hh⟩ | ⟨h1, h2, hh⟩⟩
  · rw [he] at h0; simp at h0
  · rw [he] at he0; simp only [Option.some.injEq] at he0; subst he0
    rw [registry_of_find h1] at hreg
    exact absurd hreg (hs.ok n m hn e lb h1).1
  · rw [he] at he0; simp only [Option.some.injEq] at he0; subst he0
    rw [registry_of_find h1] at hreg
    exact absurd hreg (hs.ok n m hn e lb h1).1
  · exact absurd (hs.ok n m hn e0 lb h1) h3
  · rw [he] at he0; simp only [Option.some.injEq] at he0; subst he0
    obtain ⟨c, hpc⟩ := pickCand_some_of_ne hc (ch.headD 0)
    have hcm := mem_lookupCandidates.mp (pickCand_mem hpc)
    rw [hid] at hcm
    have hca : c.id ≠ a := fun hca => hs.rows_left n m hn c hcm.1 hcm.2.1 hca hcm.2.2.1
    obtain ⟨hact, hlis, mk, hk, hsv⟩ := hs.rows_sound n m hn c hcm.1 hcm.2.1 hca
    have hkreg : mk.registry e ≠ [] := (hsv e).mp hcm.2.2.2
    rw [routeAt_forward lib (fuel + 1) w n r ch m m e _ _ hn hh, hpc]
    simp only [hlis]
    have hk' : ({ w with nodes := w.nodes.insert n m } : World).nodes.find c.id = some mk := by
      simp only [AMap.find_insert]
      have : ¬ n = c.id := fun h => hcm.2.1 h.symm
      simp [this, hk]
    obtain ⟨u, hu, hr⟩ := routeAt_local lib fuel { w with nodes := w.nodes.insert n m } c.id (forwardReq r)
      ch.tail mk e hk' (hs.ok c.id mk hk) (by rw [endpointOf_forwardReq]; exact he) hkreg
    have hg : ({ w with nodes := w.nodes.insert n m } : World).isGone c.id e u = false := hng c.id e u
    rw [hg] at hr
    refine ⟨fun _ => ⟨c.id, u, hca, by rw [hr]; rfl, by rw [reg_of_find hk]; exact hu⟩, fun h => ?_⟩
    have := h c.id hca; rw [reg_of_find hk] at this; exact absurd this hkreg
  · rw [he] at he0; simp only [Option.some.injEq] at he0; subst he0
    have hc : m.cluster.lookupCandidates e = [] := by
      rcases h2 with h2 | h2
      · rw [hnf] at h2; simp at h2
      · exact h2
    rw [(routeAt_terminal lib (fuel + 1) w n r ch m _ hn).2.2.1 hh]
    refine ⟨fun ⟨k, hka, hk⟩ => ?_, fun _ => rfl⟩
    exfalso
    have hkn : k ≠ n := by
      intro h; subst h; rw [reg_of_find hn] at hk; exact hk hreg
    cases hkf : w.nodes.find k with
    | none => simp [World.reg, hkf] at hk
    | some mk =>
      rw [reg_of_find hkf] at hk
      obtain ⟨c, hcv, hcid⟩ := hs.rows_complete n m k mk hn hkf hkn hka
      have hcn : c.id ≠ n := by rw [hcid]; exact hkn
      obtain ⟨hact, _, mk', hk', hsv⟩ := hs.rows_sound n m hn c hcv hcn (by rw [hcid]; exact hka)
      rw [hcid, hkf] at hk'
      simp only [Option.some.injEq] at hk'; subst hk'
      have : c ∈ m.cluster.lookupCandidates e :=
        mem_lookupCandidates.mpr ⟨hcv, by rw [hid]; exact hcn, hact, (hsv e).mpr hk⟩
      rw [hc] at this; simp at this

end Proxy

/-! ## the system settles around a node that has left -/

/-- `SysHealthy` (Props/C01) for a cluster in which node `a` has left: `a`'s own state is flagged
left; nobody else has left; no view of a node other than `a` is flagged unreachable; every other node
advertises non-empty addresses and has fewer than 2^63 upstreams per endpoint; proxy addresses are
pairwise distinct -/
structure SysHealthyExcept (s : Sys) (a : String) : Prop where
  left : ∀ x, s.node a = some x → (own x.mgr.gossip).left = true
  notLeft : ∀ n x, n ≠ a → s.node n = some x → (own x.mgr.gossip).left = false
  reachable : ∀ n x k V, s.node n = some x → x.mgr.gossip.nodes.find k = some V → k ≠ n → k ≠ a →
    V.unreachable = false
  addrs : ∀ n x, n ≠ a → s.node n = some x →
    x.mgr.cluster.localNode.proxyAddr ≠ "" ∧ x.mgr.cluster.localNode.adminAddr ≠ ""
  small : ∀ n x e, n ≠ a → s.node n = some x → (x.mgr.registry e).length < 2 ^ 63
  distinct : ∀ b c xb xc, s.node b = some xb → s.node c = some xc →
    xb.mgr.cluster.localNode.proxyAddr = xc.mgr.cluster.localNode.proxyAddr → b = c

/-- a remote row is about a node of the network -/
theorem Sys.row_is_node (ops : List SysOp) (hall : SysAllowed ops) {n k : String} {x : SysNode}
    (hx : (Sys.runRev ops).node n = some x) (hkn : k ≠ n) {c : Cluster.Node}
    (hfind : x.mgr.cluster.nodes.find k = some c) :
    ∃ V xk, x.mgr.gossip.nodes.find k = some V ∧ (Sys.runRev ops).node k = some xk := by
  obtain ⟨sd, g, hsd, hg, rfl⟩ := Sys.node_eq hx
  have hinv := sysInv_runRev ops hall
  have hni := hinv.node n sd g hsd hg
  obtain ⟨V, hV⟩ := hni.row_known hkn hfind
  have hnet := netInv_sys _ hall
  have hgN : (Gossip.runRev (Sys.netHist ops)).net.nodes.find n = some g := by
    rw [← Sys.runRev_net]; exact hg
  obtain ⟨H, O, hW⟩ := (hnet.node n g hgN).recv.known k V hV
  have hkNet : ∃ gk, (Sys.runRev ops).net.nodes.find k = some gk := by
    rw [Sys.runRev_net]
    unfold GNet.world at hW
    cases hf : (Gossip.runRev (Sys.netHist ops)).net.nodes.find k with
    | none => simp [hf] at hW
    | some gk => exact ⟨gk, rfl⟩
  obtain ⟨gk, hgk⟩ := hkNet
  obtain ⟨sdk, hsdk⟩ := hinv.side_of_net hgk
  exact ⟨V, _, hV, by simp [Sys.node, hsdk, hgk]; rfl⟩

open Piko.Proxy Piko.Cluster in
/-- **The system settles around a node that has left**: after a settle schedule on a cluster that is
healthy except that `a` has left, the routing world is `SettledExcept a`. -/
theorem Sys.settles_except (ops sched : List SysOp) (hall : SysAllowed (sched ++ ops))
    (hq : ∀ op ∈ sched, op.quiet.isSome = true)
    (hjoins : ∀ r b, r ≠ b → ((Sys.runRev ops).node r).isSome = true → ((Sys.runRev ops).node b).isSome = true →
      ∃ now, SysOp.join r b true now ∈ sched)
    (a : String) (hh : SysHealthyExcept (Sys.runRev (sched ++ ops)) a) :
    SettledExcept (Sys.runRev (sched ++ ops)).world a ∧ NoGone (Sys.runRev (sched ++ ops)).world := by
  have hinv := sysInv_runRev _ hall
  have hcaught := C04_caught_up_after_settle ops sched hall hq hjoins
  have hmirror : ∀ n k xn xk, n ≠ k → k ≠ a → (Sys.runRev (sched ++ ops)).node n = some xn →
      (Sys.runRev (sched ++ ops)).node k = some xk →
      ∃ row, xn.mgr.cluster.nodes.find k = some row ∧ row.id = k ∧ row.status = .active ∧
        row.proxyAddr = xk.mgr.cluster.localNode.proxyAddr ∧
        ∀ e, row.endpoints.find e =
          if (xk.mgr.registry e).length = 0 then none else some ((xk.mgr.registry e).length : Int) := by
    intro n k xn xk hnk hka hn hk
    obtain ⟨V, hV, hver⟩ := hcaught n k hnk xn xk hn hk
    obtain ⟨_, row, hrow, _, hid, hp, _, hes, hst⟩ := C04_mirror_system _ hall n k hnk xn xk hn hk V hV hver
      (hh.notLeft k xk hka hk) (hh.addrs k xk hka hk).1 (hh.addrs k xk hka hk).2 (fun e => hh.small k xk e hka hk)
    refine ⟨row, hrow, hid, ?_, hp, hes⟩
    rw [hst, hh.reachable n xn k V hn hV (fun e => hnk e.symm) hka]; rfl
  -- unpack a manager of the world
  have hworld : ∀ n m, (Sys.runRev (sched ++ ops)).world.nodes.find n = some m →
      ∃ x, (Sys.runRev (sched ++ ops)).node n = some x ∧ m = x.mgr := by
    intro n m hm
    rw [Sys.world_find hinv] at hm
    cases hx : (Sys.runRev (sched ++ ops)).node n with
    | none => rw [hx] at hm; cases hm
    | some x =>
      rw [hx] at hm; simp only [Option.map_some, Option.some.injEq] at hm
      exact ⟨x, rfl, hm.symm⟩
  -- a row is filed under its id
  have hrowkey : ∀ n x c, (Sys.runRev (sched ++ ops)).node n = some x → c ∈ x.mgr.cluster.nodes.vals →
      x.mgr.cluster.nodes.find c.id = some c := by
    intro n x c hx hc
    obtain ⟨sd, g, hsd, hg, rfl⟩ := Sys.node_eq hx
    have hni := hinv.node n sd g hsd hg
    obtain ⟨k, hkc⟩ := AMap.mem_vals.mp hc
    have hfind : sd.table.nodes.find k = some c := AMap.find_of_mem hni.tnd hkc
    rw [hni.row_id hfind]; exact hfind
  refine ⟨⟨?_, ?_, ?_, ?_, ?_⟩, fun _ _ _ => rfl⟩
  · intro n m hm
    obtain ⟨x, hx, rfl⟩ := hworld n m hm
    obtain ⟨sd, g, hsd, hg, rfl⟩ := Sys.node_eq hx
    exact (hinv.node n sd g hsd hg).tlid
  · intro n m hm
    obtain ⟨x, hx, rfl⟩ := hworld n m hm
    obtain ⟨sd, g, hsd, hg, rfl⟩ := Sys.node_eq hx
    exact (hinv.node n sd g hsd hg).minv.lbs
  · -- no active row about `a`
    intro n m hm c hc hcn hca hact
    obtain ⟨x, hx, rfl⟩ := hworld n m hm
    have hfind := hrowkey n x c hx hc
    rw [hca] at hfind
    have han : a ≠ n := by rw [← hca]; exact hcn
    obtain ⟨V0, xa, _, hxa⟩ := Sys.row_is_node _ hall hx han hfind
    obtain ⟨V, hV, hver⟩ := hcaught n a (fun e => han e.symm) x xa hx hxa
    obtain ⟨sdn, gn, hsn, hgn, rfl⟩ := Sys.node_eq hx
    obtain ⟨sda, ga, hsa, hga, rfl⟩ := Sys.node_eq hxa
    have hl := Sys.left_of_caught_up _ hall (fun e => han e.symm) hgn hga hV hver (hh.left _ hxa)
    have := ((hinv.node n sdn gn hsn hgn).left_row hV han hl).2 c hfind
    rw [this] at hact; cases hact
  · -- every other remote row is the truth about a real node
    intro n m hm c hc hcn hca
    obtain ⟨x, hx, rfl⟩ := hworld n m hm
    have hfind := hrowkey n x c hx hc
    obtain ⟨V0, xk, _, hxk⟩ := Sys.row_is_node _ hall hx hcn hfind
    obtain ⟨row, hrow, hid, hst, hp, hes⟩ := hmirror n c.id x xk (fun e => hcn e.symm) hca hx hxk
    rw [hfind] at hrow; cases hrow
    refine ⟨hst, ?_, xk.mgr, by rw [Sys.world_find hinv, hxk]; rfl, fun e => ?_⟩
    · rw [hp]
      obtain ⟨sdk, gk, hsdk, hgk, rfl⟩ := Sys.node_eq hxk
      refine Sys.world_listen hinv ?_ hsdk
      intro b d sdb sdd hsb hsd' hbd
      obtain ⟨gb', hgb'⟩ := hinv.net_of_side hsb
      obtain ⟨gd', hgd'⟩ := hinv.net_of_side hsd'
      exact hh.distinct b d _ _ (by simp [Sys.node, hsb, hgb']; rfl) (by simp [Sys.node, hsd', hgd']; rfl) hbd
    · simp only [Cluster.Node.serves, hes e]
      by_cases h0 : (xk.mgr.registry e).length = 0
      · simp [List.length_eq_zero_iff.mp h0]
      · have hne : xk.mgr.registry e ≠ [] := fun e0 => h0 (by rw [e0]; rfl)
        simp only [h0, if_false, hne, ne_eq, not_false_eq_true, iff_true, decide_eq_true_eq]
        omega
  · intro n m k mk hm hk hkn hka
    obtain ⟨x, hx, rfl⟩ := hworld n m hm
    obtain ⟨xk, hxk, rfl⟩ := hworld k mk hk
    obtain ⟨row, hrow, hid, _⟩ := hmirror n k x xk (fun e => hkn e.symm) hka hx hxk
    exact ⟨row, AMap.mem_vals.mpr ⟨k, AMap.mem_of_find hrow⟩, hid⟩

/-! ## the two steps of `Gossip.Leave` in the system -/

theorem Sys.step_leave_eq {s : Sys} {a : String} {ga : CState} (hga : s.net.nodes.find a = some ga) :
    s.step (.leave a) = { net := s.net.setNode a (leaveLocal ga), side := s.side } := by
  simp [Sys.step, Sys.gossip, Net.step, localOp, hga, Sys.feed_nil]

/-- `LeaveLocal` in the system: the node's gossip state becomes `leaveLocal`, nothing else changes -/
theorem Sys.node_after_leave {s : Sys} {a : String} {xa : SysNode} (ha : s.node a = some xa) (k : String) :
    (s.step (.leave a)).node k =
      if a = k then some { xa with mgr := { xa.mgr with gossip := leaveLocal xa.mgr.gossip } } else s.node k := by
  obtain ⟨sda, ga, hsa, hga, rfl⟩ := Sys.node_eq ha
  rw [Sys.step_leave_eq hga]
  by_cases hk : a = k
  · subst hk
    simp [Sys.node, hsa, Net.setNode, Side.sync]
  · simp [Sys.node, Net.setNode, AMap.find_insert, hk]

/-- a receive-side step other than a failure-detector round (and other than a join with its reply,
which notifies two nodes) removes no routing-table row -/
theorem Sys.recv_keeps_row {s : Sys} (hinv : SysInv s) (op : Gossip.Op) (hop : Flow.Recv op)
    (hnj : ∀ n m now, op ≠ .join n m true now) (hnl : ∀ n sus now, op ≠ .liveness n sus now)
    {r a : String} {sd : Side} (hsd : s.side.find r = some sd) (hrow : (sd.table.nodes.find a).isSome = true) :
    ∃ sd', (s.gossip op).side.find r = some sd' ∧ (sd'.table.nodes.find a).isSome = true := by
  rw [Sys.gossip_eq s op hnj]
  simp only []
  cases hw : s.side.find (s.net.step op).who with
  | none => rw [Sys.feed_none _ _ _ hw]; exact ⟨sd, hsd, hrow⟩
  | some sdw =>
    rw [Sys.find_feed _ _ _ hw]
    by_cases hwr : (s.net.step op).who = r
    · rw [hwr] at hw
      rw [hsd] at hw; cases hw
      simp only [hwr, if_true]
      refine ⟨_, rfl, ?_⟩
      rw [Side.observe_table]
      obtain ⟨g, hg⟩ := hinv.net_of_side hsd
      exact SyncerSpec.run_keeps_row _ _ (hinv.node r sd g hsd hg).pend a hrow
        ((Flow.FlowInv.step_recv s.good_marker hinv.flow op hop).2.2 hnl)
    · simp only [hwr, if_false]; exact ⟨sd, hsd, hrow⟩

/-- **A node that advertises nothing pushes tombstones only when it leaves**: no entry of the
`LocalDelta` of `leaveLocal g` under an `endpoint:` key is live. -/
theorem leave_delta_no_live_endpoint {g : CState} (hwf : OwnWF g)
    (hadv : ∀ e, liveValue g ("endpoint:" ++ e) = none) :
    ∀ de ∈ localDelta (leaveLocal g), ∀ x ∈ de.entries, ∀ e, x.key = "endpoint:" ++ e → x.deleted = true := by
  intro de hde x hx e hk
  simp only [localDelta, List.mem_cons, List.not_mem_nil, or_false] at hde
  subst hde
  simp only [deltaEntry, mem_sortByVersion, List.mem_filter] at hx
  obtain ⟨k, hkx⟩ := AMap.mem_vals.mp hx.1
  have hwf' := ownWF_leaveLocal hwf
  have hkey : x.key = k := hwf'.keyed (k, x) hkx
  have hf : (own (leaveLocal g)).entries.find k = some x := AMap.find_of_mem hwf'.nodup hkx
  have hlv : liveValue (leaveLocal g) ("endpoint:" ++ e) = none := by
    rw [liveValue_leaveLocal g (epKey_ne_reserved e).1]; exact hadv e
  unfold liveValue at hlv
  rw [← hk, hkey, hf] at hlv
  by_cases hd : x.deleted = true
  · exact hd
  · simp [hd] at hlv

/-- `C02_caught_up_exact` about the system: a view that has the owner's version is the owner's map -/
theorem Sys.caught_up_exact (ops : List SysOp) (hall : SysAllowed ops) {r a : String} (hne : r ≠ a)
    {xr xa : SysNode} (hr : (Sys.runRev ops).node r = some xr) (ha : (Sys.runRev ops).node a = some xa)
    {V : NodeSt} (hV : xr.mgr.gossip.nodes.find a = some V)
    (hc : V.version = (own xa.mgr.gossip).version) (k : String) :
    V.entries.find k = (own xa.mgr.gossip).entries.find k := by
  obtain ⟨sdr, gr, hsr, hgr, rfl⟩ := Sys.node_eq hr
  obtain ⟨sda, ga, hsa, hga, rfl⟩ := Sys.node_eq ha
  have hobs : Observes (Gossip.runRev (Sys.netHist ops)) r a V (own ga) := by
    refine ⟨fun e => hne e.symm, ⟨gr, ?_, hV⟩, ⟨ga, ?_, rfl⟩⟩
    · rw [← Sys.runRev_net]; exact hgr
    · rw [← Sys.runRev_net]; exact hga
  exact C02_caught_up_exact (allowedRev_netHist ops hall) hobs hc k

/-! ## helpers for concrete runs (generic versions of `SysEx.summary_final` / `SysEx.node_mem`) -/

namespace SysEx

/-- a quiet schedule changes no registry, no local row and nobody's left-flag -/
theorem summary_quiet (sched ops : List SysOp) (hall : SysAllowed (sched ++ ops))
    (hq : ∀ op ∈ sched, op.quiet.isSome = true) (k : String) :
    summary (Sys.runRev (sched ++ ops)) k = summary (Sys.runRev ops) k := by
  cases h0 : (Sys.runRev ops).node k with
  | some x0 =>
    obtain ⟨x1, h1, hl, ht, ho⟩ := Sys.quiet_keeps sched ops hall hq k x0 h0
    simp [summary, h0, h1, hl, ht, ho]
  | none =>
    cases h1 : (Sys.runRev (sched ++ ops)).node k with
    | none => simp [summary, h0, h1]
    | some x1 =>
      exfalso
      obtain ⟨sd, g, hsd, _, _⟩ := Sys.node_eq h1
      have hdom := Sys.side_dom_quiet sched ops hq k
      rw [hsd] at hdom
      cases hs0 : (Sys.runRev ops).side.find k with
      | none => rw [hs0] at hdom; cases hdom
      | some sd0 =>
        obtain ⟨g0, hg0⟩ := (sysInv_runRev ops (sysAllowed_append sched ops hall)).net_of_side hs0
        simp [Sys.node, hs0, hg0] at h0

theorem node_mem_keys {s : Sys} {k : String} (h : (s.node k).isSome = true) : k ∈ s.side.keys := by
  unfold Sys.node at h
  cases hf : s.side.find k with
  | none => simp [hf] at h
  | some sd => exact C14.mem_keys_of_find hf

end SysEx

end Piko
