import PikoModel.Upstream.LB
import Mathlib.Data.List.Rotate
/-!
# Lemmas about the `loadBalancer` model (cursor invariant, round-robin window)
-/
namespace Piko.Upstream

/-- the cursor is in range whenever the balancer is non-empty, and 0 when it is empty -/
def LB.Inv (lb : LB) : Prop := lb.next ≤ lb.ups.length - 1

theorem LB.inv_empty : ({} : LB).Inv := by simp [LB.Inv]

theorem LB.inv_add (lb : LB) (u : Nat) (h : lb.Inv) : (lb.add u).Inv := by
  unfold LB.Inv LB.add at *; simp; omega

theorem LB.inv_remove (lb : LB) (u : Nat) (h : lb.Inv) : (lb.remove u).1.Inv := by
  unfold LB.remove
  by_cases hm : u ∈ lb.ups
  · simp only [hm, if_true]
    have hl := List.length_erase_of_mem hm
    by_cases h0 : (lb.ups.erase u).length = 0
    · simp only [h0, if_true, LB.Inv] at *
      omega
    · simp only [h0, if_false, LB.Inv]
      have : lb.next % (lb.ups.erase u).length < (lb.ups.erase u).length := Nat.mod_lt _ (by omega)
      omega
  · simpa [hm] using h

theorem LB.inv_pick (lb : LB) (h : lb.Inv) : lb.pick.2.Inv := by
  unfold LB.pick
  split
  · exact h
  · split
    · exact h
    · rename_i hne _ _
      simp only [LB.Inv]
      have : (lb.next + 1) % lb.ups.length < lb.ups.length := Nat.mod_lt _ (by omega)
      omega

/-- with the invariant, `Next` never indexes out of range and returns `nil` only when empty -/
theorem LB.pick_of_inv (lb : LB) (h : lb.Inv) (hne : lb.ups ≠ []) :
    ∃ hlt : lb.next < lb.ups.length,
      lb.pick = (.up (lb.ups[lb.next]'hlt), { lb with next := (lb.next + 1) % lb.ups.length }) := by
  have hpos : 0 < lb.ups.length := List.length_pos_iff.mpr hne
  have hlt : lb.next < lb.ups.length := by unfold LB.Inv at h; omega
  refine ⟨hlt, ?_⟩
  unfold LB.pick
  have : ¬ lb.ups.length = 0 := by omega
  simp [this, List.getElem?_eq_getElem hlt]

theorem LB.pick_ups (lb : LB) : lb.pick.2.ups = lb.ups := by
  unfold LB.pick; split
  · rfl
  · split <;> rfl

/-- `k` consecutive `Next` calls -/
def LB.pickN : Nat → LB → List Pick × LB
  | 0, lb => ([], lb)
  | k + 1, lb => let (p, lb') := lb.pick; let (ps, lb'') := LB.pickN k lb'; (p :: ps, lb'')

theorem LB.pickN_spec (k : Nat) : ∀ (lb : LB), lb.Inv → lb.ups ≠ [] →
    (lb.pickN k).1 = (List.range k).map (fun i => Pick.up (lb.ups[(lb.next + i) % lb.ups.length]!)) ∧
    (lb.pickN k).2 = { lb with next := (lb.next + k) % lb.ups.length } := by
  induction k with
  | zero =>
    intro lb h hne
    have hpos : 0 < lb.ups.length := List.length_pos_iff.mpr hne
    have hlt : lb.next < lb.ups.length := by unfold LB.Inv at h; omega
    simp [LB.pickN, Nat.mod_eq_of_lt hlt]
  | succ k ih =>
    intro lb h hne
    obtain ⟨hlt, hp⟩ := lb.pick_of_inv h hne
    have hpos : 0 < lb.ups.length := List.length_pos_iff.mpr hne
    simp only [LB.pickN, hp]
    have hinv' : ({ lb with next := (lb.next + 1) % lb.ups.length } : LB).Inv := by
      have := lb.inv_pick h; rw [hp] at this; exact this
    obtain ⟨ih1, ih2⟩ := ih { lb with next := (lb.next + 1) % lb.ups.length } hinv' hne
    constructor
    · simp only [ih1, List.range_succ_eq_map, List.map_cons, List.map_map]
      congr 1
      · simp [Nat.mod_eq_of_lt hlt, getElem!_pos, hlt]
      · apply List.map_congr_left
        intro i _
        simp only [Function.comp]
        congr 2
        rw [Nat.mod_add_mod]; congr 1; omega
    · rw [ih2]; simp only [LB.mk.injEq, true_and]
      rw [Nat.mod_add_mod]; congr 1; omega

/-- a full round of `n = len` calls returns a rotation of the upstream list and brings the
cursor back to where it was -/
theorem LB.pickN_round (lb : LB) (h : lb.Inv) (hne : lb.ups ≠ []) :
    (lb.pickN lb.ups.length).1 = (lb.ups.rotate lb.next).map Pick.up ∧
    (lb.pickN lb.ups.length).2 = lb := by
  have hpos : 0 < lb.ups.length := List.length_pos_iff.mpr hne
  have hlt : lb.next < lb.ups.length := by unfold LB.Inv at h; omega
  obtain ⟨h1, h2⟩ := LB.pickN_spec lb.ups.length lb h hne
  constructor
  · rw [h1]
    apply List.ext_getElem
    · simp
    · intro i hi1 hi2
      simp only [List.length_map, List.length_range] at hi1
      simp only [List.getElem_map, List.getElem_range]
      rw [List.getElem_rotate]
      have : (lb.next + i) % lb.ups.length < lb.ups.length := Nat.mod_lt _ hpos
      rw [getElem!_pos lb.ups _ this]
      simp only [Nat.add_comm]
  · rw [h2]
    have : (lb.next + lb.ups.length) % lb.ups.length = lb.next := by
      rw [Nat.add_mod_right]; exact Nat.mod_eq_of_lt hlt
    rw [this]

end Piko.Upstream
