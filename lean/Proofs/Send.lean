import Proofs.Recv
import Proofs.C17
import PikoModel.Gossip.Net
import Mathlib.Data.List.Nodup
/-!
# Sender side: the entries `Delta` puts in a packet satisfy `PktInv`
-/
namespace Piko.Gossip
open Piko

/-- a node state (own or view) that may serve as the source of a delta about owner `O` -/
structure SrcOK (H : List Entry) (O N : NodeSt) : Prop where
  wf : EntWF N.entries
  genuine : ∀ k e, N.entries.find k = some e → e ∈ H ∧ e.version ≤ N.version
  complete : ∀ k e, O.entries.find k = some e → e.version ≤ N.version → N.entries.find k = some e

theorem SrcOK.ofOwner {H : List Entry} {O : NodeSt} (ho : OwnerInv H O) : SrcOK H O O :=
  ⟨ho.wf, fun k e h => ⟨ho.cur k e h, ho.hb e (ho.cur k e h)⟩, fun _ _ h _ => h⟩

theorem SrcOK.ofView {H : List Entry} {O V : NodeSt} (hv : ViewInv H O V) : SrcOK H O V :=
  ⟨hv.wf, fun k e h => ⟨hv.genuine k e h, hv.bounded k e h⟩, hv.complete⟩

theorem vals_nodup {m : AMap String Entry} (h : EntWF m) : m.vals.Nodup := by
  have hk : m.keys = m.vals.map (·.key) := by
    unfold AMap.keys AMap.vals
    rw [List.map_map]
    apply List.map_congr_left
    intro p hp
    exact (h.keyed p.1 p.2 (AMap.findOfMem h.nodup hp)).symm
  have : (m.vals.map (·.key)).Nodup := hk ▸ h.nodup
  exact List.Nodup.of_map _ this

theorem pairwise_lt_of_le_nodup {l : List Entry} (hle : l.Pairwise (fun a b => a.version ≤ b.version))
    (hnd : l.Nodup) (hinj : ∀ a ∈ l, ∀ b ∈ l, a.version = b.version → a = b) :
    l.Pairwise (fun a b => a.version < b.version) := by
  induction l with
  | nil => exact List.Pairwise.nil
  | cons x xs ih =>
    rw [List.pairwise_cons] at hle ⊢
    rw [List.nodup_cons] at hnd
    refine ⟨?_, ih hle.2 hnd.2 (fun a ha b hb => hinj a (List.mem_cons_of_mem _ ha) b (List.mem_cons_of_mem _ hb))⟩
    intro y hy
    have h1 := hle.1 y hy
    by_cases he : x.version = y.version
    · have := hinj x (List.mem_cons_self ..) y (List.mem_cons_of_mem _ hy) he
      subst this; exact absurd hy hnd.1
    · omega

theorem deltaEntry_pktInv {H : List Entry} {O N : NodeSt} (ho : OwnerInv H O) (hn : SrcOK H O N)
    (v0 : Nat) : PktInv H O v0 (deltaEntry N v0).entries := by
  have hmem : ∀ e, e ∈ (deltaEntry N v0).entries ↔ (∃ k, N.entries.find k = some e) ∧ v0 < e.version := by
    intro e
    simp only [deltaEntry, mem_sortByVersion, List.mem_filter, decide_eq_true_eq,
      AMap.mem_vals_iff hn.wf.nodup]
  refine ⟨?_, ?_, ?_, ?_⟩
  · apply pairwise_lt_of_le_nodup (pairwise_sortByVersion _)
    · exact ((sortByVersion_perm _).nodup_iff).mpr ((vals_nodup hn.wf).filter _)
    · intro a ha b hb hv
      obtain ⟨⟨ka, hka⟩, _⟩ := (hmem a).mp ha
      obtain ⟨⟨kb, hkb⟩, _⟩ := (hmem b).mp hb
      exact ho.inj a (hn.genuine ka a hka).1 b (hn.genuine kb b hkb).1 hv
  · intro e he
    obtain ⟨⟨k, hk⟩, _⟩ := (hmem e).mp he
    exact (hn.genuine k e hk).1
  · intro e he; exact ((hmem e).mp he).2
  · intro k e' hf hlt ⟨l, hl, hle⟩
    obtain ⟨⟨kl, hkl⟩, _⟩ := (hmem l).mp hl
    have := (hn.genuine kl l hkl).2
    exact (hmem e').mpr ⟨⟨k, hn.complete k e' hf (by omega)⟩, hlt⟩

theorem PktInv.take {H : List Entry} {O : NodeSt} {v0 : Nat} {es : List Entry}
    (h : PktInv H O v0 es) (n : Nat) : PktInv H O v0 (es.take n) := by
  refine ⟨h.sorted.sublist (List.take_sublist n es), fun e he => h.genuine e (List.mem_of_mem_take he),
    fun e he => h.base e (List.mem_of_mem_take he), ?_⟩
  intro k e' hf hlt ⟨l, hl, hle⟩
  have hin := h.complete k e' hf hlt ⟨l, List.mem_of_mem_take hl, hle⟩
  -- e' is at or before l in a strictly sorted list, so it is inside the same prefix
  rw [← List.take_append_drop n es] at hin
  rcases List.mem_append.mp hin with h1 | h2
  · exact h1
  · exfalso
    have hs := h.sorted
    rw [← List.take_append_drop n es, List.pairwise_append] at hs
    have := hs.2.2 l hl e' h2
    omega

theorem cutDelta_spec (n : Nat) (d : Delta) : ∀ x ∈ cutDelta n d,
    ∃ y ∈ d, x.id = y.id ∧ x.addr = y.addr ∧ ∃ m, x.entries = y.entries.take m := by
  induction d generalizing n with
  | nil => intro x hx; cases n <;> simp [cutDelta] at hx
  | cons de rest ih =>
    intro x hx
    cases n with
    | zero => simp [cutDelta] at hx
    | succ n =>
      unfold cutDelta at hx
      by_cases hlt : n < de.entries.length
      · simp only [hlt, if_true, List.mem_singleton] at hx
        subst hx
        exact ⟨de, List.mem_cons_self .., rfl, rfl, n, rfl⟩
      · simp only [hlt, if_false, List.mem_cons] at hx
        rcases hx with rfl | hx
        · exact ⟨x, List.mem_cons_self .., rfl, rfl, x.entries.length, by simp⟩
        · obtain ⟨y, hy, h⟩ := ih _ x hx
          exact ⟨y, List.mem_cons_of_mem _ hy, h⟩

/-- the world agrees with a sender state about the sender's own node, and every owner in it
satisfies its invariant -/
structure WorldOK (W : World) : Prop where
  owners : ∀ a H O, W a = some (H, O) → OwnerInv H O

theorem delta_spec {W : World} {s : CState} (hw : WorldOK W) (hs : RecvInv W s)
    (hnd : s.nodes.NoDupKeys) (hown : ∃ H, W s.localId = some (H, own s))
    (d : Digest) (full : Bool) : ∀ x ∈ delta s d full,
    ∃ H O v0, W x.id = some (H, O) ∧ PktInv H O v0 x.entries ∧
      (v0 = 0 ∨ ∃ de ∈ d, de.id = x.id ∧ de.version = v0) := by
  -- any node of the sender's map is a valid source for its owner
  have hsrc : ∀ a n, s.nodes.find a = some n → ∃ H O, W a = some (H, O) ∧ SrcOK H O n ∧ n.id = a := by
    intro a n hf
    have hid := hs.ids a n hf
    by_cases hal : a = s.localId
    · obtain ⟨H, hH⟩ := hown
      subst hal
      have : own s = n := by simp [own, hf]
      rw [this] at hH
      exact ⟨H, n, hH, SrcOK.ofOwner (hw.owners _ _ _ hH), hid⟩
    · obtain ⟨H, O, hW⟩ := hs.known a n hf
      exact ⟨H, O, hW, SrcOK.ofView (hs.views a n H O hf hal hW), hid⟩
  intro x hx
  unfold delta at hx
  rcases List.mem_append.mp hx with h1 | h2
  · obtain ⟨de, hde, hsome⟩ := List.mem_filterMap.mp h1
    cases hf : s.nodes.find de.id with
    | none => simp [hf] at hsome
    | some n =>
      simp only [hf] at hsome
      split at hsome
      · cases hsome
      · simp only [Option.some.injEq] at hsome
        subst hsome
        obtain ⟨H, O, hW, hsrc', hid⟩ := hsrc de.id n hf
        have hxid : (deltaEntry n de.version).id = de.id := hid
        exact ⟨H, O, de.version, by rw [hxid]; exact hW,
          deltaEntry_pktInv (hw.owners _ _ _ hW) hsrc' _, Or.inr ⟨de, hde, hxid.symm, rfl⟩⟩
  · by_cases hfull : full = true
    · simp only [hfull, if_true, List.mem_map, List.mem_filter] at h2
      obtain ⟨n, ⟨hn, _⟩, rfl⟩ := h2
      obtain ⟨a, ha⟩ := (AMap.mem_vals_iff hnd).mp hn
      obtain ⟨H, O, hW, hsrc', hid⟩ := hsrc a n ha
      have hxid : (deltaEntry n 0).id = a := hid
      exact ⟨H, O, 0, by rw [hxid]; exact hW, deltaEntry_pktInv (hw.owners _ _ _ hW) hsrc' _, Or.inl rfl⟩
    · simp [hfull] at h2

end Piko.Gossip
