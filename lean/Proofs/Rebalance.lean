import PikoModel.Upstream.Rebalance
import Mathlib.Tactic.Linarith
import Mathlib.Tactic.Positivity
import Mathlib.Tactic.Ring
/-!
# Lemmas about the `Rebalance` model (C19)

Arithmetic of the decision (`belowThreshold`, `overCap`, `ceilRate`, `shedding`,
`shedSessions`) and the routing-table invariant "the local row is present, active, and
keys are unique" over every list of `cluster.State` API calls.
-/
namespace Piko.Rebalance
open Piko Piko.Cluster

/-! ## arithmetic -/

theorem belowThreshold_pos (c : Config) (l : Nat) {avg : Int} (h : 0 < avg) :
    belowThreshold c l avg = true ↔ ((l : Int) - avg) * (c.thrDen : Int) < (c.thrNum : Int) * avg := by
  simp [belowThreshold, h]

theorem belowThreshold_zero (c : Config) (l : Nat) : belowThreshold c l 0 = false := by
  simp [belowThreshold]

/-- a negative average is always "below threshold": the balance is negative -/
theorem belowThreshold_neg (c : Config) (hwf : c.WF) (l : Nat) {avg : Int} (h : avg < 0) :
    belowThreshold c l avg = true := by
  have h1 : ¬ (0 < avg) := by omega
  have h2 : ¬ (avg = 0) := by omega
  simp only [belowThreshold, h1, h2, if_false, decide_eq_true_eq]
  have hd : (0 : Int) < (c.thrDen : Int) := by exact_mod_cast hwf.1
  have hn : (0 : Int) ≤ (c.thrNum : Int) := by positivity
  have hl : (0 : Int) ≤ (l : Int) := by positivity
  have hp : 0 < ((l : Int) - avg) * (c.thrDen : Int) := Int.mul_pos (by omega) hd
  have hq : (c.thrNum : Int) * avg ≤ 0 := Int.mul_nonpos_of_nonneg_of_nonpos hn (by omega)
  omega

/-- `ceilRate` is the ceiling of `avg·rateNum/rateDen`: the least integer `k` with
`avg·rateNum ≤ k·rateDen`. -/
theorem ceilRate_spec (c : Config) (hwf : c.WF) (avg : Int) :
    avg * (c.rateNum : Int) ≤ ceilRate c avg * (c.rateDen : Int) ∧
    (ceilRate c avg - 1) * (c.rateDen : Int) < avg * (c.rateNum : Int) := by
  have hd : (0 : Int) < (c.rateDen : Int) := by exact_mod_cast hwf.2
  unfold ceilRate
  rw [Int.fdiv_eq_ediv_of_nonneg _ (Int.le_of_lt hd)]
  generalize avg * (c.rateNum : Int) = x
  have h1 := Int.ediv_mul_le (-x) (Int.ne_of_gt hd)
  have h2 := Int.lt_ediv_add_one_mul_self (-x) hd
  constructor
  · have : -(-x / (c.rateDen : Int)) * (c.rateDen : Int) = -((-x / (c.rateDen : Int)) * (c.rateDen : Int)) := by ring
    rw [this]; omega
  · have : (-(-x / (c.rateDen : Int)) - 1) * (c.rateDen : Int) = -(((-x / (c.rateDen : Int)) + 1) * (c.rateDen : Int)) := by ring
    rw [this]; omega

theorem ceilRate_least (c : Config) (hwf : c.WF) (avg k : Int)
    (h : avg * (c.rateNum : Int) ≤ k * (c.rateDen : Int)) : ceilRate c avg ≤ k := by
  have hd : (0 : Int) < (c.rateDen : Int) := by exact_mod_cast hwf.2
  have h2 := (ceilRate_spec c hwf avg).2
  by_contra hc
  have hk : k ≤ ceilRate c avg - 1 := by omega
  have := Int.mul_le_mul_of_nonneg_right hk (Int.le_of_lt hd)
  omega

theorem ceilRate_zero (c : Config) : ceilRate c 0 = 0 := by
  simp [ceilRate, Int.fdiv]

theorem ceilRate_nonneg (c : Config) (hwf : c.WF) {avg : Int} (h : 0 ≤ avg) : 0 ≤ ceilRate c avg := by
  have hd : (0 : Int) < (c.rateDen : Int) := by exact_mod_cast hwf.2
  have h1 := (ceilRate_spec c hwf avg).1
  have hx : 0 ≤ avg * (c.rateNum : Int) := Int.mul_nonneg h (by positivity)
  by_contra hc
  have : ceilRate c avg * (c.rateDen : Int) < 0 := Int.mul_neg_of_neg_of_pos (by omega) hd
  omega

theorem shedSessions_le_open (n : Int) (o : Nat) : shedSessions n o ≤ o := by
  unfold shedSessions; exact Nat.min_le_left _ _

theorem shedSessions_le (n : Int) (o : Nat) : shedSessions n o ≤ max 1 n.toNat := by
  unfold shedSessions
  refine Nat.le_trans (Nat.min_le_right _ _) ?_
  omega

theorem shedSessions_pos (n : Int) {o : Nat} (h : 0 < o) : 0 < shedSessions n o := by
  unfold shedSessions
  have : 0 < (max n 1).toNat := by omega
  omega

/-- the truncated exact shedding never exceeds the cap when the cap test fails -/
theorem shedding_le_ceil (c : Config) (hwf : c.WF) (l : Nat) {avg : Int} (hpos : 0 < avg)
    (hnb : belowThreshold c l avg = false) : shedding c l avg ≤ max 1 (ceilRate c avg) := by
  unfold shedding
  by_cases hoc : overCap c l avg = true
  · simp only [hoc, if_true]; omega
  · simp only [hoc]
    have hd : (0 : Int) < (c.rateDen : Int) := by exact_mod_cast hwf.2
    have htd : (0 : Int) < (c.thrDen : Int) := by exact_mod_cast hwf.1
    -- l ≥ avg from the threshold test
    have hb : ¬ (((l : Int) - avg) * (c.thrDen : Int) < (c.thrNum : Int) * avg) := by
      intro hh
      have := (belowThreshold_pos c l hpos).mpr hh
      rw [hnb] at this; exact absurd this (by simp)
    have hge : avg ≤ (l : Int) := by
      by_contra hlt
      have h1 : ((l : Int) - avg) * (c.thrDen : Int) < 0 := Int.mul_neg_of_neg_of_pos (by omega) htd
      have h2 : 0 ≤ (c.thrNum : Int) * avg := Int.mul_nonneg (by positivity) (Int.le_of_lt hpos)
      omega
    have hX : 0 ≤ (l : Int) * ((l : Int) - avg) := Int.mul_nonneg (by positivity) (by omega)
    have hcap : (l : Int) * ((l : Int) - avg) * (c.rateDen : Int) ≤ avg * (c.rateNum : Int) * avg := by
      have : ¬ ((l : Int) * ((l : Int) - avg) * (c.rateDen : Int) > avg * (c.rateNum : Int) * avg) := by
        intro hh; apply hoc; simp [overCap, hpos, hh]
      omega
    rw [Int.tdiv_eq_ediv_of_nonneg hX]
    generalize (l : Int) * ((l : Int) - avg) = X at *
    have hq := Int.ediv_mul_le X (Int.ne_of_gt hpos)
    -- q·avg·rd ≤ X·rd ≤ avg·(avg·rn)  ⇒  q·rd ≤ avg·rn  ⇒  q ≤ ⌈avg·rn/rd⌉
    have h1 : X / avg * avg * (c.rateDen : Int) ≤ X * (c.rateDen : Int) :=
      Int.mul_le_mul_of_nonneg_right hq (Int.le_of_lt hd)
    have h2 : avg * (X / avg * (c.rateDen : Int)) ≤ avg * (avg * (c.rateNum : Int)) := by
      have e1 : avg * (X / avg * (c.rateDen : Int)) = X / avg * avg * (c.rateDen : Int) := by ring
      have e2 : avg * (avg * (c.rateNum : Int)) = avg * (c.rateNum : Int) * avg := by ring
      rw [e1, e2]; omega
    have h3 : X / avg * (c.rateDen : Int) ≤ avg * (c.rateNum : Int) := Int.le_of_mul_le_mul_left h2 hpos
    -- q·rd ≤ avg·rn ≤ ⌈⌉·rd ⇒ q ≤ ⌈⌉
    have h5 := (ceilRate_spec c hwf avg).1
    have h6 : X / avg * (c.rateDen : Int) ≤ ceilRate c avg * (c.rateDen : Int) := by omega
    have h7 : X / avg ≤ ceilRate c avg := Int.le_of_mul_le_mul_right h6 hd
    omega

/-! ## the decision -/

theorem closed_pos_iff (d : Decision) (o : Nat) (h : 0 < d.closed o) : ∃ n, d = .shed n ∧ 0 < o := by
  cases d <;> simp [Decision.closed] at h
  case shed n =>
    refine ⟨n, rfl, ?_⟩
    have := shedSessions_le_open n o
    omega

/-- what a `shed` decision of `Rebalance` implies, exactly as the code tests it -/
theorem rebalance_shed (c : Config) (hwf : c.WF) (nodes l : Nat) (avg : Option Int) (n : Int)
    (h : rebalance c nodes l avg = .shed n) :
    1 < nodes ∧ 0 < l ∧ c.minConns ≤ l ∧
    ∃ a, avg = some a ∧ 0 ≤ a ∧ belowThreshold c l a = false ∧ n = shedding c l a := by
  unfold rebalance at h
  by_cases h1 : nodes ≤ 1
  · simp [h1] at h
  · by_cases h2 : l = 0 ∨ l < c.minConns
    · simp [h1, h2] at h
    · simp only [h1, h2, if_false] at h
      cases avg with
      | none => simp at h
      | some a =>
        simp only at h
        by_cases h3 : belowThreshold c l a = true
        · simp [h3] at h
        · simp only [h3] at h
          have hb : belowThreshold c l a = false := by simpa using h3
          refine ⟨by omega, by omega, by omega, a, rfl, ?_, hb, ?_⟩
          · by_contra hneg
            have := belowThreshold_neg c hwf l (avg := a) (by omega)
            rw [hb] at this; exact absurd this (by simp)
          · injection h with h; exact h.symm

theorem closedOfTick_le (c : Config) (nodes l : Nat) (avg : Option Int) (o : Nat) :
    closedOfTick (rebalanceTick c nodes l avg) o ≤ (rebalance c nodes l avg).closed o := by
  unfold rebalanceTick closedOfTick
  by_cases h : c.enabled = true <;> simp [h]

theorem closedOfTick_pos (c : Config) (nodes l : Nat) (avg : Option Int) (o : Nat)
    (h : 0 < closedOfTick (rebalanceTick c nodes l avg) o) :
    c.enabled = true ∧ 0 < (rebalance c nodes l avg).closed o := by
  unfold rebalanceTick closedOfTick at h
  by_cases he : c.enabled = true
  · simp [he] at h; exact ⟨he, h⟩
  · simp [he] at h

/-! ## the routing table: local row present and active, keys unique -/

/-- the nodes `AvgConns` averages over -/
def activeNodes (s : State) : List Node := s.nodes.vals.filter (fun n => n.status = .active)

theorem avgConns_eq (s : State) :
    s.avgConns = if (activeNodes s).length = 0 then none
      else some (Int.tdiv (((activeNodes s).map Node.conns).foldl (· + ·) 0) (activeNodes s).length) := rfl

structure CInv (s : State) : Prop where
  nodup : AMap.NoDupKeys s.nodes
  loc : ∃ n, s.nodes.find s.localId = some n ∧ n.status = .active

theorem cinv_new (n : Node) : CInv (State.new n) := by
  refine ⟨?_, ?_⟩
  · simp [State.new, AMap.NoDupKeys, AMap.keys]
  · exact ⟨{ n with status := .active }, by simp [State.new], rfl⟩

theorem cinv_insert_remote {s : State} (h : CInv s) {id : String} (hid : id ≠ s.localId) (n : Node) :
    CInv { s with nodes := s.nodes.insert id n } := by
  obtain ⟨ln, hf, hs⟩ := h.loc
  refine ⟨h.nodup.insert id n, ln, ?_, hs⟩
  show AMap.find (AMap.insert s.nodes id n) s.localId = some ln
  rw [AMap.find_insert_ne s.nodes n (fun e => hid e.symm)]; exact hf

theorem cinv_erase_remote {s : State} (h : CInv s) {id : String} (hid : id ≠ s.localId) :
    CInv { s with nodes := s.nodes.erase id } := by
  obtain ⟨ln, hf, hs⟩ := h.loc
  refine ⟨h.nodup.erase id, ln, ?_, hs⟩
  show AMap.find (AMap.erase s.nodes id) s.localId = some ln
  rw [AMap.find_erase_ne s.nodes (fun e => hid e.symm)]; exact hf

theorem cinv_setLocal {s : State} (h : CInv s) (n : Node) (hn : n.status = .active) :
    CInv (s.setLocal n) := by
  refine ⟨h.nodup.insert _ _, n, ?_, hn⟩
  simp [State.setLocal]

theorem localNode_status {s : State} (h : CInv s) : s.localNode.status = .active := by
  obtain ⟨ln, hf, hs⟩ := h.loc
  simp [State.localNode, hf, hs]

theorem cinv_updateRemote {s : State} (h : CInv s) (id : String) (f : Node → Node) :
    CInv (s.updateRemote id f).1 := by
  unfold State.updateRemote
  by_cases hid : id = s.localId
  · simp [hid, h]
  · simp only [hid, if_false]
    cases hf : s.nodes.find id with
    | none => exact h
    | some n => exact cinv_insert_remote h hid (f n)

theorem cinv_applyCOp {s : State} (h : CInv s) (op : COp) : CInv (applyCOp s op).1 := by
  cases op with
  | addNode n =>
    simp only [applyCOp, State.addNode]
    by_cases hid : n.id = s.localId
    · simp [hid, h]
    · simp only [hid, if_false]; exact cinv_insert_remote h hid n
  | removeNode id =>
    simp only [applyCOp, State.removeNode]
    by_cases hid : id = s.localId
    · simp [hid, h]
    · simp only [hid, if_false]
      cases hf : s.nodes.find id with
      | none => exact h
      | some n => exact cinv_erase_remote h hid
  | updateRemoteStatus id st => exact cinv_updateRemote h id _
  | updateRemoteEndpoint id e l => exact cinv_updateRemote h id _
  | removeRemoteEndpoint id e => exact cinv_updateRemote h id _
  | addLocalEndpoint e =>
    simp only [applyCOp, State.addLocalEndpoint]
    exact cinv_setLocal h _ (localNode_status h)
  | removeLocalEndpoint e =>
    simp only [applyCOp, State.removeLocalEndpoint]
    cases hf : s.localNode.endpoints.find e with
    | none => exact h
    | some l =>
      simp only
      by_cases h0 : l = 0
      · simp [h0, h]
      · by_cases h1 : l > 1
        · simp only [h0, h1, if_false, if_true]; exact cinv_setLocal h _ (localNode_status h)
        · simp only [h0, h1, if_false]; exact cinv_setLocal h _ (localNode_status h)

theorem cinv_run (s : State) (h : CInv s) (ops : List COp) : CInv (runCOps s ops) := by
  induction ops generalizing s with
  | nil => exact h
  | cons op ops ih => exact ih _ (cinv_applyCOp h op)

theorem localId_applyCOp (s : State) (op : COp) : (applyCOp s op).1.localId = s.localId := by
  cases op <;> simp [applyCOp, State.addNode, State.removeNode, State.updateRemoteStatus,
    State.updateRemoteEndpoint, State.removeRemoteEndpoint, State.updateRemote,
    State.addLocalEndpoint, State.removeLocalEndpoint, State.setLocal] <;>
    (repeat' split) <;> rfl

/-- with the invariant there is at least one active node: `AvgConns` does not divide by 0 -/
theorem activeNodes_pos {s : State} (h : CInv s) : 0 < (activeNodes s).length := by
  obtain ⟨ln, hf, hs⟩ := h.loc
  have hm : ln ∈ s.nodes.vals := by
    have := AMap.mem_of_find hf
    simp only [AMap.vals, List.mem_map]
    exact ⟨_, this, rfl⟩
  have : ln ∈ activeNodes s := by
    simp [activeNodes, hm, hs]
  exact List.length_pos_of_mem this

theorem avgConns_isSome {s : State} (h : CInv s) : s.avgConns ≠ none := by
  rw [avgConns_eq]
  have := activeNodes_pos h
  have h0 : ¬ (activeNodes s).length = 0 := by omega
  simp [h0]

/-! ## rows that are not active do not enter the average -/

section AMapFilter
variable {κ ν : Type} [DecidableEq κ]

theorem erase_of_find_none (m : AMap κ ν) (k : κ) (h : AMap.find m k = none) : AMap.erase m k = m := by
  induction m with
  | nil => rfl
  | cons p m ih =>
    obtain ⟨k', v⟩ := p
    rw [AMap.erase_cons]
    by_cases hk : k' = k
    · simp [hk] at h
    · simp only [AMap.find_cons, hk, if_false] at h
      simp [hk, ih h]

theorem find_none_of_not_mem_keys (m : AMap κ ν) (k : κ) (h : k ∉ AMap.keys m) : AMap.find m k = none := by
  induction m with
  | nil => rfl
  | cons p m ih =>
    obtain ⟨k', v⟩ := p
    simp only [AMap.keys, List.map_cons, List.mem_cons, not_or] at h
    have hk : ¬ k' = k := fun e => h.1 e.symm
    simp only [AMap.find_cons, hk, if_false]
    exact ih (by simpa [AMap.keys] using h.2)

/-- erasing a key whose (unique) value fails `p` does not change the `p`-filtered values -/
theorem filter_vals_erase (m : AMap κ ν) (p : ν → Bool) (k : κ) (hnd : AMap.NoDupKeys m)
    (h : ∀ v, AMap.find m k = some v → p v = false) :
    (AMap.vals (AMap.erase m k)).filter p = (AMap.vals m).filter p := by
  induction m with
  | nil => rfl
  | cons q m ih =>
    obtain ⟨k', v⟩ := q
    have hnd' : AMap.NoDupKeys m := by
      simp only [AMap.NoDupKeys, AMap.keys, List.map_cons, List.nodup_cons] at hnd
      exact hnd.2
    have hk'nm : k' ∉ AMap.keys m := by
      simp only [AMap.NoDupKeys, AMap.keys, List.map_cons, List.nodup_cons] at hnd
      exact hnd.1
    rw [AMap.erase_cons]
    by_cases hk : k' = k
    · subst hk
      have hv : p v = false := h v (by simp)
      have hn := find_none_of_not_mem_keys m k' hk'nm
      simp [erase_of_find_none m k' hn, AMap.vals, hv]
    · have h' : ∀ v, AMap.find m k = some v → p v = false := by
        intro v' hv'
        apply h v'
        simp [hk, hv']
      have := ih hnd' h'
      simp only [hk, if_false]
      simp only [AMap.vals, List.map_cons, List.filter_cons] at this ⊢
      rw [this]

theorem filter_vals_insert (m : AMap κ ν) (p : ν → Bool) (k : κ) (v' : ν) (hnd : AMap.NoDupKeys m)
    (h : ∀ v, AMap.find m k = some v → p v = false) (hv' : p v' = false) :
    (AMap.vals (AMap.insert m k v')).filter p = (AMap.vals m).filter p := by
  have := filter_vals_erase m p k hnd h
  simp only [AMap.insert, AMap.vals, List.map_cons, List.filter_cons, hv'] at this ⊢
  simpa using this

end AMapFilter

def inactive (n : Node) : Prop := n.status ≠ .active

theorem activeNodes_insert_inactive {s : State} (h : CInv s) (id : String) (n' : Node)
    (hold : ∀ n, s.nodes.find id = some n → inactive n) (hnew : inactive n') :
    activeNodes { s with nodes := s.nodes.insert id n' } = activeNodes s := by
  unfold activeNodes
  apply filter_vals_insert _ _ _ _ h.nodup
  · intro v hv; simpa [inactive] using hold v hv
  · simpa [inactive] using hnew

theorem activeNodes_erase_inactive {s : State} (h : CInv s) (id : String)
    (hold : ∀ n, s.nodes.find id = some n → inactive n) :
    activeNodes { s with nodes := s.nodes.erase id } = activeNodes s := by
  unfold activeNodes
  apply filter_vals_erase _ _ _ h.nodup
  intro v hv; simpa [inactive] using hold v hv

theorem avgConns_congr {s t : State} (h : activeNodes s = activeNodes t) : s.avgConns = t.avgConns := by
  rw [avgConns_eq, avgConns_eq, h]

theorem avg_updateRemote_inactive {s : State} (h : CInv s) (id : String) (f : Node → Node)
    (hold : ∀ n, s.nodes.find id = some n → inactive n) (hf : ∀ n, inactive n → inactive (f n)) :
    (s.updateRemote id f).1.avgConns = s.avgConns := by
  unfold State.updateRemote
  by_cases hid : id = s.localId
  · simp [hid]
  · simp only [hid, if_false]
    cases hfind : s.nodes.find id with
    | none => rfl
    | some n =>
      exact avgConns_congr (activeNodes_insert_inactive h id (f n) hold (hf n (hold n hfind)))

end Piko.Rebalance
